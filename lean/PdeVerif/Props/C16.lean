import PdeVerif.Model.Interp
import PdeVerif.Lemmas.Interp
import Mathlib.Data.Rat.Floor
import Mathlib.Tactic.NormNum
/-
C16 - interpolation is exact where it must be; insertion conserves the amount.

Property theorems about `PdeVerif.Interp` (model of `get_axis_data`, `make_single_interpolator`,
`DataFieldBase.insert`, `NumbaBackend.make_inserter`).  All statements hold for every ordered field
with floor, every number of cells, spacing, offset, data, cell volumes (an arbitrary function: every
grid class) and every point.  `eps` is the weight-clipping constant of the code (`1e-15`): theorems
whose statement fixes exact weights are stated here for `eps ≤ 0` (clipping inert, i.e. exact
arithmetic); `exact_at_centres`, `outside_is_rejected`, `inside_is_accepted`, `indices_in_range`,
`periodic_shift` hold for the real constant as they stand.  `Props/C16Eps.lean` lifts every value
theorem of this file to the real constant (`0 ≤ eps ≤ 1/2`) with explicit error terms
(`clipping_error`, `..2`, `..3`: at most `axes · eps · max|data|`; insertion: `axes · eps · |amount|`).

Vocabulary (defined in `Lemmas/Interp.lean`): `centre ax i = lo + (i+1/2)·dx`, `upperEnd ax = lo +
size·dx`, `shift ghost` = 1 in ghost-cell mode (indices into the padded array) else 0, `lerp t u v =
(1-t)u + t v`, `ax.ok` = at least one cell and positive spacing, `insideAxis`/`outsideAxis`
(periodic axes have no outside), `inLowerStrip`/`inUpperStrip` = within half a cell of a
non-periodic end, `ghostLine g c τ = (g+c)/2 + τ(c-(g+c)/2)`.
-/
set_option linter.unusedSectionVars false
namespace PdeVerif.Interp
open PdeVerif

section
variable {K : Type} [Field K] [LinearOrder K] [IsStrictOrderedRing K] [FloorRing K]

/-! ## weights and indices -/

/-- **weights**: with inert clipping the two weights of every accepted coordinate are non-negative
and sum to one - in every branch (bulk, boundary strips, periodic, ghost-cell mode, cell
coordinates) -/
theorem weights_nonneg_sum_one {eps : K} (he : eps ≤ 0) (ghost cc : Bool) (ax : Axis K) (coord : K)
    (a : AxisData K) (h : axisData eps ghost cc ax coord = some a) :
    a.wl + a.wh = 1 ∧ 0 ≤ a.wl ∧ 0 ≤ a.wh :=
  axisDataX_weights he h

/-- the weights for any clipping constant (the code uses `1e-15`): non-negative, sum at most one
and, for `eps ≤ 1/2`, at least `1 - max eps 0` -/
theorem weights_clipped (eps : K) (ghost cc : Bool) (ax : Axis K) (coord : K)
    (a : AxisData K) (h : axisData eps ghost cc ax coord = some a) :
    0 ≤ a.wl ∧ 0 ≤ a.wh ∧ a.wl + a.wh ≤ 1 ∧ (eps ≤ 1/2 → 1 - max eps 0 ≤ a.wl + a.wh) :=
  axisDataX_weights_clipped h

/-- clipping changes a (non-negative) weight by at most `max eps 0` -/
theorem clip_error (eps w : K) (hw : 0 ≤ w) : 0 ≤ w - clip eps w ∧ w - clip eps w ≤ max eps 0 :=
  clip_close hw

/-- **indices**: without ghost cells both support points are cells of the grid `0 .. size-1`
(any clipping constant, any mode of the coordinate) -/
theorem indices_in_range (eps : K) (cc : Bool) (ax : Axis K) (hs : 1 ≤ ax.size) (coord : K)
    (a : AxisData K) (h : axisData eps false cc ax coord = some a) :
    0 ≤ a.li ∧ a.li < ax.size ∧ 0 ≤ a.hi ∧ a.hi < ax.size :=
  axisDataX_indices hs h

/-- **indices, ghost-cell mode**: the support points lie in the padded array `0 .. size+1`; on a
periodic axis only the valid cells `1 .. size` are used -/
theorem indices_in_range_ghost (eps : K) (cc : Bool) (ax : Axis K) (hs : 1 ≤ ax.size) (coord : K)
    (a : AxisData K) (h : axisData eps true cc ax coord = some a) :
    0 ≤ a.li ∧ a.li ≤ ax.size + 1 ∧ 0 ≤ a.hi ∧ a.hi ≤ ax.size + 1 ∧
      (ax.periodic = true → 1 ≤ a.li ∧ a.li ≤ ax.size ∧ 1 ≤ a.hi ∧ a.hi ≤ ax.size) :=
  axisDataX_indices_ghost hs h

/-! ## C16, interpolation: exact at centres -/

/-- **exact at cell centres**, 1 axis (plain, periodic, ghost mode; any `eps ≤ 1`, any fill) -/
theorem exact_at_centres {eps : K} (he : eps ≤ 1) (ghost : Bool) (fill : Option K) (ax : Axis K)
    (hdx : ax.dx ≠ 0) (data : Idx → K) (i : Int) (hi0 : 0 ≤ i) (hi1 : i < ax.size) :
    interp1 eps ghost false fill ax data (centre ax i) = some (data [i + shift ghost]) := by
  obtain ⟨a, ha, hf⟩ := axisApply_centre he ghost ax hdx i hi0 hi1
  rw [interp1_some ha, hf]

theorem exact_at_centres2 {eps : K} (he : eps ≤ 1) (ghost : Bool) (fill : Option K) (ax ay : Axis K)
    (hdx : ax.dx ≠ 0) (hdy : ay.dx ≠ 0) (data : Idx → K) (i j : Int)
    (hi0 : 0 ≤ i) (hi1 : i < ax.size) (hj0 : 0 ≤ j) (hj1 : j < ay.size) :
    interp2 eps ghost false fill ax ay data (centre ax i) (centre ay j)
      = some (data [i + shift ghost, j + shift ghost]) := by
  obtain ⟨a, ha, hfa⟩ := axisApply_centre he ghost ax hdx i hi0 hi1
  obtain ⟨b, hb, hfb⟩ := axisApply_centre he ghost ay hdy j hj0 hj1
  rw [interp2_some ha hb, hfa, hfb]

theorem exact_at_centres3 {eps : K} (he : eps ≤ 1) (ghost : Bool) (fill : Option K)
    (ax ay az : Axis K) (hdx : ax.dx ≠ 0) (hdy : ay.dx ≠ 0) (hdz : az.dx ≠ 0) (data : Idx → K)
    (i j k : Int) (hi0 : 0 ≤ i) (hi1 : i < ax.size) (hj0 : 0 ≤ j) (hj1 : j < ay.size)
    (hk0 : 0 ≤ k) (hk1 : k < az.size) :
    interp3 eps ghost false fill ax ay az data (centre ax i) (centre ay j) (centre az k)
      = some (data [i + shift ghost, j + shift ghost, k + shift ghost]) := by
  obtain ⟨a, ha, hfa⟩ := axisApply_centre he ghost ax hdx i hi0 hi1
  obtain ⟨b, hb, hfb⟩ := axisApply_centre he ghost ay hdy j hj0 hj1
  obtain ⟨c, hc, hfc⟩ := axisApply_centre he ghost az hdz k hk0 hk1
  rw [interp3_some ha hb hc, hfa, hfb, hfc]

/-! ## multilinear between centres -/

/-- **multilinear between centres**, 1 axis: between the centres of cells `i` and `i+1` -/
theorem multilinear_between_centres {eps : K} (he : eps ≤ 0) (ghost : Bool) (fill : Option K)
    (ax : Axis K) (hdx : ax.dx ≠ 0) (data : Idx → K) (i : Int) (hi0 : 0 ≤ i) (hi1 : i + 1 < ax.size)
    {t : K} (h0 : 0 ≤ t) (h1 : t < 1) :
    interp1 eps ghost false fill ax data (centre ax i + t * ax.dx)
      = some (lerp t (data [i + shift ghost]) (data [i + 1 + shift ghost])) := by
  rw [interp1_some (axisData_between he ghost ax hdx i hi0 hi1 h0 h1)]; rfl

/-- bilinear -/
theorem multilinear_between_centres2 {eps : K} (he : eps ≤ 0) (ghost : Bool) (fill : Option K)
    (ax ay : Axis K) (hdx : ax.dx ≠ 0) (hdy : ay.dx ≠ 0) (data : Idx → K) (i j : Int)
    (hi0 : 0 ≤ i) (hi1 : i + 1 < ax.size) (hj0 : 0 ≤ j) (hj1 : j + 1 < ay.size)
    {t u : K} (ht0 : 0 ≤ t) (ht1 : t < 1) (hu0 : 0 ≤ u) (hu1 : u < 1) :
    interp2 eps ghost false fill ax ay data (centre ax i + t * ax.dx) (centre ay j + u * ay.dx)
      = some (lerp t
          (lerp u (data [i + shift ghost, j + shift ghost]) (data [i + shift ghost, j + 1 + shift ghost]))
          (lerp u (data [i + 1 + shift ghost, j + shift ghost])
            (data [i + 1 + shift ghost, j + 1 + shift ghost]))) := by
  rw [interp2_some (axisData_between he ghost ax hdx i hi0 hi1 ht0 ht1)
    (axisData_between he ghost ay hdy j hj0 hj1 hu0 hu1)]; rfl

/-- trilinear -/
theorem multilinear_between_centres3 {eps : K} (he : eps ≤ 0) (ghost : Bool) (fill : Option K)
    (ax ay az : Axis K) (hdx : ax.dx ≠ 0) (hdy : ay.dx ≠ 0) (hdz : az.dx ≠ 0) (data : Idx → K)
    (i j k : Int) (hi0 : 0 ≤ i) (hi1 : i + 1 < ax.size) (hj0 : 0 ≤ j) (hj1 : j + 1 < ay.size)
    (hk0 : 0 ≤ k) (hk1 : k + 1 < az.size)
    {t u v : K} (ht0 : 0 ≤ t) (ht1 : t < 1) (hu0 : 0 ≤ u) (hu1 : u < 1) (hv0 : 0 ≤ v) (hv1 : v < 1) :
    interp3 eps ghost false fill ax ay az data (centre ax i + t * ax.dx) (centre ay j + u * ay.dx)
        (centre az k + v * az.dx)
      = (let s := shift ghost
         some (lerp t
          (lerp u (lerp v (data [i + s, j + s, k + s]) (data [i + s, j + s, k + 1 + s]))
            (lerp v (data [i + s, j + 1 + s, k + s]) (data [i + s, j + 1 + s, k + 1 + s])))
          (lerp u (lerp v (data [i + 1 + s, j + s, k + s]) (data [i + 1 + s, j + s, k + 1 + s]))
            (lerp v (data [i + 1 + s, j + 1 + s, k + s]) (data [i + 1 + s, j + 1 + s, k + 1 + s]))))) := by
  rw [interp3_some (axisData_between he ghost ax hdx i hi0 hi1 ht0 ht1)
    (axisData_between he ghost ay hdy j hj0 hj1 hu0 hu1)
    (axisData_between he ghost az hdz k hk0 hk1 hv0 hv1)]; rfl

/-! ## affine fields are reproduced exactly -/

theorem exact_on_affine {eps : K} (he : eps ≤ 0) (fill : Option K) (ax : Axis K) (hs : 1 ≤ ax.size)
    (hdx : 0 < ax.dx) (data : Idx → K) (α β : K)
    (hd : ∀ i, 0 ≤ i → i < ax.size → data [i] = α + β * centre ax i)
    (px : K) (h1 : centre ax 0 ≤ px) (h2 : px ≤ centre ax (ax.size - 1)) :
    interp1 eps false false fill ax data px = some (α + β * px) := by
  obtain ⟨a, ha, hf⟩ := axisApply_affine he ax hs hdx px h1 h2
  rw [interp1_some ha, hf _ α β hd]

theorem exact_on_affine2 {eps : K} (he : eps ≤ 0) (fill : Option K) (ax ay : Axis K)
    (hsx : 1 ≤ ax.size) (hsy : 1 ≤ ay.size) (hdx : 0 < ax.dx) (hdy : 0 < ay.dx) (data : Idx → K)
    (α βx βy : K)
    (hd : ∀ i j, 0 ≤ i → i < ax.size → 0 ≤ j → j < ay.size →
      data [i, j] = α + βx * centre ax i + βy * centre ay j)
    (px py : K) (hx1 : centre ax 0 ≤ px) (hx2 : px ≤ centre ax (ax.size - 1))
    (hy1 : centre ay 0 ≤ py) (hy2 : py ≤ centre ay (ay.size - 1)) :
    interp2 eps false false fill ax ay data px py = some (α + βx * px + βy * py) := by
  obtain ⟨a, ha, hfa⟩ := axisApply_affine he ax hsx hdx px hx1 hx2
  obtain ⟨b, hb, hfb⟩ := axisApply_affine he ay hsy hdy py hy1 hy2
  rw [interp2_some ha hb, hfa _ (α + βy * py) βx]
  · congr 1; ring
  · intro i hi0 hi1
    rw [hfb _ (α + βx * centre ax i) βy (fun j hj0 hj1 => hd i j hi0 hi1 hj0 hj1)]; ring

theorem exact_on_affine3 {eps : K} (he : eps ≤ 0) (fill : Option K) (ax ay az : Axis K)
    (hsx : 1 ≤ ax.size) (hsy : 1 ≤ ay.size) (hsz : 1 ≤ az.size)
    (hdx : 0 < ax.dx) (hdy : 0 < ay.dx) (hdz : 0 < az.dx) (data : Idx → K) (α βx βy βz : K)
    (hd : ∀ i j k, 0 ≤ i → i < ax.size → 0 ≤ j → j < ay.size → 0 ≤ k → k < az.size →
      data [i, j, k] = α + βx * centre ax i + βy * centre ay j + βz * centre az k)
    (px py pz : K) (hx1 : centre ax 0 ≤ px) (hx2 : px ≤ centre ax (ax.size - 1))
    (hy1 : centre ay 0 ≤ py) (hy2 : py ≤ centre ay (ay.size - 1))
    (hz1 : centre az 0 ≤ pz) (hz2 : pz ≤ centre az (az.size - 1)) :
    interp3 eps false false fill ax ay az data px py pz = some (α + βx * px + βy * py + βz * pz) := by
  obtain ⟨a, ha, hfa⟩ := axisApply_affine he ax hsx hdx px hx1 hx2
  obtain ⟨b, hb, hfb⟩ := axisApply_affine he ay hsy hdy py hy1 hy2
  obtain ⟨c, hc, hfc⟩ := axisApply_affine he az hsz hdz pz hz1 hz2
  rw [interp3_some ha hb hc, hfa _ (α + βy * py + βz * pz) βx]
  · congr 1; ring
  · intro i hi0 hi1
    rw [hfb _ (α + βx * centre ax i + βz * pz) βy]
    · ring
    · intro j hj0 hj1
      rw [hfc _ (α + βx * centre ax i + βy * centre ay j) βz
        (fun k hk0 hk1 => hd i j k hi0 hi1 hj0 hj1 hk0 hk1)]; ring

/-! ## convex combination: the value never leaves the range of the data -/

/-- **range**, 1 axis: whatever the interpolator returns is the fill value (point rejected) or
lies between the smallest and the largest cell value -/
theorem within_data_range {eps : K} (he : eps ≤ 0) (cc : Bool) (fill : Option K) (ax : Axis K)
    (hs : 1 ≤ ax.size) (data : Idx → K) {m M : K}
    (hd : ∀ i, 0 ≤ i → i < ax.size → m ≤ data [i] ∧ data [i] ≤ M) (px v : K)
    (h : interp1 eps false cc fill ax data px = some v) :
    (axisData eps false cc ax px = none ∧ fill = some v) ∨ (m ≤ v ∧ v ≤ M) := by
  cases ha : axisData eps false cc ax px with
  | none => left; rw [interp1_none ha] at h; exact ⟨rfl, h⟩
  | some a =>
    right; rw [interp1_some ha, Option.some.injEq] at h; rw [← h]
    exact axisApply_range he ax hs ha _ hd

theorem within_data_range2 {eps : K} (he : eps ≤ 0) (cc : Bool) (fill : Option K) (ax ay : Axis K)
    (hsx : 1 ≤ ax.size) (hsy : 1 ≤ ay.size) (data : Idx → K) {m M : K}
    (hd : ∀ i j, 0 ≤ i → i < ax.size → 0 ≤ j → j < ay.size → m ≤ data [i, j] ∧ data [i, j] ≤ M)
    (px py v : K) (h : interp2 eps false cc fill ax ay data px py = some v) :
    ((axisData eps false cc ax px = none ∨ axisData eps false cc ay py = none) ∧ fill = some v)
      ∨ (m ≤ v ∧ v ≤ M) := by
  cases ha : axisData eps false cc ax px with
  | none => left; rw [interp2_none (Or.inl ha)] at h; exact ⟨Or.inl rfl, h⟩
  | some a =>
    cases hb : axisData eps false cc ay py with
    | none => left; rw [interp2_none (Or.inr hb)] at h; exact ⟨Or.inr rfl, h⟩
    | some b =>
      right; rw [interp2_some ha hb, Option.some.injEq] at h; rw [← h]
      exact axisApply_range he ax hsx ha _ (fun i hi0 hi1 =>
        axisApply_range he ay hsy hb _ (fun j hj0 hj1 => hd i j hi0 hi1 hj0 hj1))

theorem within_data_range3 {eps : K} (he : eps ≤ 0) (cc : Bool) (fill : Option K)
    (ax ay az : Axis K) (hsx : 1 ≤ ax.size) (hsy : 1 ≤ ay.size) (hsz : 1 ≤ az.size)
    (data : Idx → K) {m M : K}
    (hd : ∀ i j k, 0 ≤ i → i < ax.size → 0 ≤ j → j < ay.size → 0 ≤ k → k < az.size →
      m ≤ data [i, j, k] ∧ data [i, j, k] ≤ M)
    (px py pz v : K) (h : interp3 eps false cc fill ax ay az data px py pz = some v) :
    ((axisData eps false cc ax px = none ∨ axisData eps false cc ay py = none ∨
        axisData eps false cc az pz = none) ∧ fill = some v) ∨ (m ≤ v ∧ v ≤ M) := by
  cases ha : axisData eps false cc ax px with
  | none => left; rw [interp3_none (Or.inl ha)] at h; exact ⟨Or.inl rfl, h⟩
  | some a =>
    cases hb : axisData eps false cc ay py with
    | none => left; rw [interp3_none (Or.inr (Or.inl hb))] at h; exact ⟨Or.inr (Or.inl rfl), h⟩
    | some b =>
      cases hc : axisData eps false cc az pz with
      | none =>
        left; rw [interp3_none (Or.inr (Or.inr hc))] at h; exact ⟨Or.inr (Or.inr rfl), h⟩
      | some c =>
        right; rw [interp3_some ha hb hc, Option.some.injEq] at h; rw [← h]
        exact axisApply_range he ax hsx ha _ (fun i hi0 hi1 =>
          axisApply_range he ay hsy hb _ (fun j hj0 hj1 =>
            axisApply_range he az hsz hc _ (fun k hk0 hk1 => hd i j k hi0 hi1 hj0 hj1 hk0 hk1)))

/-- ghost-cell mode (interpolation with boundary conditions), 1-3 axes at once through `interpN`
is not needed: the same convexity holds over the padded array; stated for 1 and 2 axes -/
theorem within_data_range_ghost {eps : K} (he : eps ≤ 0) (cc : Bool) (ax : Axis K)
    (hs : 1 ≤ ax.size) (data : Idx → K) {m M : K}
    (hd : ∀ i, 0 ≤ i → i ≤ ax.size + 1 → m ≤ data [i] ∧ data [i] ≤ M) (px v : K)
    (h : interp1 eps true cc none ax data px = some v) : m ≤ v ∧ v ≤ M := by
  cases ha : axisData eps true cc ax px with
  | none => rw [interp1_none ha] at h; exact absurd h (by simp)
  | some a =>
    rw [interp1_some ha, Option.some.injEq] at h; rw [← h]
    exact axisApply_range_ghost he ax hs ha _ hd

theorem within_data_range_ghost2 {eps : K} (he : eps ≤ 0) (cc : Bool) (ax ay : Axis K)
    (hsx : 1 ≤ ax.size) (hsy : 1 ≤ ay.size) (data : Idx → K) {m M : K}
    (hd : ∀ i j, 0 ≤ i → i ≤ ax.size + 1 → 0 ≤ j → j ≤ ay.size + 1 →
      m ≤ data [i, j] ∧ data [i, j] ≤ M)
    (px py v : K) (h : interp2 eps true cc none ax ay data px py = some v) : m ≤ v ∧ v ≤ M := by
  cases ha : axisData eps true cc ax px with
  | none => rw [interp2_none (Or.inl ha)] at h; exact absurd h (by simp)
  | some a =>
    cases hb : axisData eps true cc ay py with
    | none => rw [interp2_none (Or.inr hb)] at h; exact absurd h (by simp)
    | some b =>
      rw [interp2_some ha hb, Option.some.injEq] at h; rw [← h]
      exact axisApply_range_ghost he ax hsx ha _ (fun i hi0 hi1 =>
        axisApply_range_ghost he ay hsy hb _ (fun j hj0 hj1 => hd i j hi0 hi1 hj0 hj1))

/-! ## periodic axes -/

/-- **periodic seam**, 1 axis: the interpolant is the bulk formula in the unrolled periodic
extension `k ↦ data[k mod size]` of the data, for every coordinate (inside or outside `[lo, hi]`) -/
theorem periodic_seam {eps : K} (he : eps ≤ 0) (ghost cc : Bool) (fill : Option K) (ax : Axis K)
    (hper : ax.periodic = true) (data : Idx → K) (px : K) :
    interp1 eps ghost cc fill ax data px =
      (let x := cellCoord cc ax px
       let ext : Int → K := fun k => data [k % ax.size + shift ghost]
       some (lerp (x - ⌊x⌋) (ext ⌊x⌋) (ext (⌊x⌋ + 1)))) := by
  obtain ⟨a, ha, hf⟩ := axisApply_periodic he ghost cc ax hper px
  rw [interp1_some ha, hf]; rfl

/-- between the last and the first centre of a periodic axis the two cells across the seam are
interpolated -/
theorem periodic_seam_last_first {eps : K} (he : eps ≤ 0) (ghost : Bool) (fill : Option K)
    (ax : Axis K) (hper : ax.periodic = true) (hs : 1 ≤ ax.size) (hdx : ax.dx ≠ 0) (data : Idx → K)
    {t : K} (h0 : 0 ≤ t) (h1 : t < 1) :
    interp1 eps ghost false fill ax data (centre ax (ax.size - 1) + t * ax.dx)
      = some (lerp t (data [ax.size - 1 + shift ghost]) (data [0 + shift ghost])) := by
  rw [interp1_some (axisData_seam he ghost ax hper hs hdx h0 h1)]; rfl

/-- the interpolant is periodic: shifting the coordinate of a periodic axis by one period changes
nothing (1, 2, 3 axes; the other axes are arbitrary) -/
theorem periodic_shift (eps : K) (ghost : Bool) (fill : Option K) (ax : Axis K)
    (hper : ax.periodic = true) (hdx : ax.dx ≠ 0) (data : Idx → K) (px : K) :
    interp1 eps ghost false fill ax data (px + (ax.size : K) * ax.dx)
      = interp1 eps ghost false fill ax data px := by
  unfold interp1; rw [axisData_periodic_shift eps ghost ax hper hdx]

theorem periodic_seam2 (eps : K) (ghost : Bool) (fill : Option K) (ax ay : Axis K)
    (data : Idx → K) (px py : K) :
    (ax.periodic = true → ax.dx ≠ 0 →
      interp2 eps ghost false fill ax ay data (px + (ax.size : K) * ax.dx) py
        = interp2 eps ghost false fill ax ay data px py) ∧
    (ay.periodic = true → ay.dx ≠ 0 →
      interp2 eps ghost false fill ax ay data px (py + (ay.size : K) * ay.dx)
        = interp2 eps ghost false fill ax ay data px py) := by
  constructor
  · intro hper hdx; unfold interp2; rw [axisData_periodic_shift eps ghost ax hper hdx]
  · intro hper hdx; unfold interp2; rw [axisData_periodic_shift eps ghost ay hper hdx]

theorem periodic_seam3 (eps : K) (ghost : Bool) (fill : Option K) (ax ay az : Axis K)
    (data : Idx → K) (px py pz : K) :
    (ax.periodic = true → ax.dx ≠ 0 →
      interp3 eps ghost false fill ax ay az data (px + (ax.size : K) * ax.dx) py pz
        = interp3 eps ghost false fill ax ay az data px py pz) ∧
    (ay.periodic = true → ay.dx ≠ 0 →
      interp3 eps ghost false fill ax ay az data px (py + (ay.size : K) * ay.dx) pz
        = interp3 eps ghost false fill ax ay az data px py pz) ∧
    (az.periodic = true → az.dx ≠ 0 →
      interp3 eps ghost false fill ax ay az data px py (pz + (az.size : K) * az.dx)
        = interp3 eps ghost false fill ax ay az data px py pz) := by
  refine ⟨?_, ?_, ?_⟩
  · intro hper hdx; unfold interp3; rw [axisData_periodic_shift eps ghost ax hper hdx]
  · intro hper hdx; unfold interp3; rw [axisData_periodic_shift eps ghost ay hper hdx]
  · intro hper hdx; unfold interp3; rw [axisData_periodic_shift eps ghost az hper hdx]

/-- **periodic seam value, 2 axes**: along a periodic axis the interpolant is the bulk formula in the
unrolled periodic extension of the data for every coordinate (the other axis is arbitrary: plain,
periodic, strip, ghost mode, rejected) -/
theorem periodic_seam_value2 {eps : K} (he : eps ≤ 0) (ghost cc : Bool) (fill : Option K)
    (ax ay : Axis K) (data : Idx → K) (px py : K) :
    (ax.periodic = true →
      interp2 eps ghost cc fill ax ay data px py =
        (let x := cellCoord cc ax px
         interp1 eps ghost cc fill ay (fun c => lerp (x - ⌊x⌋)
           (data ((⌊x⌋ % ax.size + shift ghost) :: c))
           (data (((⌊x⌋ + 1) % ax.size + shift ghost) :: c))) py)) ∧
    (ay.periodic = true →
      interp2 eps ghost cc fill ax ay data px py =
        (let y := cellCoord cc ay py
         interp1 eps ghost cc fill ax (fun c => lerp (y - ⌊y⌋)
           (data (c ++ [⌊y⌋ % ay.size + shift ghost]))
           (data (c ++ [(⌊y⌋ + 1) % ay.size + shift ghost]))) px)) := by
  constructor
  · intro hper
    obtain ⟨a, ha, hf⟩ := axisApply_periodic he ghost cc ax hper px
    rw [interp2_nest ha]; simp only [hf, lerp]
  · intro hper
    obtain ⟨b, hb, hf⟩ := axisApply_periodic he ghost cc ay hper py
    rw [interp2_nest' hb]; simp only [hf, lerp]

/-- both axes periodic: the bilinear formula in the doubly unrolled extension, for every point -/
theorem periodic_seam_both2 {eps : K} (he : eps ≤ 0) (ghost cc : Bool) (fill : Option K)
    (ax ay : Axis K) (hx : ax.periodic = true) (hy : ay.periodic = true) (data : Idx → K)
    (px py : K) :
    interp2 eps ghost cc fill ax ay data px py =
      (let x := cellCoord cc ax px
       let y := cellCoord cc ay py
       let ext : Int → Int → K := fun k l => data [k % ax.size + shift ghost, l % ay.size + shift ghost]
       some (lerp (x - ⌊x⌋)
         (lerp (y - ⌊y⌋) (ext ⌊x⌋ ⌊y⌋) (ext ⌊x⌋ (⌊y⌋ + 1)))
         (lerp (y - ⌊y⌋) (ext (⌊x⌋ + 1) ⌊y⌋) (ext (⌊x⌋ + 1) (⌊y⌋ + 1))))) := by
  rw [(periodic_seam_value2 he ghost cc fill ax ay data px py).1 hx]
  simp only [periodic_seam he ghost cc fill ay hy, lerp]
  congr 1; ring

/-- **periodic seam value, 3 axes** -/
theorem periodic_seam_value3 {eps : K} (he : eps ≤ 0) (ghost cc : Bool) (fill : Option K)
    (ax ay az : Axis K) (data : Idx → K) (px py pz : K) :
    (ax.periodic = true →
      interp3 eps ghost cc fill ax ay az data px py pz =
        (let x := cellCoord cc ax px
         interp2 eps ghost cc fill ay az (fun c => lerp (x - ⌊x⌋)
           (data ((⌊x⌋ % ax.size + shift ghost) :: c))
           (data (((⌊x⌋ + 1) % ax.size + shift ghost) :: c))) py pz)) ∧
    (ay.periodic = true →
      interp3 eps ghost cc fill ax ay az data px py pz =
        (let y := cellCoord cc ay py
         interp2 eps ghost cc fill ax az (fun c => lerp (y - ⌊y⌋)
           (data (c.take 1 ++ (⌊y⌋ % ay.size + shift ghost) :: c.drop 1))
           (data (c.take 1 ++ ((⌊y⌋ + 1) % ay.size + shift ghost) :: c.drop 1))) px pz)) ∧
    (az.periodic = true →
      interp3 eps ghost cc fill ax ay az data px py pz =
        (let z := cellCoord cc az pz
         interp2 eps ghost cc fill ax ay (fun c => lerp (z - ⌊z⌋)
           (data (c ++ [⌊z⌋ % az.size + shift ghost]))
           (data (c ++ [(⌊z⌋ + 1) % az.size + shift ghost]))) px py)) := by
  refine ⟨?_, ?_, ?_⟩
  · intro hper
    obtain ⟨a, ha, hf⟩ := axisApply_periodic he ghost cc ax hper px
    rw [interp3_nest ha]; simp only [hf, lerp]
  · intro hper
    obtain ⟨b, hb, hf⟩ := axisApply_periodic he ghost cc ay hper py
    rw [interp3_nest_y hb]; simp only [hf, lerp]
  · intro hper
    obtain ⟨c, hc, hf⟩ := axisApply_periodic he ghost cc az hper pz
    rw [interp3_nest_z hc]; simp only [hf, lerp]

/-- all three axes periodic: the trilinear formula in the unrolled extension, for every point -/
theorem periodic_seam_all3 {eps : K} (he : eps ≤ 0) (ghost cc : Bool) (fill : Option K)
    (ax ay az : Axis K) (hx : ax.periodic = true) (hy : ay.periodic = true)
    (hz : az.periodic = true) (data : Idx → K) (px py pz : K) :
    interp3 eps ghost cc fill ax ay az data px py pz =
      (let x := cellCoord cc ax px
       let y := cellCoord cc ay py
       let z := cellCoord cc az pz
       let s := shift ghost
       let ext : Int → Int → Int → K :=
         fun k l m => data [k % ax.size + s, l % ay.size + s, m % az.size + s]
       some (lerp (x - ⌊x⌋)
         (lerp (y - ⌊y⌋) (lerp (z - ⌊z⌋) (ext ⌊x⌋ ⌊y⌋ ⌊z⌋) (ext ⌊x⌋ ⌊y⌋ (⌊z⌋ + 1)))
           (lerp (z - ⌊z⌋) (ext ⌊x⌋ (⌊y⌋ + 1) ⌊z⌋) (ext ⌊x⌋ (⌊y⌋ + 1) (⌊z⌋ + 1))))
         (lerp (y - ⌊y⌋) (lerp (z - ⌊z⌋) (ext (⌊x⌋ + 1) ⌊y⌋ ⌊z⌋) (ext (⌊x⌋ + 1) ⌊y⌋ (⌊z⌋ + 1)))
           (lerp (z - ⌊z⌋) (ext (⌊x⌋ + 1) (⌊y⌋ + 1) ⌊z⌋) (ext (⌊x⌋ + 1) (⌊y⌋ + 1) (⌊z⌋ + 1)))))) := by
  rw [(periodic_seam_value3 he ghost cc fill ax ay az data px py pz).1 hx]
  simp only [periodic_seam_both2 he ghost cc fill ay az hy hz, lerp]
  congr 1; ring

/-! ## outside is rejected, inside is accepted -/

/-- **outside is rejected**: the result is the fill value (`none` = `DomainError` when no fill
value was given), with and without ghost cells -/
theorem outside_is_rejected (eps : K) (ghost : Bool) (fill : Option K) (ax : Axis K) (hok : ax.ok)
    (data : Idx → K) (px : K) (h : outsideAxis ax px) :
    interp1 eps ghost false fill ax data px = fill :=
  interp1_none (axisData_none_of_outside eps ghost hok h)

theorem outside_is_rejected2 (eps : K) (ghost : Bool) (fill : Option K) (ax ay : Axis K)
    (hx : ax.ok) (hy : ay.ok) (data : Idx → K) (px py : K)
    (h : outsideAxis ax px ∨ outsideAxis ay py) :
    interp2 eps ghost false fill ax ay data px py = fill :=
  interp2_none (h.imp (axisData_none_of_outside eps ghost hx) (axisData_none_of_outside eps ghost hy))

theorem outside_is_rejected3 (eps : K) (ghost : Bool) (fill : Option K) (ax ay az : Axis K)
    (hx : ax.ok) (hy : ay.ok) (hz : az.ok) (data : Idx → K) (px py pz : K)
    (h : outsideAxis ax px ∨ outsideAxis ay py ∨ outsideAxis az pz) :
    interp3 eps ghost false fill ax ay az data px py pz = fill :=
  interp3_none (h.imp (axisData_none_of_outside eps ghost hx)
    (Or.imp (axisData_none_of_outside eps ghost hy) (axisData_none_of_outside eps ghost hz)))

/-- **the converse: inside is accepted** - a value is returned, never the error, and it does not
depend on the fill value -/
theorem inside_is_accepted (eps : K) (ghost : Bool) (ax : Axis K) (hok : ax.ok)
    (data : Idx → K) (px : K) (h : insideAxis ax px) :
    ∃ v, ∀ fill, interp1 eps ghost false fill ax data px = some v := by
  obtain ⟨a, ha⟩ := axisData_some_of_inside eps ghost hok h
  exact ⟨_, fun fill => interp1_some ha⟩

theorem inside_is_accepted2 (eps : K) (ghost : Bool) (ax ay : Axis K) (hx : ax.ok) (hy : ay.ok)
    (data : Idx → K) (px py : K) (h : insideAxis ax px ∧ insideAxis ay py) :
    ∃ v, ∀ fill, interp2 eps ghost false fill ax ay data px py = some v := by
  obtain ⟨a, ha⟩ := axisData_some_of_inside eps ghost hx h.1
  obtain ⟨b, hb⟩ := axisData_some_of_inside eps ghost hy h.2
  exact ⟨_, fun fill => interp2_some ha hb⟩

theorem inside_is_accepted3 (eps : K) (ghost : Bool) (ax ay az : Axis K)
    (hx : ax.ok) (hy : ay.ok) (hz : az.ok) (data : Idx → K) (px py pz : K)
    (h : insideAxis ax px ∧ insideAxis ay py ∧ insideAxis az pz) :
    ∃ v, ∀ fill, interp3 eps ghost false fill ax ay az data px py pz = some v := by
  obtain ⟨a, ha⟩ := axisData_some_of_inside eps ghost hx h.1
  obtain ⟨b, hb⟩ := axisData_some_of_inside eps ghost hy h.2.1
  obtain ⟨c, hc⟩ := axisData_some_of_inside eps ghost hz h.2.2
  exact ⟨_, fun fill => interp3_some ha hb hc⟩

/-- rejection is *exactly* being outside on some axis (no fill value: the error is raised iff
the point is outside) -/
theorem rejected_iff_outside3 (eps : K) (ghost : Bool) (ax ay az : Axis K)
    (hx : ax.ok) (hy : ay.ok) (hz : az.ok) (data : Idx → K) (px py pz : K) :
    interp3 eps ghost false none ax ay az data px py pz = none ↔
      (outsideAxis ax px ∨ outsideAxis ay py ∨ outsideAxis az pz) := by
  constructor
  · intro h
    by_contra hc
    simp only [not_or, ← not_inside_iff_outside, not_not] at hc
    obtain ⟨v, hv⟩ := inside_is_accepted3 eps ghost ax ay az hx hy hz data px py pz hc
    rw [hv none] at h; exact absurd h (by simp)
  · exact outside_is_rejected3 eps ghost none ax ay az hx hy hz data px py pz

/-! ## boundary strips without ghost cells: nearest cell along the normal -/

/-- **boundary strip, 1 axis**: the value of the nearest (first / last) cell -/
theorem boundary_strip_nearest {eps : K} (he : eps ≤ 0) (fill : Option K) (ax : Axis K) (hok : ax.ok)
    (data : Idx → K) (px : K) :
    (inLowerStrip ax px → interp1 eps false false fill ax data px = some (data [0])) ∧
    (inUpperStrip ax px → interp1 eps false false fill ax data px = some (data [ax.size - 1])) := by
  constructor
  · intro h; obtain ⟨a, ha, hf⟩ := strip_lower he hok h; rw [interp1_some ha, hf]
  · intro h; obtain ⟨a, ha, hf⟩ := strip_upper he hok h; rw [interp1_some ha, hf]

/-- **boundary strip, 2 axes**: nearest cell along the normal, (multi)linear interpolation of that
row / column along the boundary -/
theorem boundary_strip_nearest2 {eps : K} (he : eps ≤ 0) (fill : Option K) (ax ay : Axis K)
    (hx : ax.ok) (hy : ay.ok) (data : Idx → K) (px py : K) :
    (inLowerStrip ax px → interp2 eps false false fill ax ay data px py
        = interp1 eps false false fill ay (fun c => data (0 :: c)) py) ∧
    (inUpperStrip ax px → interp2 eps false false fill ax ay data px py
        = interp1 eps false false fill ay (fun c => data ((ax.size - 1) :: c)) py) ∧
    (inLowerStrip ay py → interp2 eps false false fill ax ay data px py
        = interp1 eps false false fill ax (fun c => data (c ++ [0])) px) ∧
    (inUpperStrip ay py → interp2 eps false false fill ax ay data px py
        = interp1 eps false false fill ax (fun c => data (c ++ [ay.size - 1])) px) := by
  refine ⟨?_, ?_, ?_, ?_⟩
  · intro h; obtain ⟨a, ha, hf⟩ := strip_lower he hx h; rw [interp2_nest ha]; simp only [hf]
  · intro h; obtain ⟨a, ha, hf⟩ := strip_upper he hx h; rw [interp2_nest ha]; simp only [hf]
  · intro h; obtain ⟨b, hb, hf⟩ := strip_lower he hy h; rw [interp2_nest' hb]; simp only [hf]
  · intro h; obtain ⟨b, hb, hf⟩ := strip_upper he hy h; rw [interp2_nest' hb]; simp only [hf]

/-- in a corner of the domain (both coordinates in a strip) the corner cell's value is returned -/
theorem domain_corner2 {eps : K} (he : eps ≤ 0) (fill : Option K) (ax ay : Axis K)
    (hx : ax.ok) (hy : ay.ok) (data : Idx → K) (px py : K)
    (h1 : inLowerStrip ax px) (h2 : inUpperStrip ay py) :
    interp2 eps false false fill ax ay data px py = some (data [0, ay.size - 1]) := by
  rw [(boundary_strip_nearest2 he fill ax ay hx hy data px py).1 h1,
    ((boundary_strip_nearest he fill ay hy (fun c => data (0 :: c)) py).2 h2)]

/-- **boundary strip, 3 axes**: nearest layer along the normal, bilinear interpolation within it -/
theorem boundary_strip_nearest3 {eps : K} (he : eps ≤ 0) (fill : Option K) (ax ay az : Axis K)
    (hx : ax.ok) (hy : ay.ok) (hz : az.ok) (data : Idx → K) (px py pz : K) :
    (inLowerStrip ax px → interp3 eps false false fill ax ay az data px py pz
        = interp2 eps false false fill ay az (fun c => data (0 :: c)) py pz) ∧
    (inUpperStrip ax px → interp3 eps false false fill ax ay az data px py pz
        = interp2 eps false false fill ay az (fun c => data ((ax.size - 1) :: c)) py pz) ∧
    (inLowerStrip ay py → interp3 eps false false fill ax ay az data px py pz
        = interp2 eps false false fill ax az (fun c => data (c.take 1 ++ 0 :: c.drop 1)) px pz) ∧
    (inUpperStrip ay py → interp3 eps false false fill ax ay az data px py pz
        = interp2 eps false false fill ax az
            (fun c => data (c.take 1 ++ (ay.size - 1) :: c.drop 1)) px pz) ∧
    (inLowerStrip az pz → interp3 eps false false fill ax ay az data px py pz
        = interp2 eps false false fill ax ay (fun c => data (c ++ [0])) px py) ∧
    (inUpperStrip az pz → interp3 eps false false fill ax ay az data px py pz
        = interp2 eps false false fill ax ay (fun c => data (c ++ [az.size - 1])) px py) := by
  refine ⟨?_, ?_, ?_, ?_, ?_, ?_⟩
  · intro h; obtain ⟨a, ha, hf⟩ := strip_lower he hx h; rw [interp3_nest ha]; simp only [hf]
  · intro h; obtain ⟨a, ha, hf⟩ := strip_upper he hx h; rw [interp3_nest ha]; simp only [hf]
  · intro h; obtain ⟨b, hb, hf⟩ := strip_lower he hy h; rw [interp3_nest_y hb]; simp only [hf]
  · intro h; obtain ⟨b, hb, hf⟩ := strip_upper he hy h; rw [interp3_nest_y hb]; simp only [hf]
  · intro h; obtain ⟨c, hc, hf⟩ := strip_lower he hz h; rw [interp3_nest_z hc]; simp only [hf]
  · intro h; obtain ⟨c, hc, hf⟩ := strip_upper he hz h; rw [interp3_nest_z hc]; simp only [hf]

/-! ## ghost-cell mode: linear approach to the boundary value -/

/-- **ghost mode, 1 axis**: from the lower face (`px = lo + τ dx/2`) resp. the upper face
(`px = hi - τ dx/2`) to the first / last cell centre the interpolant is `ghostLine` -/
theorem ghost_mode_linear_to_bc_value {eps : K} (he : eps ≤ 0) (fill : Option K) (ax : Axis K)
    (hper : ax.periodic = false) (hs : 1 ≤ ax.size) (hdx : ax.dx ≠ 0) (data : Idx → K)
    {τ : K} (h0 : 0 ≤ τ) (h1 : τ ≤ 1) :
    interp1 eps true false fill ax data (ax.lo + τ * (ax.dx / 2))
        = some (ghostLine (data [0]) (data [1]) τ) ∧
    interp1 eps true false fill ax data (upperEnd ax - τ * (ax.dx / 2))
        = some (ghostLine (data [ax.size + 1]) (data [ax.size]) τ) := by
  constructor
  · obtain ⟨a, ha, hf⟩ := axisApply_ghost_lower he ax hper hs hdx h0 h1
    rw [interp1_some ha, hf]; unfold ghostLine; congr 1; ring
  · obtain ⟨a, ha, hf⟩ := axisApply_ghost_upper he ax hper hs hdx h0 h1
    rw [interp1_some ha, hf]; unfold ghostLine; congr 1; ring

/-- corollary with property C02: Dirichlet value `v` at the lower face - the interpolant equals `v`
on the face and approaches it linearly -/
theorem ghost_mode_dirichlet_value {eps : K} (he : eps ≤ 0) (fill : Option K) (ax : Axis K)
    (hper : ax.periodic = false) (hs : 1 ≤ ax.size) (hdx : ax.dx ≠ 0) (data : Idx → K) (v : K)
    (hbc : data [0] = 2 * v - data [1]) {τ : K} (h0 : 0 ≤ τ) (h1 : τ ≤ 1) :
    interp1 eps true false fill ax data (ax.lo + τ * (ax.dx / 2)) = some (v + τ * (data [1] - v)) := by
  rw [(ghost_mode_linear_to_bc_value he fill ax hper hs hdx data h0 h1).1, hbc, ghostLine_dirichlet]

/-- **ghost mode, 2 axes**: next to a face of a non-periodic axis the interpolant is the tangential
interpolation of `ghostLine` built from the ghost layer and the first / last cell layer -/
theorem ghost_mode_linear_to_bc_value2 {eps : K} (he : eps ≤ 0) (fill : Option K) (ax ay : Axis K)
    (data : Idx → K) (px py : K) {τ : K} (h0 : 0 ≤ τ) (h1 : τ ≤ 1) :
    (ax.periodic = false → 1 ≤ ax.size → ax.dx ≠ 0 →
      interp2 eps true false fill ax ay data (ax.lo + τ * (ax.dx / 2)) py
        = interp1 eps true false fill ay (fun c => ghostLine (data (0 :: c)) (data (1 :: c)) τ) py ∧
      interp2 eps true false fill ax ay data (upperEnd ax - τ * (ax.dx / 2)) py
        = interp1 eps true false fill ay
            (fun c => ghostLine (data ((ax.size + 1) :: c)) (data (ax.size :: c)) τ) py) ∧
    (ay.periodic = false → 1 ≤ ay.size → ay.dx ≠ 0 →
      interp2 eps true false fill ax ay data px (ay.lo + τ * (ay.dx / 2))
        = interp1 eps true false fill ax (fun c => ghostLine (data (c ++ [0])) (data (c ++ [1])) τ) px ∧
      interp2 eps true false fill ax ay data px (upperEnd ay - τ * (ay.dx / 2))
        = interp1 eps true false fill ax
            (fun c => ghostLine (data (c ++ [ay.size + 1])) (data (c ++ [ay.size])) τ) px) := by
  refine ⟨fun hper hs hdx => ⟨?_, ?_⟩, fun hper hs hdx => ⟨?_, ?_⟩⟩
  · obtain ⟨a, ha, hf⟩ := axisApply_ghost_lower he ax hper hs hdx h0 h1
    rw [interp2_nest ha]; simp only [hf, ghostLine]; congr 1; funext c; ring
  · obtain ⟨a, ha, hf⟩ := axisApply_ghost_upper he ax hper hs hdx h0 h1
    rw [interp2_nest ha]; simp only [hf, ghostLine]; congr 1; funext c; ring
  · obtain ⟨b, hb, hf⟩ := axisApply_ghost_lower he ay hper hs hdx h0 h1
    rw [interp2_nest' hb]; simp only [hf, ghostLine]; congr 1; funext c; ring
  · obtain ⟨b, hb, hf⟩ := axisApply_ghost_upper he ay hper hs hdx h0 h1
    rw [interp2_nest' hb]; simp only [hf, ghostLine]; congr 1; funext c; ring

/-- **ghost mode, 3 axes** -/
theorem ghost_mode_linear_to_bc_value3 {eps : K} (he : eps ≤ 0) (fill : Option K)
    (ax ay az : Axis K) (data : Idx → K) (px py pz : K) {τ : K} (h0 : 0 ≤ τ) (h1 : τ ≤ 1) :
    (ax.periodic = false → 1 ≤ ax.size → ax.dx ≠ 0 →
      interp3 eps true false fill ax ay az data (ax.lo + τ * (ax.dx / 2)) py pz
        = interp2 eps true false fill ay az
            (fun c => ghostLine (data (0 :: c)) (data (1 :: c)) τ) py pz ∧
      interp3 eps true false fill ax ay az data (upperEnd ax - τ * (ax.dx / 2)) py pz
        = interp2 eps true false fill ay az
            (fun c => ghostLine (data ((ax.size + 1) :: c)) (data (ax.size :: c)) τ) py pz) ∧
    (ay.periodic = false → 1 ≤ ay.size → ay.dx ≠ 0 →
      interp3 eps true false fill ax ay az data px (ay.lo + τ * (ay.dx / 2)) pz
        = interp2 eps true false fill ax az
            (fun c => ghostLine (data (c.take 1 ++ 0 :: c.drop 1)) (data (c.take 1 ++ 1 :: c.drop 1)) τ)
            px pz ∧
      interp3 eps true false fill ax ay az data px (upperEnd ay - τ * (ay.dx / 2)) pz
        = interp2 eps true false fill ax az
            (fun c => ghostLine (data (c.take 1 ++ (ay.size + 1) :: c.drop 1))
              (data (c.take 1 ++ ay.size :: c.drop 1)) τ) px pz) ∧
    (az.periodic = false → 1 ≤ az.size → az.dx ≠ 0 →
      interp3 eps true false fill ax ay az data px py (az.lo + τ * (az.dx / 2))
        = interp2 eps true false fill ax ay
            (fun c => ghostLine (data (c ++ [0])) (data (c ++ [1])) τ) px py ∧
      interp3 eps true false fill ax ay az data px py (upperEnd az - τ * (az.dx / 2))
        = interp2 eps true false fill ax ay
            (fun c => ghostLine (data (c ++ [az.size + 1])) (data (c ++ [az.size])) τ) px py) := by
  refine ⟨fun hper hs hdx => ⟨?_, ?_⟩, fun hper hs hdx => ⟨?_, ?_⟩, fun hper hs hdx => ⟨?_, ?_⟩⟩
  · obtain ⟨a, ha, hf⟩ := axisApply_ghost_lower he ax hper hs hdx h0 h1
    rw [interp3_nest ha]; simp only [hf, ghostLine]; congr 1; funext c; ring
  · obtain ⟨a, ha, hf⟩ := axisApply_ghost_upper he ax hper hs hdx h0 h1
    rw [interp3_nest ha]; simp only [hf, ghostLine]; congr 1; funext c; ring
  · obtain ⟨b, hb, hf⟩ := axisApply_ghost_lower he ay hper hs hdx h0 h1
    rw [interp3_nest_y hb]; simp only [hf, ghostLine]; congr 1; funext c; ring
  · obtain ⟨b, hb, hf⟩ := axisApply_ghost_upper he ay hper hs hdx h0 h1
    rw [interp3_nest_y hb]; simp only [hf, ghostLine]; congr 1; funext c; ring
  · obtain ⟨c, hc, hf⟩ := axisApply_ghost_lower he az hper hs hdx h0 h1
    rw [interp3_nest_z hc]; simp only [hf, ghostLine]; congr 1; funext c; ring
  · obtain ⟨c, hc, hf⟩ := axisApply_ghost_upper he az hper hs hdx h0 h1
    rw [interp3_nest_z hc]; simp only [hf, ghostLine]; congr 1; funext c; ring

/-! ## insertion conserves the amount -/

/-- **insertion conserves the amount - interpreted `insert`, any number of axes, any cell volumes**
(every grid class: the volumes enter as an arbitrary non-vanishing function): whenever `insert` does
not raise, the integral `Σ data·vol` grows by exactly `amount` -/
theorem insert_conserves (axes : List (Axis K)) (vol data : Idx → K) (point : List K) (amount : K)
    (hvol : ∀ c, validIdx (axes.map (·.size)) c = true → vol c ≠ 0) (data' : Idx → K)
    (h : insertInterp axes vol data point amount = some data') :
    integral (axes.map (·.size)) vol data' = integral (axes.map (·.size)) vol data + amount := by
  unfold insertInterp at h
  simp only [Nat.cast_zero] at h
  split_ifs at h with ht
  rw [Option.some.injEq] at h
  rw [← h]
  have hvalid : ∀ r ∈ insertCells axes point, validIdx (axes.map (·.size)) r.1 = true := by
    intro r hr
    unfold insertCells at hr
    exact (List.mem_filter.mp hr).2
  rw [integral_applyCells _ vol _ amount _ data hvalid]
  set total := sumK ((insertCells axes point).map (·.2)) with htot
  have hterm : ∀ r ∈ insertCells axes point,
      r.2 * amount / (total * vol r.1) * vol r.1 = r.2 * (amount / total) := by
    intro r hr
    have := hvol r.1 (hvalid r hr)
    field_simp
  rw [List.map_congr_left hterm, List.sum_map_mul_right, ← sumK_eq_sum, ← htot]
  field_simp

/-- **compiled inserter, 1 axis** -/
theorem insert_conserves_compiled {eps : K} (he : eps ≤ 0) (ax : Axis K) (hs : 1 ≤ ax.size)
    (vol data : Idx → K) (px amount : K) (hvol : ∀ i, 0 ≤ i → i < ax.size → vol [i] ≠ 0)
    (data' : Idx → K) (h : insertComp1 eps false ax vol data px amount = some data') :
    integral [ax.size] vol data' = integral [ax.size] vol data + amount := by
  unfold insertComp1 at h
  cases ha : axisData eps false false ax px with
  | none => rw [ha] at h; exact absurd h (by simp)
  | some a =>
    rw [ha] at h; simp only [Option.some.injEq, volIdx_false] at h; rw [← h]
    obtain ⟨hsum, -, -⟩ := axisDataX_weights he ha
    obtain ⟨l0, l1, h0, h1⟩ := axisDataX_indices hs ha
    rw [integral_deposit _ _ _ _ _ (validIdx1 h0 h1), integral_deposit _ _ _ _ _ (validIdx1 l0 l1)]
    have v1 := hvol _ l0 l1
    have v2 := hvol _ h0 h1
    field_simp
    linear_combination amount * hsum

/-- the view of the valid cells of a padded array (`data = _data_full[1:-1]`) -/
def validView (full : Idx → K) : Idx → K := fun c => full (c.map (· + 1))

theorem validView_deposit (full : Idx → K) (t : Idx) (v : K) :
    validView (deposit full t v) = deposit (validView full) (t.map (· - 1)) v := by
  funext c
  unfold validView deposit
  have : c.map (· + 1) = t ↔ c = t.map (· - 1) := by
    constructor
    · intro h
      rw [← h, List.map_map]
      exact (List.map_id'' (fun x => by simp) c).symm
    · intro h
      rw [h, List.map_map]
      exact List.map_id'' (fun x => by simp) t
  simp only [this]

/-- **compiled inserter with ghost cells** (`make_inserter(with_ghost_cells=True)`, 1 axis): when both
support points are valid cells (always on a periodic axis; between the first and the last centre
otherwise) the integral over the valid cells grows by exactly `amount` - the volume is looked up
at the un-shifted index (`volIdx`) -/
theorem insert_conserves_compiled_ghost {eps : K} (he : eps ≤ 0) (ax : Axis K)
    (vol full : Idx → K) (px amount : K) (hvol : ∀ i, 0 ≤ i → i < ax.size → vol [i] ≠ 0)
    (a : AxisData K) (ha : axisData eps true false ax px = some a)
    (hin : 1 ≤ a.li ∧ a.li ≤ ax.size ∧ 1 ≤ a.hi ∧ a.hi ≤ ax.size)
    (full' : Idx → K) (h : insertComp1 eps true ax vol full px amount = some full') :
    integral [ax.size] vol (validView full') = integral [ax.size] vol (validView full) + amount := by
  unfold insertComp1 at h
  rw [ha] at h; simp only [Option.some.injEq] at h; rw [← h]
  obtain ⟨hsum, -, -⟩ := weights_nonneg_sum_one he true false ax px a ha
  obtain ⟨l0, l1, h0, h1⟩ := hin
  have e1 : volIdx true ax.size a.li = a.li - 1 := by
    unfold volIdx; simp only [if_true]; rw [if_neg (by omega), if_neg (by omega)]
  have e2 : volIdx true ax.size a.hi = a.hi - 1 := by
    unfold volIdx; simp only [if_true]; rw [if_neg (by omega), if_neg (by omega)]
  rw [validView_deposit, validView_deposit, e1, e2]
  simp only [List.map_cons, List.map_nil]
  rw [integral_deposit _ _ _ _ _ (validIdx1 (by omega) (by omega)),
    integral_deposit _ _ _ _ _ (validIdx1 (by omega) (by omega))]
  have v1 := hvol (a.li - 1) (by omega) (by omega)
  have v2 := hvol (a.hi - 1) (by omega) (by omega)
  field_simp
  linear_combination amount * hsum

/-- on a periodic axis the hypothesis about the support points always holds -/
theorem insert_conserves_compiled_ghost_periodic {eps : K} (he : eps ≤ 0) (ax : Axis K)
    (hs : 1 ≤ ax.size) (hper : ax.periodic = true)
    (vol full : Idx → K) (px amount : K) (hvol : ∀ i, 0 ≤ i → i < ax.size → vol [i] ≠ 0) :
    ∃ full', insertComp1 eps true ax vol full px amount = some full' ∧
      integral [ax.size] vol (validView full') = integral [ax.size] vol (validView full) + amount := by
  obtain ⟨a, ha⟩ := Option.isSome_iff_exists.mp (axisData_periodic_isSome eps true false ax hper px)
  have hin := (indices_in_range_ghost eps false ax hs px a ha).2.2.2.2 hper
  have hsome : ∃ full', insertComp1 eps true ax vol full px amount = some full' := by
    unfold insertComp1; rw [ha]; exact ⟨_, rfl⟩
  obtain ⟨full', h⟩ := hsome
  exact ⟨full', h, insert_conserves_compiled_ghost he ax vol full px amount hvol a ha hin full' h⟩

/-- **compiled inserter with ghost cells, 2 axes** (the cylindrical grid is the 2-axis grid with
non-uniform volumes) -/
theorem insert_conserves_compiled_ghost2 {eps : K} (he : eps ≤ 0) (ax ay : Axis K)
    (vol full : Idx → K) (px py amount : K)
    (hvol : ∀ i j, 0 ≤ i → i < ax.size → 0 ≤ j → j < ay.size → vol [i, j] ≠ 0)
    (a b : AxisData K) (ha : axisData eps true false ax px = some a)
    (hb : axisData eps true false ay py = some b)
    (hina : 1 ≤ a.li ∧ a.li ≤ ax.size ∧ 1 ≤ a.hi ∧ a.hi ≤ ax.size)
    (hinb : 1 ≤ b.li ∧ b.li ≤ ay.size ∧ 1 ≤ b.hi ∧ b.hi ≤ ay.size)
    (full' : Idx → K) (h : insertComp2 eps true ax ay vol full px py amount = some full') :
    integral [ax.size, ay.size] vol (validView full')
      = integral [ax.size, ay.size] vol (validView full) + amount := by
  unfold insertComp2 at h
  rw [ha, hb] at h; simp only [Option.some.injEq] at h; rw [← h]
  obtain ⟨hsa, -, -⟩ := weights_nonneg_sum_one he true false ax px a ha
  obtain ⟨hsb, -, -⟩ := weights_nonneg_sum_one he true false ay py b hb
  obtain ⟨al0, al1, ah0, ah1⟩ := hina
  obtain ⟨bl0, bl1, bh0, bh1⟩ := hinb
  have e1 : volIdx true ax.size a.li = a.li - 1 := by
    unfold volIdx; simp only [if_true]; rw [if_neg (by omega), if_neg (by omega)]
  have e2 : volIdx true ax.size a.hi = a.hi - 1 := by
    unfold volIdx; simp only [if_true]; rw [if_neg (by omega), if_neg (by omega)]
  have e3 : volIdx true ay.size b.li = b.li - 1 := by
    unfold volIdx; simp only [if_true]; rw [if_neg (by omega), if_neg (by omega)]
  have e4 : volIdx true ay.size b.hi = b.hi - 1 := by
    unfold volIdx; simp only [if_true]; rw [if_neg (by omega), if_neg (by omega)]
  rw [validView_deposit, validView_deposit, validView_deposit, validView_deposit, e1, e2, e3, e4]
  simp only [List.map_cons, List.map_nil]
  rw [integral_deposit _ _ _ _ _ (validIdx2 (by omega) (by omega) (by omega) (by omega)),
    integral_deposit _ _ _ _ _ (validIdx2 (by omega) (by omega) (by omega) (by omega)),
    integral_deposit _ _ _ _ _ (validIdx2 (by omega) (by omega) (by omega) (by omega)),
    integral_deposit _ _ _ _ _ (validIdx2 (by omega) (by omega) (by omega) (by omega))]
  have v1 := hvol (a.li - 1) (b.li - 1) (by omega) (by omega) (by omega) (by omega)
  have v2 := hvol (a.li - 1) (b.hi - 1) (by omega) (by omega) (by omega) (by omega)
  have v3 := hvol (a.hi - 1) (b.li - 1) (by omega) (by omega) (by omega) (by omega)
  have v4 := hvol (a.hi - 1) (b.hi - 1) (by omega) (by omega) (by omega) (by omega)
  have e : (a.wl + a.wh) * (b.wl + b.wh) * amount = amount := by rw [hsa, hsb]; ring
  field_simp
  linear_combination e

/-- **compiled inserter, 2 axes** -/
theorem insert_conserves_compiled2 {eps : K} (he : eps ≤ 0) (ax ay : Axis K) (hsx : 1 ≤ ax.size)
    (hsy : 1 ≤ ay.size) (vol data : Idx → K) (px py amount : K)
    (hvol : ∀ i j, 0 ≤ i → i < ax.size → 0 ≤ j → j < ay.size → vol [i, j] ≠ 0)
    (data' : Idx → K) (h : insertComp2 eps false ax ay vol data px py amount = some data') :
    integral [ax.size, ay.size] vol data' = integral [ax.size, ay.size] vol data + amount := by
  unfold insertComp2 at h
  cases ha : axisData eps false false ax px with
  | none => rw [ha] at h; exact absurd h (by simp)
  | some a =>
    cases hb : axisData eps false false ay py with
    | none => rw [ha, hb] at h; exact absurd h (by simp)
    | some b =>
      rw [ha, hb] at h; simp only [Option.some.injEq, volIdx_false] at h; rw [← h]
      obtain ⟨hsa, -, -⟩ := axisDataX_weights he ha
      obtain ⟨hsb, -, -⟩ := axisDataX_weights he hb
      obtain ⟨al0, al1, ah0, ah1⟩ := axisDataX_indices hsx ha
      obtain ⟨bl0, bl1, bh0, bh1⟩ := axisDataX_indices hsy hb
      rw [integral_deposit _ _ _ _ _ (validIdx2 ah0 ah1 bh0 bh1),
        integral_deposit _ _ _ _ _ (validIdx2 ah0 ah1 bl0 bl1),
        integral_deposit _ _ _ _ _ (validIdx2 al0 al1 bh0 bh1),
        integral_deposit _ _ _ _ _ (validIdx2 al0 al1 bl0 bl1)]
      have v1 := hvol _ _ al0 al1 bl0 bl1
      have v2 := hvol _ _ al0 al1 bh0 bh1
      have v3 := hvol _ _ ah0 ah1 bl0 bl1
      have v4 := hvol _ _ ah0 ah1 bh0 bh1
      have e : (a.wl + a.wh) * (b.wl + b.wh) * amount = amount := by rw [hsa, hsb]; ring
      field_simp
      linear_combination e

/-- **compiled inserter, 3 axes** -/
theorem insert_conserves_compiled3 {eps : K} (he : eps ≤ 0) (ax ay az : Axis K) (hsx : 1 ≤ ax.size)
    (hsy : 1 ≤ ay.size) (hsz : 1 ≤ az.size) (vol data : Idx → K) (px py pz amount : K)
    (hvol : ∀ i j k, 0 ≤ i → i < ax.size → 0 ≤ j → j < ay.size → 0 ≤ k → k < az.size →
      vol [i, j, k] ≠ 0)
    (data' : Idx → K) (h : insertComp3 eps false ax ay az vol data px py pz amount = some data') :
    integral [ax.size, ay.size, az.size] vol data'
      = integral [ax.size, ay.size, az.size] vol data + amount := by
  unfold insertComp3 at h
  cases ha : axisData eps false false ax px with
  | none => rw [ha] at h; exact absurd h (by simp)
  | some a =>
    cases hb : axisData eps false false ay py with
    | none => rw [ha, hb] at h; exact absurd h (by simp)
    | some b =>
      cases hc : axisData eps false false az pz with
      | none => rw [ha, hb, hc] at h; exact absurd h (by simp)
      | some c =>
        rw [ha, hb, hc] at h; simp only [Option.some.injEq, volIdx_false] at h; rw [← h]
        obtain ⟨hsa, -, -⟩ := axisDataX_weights he ha
        obtain ⟨hsb, -, -⟩ := axisDataX_weights he hb
        obtain ⟨hsc, -, -⟩ := axisDataX_weights he hc
        obtain ⟨al0, al1, ah0, ah1⟩ := axisDataX_indices hsx ha
        obtain ⟨bl0, bl1, bh0, bh1⟩ := axisDataX_indices hsy hb
        obtain ⟨cl0, cl1, ch0, ch1⟩ := axisDataX_indices hsz hc
        rw [integral_deposit _ _ _ _ _ (validIdx3 ah0 ah1 bh0 bh1 ch0 ch1),
          integral_deposit _ _ _ _ _ (validIdx3 ah0 ah1 bh0 bh1 cl0 cl1),
          integral_deposit _ _ _ _ _ (validIdx3 ah0 ah1 bl0 bl1 ch0 ch1),
          integral_deposit _ _ _ _ _ (validIdx3 ah0 ah1 bl0 bl1 cl0 cl1),
          integral_deposit _ _ _ _ _ (validIdx3 al0 al1 bh0 bh1 ch0 ch1),
          integral_deposit _ _ _ _ _ (validIdx3 al0 al1 bh0 bh1 cl0 cl1),
          integral_deposit _ _ _ _ _ (validIdx3 al0 al1 bl0 bl1 ch0 ch1),
          integral_deposit _ _ _ _ _ (validIdx3 al0 al1 bl0 bl1 cl0 cl1)]
        have v1 := hvol _ _ _ al0 al1 bl0 bl1 cl0 cl1
        have v2 := hvol _ _ _ al0 al1 bl0 bl1 ch0 ch1
        have v3 := hvol _ _ _ al0 al1 bh0 bh1 cl0 cl1
        have v4 := hvol _ _ _ al0 al1 bh0 bh1 ch0 ch1
        have v5 := hvol _ _ _ ah0 ah1 bl0 bl1 cl0 cl1
        have v6 := hvol _ _ _ ah0 ah1 bl0 bl1 ch0 ch1
        have v7 := hvol _ _ _ ah0 ah1 bh0 bh1 cl0 cl1
        have v8 := hvol _ _ _ ah0 ah1 bh0 bh1 ch0 ch1
        have e : (a.wl + a.wh) * (b.wl + b.wh) * (c.wl + c.wh) * amount = amount := by
          rw [hsa, hsb, hsc]; ring
        field_simp
        linear_combination e

/-- **interpreted insert = compiled inserter, 1 axis**: for every point inside the domain both
succeed and leave the same value in every cell of the grid -/
theorem insert_interpreted_eq_compiled {eps : K} (he : eps ≤ 0) (ax : Axis K) (hok : ax.ok)
    (vol data : Idx → K) (px amount : K) (hin : insideAxis ax px) :
    ∃ dI dC, insertInterp [ax] vol data [px] amount = some dI ∧
      insertComp1 eps false ax vol data px amount = some dC ∧
      ∀ i, 0 ≤ i → i < ax.size → dI [i] = dC [i] := by
  obtain ⟨a, ha, hs, hmu⟩ := axis_interp_eq_compiled he ax hok px hin
  have htot : totalW [ax] [px] ≠ 0 := by rw [totalW1]; exact hs.ne'
  refine ⟨_, _, by rw [insertInterp_eq, if_neg htot], by unfold insertComp1; rw [ha], ?_⟩
  intro i hi0 hi1
  rw [insertInterp_cell [ax] vol data [px] amount [i] (validIdx1 hi0 hi1),
    sum_corners_prodPhi _ _ (by simp)]
  simp only [List.zipWith_cons_cons, List.zipWith_nil_right, List.map_cons, List.map_nil,
    List.prod_cons, List.prod_nil, mul_one, deposit_apply, volIdx_false, dep1]
  have := hmu i hi0 hi1
  unfold muAxis at this
  rw [this, totalW1]
  by_cases hv : vol [i] = 0
  · simp [hv]
  · have := hs.ne'
    field_simp
    ring

/-- **2 axes** -/
theorem insert_interpreted_eq_compiled2 {eps : K} (he : eps ≤ 0) (ax ay : Axis K) (hx : ax.ok)
    (hy : ay.ok) (vol data : Idx → K) (px py amount : K)
    (hin : insideAxis ax px ∧ insideAxis ay py) :
    ∃ dI dC, insertInterp [ax, ay] vol data [px, py] amount = some dI ∧
      insertComp2 eps false ax ay vol data px py amount = some dC ∧
      ∀ i j, 0 ≤ i → i < ax.size → 0 ≤ j → j < ay.size → dI [i, j] = dC [i, j] := by
  obtain ⟨a, ha, hsa, hmua⟩ := axis_interp_eq_compiled he ax hx px hin.1
  obtain ⟨b, hb, hsb, hmub⟩ := axis_interp_eq_compiled he ay hy py hin.2
  have htot : totalW [ax, ay] [px, py] ≠ 0 := by rw [totalW2]; exact (mul_pos hsa hsb).ne'
  refine ⟨_, _, by rw [insertInterp_eq, if_neg htot], by unfold insertComp2; rw [ha, hb], ?_⟩
  intro i j hi0 hi1 hj0 hj1
  rw [insertInterp_cell [ax, ay] vol data [px, py] amount [i, j] (validIdx2 hi0 hi1 hj0 hj1),
    sum_corners_prodPhi _ _ (by simp)]
  simp only [List.zipWith_cons_cons, List.zipWith_nil_right, List.map_cons, List.map_nil,
    List.prod_cons, List.prod_nil, mul_one, deposit_apply, volIdx_false, dep2]
  have h1 := hmua i hi0 hi1
  have h2 := hmub j hj0 hj1
  unfold muAxis at h1 h2
  rw [h1, h2, totalW2]
  by_cases hv : vol [i, j] = 0
  · simp [hv]
  · have := hsa.ne'
    have := hsb.ne'
    field_simp
    ring

/-- **3 axes** -/
theorem insert_interpreted_eq_compiled3 {eps : K} (he : eps ≤ 0) (ax ay az : Axis K) (hx : ax.ok)
    (hy : ay.ok) (hz : az.ok) (vol data : Idx → K) (px py pz amount : K)
    (hin : insideAxis ax px ∧ insideAxis ay py ∧ insideAxis az pz) :
    ∃ dI dC, insertInterp [ax, ay, az] vol data [px, py, pz] amount = some dI ∧
      insertComp3 eps false ax ay az vol data px py pz amount = some dC ∧
      ∀ i j k, 0 ≤ i → i < ax.size → 0 ≤ j → j < ay.size → 0 ≤ k → k < az.size →
        dI [i, j, k] = dC [i, j, k] := by
  obtain ⟨a, ha, hsa, hmua⟩ := axis_interp_eq_compiled he ax hx px hin.1
  obtain ⟨b, hb, hsb, hmub⟩ := axis_interp_eq_compiled he ay hy py hin.2.1
  obtain ⟨c, hc, hsc, hmuc⟩ := axis_interp_eq_compiled he az hz pz hin.2.2
  have htot : totalW [ax, ay, az] [px, py, pz] ≠ 0 := by
    rw [totalW3]; exact (mul_pos hsa (mul_pos hsb hsc)).ne'
  refine ⟨_, _, by rw [insertInterp_eq, if_neg htot], by unfold insertComp3; rw [ha, hb, hc], ?_⟩
  intro i j k hi0 hi1 hj0 hj1 hk0 hk1
  rw [insertInterp_cell [ax, ay, az] vol data [px, py, pz] amount [i, j, k]
      (validIdx3 hi0 hi1 hj0 hj1 hk0 hk1),
    sum_corners_prodPhi _ _ (by simp)]
  simp only [List.zipWith_cons_cons, List.zipWith_nil_right, List.map_cons, List.map_nil,
    List.prod_cons, List.prod_nil, mul_one, deposit_apply, volIdx_false, dep3]
  have h1 := hmua i hi0 hi1
  have h2 := hmub j hj0 hj1
  have h3 := hmuc k hk0 hk1
  unfold muAxis at h1 h2 h3
  rw [h1, h2, h3, totalW3]
  by_cases hv : vol [i, j, k] = 0
  · simp [hv]
  · have := hsa.ne'
    have := hsb.ne'
    have := hsc.ne'
    field_simp
    ring

/-- consequence: `insert` at a point inside the domain conserves the amount on 1, 2, 3 axes
(interpreted: acceptance from the theorems above + `insert_conserves`) -/
theorem insert_inside_conserves2 {eps : K} (he : eps ≤ 0) (ax ay : Axis K) (hx : ax.ok) (hy : ay.ok)
    (vol data : Idx → K) (px py amount : K) (hin : insideAxis ax px ∧ insideAxis ay py)
    (hvol : ∀ c, validIdx [ax.size, ay.size] c = true → vol c ≠ 0) :
    ∃ dI, insertInterp [ax, ay] vol data [px, py] amount = some dI ∧
      integral [ax.size, ay.size] vol dI = integral [ax.size, ay.size] vol data + amount := by
  obtain ⟨dI, -, hI, -, -⟩ := insert_interpreted_eq_compiled2 he ax ay hx hy vol data px py amount hin
  exact ⟨dI, hI, insert_conserves [ax, ay] vol data [px, py] amount hvol dI hI⟩

theorem insert_inside_conserves {eps : K} (he : eps ≤ 0) (ax : Axis K) (hx : ax.ok)
    (vol data : Idx → K) (px amount : K) (hin : insideAxis ax px)
    (hvol : ∀ c, validIdx [ax.size] c = true → vol c ≠ 0) :
    ∃ dI, insertInterp [ax] vol data [px] amount = some dI ∧
      integral [ax.size] vol dI = integral [ax.size] vol data + amount := by
  obtain ⟨dI, -, hI, -, -⟩ := insert_interpreted_eq_compiled he ax hx vol data px amount hin
  exact ⟨dI, hI, insert_conserves [ax] vol data [px] amount hvol dI hI⟩

theorem insert_inside_conserves3 {eps : K} (he : eps ≤ 0) (ax ay az : Axis K) (hx : ax.ok)
    (hy : ay.ok) (hz : az.ok) (vol data : Idx → K) (px py pz amount : K)
    (hin : insideAxis ax px ∧ insideAxis ay py ∧ insideAxis az pz)
    (hvol : ∀ c, validIdx [ax.size, ay.size, az.size] c = true → vol c ≠ 0) :
    ∃ dI, insertInterp [ax, ay, az] vol data [px, py, pz] amount = some dI ∧
      integral [ax.size, ay.size, az.size] vol dI
        = integral [ax.size, ay.size, az.size] vol data + amount := by
  obtain ⟨dI, -, hI, -, -⟩ :=
    insert_interpreted_eq_compiled3 he ax ay az hx hy hz vol data px py pz amount hin
  exact ⟨dI, hI, insert_conserves [ax, ay, az] vol data [px, py, pz] amount hvol dI hI⟩

/-- the dispatch on the number of axes (`make_single_interpolator`, `make_inserter`) is the
1/2/3-axis function the theorems above are about -/
theorem interpN_dispatch (eps : K) (ghost cc : Bool) (fill : Option K) (ax ay az : Axis K)
    (data : Idx → K) (px py pz : K) :
    interpN eps ghost cc fill [ax] data [px] = interp1 eps ghost cc fill ax data px ∧
    interpN eps ghost cc fill [ax, ay] data [px, py] = interp2 eps ghost cc fill ax ay data px py ∧
    interpN eps ghost cc fill [ax, ay, az] data [px, py, pz]
      = interp3 eps ghost cc fill ax ay az data px py pz := ⟨rfl, rfl, rfl⟩

end
end PdeVerif.Interp

/-! ## non-vacuity: the hypotheses are satisfiable and the conclusions are concrete numbers -/
namespace PdeVerif.Interp.Examples
open PdeVerif PdeVerif.Interp

/-- use the floor of the ordered field `ℚ` (the one the theorems are stated for) -/
local instance (priority := high) exFloor : HasFloor ℚ := instHasFloorOfFloorRing

/-- 4 cells of width 1/2 on [0, 2], not periodic; data `i ↦ i²` -/
def ax4 : Axis ℚ := ⟨4, false, 0, 1/2⟩
/-- 3 cells of width 1 on [0, 3], periodic -/
def per3 : Axis ℚ := ⟨3, true, 0, 1⟩
def sq : Idx → ℚ := fun c => match c with | [i] => (i : ℚ) ^ 2 | _ => 0
def vol13 : Idx → ℚ := fun c => match c with | [0] => 1 | [1] => 3 | [2] => 5 | [3] => 7 | _ => 0

example : ax4.ok ∧ per3.ok := by unfold Axis.ok ax4 per3; norm_num

/-- a quarter of the way from centre 1 to centre 2: `3/4·1 + 1/4·4 = 7/4` -/
example : interp1 (0:ℚ) false false none ax4 sq (3/4 + 1/8) = some (7/4) := by
  have h := multilinear_between_centres (K := ℚ) (le_refl 0) false none ax4 (by norm_num [ax4]) sq 1
    (by norm_num) (by norm_num [ax4]) (t := 1/4) (by norm_num) (by norm_num)
  have e : centre ax4 1 + 1/4 * ax4.dx = 3/4 + 1/8 := by norm_num [centre, ax4]
  rw [e] at h; rw [h]; norm_num [lerp, shift, sq]

/-- exact at the centre of the last cell (`i = 3`, upper-strip branch), with the code's `eps` -/
example : interp1 (1/10^15 : ℚ) false false none ax4 sq (7/4) = some 9 := by
  have h := exact_at_centres (K := ℚ) (eps := 1/10^15) (by norm_num) false none ax4
    (by norm_num [ax4]) sq 3 (by norm_num) (by norm_num [ax4])
  have e : centre ax4 3 = 7/4 := by norm_num [centre, ax4]
  rw [e] at h; rw [h]; norm_num [shift, sq]

/-- clearly outside: the fill value, resp. the error -/
example : interp1 (0:ℚ) false false (some 42) ax4 sq (-1/10) = some 42 ∧
    interp1 (0:ℚ) false false none ax4 sq (21/10) = none := by
  constructor
  · exact outside_is_rejected _ _ _ ax4 (by unfold Axis.ok ax4; norm_num) sq _
      ⟨rfl, Or.inl (by norm_num [ax4])⟩
  · exact outside_is_rejected _ _ _ ax4 (by unfold Axis.ok ax4; norm_num) sq _
      ⟨rfl, Or.inr (by norm_num [ax4, upperEnd])⟩

/-- in the upper boundary strip: the last cell's value -/
example : interp1 (0:ℚ) false false none ax4 sq (19/10) = some 9 := by
  have h := (boundary_strip_nearest (K := ℚ) (le_refl 0) none ax4 (by unfold Axis.ok ax4; norm_num) sq
    (19/10)).2 ⟨rfl, by norm_num [ax4, upperEnd], by norm_num [ax4, upperEnd]⟩
  rw [h]; norm_num [ax4, sq]

/-- across the periodic seam: half way between the last and the first centre -/
example : interp1 (0:ℚ) false false none per3 sq 3 = some 2 := by
  have h := periodic_seam_last_first (K := ℚ) (le_refl 0) false none per3 rfl (by norm_num [per3])
    (by norm_num [per3]) sq (t := 1/2) (by norm_num) (by norm_num)
  have e : centre per3 (per3.size - 1) + 1/2 * per3.dx = 3 := by norm_num [centre, per3]
  rw [e] at h; rw [h]; norm_num [lerp, shift, sq, per3]

/-- ghost-cell mode on the lower face: the mean of ghost cell and first cell (indices 0 and 1 of
the padded array), here `(0 + 1)/2` -/
example : interp1 (0:ℚ) true false none ax4 sq 0 = some (1/2) := by
  have h := (ghost_mode_linear_to_bc_value (K := ℚ) (le_refl 0) none ax4 rfl (by norm_num [ax4])
    (by norm_num [ax4]) sq (τ := 0) (le_refl 0) (by norm_num)).1
  have e : ax4.lo + 0 * (ax4.dx / 2) = 0 := by norm_num [ax4]
  rw [e] at h; rw [h]; norm_num [ghostLine, sq]

/-- inserting 5 in the lower boundary strip of a grid with cell volumes 1, 3, 5, 7: accepted by
both inserters, same result, integral raised by 5 -/
example : ∃ dI dC, insertInterp [ax4] vol13 sq [1/10] 5 = some dI ∧
    insertComp1 (0:ℚ) false ax4 vol13 sq (1/10) 5 = some dC ∧
    (∀ i, 0 ≤ i → i < 4 → dI [i] = dC [i]) ∧
    integral [4] vol13 dI = integral [4] vol13 sq + 5 := by
  have hin : insideAxis ax4 (1/10) := Or.inr ⟨by norm_num [ax4], by norm_num [ax4, upperEnd]⟩
  obtain ⟨dI, dC, hI, hC, heq⟩ := insert_interpreted_eq_compiled (K := ℚ) (le_refl 0) ax4
    (by unfold Axis.ok ax4; norm_num) vol13 sq (1/10) 5 hin
  refine ⟨dI, dC, hI, hC, heq, ?_⟩
  refine insert_conserves [ax4] vol13 sq [1/10] 5 ?_ dI hI
  intro c hc
  match c, hc with
  | [i], hc =>
    simp only [List.map_cons, List.map_nil, validIdx, ax4, Bool.and_true, Bool.and_eq_true,
      decide_eq_true_eq] at hc
    have : i = 0 ∨ i = 1 ∨ i = 2 ∨ i = 3 := by omega
    rcases this with rfl | rfl | rfl | rfl <;> simp [vol13]
  | [], hc => simp [validIdx] at hc
  | _ :: _ :: _, hc => simp [validIdx] at hc

end PdeVerif.Interp.Examples
