import PdeVerif.Props.C12
import PdeVerif.Model.GridCtor
/-
C12 (gap round): statements about the grid *as the constructor creates it* and containment as an
equivalence.

* constructors (`Grid.construct`, Model/GridCtor.lean; the driver builds the grid of every request
  through it): `construct_axes` (which axes every class creates from bounds / radius / shape:
  reversed Cartesian bounds are flipped to `(min, max)`, a radius number is `(0, r)`, `UnitGrid`
  is `(0, N)`), `construct_wf`, **`constructed_centres_and_dx`** (every accepted constructor call
  gives a grid with `dx = (x_max - x_min)/N` and centres `x_min + (i + 1/2) dx` on every axis, with
  `x_min/x_max` expressed by the constructor arguments), `construct_rejects_bad_radius`,
  `construct_rejects_zero_cells`;
* containment: **`containsGrid_iff_in_bounds`** (`contains_point` iff every coordinate lies within the
  bounds of its axis), `cell_index_in_range_iff`, **`containsCellPoint_iff_index`** (iff the cell index
  `floor(cell coordinate)` is in `0 .. N-1` on every axis, or the point lies on the upper face),
  `containsCartesian_iff_in_bounds`;
* random points through the named definitions the driver evaluates: `randomPointCart_contained`,
  `randomRadialDraw_contained`.
-/
set_option linter.unusedSectionVars false
namespace PdeVerif.Grids
open PdeVerif

section
variable {K : Type} [Field K] [LinearOrder K] [IsStrictOrderedRing K] [FloorRing K]

/-! ### the constructors -/

theorem checkShape_ok (shape : List ℕ) (h : checkShape shape = .ok ()) :
    shape ≠ [] ∧ ∀ n ∈ shape, n ≠ 0 := by
  unfold checkShape at h
  split_ifs at h with hc
  simp only [Bool.or_eq_true, List.isEmpty_iff, List.any_eq_true, beq_iff_eq, not_or, not_exists,
    not_and] at hc
  exact ⟨hc.1, fun n hn h0 => hc.2 n hn h0⟩

theorem checkRadius_ok (r : Radius K) (b : K × K) (h : checkRadius r = .ok b) :
    b = r.bounds ∧ 0 ≤ b.1 ∧ b.1 < b.2 := by
  unfold checkRadius at h
  simp only [Nat.cast_zero] at h
  split_ifs at h with h1 h2
  cases h
  exact ⟨rfl, not_lt.mp h1, not_le.mp h2⟩

/-- the axes of a Cartesian grid: `(min, max)` of the two bounds, the given cell count and flag -/
theorem cartesianAxes_getElem? (bounds : List (K × K)) (shape : List ℕ) (per : List Bool) (ax : ℕ)
    (b : K × K) (n : ℕ) (p : Bool) (hb : bounds[ax]? = some b) (hn : shape[ax]? = some n)
    (hp : per[ax]? = some p) :
    (cartesianAxes bounds shape per)[ax]? = some ⟨min b.1 b.2, max b.1 b.2, n, p⟩ := by
  induction bounds generalizing shape per ax with
  | nil => simp at hb
  | cons b0 bs ih =>
    cases shape with
    | nil => simp at hn
    | cons n0 ns =>
      cases per with
      | nil => simp at hp
      | cons p0 ps =>
        cases ax with
        | zero =>
          simp only [List.getElem?_cons_zero, Option.some.injEq] at hb hn hp
          subst hb hn hp
          simp [cartesianAxes, cuboidBounds_eq]
        | succ k =>
          simp only [List.getElem?_cons_succ] at hb hn hp
          simpa [cartesianAxes] using ih ns ps k hb hn hp

theorem cartesianAxes_length (bounds : List (K × K)) (shape : List ℕ) (per : List Bool)
    (h1 : bounds.length = shape.length) (h2 : per.length = shape.length) :
    (cartesianAxes bounds shape per).length = shape.length := by
  induction bounds generalizing shape per with
  | nil => cases shape <;> simp_all [cartesianAxes]
  | cons b0 bs ih =>
    cases shape with
    | nil => simp at h1
    | cons n0 ns =>
      cases per with
      | nil => simp at h2
      | cons p0 ps => simp [cartesianAxes, ih ns ps (by simpa using h1) (by simpa using h2)]

theorem cartesianAxes_mem (bounds : List (K × K)) (shape : List ℕ) (per : List Bool) (a : Axis K)
    (ha : a ∈ cartesianAxes bounds shape per) :
    ∃ b ∈ bounds, ∃ n ∈ shape, a.lo = min b.1 b.2 ∧ a.hi = max b.1 b.2 ∧ a.n = n := by
  induction bounds generalizing shape per with
  | nil => simp [cartesianAxes] at ha
  | cons b0 bs ih =>
    cases shape with
    | nil => simp [cartesianAxes] at ha
    | cons n0 ns =>
      cases per with
      | nil => simp [cartesianAxes] at ha
      | cons p0 ps =>
        simp only [cartesianAxes, List.mem_cons] at ha
        rcases ha with rfl | ha
        · exact ⟨b0, by simp, n0, by simp, by simp [cuboidBounds_eq], by simp [cuboidBounds_eq], rfl⟩
        · obtain ⟨b, hb, n, hn, h⟩ := ih ns ps ha
          exact ⟨b, by simp [hb], n, by simp [hn], h⟩

theorem unitAxes_getElem? (shape : List ℕ) (per : List Bool) (ax n : ℕ) (p : Bool)
    (hn : shape[ax]? = some n) (hp : per[ax]? = some p) :
    (unitAxes shape per : List (Axis K))[ax]? = some ⟨0, (n : K), n, p⟩ := by
  induction shape generalizing per ax with
  | nil => simp at hn
  | cons n0 ns ih =>
    cases per with
    | nil => simp at hp
    | cons p0 ps =>
      cases ax with
      | zero =>
        simp only [List.getElem?_cons_zero, Option.some.injEq] at hn hp
        subst hn hp
        simp [unitAxes, unitAxis]
      | succ k =>
        simp only [List.getElem?_cons_succ] at hn hp
        simpa [unitAxes] using ih ps k hn hp

theorem unitAxes_mem (shape : List ℕ) (per : List Bool) (a : Axis K) (ha : a ∈ (unitAxes shape per : List (Axis K))) :
    ∃ n ∈ shape, a.lo = 0 ∧ a.hi = (n : K) ∧ a.n = n := by
  induction shape generalizing per with
  | nil => simp [unitAxes] at ha
  | cons n0 ns ih =>
    cases per with
    | nil => simp [unitAxes] at ha
    | cons p0 ps =>
      simp only [unitAxes, List.mem_cons] at ha
      rcases ha with rfl | ha
      · exact ⟨n0, by simp, by simp [unitAxis], by simp [unitAxis], rfl⟩
      · obtain ⟨n, hn, h⟩ := ih ps ha
        exact ⟨n, by simp [hn], h⟩

/-! #### what an accepted call went through (one lemma per class) -/

theorem construct_unit_ok (shape : List ℕ) (per : List Bool) (g : Grid K)
    (h : Grid.construct (.unit shape per) = .ok g) :
    checkShape shape = .ok () ∧ per.length = shape.length ∧ g = ⟨.unit, unitAxes shape per⟩ := by
  simp only [Grid.construct, bind, Except.bind] at h
  cases hcs : checkShape shape with
  | error e => rw [hcs] at h; cases h
  | ok u =>
    rw [hcs] at h
    simp only at h
    split_ifs at h with h1
    cases h
    exact ⟨rfl, not_not.mp h1, rfl⟩

theorem construct_cartesian_ok (bounds : List (K × K)) (shape : List ℕ) (per : List Bool) (g : Grid K)
    (h : Grid.construct (.cartesian bounds shape per) = .ok g) :
    checkShape shape = .ok () ∧ bounds.length = shape.length ∧ per.length = shape.length ∧
      g = ⟨.cartesian, cartesianAxes bounds shape per⟩ := by
  simp only [Grid.construct, bind, Except.bind] at h
  cases hcs : checkShape shape with
  | error e => rw [hcs] at h; cases h
  | ok u =>
    rw [hcs] at h
    simp only at h
    split_ifs at h with h1 h2
    cases h
    exact ⟨rfl, not_not.mp h1, not_not.mp h2, rfl⟩

theorem construct_polar_ok (radius : Radius K) (shape : List ℕ) (g : Grid K)
    (h : Grid.construct (.polar radius shape) = .ok g) :
    ∃ n b, shape = [n] ∧ n ≠ 0 ∧ checkRadius radius = .ok b ∧
      g = ⟨.polar, [(⟨b.1, b.2, n, false⟩ : Axis K)]⟩ := by
  simp only [Grid.construct, bind, Except.bind] at h
  rcases shape with _ | ⟨n, _ | ⟨m, rest⟩⟩
  · cases hcs : checkShape ([] : List ℕ) <;> rw [hcs] at h <;> simp at h
  · cases hcs : checkShape [n] with
    | error e => rw [hcs] at h; cases h
    | ok u =>
      rw [hcs] at h
      simp only at h
      cases hcr : checkRadius radius with
      | error e => rw [hcr] at h; cases h
      | ok b =>
        rw [hcr] at h
        cases h
        exact ⟨n, b, rfl, (checkShape_ok [n] hcs).2 n (by simp), rfl, rfl⟩
  · cases hcs : checkShape (n :: m :: rest) <;> rw [hcs] at h <;> simp at h

theorem construct_spherical_ok (radius : Radius K) (shape : List ℕ) (g : Grid K)
    (h : Grid.construct (.spherical radius shape) = .ok g) :
    ∃ n b, shape = [n] ∧ n ≠ 0 ∧ checkRadius radius = .ok b ∧
      g = ⟨.spherical, [(⟨b.1, b.2, n, false⟩ : Axis K)]⟩ := by
  simp only [Grid.construct, bind, Except.bind] at h
  rcases shape with _ | ⟨n, _ | ⟨m, rest⟩⟩
  · cases hcs : checkShape ([] : List ℕ) <;> rw [hcs] at h <;> simp at h
  · cases hcs : checkShape [n] with
    | error e => rw [hcs] at h; cases h
    | ok u =>
      rw [hcs] at h
      simp only at h
      cases hcr : checkRadius radius with
      | error e => rw [hcr] at h; cases h
      | ok b =>
        rw [hcr] at h
        cases h
        exact ⟨n, b, rfl, (checkShape_ok [n] hcs).2 n (by simp), rfl, rfl⟩
  · cases hcs : checkShape (n :: m :: rest) <;> rw [hcs] at h <;> simp at h

theorem construct_cylindrical_ok (radius : Radius K) (zlo zhi : K) (shape : List ℕ) (pz : Bool) (g : Grid K)
    (h : Grid.construct (.cylindrical radius zlo zhi shape pz) = .ok g) :
    ∃ nr nz b, (shape = [nr, nz] ∨ (shape = [nr] ∧ nz = nr)) ∧ nr ≠ 0 ∧ nz ≠ 0 ∧
      checkRadius radius = .ok b ∧
      g = ⟨.cylindrical, [(⟨b.1, b.2, nr, false⟩ : Axis K), ⟨zlo, zhi, nz, pz⟩]⟩ := by
  simp only [Grid.construct, bind, Except.bind] at h
  rcases shape with _ | ⟨n, _ | ⟨m, _ | ⟨k, rest⟩⟩⟩
  · cases hcs : checkShape ([] : List ℕ) <;> rw [hcs] at h <;> simp at h
  · cases hcs : checkShape [n] with
    | error e => rw [hcs] at h; cases h
    | ok u =>
      rw [hcs] at h
      simp only at h
      by_cases hz : zlo < zhi
      · simp only [hz, not_true_eq_false, if_false] at h
        cases hcr : checkRadius radius with
        | error e => rw [hcr] at h; cases h
        | ok b =>
          rw [hcr] at h
          cases h
          have hn := (checkShape_ok [n] hcs).2 n (by simp)
          exact ⟨n, n, b, Or.inr ⟨rfl, rfl⟩, hn, hn, rfl, rfl⟩
      · simp only [hz, not_false_eq_true, if_true] at h
        cases h
  · cases hcs : checkShape [n, m] with
    | error e => rw [hcs] at h; cases h
    | ok u =>
      rw [hcs] at h
      simp only at h
      by_cases hz : zlo < zhi
      · simp only [hz, not_true_eq_false, if_false] at h
        cases hcr : checkRadius radius with
        | error e => rw [hcr] at h; cases h
        | ok b =>
          rw [hcr] at h
          cases h
          have hp := (checkShape_ok [n, m] hcs).2
          exact ⟨n, m, b, Or.inl rfl, hp n (by simp), hp m (by simp), rfl, rfl⟩
      · simp only [hz, not_false_eq_true, if_true] at h
        cases h
  · cases hcs : checkShape (n :: m :: k :: rest) <;> rw [hcs] at h <;> simp at h

/-- **after the repair of /repo** (`fix: CylindricalSymGrid accepted reversed bounds_z`): an accepted call has
`bounds_z` in increasing order - the hypothesis `Ctor.Valid` of `constructed_centres_and_dx` is now implied by
acceptance for the cylindrical grid ... -/
theorem construct_cylindrical_bounds_z (radius : Radius K) (zlo zhi : K) (shape : List ℕ) (pz : Bool) (g : Grid K)
    (h : Grid.construct (.cylindrical radius zlo zhi shape pz) = .ok g) : zlo < zhi := by
  by_contra hz
  simp only [Grid.construct, bind, Except.bind] at h
  rcases shape with _ | ⟨n, _ | ⟨m, _ | ⟨k, rest⟩⟩⟩
  · cases hcs : checkShape ([] : List ℕ) <;> rw [hcs] at h <;> simp at h
  · cases hcs : checkShape [n] with
    | error e => rw [hcs] at h; cases h
    | ok u =>
      rw [hcs] at h
      simp only [hz, not_false_eq_true, if_true] at h
      cases h
  · cases hcs : checkShape [n, m] with
    | error e => rw [hcs] at h; cases h
    | ok u =>
      rw [hcs] at h
      simp only [hz, not_false_eq_true, if_true] at h
      cases h
  · cases hcs : checkShape (n :: m :: k :: rest) <;> rw [hcs] at h <;> simp at h

/-- **which grid every constructor call creates** (class and described axes in terms of the
constructor arguments) -/
theorem construct_axes (c : Ctor K) (g : Grid K) (h : Grid.construct c = .ok g) :
    match c with
    | .unit shape per => g.cls = .unit ∧ per.length = shape.length ∧
        ∀ (ax n : ℕ) (p : Bool), shape[ax]? = some n → per[ax]? = some p →
          g.axes[ax]? = some (⟨0, (n : K), n, p⟩ : Axis K)
    | .cartesian bounds shape per => g.cls = .cartesian ∧ bounds.length = shape.length ∧
        per.length = shape.length ∧ g.axes.length = shape.length ∧
        ∀ (ax : ℕ) (b : K × K) (n : ℕ) (p : Bool), bounds[ax]? = some b → shape[ax]? = some n →
          per[ax]? = some p → g.axes[ax]? = some (⟨min b.1 b.2, max b.1 b.2, n, p⟩ : Axis K)
    | .polar radius shape => ∃ n, shape = [n] ∧
        g = ⟨.polar, [(⟨radius.bounds.1, radius.bounds.2, n, false⟩ : Axis K)]⟩
    | .spherical radius shape => ∃ n, shape = [n] ∧
        g = ⟨.spherical, [(⟨radius.bounds.1, radius.bounds.2, n, false⟩ : Axis K)]⟩
    | .cylindrical radius zlo zhi shape pz =>
        ∃ nr nz, (shape = [nr, nz] ∨ (shape = [nr] ∧ nz = nr)) ∧
          g = ⟨.cylindrical, [(⟨radius.bounds.1, radius.bounds.2, nr, false⟩ : Axis K),
            ⟨zlo, zhi, nz, pz⟩]⟩ := by
  cases c with
  | unit shape per =>
    obtain ⟨_, h1, rfl⟩ := construct_unit_ok shape per g h
    exact ⟨rfl, h1, fun ax n p hn hp => unitAxes_getElem? shape per ax n p hn hp⟩
  | cartesian bounds shape per =>
    obtain ⟨_, h1, h2, rfl⟩ := construct_cartesian_ok bounds shape per g h
    exact ⟨rfl, h1, h2, cartesianAxes_length _ _ _ h1 h2,
      fun ax b n p hb hn hp => cartesianAxes_getElem? bounds shape per ax b n p hb hn hp⟩
  | polar radius shape =>
    obtain ⟨n, b, hs, _, hb, rfl⟩ := construct_polar_ok radius shape g h
    obtain ⟨rfl, _, _⟩ := checkRadius_ok radius b hb
    exact ⟨n, hs, rfl⟩
  | spherical radius shape =>
    obtain ⟨n, b, hs, _, hb, rfl⟩ := construct_spherical_ok radius shape g h
    obtain ⟨rfl, _, _⟩ := checkRadius_ok radius b hb
    exact ⟨n, hs, rfl⟩
  | cylindrical radius zlo zhi shape pz =>
    obtain ⟨nr, nz, b, hs, _, _, hb, rfl⟩ := construct_cylindrical_ok radius zlo zhi shape pz g h
    obtain ⟨rfl, _, _⟩ := checkRadius_ok radius b hb
    exact ⟨nr, nz, hs, rfl⟩

/-- arguments for which the created grid is non-degenerate: the two bounds of every Cartesian
axis differ (the order is irrelevant), `bounds_z` of a cylinder is increasing (it is taken as
given).  Everything else is checked by the constructors themselves. -/
def Ctor.Valid : Ctor K → Prop
  | .cartesian bounds _ _ => ∀ b ∈ bounds, b.1 ≠ b.2
  | .cylindrical _ zlo zhi _ _ => zlo < zhi
  | _ => True

theorem construct_cylindrical_valid (radius : Radius K) (zlo zhi : K) (shape : List ℕ) (pz : Bool) (g : Grid K)
    (h : Grid.construct (.cylindrical radius zlo zhi shape pz) = .ok g) :
    (Ctor.cylindrical radius zlo zhi shape pz).Valid :=
  construct_cylindrical_bounds_z radius zlo zhi shape pz g h

/-- every accepted constructor call with valid arguments creates a well-formed grid (at least one
cell and `lo < hi` on every axis, `0 ≤ r_inner`, the class's number of axes) -/
theorem construct_wf (c : Ctor K) (g : Grid K) (h : Grid.construct c = .ok g) (hv : c.Valid) : g.WF := by
  cases c with
  | unit shape per =>
    obtain ⟨hs, _, rfl⟩ := construct_unit_ok shape per g h
    obtain ⟨_, hpos⟩ := checkShape_ok shape hs
    refine ⟨?_, trivial⟩
    intro a ha
    obtain ⟨n, hn, h1, h2, h3⟩ := unitAxes_mem shape per a ha
    have hn0 := hpos n hn
    refine ⟨by rw [h3]; exact hn0, ?_, fun _ => ⟨h1, by rw [h2, h3]⟩⟩
    rw [h1, h2]; exact Nat.cast_pos.mpr (Nat.pos_of_ne_zero hn0)
  | cartesian bounds shape per =>
    obtain ⟨hs, _, _, rfl⟩ := construct_cartesian_ok bounds shape per g h
    obtain ⟨_, hpos⟩ := checkShape_ok shape hs
    refine ⟨?_, trivial⟩
    intro a ha
    obtain ⟨b, hb, n, hn, e1, e2, e3⟩ := cartesianAxes_mem bounds shape per a ha
    refine ⟨by rw [e3]; exact hpos n hn, ?_, fun hc => by cases hc⟩
    rw [e1, e2]
    exact min_lt_max.mpr (hv b hb)
  | polar radius shape =>
    obtain ⟨n, b, _, hn, hb, rfl⟩ := construct_polar_ok radius shape g h
    obtain ⟨_, h0, hlt⟩ := checkRadius_ok radius b hb
    exact ⟨by intro a ha; simp at ha; subst ha; exact ⟨hn, hlt, fun hc => by cases hc⟩,
      by simp, by intro a ha; simp at ha; subst ha; exact h0⟩
  | spherical radius shape =>
    obtain ⟨n, b, _, hn, hb, rfl⟩ := construct_spherical_ok radius shape g h
    obtain ⟨_, h0, hlt⟩ := checkRadius_ok radius b hb
    exact ⟨by intro a ha; simp at ha; subst ha; exact ⟨hn, hlt, fun hc => by cases hc⟩,
      by simp, by intro a ha; simp at ha; subst ha; exact h0⟩
  | cylindrical radius zlo zhi shape pz =>
    obtain ⟨nr, nz, b, _, hnr, hnz, hb, rfl⟩ := construct_cylindrical_ok radius zlo zhi shape pz g h
    obtain ⟨_, h0, hlt⟩ := checkRadius_ok radius b hb
    have hz : zlo < zhi := hv
    refine ⟨?_, by simp, ?_⟩
    · intro a ha
      simp only [List.mem_cons, List.not_mem_nil, or_false] at ha
      rcases ha with rfl | rfl
      · exact ⟨hnr, hlt, fun hc => by cases hc⟩
      · exact ⟨hnz, hz, fun hc => by cases hc⟩
    · intro a ha; simp at ha; subst ha; exact h0

/-- **C12, from the constructor's arguments**: every accepted constructor call (with non-degenerate
bounds) creates a grid on which every axis `ax` with bounds `(x_min, x_max)` and `N` cells has
`discretization[ax] = (x_max - x_min)/N` and `N` cell centres `x_min + (i + 1/2) dx`; the bounds
themselves are given by `construct_axes` (Cartesian: `min/max` of the two numbers handed over,
`UnitGrid`: `(0, N)`, radial axes: `(0, r)` or `(r_inner, r_outer)`, `z`: `bounds_z`) -/
theorem constructed_centres_and_dx (c : Ctor K) (g : Grid K) (h : Grid.construct c = .ok g)
    (hv : c.Valid) (ax : ℕ) (a : Axis K) (ha : g.axes[ax]? = some a) :
    a.lo < a.hi ∧ a.n ≠ 0 ∧
    g.discretization[ax]? = some ((a.hi - a.lo) / (a.n : K)) ∧
      ∃ cs, g.axesCoords[ax]? = some cs ∧ cs.length = a.n ∧
        ∀ i (hi : i < cs.length), cs[i] = a.lo + ((i : K) + 1 / 2) * ((a.hi - a.lo) / (a.n : K)) := by
  have hw := construct_wf c g h hv
  have hwa := hw.1 a (List.mem_of_getElem? ha)
  exact ⟨hwa.2.1, hwa.1, grid_centres_and_dx g hw.1 ax a ha⟩

/-- spelled out for `CartesianGrid(bounds, shape)`: axis `ax` built from the numbers `(b₁, b₂)` in
either order has `dx = |b₂ - b₁|/N` and centres `min(b₁,b₂) + (i + 1/2) dx` -/
theorem cartesian_centres_and_dx (bounds : List (K × K)) (shape : List ℕ) (per : List Bool) (g : Grid K)
    (h : Grid.construct (.cartesian bounds shape per) = .ok g) (hv : ∀ b ∈ bounds, b.1 ≠ b.2)
    (ax : ℕ) (b : K × K) (n : ℕ) (hb : bounds[ax]? = some b) (hn : shape[ax]? = some n) :
    g.discretization[ax]? = some (|b.2 - b.1| / (n : K)) ∧
      ∃ cs, g.axesCoords[ax]? = some cs ∧ cs.length = n ∧
        ∀ i (hi : i < cs.length), cs[i] = min b.1 b.2 + ((i : K) + 1 / 2) * (|b.2 - b.1| / (n : K)) := by
  have hax := construct_axes _ g h
  simp only at hax
  obtain ⟨_, h1, h2, _, hall⟩ := hax
  have hlt : ax < per.length := by
    rw [h2]; exact (List.getElem?_eq_some_iff.mp hn).1
  have ha := hall ax b n per[ax] hb hn (List.getElem?_eq_getElem hlt)
  have key := (constructed_centres_and_dx _ g h hv ax _ ha).2.2
  have e : max b.1 b.2 - min b.1 b.2 = |b.2 - b.1| := by
    rcases le_total b.1 b.2 with hle | hle
    · rw [max_eq_right hle, min_eq_left hle, abs_of_nonneg (sub_nonneg.mpr hle)]
    · rw [max_eq_left hle, min_eq_right hle, abs_of_nonpos (sub_nonpos.mpr hle)]; ring
  simpa only [e] using key

/-- the grid every accepted constructor call creates has cell volumes that sum to its volume, and
`integrate(1)` returns the volume (`cell_volumes_sum_eq_volume` for the constructed grid) -/
theorem constructed_cell_volumes_sum (pi : K) (c : Ctor K) (g : Grid K) (h : Grid.construct c = .ok g)
    (hv : c.Valid) :
    g.integrateAll pi (fun _ => 1) = g.volume pi ∧ sumIdx g.shape (g.cellVolume pi) = g.volume pi :=
  cell_volumes_sum_eq_volume pi g (construct_wf c g h hv)

/-- on the grid a constructor creates, cell -> Cartesian -> cell is the identity (`cell_cart_cell`
for the constructed grid: all five classes) -/
theorem constructed_cell_cart_cell (c : Ctor K) (g : Grid K) (h : Grid.construct c = .ok g) (hv : c.Valid)
    (cs : List K) (hl : cs.length = g.axes.length)
    (hr : (g.cls = .unit ∨ g.cls = .cartesian) ∨ ∀ r ∈ (g.cellToGrid cs).head?, 0 ≤ r) (r' : K)
    (hr' : 0 ≤ r') (e : r' ^ 2 = g.radiusSq (g.cellToCartesian cs)) :
    g.cartesianToCell r' (g.cellToCartesian cs) = cs :=
  cell_cart_cell g (construct_wf c g h hv) cs hl hr r' hr' e

/-- the radius checks: a negative inner radius and `r_inner ≥ r_outer` are refused (`ValueError`) -/
theorem construct_rejects_bad_radius (radius : Radius K) (shape : List ℕ) (zlo zhi : K) (pz : Bool)
    (hbad : radius.bounds.1 < 0 ∨ radius.bounds.2 ≤ radius.bounds.1) :
    (∀ g, Grid.construct (.polar radius shape) ≠ .ok g) ∧
    (∀ g, Grid.construct (.spherical radius shape) ≠ .ok g) ∧
    (∀ g, Grid.construct (.cylindrical radius zlo zhi shape pz) ≠ .ok g) := by
  have hno : ∀ b, checkRadius radius ≠ .ok b := by
    intro b hb
    obtain ⟨rfl, h0, hlt⟩ := checkRadius_ok radius b hb
    rcases hbad with h | h
    · exact absurd h (not_lt.mpr h0)
    · exact absurd hlt (not_lt.mpr h)
  refine ⟨?_, ?_, ?_⟩ <;> intro g h
  · obtain ⟨_, b, _, _, hb, _⟩ := construct_polar_ok radius shape g h
    exact hno b hb
  · obtain ⟨_, b, _, _, hb, _⟩ := construct_spherical_ok radius shape g h
    exact hno b hb
  · obtain ⟨_, _, b, _, _, _, hb, _⟩ := construct_cylindrical_ok radius zlo zhi shape pz g h
    exact hno b hb

/-- no constructor creates an axis without cells: a shape with a zero entry (or no entry) is refused -/
theorem construct_rejects_zero_cells (c : Ctor K) (g : Grid K) (h : Grid.construct c = .ok g) :
    ∀ a ∈ g.axes, a.n ≠ 0 := by
  cases c with
  | unit shape per =>
    obtain ⟨hs, _, rfl⟩ := construct_unit_ok shape per g h
    intro a ha
    obtain ⟨n, hn, _, _, h3⟩ := unitAxes_mem shape per a ha
    rw [h3]; exact (checkShape_ok shape hs).2 n hn
  | cartesian bounds shape per =>
    obtain ⟨hs, _, _, rfl⟩ := construct_cartesian_ok bounds shape per g h
    intro a ha
    obtain ⟨_, _, n, hn, _, _, h3⟩ := cartesianAxes_mem bounds shape per a ha
    rw [h3]; exact (checkShape_ok shape hs).2 n hn
  | polar radius shape =>
    obtain ⟨n, b, _, hn, _, rfl⟩ := construct_polar_ok radius shape g h
    intro a ha; simp at ha; subst ha; exact hn
  | spherical radius shape =>
    obtain ⟨n, b, _, hn, _, rfl⟩ := construct_spherical_ok radius shape g h
    intro a ha; simp at ha; subst ha; exact hn
  | cylindrical radius zlo zhi shape pz =>
    obtain ⟨nr, nz, b, _, hnr, hnz, _, rfl⟩ := construct_cylindrical_ok radius zlo zhi shape pz g h
    intro a ha
    simp only [List.mem_cons, List.not_mem_nil, or_false] at ha
    rcases ha with rfl | rfl
    · exact hnr
    · exact hnz

/-! ### containment as an equivalence -/

/-- a cell coordinate in `[0, N]` comes from a coordinate within the bounds, and conversely -/
theorem cell_coord_in_range_iff (g : Grid K) (a : Axis K) (hw : a.WF g.cls) (x : K) :
    (0 ≤ gridToCell1 a.lo (g.dxOf a) x ∧ gridToCell1 a.lo (g.dxOf a) x ≤ (a.n : K)) ↔
      (a.lo ≤ x ∧ x ≤ a.hi) := by
  have hd : 0 < g.dxOf a := by
    rw [g.dxOf_eq a hw]
    exact div_pos (sub_pos.mpr hw.2.1) (Nat.cast_pos.mpr (Nat.pos_of_ne_zero hw.1))
  have e : (a.n : K) * g.dxOf a = a.hi - a.lo := g.n_mul_dxOf a hw
  unfold gridToCell1
  rw [le_div_iff₀ hd, div_le_iff₀ hd, e]
  constructor
  · rintro ⟨h1, h2⟩; exact ⟨by linarith, by linarith⟩
  · rintro ⟨h1, h2⟩; exact ⟨by linarith, by linarith⟩

/-- **C12** `contains_point(p, coords="grid")` holds **iff** every coordinate of `p` lies within
the bounds of its axis (every class, every dimension) -/
theorem containsGrid_iff_in_bounds (g : Grid K) (h : ∀ a ∈ g.axes, a.WF g.cls) (p : List K)
    (hl : p.length = g.axes.length) :
    g.containsGrid p = true ↔ ∀ q ∈ g.axes.zip p, q.1.lo ≤ q.2 ∧ q.2 ≤ q.1.hi := by
  unfold Grid.containsGrid Grid.shape Grid.gridToCell
  generalize g.axes = as at h hl
  induction as generalizing p with
  | nil => cases p <;> simp [containsCell]
  | cons a as ih =>
    cases p with
    | nil => simp at hl
    | cons x xs =>
      have hw := h a List.mem_cons_self
      have hrec := ih xs (fun b hb' => h b (List.mem_cons_of_mem _ hb')) (by simpa using hl)
      have key := cell_coord_in_range_iff g a hw x
      simp only [List.map_cons, List.zipWith_cons_cons, containsCell, Bool.and_eq_true, decide_eq_true_eq,
        Nat.cast_zero, List.zip_cons_cons, List.mem_cons, forall_eq_or_imp, hrec, key]

/-- for a cell coordinate `c` along an axis with `N` cells: `0 ≤ c ≤ N` iff the cell index
`floor(c)` is one of `0 .. N-1`, or the point lies exactly on the upper face (`c = N`, which the
code counts as contained) -/
theorem cell_index_in_range_iff (c : K) (n : ℕ) :
    (0 ≤ c ∧ c ≤ (n : K)) ↔ ((0 ≤ ⌊c⌋ ∧ ⌊c⌋ < (n : ℤ)) ∨ c = (n : K)) := by
  constructor
  · rintro ⟨h0, h1⟩
    rcases lt_or_eq_of_le h1 with hlt | heq
    · left
      refine ⟨Int.floor_nonneg.mpr h0, ?_⟩
      rw [Int.floor_lt]; exact_mod_cast hlt
    · right; exact heq
  · rintro (⟨h0, h1⟩ | heq)
    · refine ⟨Int.floor_nonneg.mp h0, ?_⟩
      have := Int.floor_lt.mp h1
      push_cast at this
      exact this.le
    · rw [heq]; exact ⟨Nat.cast_nonneg n, le_rfl⟩

/-- **C12** `contains_point(c, coords="cell")` holds **iff** on every axis the cell index
`floor(c)` is in range `0 .. N-1` or the point lies on the upper face -/
theorem containsCellPoint_iff_index (g : Grid K) (cs : List K) (hl : cs.length = g.axes.length) :
    g.containsCellPoint cs = true ↔
      ∀ p ∈ g.shape.zip cs, (0 ≤ ⌊p.2⌋ ∧ ⌊p.2⌋ < (p.1 : ℤ)) ∨ p.2 = (p.1 : K) := by
  unfold Grid.containsCellPoint
  rw [containsCell_iff g.shape cs (by simp [Grid.shape, hl])]
  constructor
  · intro h p hp; exact (cell_index_in_range_iff p.2 p.1).mp (h p hp)
  · intro h p hp; exact (cell_index_in_range_iff p.2 p.1).mpr (h p hp)

/-- the same for grid coordinates: the point is contained iff the index of the cell it falls into
is in range (or it lies on the upper face), on every axis -/
theorem containsGrid_iff_index (g : Grid K) (p : List K) (hl : p.length = g.axes.length) :
    g.containsGrid p = true ↔
      ∀ q ∈ g.shape.zip (g.gridToCell p), (0 ≤ ⌊q.2⌋ ∧ ⌊q.2⌋ < (q.1 : ℤ)) ∨ q.2 = (q.1 : K) :=
  containsCellPoint_iff_index g (g.gridToCell p) (by simp [Grid.gridToCell, hl])

/-- `contains_point(x)` in the default Cartesian coordinates: iff the grid point
`point_from_cartesian(x)` (radius from the external `hypot`, `z`) lies within the bounds -/
theorem containsCartesian_iff_in_bounds (g : Grid K) (h : ∀ a ∈ g.axes, a.WF g.cls) (r' : K) (x : List K)
    (hl : (g.fromCartesian r' x).length = g.axes.length) :
    g.containsCartesian r' x = true ↔
      ∀ q ∈ g.axes.zip (g.fromCartesian r' x), q.1.lo ≤ q.2 ∧ q.2 ≤ q.1.hi :=
  containsGrid_iff_in_bounds g h _ hl

/-! ### random points through the definitions the driver evaluates -/

/-- **C12** `CartesianGrid.get_random_point(boundary_distance=b)`: for uniform variates in `[0, 1]`
the generated point is contained in the grid (any dimension) -/
theorem randomPointCart_contained (g : Grid K) (h : ∀ a ∈ g.axes, a.WF g.cls) (b : K) (us : List K)
    (hb : 0 ≤ b) (hsz : ∀ a ∈ g.axes, 2 * b < a.hi - a.lo) (hl : us.length = g.axes.length)
    (hu : ∀ u ∈ us, 0 ≤ u ∧ u ≤ 1) :
    g.containsGrid (g.randomPointCart b us) = true :=
  random_point_contained g h b us hb hsz hl hu

theorem powN_eq_pow (x : K) (n : ℕ) : powN x n = x ^ n := by
  induction n with
  | zero => simp [powN]
  | succ k ih => rw [powN, ih, pow_succ]; ring

/-- **C12** the radial `get_random_point`: if `r ≥ 0` is the `d`-th root of the first uniform draw
(`d = dim` for polar / spherical grids, 2 for cylinders), the point `(r[, z])` with `z` the second
draw is contained in the grid -/
theorem randomRadialDraw_contained (g : Grid K) (h : g.WF) (b r : K) (avoid : Bool) (us : List K)
    (hb : 0 ≤ b) (hr : 0 ≤ r) (hu : ∀ u ∈ us, 0 ≤ u ∧ u ≤ 1) :
    (∀ a, (g.cls = .polar ∨ g.cls = .spherical) → g.axes = [a] →
      (randomRadialBounds a.lo a.hi b avoid).1 ≤ (randomRadialBounds a.lo a.hi b avoid).2 →
      ∀ u, us = [u] → [r ^ g.dim] = g.randomRadialDraw b avoid us → g.containsGrid [r] = true) ∧
    (∀ a z, g.cls = .cylindrical → g.axes = [a, z] →
      (randomRadialBounds a.lo a.hi b avoid).1 ≤ (randomRadialBounds a.lo a.hi b avoid).2 →
      z.lo + b ≤ z.hi - b →
      ∀ u uz zz, us = [u, uz] → [r ^ 2, zz] = g.randomRadialDraw b avoid us →
        g.containsGrid [r, zz] = true) := by
  constructor
  · intro a hcls hax hle u hus e
    have hu' := hu u (by rw [hus]; simp)
    have key := (random_point_contained_radial g h b r u 0 avoid hb hr hu'.1 hu'.2 le_rfl zero_le_one).1
      a hcls hax hle
    apply key
    rcases hcls with hc | hc <;>
      simpa [Grid.randomRadialDraw, hc, hax, hus, powN_eq_pow] using e
  · intro a z hcls hax hle hzle u uz zz hus e
    have hu' := hu u (by rw [hus]; simp)
    have huz := hu uz (by rw [hus]; simp)
    have key := (random_point_contained_radial g h b r u uz avoid hb hr hu'.1 hu'.2 huz.1 huz.2).2
      a z hcls hax hle hzle
    simp only [Grid.randomRadialDraw, hcls, hax, hus, powN_eq_pow, List.headD_cons, List.tail_cons,
      List.cons.injEq, and_true] at e
    rw [e.2]
    exact key e.1

end

/-! ### concrete instances -/

/-- a view of a constructor's outcome with decidable equality -/
def constructView {K : Type} [Add K] [Sub K] [Mul K] [Div K] [Neg K] [NatCast K] [IntCast K]
    [LT K] [DecidableLT K] [LE K] [DecidableLE K] (c : Ctor K) :
    Except CtorErr (GridClass × List (K × K × ℕ × Bool)) :=
  (Grid.construct c).map fun g => (g.cls, g.axes.map fun a => (a.lo, a.hi, a.n, a.periodic))

/-- `CartesianGrid([(3, -1), (0, 2)], [4, 2], periodic=[False, True])`: the reversed bounds of the
first axis are flipped -/
example : constructView (.cartesian [((3 : ℚ), -1), (0, 2)] [4, 2] [false, true])
    = .ok (.cartesian, [(-1, 3, 4, false), (0, 2, 2, true)]) := by decide +kernel
example : (Ctor.cartesian [((3 : ℚ), -1), (0, 2)] [4, 2] [false, true]).Valid := by
  intro b hb; simp at hb; rcases hb with rfl | rfl <;> norm_num
/-- centres of the flipped axis: `-1 + (i + 1/2) * 1` -/
example : (⟨.cartesian, [⟨-1, 3, 4, false⟩, ⟨0, 2, 2, true⟩]⟩ : Grid ℚ).axesCoords
    = [[-1/2, 1/2, 3/2, 5/2], [1/2, 3/2]] := by decide +kernel
example : constructView (.spherical (.outer (2 : ℚ)) [3]) = .ok (.spherical, [(0, 2, 3, false)]) := by
  decide +kernel
example : constructView (.polar (.pair (2 : ℚ) 1) [3]) = .error .value := by decide +kernel
example : constructView (.cylindrical (.pair (1 : ℚ) 3) 0 10 [4] true)
    = .ok (.cylindrical, [(1, 3, 4, false), (0, 10, 4, true)]) := by decide +kernel
example : constructView (.unit [2, 0] [false, false] : Ctor ℚ) = .error .value := by decide +kernel
example : constructView (.unit [2, 3] [false] : Ctor ℚ) = .error .dimension := by decide +kernel
/-- containment on the cylinder `exCyl` (r in [1,3], z in [0,10]): inside, on the upper face, outside -/
example : (exCyl : Grid ℚ).containsGrid [2, 10] = true ∧ (exCyl : Grid ℚ).containsGrid [2, 21/2] = false ∧
    (exCyl : Grid ℚ).containsGrid [1/2, 5] = false := by decide +kernel
/-- the Cartesian draw with `b = 1/4` on `exCart` ([0,2] x [0,16]) and the cylinder draw -/
example : (exCart : Grid ℚ).randomPointCart (1/4) [1/2, 1] = [1, 63/4] := by decide +kernel
example : (exCyl : Grid ℚ).randomRadialDraw (1/2) true [1/2, 1/4] = [17/4, 11/4] := by decide +kernel

/-- the call that was the witness of a deviation of /repo (reversed `bounds_z` accepted; repaired by
`fix: CylindricalSymGrid accepted reversed bounds_z`, see `construct_cylindrical_bounds_z`), `CylindricalSymGrid(1, (1, 0), (2, 2))`, is refused with a
`ValueError` (before the repair it created a grid with spacing `-1/2` along `z` and the volume `-pi`) -/
theorem cylinder_reversed_bounds_z_rejected :
    constructView (.cylindrical (.outer (1 : ℚ)) 1 0 [2, 2] false) = .error .value := by
  decide +kernel

end PdeVerif.Grids
