import PdeVerif.Model.Interrupts
import PdeVerif.Lemmas.Basic
import Mathlib.Algebra.Order.Archimedean.Basic
import Mathlib.Algebra.Order.GroupWithZero.Basic
import Mathlib.Tactic.NormNum
/-
C09 - interrupt schedules are strictly increasing and stay on their lattice.
Property theorems about `PdeVerif.Interrupts` (model of pde/trackers/interrupts.py).
All statements hold for every ordered field with floor, every parameter set and every
query list (induction over the list of queries).
-/
set_option linter.unusedSectionVars false

namespace PdeVerif.Interrupts
open PdeVerif

section
variable {K : Type} [Field K] [LinearOrder K] [IsStrictOrderedRing K] [FloorRing K]

/-! ### constant interrupts -/

theorem constInit_ge (ts : Option K) (t : K) : t ≤ constInit ts t := by
  unfold constInit pyMax
  cases ts with
  | none => exact le_refl _
  | some s => simp only; split_ifs with h <;> [exact h.le; exact le_refl _]

/-- in exact arithmetic the float guard `if b < t` never fires -/
theorem catchup_reaches (a D t : K) (hD : 0 < D) :
    t ≤ a + D * ((ceilI ((t - a) / D) : Int) : K) := by
  rw [ceilI_eq_ceil]
  have h := Int.le_ceil ((t - a) / D)
  have : (t - a) / D * D ≤ (Int.ceil ((t - a) / D) : K) * D := mul_le_mul_of_nonneg_right h hD.le
  have e : (t - a) / D * D = t - a := by field_simp
  nlinarith

theorem constNext_ge_query (tn D t : K) (hD : 0 < D) : t ≤ constNext tn D t := by
  unfold constNext
  simp only
  split_ifs with h1 h2
  · exact absurd (catchup_reaches (tn + D) D t hD) (not_le.mpr h2)
  · exact catchup_reaches _ _ _ hD
  · push Not at h1; linarith

theorem ceilI_nonneg {x : K} (h : 0 ≤ x) : (0:K) ≤ ((ceilI x : Int) : K) := by
  rw [ceilI_eq_ceil]; exact_mod_cast Int.ceil_nonneg h

theorem constNext_gt_prev (tn D t : K) (hD : 0 < D) : tn < constNext tn D t := by
  unfold constNext
  simp only
  split_ifs with h1 h2
  · have := catchup_reaches (tn + D) D t hD; linarith
  · have hc : (0:K) ≤ ((ceilI ((t - (tn + D)) / D) : Int) : K) :=
      ceilI_nonneg (div_nonneg (by linarith) hD.le)
    nlinarith
  · linarith

/-- lattice membership: the answer is `tn + k*D` for a positive integer `k` -/
theorem constNext_on_lattice (tn D t : K) (hD : 0 < D) :
    ∃ k : Int, 1 ≤ k ∧ constNext tn D t = tn + k * D := by
  unfold constNext
  simp only
  split_ifs with h1 h2
  · exact absurd (catchup_reaches (tn + D) D t hD) (not_le.mpr h2)
  · refine ⟨1 + ceilI ((t - (tn + D)) / D), ?_, by push_cast; ring⟩
    have : (0:K) ≤ (t - (tn + D)) / D := div_nonneg (by linarith) hD.le
    have h := Int.ceil_nonneg this
    rw [← ceilI_eq_ceil] at h
    omega
  · exact ⟨1, le_refl _, by push_cast; ring⟩

/-- minimality of the catch-up: the answer is the first lattice point not before `t` -/
theorem constNext_minimal (tn D t : K) (hD : 0 < D) (h1 : tn + D ≤ t) :
    constNext tn D t - D < t := by
  unfold constNext
  simp only
  rw [if_pos h1, if_neg (not_lt.mpr (catchup_reaches _ _ _ hD)), ceilI_eq_ceil]
  have h := Int.ceil_lt_add_one ((t - (tn + D)) / D)
  have : (Int.ceil ((t - (tn + D)) / D) : K) * D < ((t - (tn + D)) / D + 1) * D :=
    mul_lt_mul_of_pos_right h hD
  have e : ((t - (tn + D)) / D + 1) * D = t - (tn + D) + D := by field_simp
  nlinarith

/-- without catch-up the answer is exactly one period later -/
theorem constNext_no_catchup (tn D t : K) (h : t < tn + D) : constNext tn D t = tn + D := by
  unfold constNext; simp only; rw [if_neg (not_le.mpr h)]

/-- **C09, constant schedule, whole query histories**: every answer is `≥` its query, on the
lattice `t0 + k*D` with strictly growing `k`, and the answers are strictly increasing. -/
theorem runConst_spec (D : K) (hD : 0 < D) (t0 : K) :
    ∀ (ts : List K) (tn : K) (k0 : Int), tn = t0 + k0 * D →
      List.Forall₂ (fun t a => t ≤ a ∧ ∃ k : Int, k0 < k ∧ a = t0 + k * D) ts (runConst D tn ts) ∧
      (runConst D tn ts).IsChain (· < ·) ∧ ∀ a ∈ runConst D tn ts, tn < a := by
  intro ts
  induction ts with
  | nil => intro tn k0 _; simp [runConst]
  | cons t ts ih =>
    intro tn k0 htn
    obtain ⟨k, hk1, hk⟩ := constNext_on_lattice tn D t hD
    have hnext : constNext tn D t = t0 + (k0 + k : Int) * D := by rw [hk, htn]; push_cast; ring
    obtain ⟨f2, ch, gt⟩ := ih (constNext tn D t) (k0 + k) hnext
    have hge : t ≤ constNext tn D t := constNext_ge_query tn D t hD
    have hgt := constNext_gt_prev tn D t hD
    refine ⟨?_, ?_, ?_⟩
    · simp only [runConst]
      refine List.Forall₂.cons ⟨hge, k0 + k, by omega, hnext⟩ ?_
      refine f2.imp ?_
      intro a b ⟨h1, k', hk', e⟩
      exact ⟨h1, k', by omega, e⟩
    · simp only [runConst]
      cases hts : runConst D (constNext tn D t) ts with
      | nil => simp
      | cons b bs =>
        rw [hts] at ch gt
        exact List.IsChain.cons_cons (gt b (List.mem_cons_self)) ch
    · intro a ha
      simp only [runConst, List.mem_cons] at ha
      rcases ha with rfl | ha
      · exact hgt
      · exact lt_trans hgt (gt a ha)

/-- the schedule as a user sees it: `initialize(t_init)` followed by `next` on any queries -/
theorem constant_schedule (D : K) (hD : 0 < D) (tStart : Option K) (tInit : K) (ts : List K) :
    let t0 := constInit tStart tInit
    List.Forall₂ (fun t a => t ≤ a ∧ ∃ k : Int, 0 < k ∧ a = t0 + k * D) ts (runConst D t0 ts) ∧
      (t0 :: runConst D t0 ts).IsChain (· < ·) := by
  intro t0
  obtain ⟨h1, h2, h3⟩ := runConst_spec D hD t0 ts t0 0 (by simp)
  refine ⟨h1, ?_⟩
  cases hts : runConst D t0 ts with
  | nil => simp
  | cons b bs =>
    rw [hts] at h2 h3
    exact List.IsChain.cons_cons (h3 b List.mem_cons_self) h2

/-! ### logarithmic interrupts -/

theorem logNext_ge_query (f : K) (st : K × K) (t : K) (hpos : 0 < st.1 * f) :
    t ≤ (logNext f st t).2 := constNext_ge_query _ _ _ hpos

/-- the gap to the previous answer is at least the current (grown) period, with equality
when no catch-up is needed -/
theorem logNext_gap (f : K) (st : K × K) (t : K) (hpos : 0 < st.1 * f) :
    st.2 + st.1 * f ≤ (logNext f st t).2 ∧ (logNext f st t).1 = st.1 * f := by
  refine ⟨?_, rfl⟩
  obtain ⟨k, hk1, hk⟩ := constNext_on_lattice st.2 (st.1 * f) t hpos
  show st.2 + st.1 * f ≤ constNext st.2 (st.1 * f) t
  rw [hk]
  have : (1:K) ≤ (k:K) := by exact_mod_cast hk1
  nlinarith

theorem logNext_gap_exact (f : K) (st : K × K) (t : K) (h : t < st.2 + st.1 * f) :
    (logNext f st t).2 = st.2 + st.1 * f := constNext_no_catchup _ _ _ h

/-- the weakest form: every gap of a history is at least the *first* nominal gap `d*f` -/
theorem runLog_min_gap (f : K) (hf : 1 ≤ f) :
    ∀ (ts : List K) (st : K × K), 0 < st.1 →
      List.Forall₂ (fun t a => t ≤ a) ts (runLog f st ts) ∧
      (st.2 :: runLog f st ts).IsChain (fun a b => a + st.1 * f ≤ b) := by
  intro ts
  induction ts with
  | nil => intro st _; simp [runLog]
  | cons t ts ih =>
    intro st hst
    have hf0 : 0 < f := lt_of_lt_of_le one_pos hf
    have hpos : 0 < st.1 * f := mul_pos hst hf0
    have hst' : 0 < (logNext f st t).1 := hpos
    obtain ⟨h1, h2⟩ := ih (logNext f st t) hst'
    refine ⟨?_, ?_⟩
    · simp only [runLog]
      exact List.Forall₂.cons (logNext_ge_query f st t hpos) h1
    · simp only [runLog]
      refine List.IsChain.cons_cons (logNext_gap f st t hpos).1 ?_
      refine h2.imp ?_
      intro a b hab
      have e : (logNext f st t).1 = st.1 * f := rfl
      rw [e] at hab
      have : st.1 * f ≤ st.1 * f * f := by nlinarith
      linarith

/-- **growing gaps over a history** (`runLog_period` and `logNext_gap` composed): the `j`-th
answer of a history exceeds its predecessor (`st.2` for `j = 0`) by at least the *running* period
`d * f^(j+1)`, where `d = st.1` is the period stored before the first call -/
theorem runLog_gaps (f : K) (hf : 1 ≤ f) :
    ∀ (ts : List K) (st : K × K), 0 < st.1 →
      ∀ (j : Nat) (a b : K), (st.2 :: runLog f st ts)[j]? = some a → (runLog f st ts)[j]? = some b →
        a + st.1 * f ^ (j + 1) ≤ b := by
  intro ts
  induction ts with
  | nil => intro st _ j a b _ hb; simp [runLog] at hb
  | cons t ts ih =>
    intro st hst j a b ha hb
    have hf0 : 0 < f := lt_of_lt_of_le one_pos hf
    have hpos : 0 < st.1 * f := mul_pos hst hf0
    simp only [runLog] at ha hb
    cases j with
    | zero =>
      simp only [List.getElem?_cons_zero, Option.some.injEq] at ha hb
      subst ha; subst hb
      simpa using (logNext_gap f st t hpos).1
    | succ j =>
      simp only [List.getElem?_cons_succ] at ha hb
      have := ih (logNext f st t) hpos j a b (by simpa using ha) hb
      have e : (logNext f st t).1 = st.1 * f := rfl
      rw [e] at this
      calc a + st.1 * f ^ (j + 1 + 1) = a + st.1 * f * f ^ (j + 1) := by ring
        _ ≤ b := this

/-- **C09, logarithmic schedule, whole histories**: every answer is `≥` its query, and the gap
between answer `j-1` and answer `j` is at least the nominal gap `d*f^(j+1)` - the gaps grow by the
factor `f ≥ 1` (for `LogarithmicInterrupts(dt_initial, f)`: `d = dt_initial/f`, so gap `j` is at
least `dt_initial * f^j`; equality without catch-up: `logNext_gap_exact`). -/
theorem runLog_spec (f : K) (hf : 1 ≤ f) (ts : List K) (st : K × K) (hst : 0 < st.1) :
    List.Forall₂ (fun t a => t ≤ a) ts (runLog f st ts) ∧
      ∀ (j : Nat) (a b : K), (st.2 :: runLog f st ts)[j]? = some a → (runLog f st ts)[j]? = some b →
        a + st.1 * f ^ (j + 1) ≤ b :=
  ⟨(runLog_min_gap f hf ts st hst).1, runLog_gaps f hf ts st hst⟩

/-- the schedule as a user sees it: `LogarithmicInterrupts(dt0, f, t_start)` after `initialize(t)`;
gap `j` (between answers `j-1` and `j`, answer `-1` being the first action time) is `≥ dt0 * f^j` -/
theorem logarithmic_schedule (dt0 f : K) (hd : 0 < dt0) (hf : 1 ≤ f) (tStart : Option K) (tInit : K)
    (ts : List K) (j : Nat) (a b : K)
    (ha : (constInit tStart tInit :: runLog f (dt0 / f, constInit tStart tInit) ts)[j]? = some a)
    (hb : (runLog f (dt0 / f, constInit tStart tInit) ts)[j]? = some b) :
    a + dt0 * f ^ j ≤ b := by
  have hf0 : 0 < f := lt_of_lt_of_le one_pos hf
  have := runLog_gaps f hf ts (dt0 / f, constInit tStart tInit) (div_pos hd hf0) j a b ha hb
  have e : dt0 / f * f ^ (j + 1) = dt0 * f ^ j := by rw [pow_succ]; field_simp
  simpa [e] using this

/-- the nominal gap sequence: after `j` calls the stored period is `d * f^j` -/
theorem runLog_period (f : K) (st : K × K) (ts : List K) :
    (ts.foldl (logNext f) st).1 = st.1 * f ^ ts.length := by
  induction ts generalizing st with
  | nil => simp
  | cons t ts ih =>
    simp only [List.foldl_cons, List.length_cons]
    rw [ih]
    show st.1 * f * f ^ ts.length = _
    ring

/-- logarithmic answers are strictly increasing -/
theorem runLog_increasing (f : K) (hf : 1 ≤ f) (ts : List K) (st : K × K) (h : 0 < st.1) :
    (st.2 :: runLog f st ts).IsChain (· < ·) := by
  induction ts generalizing st with
  | nil => simp [runLog]
  | cons t ts ih =>
    have hf0 : 0 < f := lt_of_lt_of_le one_pos hf
    have hpos : 0 < st.1 * f := mul_pos h hf0
    simp only [runLog]
    refine List.IsChain.cons_cons ?_ (ih (logNext f st t) hpos)
    have := (logNext_gap f st t hpos).1
    linarith

/-! ### a logarithmic schedule that is used again (`logFinal`, `logReinit` - the code that exists keeps the grown period) -/

theorem logFinal_eq_foldl (f : K) (st : K × K) (ts : List K) : logFinal f st ts = ts.foldl (logNext f) st := by
  induction ts generalizing st with
  | nil => rfl
  | cons t ts ih => simp only [logFinal, List.foldl_cons]; exact ih _

/-- the period inherited by a second run: `dt_initial/f * f^n` after `n` calls of `next` in the first run -/
theorem logReinit_period (f : K) (tStart : Option K) (st : K × K) (warm : List K) (t : K) :
    (logReinit tStart (logFinal f st warm) t).1 = st.1 * f ^ warm.length := by
  simp only [logReinit, logFinal_eq_foldl, runLog_period]

/-- **C09, re-used logarithmic schedule**: after an earlier run with the queries `warm`, `initialize(t)` and the
queries `ts` of a second run give answers `≥` the queries, strictly increasing, with gap `j` at least
`dt0 * f^(n+j)`, `n = warm.length` - the defining set of the property with the period the object has then -/
theorem logarithmic_schedule_reused (dt0 f : K) (hd : 0 < dt0) (hf : 1 ≤ f) (tStart : Option K) (tWarm tInit : K)
    (warm ts : List K) :
    let st := logReinit tStart (logFinal f (dt0 / f, constInit tStart tWarm) warm) tInit
    tInit ≤ st.2 ∧ List.Forall₂ (fun t a => t ≤ a) ts (runLog f st ts) ∧
      (st.2 :: runLog f st ts).IsChain (· < ·) ∧
      ∀ (j : Nat) (a b : K), (st.2 :: runLog f st ts)[j]? = some a → (runLog f st ts)[j]? = some b →
        a + dt0 * f ^ (warm.length + j) ≤ b := by
  intro st
  have hf0 : 0 < f := lt_of_lt_of_le one_pos hf
  have hp : st.1 = dt0 / f * f ^ warm.length := logReinit_period f tStart _ warm tInit
  have hpos : 0 < st.1 := by rw [hp]; exact mul_pos (div_pos hd hf0) (pow_pos hf0 _)
  refine ⟨constInit_ge tStart tInit, (runLog_spec f hf ts st hpos).1, runLog_increasing f hf ts st hpos, ?_⟩
  intro j a b ha hb
  have := (runLog_spec f hf ts st hpos).2 j a b ha hb
  have e : st.1 * f ^ (j + 1) = dt0 * f ^ (warm.length + j) := by
    rw [hp, pow_add, pow_succ]; field_simp
    try ring
  rw [e] at this; exact this

example : runLog (2 : Rat) (logReinit none (logFinal 2 (1 / 2, constInit none 0) [0, 3]) 10) [10, 30] = [14, 30] := by
  decide +kernel

/-! ### fixed interrupts -/

/-- one call seen on the list of entries not yet consumed: answer and new remainder -/
def remNext (t : K) : List K → Option K × List K
  | [] => (none, [])
  | x :: xs => if x < t then remNext t xs else (some x, xs)

def runRem : List K → List K → List (Option K)
  | _, [] => []
  | r, t :: ts => (remNext t r).1 :: runRem (remNext t r).2 ts

theorem fixedSkip_refines (t : K) (r : List K) :
    (fixedSkip t r).2 = (remNext t r).1 ∧ r.drop (fixedSkip t r).1 = (remNext t r).2 := by
  induction r with
  | nil => simp [fixedSkip, remNext]
  | cons x xs ih =>
    unfold fixedSkip remNext
    by_cases h : x < t
    · simp only [h, ↓reduceIte, List.drop_succ_cons]; exact ih
    · simp [h]

/-- the index-based model (the code) refines the remainder-based view -/
theorem fixedNext_refines (l : List K) (idx : Nat) (t : K) :
    (fixedNext l idx t).2 = (remNext t (l.drop idx)).1 ∧
    l.drop (fixedNext l idx t).1 = (remNext t (l.drop idx)).2 := by
  unfold fixedNext
  split_ifs with hi
  · have : l.drop idx = [] := List.drop_eq_nil_of_le (by omega)
    simp [this, remNext]
  · simp only
    obtain ⟨h1, h2⟩ := fixedSkip_refines t (l.drop idx)
    refine ⟨h1, ?_⟩
    rw [← h2, List.drop_drop]

theorem runFixed_eq_runRem (l : List K) (ts : List K) (idx : Nat) :
    runFixed l idx ts = runRem (l.drop idx) ts := by
  induction ts generalizing idx with
  | nil => simp [runFixed, runRem]
  | cons t ts ih =>
    simp only [runFixed, runRem]
    obtain ⟨h1, h2⟩ := fixedNext_refines l idx t
    rw [h1, ih, h2]

/-- the index only moves forward -/
theorem fixedNext_idx_mono (l : List K) (idx : Nat) (t : K) : idx ≤ (fixedNext l idx t).1 := by
  unfold fixedNext
  split_ifs <;> simp

/-- exhausted schedules answer infinity forever (index-based model) -/
theorem fixed_exhausted_forever (l : List K) (idx : Nat) (t : K) (h : l.length < idx) :
    fixedNext l idx t = (idx, none) := by
  unfold fixedNext; simp [h]

/-- decomposition of one call: either everything remaining lies before `t` (answer `inf`,
nothing remains), or `r = pre ++ a :: post` with `pre` before `t`, `t ≤ a` -/
theorem remNext_cases (t : K) (r : List K) :
    (remNext t r = (none, []) ∧ ∀ x ∈ r, x < t) ∨
    ∃ pre a post, r = pre ++ a :: post ∧ (∀ x ∈ pre, x < t) ∧ t ≤ a ∧
      remNext t r = (some a, post) := by
  induction r with
  | nil => left; simp [remNext]
  | cons x xs ih =>
    unfold remNext
    by_cases h : x < t
    · simp only [h, ↓reduceIte]
      rcases ih with ⟨h1, h2⟩ | ⟨pre, a, post, h1, h2, h3, h4⟩
      · left; exact ⟨h1, by intro y hy; rcases List.mem_cons.mp hy with rfl | hy <;> [exact h; exact h2 y hy]⟩
      · right
        refine ⟨x :: pre, a, post, by simp [h1], ?_, h3, h4⟩
        intro y hy; rcases List.mem_cons.mp hy with rfl | hy <;> [exact h; exact h2 y hy]
    · right
      simp only [h, ↓reduceIte]
      exact ⟨[], x, xs, by simp, by simp, not_lt.mp h, rfl⟩

/-- **first not-yet-passed element**: a finite answer is a remaining entry `≥ t`, every
remaining entry before it is `< t`, and the new remainder is what follows it -/
theorem remNext_first_not_passed (t : K) (r : List K) (a : K) (h : (remNext t r).1 = some a) :
    ∃ pre, r = pre ++ a :: (remNext t r).2 ∧ (∀ x ∈ pre, x < t) ∧ t ≤ a := by
  rcases remNext_cases t r with ⟨h1, _⟩ | ⟨pre, a', post, h1, h2, h3, h4⟩
  · rw [h1] at h; cases h
  · rw [h4] at h ⊢; cases h; exact ⟨pre, h1, h2, h3⟩

theorem runRem_nil (ts : List K) : ∀ o ∈ runRem ([] : List K) ts, o = none := by
  induction ts with
  | nil => simp [runRem]
  | cons t ts ih =>
    intro o ho
    simp only [runRem, remNext, List.mem_cons] at ho
    rcases ho with rfl | ho
    · rfl
    · exact ih o ho

/-- **C09, fixed schedule, whole histories** (list strictly increasing, any query list):
each finite answer is `≥` its query and belongs to the list; finite answers are strictly
increasing (each is larger than the bound `b` that all remaining entries exceed); after the
first `inf` every answer is `inf`. -/
theorem runRem_spec (ts : List K) :
    ∀ (r : List K), r.Pairwise (· < ·) → ∀ (b : Option K), (∀ v, b = some v → ∀ x ∈ r, v < x) →
    List.Forall₂ (fun t a => ∀ x, a = some x → t ≤ x ∧ x ∈ r) ts (runRem r ts) ∧
    (∀ v, b = some v → ∀ x, some x ∈ runRem r ts → v < x) ∧
    ((runRem r ts).filterMap id).IsChain (· < ·) ∧
    (runRem r ts).IsChain (fun a c => a = none → c = none) := by
  induction ts with
  | nil => intro r _ b _; simp [runRem]
  | cons t ts ih =>
    intro r hr b hb
    simp only [runRem]
    rcases remNext_cases t r with ⟨h1, _⟩ | ⟨pre, a, post, h1, h2, h3, h4⟩
    · -- exhausted
      rw [h1]
      obtain ⟨g1, _, g3, g4⟩ := ih [] List.Pairwise.nil none (by simp)
      have hnone := runRem_nil ts
      refine ⟨List.Forall₂.cons (by simp) (g1.imp ?_), ?_, ?_, ?_⟩
      · intro q o ho x hx; have := (ho x hx).2; simp at this
      · intro v _ x hx
        rcases List.mem_cons.mp hx with h | h
        · cases h
        · have := hnone _ h; cases this
      · simpa using g3
      · cases hts : runRem ([] : List K) ts with
        | nil => simp
        | cons c cs =>
          rw [hts] at g4
          refine List.IsChain.cons_cons (fun _ => hnone c (by rw [hts]; simp)) g4
    · rw [h4]
      have hmem : a ∈ r := by rw [h1]; simp
      have hsub : ∀ x ∈ post, x ∈ r := by intro x hx; rw [h1]; simp [hx]
      have hr' := hr
      rw [h1, List.pairwise_append] at hr'
      obtain ⟨_, hpa, _⟩ := hr'
      obtain ⟨hgt, hpost⟩ := List.pairwise_cons.mp hpa
      obtain ⟨g1, g2, g3, g4⟩ := ih post hpost (some a) (by intro v hv x hx; cases hv; exact hgt x hx)
      refine ⟨List.Forall₂.cons ?_ (g1.imp ?_), ?_, ?_, ?_⟩
      · intro x hx; cases hx; exact ⟨h3, hmem⟩
      · intro q o ho x hx; exact ⟨(ho x hx).1, hsub x (ho x hx).2⟩
      · intro v hv x hx
        rcases List.mem_cons.mp hx with h | h
        · cases h; exact hb v hv a hmem
        · exact lt_trans (hb v hv a hmem) (g2 a rfl x h)
      · have key : (a :: (runRem post ts).filterMap id).IsChain (· < ·) := by
          cases hfm : (runRem post ts).filterMap id with
          | nil => simp
          | cons c cs =>
            rw [hfm] at g3
            refine List.IsChain.cons_cons ?_ g3
            have hc : c ∈ (runRem post ts).filterMap id := by rw [hfm]; simp
            rw [List.mem_filterMap] at hc
            obtain ⟨o, ho, hoc⟩ := hc
            simp only [id] at hoc
            subst hoc
            exact g2 a rfl c ho
        simpa using key
      · cases hts : runRem post ts with
        | nil => simp
        | cons c cs =>
          rw [hts] at g4
          exact List.IsChain.cons_cons (by intro h; cases h) g4

/-- the statement for the code-level (index based) model, from the start of a run -/
theorem fixed_schedule (l : List K) (hl : l.Pairwise (· < ·)) (ts : List K) :
    List.Forall₂ (fun t a => ∀ x, a = some x → t ≤ x ∧ x ∈ l) ts (runFixed l 0 ts) ∧
    ((runFixed l 0 ts).filterMap id).IsChain (· < ·) ∧
    (runFixed l 0 ts).IsChain (fun a c => a = none → c = none) := by
  rw [runFixed_eq_runRem, List.drop_zero]
  obtain ⟨h1, _, h3, h4⟩ := runRem_spec ts l hl none (by simp)
  exact ⟨h1, h3, h4⟩

/-! ### geometric interrupts: the specification model

`geomNext` is *not* the code's algorithm: it is the least-lattice-point search that the code's
`log/ceil/pow` computation is meant to implement.  The theorems of this section are about that
specification; the code's own computation is modelled further below (`runGeomCode`) and linked
to the specification by `geomCode_exact_is_least`. -/

theorem geomSearch_spec (f t : K) :
    ∀ (fuel : Nat) (cand : K) (k : Nat) (r : K × Nat), geomSearch f t fuel cand k = some r →
      ∃ j : Nat, r = (cand * f ^ j, k + j) ∧ t ≤ r.1 ∧ ∀ i < j, cand * f ^ i < t := by
  intro fuel
  induction fuel with
  | zero => intro cand k r h; simp [geomSearch] at h
  | succ n ih =>
    intro cand k r h
    unfold geomSearch at h
    split_ifs at h with hc
    · cases h
      exact ⟨0, by simp, by simpa using hc, by intro i hi; omega⟩
    · obtain ⟨j, h1, h2, h3⟩ := ih (cand * f) (k + 1) r h
      refine ⟨j + 1, ?_, h2, ?_⟩
      · rw [h1]; congr 1
        · rw [pow_succ]; ring
        · omega
      · intro i hi
        cases i with
        | zero => simpa using not_le.mp hc
        | succ i =>
          have := h3 i (by omega)
          rw [pow_succ]
          calc cand * (f ^ i * f) = cand * f * f ^ i := by ring
            _ < t := this

/-- enough fuel always exists (the field is Archimedean): the search terminates -/
theorem geomSearch_terminates (f t cand : K) (hf : 1 < f) (hc : 0 < cand) :
    ∃ fuel, ∀ k, (geomSearch f t fuel cand k).isSome := by
  obtain ⟨n, hn⟩ := pow_unbounded_of_one_lt (t / cand) hf
  refine ⟨n + 1, ?_⟩
  have key : ∀ (m : Nat) (c : K), 0 < c → t ≤ c * f ^ m → ∀ k, (geomSearch f t (m + 1) c k).isSome := by
    intro m
    induction m with
    | zero =>
      intro c _ h k
      unfold geomSearch
      simp only [pow_zero, mul_one] at h
      simp [h]
    | succ m ih =>
      intro c hc' h k
      unfold geomSearch
      split_ifs with h'
      · simp
      · exact ih (c * f) (mul_pos hc' (lt_trans one_pos hf)) (by rw [pow_succ] at h; linarith [h, mul_assoc c (f^m) f, mul_comm (f^m) f, mul_assoc c f (f^m)]) (k + 1)
  refine key n cand hc ?_
  have : t / cand * cand < f ^ n * cand := mul_lt_mul_of_pos_right hn hc
  have e : t / cand * cand = t := by field_simp
  nlinarith

/-- why the model may replace `t_min = max(t, last*sqrt f)` by "exponent at least `kl+1`":
with `s*s = f`, `s > 0` (the square root used by the code) the lattice points that are
`≥ scale*f^kl*s` are exactly those with a larger exponent -/
theorem geom_tmin_equiv (scale f s : K) (hs : 0 < s) (hsf : s * s = f) (hf : 1 < f)
    (hscale : 0 < scale) (kl k : Nat) :
    scale * f ^ kl * s ≤ scale * f ^ k ↔ kl + 1 ≤ k := by
  have hf0 : 0 < f := lt_trans one_pos hf
  have hs1 : 1 < s := by
    by_contra h
    push Not at h
    have : s * s ≤ 1 := by nlinarith
    linarith
  have hsf' : s < f := by nlinarith
  constructor
  · intro h
    by_contra hk
    push Not at hk
    have hle : f ^ k ≤ f ^ kl := pow_le_pow_right₀ hf.le (by omega)
    have hpos : 0 < f ^ kl := pow_pos hf0 kl
    have : scale * f ^ kl * s > scale * f ^ kl := by
      have := mul_pos hscale hpos
      nlinarith
    have : scale * f ^ k ≤ scale * f ^ kl := mul_le_mul_of_nonneg_left hle hscale.le
    linarith
  · intro h
    have hle : f ^ (kl + 1) ≤ f ^ k := pow_le_pow_right₀ hf.le h
    have hpos : 0 < f ^ kl := pow_pos hf0 kl
    have h1 : scale * f ^ kl * s ≤ scale * f ^ (kl + 1) := by
      rw [pow_succ]
      have := mul_pos hscale hpos
      nlinarith
    have h2 : scale * f ^ (kl + 1) ≤ scale * f ^ k := mul_le_mul_of_nonneg_left hle hscale.le
    linarith

/-- one call of the geometric schedule: the answer is on the lattice `scale*f^k`, not before
the query, with a larger exponent than the previous answer (so strictly later), and it is the
*first* such lattice point -/
theorem geomNext_spec (scale f t : K) (hf : 1 < f) (hscale : 0 < scale)
    (last : Option (K × Nat)) (hlast : ∀ v k, last = some (v, k) → v = scale * f ^ k)
    (fuel : Nat) (r : K × Nat) (h : geomNext scale f last t fuel = some r) :
    r.1 = scale * f ^ r.2 ∧ t ≤ r.1 ∧
    (∀ v k, last = some (v, k) → k < r.2 ∧ v < r.1) ∧
    (∀ k', (∀ v k, last = some (v, k) → k < k') → t ≤ scale * f ^ k' → r.2 ≤ k') := by
  have hf0 : 0 < f := lt_trans one_pos hf
  cases last with
  | none =>
    obtain ⟨j, h1, h2, h3⟩ := geomSearch_spec f t fuel scale 0 r h
    refine ⟨by rw [h1]; simp, h2, by simp, ?_⟩
    intro k' _ hk'
    by_contra hlt
    push Not at hlt
    rw [h1] at hlt
    have := h3 k' (by simpa using hlt)
    linarith
  | some p =>
    obtain ⟨v, k⟩ := p
    have hv := hlast v k rfl
    obtain ⟨j, h1, h2, h3⟩ := geomSearch_spec f t fuel (v * f) (k + 1) r h
    have hr1 : r.1 = scale * f ^ (k + 1 + j) := by
      rw [h1, hv]; simp only; rw [pow_add, pow_succ]; ring
    refine ⟨by rw [hr1, h1], h2, ?_, ?_⟩
    · intro v' k' e
      cases e
      refine ⟨by rw [h1]; simp; omega, ?_⟩
      rw [hr1, hv]
      have : f ^ k < f ^ (k + 1 + j) := pow_lt_pow_right₀ hf (by omega)
      exact mul_lt_mul_of_pos_left this hscale
    · intro k' hk hk'
      have hkk := hk v k rfl
      by_contra hlt
      push Not at hlt
      rw [h1] at hlt
      simp only at hlt
      have hi : k' - (k + 1) < j := by omega
      have := h3 (k' - (k + 1)) hi
      rw [hv] at this
      have e : scale * f ^ k * f * f ^ (k' - (k + 1)) = scale * f ^ k' := by
        have : k' = k + 1 + (k' - (k + 1)) := by omega
        conv_rhs => rw [this, pow_add, pow_succ]
        ring
      rw [e] at this
      linarith

/-- **C09, geometric schedule, whole histories**: all answers lie on `scale*f^k`, are not
before their query and are strictly increasing (in value and exponent). -/
theorem runGeom_spec (scale f : K) (hf : 1 < f) (hscale : 0 < scale) (fuel : Nat) (ts : List K) :
    ∀ (last : Option (K × Nat)), (∀ v k, last = some (v, k) → v = scale * f ^ k) →
    (∀ o ∈ runGeom scale f fuel last ts, ∀ r, o = some r → r.1 = scale * f ^ r.2 ∧
        ∀ v k, last = some (v, k) → k < r.2 ∧ v < r.1) ∧
    ((runGeom scale f fuel last ts).filterMap id).IsChain (fun a b => a.1 < b.1 ∧ a.2 < b.2) := by
  induction ts with
  | nil => intro last _; simp [runGeom]
  | cons t ts ih =>
    intro last hlast
    unfold runGeom
    cases hg : geomNext scale f last t fuel with
    | none => simp
    | some r =>
      simp only
      obtain ⟨s1, s2, s3, _⟩ := geomNext_spec scale f t hf hscale last hlast fuel r hg
      obtain ⟨g1, g2⟩ := ih (some r) (by intro v k e; cases e; exact s1)
      refine ⟨?_, ?_⟩
      · intro o ho r' hr'
        rcases List.mem_cons.mp ho with rfl | ho
        · cases hr'; exact ⟨s1, s3⟩
        · obtain ⟨q1, q2⟩ := g1 o ho r' hr'
          refine ⟨q1, ?_⟩
          intro v k e
          obtain ⟨a1, a2⟩ := s3 v k e
          obtain ⟨b1, b2⟩ := q2 r.1 r.2 rfl
          exact ⟨by omega, lt_trans a2 b2⟩
      · have key : (r :: (runGeom scale f fuel (some r) ts).filterMap id).IsChain
            (fun a b => a.1 < b.1 ∧ a.2 < b.2) := by
          cases hfm : (runGeom scale f fuel (some r) ts).filterMap id with
          | nil => simp
          | cons c cs =>
            rw [hfm] at g2
            refine List.IsChain.cons_cons ?_ g2
            have hc : c ∈ (runGeom scale f fuel (some r) ts).filterMap id := by rw [hfm]; simp
            rw [List.mem_filterMap] at hc
            obtain ⟨o, ho, hoc⟩ := hc
            simp only [id] at hoc
            subst hoc
            obtain ⟨_, q2⟩ := g1 _ ho c rfl
            obtain ⟨b1, b2⟩ := q2 r.1 r.2 rfl
            exact ⟨b2, b1⟩
        simpa using key

/-- every answer of a geometric run is not before its query -/
theorem runGeom_ge_query (scale f : K) (hf : 1 < f) (hscale : 0 < scale) (fuel : Nat) (ts : List K) :
    ∀ (last : Option (K × Nat)), (∀ v k, last = some (v, k) → v = scale * f ^ k) →
    ∀ i (hi : i < (runGeom scale f fuel last ts).length) r,
      (runGeom scale f fuel last ts)[i] = some r → ∃ t, ts[i]? = some t ∧ t ≤ r.1 := by
  induction ts with
  | nil => intro last _ i hi; simp [runGeom] at hi
  | cons t ts ih =>
    intro last hlast i hi r hr
    unfold runGeom at hi hr
    cases hg : geomNext scale f last t fuel with
    | none =>
      simp only [hg] at hi hr
      have : i = 0 := by simpa using hi
      subst this
      simp at hr
    | some r0 =>
      simp only [hg] at hi hr
      obtain ⟨s1, s2, _, _⟩ := geomNext_spec scale f t hf hscale last hlast fuel r0 hg
      cases i with
      | zero =>
        simp only [List.getElem_cons_zero, Option.some.injEq] at hr
        subst hr
        exact ⟨t, by simp, s2⟩
      | succ i =>
        simp only [List.getElem_cons_succ] at hr
        obtain ⟨t', h1, h2⟩ := ih (some r0) (by intro v k e; cases e; exact s1) i (by simpa using hi) r hr
        exact ⟨t', by simpa using h1, h2⟩

/-! ### geometric interrupts: the code's own computation

`GeometricInterrupts.next` computes `t_min = max(t, last*factor**0.5)` (first call:
`scale*factor**-0.5`), `i = log(t_min/scale)/log(factor)` and answers `scale * factor**ceil(i)`.
The float logarithm is external, so `ceil(i)` is an oracle value `e : Int` of the model
(`runGeomCode`), and the constants `sq = factor**0.5`, `sqInv = factor**-0.5` are parameters that
need not be exact square roots.  The theorems hold for *every* oracle that is a ceiling of the
logarithm up to a relative tolerance `ε` of its argument (`CeilLogOK`: `f^(e-1) < x*(1+ε)` and
`x ≤ f^e*(1+ε)`; `ε = 0` is the exact ceiling) as long as the tolerance is small against `√f`
(`GeomConsts`). -/

theorem powNat_eq_pow (f : K) (n : Nat) : powNat f n = f ^ n := by
  induction n with
  | zero => simp [powNat]
  | succ n ih => rw [powNat, ih, pow_succ]

theorem powInt_eq_zpow (f : K) (e : Int) : powInt f e = f ^ e := by
  unfold powInt
  split_ifs with h
  · rw [powNat_eq_pow]
    obtain ⟨n, rfl⟩ := Int.eq_ofNat_of_zero_le h
    simp
  · push Not at h
    rw [powNat_eq_pow]
    obtain ⟨n, hn⟩ := Int.eq_ofNat_of_zero_le (by omega : 0 ≤ -e)
    have : e = -(n : Int) := by omega
    subst this
    simp

def CeilLogOK (f ε x : K) (e : Int) : Prop := x ≤ f ^ e * (1 + ε) ∧ f ^ (e - 1) < x * (1 + ε)

theorem ceilLogOK_zero_iff (f x : K) (e : Int) : CeilLogOK f 0 x e ↔ (f ^ (e - 1) < x ∧ x ≤ f ^ e) := by
  unfold CeilLogOK; simp [and_comm]

theorem pyMax_ge_left (a b : K) : a ≤ pyMax a b := by
  unfold pyMax; split_ifs with h <;> [exact h.le; exact le_refl _]

theorem pyMax_ge_right (a b : K) : b ≤ pyMax a b := by
  unfold pyMax; split_ifs with h <;> [exact le_refl _; exact not_lt.mp h]

theorem pyMax_cases (a b : K) : pyMax a b = a ∨ pyMax a b = b := by
  unfold pyMax; split_ifs <;> simp

structure GeomConsts (f sq sqInv ε : K) : Prop where
  hf : 1 < f
  hε : 0 ≤ ε
  sq_gt : 1 + ε < sq
  sq_lt : sq * (1 + ε) ≤ f
  inv_gt : 1 + ε < sqInv * f
  inv_lt : sqInv * (1 + ε) ≤ 1

/-- the state of the schedule: `none` before the first call (exponent bound `-1`), else the last
answer `scale * f^kl` -/
def GeomState (scale f : K) (last : Option K) (kl : Int) : Prop :=
  (last = none → kl = -1) ∧ ∀ v, last = some v → v = scale * f ^ kl

theorem geomCode_step (scale f sq sqInv ε : K) (hc : GeomConsts f sq sqInv ε) (hscale : 0 < scale)
    (last : Option K) (kl : Int) (hst : GeomState scale f last kl)
    (t : K) (e : Int) (hok : CeilLogOK f ε (geomTmin scale sq sqInv last t / scale) e) :
    geomCodeAnswer scale f e = scale * f ^ e ∧ kl < e ∧ t ≤ geomCodeAnswer scale f e * (1 + ε) ∧
    (∀ v, last = some v → v < geomCodeAnswer scale f e) ∧
    (∀ k' : Int, kl < k' → t * (1 + ε) ≤ scale * f ^ k' → e ≤ k') := by
  have hf0 : 0 < f := lt_trans one_pos hc.hf
  have h1e : 0 < 1 + ε := by linarith [hc.hε]
  have hans : geomCodeAnswer scale f e = scale * f ^ e := by unfold geomCodeAnswer; rw [powInt_eq_zpow]
  set tm := geomTmin scale sq sqInv last t with htm
  set x := tm / scale with hx
  have hxs : x * scale = tm := by rw [hx]; field_simp
  obtain ⟨hup, hlow⟩ := hok
  have hpe : 0 < f ^ e := zpow_pos hf0 e
  have hpk : 0 < f ^ kl := zpow_pos hf0 kl
  -- lower bound of x from the state: f^kl * sq ≤ x (first call: kl = -1, f^-1 * (sqInv*f))
  have hge0 : geomTmin0 scale sq sqInv last ≤ tm := by
    rw [htm]; unfold geomTmin; exact pyMax_ge_right (K := K) _ _
  have hxlow : f ^ kl * (1 + ε) < x := by
    cases hl : last with
    | none =>
      have hk := hst.1 hl
      have h0 : scale * sqInv ≤ tm := by rw [hl] at hge0; exact hge0
      have : sqInv ≤ x := by
        rw [hx, le_div_iff₀ hscale]; linarith [mul_comm scale sqInv]
      rw [hk, zpow_neg, zpow_one]
      have : f⁻¹ * (1 + ε) < sqInv := by
        rw [inv_mul_lt_iff₀ hf0]; linarith [hc.inv_gt, mul_comm sqInv f]
      linarith
    | some v =>
      have hv := hst.2 v hl
      have h0 : v * sq ≤ tm := by rw [hl] at hge0; exact hge0
      have : f ^ kl * sq ≤ x := by
        rw [hx, le_div_iff₀ hscale]; rw [hv] at h0; nlinarith
      have : f ^ kl * (1 + ε) < f ^ kl * sq := mul_lt_mul_of_pos_left hc.sq_gt hpk
      linarith
  have hkle : kl < e := by
    have : f ^ kl * (1 + ε) < f ^ e * (1 + ε) := lt_of_lt_of_le hxlow hup
    have : f ^ kl < f ^ e := lt_of_mul_lt_mul_right this h1e.le
    exact (zpow_lt_zpow_iff_right₀ hc.hf).mp this
  have htle : t ≤ tm := by rw [htm]; unfold geomTmin; exact pyMax_ge_left (K := K) _ _
  refine ⟨hans, hkle, ?_, ?_, ?_⟩
  · rw [hans]
    have : tm ≤ scale * (f ^ e * (1 + ε)) := by
      rw [← hxs]; nlinarith
    linarith
  · intro v hl
    rw [hans, hst.2 v hl]
    exact mul_lt_mul_of_pos_left (zpow_lt_zpow_right₀ hc.hf hkle) hscale
  · intro k' hk' ht'
    -- x * (1+ε) ≤ f^k'
    have hxk : x * (1 + ε) ≤ f ^ k' := by
      have hcase : tm = t ∨ tm = geomTmin0 scale sq sqInv last := by
        rw [htm]; unfold geomTmin; exact pyMax_cases (K := K) _ _
      rcases hcase with h | h
      · have : x * scale * (1 + ε) ≤ scale * f ^ k' := by rw [hxs, h]; exact ht'
        have : scale * (x * (1 + ε)) ≤ scale * f ^ k' := by linarith
        exact le_of_mul_le_mul_left this hscale
      · cases hl : last with
        | none =>
          rw [hl] at h
          have hk := hst.1 hl
          have hx' : x = sqInv := by rw [hx, h]; unfold geomTmin0; field_simp
          have h0 : (0 : Int) ≤ k' := by omega
          have : (1 : K) ≤ f ^ k' := by
            have := zpow_le_zpow_right₀ hc.hf.le h0
            simpa using this
          rw [hx']; linarith [hc.inv_lt]
        | some v =>
          rw [hl] at h
          have hv := hst.2 v hl
          have hx' : x = f ^ kl * sq := by rw [hx, h]; unfold geomTmin0; rw [hv]; field_simp
          have h1 : f ^ kl * (sq * (1 + ε)) ≤ f ^ kl * f := mul_le_mul_of_nonneg_left hc.sq_lt hpk.le
          have h2 : f ^ kl * f = f ^ (kl + 1) := (zpow_add_one₀ hf0.ne' kl).symm
          have h3 : f ^ (kl + 1) ≤ f ^ k' := zpow_le_zpow_right₀ hc.hf.le (by omega)
          rw [hx']; nlinarith
    have : f ^ (e - 1) < f ^ k' := lt_of_lt_of_le hlow hxk
    have := (zpow_lt_zpow_iff_right₀ hc.hf).mp this
    omega

/-- every oracle value of a history is a ceiling of the logarithm up to the tolerance -/
def OracleOKHist (scale f sq sqInv ε : K) : Option K → List (K × Int) → Prop
  | _, [] => True
  | last, (t, e) :: rest =>
    CeilLogOK f ε (geomTmin scale sq sqInv last t / scale) e ∧
      OracleOKHist scale f sq sqInv ε (some (geomCodeAnswer scale f e)) rest

theorem runGeomCode_spec (scale f sq sqInv ε : K) (hc : GeomConsts f sq sqInv ε) (hscale : 0 < scale) :
    ∀ (qs : List (K × Int)) (last : Option K) (kl : Int), GeomState scale f last kl →
      OracleOKHist scale f sq sqInv ε last qs →
      List.Forall₂ (fun (q : K × Int) (r : K × K) => r.2 = scale * f ^ q.2 ∧ q.1 ≤ r.2 * (1 + ε))
        qs (runGeomCode scale f sq sqInv last qs) ∧
      (kl :: qs.map Prod.snd).IsChain (· < ·) ∧
      (∀ v, last = some v → ∀ r ∈ runGeomCode scale f sq sqInv last qs, v < r.2) ∧
      ((runGeomCode scale f sq sqInv last qs).map Prod.snd).IsChain (· < ·) := by
  intro qs
  induction qs with
  | nil => intro last kl _ _; simp [runGeomCode]
  | cons q qs ih =>
    intro last kl hst hok
    obtain ⟨t, e⟩ := q
    obtain ⟨hok1, hok2⟩ := hok
    obtain ⟨hans, hkle, hge, hgt, _⟩ := geomCode_step scale f sq sqInv ε hc hscale last kl hst t e hok1
    have hst' : GeomState scale f (some (geomCodeAnswer scale f e)) e :=
      ⟨fun h => (by cases h), fun v hv => (by cases hv; exact hans)⟩
    obtain ⟨g1, g2, g3, g4⟩ := ih (some (geomCodeAnswer scale f e)) e hst' hok2
    refine ⟨?_, ?_, ?_, ?_⟩
    · simp only [runGeomCode]
      exact List.Forall₂.cons ⟨hans, hge⟩ g1
    · simp only [List.map_cons]
      exact List.IsChain.cons_cons hkle g2
    · intro v hv r hr
      simp only [runGeomCode, List.mem_cons] at hr
      rcases hr with rfl | hr
      · exact hgt v hv
      · exact lt_trans (hgt v hv) (g3 _ rfl r hr)
    · simp only [runGeomCode, List.map_cons]
      cases hrest : runGeomCode scale f sq sqInv (some (geomCodeAnswer scale f e)) qs with
      | nil => simp
      | cons r rs =>
        rw [hrest] at g3 g4
        simp only [List.map_cons] at g4 ⊢
        exact List.IsChain.cons_cons (g3 _ rfl r List.mem_cons_self) g4

/-- **C09, geometric schedule, the code's own computation, whole histories**: from a fresh object,
for every query list and every oracle within the tolerance: every answer is the lattice point
`scale * f^e` of its oracle value, the exponents are `≥ 0` and strictly increasing, the answers are
strictly increasing, and no answer is earlier than its query by more than the factor `1 + ε`. -/
theorem geometric_code_schedule (scale f sq sqInv ε : K) (hc : GeomConsts f sq sqInv ε) (hscale : 0 < scale)
    (qs : List (K × Int)) (hok : OracleOKHist scale f sq sqInv ε none qs) :
    List.Forall₂ (fun (q : K × Int) (r : K × K) => r.2 = scale * f ^ q.2 ∧ q.1 ≤ r.2 * (1 + ε))
        qs (runGeomCode scale f sq sqInv none qs) ∧
      ((-1 : Int) :: qs.map Prod.snd).IsChain (· < ·) ∧
      ((runGeomCode scale f sq sqInv none qs).map Prod.snd).IsChain (· < ·) := by
  obtain ⟨h1, h2, _, h4⟩ := runGeomCode_spec scale f sq sqInv ε hc hscale qs none (-1)
    ⟨fun _ => rfl, fun v hv => (by cases hv)⟩ hok
  exact ⟨h1, h2, h4⟩

/-- with an exact oracle (`ε = 0`: `f^(e-1) < t_min/scale ≤ f^e`) the code's answer is the least
lattice point not before the query whose exponent exceeds the previous one - the specification
model `geomNext` -/
theorem geomCode_exact_is_least (scale f sq sqInv : K) (hc : GeomConsts f sq sqInv 0) (hscale : 0 < scale)
    (last : Option K) (kl : Int) (hst : GeomState scale f last kl) (t : K) (e : Int)
    (hok : CeilLogOK f 0 (geomTmin scale sq sqInv last t / scale) e) :
    t ≤ scale * f ^ e ∧ kl < e ∧ ∀ k' : Int, kl < k' → t ≤ scale * f ^ k' → e ≤ k' := by
  obtain ⟨hans, hk, hge, _, hmin⟩ := geomCode_step scale f sq sqInv 0 hc hscale last kl hst t e hok
  refine ⟨by rw [hans] at hge; simpa using hge, hk, ?_⟩
  intro k' h1 h2
  exact hmin k' h1 (by simpa using h2)

/-- if the query has not passed the next lattice point, no lattice point is skipped -/
theorem geomCode_no_skip (scale f sq sqInv ε : K) (hc : GeomConsts f sq sqInv ε) (hscale : 0 < scale)
    (last : Option K) (kl : Int) (hst : GeomState scale f last kl) (t : K) (e : Int)
    (hok : CeilLogOK f ε (geomTmin scale sq sqInv last t / scale) e)
    (ht : t * (1 + ε) ≤ scale * f ^ (kl + 1)) : e = kl + 1 := by
  obtain ⟨_, hk, _, _, hmin⟩ := geomCode_step scale f sq sqInv ε hc hscale last kl hst t e hok
  have := hmin (kl + 1) (by omega) ht
  omega

/-- the hypotheses on the constants are satisfiable: f = 4, sq = 2, sqInv = 1/2, ε = 1/1000 -/
example : GeomConsts (4 : K) 2 (1 / 2) (1 / 1000) :=
  ⟨by norm_num, by norm_num, by norm_num, by norm_num, by norm_num, by norm_num⟩


/-! ### non-vacuity: concrete schedules meet the hypotheses -/

example : runConst (1/2 : Rat) 0 [0, 1/4, 3, 3] = [1/2, 1, 3, 7/2] := by decide +kernel
example : runFixed ([1, 2, 5] : List Rat) 0 [0, 0, 1/4, 3] = [some 1, some 2, some 5, none] := by
  decide +kernel
example : (runGeom (1 : Rat) 2 50 none [0, 0, 3, 3]).map (Option.map Prod.snd)
    = [some 0, some 1, some 2, some 3] := by decide +kernel
example : runLog (2 : Rat) (1 / 2, 0) [0, 0, 10, 10] = [1, 3, 11, 19] := by decide +kernel
/-- the code's computation with f = 4, sq = 2, sqInv = 1/2 and the exact ceilings as oracle values:
queries 0, 0, 3, 100 -> answers 1, 4, 16, 256 (`t_min` = 1/2, 2, 8, 100) -/
example : runGeomCode (1 : Rat) 4 2 (1 / 2) none [(0, 0), (0, 1), (3, 2), (100, 4)]
    = [(1 / 2, 1), (2, 4), (8, 16), (100, 256)] := by decide +kernel
/-- ... and these oracle values satisfy the hypothesis of `geometric_code_schedule` (exact ceilings) -/
example : OracleOKHist (1 : Rat) 4 2 (1 / 2) 0 none [(0, 0), (0, 1), (3, 2)] := by
  refine ⟨?_, ?_, ?_, trivial⟩ <;>
    simp only [CeilLogOK, geomTmin, geomTmin0, pyMax, geomCodeAnswer, powInt_eq_zpow] <;> norm_num

end
end PdeVerif.Interrupts
