import PdeVerif.Model.Solvers
import PdeVerif.Lemmas.Basic
import Mathlib.Tactic.Ring
import Mathlib.Tactic.FieldSimp
import Mathlib.Tactic.NormNum
import Mathlib.Tactic.Linarith
import Mathlib.Tactic.Positivity
import Mathlib.Tactic.LinearCombination
import Mathlib.Algebra.Order.Field.Basic
import Mathlib.Analysis.Complex.Exponential
import Mathlib.Algebra.BigOperators.Intervals
import Mathlib.Algebra.Order.Archimedean.Basic
import Mathlib.Algebra.Order.BigOperators.Group.List
/-
C06 - time steppers realise their scheme.
Property theorems about `PdeVerif.Solvers` (model of pde/solvers/*.py and of the compiled loops
of pde/backends/numba/_solvers.py).  The coefficients of the Runge-Kutta, Runge-Kutta-Fehlberg
and Adams-Bashforth steps and of the step-size controller are the constants of
`PdeVerif.Generated` (extracted from the sources on every run): every theorem that mentions
`rk4Tab`, `rkfTab`, `ab2Tab`, `ab2TabNumba` or `Generated.ctl_*` is re-proved against the
current sources by `lake build`.
-/
set_option linter.unusedSectionVars false

namespace PdeVerif.Solvers
open PdeVerif

/-- unfold the generated coefficient tables to numerals -/
local macro "gen_simp" : tactic => `(tactic| simp only [rk4Tab, rkfTab, ab2Tab, ab2TabNumba,
  Generated.rk4_c1, Generated.rk4_a21, Generated.rk4_c2, Generated.rk4_a31, Generated.rk4_a32,
  Generated.rk4_c3, Generated.rk4_a41, Generated.rk4_a42, Generated.rk4_a43, Generated.rk4_c4,
  Generated.rk4_w1, Generated.rk4_w2, Generated.rk4_w3, Generated.rk4_w4,
  Generated.rkf_a1, Generated.rkf_a2, Generated.rkf_b21, Generated.rkf_a3, Generated.rkf_b31,
  Generated.rkf_b32, Generated.rkf_a4, Generated.rkf_b41, Generated.rkf_b42, Generated.rkf_b43,
  Generated.rkf_a5, Generated.rkf_b51, Generated.rkf_b52, Generated.rkf_b53, Generated.rkf_b54,
  Generated.rkf_a6, Generated.rkf_b61, Generated.rkf_b62, Generated.rkf_b63, Generated.rkf_b64,
  Generated.rkf_b65, Generated.rkf_c1, Generated.rkf_c2, Generated.rkf_c3, Generated.rkf_c4,
  Generated.rkf_c5, Generated.rkf_c6, Generated.rkf_r1, Generated.rkf_r2, Generated.rkf_r3,
  Generated.rkf_r4, Generated.rkf_r5, Generated.rkf_r6,
  Generated.ab2_w_cur, Generated.ab2_w_prev, Generated.ab2_t_cur, Generated.ab2_t_prev,
  Generated.ab2_init, Generated.ab2nb_w_cur, Generated.ab2nb_w_prev, Generated.ab2nb_t_cur,
  Generated.ab2nb_t_prev, Generated.ab2nb_init,
  Generated.ctl_small, Generated.ctl_up, Generated.ctl_nan, Generated.ctl_safety, Generated.ctl_expo,
  Generated.ctl_down, Generated.ctl_dt_min, Generated.ctl_dt_max, Generated.ctl_tolerance_default,
  Generated.ratK])

/-! ## one step of every scheme on `u' = a u` and on `u' = g(t)` (any field of characteristic 0,
in particular the rationals, the reals and the complex numbers) -/

section algebra
variable {K : Type} [Field K] [CharZero K]

/-- the autonomous linear rate `f(u,t) = a*u` -/
def linear (a : K) : Rate K := fun x _ => a * x
/-- a rate that depends on time only, `f(u,t) = b0 + b1 t + b2 t^2 + b3 t^3` -/
def cubic (b0 b1 b2 b3 : K) : Rate K := fun _ s => b0 + b1 * s + b2 * s ^ 2 + b3 * s ^ 3
/-- exact integral of the cubic over `[t, t+dt]` -/
def cubicIntegral (b0 b1 b2 b3 t dt : K) : K :=
  b0 * dt + b1 * ((t + dt) ^ 2 - t ^ 2) / 2 + b2 * ((t + dt) ^ 3 - t ^ 3) / 3 + b3 * ((t + dt) ^ 4 - t ^ 4) / 4

theorem linRate_linear (a : K) : linRate a 0 0 0 0 = linear a := by
  funext u t; simp [linRate, linear]

theorem linRate_cubic (b0 b1 b2 b3 : K) : linRate 0 b0 b1 b2 b3 = cubic b0 b1 b2 b3 := by
  funext u t; simp only [linRate, cubic]; ring

/-- **Euler**: one step multiplies the state by `1 + z` -/
theorem euler_amp (a dt u t : K) : eulerStep (linear a) dt u t = (1 + a * dt) * u := by
  simp only [eulerStep, linear]; ring

/-- Euler evaluates the rate at the beginning of the step -/
theorem euler_quadrature (b0 b1 b2 b3 dt u t : K) :
    eulerStep (cubic b0 b1 b2 b3) dt u t = u + dt * (b0 + b1 * t + b2 * t ^ 2 + b3 * t ^ 3) := by
  simp only [eulerStep, cubic]

/-- the extracted Runge-Kutta coefficients are the classical RK4 tableau -/
theorem rk4_tableau :
    (rk4Tab : RK4Tab K) = ⟨0, 1/2, 1/2, 0, 1/2, 1/2, 0, 0, 1, 1, 1/6, 1/3, 1/3, 1/6⟩ := by
  gen_simp; norm_num

/-- **Runge-Kutta**: one step multiplies the state by the degree-4 Taylor polynomial of `exp z` -/
theorem rk4_amp (a dt u t : K) :
    rk4Step rk4Tab (linear a) dt u t
      = (1 + a * dt + (a * dt) ^ 2 / 2 + (a * dt) ^ 3 / 6 + (a * dt) ^ 4 / 24) * u := by
  simp only [rk4Step, linear]; gen_simp; push_cast; ring

/-- **Runge-Kutta stage times and weights**: for a rate that is a cubic polynomial of time one
step is the exact integral (fails for any other stage time or weight) -/
theorem rk4_quadrature (b0 b1 b2 b3 dt u t : K) :
    rk4Step rk4Tab (cubic b0 b1 b2 b3) dt u t = u + cubicIntegral b0 b1 b2 b3 t dt := by
  simp only [rk4Step, cubic, cubicIntegral]; gen_simp; push_cast; ring

/-! ### implicit Euler -/

/-- value of one cell after the predictor and `k` fixed-point iterations -/
def implicitCell (f : Rate K) (dt t u : K) : Nat → K
  | 0 => implicitPredict f dt t u
  | k + 1 => implicitIter f dt t u (implicitCell f dt t u k)

/-- **implicit Euler**: closed form of every iterate; for `z ≠ 1` the iterates are
`(1 - z^(k+2))/(1 - z) * u`, at distance `z^(k+2)/(1-z) * u` from the limit `u/(1-z)` -/
theorem implicit_iterates (a dt u t : K) (k : Nat) :
    (1 - a * dt) * implicitCell (linear a) dt t u k = (1 - (a * dt) ^ (k + 2)) * u := by
  induction k with
  | zero => simp only [implicitCell, implicitPredict, linear]; ring
  | succ k ih =>
    have : (1 - a * dt) * implicitCell (linear a) dt t u (k + 1)
        = (1 - a * dt) * u + a * dt * ((1 - a * dt) * implicitCell (linear a) dt t u k) := by
      simp only [implicitCell, implicitIter, linear]; ring
    rw [this, ih]; ring

/-- the converged value of implicit Euler is `u / (1 - z)` -/
theorem implicit_fixed_point (a dt u t x : K) (h : 1 - a * dt ≠ 0) :
    implicitIter (linear a) dt t u x = x ↔ x = u / (1 - a * dt) := by
  simp only [implicitIter, linear]
  rw [eq_div_iff h]
  constructor <;> intro hx <;> linear_combination -hx

/-- implicit Euler evaluates the rate at the end of the step (every iterate, a = 0) -/
theorem implicit_quadrature (b0 b1 b2 b3 dt u t : K) (k : Nat) :
    implicitCell (cubic b0 b1 b2 b3) dt t u (k + 1)
      = u + dt * (b0 + b1 * (t + dt) + b2 * (t + dt) ^ 2 + b3 * (t + dt) ^ 3) := by
  simp only [implicitCell, implicitIter, cubic]

/-! ### Crank-Nicolson -/

/-- value of one cell after the pre-loop update and `k` iterations -/
def cnCell (α : K) (f : Rate K) (dt t u : K) : Nat → K
  | 0 => cnIter α f dt t u u
  | k + 1 => cnIter α f dt t u (cnCell α f dt t u k)

/-- the first Crank-Nicolson value (before the loop) -/
theorem cn_start (α a dt u t : K) :
    cnCell α (linear a) dt t u 0 = (α + (1 - α) * (1 + a * dt)) * u := by
  simp only [cnCell, cnIter, linear]; push_cast; ring

/-- **Crank-Nicolson**: the defect `(1 - z/2) x_k - (1 + z/2) u` of the iterates contracts by
`q = α + (1-α) z/2` per iteration, so the limit is `(1 + z/2)/(1 - z/2) * u` for every explicit
fraction `α` -/
theorem cn_iterates (α a dt u t : K) (k : Nat) :
    (1 - a * dt / 2) * cnCell α (linear a) dt t u k - (1 + a * dt / 2) * u
      = (α + (1 - α) * (a * dt / 2)) ^ k
        * ((1 - a * dt / 2) * cnCell α (linear a) dt t u 0 - (1 + a * dt / 2) * u) := by
  induction k with
  | zero => simp
  | succ k ih =>
    have : (1 - a * dt / 2) * cnCell α (linear a) dt t u (k + 1) - (1 + a * dt / 2) * u
        = (α + (1 - α) * (a * dt / 2))
          * ((1 - a * dt / 2) * cnCell α (linear a) dt t u k - (1 + a * dt / 2) * u) := by
      simp only [cnCell, cnIter, linear]; push_cast; ring
    rw [this, ih]; ring

/-- the converged value of Crank-Nicolson is `(1 + z/2)/(1 - z/2) * u` (any `α ≠ 1`) -/
theorem cn_fixed_point (α a dt u t x : K) (hα : 1 - α ≠ 0) (h : 1 - a * dt / 2 ≠ 0) :
    cnIter α (linear a) dt t u x = x ↔ x = (1 + a * dt / 2) / (1 - a * dt / 2) * u := by
  simp only [cnIter, linear]; push_cast
  rw [show (1 + a * dt / 2) / (1 - a * dt / 2) * u = ((1 + a * dt / 2) * u) / (1 - a * dt / 2) from
    div_mul_eq_mul_div _ _ _, eq_div_iff h]
  constructor
  · intro hx
    have : (1 - α) * ((1 - a * dt / 2) * x - (1 + a * dt / 2) * u) = 0 := by linear_combination -hx
    rcases mul_eq_zero.mp this with h0 | h0
    · exact absurd h0 hα
    · linear_combination h0
  · intro hx; linear_combination (-(1 - α)) * hx

/-- Crank-Nicolson with `α = 0` is the trapezoidal rule (rate at both ends of the step) -/
theorem cn_quadrature (b0 b1 b2 b3 dt u t : K) (k : Nat) :
    cnCell 0 (cubic b0 b1 b2 b3) dt t u k
      = u + dt / 2 * ((b0 + b1 * (t + dt) + b2 * (t + dt) ^ 2 + b3 * (t + dt) ^ 3)
                      + (b0 + b1 * t + b2 * t ^ 2 + b3 * t ^ 3)) := by
  cases k <;> simp only [cnCell, cnIter, cubic] <;> push_cast <;> ring

/-! ### successive iterates of the implicit schemes: what the stopping test sees -/

/-- implicit Euler: successive iterates differ by `z^(k+2) u` -/
theorem implicit_increment (a dt u t : K) (k : Nat) :
    implicitCell (linear a) dt t u (k + 1) - implicitCell (linear a) dt t u k = (a * dt) ^ (k + 2) * u := by
  induction k with
  | zero => simp only [implicitCell, implicitIter, implicitPredict, linear]; ring
  | succ k ih =>
    have : implicitCell (linear a) dt t u (k + 1 + 1) - implicitCell (linear a) dt t u (k + 1)
        = a * dt * (implicitCell (linear a) dt t u (k + 1) - implicitCell (linear a) dt t u k) := by
      simp only [implicitCell, implicitIter, linear]; ring
    rw [this, ih]; ring

/-- the residual of the implicit equation `(1 - z) y = u` at an iterate is `-z` times the last change -/
theorem implicit_residual (a dt u t : K) (k : Nat) :
    (1 - a * dt) * implicitCell (linear a) dt t u (k + 1) - u
      = -(a * dt) * (implicitCell (linear a) dt t u (k + 1) - implicitCell (linear a) dt t u k) := by
  rw [implicit_increment]
  have := implicit_iterates a dt u t (k + 1)
  linear_combination this

/-- Crank-Nicolson: the change of one iteration is `(q - 1)` times the defect, `q = α + (1-α) z/2` -/
theorem cn_increment (α a dt u t : K) (k : Nat) :
    (1 - a * dt / 2) * (cnCell α (linear a) dt t u (k + 1) - cnCell α (linear a) dt t u k)
      = (α + (1 - α) * (a * dt / 2) - 1)
        * ((1 - a * dt / 2) * cnCell α (linear a) dt t u k - (1 + a * dt / 2) * u) := by
  simp only [cnCell, cnIter, linear]; push_cast; ring

/-- the defect of the Crank-Nicolson equation `(1 - z/2) y = (1 + z/2) u` at an iterate, times `1 - q`,
is `-q (1 - z/2)` times the last change -/
theorem cn_residual (α a dt u t : K) (k : Nat) :
    (1 - (α + (1 - α) * (a * dt / 2)))
        * ((1 - a * dt / 2) * cnCell α (linear a) dt t u (k + 1) - (1 + a * dt / 2) * u)
      = -(α + (1 - α) * (a * dt / 2)) * (1 - a * dt / 2)
        * (cnCell α (linear a) dt t u (k + 1) - cnCell α (linear a) dt t u k) := by
  have h1 := cn_increment α a dt u t k
  have h2 : (1 - a * dt / 2) * cnCell α (linear a) dt t u (k + 1) - (1 + a * dt / 2) * u
      = (α + (1 - α) * (a * dt / 2))
        * ((1 - a * dt / 2) * cnCell α (linear a) dt t u k - (1 + a * dt / 2) * u) := by
    simp only [cnCell, cnIter, linear]; push_cast; ring
  linear_combination (1 - (α + (1 - α) * (a * dt / 2))) * h2 + (α + (1 - α) * (a * dt / 2)) * h1 - (α + (1 - α) * (a * dt / 2)) * h2 + (α + (1 - α) * (a * dt / 2)) * h2

/-- the Crank-Nicolson iteration on `u' = a u` is affine with slope `q = α + (1-α) z/2`: successive
iterates differ by `q^k` times the first difference -/
theorem cn_increment_geometric (α a dt u t : K) (k : Nat) :
    cnCell α (linear a) dt t u (k + 1) - cnCell α (linear a) dt t u k
      = (α + (1 - α) * (a * dt / 2)) ^ k
        * (((α + (1 - α) * (a * dt / 2) - 1) * (α + (1 - α) * (1 + a * dt)) + (1 - α) * (1 + a * dt / 2)) * u) := by
  induction k with
  | zero => simp only [cnCell, cnIter, linear]; push_cast; ring
  | succ k ih =>
    have : cnCell α (linear a) dt t u (k + 1 + 1) - cnCell α (linear a) dt t u (k + 1)
        = (α + (1 - α) * (a * dt / 2)) * (cnCell α (linear a) dt t u (k + 1) - cnCell α (linear a) dt t u k) := by
      simp only [cnCell, cnIter, linear]; push_cast; ring
    rw [this, ih]; ring

/-! ### Adams-Bashforth -/

/-- the compiled loop applies the same coefficients as adams_bashforth.py -/
theorem ab2_numba_same : (ab2TabNumba : AB2Tab K) = ab2Tab := by
  gen_simp

/-- **Adams-Bashforth**: `u_{n+1} = u_n + z (3/2 u_n - 1/2 u_{n-1})`, and the new previous state
is `u_n` -/
theorem ab2_recursion (a dt t u p : K) :
    ab2Step ab2Tab (linear a) dt t u p = (u + a * dt * (3 / 2 * u - 1 / 2 * p), u) := by
  simp only [ab2Step, linear]; gen_simp; push_cast
  refine Prod.ext ?_ rfl
  simp only; ring

/-- first step: the previous state is estimated by a backward Euler step, which makes the first
Adams-Bashforth step the degree-2 Taylor polynomial -/
theorem ab2_first_step (a dt t u : K) :
    (ab2Step ab2Tab (linear a) dt t u (ab2Init ab2Tab (linear a) dt t u)).1
      = (1 + a * dt + (a * dt) ^ 2 / 2) * u := by
  simp only [ab2Step, ab2Init, linear]; gen_simp; push_cast; ring

/-- Adams-Bashforth evaluates the rates at `t` and `t - dt` -/
theorem ab2_quadrature (b0 b1 b2 b3 dt t u p : K) :
    (ab2Step ab2Tab (cubic b0 b1 b2 b3) dt t u p).1
      = u + dt * (3 / 2 * (b0 + b1 * t + b2 * t ^ 2 + b3 * t ^ 3)
                  - 1 / 2 * (b0 + b1 * (t - dt) + b2 * (t - dt) ^ 2 + b3 * (t - dt) ^ 3)) := by
  simp only [ab2Step, cubic]; gen_simp; push_cast; ring

/-! ### Runge-Kutta-Fehlberg 4(5) -/

/-- **row sums**: every stage time is the sum of its row of the stage matrix -/
theorem rkf45_rowsum :
    let T : RKFTab K := rkfTab
    T.a1 = 0 ∧ T.b21 = T.a2 ∧ T.b31 + T.b32 = T.a3 ∧ T.b41 + T.b42 + T.b43 = T.a4
      ∧ T.b51 + T.b52 + T.b53 + T.b54 = T.a5 ∧ T.b61 + T.b62 + T.b63 + T.b64 + T.b65 = T.a6 := by
  gen_simp; norm_num

/-- the error estimate is, for every tableau and every rate, the difference between the
combination of the stages with the weights `c + r` and the returned state -/
theorem rkf45_error_is_difference (T : RKFTab K) (f : Rate K) (dt u t : K) :
    (rkf45Step T f dt u t).2 = rkf45High T f dt u t - (rkf45Step T f dt u t).1 := by
  simp only [rkf45Step, rkf45High]; ring

/-- the weights `c + r` are Fehlberg's fifth-order weights -/
theorem rkf45_high_weights :
    let T : RKFTab K := rkfTab
    T.c1 + T.r1 = 16 / 135 ∧ T.c2 + T.r2 = 0 ∧ T.c3 + T.r3 = 6656 / 12825
      ∧ T.c4 + T.r4 = 28561 / 56430 ∧ T.c5 + T.r5 = -9 / 50 ∧ T.c6 + T.r6 = 2 / 55 := by
  gen_simp; norm_num

/-- **returned state on `u' = a u`**: Taylor polynomial of degree 4 plus `z^5/104` -/
theorem rkf45_amp4 (a dt u t : K) :
    (rkf45Step rkfTab (linear a) dt u t).1
      = (1 + a * dt + (a * dt) ^ 2 / 2 + (a * dt) ^ 3 / 6 + (a * dt) ^ 4 / 24 + (a * dt) ^ 5 / 104) * u := by
  simp only [rkf45Step, rkfStages, linear]; gen_simp; push_cast; ring

/-- the embedded higher-order value on `u' = a u`: Taylor polynomial of degree 5 plus `z^6/2080` -/
theorem rkf45_amp5 (a dt u t : K) :
    rkf45High rkfTab (linear a) dt u t
      = (1 + a * dt + (a * dt) ^ 2 / 2 + (a * dt) ^ 3 / 6 + (a * dt) ^ 4 / 24 + (a * dt) ^ 5 / 120
          + (a * dt) ^ 6 / 2080) * u := by
  simp only [rkf45High, rkfStages, linear]; gen_simp; push_cast; ring

/-- the error estimate on `u' = a u` -/
theorem rkf45_estimate_amp (a dt u t : K) :
    (rkf45Step rkfTab (linear a) dt u t).2
      = ((a * dt) ^ 5 * (1 / 120 - 1 / 104) + (a * dt) ^ 6 / 2080) * u := by
  rw [rkf45_error_is_difference, rkf45_amp4, rkf45_amp5]; ring

/-- **stage times and weights of the returned state**: a cubic rate is integrated exactly -/
theorem rkf45_quadrature (b0 b1 b2 b3 dt u t : K) :
    (rkf45Step rkfTab (cubic b0 b1 b2 b3) dt u t).1 = u + cubicIntegral b0 b1 b2 b3 t dt := by
  simp only [rkf45Step, rkfStages, cubic, cubicIntegral]; gen_simp; push_cast; ring

/-- stage times and weights of the higher-order value: a quartic rate is integrated exactly -/
theorem rkf45_quadrature5 (b0 b1 b2 b3 b4 dt u t : K) :
    rkf45High rkfTab (fun _ s => b0 + b1 * s + b2 * s ^ 2 + b3 * s ^ 3 + b4 * s ^ 4) dt u t
      = u + (cubicIntegral b0 b1 b2 b3 t dt + b4 * ((t + dt) ^ 5 - t ^ 5) / 5) := by
  simp only [rkf45High, rkfStages, cubicIntegral]; gen_simp; push_cast; ring

/-! ### stage times: every step depends on the rate only through its values at the stage times of the scheme

The clause "the right-hand side is evaluated at the stage times of the scheme", as a statement about the
executable steps themselves (the definitions the driver evaluates against the real steppers on every run): two
rates that agree - for every state - at the stage times of a step give the same step, whatever they do at other
times.  First for arbitrary coefficient tables, then for the extracted ones. -/


/-- two rates agree (for every state) at all the times of a list -/
def AgreeAt (f g : Rate K) (ts : List K) : Prop := ∀ s ∈ ts, ∀ x, f x s = g x s

theorem AgreeAt.at {f g : Rate K} {ts : List K} (h : AgreeAt f g ts) {s : K} (hs : s ∈ ts) : ∀ x, f x s = g x s :=
  h s hs

/-- **Euler evaluates the rate at `t` only** -/
theorem euler_stage_times (f g : Rate K) (dt u t : K) (h : AgreeAt f g (eulerTimes t dt)) :
    eulerStep f dt u t = eulerStep g dt u t := by
  simp only [eulerStep, h.at (List.mem_singleton.mpr rfl)]

/-- a four-stage explicit Runge-Kutta step evaluates the rate at `t + c_i dt` only (any tableau) -/
theorem rk4_stage_times_tab (T : RK4Tab K) (f g : Rate K) (dt u t : K)
    (h : AgreeAt f g (rk4Times T t dt)) :
    rk4Step T f dt u t = rk4Step T g dt u t := by
  have h1 := h.at (s := t + T.c1 * dt) (by simp [rk4Times])
  have h2 := h.at (s := t + T.c2 * dt) (by simp [rk4Times])
  have h3 := h.at (s := t + T.c3 * dt) (by simp [rk4Times])
  have h4 := h.at (s := t + T.c4 * dt) (by simp [rk4Times])
  simp only [rk4Step, h1, h2, h3, h4]

/-- the Fehlberg step (returned state, error estimate, embedded higher-order value) evaluates the rate at
`t + a_i dt` only (any tableau) -/
theorem rkf45_stage_times_tab (T : RKFTab K) (f g : Rate K) (dt u t : K)
    (h : AgreeAt f g (rkfTimes T t dt)) :
    rkf45Step T f dt u t = rkf45Step T g dt u t ∧ rkf45High T f dt u t = rkf45High T g dt u t := by
  have h1 := h.at (s := t + T.a1 * dt) (by simp [rkfTimes])
  have h2 := h.at (s := t + T.a2 * dt) (by simp [rkfTimes])
  have h3 := h.at (s := t + T.a3 * dt) (by simp [rkfTimes])
  have h4 := h.at (s := t + T.a4 * dt) (by simp [rkfTimes])
  have h5 := h.at (s := t + T.a5 * dt) (by simp [rkfTimes])
  have h6 := h.at (s := t + T.a6 * dt) (by simp [rkfTimes])
  have hs : rkfStages T f dt u t = rkfStages T g dt u t := by
    simp only [rkfStages, h1, h2, h3, h4, h5, h6]
  simp only [rkf45Step, rkf45High, hs, and_self]

/-- implicit Euler: predictor at `t`, every iteration at `t + dt` -/
theorem implicit_stage_times [HasNormSq K] [LT K] [DecidableLT K] (f g : Rate K) (maxiter : Nat) (maxerror dt : K)
    (us : List K) (t : K) (h : AgreeAt f g (implicitTimes t dt)) :
    implicitStep f maxiter maxerror dt us t = implicitStep g maxiter maxerror dt us t := by
  have h1 := h.at (s := t) (by simp [implicitTimes])
  have h2 := h.at (s := t + dt) (by simp [implicitTimes])
  have e1 : implicitIter f dt t = implicitIter g dt t := by
    funext u x; simp only [implicitIter, h2]
  have e2 : implicitPredict f dt t = implicitPredict g dt t := by
    funext u; simp only [implicitPredict, h1]
  simp only [implicitStep, e1, e2]

/-- Crank-Nicolson: rates at `t` and `t + dt` -/
theorem cn_stage_times [HasNormSq K] [LT K] [DecidableLT K] (α : K) (f g : Rate K) (maxiter : Nat) (maxerror dt : K)
    (us : List K) (t : K) (h : AgreeAt f g (implicitTimes t dt)) :
    cnStep α f maxiter maxerror dt us t = cnStep α g maxiter maxerror dt us t := by
  have h1 := h.at (s := t) (by simp [implicitTimes])
  have h2 := h.at (s := t + dt) (by simp [implicitTimes])
  have e1 : cnIter α f dt t = cnIter α g dt t := by
    funext u x; simp only [cnIter, h1, h2]
  simp only [cnStep, e1]

/-- Adams-Bashforth (any coefficient table): rates at `t + tPrev dt` and `t + tCur dt`; the first-call
initialisation at `t_start` -/
theorem ab2_stage_times_tab (T : AB2Tab K) (f g : Rate K) (dt t u p : K)
    (h : AgreeAt f g (ab2Times T t dt)) :
    ab2Step T f dt t u p = ab2Step T g dt t u p := by
  have h1 := h.at (s := t + T.tPrev * dt) (by simp [ab2Times])
  have h2 := h.at (s := t + T.tCur * dt) (by simp [ab2Times])
  simp only [ab2Step, h1, h2]

theorem ab2Init_stage_times (T : AB2Tab K) (f g : Rate K) (dt ts u : K) (h : AgreeAt f g [ts]) :
    ab2Init T f dt ts u = ab2Init T g dt ts u := by
  simp only [ab2Init, h.at (List.mem_singleton.mpr rfl)]

/-- step doubling with Euler steps (`AdaptiveSolverBase`): rates at `t` and `t + dt/2` -/
theorem eulerRichardson_stage_times [LT K] [DecidableLT K] (f g : Rate K) (us : List K) (t dt : K)
    (h : AgreeAt f g [t, t + dt / 2]) :
    eulerRichardson f us t dt = eulerRichardson g us t dt := by
  have h1 := h.at (s := t) (by simp)
  have e : t + ((1 : Nat) : K) / ((2 : Nat) : K) * dt = t + dt / 2 := by push_cast; ring
  have h2 := h.at (s := t + dt / 2) (by simp)
  simp only [eulerRichardson, richardson, eulerVar, e, h1, h2]



/-- **the extracted Runge-Kutta stage times** (`rk4Times rk4Tab` is what the driver reports and the check compares with
the times the real stepper evaluates the rate at) -/
theorem rk4Times_extracted (t dt : K) : rk4Times rk4Tab t dt = [t, t + dt / 2, t + dt / 2, t + dt] := by
  have e0 : t + (rk4Tab : RK4Tab K).c1 * dt = t := by gen_simp; push_cast; ring
  have e1 : t + (rk4Tab : RK4Tab K).c2 * dt = t + dt / 2 := by gen_simp; push_cast; ring
  have e2 : t + (rk4Tab : RK4Tab K).c3 * dt = t + dt / 2 := by gen_simp; push_cast; ring
  have e3 : t + (rk4Tab : RK4Tab K).c4 * dt = t + dt := by gen_simp; push_cast; ring
  simp only [rk4Times, e0, e1, e2, e3]

/-- **the extracted Fehlberg stage times** -/
theorem rkfTimes_extracted (t dt : K) :
    rkfTimes rkfTab t dt = [t, t + dt / 4, t + 3 / 8 * dt, t + 12 / 13 * dt, t + dt, t + dt / 2] := by
  have e1 : t + (rkfTab : RKFTab K).a1 * dt = t := by gen_simp; push_cast; ring
  have e2 : t + (rkfTab : RKFTab K).a2 * dt = t + dt / 4 := by gen_simp; push_cast; ring
  have e3 : t + (rkfTab : RKFTab K).a3 * dt = t + 3 / 8 * dt := by gen_simp; push_cast; ring
  have e4 : t + (rkfTab : RKFTab K).a4 * dt = t + 12 / 13 * dt := by gen_simp; push_cast; ring
  have e5 : t + (rkfTab : RKFTab K).a5 * dt = t + dt := by gen_simp; push_cast; ring
  have e6 : t + (rkfTab : RKFTab K).a6 * dt = t + dt / 2 := by gen_simp; push_cast; ring
  simp only [rkfTimes, e1, e2, e3, e4, e5, e6]

/-- **the extracted Adams-Bashforth stage times**, interpreted and compiled loop -/
theorem ab2Times_extracted (t dt : K) :
    ab2Times ab2Tab t dt = [t - dt, t] ∧ ab2Times ab2TabNumba t dt = [t - dt, t] := by
  have e1 : t + (ab2Tab : AB2Tab K).tPrev * dt = t - dt := by gen_simp; push_cast; ring
  have e2 : t + (ab2Tab : AB2Tab K).tCur * dt = t := by gen_simp; push_cast; ring
  have key : ab2Times ab2Tab t dt = [t - dt, t] := by simp only [ab2Times, e1, e2]
  exact ⟨key, by rw [ab2_numba_same]; exact key⟩

/-- **Runge-Kutta evaluates the rate at `t`, `t + dt/2`, `t + dt` only** (the extracted stage times) -/
theorem rk4_stage_times (f g : Rate K) (dt u t : K) (h : AgreeAt f g [t, t + dt / 2, t + dt]) :
    rk4Step rk4Tab f dt u t = rk4Step rk4Tab g dt u t := by
  apply rk4_stage_times_tab
  intro s hs
  rw [rk4Times_extracted] at hs
  exact h s (by simp only [List.mem_cons, List.not_mem_nil, or_false] at hs ⊢; tauto)

/-- **the Fehlberg step evaluates the rate at `t + a_i dt`, `a = 0, 1/4, 3/8, 12/13, 1, 1/2` only** -/
theorem rkf45_stage_times (f g : Rate K) (dt u t : K)
    (h : AgreeAt f g [t, t + dt / 4, t + 3 / 8 * dt, t + 12 / 13 * dt, t + dt, t + dt / 2]) :
    rkf45Step rkfTab f dt u t = rkf45Step rkfTab g dt u t ∧ rkf45High rkfTab f dt u t = rkf45High rkfTab g dt u t := by
  apply rkf45_stage_times_tab
  intro s hs
  rw [rkfTimes_extracted] at hs
  exact h s hs

/-- **Adams-Bashforth evaluates the rates at `t - dt` and `t` only**, interpreted and compiled loop -/
theorem ab2_stage_times (f g : Rate K) (dt t u p : K) (h : AgreeAt f g [t - dt, t]) :
    ab2Step ab2Tab f dt t u p = ab2Step ab2Tab g dt t u p
    ∧ ab2Step ab2TabNumba f dt t u p = ab2Step ab2TabNumba g dt t u p := by
  have key : ab2Step ab2Tab f dt t u p = ab2Step ab2Tab g dt t u p := by
    apply ab2_stage_times_tab
    intro s hs
    rw [(ab2Times_extracted t dt).1] at hs
    exact h s hs
  exact ⟨key, by rw [ab2_numba_same]; exact key⟩


end algebra

/-! ### order conditions of the two embedded Fehlberg solutions (rational arithmetic on the
extracted constants) -/

section order
/-- stage times -/
def rkfA : List ℚ := [rkfTab.a1, rkfTab.a2, rkfTab.a3, rkfTab.a4, rkfTab.a5, rkfTab.a6]
/-- strictly lower triangular stage matrix (rows padded with zeros) -/
def rkfB : List (List ℚ) :=
  [[0, 0, 0, 0, 0, 0],
   [rkfTab.b21, 0, 0, 0, 0, 0],
   [rkfTab.b31, rkfTab.b32, 0, 0, 0, 0],
   [rkfTab.b41, rkfTab.b42, rkfTab.b43, 0, 0, 0],
   [rkfTab.b51, rkfTab.b52, rkfTab.b53, rkfTab.b54, 0, 0],
   [rkfTab.b61, rkfTab.b62, rkfTab.b63, rkfTab.b64, rkfTab.b65, 0]]
/-- weights of the returned state -/
def rkfC4 : List ℚ := [rkfTab.c1, rkfTab.c2, rkfTab.c3, rkfTab.c4, rkfTab.c5, rkfTab.c6]
/-- weights of the error estimate -/
def rkfR : List ℚ := [rkfTab.r1, rkfTab.r2, rkfTab.r3, rkfTab.r4, rkfTab.r5, rkfTab.r6]
/-- weights of the embedded higher-order value -/
def rkfC5 : List ℚ := List.zipWith (· + ·) rkfC4 rkfR

def dot (x y : List ℚ) : ℚ := (List.zipWith (· * ·) x y).sum
def had (x y : List ℚ) : List ℚ := List.zipWith (· * ·) x y
def mv (m : List (List ℚ)) (x : List ℚ) : List ℚ := m.map (fun row => dot row x)

/-- the eight order conditions up to order four (one per rooted tree) for weights `w` -/
def order4Conditions (w : List ℚ) : Prop :=
  let a := rkfA
  let B := rkfB
  w.sum = 1
  ∧ dot w a = 1 / 2
  ∧ dot w (had a a) = 1 / 3 ∧ dot w (mv B a) = 1 / 6
  ∧ dot w (had a (had a a)) = 1 / 4 ∧ dot w (had a (mv B a)) = 1 / 8
  ∧ dot w (mv B (had a a)) = 1 / 12 ∧ dot w (mv B (mv B a)) = 1 / 24

/-- the nine additional conditions of order five -/
def order5Conditions (w : List ℚ) : Prop :=
  let a := rkfA
  let B := rkfB
  dot w (had a (had a (had a a))) = 1 / 5
  ∧ dot w (had (had a a) (mv B a)) = 1 / 10
  ∧ dot w (had (mv B a) (mv B a)) = 1 / 20
  ∧ dot w (had a (mv B (had a a))) = 1 / 15
  ∧ dot w (mv B (had a (had a a))) = 1 / 20
  ∧ dot w (had a (mv B (mv B a))) = 1 / 30
  ∧ dot w (mv B (had a (mv B a))) = 1 / 40
  ∧ dot w (mv B (mv B (had a a))) = 1 / 60
  ∧ dot w (mv B (mv B (mv B a))) = 1 / 120

/-- **the returned state is a Runge-Kutta method of order four** -/
theorem rkf45_order4 : order4Conditions rkfC4 := by
  simp only [order4Conditions, rkfA, rkfB, rkfC4, dot, had, mv, List.zipWith, List.map, List.sum_cons,
    List.sum_nil]
  gen_simp; norm_num

/-- **the value the error estimate compares with is a method of order five** -/
theorem rkf45_order5 : order4Conditions rkfC5 ∧ order5Conditions rkfC5 := by
  simp only [order4Conditions, order5Conditions, rkfA, rkfB, rkfC5, rkfC4, rkfR, dot, had, mv, List.zipWith,
    List.map, List.sum_cons, List.sum_nil]
  gen_simp; norm_num

end order

/-! ## loops -/

section ordered
variable {K : Type} [Field K] [LinearOrder K] [IsStrictOrderedRing K] [FloorRing K]

/-- real number types: `(conj x * x).real = x * x` -/
instance instHasNormSqOfField : HasNormSq K := ⟨fun x => x * x⟩

/-! ### the fixed-point loop of the implicit schemes -/

/-- `fixpointLoop` returns the first iterate whose mean squared distance to its predecessor is
below the threshold, together with the number of iterations; it never exceeds `maxiter` -/
theorem fixpointLoop_spec (it : List K → List K) (e : K) :
    ∀ (m : Nat) (xs : List K) (n : Nat) (ys : List K) (n' : Nat),
      fixpointLoop it e m xs n = some (ys, n') →
      ∃ j : Nat, j < m ∧ n' = n + j + 1 ∧ ys = it^[j + 1] xs
        ∧ msqDiff (it^[j + 1] xs) (it^[j] xs) < e
        ∧ ∀ i < j, ¬ msqDiff (it^[i + 1] xs) (it^[i] xs) < e := by
  intro m
  induction m with
  | zero => intro xs n ys n' h; simp [fixpointLoop] at h
  | succ m ih =>
    intro xs n ys n' h
    simp only [fixpointLoop] at h
    split_ifs at h with hc
    · simp only [Option.some.injEq, Prod.mk.injEq] at h
      refine ⟨0, Nat.succ_pos m, by omega, by simp [h.1], by simpa using hc, by simp⟩
    · obtain ⟨j, hj, hn, hy, hconv, hnot⟩ := ih (it xs) (n + 1) ys n' h
      refine ⟨j + 1, by omega, by omega, ?_, ?_, ?_⟩
      · rw [hy]; simp [Function.iterate_succ_apply]
      · simpa [Function.iterate_succ_apply] using hconv
      · intro i hi
        cases i with
        | zero => simpa using hc
        | succ i =>
          have := hnot i (by omega)
          simpa [Function.iterate_succ_apply] using this

/-- no result (`ConvergenceError`) means that none of the `maxiter` iterations passed the test -/
theorem fixpointLoop_none (it : List K → List K) (e : K) :
    ∀ (m : Nat) (xs : List K) (n : Nat), fixpointLoop it e m xs n = none →
      ∀ i < m, ¬ msqDiff (it^[i + 1] xs) (it^[i] xs) < e := by
  intro m
  induction m with
  | zero => intro xs n _ i hi; omega
  | succ m ih =>
    intro xs n h i hi
    simp only [fixpointLoop] at h
    split_ifs at h with hc
    cases i with
    | zero => simpa using hc
    | succ i =>
      have := ih (it xs) (n + 1) h i (by omega)
      simpa [Function.iterate_succ_apply] using this

theorem zipWith_map_right {α β γ : Type} (g : α → β → γ) (h : α → β) (us : List α) :
    List.zipWith g us (us.map h) = us.map (fun u => g u (h u)) := by
  induction us with
  | nil => rfl
  | cons u us ih => simp [ih]

/-- the iterates of the whole state are the cell iterates -/
theorem implicit_iterate_cells (f : Rate K) (dt t : K) (us : List K) (j : Nat) :
    (fun xs => List.zipWith (implicitIter f dt t) us xs)^[j] (us.map (implicitPredict f dt t))
      = us.map (fun u => implicitCell f dt t u j) := by
  induction j with
  | zero => simp [implicitCell]
  | succ j ih =>
    rw [Function.iterate_succ_apply', ih, zipWith_map_right]
    simp [implicitCell]

theorem cn_iterate_cells (α : K) (f : Rate K) (dt t : K) (us : List K) (j : Nat) :
    (fun xs => List.zipWith (cnIter α f dt t) us xs)^[j] (us.map (fun u => cnIter α f dt t u u))
      = us.map (fun u => cnCell α f dt t u j) := by
  induction j with
  | zero => simp [cnCell]
  | succ j ih =>
    rw [Function.iterate_succ_apply', ih, zipWith_map_right]
    simp [cnCell]

/-- **implicit Euler step**: the returned state consists of the cell iterates
`implicitCell .. n` (closed form: `implicit_iterates`) for the reported number `n ≥ 1` of
iterations, `n ≤ maxiter`, and `n` is the first iteration count that passes the mean-square test -/
theorem implicitStep_cells (f : Rate K) (maxiter : Nat) (maxerror dt : K) (us : List K) (t : K)
    (ys : List K) (n : Nat) (h : implicitStep f maxiter maxerror dt us t = some (ys, n)) :
    1 ≤ n ∧ n ≤ maxiter ∧ ys = us.map (fun u => implicitCell f dt t u n)
      ∧ msqDiff (us.map (fun u => implicitCell f dt t u n)) (us.map (fun u => implicitCell f dt t u (n - 1)))
          < maxerror * maxerror
      ∧ ∀ i, 1 ≤ i → i < n →
          ¬ msqDiff (us.map (fun u => implicitCell f dt t u i)) (us.map (fun u => implicitCell f dt t u (i - 1)))
              < maxerror * maxerror := by
  unfold implicitStep at h
  obtain ⟨j, hj, hn, hy, hconv, hnot⟩ := fixpointLoop_spec _ _ _ _ _ _ _ h
  simp only [implicit_iterate_cells] at hy hconv hnot
  have hn' : n = j + 1 := by omega
  subst hn'
  refine ⟨by omega, by omega, hy, by simpa using hconv, ?_⟩
  intro i hi1 hi2
  have := hnot (i - 1) (by omega)
  have e : i - 1 + 1 = i := by omega
  rwa [e] at this

/-- **Crank-Nicolson step**: same statement with the Crank-Nicolson cell iterates (`cn_iterates`) -/
theorem cnStep_cells (α : K) (f : Rate K) (maxiter : Nat) (maxerror dt : K) (us : List K) (t : K)
    (ys : List K) (n : Nat) (h : cnStep α f maxiter maxerror dt us t = some (ys, n)) :
    1 ≤ n ∧ n ≤ maxiter ∧ ys = us.map (fun u => cnCell α f dt t u n)
      ∧ msqDiff (us.map (fun u => cnCell α f dt t u n)) (us.map (fun u => cnCell α f dt t u (n - 1)))
          < maxerror * maxerror := by
  unfold cnStep at h
  obtain ⟨j, hj, hn, hy, hconv, _⟩ := fixpointLoop_spec _ _ _ _ _ _ _ h
  simp only [cn_iterate_cells] at hy hconv
  have hn' : n = j + 1 := by omega
  subst hn'
  exact ⟨by omega, by omega, hy, by simpa using hconv⟩

/-! ### "iterations converged": what a returned state satisfies, and termination under contraction -/

theorem zipWith_map_map {α β γ δ : Type} (g : β → γ → δ) (h1 : α → β) (h2 : α → γ) (us : List α) :
    List.zipWith g (us.map h1) (us.map h2) = us.map (fun u => g (h1 u) (h2 u)) := by
  induction us with
  | nil => rfl
  | cons u us ih => simp [ih]

theorem foldl_add_eq_sum (l : List K) (c : K) : l.foldl (· + ·) c = c + l.sum := by
  induction l generalizing c with
  | nil => simp
  | cons x xs ih => simp [ih, add_assoc]

/-- the mean squared difference of two states given cell-wise: `N * msq = Σ (F u - G u)^2` -/
theorem msqDiff_map (F G : K → K) (us : List K) :
    msqDiff (us.map F) (us.map G) = (us.map (fun u => (F u - G u) * (F u - G u))).sum / (us.length : K) := by
  unfold msqDiff
  rw [zipWith_map_map, foldl_add_eq_sum]
  simp [HasNormSq.nsq]

/-- a mean squared difference below `e` bounds every cell: `(F u - G u)^2 ≤ N * e` -/
theorem cell_sq_le_of_msqDiff_lt (F G : K → K) (us : List K) (e : K)
    (h : msqDiff (us.map F) (us.map G) < e) : ∀ u ∈ us, (F u - G u) ^ 2 ≤ (us.length : K) * e := by
  intro u hu
  have hN : (0 : K) < (us.length : K) := by
    have : 0 < us.length := List.length_pos_of_mem hu
    exact_mod_cast this
  rw [msqDiff_map, div_lt_iff₀ hN] at h
  have hmem : (F u - G u) * (F u - G u) ∈ us.map (fun u => (F u - G u) * (F u - G u)) :=
    List.mem_map.mpr ⟨u, hu, rfl⟩
  have hle := List.single_le_sum (l := us.map (fun u => (F u - G u) * (F u - G u)))
    (by intro x hx; obtain ⟨v, _, rfl⟩ := List.mem_map.mp hx; exact mul_self_nonneg _) _ hmem
  calc (F u - G u) ^ 2 = (F u - G u) * (F u - G u) := by ring
    _ ≤ _ := hle
    _ ≤ (us.length : K) * e := by linarith [mul_comm e (us.length : K)]

/-- **implicit Euler, "iterations converged"**: every cell `y` of a returned state satisfies the
implicit equation `(1 - z) y = u` up to the stopping threshold:
`((1 - z) y - u)^2 ≤ z^2 * N * maxerror^2` (`N` cells, `z = a dt`), i.e. for `z ≠ 1` the returned
value is within `|z|/|1-z| * sqrt N * maxerror` of `u/(1-z)`; no contraction hypothesis -/
theorem implicitStep_converged_close (a : K) (maxiter : Nat) (maxerror dt : K) (us : List K) (t : K)
    (ys : List K) (n : Nat) (h : implicitStep (linear a) maxiter maxerror dt us t = some (ys, n)) :
    List.Forall₂ (fun y u => ((1 - a * dt) * y - u) ^ 2 ≤ (a * dt) ^ 2 * ((us.length : K) * (maxerror * maxerror)))
      ys us := by
  obtain ⟨h1, _, hy, hconv, _⟩ := implicitStep_cells (linear a) maxiter maxerror dt us t ys n h
  obtain ⟨k, rfl⟩ : ∃ k, n = k + 1 := ⟨n - 1, by omega⟩
  simp only [Nat.add_sub_cancel] at hconv
  have hc := cell_sq_le_of_msqDiff_lt _ _ us _ hconv
  rw [hy, List.forall₂_map_left_iff]
  refine List.forall₂_same.mpr (fun u hu => ?_)
  rw [implicit_residual]
  have := hc u hu
  calc (-(a * dt) * (implicitCell (linear a) dt t u (k + 1) - implicitCell (linear a) dt t u k)) ^ 2
      = (a * dt) ^ 2 * (implicitCell (linear a) dt t u (k + 1) - implicitCell (linear a) dt t u k) ^ 2 := by ring
    _ ≤ _ := mul_le_mul_of_nonneg_left this (sq_nonneg _)

/-- the same with the distance to the converged value `u / (1 - z)` -/
theorem implicitStep_converged_distance (a : K) (maxiter : Nat) (maxerror dt : K) (us : List K) (t : K)
    (ys : List K) (n : Nat) (hz : 1 - a * dt ≠ 0)
    (h : implicitStep (linear a) maxiter maxerror dt us t = some (ys, n)) :
    List.Forall₂ (fun y u => (y - u / (1 - a * dt)) ^ 2
        ≤ (a * dt / (1 - a * dt)) ^ 2 * ((us.length : K) * (maxerror * maxerror))) ys us := by
  refine (implicitStep_converged_close a maxiter maxerror dt us t ys n h).imp ?_
  intro y u hyu
  have hpos : 0 < (1 - a * dt) ^ 2 := by positivity
  have e1 : (y - u / (1 - a * dt)) ^ 2 = ((1 - a * dt) * y - u) ^ 2 / (1 - a * dt) ^ 2 := by
    field_simp
  have e2 : (a * dt / (1 - a * dt)) ^ 2 * ((us.length : K) * (maxerror * maxerror))
      = (a * dt) ^ 2 * ((us.length : K) * (maxerror * maxerror)) / (1 - a * dt) ^ 2 := by
    field_simp
  rw [e1, e2]
  exact div_le_div_of_nonneg_right hyu hpos.le

/-- **Crank-Nicolson, "iterations converged"**: every cell `y` of a returned state satisfies the
Crank-Nicolson equation `(1 - z/2) y = (1 + z/2) u` up to the stopping threshold, for every explicit
fraction: with `q = α + (1-α) z/2`,
`((1 - q) ((1 - z/2) y - (1 + z/2) u))^2 ≤ (q (1 - z/2))^2 * N * maxerror^2` -/
theorem cnStep_converged_close (α a : K) (maxiter : Nat) (maxerror dt : K) (us : List K) (t : K)
    (ys : List K) (n : Nat) (h : cnStep α (linear a) maxiter maxerror dt us t = some (ys, n)) :
    List.Forall₂ (fun y u =>
        ((1 - (α + (1 - α) * (a * dt / 2))) * ((1 - a * dt / 2) * y - (1 + a * dt / 2) * u)) ^ 2
          ≤ ((α + (1 - α) * (a * dt / 2)) * (1 - a * dt / 2)) ^ 2 * ((us.length : K) * (maxerror * maxerror)))
      ys us := by
  obtain ⟨h1, _, hy, hconv⟩ := cnStep_cells α (linear a) maxiter maxerror dt us t ys n h
  obtain ⟨k, rfl⟩ : ∃ k, n = k + 1 := ⟨n - 1, by omega⟩
  simp only [Nat.add_sub_cancel] at hconv
  have hc := cell_sq_le_of_msqDiff_lt _ _ us _ hconv
  rw [hy, List.forall₂_map_left_iff]
  refine List.forall₂_same.mpr (fun u hu => ?_)
  rw [cn_residual]
  have := hc u hu
  calc (-(α + (1 - α) * (a * dt / 2)) * (1 - a * dt / 2)
          * (cnCell α (linear a) dt t u (k + 1) - cnCell α (linear a) dt t u k)) ^ 2
      = ((α + (1 - α) * (a * dt / 2)) * (1 - a * dt / 2)) ^ 2
          * (cnCell α (linear a) dt t u (k + 1) - cnCell α (linear a) dt t u k) ^ 2 := by ring
    _ ≤ _ := mul_le_mul_of_nonneg_left this (sq_nonneg _)

/-- an iteration count that passes the test within `maxiter` makes the loop return -/
theorem fixpointLoop_some_of_pass (it : List K → List K) (e : K) (m : Nat) (xs : List K) (n : Nat)
    (h : ∃ i < m, msqDiff (it^[i + 1] xs) (it^[i] xs) < e) : (fixpointLoop it e m xs n).isSome = true := by
  cases hr : fixpointLoop it e m xs n with
  | some r => rfl
  | none =>
    obtain ⟨i, hi, hp⟩ := h
    exact absurd hp (fixpointLoop_none it e m xs n hr i hi)

theorem exists_geometric_lt [Archimedean K] (r M e : K) (hr : r < 1) (hM : 0 ≤ M) (he : 0 < e) :
    ∃ i : Nat, r ^ i * M < e := by
  rcases eq_or_lt_of_le hM with h0 | hpos
  · exact ⟨0, by rw [← h0]; simpa using he⟩
  · obtain ⟨n, hn⟩ := exists_pow_lt_of_lt_one (div_pos he hpos) hr
    refine ⟨n, ?_⟩
    calc r ^ n * M < e / M * M := mul_lt_mul_of_pos_right hn hpos
      _ = e := by field_simp

theorem meanSq_nonneg (us : List K) : 0 ≤ (us.map (fun u => u * u)).sum / (us.length : K) := by
  apply div_nonneg
  · apply List.sum_nonneg
    intro x hx; obtain ⟨v, _, rfl⟩ := List.mem_map.mp hx; exact mul_self_nonneg _
  · positivity

/-- **contraction implies termination (implicit Euler)**: for `|z| < 1` and a positive threshold there
is an iteration bound `N₀` such that every `maxiter ≥ N₀` makes the step return a state (no
`ConvergenceError`), whatever the state -/
theorem implicitStep_terminates [Archimedean K] (a maxerror dt : K) (us : List K) (t : K)
    (hz : |a * dt| < 1) (he : 0 < maxerror) :
    ∃ N0 : Nat, ∀ maxiter, N0 ≤ maxiter →
      (implicitStep (linear a) maxiter maxerror dt us t).isSome = true := by
  set S : K := (us.map (fun u => u * u)).sum / (us.length : K) with hS
  have hS0 : 0 ≤ S := meanSq_nonneg us
  have hz2 : (a * dt) ^ 2 < 1 := by
    have := abs_nonneg (a * dt)
    rw [← sq_abs]; nlinarith
  -- the mean squared change of iteration i is z^(2(i+2)) * S
  have hmsq : ∀ i : Nat, msqDiff (us.map (fun u => implicitCell (linear a) dt t u (i + 1)))
      (us.map (fun u => implicitCell (linear a) dt t u i)) = ((a * dt) ^ 2) ^ i * (((a * dt) ^ 2) ^ 2 * S) := by
    intro i
    rw [msqDiff_map, hS, ← mul_div_assoc, ← mul_div_assoc, ← List.sum_map_mul_left, ← List.sum_map_mul_left]
    congr 2
    apply List.map_congr_left
    intro u _
    rw [implicit_increment]; ring
  obtain ⟨i, hi⟩ := exists_geometric_lt ((a * dt) ^ 2) (((a * dt) ^ 2) ^ 2 * S) (maxerror * maxerror)
    hz2 (mul_nonneg (sq_nonneg _) hS0) (mul_pos he he)
  refine ⟨i + 1, fun maxiter hm => ?_⟩
  unfold implicitStep
  apply fixpointLoop_some_of_pass
  refine ⟨i, by omega, ?_⟩
  rw [implicit_iterate_cells, implicit_iterate_cells, hmsq]
  exact hi

/-- **contraction implies termination (Crank-Nicolson)**: for `|q| < 1`, `q = α + (1-α) z/2` -/
theorem cnStep_terminates [Archimedean K] (α a maxerror dt : K) (us : List K) (t : K)
    (hq : |α + (1 - α) * (a * dt / 2)| < 1) (he : 0 < maxerror) :
    ∃ N0 : Nat, ∀ maxiter, N0 ≤ maxiter →
      (cnStep α (linear a) maxiter maxerror dt us t).isSome = true := by
  obtain ⟨q, hqd⟩ : ∃ q : K, q = α + (1 - α) * (a * dt / 2) := ⟨_, rfl⟩
  obtain ⟨c0, hc0⟩ : ∃ c0 : K, c0 = (q - 1) * (α + (1 - α) * (1 + a * dt)) + (1 - α) * (1 + a * dt / 2) :=
    ⟨_, rfl⟩
  rw [← hqd] at hq
  set S : K := (us.map (fun u => u * u)).sum / (us.length : K) with hS
  have hS0 : 0 ≤ S := meanSq_nonneg us
  have hq2 : q ^ 2 < 1 := by
    have := abs_nonneg q
    rw [← sq_abs]; nlinarith
  have hmsq : ∀ i : Nat, msqDiff (us.map (fun u => cnCell α (linear a) dt t u (i + 1)))
      (us.map (fun u => cnCell α (linear a) dt t u i)) = (q ^ 2) ^ i * (c0 ^ 2 * S) := by
    intro i
    rw [msqDiff_map, hS, ← mul_div_assoc, ← mul_div_assoc, ← List.sum_map_mul_left, ← List.sum_map_mul_left]
    congr 2
    apply List.map_congr_left
    intro u _
    rw [cn_increment_geometric, ← hqd, hc0]; ring
  obtain ⟨i, hi⟩ := exists_geometric_lt (q ^ 2) (c0 ^ 2 * S) (maxerror * maxerror)
    hq2 (mul_nonneg (sq_nonneg _) hS0) (mul_pos he he)
  refine ⟨i + 1, fun maxiter hm => ?_⟩
  unfold cnStep
  apply fixpointLoop_some_of_pass
  refine ⟨i, by omega, ?_⟩
  rw [cn_iterate_cells, cn_iterate_cells, hmsq]
  exact hi


/-! ### the fixed-step loop -/

/-- `steps = max(1, round((t_end - t_start)/dt))` -/
theorem stepCount_eq (dt ts te : K) :
    (stepCount dt ts te : Int) = max 1 (roundHE ((te - ts) / dt)) := by
  unfold stepCount
  simp only
  split_ifs with h
  · rw [Int.toNat_of_nonneg (by omega)]; omega
  · simp; omega

theorem roundHE_intCast (n : Int) : roundHE ((n : K)) = n := by
  unfold roundHE
  simp only [floor_def, Int.floor_intCast, sub_self]
  have : (0 : K) < ((1 : Nat) : K) / ((2 : Nat) : K) := by push_cast; norm_num
  rw [if_pos this]

/-- **step count**: at least one step; exactly `n` steps when the interval is `n` time steps long;
in general the number of steps is within 1/2 of `(t_end - t_start)/dt` whenever that is at least 1/2 -/
theorem fixedStepper_steps (dt ts te : K) (hdt : 0 < dt) :
    1 ≤ stepCount dt ts te
    ∧ (∀ n : Nat, 1 ≤ n → te - ts = (n : K) * dt → stepCount dt ts te = n)
    ∧ (1 / 2 ≤ (te - ts) / dt → |(te - ts) / dt - (stepCount dt ts te : K)| ≤ 1 / 2) := by
  have hcount := stepCount_eq dt ts te
  refine ⟨?_, ?_, ?_⟩
  · have : (1 : Int) ≤ (stepCount dt ts te : Int) := by rw [hcount]; exact le_max_left _ _
    exact_mod_cast this
  · intro n hn hlen
    have : (te - ts) / dt = ((n : Int) : K) := by
      rw [hlen]; field_simp; push_cast; ring
    rw [this, roundHE_intCast] at hcount
    have : (stepCount dt ts te : Int) = n := by rw [hcount]; omega
    exact_mod_cast this
  · intro hge
    have hclose := roundHE_close ((te - ts) / dt)
    have hr : 1 ≤ roundHE ((te - ts) / dt) ∨ roundHE ((te - ts) / dt) ≤ 0 := by omega
    rcases hr with hr | hr
    · have : (stepCount dt ts te : Int) = roundHE ((te - ts) / dt) := by rw [hcount]; omega
      have e : (stepCount dt ts te : K) = ((roundHE ((te - ts) / dt) : Int) : K) := by
        rw [← this]; push_cast; rfl
      rw [e]; exact hclose
    · -- round gave 0 although the ratio is at least 1/2: then the ratio is exactly 1/2
      have hle : ((roundHE ((te - ts) / dt) : Int) : K) ≤ 0 := by exact_mod_cast hr
      have habs := abs_le.mp hclose
      have : (stepCount dt ts te : Int) = 1 := by rw [hcount]; omega
      have e : (stepCount dt ts te : K) = 1 := by exact_mod_cast this
      rw [e, abs_le]
      constructor <;> linarith [habs.1, habs.2]

/-- the steps of the fixed-step loop, composed from the last one backwards:
step `k` (counting from 0) starts at time `t_start + (i0 + k) * dt` -/
def iterSteps {σ : Type} (step : σ → K → Option σ) (dt ts : K) (i0 : Nat) : Nat → σ → Option σ
  | 0, s => some s
  | n + 1, s => (iterSteps step dt ts i0 n s).bind (fun s' => step s' (ts + ((i0 + n : Nat) : K) * dt))

theorem iterSteps_front {σ : Type} (step : σ → K → Option σ) (dt ts : K) :
    ∀ (n i0 : Nat) (s : σ), iterSteps step dt ts i0 (n + 1) s
      = (step s (ts + ((i0 : Nat) : K) * dt)).bind (iterSteps step dt ts (i0 + 1) n) := by
  intro n
  induction n with
  | zero => intro i0 s; simp [iterSteps]
  | succ n ih =>
    intro i0 s
    rw [iterSteps, ih]
    cases h : step s (ts + ((i0 : Nat) : K) * dt) with
    | none => simp
    | some s1 =>
      simp only [Option.bind_some]
      rw [iterSteps]
      have : i0 + 1 + n = i0 + (n + 1) := by omega
      rw [this]

theorem fixedLoop_eq_iterSteps {σ : Type} (step : σ → K → Option σ) (dt ts : K) :
    ∀ (n i : Nat) (s : σ), fixedLoop step dt ts n i s = iterSteps step dt ts i n s := by
  intro n
  induction n with
  | zero => intro i s; rfl
  | succ n ih =>
    intro i s
    rw [iterSteps_front, fixedLoop]
    cases step s (ts + ((i : Nat) : K) * dt) with
    | none => rfl
    | some s1 => simp [ih]

/-- **the loop is the iterate of the one-step map on the time lattice**: the result of
`fixed_stepper` is the composition of `stepCount` single steps, the `i`-th of them started at
`t_start + i*dt`, and the returned time is `t_start + steps*dt`.
(No hypothesis `0 < dt`: the statement is about the model's total functions; at `dt = 0` the model
divides `x/0 = 0` and takes one step of length 0, whereas the code raises `ZeroDivisionError` -
that input belongs to the malformed stream of the harness, the theorem says nothing about the
code there.) -/
theorem fixedStepper_is_iterate {σ : Type} (step : σ → K → Option σ) (dt ts te : K) (s : σ) :
    fixedStepper step dt ts te s
      = (iterSteps step dt ts 0 (stepCount dt ts te) s).map
          (fun s' => (s', ts + (stepCount dt ts te : K) * dt)) := by
  unfold fixedStepper
  simp only
  rw [fixedLoop_eq_iterSteps]
  have h1 : 1 ≤ stepCount dt ts te := by
    have := stepCount_eq dt ts te
    have h2 : (1 : Int) ≤ (stepCount dt ts te : Int) := by rw [this]; exact le_max_left _ _
    exact_mod_cast h2
  have ht : ts + (((stepCount dt ts te - 1 : Nat) : Nat) : K) * dt + dt = ts + (stepCount dt ts te : K) * dt := by
    have : ((stepCount dt ts te - 1 : Nat) : K) = (stepCount dt ts te : K) - 1 := by
      rw [Nat.cast_sub h1]; simp
    rw [this]; ring
  cases iterSteps step dt ts 0 (stepCount dt ts te) s with
  | none => rfl
  | some s' => simp [ht]

/-- for steps that cannot fail the loop is a plain iterate: one more step = one more application -/
theorem iterSteps_total {σ : Type} (g : σ → K → σ) (dt ts : K) (n : Nat) (s : σ) :
    ∃ r, iterSteps (fun x t => some (g x t)) dt ts 0 n s = some r
      ∧ iterSteps (fun x t => some (g x t)) dt ts 0 (n + 1) s = some (g r (ts + (n : K) * dt)) := by
  induction n with
  | zero => exact ⟨s, rfl, by simp [iterSteps]⟩
  | succ n ih =>
    obtain ⟨r, h1, h2⟩ := ih
    refine ⟨g r (ts + (n : K) * dt), h2, ?_⟩
    rw [iterSteps, h2]
    simp

/-- Euler over a whole call on `u' = a u`: `n` steps multiply by `(1+z)^n` -/
theorem euler_loop_amp (a dt ts u : K) (n : Nat) :
    iterSteps (fun x t => some (eulerStep (linear a) dt x t)) dt ts 0 n u = some ((1 + a * dt) ^ n * u) := by
  induction n with
  | zero => simp [iterSteps]
  | succ n ih => rw [iterSteps, ih]; simp only [Option.bind_some, euler_amp]; congr 1; rw [pow_succ]; ring

/-- Runge-Kutta over a whole call on `u' = a u` -/
theorem rk4_loop_amp (a dt ts u : K) (n : Nat) :
    iterSteps (fun x t => some (rk4Step rk4Tab (linear a) dt x t)) dt ts 0 n u
      = some ((1 + a * dt + (a * dt) ^ 2 / 2 + (a * dt) ^ 3 / 6 + (a * dt) ^ 4 / 24) ^ n * u) := by
  induction n with
  | zero => simp [iterSteps]
  | succ n ih => rw [iterSteps, ih]; simp only [Option.bind_some, rk4_amp]; congr 1; rw [pow_succ]; ring

/-! ### adaptive stepping -/

theorem pmax_eq_max (a b : K) : pmax a b = max a b := by
  unfold pmax; split_ifs with h
  · exact (max_eq_right h.le).symm
  · exact (max_eq_left (not_lt.mp h)).symm

theorem pmin_eq_min (a b : K) : pmin a b = min a b := by
  unfold pmin; split_ifs with h
  · exact (min_eq_right h.le).symm
  · exact (min_eq_left (not_lt.mp h)).symm

theorem absK_eq_abs (x : K) : absK x = |x| := by
  unfold absK; push_cast
  split_ifs with h
  · exact (abs_of_neg h).symm
  · exact (abs_of_nonneg (not_lt.mp h)).symm

/-- `dt_step = max(min(dt_opt, t_end - t), dt_min)` -/
theorem dtStep_eq (C : Ctl K) (dtOpt tEnd t : K) :
    dtStep C dtOpt tEnd t = max (min dtOpt (tEnd - t)) C.dtMin := by
  unfold dtStep; rw [pmax_eq_max, pmin_eq_min]

/-- the step never falls below `dt_min`; it does not pass `t_end` when at least `dt_min` remains -/
theorem dtStep_bounds (C : Ctl K) (dtOpt tEnd t : K) :
    C.dtMin ≤ dtStep C dtOpt tEnd t
    ∧ dtStep C dtOpt tEnd t ≤ max (tEnd - t) C.dtMin
    ∧ (C.dtMin ≤ tEnd - t → dtStep C dtOpt tEnd t ≤ tEnd - t)
    ∧ (C.dtMin ≤ tEnd - t → tEnd - t ≤ dtOpt → dtStep C dtOpt tEnd t = tEnd - t) := by
  rw [dtStep_eq]
  refine ⟨le_max_right _ _, max_le_max (min_le_right _ _) le_rfl, ?_, ?_⟩
  · intro h; exact max_le (min_le_right _ _) h
  · intro h h2; rw [min_eq_right h2, max_eq_left h]

/-- `adjust_dt` keeps the time step inside `[dt_min, dt_max]` for every error value and every
`pow`/`isnan` -/
theorem adjustDt_range (C : Ctl K) (hC : C.dtMin ≤ C.dtMax) (dt e d : K) (h : adjustDt C dt e = .ok d) :
    C.dtMin ≤ d ∧ d ≤ C.dtMax := by
  unfold adjustDt at h
  simp only at h
  generalize (if e < C.small then dt * C.up else if C.isNan e = true then dt * C.nan
    else dt * pmax (C.safety * C.pow e C.expo) C.down) = dt1 at h
  split_ifs at h with h1 h2 <;> simp only [Except.ok.injEq, reduceCtorEq] at h
  · subst h; exact ⟨hC, le_rfl⟩
  · subst h; exact ⟨not_lt.mp h2, not_lt.mp h1⟩

/-- in exact arithmetic landing on `t_end` after a clipped step is the same as adding the step -/
theorem landT_eq (tEnd t h : K) : landT tEnd t h = t + h := by
  unfold landT
  split_ifs with h1 h2
  · rfl
  · rfl
  · have : h = tEnd - t := le_antisymm (not_lt.mp h2) (not_lt.mp h1)
    rw [this]; ring

/-- what is known about the last iteration of a finished adaptive call -/
structure LastStep (C : Ctl K) (tEnd : K) (r : AState K) : Prop where
  ex : ∃ rec : Rec K, r.trace.head? = some rec ∧ rec.accepted = true ∧ r.t = rec.t + rec.dt
        ∧ rec.dt = dtStep C r.dtOpt tEnd rec.t ∧ rec.t < tEnd ∧ tEnd ≤ r.t

theorem adaptiveLoop_last (C : Ctl K) (est : List K → K → K → List K × K) (tEnd : K) :
    ∀ (fuel : Nat) (s r : AState K), s.t < tEnd → adaptiveLoop C est tEnd fuel s = .done r →
      LastStep C tEnd r := by
  intro fuel
  induction fuel with
  | zero => intro s r _ h; simp [adaptiveLoop] at h
  | succ n ih =>
    intro s r hs h
    unfold adaptiveLoop at h
    simp only [landT_eq] at h
    by_cases hacc : (est s.us s.t (dtStep C s.dtOpt tEnd s.t)).2 / C.tol ≤ ((1 : Nat) : K)
    · simp only [hacc, decide_true, ↓reduceIte] at h
      split_ifs at h with hcont
      · split at h
        · exact ih _ _ hcont h
        · simp at h
      · simp only [AOut.done.injEq] at h
        subst h
        exact ⟨⟨_, rfl, rfl, rfl, rfl, hs, not_lt.mp hcont⟩⟩
    · simp only [hacc, decide_false, Bool.false_eq_true, ↓reduceIte, hs] at h
      split at h
      · exact ih _ _ (by exact hs) h
      · simp at h

theorem eulerAdaptiveLoop_last (C : Ctl K) (f : Rate K) (tEnd : K) :
    ∀ (fuel : Nat) (e : EState K) (r : AState K), e.s.t < tEnd →
      eulerAdaptiveLoop C f tEnd fuel e = .done r → LastStep C tEnd r := by
  intro fuel
  induction fuel with
  | zero => intro e r _ h; simp [eulerAdaptiveLoop] at h
  | succ n ih =>
    intro e r hs h
    unfold eulerAdaptiveLoop at h
    simp only [landT_eq] at h
    generalize hE : maxAbs (List.zipWith (· - ·)
        (List.zipWith (fun u r => u + dtStep C e.s.dtOpt tEnd e.s.t * r) e.s.us e.rate)
        (List.map (fun x => x + ((1 : Nat) : K) / ((2 : Nat) : K) * dtStep C e.s.dtOpt tEnd e.s.t
            * f x (e.s.t + ((1 : Nat) : K) / ((2 : Nat) : K) * dtStep C e.s.dtOpt tEnd e.s.t))
          (List.zipWith (fun u r => u + ((1 : Nat) : K) / ((2 : Nat) : K) * dtStep C e.s.dtOpt tEnd e.s.t * r)
            e.s.us e.rate))) / C.tol = errRel at h
    by_cases hacc : errRel ≤ ((1 : Nat) : K)
    · simp only [hacc, decide_true, ↓reduceIte] at h
      split_ifs at h with hcont
      · split at h
        · exact ih _ _ hcont h
        · simp at h
      · simp only [AOut.done.injEq] at h
        subst h
        exact ⟨⟨_, rfl, rfl, rfl, rfl, hs, not_lt.mp hcont⟩⟩
    · simp only [hacc, decide_false, Bool.false_eq_true, ↓reduceIte, hs] at h
      split at h
      · exact ih _ _ (by exact hs) h
      · simp at h

/-- **adaptive stepping never returns before the requested time** (both loops, any estimator,
any controller constants) -/
theorem adaptive_ends_at_or_after_tend (C : Ctl K) (est : List K → K → K → List K × K) (f : Rate K)
    (fuel : Nat) (us : List K) (tStart tEnd dt0 : K) (r : AState K) (hstart : tStart < tEnd) :
    (adaptiveStepper C est fuel us tStart tEnd dt0 = .done r → tEnd ≤ r.t)
    ∧ (eulerAdaptiveStepper C f fuel us tStart tEnd dt0 = .done r → tEnd ≤ r.t) := by
  constructor
  · intro h
    obtain ⟨_, _, _, _, _, _, h6⟩ := (adaptiveLoop_last C est tEnd fuel _ r hstart h).ex
    exact h6
  · intro h
    obtain ⟨_, _, _, _, _, _, h6⟩ := (eulerAdaptiveLoop_last C f tEnd fuel _ r hstart h).ex
    exact h6

theorem lastStep_overshoot (C : Ctl K) (tEnd : K) (r : AState K) (hmin : 0 < C.dtMin)
    (h : LastStep C tEnd r) : r.t < tEnd + C.dtMin := by
  obtain ⟨rec, _, _, ht, hdt, hlt, _⟩ := h.ex
  have hb := (dtStep_bounds C r.dtOpt tEnd rec.t).2.1
  rw [ht, hdt]
  rcases le_total (tEnd - rec.t) C.dtMin with hc | hc
  · rw [max_eq_right hc] at hb; linarith
  · rw [max_eq_left hc] at hb; linarith

/-- **the overshoot beyond the requested time is smaller than `dt_min`** -/
theorem adaptive_overshoot_lt_dtmin (C : Ctl K) (est : List K → K → K → List K × K) (f : Rate K)
    (fuel : Nat) (us : List K) (tStart tEnd dt0 : K) (r : AState K) (hstart : tStart < tEnd)
    (hmin : 0 < C.dtMin) :
    (adaptiveStepper C est fuel us tStart tEnd dt0 = .done r → r.t < tEnd + C.dtMin)
    ∧ (eulerAdaptiveStepper C f fuel us tStart tEnd dt0 = .done r → r.t < tEnd + C.dtMin) :=
  ⟨fun h => lastStep_overshoot C tEnd r hmin (adaptiveLoop_last C est tEnd fuel _ r hstart h),
   fun h => lastStep_overshoot C tEnd r hmin (eulerAdaptiveLoop_last C f tEnd fuel _ r hstart h)⟩

theorem lastStep_exact (C : Ctl K) (tEnd : K) (r : AState K) (h : LastStep C tEnd r) :
    ∃ rec : Rec K, r.trace.head? = some rec ∧ rec.accepted = true ∧ rec.t < tEnd
      ∧ (C.dtMin ≤ tEnd - rec.t → r.t = tEnd) := by
  obtain ⟨rec, h1, h2, ht, hdt, hlt, hge⟩ := h.ex
  refine ⟨rec, h1, h2, hlt, ?_⟩
  intro hrem
  have hb := (dtStep_bounds C r.dtOpt tEnd rec.t).2.2.1 hrem
  rw [← hdt] at hb
  linarith

/-- **adaptive stepping ends exactly at the requested time** whenever the interval that remained
before the last accepted step was at least `dt_min` (the code never steps by less than
`dt_min`, so a shorter remainder is overshot by less than `dt_min`).
PARTIAL with respect to the property clause "ends exactly at the requested time"
(full statement: `adaptiveStepper .. = .done r → r.t = tEnd`, which is false of the model as of
the code when less than `dt_min` remains, see `adaptive_end_exact_or_floor`); it speaks about
finished calls only: there is no theorem that a call finishes (`.done`) - the loop may reject
for ever or raise `dt below dt_min`, both depend on the `pow` oracle and the rate -/
theorem adaptive_exact_end_partial (C : Ctl K) (est : List K → K → K → List K × K) (f : Rate K)
    (fuel : Nat) (us : List K) (tStart tEnd dt0 : K) (r : AState K) (hstart : tStart < tEnd) :
    (adaptiveStepper C est fuel us tStart tEnd dt0 = .done r →
      ∃ rec : Rec K, r.trace.head? = some rec ∧ rec.accepted = true ∧ rec.t < tEnd
        ∧ (C.dtMin ≤ tEnd - rec.t → r.t = tEnd))
    ∧ (eulerAdaptiveStepper C f fuel us tStart tEnd dt0 = .done r →
      ∃ rec : Rec K, r.trace.head? = some rec ∧ rec.accepted = true ∧ rec.t < tEnd
        ∧ (C.dtMin ≤ tEnd - rec.t → r.t = tEnd)) :=
  ⟨fun h => lastStep_exact C tEnd r (adaptiveLoop_last C est tEnd fuel _ r hstart h),
   fun h => lastStep_exact C tEnd r (eulerAdaptiveLoop_last C f tEnd fuel _ r hstart h)⟩

/-- **where a finished adaptive call ends, completely**: exactly at the requested time, or - only
if less than `dt_min` remained before the last accepted step, which then has the size `dt_min` -
beyond it by less than `dt_min`.  (In exact arithmetic the second case needs an unclipped step
that lands within `dt_min` before `t_end`; in IEEE arithmetic also `t + (t_end - t)` rounded to the
float below `t_end`, after which one more step of `dt_min` follows: this is what the monitor reports
as "final time beyond t_end by one extra step of dt_min".) -/
theorem adaptive_end_exact_or_floor (C : Ctl K) (est : List K → K → K → List K × K) (f : Rate K)
    (fuel : Nat) (us : List K) (tStart tEnd dt0 : K) (r : AState K) (hstart : tStart < tEnd)
    (hmin : 0 < C.dtMin)
    (h : adaptiveStepper C est fuel us tStart tEnd dt0 = .done r
      ∨ eulerAdaptiveStepper C f fuel us tStart tEnd dt0 = .done r) :
    r.t = tEnd ∨ (tEnd < r.t ∧ r.t < tEnd + C.dtMin
      ∧ ∃ rec : Rec K, r.trace.head? = some rec ∧ rec.accepted = true ∧ rec.dt = C.dtMin
          ∧ r.t = rec.t + C.dtMin ∧ tEnd - rec.t < C.dtMin) := by
  have hl : LastStep C tEnd r := by
    rcases h with h | h
    · exact adaptiveLoop_last C est tEnd fuel _ r hstart h
    · exact eulerAdaptiveLoop_last C f tEnd fuel _ r hstart h
  obtain ⟨rec, h1, h2, ht, hdt, hlt, hge⟩ := hl.ex
  rcases le_or_gt C.dtMin (tEnd - rec.t) with hrem | hrem
  · left
    have hb := (dtStep_bounds C r.dtOpt tEnd rec.t).2.2.1 hrem
    rw [← hdt] at hb
    linarith
  · right
    have hd : rec.dt = C.dtMin := by
      rw [hdt, dtStep_eq]
      apply max_eq_right
      exact le_trans (min_le_right _ _) hrem.le
    refine ⟨by rw [ht, hd]; linarith, lastStep_overshoot C tEnd r hmin hl, rec, h1, h2, hd, by rw [ht, hd], hrem⟩

/-- a call that fits into one step of the carried-over size is a single step of exactly the
requested length -/
theorem adaptive_single_step (C : Ctl K) (tStart tEnd dt0 : K)
    (h1 : C.dtMin ≤ tEnd - tStart) (h2 : tEnd - tStart ≤ dt0) :
    dtStep C dt0 tEnd tStart = tEnd - tStart :=
  (dtStep_bounds C dt0 tEnd tStart).2.2.2 h1 h2

/-! ### accumulation of local errors -/

/-- **global error ≤ number of steps × tolerance**: if the exact flow over each accepted step is
a non-expansive linear map `E i` (dissipative problem: `|exp(a h)| ≤ 1`), and every accepted
step differs from the exact flow applied to the *numerical* state by at most `tol` (the local
error), then after `n` steps the numerical state `u n` is within `n * tol` of the exact
solution `y n` (plus the initial difference).  No assumption on the numerical step itself. -/
theorem global_error_le_sum_local (u y E : Nat → K) (tol : K) (n : Nat)
    (hy : ∀ i < n, y (i + 1) = E i * y i)
    (hE : ∀ i < n, |E i| ≤ 1)
    (hloc : ∀ i < n, |u (i + 1) - E i * u i| ≤ tol) :
    |u n - y n| ≤ |u 0 - y 0| + (n : K) * tol := by
  induction n with
  | zero => simp
  | succ n ih =>
    have ih' := ih (fun i hi => hy i (by omega)) (fun i hi => hE i (by omega))
      (fun i hi => hloc i (by omega))
    have e : u (n + 1) - y (n + 1) = (u (n + 1) - E n * u n) + E n * (u n - y n) := by
      rw [hy n (by omega)]; ring
    have h1 := hloc n (by omega)
    have h2 : |E n * (u n - y n)| ≤ |u n - y n| := by
      rw [abs_mul]
      calc |E n| * |u n - y n| ≤ 1 * |u n - y n| :=
            mul_le_mul_of_nonneg_right (hE n (by omega)) (abs_nonneg _)
        _ = |u n - y n| := one_mul _
    rw [e]
    calc |u (n + 1) - E n * u n + E n * (u n - y n)|
        ≤ |u (n + 1) - E n * u n| + |E n * (u n - y n)| := abs_add_le _ _
      _ ≤ tol + (|u 0 - y 0| + (n : K) * tol) := by linarith
      _ = |u 0 - y 0| + ((n + 1 : Nat) : K) * tol := by push_cast; ring

/-- `maxAbs` dominates every entry -/
theorem foldl_pmax_ge (xs : List K) (m : K) :
    m ≤ xs.foldl (fun m x => pmax m (absK x)) m
    ∧ ∀ x ∈ xs, |x| ≤ xs.foldl (fun m x => pmax m (absK x)) m := by
  induction xs generalizing m with
  | nil => simp
  | cons y ys ih =>
    simp only [List.foldl_cons, List.mem_cons]
    obtain ⟨h1, h2⟩ := ih (pmax m (absK y))
    rw [pmax_eq_max, absK_eq_abs] at h1 h2 ⊢
    refine ⟨le_trans (le_max_left _ _) h1, ?_⟩
    rintro x (rfl | hx)
    · exact le_trans (le_max_right _ _) h1
    · exact h2 x hx

theorem le_maxAbs (xs : List K) (x : K) (hx : x ∈ xs) : |x| ≤ maxAbs xs :=
  (foldl_pmax_ge xs _).2 x hx

/-- an accepted step (`error / tol ≤ 1`, `tol > 0`) has every cell of the error estimate below
the tolerance -/
theorem accepted_cells_le_tol (xs : List K) (tol : K) (htol : 0 < tol)
    (hacc : maxAbs xs / tol ≤ ((1 : Nat) : K)) : ∀ x ∈ xs, |x| ≤ tol := by
  intro x hx
  have h1 := le_maxAbs xs x hx
  have h2 : maxAbs xs ≤ tol := by
    have := (div_le_iff₀ htol).mp hacc
    push_cast at this; linarith
  exact le_trans h1 h2

/-- step doubling with Euler steps on `u' = a u`: returned value and error estimate of one cell -/
theorem euler_doubling (a u t h : K) :
    eulerVar (linear a) (eulerVar (linear a) u t (1 / 2 * h)) (t + 1 / 2 * h) (1 / 2 * h)
        = (1 + a * h / 2) ^ 2 * u
    ∧ eulerVar (linear a) u t h - (1 + a * h / 2) ^ 2 * u = -((a * h) ^ 2 / 4) * u := by
  simp only [eulerVar, linear]; constructor <;> ring

end ordered

/-! ### the local error of adaptive Euler is bounded by its estimate (real numbers) -/

section real
open Real

theorem exp_le_quadratic_of_nonpos {z : ℝ} (hz : z ≤ 0) : exp z ≤ 1 + z + z ^ 2 / 2 := by
  have hx : 0 ≤ -z := by linarith
  have h := quadratic_le_exp_of_nonneg hx
  have hpos : 0 < 1 + (-z) + (-z) ^ 2 / 2 := by positivity
  have e : exp z = (exp (-z))⁻¹ := by rw [exp_neg, inv_inv]
  rw [e]
  have h1 : (exp (-z))⁻¹ ≤ (1 + (-z) + (-z) ^ 2 / 2)⁻¹ := inv_anti₀ hpos h
  have h2 : (1 + (-z) + (-z) ^ 2 / 2)⁻¹ ≤ 1 + z + z ^ 2 / 2 := by
    rw [inv_le_iff_one_le_mul₀ hpos]
    nlinarith [sq_nonneg (z ^ 2), sq_nonneg z]
  linarith

/-- **adaptive Euler, `a ≤ 0`** (`z = a*dt ≤ 0`): the distance of the returned value (two half
steps, amplification `(1+z/2)^2`) from the exact solution `exp z` is at most the error estimate
`|(1+z) - (1+z/2)^2| = z^2/4` -/
theorem euler_local_error_le_estimate {z : ℝ} (hz : z ≤ 0) :
    |exp z - (1 + z / 2) ^ 2| ≤ |(1 + z) - (1 + z / 2) ^ 2| := by
  have h1 := add_one_le_exp z
  have h2 := exp_le_quadratic_of_nonpos hz
  have e : (1 + z) - (1 + z / 2) ^ 2 = -(z ^ 2 / 4) := by ring
  rw [e, abs_neg, abs_of_nonneg (by positivity : (0 : ℝ) ≤ z ^ 2 / 4), abs_le]
  constructor <;> nlinarith

/-- the same for a state value `u`: the local error of an accepted adaptive Euler step on
`u' = a u`, `a ≤ 0`, is at most the quantity the code compares with the tolerance -/
theorem euler_doubling_local_error (a h u : ℝ) (ha : a ≤ 0) (hh : 0 ≤ h) :
    |(1 + a * h / 2) ^ 2 * u - exp (a * h) * u| ≤ |(1 + a * h) * u - (1 + a * h / 2) ^ 2 * u| := by
  have hz : a * h ≤ 0 := mul_nonpos_of_nonpos_of_nonneg ha hh
  have := euler_local_error_le_estimate hz
  have e1 : (1 + a * h / 2) ^ 2 * u - exp (a * h) * u = -((exp (a * h) - (1 + a * h / 2) ^ 2) * u) := by ring
  have e2 : (1 + a * h) * u - (1 + a * h / 2) ^ 2 * u = ((1 + a * h) - (1 + a * h / 2) ^ 2) * u := by ring
  rw [e1, e2, abs_neg, abs_mul, abs_mul]
  exact mul_le_mul_of_nonneg_right this (abs_nonneg _)

/-- the exact flow of a dissipative linear problem is non-expansive -/
theorem exp_flow_nonexpansive (a h : ℝ) (ha : a ≤ 0) (hh : 0 ≤ h) : |exp (a * h)| ≤ 1 := by
  rw [abs_of_pos (exp_pos _)]
  exact exp_le_one_iff.mpr (mul_nonpos_of_nonpos_of_nonneg ha hh)

/-- **adaptive Euler on `u' = a u`, `a ≤ 0`: global error ≤ accepted steps × tolerance.**
`h i > 0` are the accepted step sizes, `u (i+1) = (1 + a h_i/2)^2 u i` the accepted values,
the acceptance test `|(1 + a h_i) u_i - (1 + a h_i/2)^2 u_i| ≤ tol` held for each of them; then
the final value is within `n * tol` of `exp (a * (h_0 + .. + h_{n-1})) * u 0`. -/
theorem adaptive_euler_global_error (a tol : ℝ) (ha : a ≤ 0) (h u : Nat → ℝ) (n : Nat)
    (hh : ∀ i < n, 0 ≤ h i)
    (hstep : ∀ i < n, u (i + 1) = (1 + a * h i / 2) ^ 2 * u i)
    (hacc : ∀ i < n, |(1 + a * h i) * u i - (1 + a * h i / 2) ^ 2 * u i| ≤ tol) :
    |u n - exp (a * (Finset.range n).sum h) * u 0| ≤ (n : ℝ) * tol := by
  have key := global_error_le_sum_local u
    (fun i => exp (a * (Finset.range i).sum h) * u 0) (fun i => exp (a * h i)) tol n
    (by
      intro i _
      rw [Finset.sum_range_succ, mul_add, exp_add]; ring)
    (fun i hi => exp_flow_nonexpansive a (h i) ha (hh i hi))
    (by
      intro i hi
      rw [hstep i hi]
      exact le_trans (euler_doubling_local_error a (h i) (u i) ha (hh i hi)) (hacc i hi))
  simpa using key

end real

/-! ### adaptive Euler on `u' = a u`, `a ≤ 0`: the whole loop of the model (real numbers) -/

section eulerGlobal
open Real

theorem forall₂_and_mem {α β : Type} (P : α → β → Prop) (Q : α → Prop) :
    ∀ (xs : List α) (ys : List β), List.Forall₂ P xs ys → (∀ x ∈ xs, Q x) →
      List.Forall₂ (fun x y => P x y ∧ Q x) xs ys := by
  intro xs ys h
  induction h with
  | nil => intro _; exact List.Forall₂.nil
  | cons hxy _ ih =>
    intro hq
    exact List.Forall₂.cons ⟨hxy, hq _ (List.mem_cons_self)⟩
      (ih (fun x hx => hq x (List.mem_cons_of_mem _ hx)))

/-- invariant of the adaptive Euler loop on `u' = a u`: the carried rate is the rate of the
current state and every cell is within `steps * tol` of the exact solution -/
def EulerInv (a tol t0 : ℝ) (u0s : List ℝ) (e : EState ℝ) : Prop :=
  e.rate = e.s.us.map (fun u => a * u)
  ∧ List.Forall₂ (fun u u0 => |u - exp (a * (e.s.t - t0)) * u0| ≤ (e.s.steps : ℝ) * tol) e.s.us u0s

theorem euler_cell_step (a h t t0 tol u u0 : ℝ) (n : Nat) (ha : a ≤ 0) (hh : 0 ≤ h)
    (hinv : |u - exp (a * (t - t0)) * u0| ≤ (n : ℝ) * tol)
    (hacc : |(1 + a * h) * u - (1 + a * h / 2) ^ 2 * u| ≤ tol) :
    |(1 + a * h / 2) ^ 2 * u - exp (a * (t + h - t0)) * u0| ≤ ((n + 1 : Nat) : ℝ) * tol := by
  have hloc := le_trans (euler_doubling_local_error a h u ha hh) hacc
  have hE := exp_flow_nonexpansive a h ha hh
  have e : (1 + a * h / 2) ^ 2 * u - exp (a * (t + h - t0)) * u0
      = ((1 + a * h / 2) ^ 2 * u - exp (a * h) * u) + exp (a * h) * (u - exp (a * (t - t0)) * u0) := by
    have : a * (t + h - t0) = a * h + a * (t - t0) := by ring
    rw [this, exp_add]; ring
  have h2 : |exp (a * h) * (u - exp (a * (t - t0)) * u0)| ≤ (n : ℝ) * tol := by
    rw [abs_mul]
    calc |exp (a * h)| * |u - exp (a * (t - t0)) * u0| ≤ 1 * |u - exp (a * (t - t0)) * u0| :=
          mul_le_mul_of_nonneg_right hE (abs_nonneg _)
      _ ≤ (n : ℝ) * tol := by rw [one_mul]; exact hinv
  rw [e]
  calc _ ≤ |(1 + a * h / 2) ^ 2 * u - exp (a * h) * u| + |exp (a * h) * (u - exp (a * (t - t0)) * u0)| :=
        abs_add_le _ _
    _ ≤ tol + (n : ℝ) * tol := add_le_add hloc h2
    _ = ((n + 1 : Nat) : ℝ) * tol := by push_cast; ring

theorem eulerAdaptiveLoop_global_error (C : Ctl ℝ) (a t0 tEnd : ℝ) (u0s : List ℝ) (ha : a ≤ 0)
    (htol : 0 < C.tol) (hmin : 0 < C.dtMin) :
    ∀ (fuel : Nat) (e : EState ℝ) (r : AState ℝ), EulerInv a C.tol t0 u0s e →
      eulerAdaptiveLoop C (linear a) tEnd fuel e = .done r →
      List.Forall₂ (fun u u0 => |u - exp (a * (r.t - t0)) * u0| ≤ (r.steps : ℝ) * C.tol) r.us u0s := by
  intro fuel
  induction fuel with
  | zero => intro e r _ h; simp [eulerAdaptiveLoop] at h
  | succ n ih =>
    intro e r hinv h
    obtain ⟨hrate, hcells⟩ := hinv
    unfold eulerAdaptiveLoop at h
    simp only [landT_eq] at h
    -- the quantities of this iteration on u' = a u
    set hstep := dtStep C e.s.dtOpt tEnd e.s.t with hstep_def
    have hh : 0 ≤ hstep := le_trans hmin.le (dtStep_bounds C e.s.dtOpt tEnd e.s.t).1
    have hlarge : List.zipWith (fun u r => u + hstep * r) e.s.us e.rate
        = e.s.us.map (fun u => (1 + a * hstep) * u) := by
      rw [hrate, zipWith_map_right]; congr 1; funext u; ring
    have hsmall : List.map (fun x => x + ((1 : Nat) : ℝ) / ((2 : Nat) : ℝ) * hstep
            * linear a x (e.s.t + ((1 : Nat) : ℝ) / ((2 : Nat) : ℝ) * hstep))
          (List.zipWith (fun u r => u + ((1 : Nat) : ℝ) / ((2 : Nat) : ℝ) * hstep * r) e.s.us e.rate)
        = e.s.us.map (fun u => (1 + a * hstep / 2) ^ 2 * u) := by
      rw [hrate, zipWith_map_right, List.map_map]; congr 1; funext u
      simp only [Function.comp, linear]; push_cast; ring
    rw [hlarge, hsmall, zipWith_map_map] at h
    generalize hE : maxAbs (List.map (fun u => (1 + a * hstep) * u - (1 + a * hstep / 2) ^ 2 * u) e.s.us)
      / C.tol = errRel at h
    by_cases hacc : errRel ≤ ((1 : Nat) : ℝ)
    · simp only [hacc, decide_true, ↓reduceIte] at h
      have hcellacc : ∀ u ∈ e.s.us, |(1 + a * hstep) * u - (1 + a * hstep / 2) ^ 2 * u| ≤ C.tol := by
        intro u hu
        have hm : (1 + a * hstep) * u - (1 + a * hstep / 2) ^ 2 * u ∈
            List.map (fun u => (1 + a * hstep) * u - (1 + a * hstep / 2) ^ 2 * u) e.s.us :=
          List.mem_map.mpr ⟨u, hu, rfl⟩
        exact accepted_cells_le_tol _ C.tol htol (by rw [hE]; exact hacc) _ hm
      have hnew : List.Forall₂ (fun u u0 => |u - exp (a * (e.s.t + hstep - t0)) * u0|
            ≤ ((e.s.steps + 1 : Nat) : ℝ) * C.tol)
          (e.s.us.map (fun u => (1 + a * hstep / 2) ^ 2 * u)) u0s := by
        rw [List.forall₂_map_left_iff]
        refine (forall₂_and_mem _ _ _ _ hcells hcellacc).imp ?_
        intro u u0 ⟨h1, h2⟩
        exact euler_cell_step a hstep e.s.t t0 C.tol u u0 e.s.steps ha hh h1 h2
      split_ifs at h with hcont
      · split at h
        · refine ih _ _ ⟨?_, hnew⟩ h
          simp [linear]
        · simp at h
      · simp only [AOut.done.injEq] at h
        subst h
        exact hnew
    · simp only [hacc, decide_false, Bool.false_eq_true, ↓reduceIte] at h
      split_ifs at h with hcont
      · split at h
        · exact ih _ _ (by exact ⟨hrate, hcells⟩) h
        · simp at h
      · simp only [AOut.done.injEq] at h
        subst h
        exact hcells

/-- **adaptive Euler on `u' = a u`, `a ≤ 0`, whole call of the model**: every cell of the
returned state is within `(accepted steps) * tolerance` of the exact solution at the returned
time -/
theorem adaptive_euler_model_global_error (C : Ctl ℝ) (a : ℝ) (ha : a ≤ 0) (htol : 0 < C.tol)
    (hmin : 0 < C.dtMin) (fuel : Nat) (us : List ℝ) (tStart tEnd dt0 : ℝ) (r : AState ℝ)
    (h : eulerAdaptiveStepper C (linear a) fuel us tStart tEnd dt0 = .done r) :
    List.Forall₂ (fun u u0 => |u - exp (a * (r.t - tStart)) * u0| ≤ (r.steps : ℝ) * C.tol) r.us us := by
  refine eulerAdaptiveLoop_global_error C a tStart tEnd us ha htol hmin fuel _ r ⟨?_, ?_⟩ h
  · simp [linear]
  · simp only [sub_self, mul_zero, exp_zero, one_mul, Nat.cast_zero, zero_mul]
    exact List.forall₂_same.mpr (fun _ _ => by simp)

end eulerGlobal

/-! ### the rate carried between the steps of adaptive Euler -/

section carriedRate

/-- controller used by the witnesses below (explicit constants: independent of the generated ones) -/
noncomputable def witnessCtl : Ctl ℝ :=
  { tol := 1000, dtMin := 1 / 10 ^ 10, dtMax := 10 ^ 10, small := 1 / 1000, up := 4, nan := 1 / 4,
    safety := 9 / 10, expo := -1 / 5, down := 1 / 10, pow := fun _ _ => 1, isNan := fun _ => false }

/-- **the carried rate of adaptive Euler is taken at the end of the accepted step** (euler.py
`rate = rhs_pde(step_small, t + dt_step)`, same in the compiled loop).  On `u' = t`, `u(0) = 0`, two
accepted steps of `1/4`: the model returns the value of the scheme (every step
`h/2 g(t) + h/2 g(t + h/2)`), `3/32` (exact solution `1/8`).  Before the repair of py-pde the rate
was taken at the start of the step and this call returned `1/16`. -/
theorem eulerAdaptive_carried_rate_taken_at_new_time :
    ∃ r, eulerAdaptiveStepper witnessCtl (cubic 0 1 0 0) 5 [0] 0 (1 / 2) (1 / 4) = .done r
      ∧ r.t = 1 / 2 ∧ r.steps = 2 ∧ r.us = [3 / 32]
      ∧ (3 / 32 : ℝ) = 0 + ((1 / 4) / 2 * (0 + 1 / 8) + (1 / 4) / 2 * (1 / 4 + 3 / 8)) := by
  refine ⟨⟨[3 / 32], 1 / 2, 1, 2, [⟨1 / 4, 1 / 4, 1 / 64000, true⟩, ⟨0, 1 / 4, 1 / 64000, true⟩]⟩,
    ?_, rfl, rfl, rfl, by norm_num⟩
  norm_num [eulerAdaptiveStepper, eulerAdaptiveLoop, witnessCtl, dtStep, pmax, pmin, landT, adjustDt, cubic, maxAbs, absK]

end carriedRate

/-! ### the generic adaptive loop with the Euler step-doubling estimate (real numbers) -/

section richardsonGlobal
open Real

/-- the Euler-Richardson estimate on `u' = a u` -/
theorem eulerRichardson_linear (a : ℝ) (us : List ℝ) (t h : ℝ) :
    eulerRichardson (linear a) us t h
      = (us.map (fun u => (1 + a * h / 2) ^ 2 * u),
         maxAbs (us.map (fun u => (1 + a * h) * u - (1 + a * h / 2) ^ 2 * u))) := by
  unfold eulerRichardson richardson
  simp only
  rw [zipWith_map_map]
  have e1 : (fun u => eulerVar (linear a) (eulerVar (linear a) u t (((1 : Nat) : ℝ) / ((2 : Nat) : ℝ) * h))
        (t + ((1 : Nat) : ℝ) / ((2 : Nat) : ℝ) * h) (((1 : Nat) : ℝ) / ((2 : Nat) : ℝ) * h))
      = fun u => (1 + a * h / 2) ^ 2 * u := by
    funext u; simp only [eulerVar, linear]; push_cast; ring
  have e2 : (fun u => eulerVar (linear a) u t h
        - eulerVar (linear a) (eulerVar (linear a) u t (((1 : Nat) : ℝ) / ((2 : Nat) : ℝ) * h))
          (t + ((1 : Nat) : ℝ) / ((2 : Nat) : ℝ) * h) (((1 : Nat) : ℝ) / ((2 : Nat) : ℝ) * h))
      = fun u => (1 + a * h) * u - (1 + a * h / 2) ^ 2 * u := by
    funext u; simp only [eulerVar, linear]; push_cast; ring
  rw [e1, e2]

theorem adaptiveLoop_richardson_global_error (C : Ctl ℝ) (a t0 tEnd : ℝ) (u0s : List ℝ) (ha : a ≤ 0)
    (htol : 0 < C.tol) (hmin : 0 < C.dtMin) :
    ∀ (fuel : Nat) (s r : AState ℝ),
      List.Forall₂ (fun u u0 => |u - exp (a * (s.t - t0)) * u0| ≤ (s.steps : ℝ) * C.tol) s.us u0s →
      adaptiveLoop C (eulerRichardson (linear a)) tEnd fuel s = .done r →
      List.Forall₂ (fun u u0 => |u - exp (a * (r.t - t0)) * u0| ≤ (r.steps : ℝ) * C.tol) r.us u0s := by
  intro fuel
  induction fuel with
  | zero => intro s r _ h; simp [adaptiveLoop] at h
  | succ n ih =>
    intro s r hcells h
    unfold adaptiveLoop at h
    simp only [landT_eq] at h
    set hstep := dtStep C s.dtOpt tEnd s.t with hstep_def
    have hh : 0 ≤ hstep := le_trans hmin.le (dtStep_bounds C s.dtOpt tEnd s.t).1
    rw [eulerRichardson_linear] at h
    simp only at h
    generalize hE : maxAbs (List.map (fun u => (1 + a * hstep) * u - (1 + a * hstep / 2) ^ 2 * u) s.us)
      / C.tol = errRel at h
    by_cases hacc : errRel ≤ ((1 : Nat) : ℝ)
    · simp only [hacc, decide_true, ↓reduceIte] at h
      have hcellacc : ∀ u ∈ s.us, |(1 + a * hstep) * u - (1 + a * hstep / 2) ^ 2 * u| ≤ C.tol := by
        intro u hu
        have hm : (1 + a * hstep) * u - (1 + a * hstep / 2) ^ 2 * u ∈
            List.map (fun u => (1 + a * hstep) * u - (1 + a * hstep / 2) ^ 2 * u) s.us :=
          List.mem_map.mpr ⟨u, hu, rfl⟩
        exact accepted_cells_le_tol _ C.tol htol (by rw [hE]; exact hacc) _ hm
      have hnew : List.Forall₂ (fun u u0 => |u - exp (a * (s.t + hstep - t0)) * u0|
            ≤ ((s.steps + 1 : Nat) : ℝ) * C.tol)
          (s.us.map (fun u => (1 + a * hstep / 2) ^ 2 * u)) u0s := by
        rw [List.forall₂_map_left_iff]
        refine (forall₂_and_mem _ _ _ _ hcells hcellacc).imp ?_
        intro u u0 ⟨h1, h2⟩
        exact euler_cell_step a hstep s.t t0 C.tol u u0 s.steps ha hh h1 h2
      split_ifs at h with hcont
      · split at h
        · exact ih _ _ (by exact hnew) h
        · simp at h
      · simp only [AOut.done.injEq] at h
        subst h
        exact hnew
    · simp only [hacc, decide_false, Bool.false_eq_true, ↓reduceIte] at h
      split_ifs at h with hcont
      · split at h
        · exact ih _ _ (by exact hcells) h
        · simp at h
      · simp only [AOut.done.injEq] at h
        subst h
        exact hcells

/-- **generic adaptive loop with the Euler step-doubling estimate (a plain `AdaptiveSolverBase`)
on `u' = a u`, `a ≤ 0`**: global error ≤ accepted steps × tolerance -/
theorem adaptive_richardson_model_global_error (C : Ctl ℝ) (a : ℝ) (ha : a ≤ 0) (htol : 0 < C.tol)
    (hmin : 0 < C.dtMin) (fuel : Nat) (us : List ℝ) (tStart tEnd dt0 : ℝ) (r : AState ℝ)
    (h : adaptiveStepper C (eulerRichardson (linear a)) fuel us tStart tEnd dt0 = .done r) :
    List.Forall₂ (fun u u0 => |u - exp (a * (r.t - tStart)) * u0| ≤ (r.steps : ℝ) * C.tol) r.us us := by
  refine adaptiveLoop_richardson_global_error C a tStart tEnd us ha htol hmin fuel _ r ?_ h
  simp only [sub_self, mul_zero, exp_zero, one_mul, Nat.cast_zero, zero_mul]
  exact List.forall₂_same.mpr (fun _ _ => by simp)

end richardsonGlobal

/-- the Adams-Bashforth stepper keeps its previous state: after any call `prev` is set, so only
the first call of a stepper initialises it -/
theorem ab2Stepper_persistent {K : Type} [Field K] [LinearOrder K] [IsStrictOrderedRing K] [FloorRing K]
    (T : AB2Tab K) (f : Rate K) (dt ts te : K) (s s' : AB2State K) (t : K)
    (h : ab2Stepper T f dt ts te s = some (s', t)) : s'.prev.isSome = true := by
  unfold ab2Stepper at h
  simp only at h
  split at h
  · simp at h
  · simp only [Option.some.injEq, Prod.mk.injEq] at h
    rw [← h.1]; rfl

/-! ### adaptive Runge-Kutta-Fehlberg: what the accepted error estimate does and does not bound -/

section rkfLocal
variable {K : Type} [Field K] [LinearOrder K] [IsStrictOrderedRing K]

/-- **local error of the returned (4th-order) state** against any reference value `x`: at most
the error estimate plus the distance of the embedded higher-order value from `x` (every
tableau, every rate) -/
theorem rkf45_local_error_le_estimate_plus_fifth_general (T : RKFTab K) (f : Rate K) (dt u t x : K) :
    |(rkf45Step T f dt u t).1 - x| ≤ |(rkf45Step T f dt u t).2| + |rkf45High T f dt u t - x| := by
  have e : (rkf45Step T f dt u t).1 - x
      = -(rkf45Step T f dt u t).2 + (rkf45High T f dt u t - x) := by
    rw [rkf45_error_is_difference]; ring
  rw [e]
  calc |-(rkf45Step T f dt u t).2 + (rkf45High T f dt u t - x)|
      ≤ |-(rkf45Step T f dt u t).2| + |rkf45High T f dt u t - x| := abs_add_le _ _
    _ = |(rkf45Step T f dt u t).2| + |rkf45High T f dt u t - x| := by rw [abs_neg]

/-- amplification of the returned state: `Σ_{k≤4} z^k/k! + z^5/104` -/
def rkfR4 (z : K) : K := 1 + z + z ^ 2 / 2 + z ^ 3 / 6 + z ^ 4 / 24 + z ^ 5 / 104
/-- amplification of the embedded higher-order value: `Σ_{k≤5} z^k/k! + z^6/2080` -/
def rkfR5 (z : K) : K := 1 + z + z ^ 2 / 2 + z ^ 3 / 6 + z ^ 4 / 24 + z ^ 5 / 120 + z ^ 6 / 2080

/-- **on `u' = a u`**, for any exact propagator `E` (e.g. `exp z`):
`|R4(z) u - E u| ≤ |est| + |R5(z) u - E u|` with `est = (R5(z) - R4(z)) u` the quantity the code
compares with the tolerance -/
theorem rkf45_local_error_le_estimate_plus_fifth (a dt u t E : K) :
    |rkfR4 (a * dt) * u - E * u|
      ≤ |(rkf45Step rkfTab (linear a) dt u t).2| + |rkfR5 (a * dt) * u - E * u| := by
  have h := rkf45_local_error_le_estimate_plus_fifth_general rkfTab (linear a) dt u t (E * u)
  rw [rkf45_amp4, rkf45_amp5] at h
  exact h

theorem rkf45_est_eq (a dt u t : K) :
    (rkf45Step rkfTab (linear a) dt u t).2 = (rkfR5 (a * dt) - rkfR4 (a * dt)) * u := by
  rw [rkf45_estimate_amp]; simp only [rkfR4, rkfR5]; ring

end rkfLocal

section rkfGlobal
open Real

/-- fifth-order remainder of one step: distance of the higher-order amplification from `exp z` -/
noncomputable def rem5 (z : ℝ) : ℝ := |rkfR5 z - exp z|

/-- accepted step sizes of a trace, newest first (as the trace itself) -/
def accDts (tr : List (Rec ℝ)) : List ℝ := (tr.filter (·.accepted)).map (·.dt)

/-- value of a cell after the accepted steps `hs` (newest first) on `u' = a u` -/
noncomputable def cellAfter (a : ℝ) : List ℝ → ℝ → ℝ
  | [], u0 => u0
  | h :: hs, u0 => rkfR4 (a * h) * cellAfter a hs u0

/-- sum of the fifth-order remainders of the accepted steps, each weighted with the size of the
cell before that step -/
noncomputable def rem5Sum (a : ℝ) : List ℝ → ℝ → ℝ
  | [], _ => 0
  | h :: hs, u0 => rem5Sum a hs u0 + rem5 (a * h) * |cellAfter a hs u0|

theorem rkf45Est_linear (a : ℝ) (us : List ℝ) (t h : ℝ) :
    rkf45Est rkfTab (linear a) us t h
      = (us.map (fun u => rkfR4 (a * h) * u),
         maxAbs (us.map (fun u => (rkfR5 (a * h) - rkfR4 (a * h)) * u))) := by
  unfold rkf45Est
  simp only [List.map_map]
  have e1 : (Prod.fst ∘ fun u => rkf45Step rkfTab (linear a) h u t) = fun u => rkfR4 (a * h) * u := by
    funext u; simp only [Function.comp, rkf45_amp4, rkfR4]
  have e2 : (Prod.snd ∘ fun u => rkf45Step rkfTab (linear a) h u t)
      = fun u => (rkfR5 (a * h) - rkfR4 (a * h)) * u := by
    funext u; simp only [Function.comp, rkf45_est_eq]
  rw [e1, e2]

theorem rkf_cell_step (a h t t0 tol u u0 B : ℝ) (n : Nat) (ha : a ≤ 0) (hh : 0 ≤ h)
    (hinv : |u - exp (a * (t - t0)) * u0| ≤ (n : ℝ) * tol + B)
    (hacc : |(rkfR5 (a * h) - rkfR4 (a * h)) * u| ≤ tol) :
    |rkfR4 (a * h) * u - exp (a * (t + h - t0)) * u0|
      ≤ ((n + 1 : Nat) : ℝ) * tol + (B + rem5 (a * h) * |u|) := by
  have hloc : |rkfR4 (a * h) * u - exp (a * h) * u| ≤ tol + rem5 (a * h) * |u| := by
    have h1 := rkf45_local_error_le_estimate_plus_fifth a h u t (exp (a * h))
    rw [rkf45_est_eq] at h1
    have h2 : |rkfR5 (a * h) * u - exp (a * h) * u| = rem5 (a * h) * |u| := by
      rw [← sub_mul, abs_mul]; rfl
    linarith
  have hE := exp_flow_nonexpansive a h ha hh
  have e : rkfR4 (a * h) * u - exp (a * (t + h - t0)) * u0
      = (rkfR4 (a * h) * u - exp (a * h) * u) + exp (a * h) * (u - exp (a * (t - t0)) * u0) := by
    have : a * (t + h - t0) = a * h + a * (t - t0) := by ring
    rw [this, exp_add]; ring
  have h2 : |exp (a * h) * (u - exp (a * (t - t0)) * u0)| ≤ (n : ℝ) * tol + B := by
    rw [abs_mul]
    calc |exp (a * h)| * |u - exp (a * (t - t0)) * u0| ≤ 1 * |u - exp (a * (t - t0)) * u0| :=
          mul_le_mul_of_nonneg_right hE (abs_nonneg _)
      _ ≤ (n : ℝ) * tol + B := by rw [one_mul]; exact hinv
  rw [e]
  calc _ ≤ |rkfR4 (a * h) * u - exp (a * h) * u| + |exp (a * h) * (u - exp (a * (t - t0)) * u0)| :=
        abs_add_le _ _
    _ ≤ (tol + rem5 (a * h) * |u|) + ((n : ℝ) * tol + B) := add_le_add hloc h2
    _ = ((n + 1 : Nat) : ℝ) * tol + (B + rem5 (a * h) * |u|) := by push_cast; ring

/-- invariant of the adaptive loop with the Fehlberg estimator on `u' = a u` -/
def RkfInv (a tol t0 : ℝ) (u0s : List ℝ) (s : AState ℝ) : Prop :=
  s.us = u0s.map (cellAfter a (accDts s.trace))
  ∧ s.steps = (accDts s.trace).length
  ∧ ∀ u0 ∈ u0s, |cellAfter a (accDts s.trace) u0 - exp (a * (s.t - t0)) * u0|
      ≤ (s.steps : ℝ) * tol + rem5Sum a (accDts s.trace) u0

theorem adaptiveLoop_rkf45_global_error (C : Ctl ℝ) (a t0 tEnd : ℝ) (u0s : List ℝ) (ha : a ≤ 0)
    (htol : 0 < C.tol) (hmin : 0 < C.dtMin) :
    ∀ (fuel : Nat) (s r : AState ℝ), RkfInv a C.tol t0 u0s s →
      adaptiveLoop C (rkf45Est rkfTab (linear a)) tEnd fuel s = .done r → RkfInv a C.tol t0 u0s r := by
  intro fuel
  induction fuel with
  | zero => intro s r _ h; simp [adaptiveLoop] at h
  | succ n ih =>
    intro s r hinv h
    obtain ⟨hus, hsteps, hcells⟩ := hinv
    unfold adaptiveLoop at h
    simp only [landT_eq] at h
    set hstep := dtStep C s.dtOpt tEnd s.t with hstep_def
    have hh : 0 ≤ hstep := le_trans hmin.le (dtStep_bounds C s.dtOpt tEnd s.t).1
    rw [rkf45Est_linear] at h
    simp only at h
    generalize hE : maxAbs (List.map (fun u => (rkfR5 (a * hstep) - rkfR4 (a * hstep)) * u) s.us)
      / C.tol = errRel at h
    by_cases hacc : errRel ≤ ((1 : Nat) : ℝ)
    · simp only [hacc, decide_true, ↓reduceIte] at h
      have hcellacc : ∀ u ∈ s.us, |(rkfR5 (a * hstep) - rkfR4 (a * hstep)) * u| ≤ C.tol := by
        intro u hu
        have hm : (rkfR5 (a * hstep) - rkfR4 (a * hstep)) * u ∈
            List.map (fun u => (rkfR5 (a * hstep) - rkfR4 (a * hstep)) * u) s.us :=
          List.mem_map.mpr ⟨u, hu, rfl⟩
        exact accepted_cells_le_tol _ C.tol htol (by rw [hE]; exact hacc) _ hm
      -- the invariant for the state after the accepted step
      have hnew : ∀ (d : ℝ), RkfInv a C.tol t0 u0s
          ⟨List.map (fun u => rkfR4 (a * hstep) * u) s.us, s.t + hstep, d, s.steps + 1,
            ⟨s.t, hstep, errRel, true⟩ :: s.trace⟩ := by
        intro d
        have hacc' : accDts (⟨s.t, hstep, errRel, true⟩ :: s.trace) = hstep :: accDts s.trace := by
          simp [accDts]
        refine ⟨?_, ?_, ?_⟩
        · simp only [hacc', hus, List.map_map]
          congr 1
        · simp only [hacc', List.length_cons, hsteps]
        · intro u0 hu0
          simp only [hacc', cellAfter, rem5Sum]
          have hmem : cellAfter a (accDts s.trace) u0 ∈ s.us := by
            rw [hus]; exact List.mem_map.mpr ⟨u0, hu0, rfl⟩
          exact rkf_cell_step a hstep s.t t0 C.tol _ u0 _ s.steps ha hh (hcells u0 hu0)
            (hcellacc _ hmem)
      split_ifs at h with hcont
      · split at h
        · exact ih _ _ (hnew _) h
        · simp at h
      · simp only [AOut.done.injEq] at h
        subst h
        exact hnew _
    · simp only [hacc, decide_false, Bool.false_eq_true, ↓reduceIte] at h
      have hrej : ∀ (d : ℝ), RkfInv a C.tol t0 u0s
          ⟨s.us, s.t, d, s.steps, ⟨s.t, hstep, errRel, false⟩ :: s.trace⟩ := by
        intro d
        have hacc' : accDts (⟨s.t, hstep, errRel, false⟩ :: s.trace) = accDts s.trace := by
          simp [accDts]
        exact ⟨by simp only [hacc']; exact hus, by simp only [hacc']; exact hsteps,
          by simp only [hacc']; exact hcells⟩
      split_ifs at h with hcont
      · split at h
        · exact ih _ _ (hrej _) h
        · simp at h
      · simp only [AOut.done.injEq] at h
        subst h
        exact hrej _

/-- **adaptive Runge-Kutta-Fehlberg on `u' = a u`, `a ≤ 0`, whole call of the model**: with
`hs` the accepted step sizes of the returned trace, every cell of the returned state is the
product of the amplifications `R4(a h_i)` of its initial value and lies within
`(accepted steps) * tolerance + Σ_i |R5(a h_i) - exp(a h_i)| * |u_i|` of the exact solution at
the returned time (`u_i` the cell before step `i`).  The second term is what the acceptance
test does not control. -/
theorem adaptive_rkf45_model_global_error (C : Ctl ℝ) (a : ℝ) (ha : a ≤ 0) (htol : 0 < C.tol)
    (hmin : 0 < C.dtMin) (fuel : Nat) (us : List ℝ) (tStart tEnd dt0 : ℝ) (r : AState ℝ)
    (h : adaptiveStepper C (rkf45Est rkfTab (linear a)) fuel us tStart tEnd dt0 = .done r) :
    r.us = us.map (cellAfter a (accDts r.trace))
    ∧ r.steps = (accDts r.trace).length
    ∧ ∀ u0 ∈ us, |cellAfter a (accDts r.trace) u0 - exp (a * (r.t - tStart)) * u0|
        ≤ (r.steps : ℝ) * C.tol + rem5Sum a (accDts r.trace) u0 := by
  refine adaptiveLoop_rkf45_global_error C a tStart tEnd us ha htol hmin fuel _ r ⟨?_, ?_, ?_⟩ h
  · simp [accDts, cellAfter]
  · simp [accDts]
  · intro u0 _
    simp [accDts, cellAfter, rem5Sum]

/-- **the error estimate is not a bound of the local error** (witness `z = -15/64`, i.e.
`a = -15/16`, `dt = 1/4`, `u = 1`): the distance of the returned state from the exact
solution is larger than the estimate the code compares with the tolerance.  So "accepted
(estimate ≤ tol) ⇒ local error ≤ tol" is false of the model, as it is of the code. -/
theorem rkf45_estimate_is_not_a_bound :
    |(rkf45Step rkfTab (linear (-15 / 16 : ℝ)) (1 / 4) 1 0).2|
      < |(rkf45Step rkfTab (linear (-15 / 16 : ℝ)) (1 / 4) 1 0).1 - exp (-15 / 16 * (1 / 4)) * 1| := by
  rw [rkf45_est_eq, rkf45_amp4]
  have hz : (-15 / 16 : ℝ) * (1 / 4) = -15 / 64 := by norm_num
  rw [hz]
  -- exp z ≥ T7(z) - |z|^8 * 9/(8! * 8)
  have hb := Real.exp_bound (x := (-15 / 64 : ℝ)) (by rw [abs_le]; constructor <;> norm_num) (n := 8)
    (by norm_num)
  simp only [Finset.sum_range_succ, Finset.sum_range_zero, Nat.factorial] at hb
  have hlow := (abs_le.mp hb).1
  have habs : |(-15 / 64 : ℝ)| = 15 / 64 := by rw [abs_of_neg (by norm_num)]; norm_num
  rw [habs] at hlow
  have hest : |(rkfR5 (-15 / 64 : ℝ) - rkfR4 (-15 / 64)) * 1| = (rkfR5 (-15 / 64 : ℝ) - rkfR4 (-15 / 64)) := by
    rw [mul_one, abs_of_pos]; simp only [rkfR4, rkfR5]; norm_num
  rw [hest]
  have hgap : rkfR5 (-15 / 64 : ℝ) < exp (-15 / 64) := by
    simp only [rkfR5]
    norm_num at hlow ⊢
    linarith
  have hneg : (1 + (-15 / 64 : ℝ) + (-15 / 64) ^ 2 / 2 + (-15 / 64) ^ 3 / 6 + (-15 / 64) ^ 4 / 24
      + (-15 / 64) ^ 5 / 104) * 1 - exp (-15 / 64) * 1 < 0 := by
    have : rkfR4 (-15 / 64 : ℝ) < rkfR5 (-15 / 64) := by simp only [rkfR4, rkfR5]; norm_num
    simp only [rkfR4] at this
    linarith
  rw [abs_of_neg hneg]
  have : rkfR4 (-15 / 64 : ℝ) = 1 + (-15 / 64 : ℝ) + (-15 / 64) ^ 2 / 2 + (-15 / 64) ^ 3 / 6
      + (-15 / 64) ^ 4 / 24 + (-15 / 64) ^ 5 / 104 := rfl
  linarith

end rkfGlobal

/-! ## constants of the step-size controller (extracted) -/

section controller
variable {K : Type} [Field K] [LinearOrder K] [IsStrictOrderedRing K]

/-- signs and ordering the loop logic relies on -/
theorem ctl_constants_sane :
    (0 : K) < Generated.ctl_small ∧ (Generated.ctl_small : K) < 1 ∧ (1 : K) < Generated.ctl_up
    ∧ (0 : K) < Generated.ctl_nan ∧ (Generated.ctl_nan : K) < 1
    ∧ (0 : K) < Generated.ctl_down ∧ (Generated.ctl_down : K) < Generated.ctl_safety
    ∧ (Generated.ctl_safety : K) < 1 ∧ (Generated.ctl_expo : K) < 0
    ∧ (0 : K) < Generated.ctl_dt_min ∧ (Generated.ctl_dt_min : K) < Generated.ctl_dt_max
    ∧ (0 : K) < Generated.ctl_tolerance_default := by
  gen_simp; norm_num

/-- "the constant on the right hand side of the comparison is chosen to agree with the equation
for adjusting dt": `safety * small^expo = up` with `expo = -1/5`, i.e. `small = (safety/up)^5`,
to the nine digits given in the source -/
theorem ctl_threshold_consistent :
    (Generated.ctl_expo : K) = -1 / 5
    ∧ |(Generated.ctl_small : K) - (Generated.ctl_safety / Generated.ctl_up) ^ 5| < 1 / 10 ^ 9 := by
  gen_simp
  refine ⟨by norm_num, ?_⟩
  rw [abs_lt]; constructor <;> norm_num

end controller

/-! ## non-vacuity: the hypotheses above are satisfiable and the models compute -/

section examples

example : eulerStep (linear (-1 / 2 : ℚ)) (1 / 4) 1 0 = 7 / 8 := by
  norm_num [eulerStep, linear]

example : rk4Step rk4Tab (linear (-1 / 2 : ℚ)) (1 / 4) 1 0 = 86753 / 98304 := by
  rw [rk4_amp]; norm_num

/-- implicit Euler, `z = -1/8`: predictor `7/8`, first iterate `57/64`, mean square change
`1/4096 < (1/10)^2`: converged after one iteration -/
example : implicitStep (linear (-1 / 2 : ℝ)) 100 (1 / 10) (1 / 4) [1] 0 = some ([57 / 64], 1) := by
  norm_num [implicitStep, fixpointLoop, msqDiff, implicitIter, implicitPredict, linear, HasNormSq.nsq]

/-- with a threshold that is not met within `maxiter = 1` iteration: `ConvergenceError` -/
example : implicitStep (linear (-1 / 2 : ℝ)) 1 (1 / 100) (1 / 4) [1] 0 = none := by
  norm_num [implicitStep, fixpointLoop, msqDiff, implicitIter, implicitPredict, linear, HasNormSq.nsq]

/-- four steps of length 1/4 from 0 to 1 -/
example : stepCount (1 / 4 : ℝ) 0 1 = 4 :=
  (fixedStepper_steps (1 / 4 : ℝ) 0 1 (by norm_num)).2.1 4 (by norm_num) (by norm_num)

/-- a rounding tie: 5/2 steps are rounded to the even number 2 -/
example : stepCount (1 : ℝ) 0 (5 / 2) = 2 := by
  have h : roundHE ((5 / 2 - 0 : ℝ) / 1) = 2 := by
    unfold roundHE
    simp only [floor_def]
    have : ⌊((5 / 2 - 0 : ℝ) / 1)⌋ = 2 := by rw [Int.floor_eq_iff]; norm_num
    rw [this]; norm_num
  have := stepCount_eq (1 : ℝ) 0 (5 / 2)
  rw [h] at this
  exact_mod_cast this

/-- the fixed-step loop on a concrete problem: two Euler steps of `u' = -u/2` with `dt = 1/4` -/
example : fixedStepper (fun (u : ℝ) t => some (eulerStep (linear (-1 / 2)) (1 / 4) u t)) (1 / 4) 0 (1 / 2) 1
    = some (49 / 64, 1 / 2) := by
  rw [fixedStepper_is_iterate]
  have hc : stepCount (1 / 4 : ℝ) 0 (1 / 2) = 2 :=
    (fixedStepper_steps (1 / 4 : ℝ) 0 (1 / 2) (by norm_num)).2.1 2 (by norm_num) (by norm_num)
  rw [hc, euler_loop_amp]
  norm_num

/-- a finished adaptive call exists: one accepted Euler-Richardson step from 0 to 1/2 -/
noncomputable def exampleCtl : Ctl ℝ := ctlOf 1 (1 / 10 ^ 10) (10 ^ 10) (fun _ _ => 1) (fun _ => false)

example : ∃ r, adaptiveStepper exampleCtl (eulerRichardson (linear (-1))) 5 [1] 0 (1 / 2) 1 = .done r
    ∧ r.t = 1 / 2 ∧ r.steps = 1 ∧ r.us = [9 / 16] := by
  refine ⟨⟨[9 / 16], 1 / 2, 1, 1, [⟨0, 1 / 2, 1 / 16, true⟩]⟩, ?_, rfl, rfl, rfl⟩
  norm_num [adaptiveStepper, adaptiveLoop, exampleCtl, ctlOf, dtStep, pmax, pmin, landT, eulerRichardson, richardson,
    eulerVar, linear, maxAbs, absK]

/-- the hypotheses of `adaptive_euler_global_error` are satisfiable: `a = -1`, one step `h = 1/2`
from `u = 1` with tolerance `1/16` (the estimate is exactly `z^2/4 = 1/16`) -/
example : |(9 / 16 : ℝ) - Real.exp (-1 * (1 / 2)) * 1| ≤ 1 * (1 / 16) := by
  have := adaptive_euler_global_error (-1) (1 / 16) (by norm_num) (fun _ => 1 / 2)
    (fun i => if i = 0 then 1 else 9 / 16) 1 (by intro i _; norm_num)
    (by intro i hi; have : i = 0 := by omega
        subst this; norm_num)
    (by intro i hi; have : i = 0 := by omega
        subst this; norm_num [abs_le])
  simpa using this

/-- `implicitStep_converged_close` on the converged example above (`z = -1/8`, one cell):
`((1 - z) y - u)^2 = (1/512)^2 ≤ z^2 * 1 * (1/10)^2` -/
example : ((1 - (-1 / 2 : ℝ) * (1 / 4)) * (57 / 64) - 1) ^ 2
    ≤ ((-1 / 2 : ℝ) * (1 / 4)) ^ 2 * ((([1] : List ℝ).length : ℝ) * (1 / 10 * (1 / 10))) := by
  have h : implicitStep (linear (-1 / 2 : ℝ)) 100 (1 / 10) (1 / 4) [1] 0 = some ([57 / 64], 1) := by
    norm_num [implicitStep, fixpointLoop, msqDiff, implicitIter, implicitPredict, linear, HasNormSq.nsq]
  have := implicitStep_converged_close (-1 / 2 : ℝ) 100 (1 / 10) (1 / 4) [1] 0 _ _ h
  simpa using this

/-- the hypotheses of the termination theorems are satisfiable (`z = -1/8`; `α = 1/4`, `q = 13/64`) -/
example : ∃ N0 : Nat, ∀ maxiter, N0 ≤ maxiter →
    (implicitStep (linear (-1 / 2 : ℝ)) maxiter (1 / 10 ^ 6) (1 / 4) [1, -2] 0).isSome = true :=
  implicitStep_terminates _ _ _ _ _ (by rw [abs_lt]; constructor <;> norm_num) (by norm_num)

example : ∃ N0 : Nat, ∀ maxiter, N0 ≤ maxiter →
    (cnStep (1 / 4) (linear (-1 / 2 : ℝ)) maxiter (1 / 10 ^ 6) (1 / 4) [1, -2] 0).isSome = true :=
  cnStep_terminates _ _ _ _ _ _ (by rw [abs_lt]; constructor <;> norm_num) (by norm_num)

end examples

end PdeVerif.Solvers
