import PdeVerif.Model.Solvers
import PdeVerif.Lemmas.Basic
import Mathlib.Tactic.Ring
import Mathlib.Tactic.FieldSimp
import Mathlib.Tactic.NormNum
import Mathlib.Tactic.Linarith
import Mathlib.Tactic.Positivity
import Mathlib.Tactic.LinearCombination
import Mathlib.Algebra.Order.Field.Basic
import Mathlib.Analysis.Complex.Exponential
/-
C06 - time steppers realise their scheme.
Property theorems about `PdeVerif.Solvers` (model of pde/solvers/*.py and of the compiled loops
of pde/backends/numba/_solvers.py).  The coefficients of the Runge-Kutta, Runge-Kutta-Fehlberg
and Adams-Bashforth steps and of the step-size controller are the constants of
`PdeVerif.Generated` (extracted from the sources on every run): every theorem that mentions
`rk4Tab`, `rkfTab`, `ab2Tab`, `ab2TabNumba` or `Generated.ctl_*` is re-proved against the
current sources by `lake build`.
-/
set_option linter.unusedSectionVars false

namespace PdeVerif.Solvers
open PdeVerif

/-- unfold the generated coefficient tables to numerals -/
local macro "gen_simp" : tactic => `(tactic| simp only [rk4Tab, rkfTab, ab2Tab, ab2TabNumba,
  Generated.rk4_c1, Generated.rk4_a21, Generated.rk4_c2, Generated.rk4_a31, Generated.rk4_a32,
  Generated.rk4_c3, Generated.rk4_a41, Generated.rk4_a42, Generated.rk4_a43, Generated.rk4_c4,
  Generated.rk4_w1, Generated.rk4_w2, Generated.rk4_w3, Generated.rk4_w4,
  Generated.rkf_a1, Generated.rkf_a2, Generated.rkf_b21, Generated.rkf_a3, Generated.rkf_b31,
  Generated.rkf_b32, Generated.rkf_a4, Generated.rkf_b41, Generated.rkf_b42, Generated.rkf_b43,
  Generated.rkf_a5, Generated.rkf_b51, Generated.rkf_b52, Generated.rkf_b53, Generated.rkf_b54,
  Generated.rkf_a6, Generated.rkf_b61, Generated.rkf_b62, Generated.rkf_b63, Generated.rkf_b64,
  Generated.rkf_b65, Generated.rkf_c1, Generated.rkf_c2, Generated.rkf_c3, Generated.rkf_c4,
  Generated.rkf_c5, Generated.rkf_c6, Generated.rkf_r1, Generated.rkf_r2, Generated.rkf_r3,
  Generated.rkf_r4, Generated.rkf_r5, Generated.rkf_r6,
  Generated.ab2_w_cur, Generated.ab2_w_prev, Generated.ab2_t_cur, Generated.ab2_t_prev,
  Generated.ab2_init, Generated.ab2nb_w_cur, Generated.ab2nb_w_prev, Generated.ab2nb_t_cur,
  Generated.ab2nb_t_prev, Generated.ab2nb_init,
  Generated.ctl_small, Generated.ctl_up, Generated.ctl_nan, Generated.ctl_safety, Generated.ctl_expo,
  Generated.ctl_down, Generated.ctl_dt_min, Generated.ctl_dt_max, Generated.ctl_tolerance_default,
  Generated.ratK])

/-! ## one step of every scheme on `u' = a u` and on `u' = g(t)` (any field of characteristic 0,
in particular the rationals, the reals and the complex numbers) -/

section algebra
variable {K : Type} [Field K] [CharZero K]

/-- the autonomous linear rate `f(u,t) = a*u` -/
def linear (a : K) : Rate K := fun x _ => a * x
/-- a rate that depends on time only, `f(u,t) = b0 + b1 t + b2 t^2 + b3 t^3` -/
def cubic (b0 b1 b2 b3 : K) : Rate K := fun _ s => b0 + b1 * s + b2 * s ^ 2 + b3 * s ^ 3
/-- exact integral of the cubic over `[t, t+dt]` -/
def cubicIntegral (b0 b1 b2 b3 t dt : K) : K :=
  b0 * dt + b1 * ((t + dt) ^ 2 - t ^ 2) / 2 + b2 * ((t + dt) ^ 3 - t ^ 3) / 3 + b3 * ((t + dt) ^ 4 - t ^ 4) / 4

theorem linRate_linear (a : K) : linRate a 0 0 0 0 = linear a := by
  funext u t; simp [linRate, linear]

theorem linRate_cubic (b0 b1 b2 b3 : K) : linRate 0 b0 b1 b2 b3 = cubic b0 b1 b2 b3 := by
  funext u t; simp only [linRate, cubic]; ring

/-- **Euler**: one step multiplies the state by `1 + z` -/
theorem euler_amp (a dt u t : K) : eulerStep (linear a) dt u t = (1 + a * dt) * u := by
  simp only [eulerStep, linear]; ring

/-- Euler evaluates the rate at the beginning of the step -/
theorem euler_quadrature (b0 b1 b2 b3 dt u t : K) :
    eulerStep (cubic b0 b1 b2 b3) dt u t = u + dt * (b0 + b1 * t + b2 * t ^ 2 + b3 * t ^ 3) := by
  simp only [eulerStep, cubic]

/-- the extracted Runge-Kutta coefficients are the classical RK4 tableau -/
theorem rk4_tableau :
    (rk4Tab : RK4Tab K) = ⟨0, 1/2, 1/2, 0, 1/2, 1/2, 0, 0, 1, 1, 1/6, 1/3, 1/3, 1/6⟩ := by
  gen_simp; norm_num

/-- **Runge-Kutta**: one step multiplies the state by the degree-4 Taylor polynomial of `exp z` -/
theorem rk4_amp (a dt u t : K) :
    rk4Step rk4Tab (linear a) dt u t
      = (1 + a * dt + (a * dt) ^ 2 / 2 + (a * dt) ^ 3 / 6 + (a * dt) ^ 4 / 24) * u := by
  simp only [rk4Step, linear]; gen_simp; push_cast; ring

/-- **Runge-Kutta stage times and weights**: for a rate that is a cubic polynomial of time one
step is the exact integral (fails for any other stage time or weight) -/
theorem rk4_quadrature (b0 b1 b2 b3 dt u t : K) :
    rk4Step rk4Tab (cubic b0 b1 b2 b3) dt u t = u + cubicIntegral b0 b1 b2 b3 t dt := by
  simp only [rk4Step, cubic, cubicIntegral]; gen_simp; push_cast; ring

/-! ### implicit Euler -/

/-- value of one cell after the predictor and `k` fixed-point iterations -/
def implicitCell (f : Rate K) (dt t u : K) : Nat → K
  | 0 => implicitPredict f dt t u
  | k + 1 => implicitIter f dt t u (implicitCell f dt t u k)

/-- **implicit Euler**: closed form of every iterate; for `z ≠ 1` the iterates are
`(1 - z^(k+2))/(1 - z) * u`, at distance `z^(k+2)/(1-z) * u` from the limit `u/(1-z)` -/
theorem implicit_iterates (a dt u t : K) (k : Nat) :
    (1 - a * dt) * implicitCell (linear a) dt t u k = (1 - (a * dt) ^ (k + 2)) * u := by
  induction k with
  | zero => simp only [implicitCell, implicitPredict, linear]; ring
  | succ k ih =>
    have : (1 - a * dt) * implicitCell (linear a) dt t u (k + 1)
        = (1 - a * dt) * u + a * dt * ((1 - a * dt) * implicitCell (linear a) dt t u k) := by
      simp only [implicitCell, implicitIter, linear]; ring
    rw [this, ih]; ring

/-- the converged value of implicit Euler is `u / (1 - z)` -/
theorem implicit_fixed_point (a dt u t x : K) (h : 1 - a * dt ≠ 0) :
    implicitIter (linear a) dt t u x = x ↔ x = u / (1 - a * dt) := by
  simp only [implicitIter, linear]
  rw [eq_div_iff h]
  constructor <;> intro hx <;> linear_combination -hx

/-- implicit Euler evaluates the rate at the end of the step (every iterate, a = 0) -/
theorem implicit_quadrature (b0 b1 b2 b3 dt u t : K) (k : Nat) :
    implicitCell (cubic b0 b1 b2 b3) dt t u (k + 1)
      = u + dt * (b0 + b1 * (t + dt) + b2 * (t + dt) ^ 2 + b3 * (t + dt) ^ 3) := by
  simp only [implicitCell, implicitIter, cubic]

/-! ### Crank-Nicolson -/

/-- value of one cell after the pre-loop update and `k` iterations -/
def cnCell (α : K) (f : Rate K) (dt t u : K) : Nat → K
  | 0 => cnIter α f dt t u u
  | k + 1 => cnIter α f dt t u (cnCell α f dt t u k)

/-- the first Crank-Nicolson value (before the loop) -/
theorem cn_start (α a dt u t : K) :
    cnCell α (linear a) dt t u 0 = (α + (1 - α) * (1 + a * dt)) * u := by
  simp only [cnCell, cnIter, linear]; push_cast; ring

/-- **Crank-Nicolson**: the defect `(1 - z/2) x_k - (1 + z/2) u` of the iterates contracts by
`q = α + (1-α) z/2` per iteration, so the limit is `(1 + z/2)/(1 - z/2) * u` for every explicit
fraction `α` -/
theorem cn_iterates (α a dt u t : K) (k : Nat) :
    (1 - a * dt / 2) * cnCell α (linear a) dt t u k - (1 + a * dt / 2) * u
      = (α + (1 - α) * (a * dt / 2)) ^ k
        * ((1 - a * dt / 2) * cnCell α (linear a) dt t u 0 - (1 + a * dt / 2) * u) := by
  induction k with
  | zero => simp
  | succ k ih =>
    have : (1 - a * dt / 2) * cnCell α (linear a) dt t u (k + 1) - (1 + a * dt / 2) * u
        = (α + (1 - α) * (a * dt / 2))
          * ((1 - a * dt / 2) * cnCell α (linear a) dt t u k - (1 + a * dt / 2) * u) := by
      simp only [cnCell, cnIter, linear]; push_cast; ring
    rw [this, ih]; ring

/-- the converged value of Crank-Nicolson is `(1 + z/2)/(1 - z/2) * u` (any `α ≠ 1`) -/
theorem cn_fixed_point (α a dt u t x : K) (hα : 1 - α ≠ 0) (h : 1 - a * dt / 2 ≠ 0) :
    cnIter α (linear a) dt t u x = x ↔ x = (1 + a * dt / 2) / (1 - a * dt / 2) * u := by
  simp only [cnIter, linear]; push_cast
  rw [show (1 + a * dt / 2) / (1 - a * dt / 2) * u = ((1 + a * dt / 2) * u) / (1 - a * dt / 2) from
    div_mul_eq_mul_div _ _ _, eq_div_iff h]
  constructor
  · intro hx
    have : (1 - α) * ((1 - a * dt / 2) * x - (1 + a * dt / 2) * u) = 0 := by linear_combination -hx
    rcases mul_eq_zero.mp this with h0 | h0
    · exact absurd h0 hα
    · linear_combination h0
  · intro hx; linear_combination (-(1 - α)) * hx

/-- Crank-Nicolson with `α = 0` is the trapezoidal rule (rate at both ends of the step) -/
theorem cn_quadrature (b0 b1 b2 b3 dt u t : K) (k : Nat) :
    cnCell 0 (cubic b0 b1 b2 b3) dt t u k
      = u + dt / 2 * ((b0 + b1 * (t + dt) + b2 * (t + dt) ^ 2 + b3 * (t + dt) ^ 3)
                      + (b0 + b1 * t + b2 * t ^ 2 + b3 * t ^ 3)) := by
  cases k <;> simp only [cnCell, cnIter, cubic] <;> push_cast <;> ring

/-! ### Adams-Bashforth -/

/-- the compiled loop applies the same coefficients as adams_bashforth.py -/
theorem ab2_numba_same : (ab2TabNumba : AB2Tab K) = ab2Tab := by
  gen_simp

/-- **Adams-Bashforth**: `u_{n+1} = u_n + z (3/2 u_n - 1/2 u_{n-1})`, and the new previous state
is `u_n` -/
theorem ab2_recursion (a dt t u p : K) :
    ab2Step ab2Tab (linear a) dt t u p = (u + a * dt * (3 / 2 * u - 1 / 2 * p), u) := by
  simp only [ab2Step, linear]; gen_simp; push_cast
  refine Prod.ext ?_ rfl
  simp only; ring

/-- first step: the previous state is estimated by a backward Euler step, which makes the first
Adams-Bashforth step the degree-2 Taylor polynomial -/
theorem ab2_first_step (a dt t u : K) :
    (ab2Step ab2Tab (linear a) dt t u (ab2Init ab2Tab (linear a) dt t u)).1
      = (1 + a * dt + (a * dt) ^ 2 / 2) * u := by
  simp only [ab2Step, ab2Init, linear]; gen_simp; push_cast; ring

/-- Adams-Bashforth evaluates the rates at `t` and `t - dt` -/
theorem ab2_quadrature (b0 b1 b2 b3 dt t u p : K) :
    (ab2Step ab2Tab (cubic b0 b1 b2 b3) dt t u p).1
      = u + dt * (3 / 2 * (b0 + b1 * t + b2 * t ^ 2 + b3 * t ^ 3)
                  - 1 / 2 * (b0 + b1 * (t - dt) + b2 * (t - dt) ^ 2 + b3 * (t - dt) ^ 3)) := by
  simp only [ab2Step, cubic]; gen_simp; push_cast; ring

/-! ### Runge-Kutta-Fehlberg 4(5) -/

/-- **row sums**: every stage time is the sum of its row of the stage matrix -/
theorem rkf45_rowsum :
    let T : RKFTab K := rkfTab
    T.a1 = 0 ∧ T.b21 = T.a2 ∧ T.b31 + T.b32 = T.a3 ∧ T.b41 + T.b42 + T.b43 = T.a4
      ∧ T.b51 + T.b52 + T.b53 + T.b54 = T.a5 ∧ T.b61 + T.b62 + T.b63 + T.b64 + T.b65 = T.a6 := by
  gen_simp; norm_num

/-- the error estimate is, for every tableau and every rate, the difference between the
combination of the stages with the weights `c + r` and the returned state -/
theorem rkf45_error_is_difference (T : RKFTab K) (f : Rate K) (dt u t : K) :
    (rkf45Step T f dt u t).2 = rkf45High T f dt u t - (rkf45Step T f dt u t).1 := by
  simp only [rkf45Step, rkf45High]; ring

/-- the weights `c + r` are Fehlberg's fifth-order weights -/
theorem rkf45_high_weights :
    let T : RKFTab K := rkfTab
    T.c1 + T.r1 = 16 / 135 ∧ T.c2 + T.r2 = 0 ∧ T.c3 + T.r3 = 6656 / 12825
      ∧ T.c4 + T.r4 = 28561 / 56430 ∧ T.c5 + T.r5 = -9 / 50 ∧ T.c6 + T.r6 = 2 / 55 := by
  gen_simp; norm_num

/-- **returned state on `u' = a u`**: Taylor polynomial of degree 4 plus `z^5/104` -/
theorem rkf45_amp4 (a dt u t : K) :
    (rkf45Step rkfTab (linear a) dt u t).1
      = (1 + a * dt + (a * dt) ^ 2 / 2 + (a * dt) ^ 3 / 6 + (a * dt) ^ 4 / 24 + (a * dt) ^ 5 / 104) * u := by
  simp only [rkf45Step, rkfStages, linear]; gen_simp; push_cast; ring

/-- the embedded higher-order value on `u' = a u`: Taylor polynomial of degree 5 plus `z^6/2080` -/
theorem rkf45_amp5 (a dt u t : K) :
    rkf45High rkfTab (linear a) dt u t
      = (1 + a * dt + (a * dt) ^ 2 / 2 + (a * dt) ^ 3 / 6 + (a * dt) ^ 4 / 24 + (a * dt) ^ 5 / 120
          + (a * dt) ^ 6 / 2080) * u := by
  simp only [rkf45High, rkfStages, linear]; gen_simp; push_cast; ring

/-- the error estimate on `u' = a u` -/
theorem rkf45_estimate_amp (a dt u t : K) :
    (rkf45Step rkfTab (linear a) dt u t).2
      = ((a * dt) ^ 5 * (1 / 120 - 1 / 104) + (a * dt) ^ 6 / 2080) * u := by
  rw [rkf45_error_is_difference, rkf45_amp4, rkf45_amp5]; ring

/-- **stage times and weights of the returned state**: a cubic rate is integrated exactly -/
theorem rkf45_quadrature (b0 b1 b2 b3 dt u t : K) :
    (rkf45Step rkfTab (cubic b0 b1 b2 b3) dt u t).1 = u + cubicIntegral b0 b1 b2 b3 t dt := by
  simp only [rkf45Step, rkfStages, cubic, cubicIntegral]; gen_simp; push_cast; ring

/-- stage times and weights of the higher-order value: a quartic rate is integrated exactly -/
theorem rkf45_quadrature5 (b0 b1 b2 b3 b4 dt u t : K) :
    rkf45High rkfTab (fun _ s => b0 + b1 * s + b2 * s ^ 2 + b3 * s ^ 3 + b4 * s ^ 4) dt u t
      = u + (cubicIntegral b0 b1 b2 b3 t dt + b4 * ((t + dt) ^ 5 - t ^ 5) / 5) := by
  simp only [rkf45High, rkfStages, cubicIntegral]; gen_simp; push_cast; ring

end algebra

/-! ### order conditions of the two embedded Fehlberg solutions (rational arithmetic on the
extracted constants) -/

section order
/-- stage times -/
def rkfA : List ℚ := [rkfTab.a1, rkfTab.a2, rkfTab.a3, rkfTab.a4, rkfTab.a5, rkfTab.a6]
/-- strictly lower triangular stage matrix (rows padded with zeros) -/
def rkfB : List (List ℚ) :=
  [[0, 0, 0, 0, 0, 0],
   [rkfTab.b21, 0, 0, 0, 0, 0],
   [rkfTab.b31, rkfTab.b32, 0, 0, 0, 0],
   [rkfTab.b41, rkfTab.b42, rkfTab.b43, 0, 0, 0],
   [rkfTab.b51, rkfTab.b52, rkfTab.b53, rkfTab.b54, 0, 0],
   [rkfTab.b61, rkfTab.b62, rkfTab.b63, rkfTab.b64, rkfTab.b65, 0]]
/-- weights of the returned state -/
def rkfC4 : List ℚ := [rkfTab.c1, rkfTab.c2, rkfTab.c3, rkfTab.c4, rkfTab.c5, rkfTab.c6]
/-- weights of the error estimate -/
def rkfR : List ℚ := [rkfTab.r1, rkfTab.r2, rkfTab.r3, rkfTab.r4, rkfTab.r5, rkfTab.r6]
/-- weights of the embedded higher-order value -/
def rkfC5 : List ℚ := List.zipWith (· + ·) rkfC4 rkfR

def dot (x y : List ℚ) : ℚ := (List.zipWith (· * ·) x y).sum
def had (x y : List ℚ) : List ℚ := List.zipWith (· * ·) x y
def mv (m : List (List ℚ)) (x : List ℚ) : List ℚ := m.map (fun row => dot row x)

/-- the eight order conditions up to order four (one per rooted tree) for weights `w` -/
def order4Conditions (w : List ℚ) : Prop :=
  let a := rkfA
  let B := rkfB
  w.sum = 1
  ∧ dot w a = 1 / 2
  ∧ dot w (had a a) = 1 / 3 ∧ dot w (mv B a) = 1 / 6
  ∧ dot w (had a (had a a)) = 1 / 4 ∧ dot w (had a (mv B a)) = 1 / 8
  ∧ dot w (mv B (had a a)) = 1 / 12 ∧ dot w (mv B (mv B a)) = 1 / 24

/-- the nine additional conditions of order five -/
def order5Conditions (w : List ℚ) : Prop :=
  let a := rkfA
  let B := rkfB
  dot w (had a (had a (had a a))) = 1 / 5
  ∧ dot w (had (had a a) (mv B a)) = 1 / 10
  ∧ dot w (had (mv B a) (mv B a)) = 1 / 20
  ∧ dot w (had a (mv B (had a a))) = 1 / 15
  ∧ dot w (mv B (had a (had a a))) = 1 / 20
  ∧ dot w (had a (mv B (mv B a))) = 1 / 30
  ∧ dot w (mv B (had a (mv B a))) = 1 / 40
  ∧ dot w (mv B (mv B (had a a))) = 1 / 60
  ∧ dot w (mv B (mv B (mv B a))) = 1 / 120

/-- **the returned state is a Runge-Kutta method of order four** -/
theorem rkf45_order4 : order4Conditions rkfC4 := by
  simp only [order4Conditions, rkfA, rkfB, rkfC4, dot, had, mv, List.zipWith, List.map, List.sum_cons,
    List.sum_nil]
  gen_simp; norm_num

/-- **the value the error estimate compares with is a method of order five** -/
theorem rkf45_order5 : order4Conditions rkfC5 ∧ order5Conditions rkfC5 := by
  simp only [order4Conditions, order5Conditions, rkfA, rkfB, rkfC5, rkfC4, rkfR, dot, had, mv, List.zipWith,
    List.map, List.sum_cons, List.sum_nil]
  gen_simp; norm_num

end order

/-! ## loops -/

section ordered
variable {K : Type} [Field K] [LinearOrder K] [IsStrictOrderedRing K] [FloorRing K]

/-- real number types: `(conj x * x).real = x * x` -/
instance instHasNormSqOfField : HasNormSq K := ⟨fun x => x * x⟩

/-! ### the fixed-point loop of the implicit schemes -/

/-- `fixpointLoop` returns the first iterate whose mean squared distance to its predecessor is
below the threshold, together with the number of iterations; it never exceeds `maxiter` -/
theorem fixpointLoop_spec (it : List K → List K) (e : K) :
    ∀ (m : Nat) (xs : List K) (n : Nat) (ys : List K) (n' : Nat),
      fixpointLoop it e m xs n = some (ys, n') →
      ∃ j : Nat, j < m ∧ n' = n + j + 1 ∧ ys = it^[j + 1] xs
        ∧ msqDiff (it^[j + 1] xs) (it^[j] xs) < e
        ∧ ∀ i < j, ¬ msqDiff (it^[i + 1] xs) (it^[i] xs) < e := by
  intro m
  induction m with
  | zero => intro xs n ys n' h; simp [fixpointLoop] at h
  | succ m ih =>
    intro xs n ys n' h
    simp only [fixpointLoop] at h
    split_ifs at h with hc
    · simp only [Option.some.injEq, Prod.mk.injEq] at h
      refine ⟨0, Nat.succ_pos m, by omega, by simp [h.1], by simpa using hc, by simp⟩
    · obtain ⟨j, hj, hn, hy, hconv, hnot⟩ := ih (it xs) (n + 1) ys n' h
      refine ⟨j + 1, by omega, by omega, ?_, ?_, ?_⟩
      · rw [hy]; simp [Function.iterate_succ_apply]
      · simpa [Function.iterate_succ_apply] using hconv
      · intro i hi
        cases i with
        | zero => simpa using hc
        | succ i =>
          have := hnot i (by omega)
          simpa [Function.iterate_succ_apply] using this

/-- no result (`ConvergenceError`) means that none of the `maxiter` iterations passed the test -/
theorem fixpointLoop_none (it : List K → List K) (e : K) :
    ∀ (m : Nat) (xs : List K) (n : Nat), fixpointLoop it e m xs n = none →
      ∀ i < m, ¬ msqDiff (it^[i + 1] xs) (it^[i] xs) < e := by
  intro m
  induction m with
  | zero => intro xs n _ i hi; omega
  | succ m ih =>
    intro xs n h i hi
    simp only [fixpointLoop] at h
    split_ifs at h with hc
    cases i with
    | zero => simpa using hc
    | succ i =>
      have := ih (it xs) (n + 1) h i (by omega)
      simpa [Function.iterate_succ_apply] using this

theorem zipWith_map_right {α β γ : Type} (g : α → β → γ) (h : α → β) (us : List α) :
    List.zipWith g us (us.map h) = us.map (fun u => g u (h u)) := by
  induction us with
  | nil => rfl
  | cons u us ih => simp [ih]

/-- the iterates of the whole state are the cell iterates -/
theorem implicit_iterate_cells (f : Rate K) (dt t : K) (us : List K) (j : Nat) :
    (fun xs => List.zipWith (implicitIter f dt t) us xs)^[j] (us.map (implicitPredict f dt t))
      = us.map (fun u => implicitCell f dt t u j) := by
  induction j with
  | zero => simp [implicitCell]
  | succ j ih =>
    rw [Function.iterate_succ_apply', ih, zipWith_map_right]
    simp [implicitCell]

theorem cn_iterate_cells (α : K) (f : Rate K) (dt t : K) (us : List K) (j : Nat) :
    (fun xs => List.zipWith (cnIter α f dt t) us xs)^[j] (us.map (fun u => cnIter α f dt t u u))
      = us.map (fun u => cnCell α f dt t u j) := by
  induction j with
  | zero => simp [cnCell]
  | succ j ih =>
    rw [Function.iterate_succ_apply', ih, zipWith_map_right]
    simp [cnCell]

/-- **implicit Euler step**: the returned state consists of the cell iterates
`implicitCell .. n` (closed form: `implicit_iterates`) for the reported number `n ≥ 1` of
iterations, `n ≤ maxiter`, and `n` is the first iteration count that passes the mean-square test -/
theorem implicitStep_cells (f : Rate K) (maxiter : Nat) (maxerror dt : K) (us : List K) (t : K)
    (ys : List K) (n : Nat) (h : implicitStep f maxiter maxerror dt us t = some (ys, n)) :
    1 ≤ n ∧ n ≤ maxiter ∧ ys = us.map (fun u => implicitCell f dt t u n)
      ∧ msqDiff (us.map (fun u => implicitCell f dt t u n)) (us.map (fun u => implicitCell f dt t u (n - 1)))
          < maxerror * maxerror
      ∧ ∀ i, 1 ≤ i → i < n →
          ¬ msqDiff (us.map (fun u => implicitCell f dt t u i)) (us.map (fun u => implicitCell f dt t u (i - 1)))
              < maxerror * maxerror := by
  unfold implicitStep at h
  obtain ⟨j, hj, hn, hy, hconv, hnot⟩ := fixpointLoop_spec _ _ _ _ _ _ _ h
  simp only [implicit_iterate_cells] at hy hconv hnot
  have hn' : n = j + 1 := by omega
  subst hn'
  refine ⟨by omega, by omega, hy, by simpa using hconv, ?_⟩
  intro i hi1 hi2
  have := hnot (i - 1) (by omega)
  have e : i - 1 + 1 = i := by omega
  rwa [e] at this

/-- **Crank-Nicolson step**: same statement with the Crank-Nicolson cell iterates (`cn_iterates`) -/
theorem cnStep_cells (α : K) (f : Rate K) (maxiter : Nat) (maxerror dt : K) (us : List K) (t : K)
    (ys : List K) (n : Nat) (h : cnStep α f maxiter maxerror dt us t = some (ys, n)) :
    1 ≤ n ∧ n ≤ maxiter ∧ ys = us.map (fun u => cnCell α f dt t u n)
      ∧ msqDiff (us.map (fun u => cnCell α f dt t u n)) (us.map (fun u => cnCell α f dt t u (n - 1)))
          < maxerror * maxerror := by
  unfold cnStep at h
  obtain ⟨j, hj, hn, hy, hconv, _⟩ := fixpointLoop_spec _ _ _ _ _ _ _ h
  simp only [cn_iterate_cells] at hy hconv
  have hn' : n = j + 1 := by omega
  subst hn'
  exact ⟨by omega, by omega, hy, by simpa using hconv⟩

/-! ### the fixed-step loop -/

/-- `steps = max(1, round((t_end - t_start)/dt))` -/
theorem stepCount_eq (dt ts te : K) :
    (stepCount dt ts te : Int) = max 1 (roundHE ((te - ts) / dt)) := by
  unfold stepCount
  simp only
  split_ifs with h
  · rw [Int.toNat_of_nonneg (by omega)]; omega
  · simp; omega

theorem roundHE_intCast (n : Int) : roundHE ((n : K)) = n := by
  unfold roundHE
  simp only [floor_def, Int.floor_intCast, sub_self]
  have : (0 : K) < ((1 : Nat) : K) / ((2 : Nat) : K) := by push_cast; norm_num
  rw [if_pos this]

/-- **step count**: at least one step; exactly `n` steps when the interval is `n` time steps long;
in general the number of steps is within 1/2 of `(t_end - t_start)/dt` whenever that is at least 1/2 -/
theorem fixedStepper_steps (dt ts te : K) (hdt : 0 < dt) :
    1 ≤ stepCount dt ts te
    ∧ (∀ n : Nat, 1 ≤ n → te - ts = (n : K) * dt → stepCount dt ts te = n)
    ∧ (1 / 2 ≤ (te - ts) / dt → |(te - ts) / dt - (stepCount dt ts te : K)| ≤ 1 / 2) := by
  have hcount := stepCount_eq dt ts te
  refine ⟨?_, ?_, ?_⟩
  · have : (1 : Int) ≤ (stepCount dt ts te : Int) := by rw [hcount]; exact le_max_left _ _
    exact_mod_cast this
  · intro n hn hlen
    have : (te - ts) / dt = ((n : Int) : K) := by
      rw [hlen]; field_simp; push_cast; ring
    rw [this, roundHE_intCast] at hcount
    have : (stepCount dt ts te : Int) = n := by rw [hcount]; omega
    exact_mod_cast this
  · intro hge
    have hclose := roundHE_close ((te - ts) / dt)
    have hr : 1 ≤ roundHE ((te - ts) / dt) ∨ roundHE ((te - ts) / dt) ≤ 0 := by omega
    rcases hr with hr | hr
    · have : (stepCount dt ts te : Int) = roundHE ((te - ts) / dt) := by rw [hcount]; omega
      have e : (stepCount dt ts te : K) = ((roundHE ((te - ts) / dt) : Int) : K) := by
        rw [← this]; push_cast; rfl
      rw [e]; exact hclose
    · -- round gave 0 although the ratio is at least 1/2: then the ratio is exactly 1/2
      have hle : ((roundHE ((te - ts) / dt) : Int) : K) ≤ 0 := by exact_mod_cast hr
      have habs := abs_le.mp hclose
      have : (stepCount dt ts te : Int) = 1 := by rw [hcount]; omega
      have e : (stepCount dt ts te : K) = 1 := by exact_mod_cast this
      rw [e, abs_le]
      constructor <;> linarith [habs.1, habs.2]

/-- the steps of the fixed-step loop, composed from the last one backwards:
step `k` (counting from 0) starts at time `t_start + (i0 + k) * dt` -/
def iterSteps {σ : Type} (step : σ → K → Option σ) (dt ts : K) (i0 : Nat) : Nat → σ → Option σ
  | 0, s => some s
  | n + 1, s => (iterSteps step dt ts i0 n s).bind (fun s' => step s' (ts + ((i0 + n : Nat) : K) * dt))

theorem iterSteps_front {σ : Type} (step : σ → K → Option σ) (dt ts : K) :
    ∀ (n i0 : Nat) (s : σ), iterSteps step dt ts i0 (n + 1) s
      = (step s (ts + ((i0 : Nat) : K) * dt)).bind (iterSteps step dt ts (i0 + 1) n) := by
  intro n
  induction n with
  | zero => intro i0 s; simp [iterSteps]
  | succ n ih =>
    intro i0 s
    rw [iterSteps, ih]
    cases h : step s (ts + ((i0 : Nat) : K) * dt) with
    | none => simp
    | some s1 =>
      simp only [Option.bind_some]
      rw [iterSteps]
      have : i0 + 1 + n = i0 + (n + 1) := by omega
      rw [this]

theorem fixedLoop_eq_iterSteps {σ : Type} (step : σ → K → Option σ) (dt ts : K) :
    ∀ (n i : Nat) (s : σ), fixedLoop step dt ts n i s = iterSteps step dt ts i n s := by
  intro n
  induction n with
  | zero => intro i s; rfl
  | succ n ih =>
    intro i s
    rw [iterSteps_front, fixedLoop]
    cases step s (ts + ((i : Nat) : K) * dt) with
    | none => rfl
    | some s1 => simp [ih]

/-- **the loop is the iterate of the one-step map on the time lattice**: the result of
`fixed_stepper` is the composition of `stepCount` single steps, the `i`-th of them started at
`t_start + i*dt`, and the returned time is `t_start + steps*dt` -/
theorem fixedStepper_is_iterate {σ : Type} (step : σ → K → Option σ) (dt ts te : K) (s : σ) :
    fixedStepper step dt ts te s
      = (iterSteps step dt ts 0 (stepCount dt ts te) s).map
          (fun s' => (s', ts + (stepCount dt ts te : K) * dt)) := by
  unfold fixedStepper
  simp only
  rw [fixedLoop_eq_iterSteps]
  have h1 : 1 ≤ stepCount dt ts te := by
    have := stepCount_eq dt ts te
    have h2 : (1 : Int) ≤ (stepCount dt ts te : Int) := by rw [this]; exact le_max_left _ _
    exact_mod_cast h2
  have ht : ts + (((stepCount dt ts te - 1 : Nat) : Nat) : K) * dt + dt = ts + (stepCount dt ts te : K) * dt := by
    have : ((stepCount dt ts te - 1 : Nat) : K) = (stepCount dt ts te : K) - 1 := by
      rw [Nat.cast_sub h1]; simp
    rw [this]; ring
  cases iterSteps step dt ts 0 (stepCount dt ts te) s with
  | none => rfl
  | some s' => simp [ht]

/-- for steps that cannot fail the loop is a plain iterate: one more step = one more application -/
theorem iterSteps_total {σ : Type} (g : σ → K → σ) (dt ts : K) (n : Nat) (s : σ) :
    ∃ r, iterSteps (fun x t => some (g x t)) dt ts 0 n s = some r
      ∧ iterSteps (fun x t => some (g x t)) dt ts 0 (n + 1) s = some (g r (ts + (n : K) * dt)) := by
  induction n with
  | zero => exact ⟨s, rfl, by simp [iterSteps]⟩
  | succ n ih =>
    obtain ⟨r, h1, h2⟩ := ih
    refine ⟨g r (ts + (n : K) * dt), h2, ?_⟩
    rw [iterSteps, h2]
    simp

/-- Euler over a whole call on `u' = a u`: `n` steps multiply by `(1+z)^n` -/
theorem euler_loop_amp (a dt ts u : K) (n : Nat) :
    iterSteps (fun x t => some (eulerStep (linear a) dt x t)) dt ts 0 n u = some ((1 + a * dt) ^ n * u) := by
  induction n with
  | zero => simp [iterSteps]
  | succ n ih => rw [iterSteps, ih]; simp only [Option.bind_some, euler_amp]; congr 1; rw [pow_succ]; ring

/-- Runge-Kutta over a whole call on `u' = a u` -/
theorem rk4_loop_amp (a dt ts u : K) (n : Nat) :
    iterSteps (fun x t => some (rk4Step rk4Tab (linear a) dt x t)) dt ts 0 n u
      = some ((1 + a * dt + (a * dt) ^ 2 / 2 + (a * dt) ^ 3 / 6 + (a * dt) ^ 4 / 24) ^ n * u) := by
  induction n with
  | zero => simp [iterSteps]
  | succ n ih => rw [iterSteps, ih]; simp only [Option.bind_some, rk4_amp]; congr 1; rw [pow_succ]; ring

end ordered

end PdeVerif.Solvers
