import PdeVerif.Model.Noise
import PdeVerif.Lemmas.Basic
import Mathlib.RingTheory.Derivation.Basic
import Mathlib.Tactic.LinearCombination
import Mathlib.Data.List.GetD
import Mathlib.Algebra.Polynomial.Derivation
/-
C13 - stochastic steps add exactly the documented noise, reproducibly.
Property theorems about `PdeVerif.Noise` (model of the stochastic single steps of
pde/solvers/{euler,milstein,implicit}.py and of `SDEBase.make_noise_variance`).

Square roots are parameters: `s` with `s*s = dt`, `sq i` with `sq i * sq i = v i * inv c`;
with `0 ≤ s`, `0 ≤ sq i` the product `s * sq i` is *the* non-negative root of `v i * dt / V c`.
All statements hold for every (ordered) field, every array size, every cell-volume array, every
rate / variance function and every step count (induction over the number of steps).
-/
set_option linter.unusedSectionVars false
namespace PdeVerif.Noise
open PdeVerif PdeVerif.Grids

/-! ### arrays -/
section arrays
variable {K : Type} [Field K]

theorem size_tab (n : Nat) (f : Nat → K) : (tab n f).size = n := by simp [tab]

theorem get_tab {n i : Nat} (f : Nat → K) (h : i < n) : get (tab n f) i = f i := by
  simp [get, tab, Array.getD, h]

theorem tab_congr {n : Nat} {f g : Nat → K} (h : ∀ i, i < n → f i = g i) : tab n f = tab n g := by
  apply Array.ext
  · simp [tab]
  · intro i h1 _
    have hi : i < n := by simpa [tab] using h1
    simp [tab, h i hi]

theorem zero_eq : (zero : K) = 0 := by simp [zero]
theorem half_eq : (half : K) = 1 / 2 := by simp [half]
theorem quarter_eq : (quarter : K) = 1 / 4 := by simp [quarter]

end arrays

/-! ### single steps -/
section steps
variable {K : Type} [Field K] [LinearOrder K] [IsStrictOrderedRing K]

/-- the term of the second noise interface -/
def realTerm (s : K) (real : Option (Array K)) (i : Nat) : K :=
  match real with
  | none => 0
  | some r => s * get r i

theorem realizeCell_eq (s u : K) (real : Option (Array K)) (i : Nat) :
    realizeCell s u (realAt real i) = u + realTerm s real i := by
  cases real <;> simp [realizeCell, realAt, realTerm]

/-- the product of the two root parameters is the non-negative square root of
`variance * dt / cell volume` -/
theorem root_of_product {s sq dt v inv V : K} (hs : s * s = dt) (hsq : sq * sq = v * inv)
    (hinv : inv = 1 / V) (hs0 : 0 ≤ s) (hq0 : 0 ≤ sq) :
    0 ≤ s * sq ∧ (s * sq) * (s * sq) = v * dt / V := by
  refine ⟨mul_nonneg hs0 hq0, ?_⟩
  have : (s * sq) * (s * sq) = (s * s) * (sq * sq) := by ring
  rw [this, hs, hsq, hinv]; ring

/-- **Euler-Maruyama step.** Entry `i` of the new state is the old value plus `dt * rate`, plus
`r * xi i` where `r ≥ 0`, `r^2 = variance * dt / cell volume`, plus the drift
`0.5 * alpha * dt * (d variance / d field) / cell volume` (`hasDrift = false` only for
`alpha = 0`), plus the term of the second noise interface (absent for `real = none`). -/
theorem em_step_formula (n ncell : Nat) (dt s alpha : K) (hd : Bool)
    (u rate v vd xi sq inv vol : Array K) (real : Option (Array K))
    (hs : s * s = dt) (hs0 : 0 ≤ s) (hα : hd = false → alpha = 0)
    (i : Nat) (hi : i < n)
    (hinv : get inv (i % ncell) = 1 / get vol (i % ncell))
    (hsq : get sq i * get sq i = get v i * get inv (i % ncell)) (hq0 : 0 ≤ get sq i) :
    ∃ r : K, 0 ≤ r ∧ r * r = get v i * dt / get vol (i % ncell) ∧
      get (emStep n ncell dt s alpha hd u rate vd xi sq inv real) i
        = get u i + realTerm s real i + dt * get rate i + r * get xi i
          + 1 / 2 * alpha * dt * get vd i / get vol (i % ncell) := by
  obtain ⟨h0, h2⟩ := root_of_product hs hsq hinv hs0 hq0
  refine ⟨s * get sq i, h0, h2, ?_⟩
  rw [emStep, get_tab _ hi, realizeCell_eq, hinv]
  unfold emCell
  cases hd with
  | true => simp only [if_true, half_eq]; ring
  | false => simp only [hα rfl, Bool.false_eq_true, if_false]; ring

/-- **Milstein step.** As Euler-Maruyama (the drift is always added; it vanishes for
`alpha = 0`) plus the correction `0.25 * (d variance / d field) / V * (dW^2 - dt)` with
`dW = r0 * xi`, `r0 ≥ 0`, `r0^2 = dt`. -/
theorem milstein_step_formula (n ncell : Nat) (dt s alpha : K)
    (u rate v vd xi sq inv vol : Array K) (real : Option (Array K))
    (hs : s * s = dt) (hs0 : 0 ≤ s)
    (i : Nat) (hi : i < n)
    (hinv : get inv (i % ncell) = 1 / get vol (i % ncell))
    (hsq : get sq i * get sq i = get v i * get inv (i % ncell)) (hq0 : 0 ≤ get sq i) :
    ∃ r dW : K, 0 ≤ r ∧ r * r = get v i * dt / get vol (i % ncell) ∧
      dW * dW = dt * (get xi i * get xi i) ∧
      get (milStep n ncell dt s alpha u rate vd xi sq inv real) i
        = get u i + realTerm s real i + dt * get rate i + r * get xi i
          + 1 / 2 * alpha * dt * get vd i / get vol (i % ncell)
          + 1 / 4 * get vd i / get vol (i % ncell) * (dW * dW - dt) := by
  obtain ⟨h0, h2⟩ := root_of_product hs hsq hinv hs0 hq0
  refine ⟨s * get sq i, s * get xi i, h0, h2, by rw [← hs]; ring, ?_⟩
  rw [milStep, get_tab _ hi, realizeCell_eq, hinv]
  unfold milCell
  simp only [half_eq, quarter_eq]; ring

/-- the Milstein step is the Euler-Maruyama step plus the correction -/
theorem milstein_eq_em_plus_correction (dt s alpha : K) (hd : Bool) (hα : hd = false → alpha = 0)
    (u rate vd xi sq inv : K) :
    milCell dt s alpha u rate vd xi sq inv
      = emCell dt s alpha hd u rate vd xi sq inv
        + 1 / 4 * vd * inv * ((s * xi) * (s * xi) - dt) := by
  unfold milCell emCell
  cases hd with
  | true => simp only [if_true, half_eq, quarter_eq]; ring
  | false => simp only [hα rfl, Bool.false_eq_true, if_false, half_eq, quarter_eq]; ring

end steps
/-! ### the semi-implicit step and vanishing variance -/
section sys
variable {K : Type} [Field K] [LinearOrder K] [IsStrictOrderedRing K]

/-- what the theorems need to know about the root function on the arguments that occur -/
def RootOn (sqrt : K → K) (x : K) : Prop := sqrt x * sqrt x = x ∧ 0 ≤ sqrt x

theorem root_mul {sqrt : K → K} {s dt x : K} (hs : s * s = dt) (hs0 : 0 ≤ s)
    (h1 : RootOn sqrt x) (h2 : RootOn sqrt (dt * x)) : sqrt (dt * x) = s * sqrt x := by
  have hn : 0 ≤ s * sqrt x := mul_nonneg hs0 h1.2
  have : sqrt (dt * x) * sqrt (dt * x) = (s * sqrt x) * (s * sqrt x) := by
    rw [h2.1]
    have : (s * sqrt x) * (s * sqrt x) = (s * s) * (sqrt x * sqrt x) := by ring
    rw [this, hs, h1.1]
  exact (mul_self_inj h2.2 hn).mp this

/-- the Euler-Maruyama noise increment `dt_sqrt * sqrt(var * inv_cell) * xi` of a system -/
def Sys.emIncrement (S : Sys K) (u xi : Array K) : Array K :=
  tab S.n fun i => S.s * get (rootsEM S.sqrt S.n S.ncell (S.var u) S.inv) i * get xi i

/-- **The semi-implicit solver adds the same increment to the state it iterates from.**
The stochastic implicit step is the fixed-point iteration of the deterministic implicit step
(`siIterate`), with the reference state `u + (Euler-Maruyama noise increment)` and the first guess
`reference + dt * rate(u)`.  (The noise interpretation is not read by this solver.) -/
theorem semi_implicit_adds_same_increment (S : Sys K) (k : Nat) (u xi : Array K)
    (hs : S.s * S.s = S.dt) (hs0 : 0 ≤ S.s)
    (h1 : ∀ i, i < S.n → RootOn S.sqrt (get (S.var u) i * get S.inv (i % S.ncell)))
    (h2 : ∀ i, i < S.n → RootOn S.sqrt (S.dt * (get (S.var u) i * get S.inv (i % S.ncell)))) :
    let base := tab S.n fun i => get u i + get (S.emIncrement u xi) i
    S.step .implicit k u xi
      = siIterate S k base S.maxiter (siGuess S.n S.dt base (S.rate k u)) := by
  intro base
  have hb : siRef S.n u xi (rootsSI S.sqrt S.n S.ncell S.dt (S.var u) S.inv) = base := by
    apply tab_congr
    intro i hi
    rw [Sys.emIncrement, get_tab _ hi, rootsSI, get_tab _ hi, rootsEM, get_tab _ hi, siRefCell]
    have e : S.dt * get (S.var u) i * get S.inv (i % S.ncell)
        = S.dt * (get (S.var u) i * get S.inv (i % S.ncell)) := by ring
    rw [e, root_mul hs hs0 (h1 i hi) (h2 i hi)]
  simp only [Sys.step, hb]

theorem siIterate_congr_interp (S : Sys K) (I : Interp) (k : Nat) (base : Array K) :
    ∀ (fuel : Nat) (cur : Array K),
      siIterate { S with interp := I } k base fuel cur = siIterate S k base fuel cur := by
  intro fuel
  induction fuel with
  | zero => intro cur; rfl
  | succ f ih => intro cur; simp only [siIterate]; rw [ih]

/-- the semi-implicit step does not depend on the noise interpretation (observation about
pde/solvers/implicit.py: `_noise_drift_factor` is never read) -/
theorem semi_implicit_ignores_interpretation (S : Sys K) (I : Interp) (k : Nat) (u xi : Array K) :
    Sys.step { S with interp := I } .implicit k u xi = S.step .implicit k u xi := by
  simp only [Sys.step]
  exact siIterate_congr_interp S I k _ _ _

theorem root_zero {sqrt : K → K} (h : RootOn sqrt 0) : sqrt 0 = 0 := by
  have := h.1
  exact mul_self_eq_zero.mp this

/-- **A vanishing variance gives the deterministic result**, for every solver: the explicit
solvers return the deterministic Euler step `u + dt * rate`, the semi-implicit solver the
deterministic implicit step - whatever the normal numbers are. -/
theorem zero_variance_is_deterministic (S : Sys K) (k : Nat) (u xi : Array K)
    (h0 : RootOn S.sqrt 0) (hreal : S.real = none)
    (hv : ∀ i, i < S.n → get (S.var u) i = 0) (hvd : ∀ i, i < S.n → get (S.varDiff u) i = 0) :
    S.step .euler k u xi = some (S.eulerStep k u) ∧
    S.step .milstein k u xi = some (S.eulerStep k u) ∧
    S.step .implicit k u xi = S.detImplicitStep k u := by
  have r0 := root_zero h0
  refine ⟨?_, ?_, ?_⟩
  · simp only [Sys.step, Sys.eulerStep, hreal, Option.map_none]
    congr 1
    apply tab_congr
    intro i hi
    rw [rootsEM, get_tab _ hi, hv i hi, hvd i hi, zero_mul, r0]
    unfold emCell realizeCell realAt eulerCell
    cases S.interp.hasDrift <;> simp
  · simp only [Sys.step, Sys.eulerStep, hreal, Option.map_none]
    congr 1
    apply tab_congr
    intro i hi
    rw [rootsEM, get_tab _ hi, hv i hi, hvd i hi, zero_mul, r0]
    unfold milCell realizeCell realAt eulerCell
    simp
  · have hb : siRef S.n u xi (rootsSI S.sqrt S.n S.ncell S.dt (S.var u) S.inv)
        = tab S.n fun i => get u i := by
      apply tab_congr
      intro i hi
      rw [rootsSI, get_tab _ hi, hv i hi, mul_zero, zero_mul, r0, siRefCell]
      ring
    have hg : ∀ r : Array K, siGuess S.n S.dt (tab S.n fun i => get u i) r = siGuess S.n S.dt u r := by
      intro r
      apply tab_congr
      intro i hi
      rw [get_tab _ hi]
    have hit : ∀ (fuel : Nat) (cur : Array K),
        siIterate S k (tab S.n fun i => get u i) fuel cur = siIterate S k u fuel cur := by
      intro fuel
      induction fuel with
      | zero => intro cur; rfl
      | succ f ih => intro cur; simp only [siIterate, hg]; rw [ih]
    simp only [Sys.step, Sys.detImplicitStep, hb, hg, hit]

/-! ### runs: one array of the stream per step -/

/-- **One draw per step.**  A successful `m`-step run consumed exactly the first `m` arrays of
the stream (the rest is handed back untouched) and its result is the result of the run on
those `m` arrays alone. -/
theorem one_draw_per_step (S : Sys K) (sol : Solver) :
    ∀ (m k : Nat) (u : Array K) (xs : List (Array K)) (u' : Array K) (rest : List (Array K)),
      S.run sol k m u xs = some (u', rest) →
        m ≤ xs.length ∧ rest = xs.drop m ∧ S.run sol k m u (xs.take m) = some (u', []) := by
  intro m
  induction m with
  | zero =>
    intro k u xs u' rest h
    simp only [Sys.run, Option.some.injEq, Prod.mk.injEq] at h
    simp [Sys.run, h.1, h.2]
  | succ m ih =>
    intro k u xs u' rest h
    cases xs with
    | nil => simp [Sys.run] at h
    | cons x xs =>
      simp only [Sys.run] at h
      cases hstep : S.step sol k u x with
      | none => simp [hstep] at h
      | some u1 =>
        simp only [hstep] at h
        obtain ⟨a, b, c⟩ := ih (k + 1) u1 xs u' rest h
        refine ⟨by simp; omega, by simpa using b, ?_⟩
        simp only [List.take_succ_cons, Sys.run, hstep]
        exact c

/-- the arrays are used in order: step number `m` (0-based) of a run takes array number `m` -/
theorem run_succ (S : Sys K) (sol : Solver) :
    ∀ (m k : Nat) (u : Array K) (xs : List (Array K)),
      S.run sol k (m + 1) u xs =
        (S.run sol k m u xs).bind fun p =>
          match p.2 with
          | [] => none
          | x :: r => (S.step sol (k + m) p.1 x).map fun u' => (u', r) := by
  intro m
  induction m with
  | zero =>
    intro k u xs
    cases xs with
    | nil => simp [Sys.run]
    | cons x xs =>
      simp only [Sys.run, Option.bind_some, Nat.add_zero]
      cases S.step sol k u x <;> simp
  | succ m ih =>
    intro k u xs
    cases xs with
    | nil => simp [Sys.run]
    | cons x xs =>
      rw [Sys.run]
      cases hstep : S.step sol k u x with
      | none => simp [Sys.run, hstep]
      | some u1 =>
        simp only []
        rw [ih (k + 1) u1 xs]
        conv_rhs => rw [Sys.run]
        simp only [hstep]
        have : k + 1 + m = k + (m + 1) := by omega
        rw [this]

/-- a run only depends on the first `m` arrays of the stream: two streams with the same first
`m` arrays (same seed) give the same final state -/
theorem run_depends_only_on_prefix (S : Sys K) (sol : Solver) :
    ∀ (m k : Nat) (u : Array K) (xs ys : List (Array K)), xs.take m = ys.take m →
      m ≤ xs.length → m ≤ ys.length →
      (S.run sol k m u xs).map Prod.fst = (S.run sol k m u ys).map Prod.fst := by
  intro m
  induction m with
  | zero => intro k u xs ys _ _ _; simp [Sys.run]
  | succ m ih =>
    intro k u xs ys h hx hy
    cases xs with
    | nil => simp at hx
    | cons x xs =>
      cases ys with
      | nil => simp at hy
      | cons y ys =>
        simp only [List.take_succ_cons, List.cons.injEq] at h
        obtain ⟨rfl, h⟩ := h
        simp only [Sys.run]
        cases S.step sol k u x with
        | none => rfl
        | some u1 => exact ih (k + 1) u1 xs ys h (by simpa using hx) (by simpa using hy)

/-- the explicit solvers never fail: with at least `m` arrays in the stream the run succeeds
and hands back exactly the arrays after the first `m` -/
theorem run_explicit_total (S : Sys K) (sol : Solver) (hsol : sol ≠ .implicit) :
    ∀ (m k : Nat) (u : Array K) (xs : List (Array K)), m ≤ xs.length →
      ∃ u', S.run sol k m u xs = some (u', xs.drop m) := by
  intro m
  induction m with
  | zero => intro k u xs _; exact ⟨u, by simp [Sys.run]⟩
  | succ m ih =>
    intro k u xs h
    cases xs with
    | nil => simp at h
    | cons x xs =>
      have : ∃ u1, S.step sol k u x = some u1 := by
        cases sol with
        | euler => exact ⟨_, rfl⟩
        | milstein => exact ⟨_, rfl⟩
        | implicit => exact absurd rfl hsol
      obtain ⟨u1, h1⟩ := this
      obtain ⟨u', h2⟩ := ih (k + 1) u1 xs (by simpa using h)
      exact ⟨u', by simp only [Sys.run, h1, List.drop_succ_cons]; exact h2⟩

/-- **Vanishing variance, whole runs**: if the variance and its derivative vanish on every
state, an `m`-step Euler-Maruyama or Milstein run equals the deterministic Euler run, whatever
the stream contains (but it still consumes `m` arrays) -/
theorem run_zero_variance (S : Sys K) (sol : Solver) (hsol : sol ≠ .implicit)
    (h0 : RootOn S.sqrt 0) (hreal : S.real = none)
    (hv : ∀ u i, i < S.n → get (S.var u) i = 0) (hvd : ∀ u i, i < S.n → get (S.varDiff u) i = 0) :
    ∀ (m k : Nat) (u : Array K) (xs : List (Array K)), m ≤ xs.length →
      S.run sol k m u xs = some (S.runDet k m u, xs.drop m) := by
  intro m
  induction m with
  | zero => intro k u xs _; simp [Sys.run, Sys.runDet]
  | succ m ih =>
    intro k u xs h
    cases xs with
    | nil => simp at h
    | cons x xs =>
      obtain ⟨he, hm, _⟩ := zero_variance_is_deterministic S k u x h0 hreal (hv u) (hvd u)
      have h1 : S.step sol k u x = some (S.eulerStep k u) := by
        cases sol with
        | euler => exact he
        | milstein => exact hm
        | implicit => exact absurd rfl hsol
      simp only [Sys.run, h1, Sys.runDet, List.drop_succ_cons]
      exact ih (k + 1) _ xs (by simpa using h)

end sys
/-! ### interpretation table and drift -/
section drift
variable {K : Type} [Field K] [LinearOrder K] [IsStrictOrderedRing K]

theorem hasDrift_iff_alpha_ne_zero (I : Interp) : I.hasDrift = true ↔ (I.alpha : K) ≠ 0 := by
  cases I <;> simp [Interp.hasDrift, Interp.alpha, zero_eq, half_eq]

/-- **Drift of the interpretations** (Euler-Maruyama entry): Itô adds none, Stratonovich
(`alpha = 1/2`) and anti-Itô (`alpha = 1`) add `0.5 * alpha * dt * (dv/dc) / V`. -/
theorem stratonovich_drift (dt s u rate vd xi sq inv V : K) (hinv : inv = 1 / V) :
    emCell dt s (Interp.alpha .ito) (Interp.hasDrift .ito) u rate vd xi sq inv
      = u + dt * rate + s * sq * xi ∧
    emCell dt s (Interp.alpha .stratonovich) (Interp.hasDrift .stratonovich) u rate vd xi sq inv
      = u + dt * rate + s * sq * xi + 1 / 2 * (1 / 2) * dt * vd / V ∧
    emCell dt s (Interp.alpha .antiIto) (Interp.hasDrift .antiIto) u rate vd xi sq inv
      = u + dt * rate + s * sq * xi + 1 / 2 * 1 * dt * vd / V := by
  subst hinv
  refine ⟨?_, ?_, ?_⟩ <;>
    simp only [emCell, Interp.alpha, Interp.hasDrift, half_eq, zero_eq, if_true,
      Bool.false_eq_true, if_false, Nat.cast_one] <;> ring

/-- the same for the Milstein entry (the drift is always evaluated; it is zero for Itô) -/
theorem stratonovich_drift_milstein (I : Interp) (dt s u rate vd xi sq inv V : K)
    (hinv : inv = 1 / V) :
    milCell dt s (Interp.alpha I) u rate vd xi sq inv
      = u + dt * rate + sq * (s * xi) + 1 / 2 * (Interp.alpha I) * dt * vd / V
        + 1 / 4 * vd / V * ((s * xi) * (s * xi) - dt) ∧
    ((Interp.alpha I : K) = 0 ∨ (Interp.alpha I : K) = 1 / 2 ∨ (Interp.alpha I : K) = 1) := by
  subst hinv
  constructor
  · simp only [milCell, half_eq, quarter_eq]; ring
  · cases I <;> simp [Interp.alpha, zero_eq, half_eq]

end drift

/-! ### the steps of a system (what the driver runs) -/
section sysformula
variable {K : Type} [Field K] [LinearOrder K] [IsStrictOrderedRing K]

theorem alpha_zero_of_not_hasDrift (I : Interp) (h : I.hasDrift = false) : (I.alpha : K) = 0 := by
  by_contra hne
  have := (hasDrift_iff_alpha_ne_zero (K := K) I).mpr hne
  rw [h] at this
  exact Bool.false_ne_true this

/-- **One explicit step of the Euler-Maruyama solver**, as the stepper closure performs it: the
variance is evaluated on the unchanged state, its root is taken by the system's root function,
and entry `i` changes by `dt*rate + r*xi + 0.5*alpha*dt*v'/V` with `r = sqrt(v*dt/V) ≥ 0`. -/
theorem sys_euler_step_formula (S : Sys K) (k : Nat) (u xi vol : Array K)
    (hs : S.s * S.s = S.dt) (hs0 : 0 ≤ S.s) (hreal : S.real = none)
    (i : Nat) (hi : i < S.n)
    (hinv : get S.inv (i % S.ncell) = 1 / get vol (i % S.ncell))
    (hroot : RootOn S.sqrt (get (S.var u) i * get S.inv (i % S.ncell))) :
    ∃ (unew : Array K) (r : K), S.step .euler k u xi = some unew ∧ 0 ≤ r ∧
      r * r = get (S.var u) i * S.dt / get vol (i % S.ncell) ∧
      get unew i = get u i + S.dt * get (S.rate k u) i + r * get xi i
        + 1 / 2 * S.interp.alpha * S.dt * get (S.varDiff u) i / get vol (i % S.ncell) := by
  have hsq : get (rootsEM S.sqrt S.n S.ncell (S.var u) S.inv) i
      = S.sqrt (get (S.var u) i * get S.inv (i % S.ncell)) := by rw [rootsEM, get_tab _ hi]
  obtain ⟨r, hr0, hr2, hform⟩ := em_step_formula S.n S.ncell S.dt S.s S.interp.alpha S.interp.hasDrift
    u (S.rate k u) (S.var u) (S.varDiff u) xi (rootsEM S.sqrt S.n S.ncell (S.var u) S.inv) S.inv vol none
    hs hs0 (alpha_zero_of_not_hasDrift S.interp) i hi hinv (by rw [hsq]; exact hroot.1)
    (by rw [hsq]; exact hroot.2)
  have hstep : S.step .euler k u xi = some (emStep S.n S.ncell S.dt S.s S.interp.alpha
      S.interp.hasDrift u (S.rate k u) (S.varDiff u) xi (rootsEM S.sqrt S.n S.ncell (S.var u) S.inv)
      S.inv none) := by simp only [Sys.step, hreal, Option.map_none]
  exact ⟨_, r, hstep, hr0, hr2, by rw [hform]; simp [realTerm]⟩

/-- **One explicit step of the Milstein solver**: as Euler-Maruyama plus
`0.25*v'/V*(dW^2 - dt)`, `dW^2 = dt*xi^2`. -/
theorem sys_milstein_step_formula (S : Sys K) (k : Nat) (u xi vol : Array K)
    (hs : S.s * S.s = S.dt) (hs0 : 0 ≤ S.s) (hreal : S.real = none)
    (i : Nat) (hi : i < S.n)
    (hinv : get S.inv (i % S.ncell) = 1 / get vol (i % S.ncell))
    (hroot : RootOn S.sqrt (get (S.var u) i * get S.inv (i % S.ncell))) :
    ∃ (unew : Array K) (r dW : K), S.step .milstein k u xi = some unew ∧ 0 ≤ r ∧
      r * r = get (S.var u) i * S.dt / get vol (i % S.ncell) ∧
      dW * dW = S.dt * (get xi i * get xi i) ∧
      get unew i = get u i + S.dt * get (S.rate k u) i + r * get xi i
        + 1 / 2 * S.interp.alpha * S.dt * get (S.varDiff u) i / get vol (i % S.ncell)
        + 1 / 4 * get (S.varDiff u) i / get vol (i % S.ncell) * (dW * dW - S.dt) := by
  have hsq : get (rootsEM S.sqrt S.n S.ncell (S.var u) S.inv) i
      = S.sqrt (get (S.var u) i * get S.inv (i % S.ncell)) := by rw [rootsEM, get_tab _ hi]
  obtain ⟨r, dW, hr0, hr2, hdW, hform⟩ := milstein_step_formula S.n S.ncell S.dt S.s S.interp.alpha
    u (S.rate k u) (S.var u) (S.varDiff u) xi (rootsEM S.sqrt S.n S.ncell (S.var u) S.inv) S.inv vol none
    hs hs0 i hi hinv (by rw [hsq]; exact hroot.1) (by rw [hsq]; exact hroot.2)
  have hstep : S.step .milstein k u xi = some (milStep S.n S.ncell S.dt S.s S.interp.alpha
      u (S.rate k u) (S.varDiff u) xi (rootsEM S.sqrt S.n S.ncell (S.var u) S.inv)
      S.inv none) := by simp only [Sys.step, hreal, Option.map_none]
  exact ⟨_, r, dW, hstep, hr0, hr2, hdW, by rw [hform]; simp [realTerm]⟩

/-! ### composition: whole runs follow the documented update with the successive arrays -/

/-- **The normal numbers of a run are exactly the successive arrays of the stream.**  A successful
`m`-step run passes through states `st 0 = u, ..., st m = u'` such that step number `j` (0-based)
is the single step of the solver applied to `st j` with array number `j` of the stream: every
array is used by exactly one step, in order, none twice, none skipped.  (That the stream *is* the
sequence of `standard_normal` draws of the generator handed to the equation is outside the model:
the generator is external; the harness ties it with a twin generator.) -/
theorem run_uses_successive_draws (S : Sys K) (sol : Solver) :
    ∀ (m k : Nat) (u : Array K) (xs : List (Array K)) (u' : Array K) (rest : List (Array K)),
      S.run sol k m u xs = some (u', rest) →
        ∃ st : Nat → Array K, st 0 = u ∧ st m = u' ∧
          ∀ j, j < m → ∃ x, xs[j]? = some x ∧ S.step sol (k + j) (st j) x = some (st (j + 1)) := by
  intro m
  induction m with
  | zero =>
    intro k u xs u' rest h
    simp only [Sys.run, Option.some.injEq, Prod.mk.injEq] at h
    exact ⟨fun _ => u, rfl, h.1, fun j hj => absurd hj (Nat.not_lt_zero j)⟩
  | succ m ih =>
    intro k u xs u' rest h
    cases xs with
    | nil => simp [Sys.run] at h
    | cons x xs =>
      simp only [Sys.run] at h
      cases hstep : S.step sol k u x with
      | none => simp [hstep] at h
      | some u1 =>
        simp only [hstep] at h
        obtain ⟨st, h0, hm, hst⟩ := ih (k + 1) u1 xs u' rest h
        refine ⟨fun j => match j with | 0 => u | j + 1 => st j, rfl, hm, ?_⟩
        intro j hj
        cases j with
        | zero => exact ⟨x, by simp, by simp only [Nat.add_zero]; rw [hstep, h0]⟩
        | succ j =>
          obtain ⟨y, hy, hs⟩ := hst j (by omega)
          refine ⟨y, by simpa using hy, ?_⟩
          have e : k + (j + 1) = k + 1 + j := by omega
          simp only [e]
          exact hs

/-- **A whole Euler-Maruyama run is the documented update applied with the successive arrays.**
Composition of `run_uses_successive_draws` with `sys_euler_step_formula`: in a successful `m`-step
run, for every step `j < m` and every entry `i`, the state changes by
`dt*rate + r*xi_j[i] + 0.5*alpha*dt*v'/V` where `xi_j` is array number `j` of the stream and
`r ≥ 0`, `r*r = v*dt/V`, the variance `v`, its derivative `v'` and the rate being evaluated on the
state before the step. -/
theorem run_euler_documented (S : Sys K) (vol : Array K)
    (hs : S.s * S.s = S.dt) (hs0 : 0 ≤ S.s) (hreal : S.real = none)
    (hinv : ∀ i, i < S.n → get S.inv (i % S.ncell) = 1 / get vol (i % S.ncell))
    (hroot : ∀ (u : Array K) (i : Nat), i < S.n →
      RootOn S.sqrt (get (S.var u) i * get S.inv (i % S.ncell)))
    (m k : Nat) (u : Array K) (xs : List (Array K)) (u' : Array K) (rest : List (Array K))
    (h : S.run .euler k m u xs = some (u', rest)) :
    ∃ st : Nat → Array K, st 0 = u ∧ st m = u' ∧ rest = xs.drop m ∧
      ∀ j, j < m → ∃ x, xs[j]? = some x ∧ ∀ i, i < S.n → ∃ r : K, 0 ≤ r ∧
        r * r = get (S.var (st j)) i * S.dt / get vol (i % S.ncell) ∧
        get (st (j + 1)) i = get (st j) i + S.dt * get (S.rate (k + j) (st j)) i + r * get x i
          + 1 / 2 * S.interp.alpha * S.dt * get (S.varDiff (st j)) i / get vol (i % S.ncell) := by
  obtain ⟨st, h0, hm, hst⟩ := run_uses_successive_draws S .euler m k u xs u' rest h
  refine ⟨st, h0, hm, (one_draw_per_step S .euler m k u xs u' rest h).2.1, ?_⟩
  intro j hj
  obtain ⟨x, hx, hstep⟩ := hst j hj
  refine ⟨x, hx, ?_⟩
  intro i hi
  obtain ⟨unew, r, hun, hr0, hr2, hform⟩ := sys_euler_step_formula S (k + j) (st j) x vol hs hs0 hreal
    i hi (hinv i hi) (hroot (st j) i hi)
  rw [hstep] at hun
  cases hun
  exact ⟨r, hr0, hr2, hform⟩

/-- the same for the Milstein solver, with the correction `0.25*v'/V*(dW^2 - dt)`, `dW^2 = dt*xi^2` -/
theorem run_milstein_documented (S : Sys K) (vol : Array K)
    (hs : S.s * S.s = S.dt) (hs0 : 0 ≤ S.s) (hreal : S.real = none)
    (hinv : ∀ i, i < S.n → get S.inv (i % S.ncell) = 1 / get vol (i % S.ncell))
    (hroot : ∀ (u : Array K) (i : Nat), i < S.n →
      RootOn S.sqrt (get (S.var u) i * get S.inv (i % S.ncell)))
    (m k : Nat) (u : Array K) (xs : List (Array K)) (u' : Array K) (rest : List (Array K))
    (h : S.run .milstein k m u xs = some (u', rest)) :
    ∃ st : Nat → Array K, st 0 = u ∧ st m = u' ∧ rest = xs.drop m ∧
      ∀ j, j < m → ∃ x, xs[j]? = some x ∧ ∀ i, i < S.n → ∃ r dW : K, 0 ≤ r ∧
        r * r = get (S.var (st j)) i * S.dt / get vol (i % S.ncell) ∧
        dW * dW = S.dt * (get x i * get x i) ∧
        get (st (j + 1)) i = get (st j) i + S.dt * get (S.rate (k + j) (st j)) i + r * get x i
          + 1 / 2 * S.interp.alpha * S.dt * get (S.varDiff (st j)) i / get vol (i % S.ncell)
          + 1 / 4 * get (S.varDiff (st j)) i / get vol (i % S.ncell) * (dW * dW - S.dt) := by
  obtain ⟨st, h0, hm, hst⟩ := run_uses_successive_draws S .milstein m k u xs u' rest h
  refine ⟨st, h0, hm, (one_draw_per_step S .milstein m k u xs u' rest h).2.1, ?_⟩
  intro j hj
  obtain ⟨x, hx, hstep⟩ := hst j hj
  refine ⟨x, hx, ?_⟩
  intro i hi
  obtain ⟨unew, r, dW, hun, hr0, hr2, hdW, hform⟩ := sys_milstein_step_formula S (k + j) (st j) x vol
    hs hs0 hreal i hi (hinv i hi) (hroot (st j) i hi)
  rw [hstep] at hun
  cases hun
  exact ⟨r, dW, hr0, hr2, hdW, hform⟩

/-- the semi-implicit solver, whole runs: every step `j` is the fixed-point iteration started from
`st j + (Euler-Maruyama noise increment with array number j)` -/
theorem run_implicit_documented (S : Sys K)
    (hs : S.s * S.s = S.dt) (hs0 : 0 ≤ S.s)
    (h1 : ∀ (u : Array K) (i : Nat), i < S.n →
      RootOn S.sqrt (get (S.var u) i * get S.inv (i % S.ncell)))
    (h2 : ∀ (u : Array K) (i : Nat), i < S.n →
      RootOn S.sqrt (S.dt * (get (S.var u) i * get S.inv (i % S.ncell))))
    (m k : Nat) (u : Array K) (xs : List (Array K)) (u' : Array K) (rest : List (Array K))
    (h : S.run .implicit k m u xs = some (u', rest)) :
    ∃ st : Nat → Array K, st 0 = u ∧ st m = u' ∧ rest = xs.drop m ∧
      ∀ j, j < m → ∃ x, xs[j]? = some x ∧
        let base := tab S.n fun i => get (st j) i + get (S.emIncrement (st j) x) i
        siIterate S (k + j) base S.maxiter (siGuess S.n S.dt base (S.rate (k + j) (st j)))
          = some (st (j + 1)) := by
  obtain ⟨st, h0, hm, hst⟩ := run_uses_successive_draws S .implicit m k u xs u' rest h
  refine ⟨st, h0, hm, (one_draw_per_step S .implicit m k u xs u' rest h).2.1, ?_⟩
  intro j hj
  obtain ⟨x, hx, hstep⟩ := hst j hj
  refine ⟨x, hx, ?_⟩
  have := semi_implicit_adds_same_increment S (k + j) (st j) x hs hs0 (h1 (st j)) (h2 (st j))
  simp only at this ⊢
  rw [← this]
  exact hstep

end sysformula

/-! ### the documented terms are the textbook Milstein scheme -/
section textbook
variable {R A : Type} [CommRing R] [Field A] [CharZero A] [Algebra R A]

/-- differentiating `b*b = v/V` (`V` constant): `2 b b' = v'/V` -/
theorem two_b_Db (D : Derivation R A A) (b v Vinv : A) (hb : b * b = v * Vinv)
    (hV : D Vinv = 0) : 2 * (b * D b) = D v * Vinv := by
  have h := congrArg D hb
  rw [Derivation.leibniz, Derivation.leibniz, hV] at h
  simp only [smul_eq_mul, mul_zero, zero_add] at h
  linear_combination h

/-- the same in any commutative ring with a derivation (no division): multiply by `1/4` to read
`(1/2) b b' X = (1/4) (v'/V) X` -/
theorem milstein_term_is_textbook_ring {R A : Type} [CommRing R] [CommRing A] [Algebra R A]
    (D : Derivation R A A) (b v Vinv X : A) (hb : b * b = v * Vinv) (hV : D Vinv = 0) :
    2 * (b * D b * X) = D v * Vinv * X := by
  have h := congrArg D hb
  rw [Derivation.leibniz, Derivation.leibniz, hV] at h
  simp only [smul_eq_mul, mul_zero, zero_add] at h
  linear_combination X * h

/-- **The documented correction is the Milstein term.**  In a field with a derivation `D`
(functions of the field value, `D = d/dc`), with noise amplitude `b`, `b*b = v/V` and constant
cell volume: `(1/2) b b' (dW^2 - dt) = (1/4) v'/V (dW^2 - dt)`. -/
theorem milstein_term_is_textbook (D : Derivation R A A) (b v Vinv X : A)
    (hb : b * b = v * Vinv) (hV : D Vinv = 0) :
    1 / 2 * b * D b * X = 1 / 4 * D v * Vinv * X := by
  have h := two_b_Db D b v Vinv hb hV
  linear_combination (X / 4) * h

/-- the documented drift is the Itô-equivalent drift `alpha * b * b' * dt` of an
`alpha`-interpreted equation -/
theorem drift_is_textbook (D : Derivation R A A) (b v Vinv alpha dt : A)
    (hb : b * b = v * Vinv) (hV : D Vinv = 0) :
    1 / 2 * dt * alpha * D v * Vinv = alpha * (b * D b) * dt := by
  have h := two_b_Db D b v Vinv hb hV
  linear_combination (-(alpha * dt) / 2) * h

/-- the model's Milstein entry, evaluated in a differential field, *is* the textbook Milstein
scheme `u + (a + alpha b b') dt + b dW + (1/2) b b' (dW^2 - dt)` -/
theorem milstein_step_is_textbook (D : Derivation R A A) (dt s alpha u rate v xi b Vinv : A)
    (hb : b * b = v * Vinv) (hV : D Vinv = 0) :
    milCell dt s alpha u rate (D v) xi b Vinv
      = u + (rate + alpha * (b * D b)) * dt + b * (s * xi)
        + 1 / 2 * b * D b * ((s * xi) * (s * xi) - dt) := by
  have h := two_b_Db D b v Vinv hb hV
  simp only [milCell, half_eq, quarter_eq]
  linear_combination (-(alpha * dt) / 2 - ((s * xi) * (s * xi) - dt) / 4) * h

/-- the model's Euler-Maruyama entry is the Euler-Maruyama scheme of the Itô-equivalent
equation `du = (a + alpha b b') dt + b dW` -/
theorem em_step_is_textbook (D : Derivation R A A) (dt s alpha u rate v xi b Vinv : A)
    (hb : b * b = v * Vinv) (hV : D Vinv = 0) :
    emCell dt s alpha true u rate (D v) xi b Vinv
      = u + (rate + alpha * (b * D b)) * dt + b * (s * xi) := by
  have h := two_b_Db D b v Vinv hb hV
  simp only [emCell, half_eq, if_true]
  linear_combination (-(alpha * dt) / 2) * h

end textbook

/-! ### layout of the variance -/
section layout
variable {K : Type} [Field K]

theorem length_collVarsFrom (noise : List K) :
    ∀ (ms : List Nat) (f0 : Nat), (collVarsFrom noise f0 ms).length = ms.sum := by
  intro ms
  induction ms with
  | nil => intro f0; simp [collVarsFrom]
  | cons m ms ih => intro f0; simp [collVarsFrom, ih]

theorem collVarsFrom_get (noise : List K) :
    ∀ (ms : List Nat) (f0 f j : Nat) (hf : f < ms.length), j < ms[f] →
      (collVarsFrom noise f0 ms).getD ((ms.take f).sum + j) zero
        = noise.getD ((f0 + f) % noise.length) zero := by
  intro ms
  induction ms with
  | nil => intro f0 f j hf; simp at hf
  | cons m ms ih =>
    intro f0 f j hf hj
    cases f with
    | zero =>
      simp only [List.getElem_cons_zero] at hj
      simp only [collVarsFrom, List.take_zero, List.sum_nil, Nat.zero_add, Nat.add_zero]
      rw [List.getD_append _ _ _ _ (by simpa using hj), List.getD_replicate _ hj]
    | succ f =>
      simp only [List.getElem_cons_succ] at hj
      simp only [collVarsFrom, List.take_succ_cons, List.sum_cons]
      rw [List.getD_append_right _ _ _ _ (by simp; omega)]
      simp only [List.length_replicate]
      have e : m + (List.take f ms).sum + j - m = (List.take f ms).sum + j := by omega
      rw [e, ih (f0 + 1) f j (by simpa using hf) hj]
      congr 2; omega

/-- **Per-field variances of a collection.**  Every entry of every component of field `f`
(components `off .. off + ncomps[f] - 1`, `off` = number of components of the fields before it)
carries the variance `noise[f]` (a one-element `noise` is broadcast to all fields), in every cell. -/
theorem variance_layout_per_field (noise : List K) (ncomps : List Nat) (ncell : Nat)
    (f j cell : Nat) (hf : f < ncomps.length) (hj : j < ncomps[f]) (hc : cell < ncell) :
    get (constVar ncell (collVars noise ncomps)) (((ncomps.take f).sum + j) * ncell + cell)
      = noise.getD (f % noise.length) zero := by
  have hlen : (collVars noise ncomps).length = ncomps.sum := length_collVarsFrom noise ncomps 0
  have hsum : (ncomps.take f).sum + ncomps[f] ≤ ncomps.sum := by
    have := List.sum_take_add_sum_drop ncomps f
    have hd : ncomps.drop f = ncomps[f] :: ncomps.drop (f + 1) := by
      rw [List.drop_eq_getElem_cons hf]
    rw [hd, List.sum_cons] at this
    omega
  have hpos : 0 < ncell := by omega
  have hi : ((ncomps.take f).sum + j) * ncell + cell < (collVars noise ncomps).length * ncell := by
    rw [hlen]
    calc ((ncomps.take f).sum + j) * ncell + cell
        < ((ncomps.take f).sum + j) * ncell + ncell := by omega
      _ = ((ncomps.take f).sum + j + 1) * ncell := by ring
      _ ≤ ncomps.sum * ncell := Nat.mul_le_mul_right _ (by omega)
  rw [constVar, get_tab _ hi]
  have hd : (((ncomps.take f).sum + j) * ncell + cell) / ncell = (ncomps.take f).sum + j := by
    rw [Nat.mul_comm, Nat.mul_add_div hpos, Nat.div_eq_of_lt hc, Nat.add_zero]
  rw [hd, collVars, collVarsFrom_get noise ncomps 0 f j hf hj, Nat.zero_add]

/-- exactly one variance per field when `noise` has one entry per field -/
theorem variance_layout_per_field_full (noise : List K) (ncomps : List Nat) (ncell : Nat)
    (hlen : noise.length = ncomps.length)
    (f j cell : Nat) (hf : f < ncomps.length) (hj : j < ncomps[f]) (hc : cell < ncell) :
    get (constVar ncell (collVars noise ncomps)) (((ncomps.take f).sum + j) * ncell + cell)
      = noise[f]'(by omega) := by
  have hf' : f < noise.length := by omega
  rw [variance_layout_per_field noise ncomps ncell f j cell hf hj hc, Nat.mod_eq_of_lt hf']
  simp [List.getD_eq_getElem?_getD, List.getElem?_eq_getElem hf']

/-- **Per-component variances of a tensor field**: component `c` carries `noise[c]` when
`noise` has the shape of the tensor, and `noise[0]` when it is a scalar, in every cell -/
theorem variance_layout_per_component (noise : List K) (ncomp ncell c cell : Nat)
    (hc : c < ncomp) (hcell : cell < ncell) :
    get (constVar ncell (fieldVars noise ncomp)) (c * ncell + cell)
      = noise.getD (c % noise.length) zero ∧
    (noise.length = ncomp → noise.getD (c % noise.length) zero = noise.getD c zero) ∧
    (noise.length = 1 → noise.getD (c % noise.length) zero = noise.getD 0 zero) := by
  have hpos : 0 < ncell := by omega
  have hlen : (fieldVars noise ncomp).length = ncomp := by simp [fieldVars]
  have hi : c * ncell + cell < (fieldVars noise ncomp).length * ncell := by
    rw [hlen]
    calc c * ncell + cell < c * ncell + ncell := by omega
      _ = (c + 1) * ncell := by ring
      _ ≤ ncomp * ncell := Nat.mul_le_mul_right _ (by omega)
  have hd : (c * ncell + cell) / ncell = c := by
    rw [Nat.mul_comm, Nat.mul_add_div hpos, Nat.div_eq_of_lt hcell, Nat.add_zero]
  refine ⟨?_, ?_, ?_⟩
  · rw [constVar, get_tab _ hi, hd, fieldVars]
    simp [List.getD_eq_getElem?_getD, hc]
  · intro h; rw [h, Nat.mod_eq_of_lt hc]
  · intro h; rw [h, Nat.mod_one]

end layout
/-! ### non-vacuity: the hypotheses are satisfiable by concrete non-trivial states -/
section examples
open Polynomial

/-- a rational root table, good enough for the examples -/
def exSqrt (x : ℚ) : ℚ :=
  if x = 1 then 1 else if x = 4 then 2 else if x = 1 / 4 then 1 / 2 else if x = 1 / 16 then 1 / 4 else 0

/-- two cells with volumes 4 and 1 (non-uniform), one component; `dt = 1/4`, `s = 1/2`; rate `-u`;
variances 4 and 1 with derivatives 2 and 3 -/
def exSys (I : Interp) (v : Array ℚ) : Sys ℚ where
  n := 2
  ncell := 2
  dt := 1 / 4
  s := 1 / 2
  interp := I
  inv := #[1 / 4, 1]
  rate := fun _ u => tab 2 fun i => -(get u i)
  var := fun _ => v
  varDiff := fun _ => if v = #[0, 0] then #[0, 0] else #[2, 3]
  real := none
  sqrt := exSqrt
  maxiter := 100
  maxerr2 := 1 / 100000000

/-- the root hypotheses of `em_step_formula` hold: `s*s = dt`, `sq*sq = v*inv`, `inv = 1/V` -/
example : (1 / 2 : ℚ) * (1 / 2) = 1 / 4 ∧ exSqrt (4 * (1 / 4)) * exSqrt (4 * (1 / 4)) = 4 * (1 / 4) ∧
    (0:ℚ) ≤ exSqrt (4 * (1 / 4)) ∧ ((1:ℚ) / 4 = 1 / 4) := by
  refine ⟨by norm_num, ?_, ?_, rfl⟩ <;> decide +kernel

/-- a Stratonovich Euler-Maruyama step: old value + `dt*rate` + `s*sq*xi` + `0.5*alpha*dt*dv/V` -/
example : (exSys .stratonovich #[4, 1]).step .euler 0 #[1, 2] #[3, -1]
    = some #[1 - 1 / 4 + 1 / 2 * 1 * 3 + 1 / 2 * (1 / 2) * (1 / 4) * 2 / 4,
             2 - 1 / 2 + 1 / 2 * 1 * (-1) + 1 / 2 * (1 / 2) * (1 / 4) * 3 / 1] := by
  decide +kernel

/-- ... which is not the deterministic step -/
example : (exSys .stratonovich #[4, 1]).step .euler 0 #[1, 2] #[3, -1]
    ≠ some ((exSys .stratonovich #[4, 1]).eulerStep 0 #[1, 2]) := by
  decide +kernel

/-- Milstein differs from Euler-Maruyama by the correction -/
example : (exSys .ito #[4, 1]).step .milstein 0 #[1, 2] #[3, -1]
    = some #[1 - 1 / 4 + 1 / 2 * 1 * 3 + 1 / 4 * 2 / 4 * ((3 / 2) * (3 / 2) - 1 / 4),
             2 - 1 / 2 + 1 / 2 * 1 * (-1) + 1 / 4 * 3 / 1 * ((1 / 2) * (1 / 2) - 1 / 4)] := by
  decide +kernel

/-- a two-step run on a stream of three arrays hands back exactly the third -/
example : ((exSys .ito #[4, 1]).run .milstein 0 2 #[1, 2] [#[3, -1], #[1, 1], #[5, 5]]).map (·.2)
    = some [#[5, 5]] := by
  decide +kernel

/-- the semi-implicit step converges on this system and also consumes one array -/
example : ((exSys .antiIto #[4, 1]).run .implicit 0 1 #[1, 2] [#[3, -1], #[1, 1]]).map (·.2)
    = some [#[1, 1]] := by
  decide +kernel

/-- a stream that is too short is reported, not silently reused -/
example : (exSys .ito #[4, 1]).run .euler 0 2 #[1, 2] [#[3, -1]] = none := by
  decide +kernel

/-- zero variance: the normal numbers do not matter -/
example : (exSys .antiIto #[0, 0]).step .milstein 0 #[1, 2] #[3, -1]
    = some ((exSys .antiIto #[0, 0]).eulerStep 0 #[1, 2]) := by
  decide +kernel

/-- the hypotheses of `run_euler_documented` / `run_milstein_documented` are satisfiable by the
non-trivial two-cell system (non-uniform volumes 4 and 1, Stratonovich): roots, inverse volumes -/
example : (exSys .stratonovich #[4, 1]).s * (exSys .stratonovich #[4, 1]).s = (exSys .stratonovich #[4, 1]).dt ∧
    (0 : ℚ) ≤ (exSys .stratonovich #[4, 1]).s ∧ (exSys .stratonovich #[4, 1]).real = none ∧
    (∀ i, i < (exSys .stratonovich #[4, 1]).n →
      get (exSys .stratonovich #[4, 1]).inv (i % 2) = 1 / get (#[4, 1] : Array ℚ) (i % 2)) ∧
    (∀ (u : Array ℚ) (i : Nat), i < (exSys .stratonovich #[4, 1]).n →
      RootOn (exSys .stratonovich #[4, 1]).sqrt
        (get ((exSys .stratonovich #[4, 1]).var u) i * get (exSys .stratonovich #[4, 1]).inv (i % 2))) := by
  refine ⟨by decide +kernel, by decide +kernel, rfl, ?_, ?_⟩
  · intro i hi
    have hi' : i < 2 := hi
    match i, hi' with
    | 0, _ => decide +kernel
    | 1, _ => decide +kernel
  · intro u i hi
    have hi' : i < 2 := hi
    have hv : (exSys .stratonovich #[4, 1]).var u = #[4, 1] := rfl
    rw [hv]
    unfold RootOn
    match i, hi' with
    | 0, _ => decide +kernel
    | 1, _ => decide +kernel

/-- ... and the run they speak about exists and moves: two Stratonovich Euler-Maruyama steps -/
example : ((exSys .stratonovich #[4, 1]).run .euler 0 2 #[1, 2] [#[3, -1], #[1, 1], #[5, 5]]).isSome = true ∧
    ((exSys .stratonovich #[4, 1]).run .euler 0 2 #[1, 2] [#[3, -1], #[1, 1], #[5, 5]]).map (·.2) = some [#[5, 5]] := by
  constructor <;> decide +kernel

/-- layout: a scalar field and a two-component vector field with variances 1/10 and 3/10 -/
example : collVars [(1 : ℚ) / 10, 3 / 10] [1, 2] = [1 / 10, 3 / 10, 3 / 10] := by decide +kernel
example : collVars [(7 : ℚ) / 10] [1, 2] = [7 / 10, 7 / 10, 7 / 10] := by decide +kernel
example : fieldVars [(1 : ℚ), 2] 4 = [1, 2, 1, 2] := by decide +kernel

/-- the hypotheses of `milstein_term_is_textbook_ring` hold for multiplicative noise
`b = c`, `v = 4 c^2`, `V = 4` in `ℚ[c]` with `D = d/dc` (and `D b = 1 ≠ 0`) -/
example : let D : Derivation ℚ ℚ[X] ℚ[X] := Polynomial.derivative'
    (X : ℚ[X]) * X = (C 4 * X ^ 2) * C (1 / 4) ∧ D (C (1 / 4)) = 0 ∧ D X = 1 := by
  intro D
  refine ⟨?_, by simp [D], by simp [D]⟩
  rw [mul_assoc, mul_comm (X ^ 2), ← mul_assoc, ← C_mul]
  norm_num
  ring

end examples
end PdeVerif.Noise
