import PdeVerif.Model.Cache
import PdeVerif.Lemmas.Basic
import PdeVerif.Lemmas.FracText
import Mathlib.Data.List.Sort
import Mathlib.Data.String.Basic
import Mathlib.Data.List.Nodup
import Std.Data.String.ToNat
/-
C04 - results never depend on what was computed earlier in the process.

Theorems about `PdeVerif.Cache` (Model/Cache.lean):

* `cache_sound_of_faithful`, `events_sound_of_faithful`: for EVERY history of cached calls
  (any methods of an instance, finite-capacity factories, invalidations at arbitrary points)
  every answer is the freshly computed one, provided the key is faithful
  (`key a = key b → sem a = sem b`).  `cache_unsound_of_collision`: the converse shape.
* `bc_key_faithful`, `axis_key_faithful`, `bcs_key_faithful`, `opreq_key_faithful`,
  `grid_key_faithful_mutable` (`grid_key_faithful_builtin` for the derivation before fix D):
  on the modelled graphs of the arguments of the cached `make_operator`, equal keys imply equal
  class, axis, side, rank, normal flag, value and const arrays (dtype, shape, bytes), flip sign,
  operator, dtype key, keyword values, grid class/shape/periodicity/bound reprs.
* `kwargs_order_independent`.
* witnesses that each repaired derivation was NOT faithful: `bc_key_collision_dirichlet_neumann_old`
  (F1), `num_key_collision_old` (A), `array_key_collision_old` (B), `grid_key_collision_old` (D),
  `f1_regression_observable`.
* `helpers_read_current_content`: for every history of {write, relink by a collection, assign
  `_data_full`, interpolate, interpreted rate, numba-compiled rate of a PDE with the field as constant}
  that is `Covered` (no compiled rate, or the proposed fix E present) the value read is the content of
  the field's current buffer; `interpolator_reads_current_buffer` = the instance for the code as it
  is (histories without the compiled rate); `pde_rate_jit_stale_after_write` (finding E: the compiled
  rate of the code as it is returns the copy numba froze), `helpers_read_current_content_fixE`;
  `interpolator_stale_after_relink_old` (F2) and `pde_rate_stale_after_relink_old` (C): witnesses
  without the respective repair.
* observable projections `gridObs`, `bcObs`, `bcsObs`, `ArgObs`/`argObs`, `kwObs`, `opObs` and what a
  key determines: `grid_obs_of_key_eq` (exact values of the bounds, by `fracText_inj` from
  Lemmas/FracText.lean), `arg_obs_of_key_eq`, `kwargs_obs_of_key_eq`, `opreq_obs_of_key_eq`.
* composition: `cache_sound_of_faithful_on`, `events_sound_of_faithful_on` (machine theorems relative
  to a set of admissible requests), `make_operator_cache_sound`, `make_operator_events_sound`,
  `kwargs_method_cache_sound`: every history of modelled requests on the cache keyed by the CURRENT
  derivation returns what a fresh construction returns, for every `build` that is a function of the
  observables; `make_operator_cache_unsound_old`.
* registry (`Registry`, `regRun`): `registry_cache_sound_by_info` - for every history of registrations, removals and
  queries with an operator name the cache whose key contains the resolved `OperatorInfo` answers what the name denotes at
  the moment of the call; `registry_cache_stale_by_name` - the name alone is not a faithful key (seeded change C04-3, and
  on the unchanged tree the direct calls with a name and a `PDE` object: finding I).
* operator table of a PDE with several variables (`prepareK`, `servedK`, `servedBC`): `served_of_faithful_key`,
  `pde_operator_table_faithful`, `pde_operator_table_order_independent`, `pde_bc_per_variable` - the table keyed by
  (variable, operator) serves every variable, in every order, the operator built with the condition selected for it;
  `pde_shared_table_serves_first`, `pde_shared_operator_table_unsound` (kernel-checked witness, seeded change C04-4) -
  the table keyed by the operator only serves the operator of whoever comes first.
-/
set_option linter.unusedSimpArgs false
set_option linter.unusedSectionVars false
set_option linter.unusedVariables false

namespace PdeVerif.Cache
open List

/-! ## (iii) the cache machine -/


section Machine
variable {Req κ V : Type} [DecidableEq κ]

/-- every cached entry is the value of some request with that key -/
def CInv (key : Req → κ) (sem : Req → V) (c : List (κ × V)) : Prop :=
  ∀ k v, c.lookup k = some v → ∃ a, key a = k ∧ v = sem a

theorem lookup_take {α β : Type} [BEq α] (n : Nat) (l : List (α × β)) (k : α) (v : β)
    (h : (l.take n).lookup k = some v) : l.lookup k = some v := by
  induction l generalizing n with
  | nil => simp at h
  | cons p l ih =>
    cases n with
    | zero => simp at h
    | succ n =>
      obtain ⟨a, b⟩ := p
      simp only [List.take_succ_cons, List.lookup_cons] at h ⊢
      cases hkb : (k == a) with
      | true => simpa [hkb] using h
      | false => simp only [hkb] at h ⊢; exact ih n h

theorem CInv_nil (key : Req → κ) (sem : Req → V) : CInv key sem [] := by
  intro k v h; simp at h

theorem call_inv (cap : Option Nat) (key : Req → κ) (sem : Req → V) (c) (r : Req)
    (h : CInv key sem c) : CInv key sem (call cap key sem c r).1 := by
  unfold call
  split
  · exact h
  · have hcons : CInv key sem ((key r, sem r) :: c) := by
      intro k v hk
      simp only [List.lookup_cons] at hk
      split at hk
      · rename_i heq
        have hkr : k = key r := by simpa using heq
        simp at hk
        exact ⟨r, hkr.symm, hk.symm⟩
      · exact h k v hk
    cases cap with
    | none => exact hcons
    | some n =>
      intro k v hk
      exact hcons k v (lookup_take n _ k v hk)

theorem call_sound (cap : Option Nat) (key : Req → κ) (sem : Req → V)
    (faithful : ∀ a b, key a = key b → sem a = sem b)
    (c) (r : Req) (h : CInv key sem c) : (call cap key sem c r).2 = sem r := by
  unfold call
  split
  · rename_i v hv
    obtain ⟨a, ha, rfl⟩ := h _ _ hv
    exact faithful a r ha
  · rfl

/-- **Cache soundness.**  For EVERY history of requests, every cached call returns what a fresh
computation returns, provided the key is faithful. -/
theorem cache_sound_of_faithful (cap : Option Nat) (key : Req → κ) (sem : Req → V)
    (faithful : ∀ a b, key a = key b → sem a = sem b) :
    ∀ (rs : List Req) (c), CInv key sem c → runAll cap key sem c rs = rs.map sem := by
  intro rs
  induction rs with
  | nil => intro c _; rfl
  | cons r rs ih =>
    intro c h
    simp only [runAll, List.map_cons]
    rw [call_sound cap key sem faithful c r h, ih _ (call_inv cap key sem c r h)]

/-- **Observability of a collision.** -/
theorem cache_unsound_of_collision (cap : Option Nat) (hcap : cap ≠ some 0) (key : Req → κ) (sem : Req → V)
    (a b : Req) (hk : key a = key b) (hs : sem a ≠ sem b) :
    runAll cap key sem [] [a, b] = [sem a, sem a] ∧ runAll cap key sem [] [a, b] ≠ [a, b].map sem := by
  have h1 : runAll cap key sem [] [a, b] = [sem a, sem a] := by
    cases cap with
    | none => simp [runAll, call, hk, List.lookup]
    | some n =>
      cases n with
      | zero => exact absurd rfl hcap
      | succ n => simp [runAll, call, hk, List.lookup]
  refine ⟨h1, ?_⟩
  rw [h1]
  simp
  exact hs

theorem lookup_filter_ne {β : Type} (d : List (String × β)) (n n' : String) (h : n' ≠ n) :
    (d.filter (fun p => p.1 != n)).lookup n' = d.lookup n' := by
  induction d with
  | nil => rfl
  | cons p d ih =>
    obtain ⟨a, b⟩ := p
    by_cases ha : a = n
    · subst ha
      have : (n' == a) = false := by simpa using h
      simp [List.filter_cons, List.lookup_cons, this, ih]
    · have hne : (a != n) = true := by simpa using ha
      simp only [List.filter_cons, hne, if_true, List.lookup_cons, ih]

theorem methodCache_set (m : Methods κ V) (n n' : String) (c : List (κ × V)) :
    methodCache (setMethodCache m n c) n' = if n' = n then c else methodCache m n' := by
  cases m with
  | none =>
    by_cases h : n' = n
    · simp [methodCache, setMethodCache, h, List.lookup]
    · have : (n' == n) = false := by simpa using h
      simp [methodCache, setMethodCache, h, List.lookup, this]
  | some d =>
    by_cases h : n' = n
    · simp [methodCache, setMethodCache, h, List.lookup]
    · have : (n' == n) = false := by simpa using h
      simp [methodCache, setMethodCache, h, List.lookup_cons, this, lookup_filter_ne d n n' h]

/-- every method cache of the instance satisfies the entry invariant -/
def MInv (key : String → Req → κ) (sem : String → Req → V) (m : Methods κ V) : Prop :=
  ∀ n, CInv (key n) (sem n) (methodCache m n)

theorem MInv_none (key : String → Req → κ) (sem : String → Req → V) : MInv key sem none := by
  intro n; exact CInv_nil _ _

theorem callMethod_inv (cap : Option Nat) (key : String → Req → κ) (sem : String → Req → V)
    (m : Methods κ V) (n : String) (r : Req) (h : MInv key sem m) :
    MInv key sem (callMethod cap key sem m n r).1 := by
  intro n'
  simp only [callMethod, methodCache_set]
  split
  · next heq => subst heq; exact call_inv cap _ _ _ r (h n')
  · exact h n'

/-- **Soundness of the per-instance `_cache_methods` machine** for every history of cached calls
of any of its methods, interleaved with invalidations at arbitrary points. -/
theorem events_sound_of_faithful (cap : Option Nat) (key : String → Req → κ) (sem : String → Req → V)
    (faithful : ∀ n a b, key n a = key n b → sem n a = sem n b) :
    ∀ (es : List (Ev Req)) (m : Methods κ V), MInv key sem m →
      runEvents cap key sem m es = freshEvents sem es := by
  intro es
  induction es with
  | nil => intro m _; rfl
  | cons e es ih =>
    intro m h
    cases e with
    | call n r =>
      simp only [runEvents, freshEvents]
      have hv : (callMethod cap key sem m n r).2 = sem n r := by
        simp only [callMethod]
        exact call_sound cap _ _ (faithful n) _ r (h n)
      rw [hv, ih _ (callMethod_inv cap key sem m n r h)]
    | drop =>
      simp only [runEvents, freshEvents]
      exact ih none (MInv_none key sem)

end Machine

/-! ## (v) helpers that captured a buffer identity -/

section Heap
variable {κ V : Type} [DecidableEq κ] [DecidableEq V]

/-- every cached interpolator captured the buffer the field currently uses -/
def HInv (s : FieldSt κ V) : Prop := ∀ k b, s.helpers.lookup k = some b → b = s.cur

theorem HInv_newField (v : V) : HInv (newField (κ := κ) v) := by
  intro k b h; simp [newField] at h

/-- the event is not an evaluation of the numba-compiled rate -/
def HEv.notJit : HEv κ V → Bool
  | .rateJit => false
  | _ => true

/-- what one event returns and leaves behind, for every combination of repairs that contains F2 and
C; the compiled rate (`rateJit`) is covered only together with fix E (`content`) -/
theorem hstep_spec (fx : HeapFix) (hi : fx.inval = true) (hc : fx.check = true)
    (s : FieldSt κ V) (e : HEv κ V) (he : fx.content = true ∨ e.notJit = true) (h : HInv s) :
    HInv (hstep fx s e).1 ∧
    (match e with
     | .write v => (hstep fx s e).2 = none ∧ (hstep fx s e).1.bufs (hstep fx s e).1.cur = v
     | .relink => (hstep fx s e).2 = none ∧ (hstep fx s e).1.bufs (hstep fx s e).1.cur = s.bufs s.cur
     | .assignNew v => (hstep fx s e).2 = none ∧ (hstep fx s e).1.bufs (hstep fx s e).1.cur = v
     | .assignSame => (hstep fx s e).2 = none ∧ (hstep fx s e).1.bufs (hstep fx s e).1.cur = s.bufs s.cur
     | .interp _ => (hstep fx s e).2 = some (s.bufs s.cur) ∧ (hstep fx s e).1.bufs (hstep fx s e).1.cur = s.bufs s.cur
     | .rate => (hstep fx s e).2 = some (s.bufs s.cur) ∧ (hstep fx s e).1.bufs (hstep fx s e).1.cur = s.bufs s.cur
     | .rateJit => (hstep fx s e).2 = some (s.bufs s.cur) ∧ (hstep fx s e).1.bufs (hstep fx s e).1.cur = s.bufs s.cur) := by
  cases e with
  | write v =>
    refine ⟨?_, rfl, ?_⟩
    · intro k b hk; exact h k b hk
    · simp [hstep]
  | relink =>
    refine ⟨?_, rfl, ?_⟩
    · intro k b hk; simp [hstep, rebind, hi] at hk
    · simp [hstep, rebind]
  | assignNew v =>
    refine ⟨?_, rfl, ?_⟩
    · intro k b hk; simp [hstep, rebind, hi] at hk
    · simp [hstep, rebind]
  | assignSame => exact ⟨h, rfl, rfl⟩
  | interp k =>
    simp only [hstep]
    split
    · next b hb =>
      have := h k b hb
      subst this
      exact ⟨h, rfl, rfl⟩
    · next hnone =>
      refine ⟨?_, rfl, rfl⟩
      intro k' b hk
      simp only [List.lookup_cons] at hk
      split at hk
      · simp at hk; exact hk.symm
      · exact h k' b hk
  | rate =>
    simp only [hstep]
    split
    · next b hb =>
      by_cases hbc : b = s.cur
      · subst hbc
        simp [hc]
        exact h
      · have : (b != s.cur) = true := by simpa using hbc
        simp [hc, this]
        exact h
    · exact ⟨h, rfl, rfl⟩
  | rateJit =>
    have hcont : fx.content = true := by
      rcases he with he | he
      · exact he
      · simp [HEv.notJit] at he
    simp only [hstep]
    split
    · next b c hb =>
      by_cases hbc : b = s.cur
      · by_cases hcc : c = s.bufs s.cur
        · subst hbc; subst hcc
          simp [hc, hcont]
          exact h
        · subst hbc
          simp [hc, hcont, hcc]
          exact h
      · have : (b != s.cur) = true := by simpa using hbc
        simp [hc, this]
        exact h
    · exact ⟨h, rfl, rfl⟩

/-- all events of the history are covered: either fix E is present or no event evaluates the
compiled rate -/
def Covered (fx : HeapFix) (es : List (HEv κ V)) : Prop :=
  fx.content = true ∨ ∀ e ∈ es, e.notJit = true

/-- **No stale helper (general form).**  With the repairs F2 and C, for every history of {write,
relink by a collection, assignment of `_data_full` (new or same array), interpolate with any
kwargs, interpreted rate, compiled rate} that is `Covered`, every value read is the content of
the field's *current* buffer. -/
theorem helpers_read_current_content (fx : HeapFix) (hi : fx.inval = true) (hc : fx.check = true) :
    ∀ (es : List (HEv κ V)) (s : FieldSt κ V), Covered fx es → HInv s →
      hrun fx s es = href (s.bufs s.cur) es := by
  intro es
  induction es with
  | nil => intro s _ _; rfl
  | cons e es ih =>
    intro s hcov h
    have he : fx.content = true ∨ e.notJit = true := by
      rcases hcov with hcov | hcov
      · exact Or.inl hcov
      · exact Or.inr (hcov e (by simp))
    have hcov' : Covered fx es := by
      rcases hcov with hcov | hcov
      · exact Or.inl hcov
      · exact Or.inr (fun e' he' => hcov e' (by simp [he']))
    obtain ⟨hinv, hspec⟩ := hstep_spec fx hi hc s e he h
    cases e with
    | write v => simp only [hrun, href, hspec.1]; rw [ih _ hcov' hinv, hspec.2]
    | relink => simp only [hrun, href, hspec.1]; rw [ih _ hcov' hinv, hspec.2]
    | assignNew v => simp only [hrun, href, hspec.1]; rw [ih _ hcov' hinv, hspec.2]
    | assignSame => simp only [hrun, href, hspec.1]; rw [ih _ hcov' hinv, hspec.2]
    | interp k => simp only [hrun, href, hspec.1]; rw [ih _ hcov' hinv, hspec.2]
    | rate => simp only [hrun, href, hspec.1]; rw [ih _ hcov' hinv, hspec.2]
    | rateJit => simp only [hrun, href, hspec.1]; rw [ih _ hcov' hinv, hspec.2]

/-- **No stale helper, the code as it is** (`HeapFix.cur`: F2 and C, not E): for every history
WITHOUT evaluations of the numba-compiled rate, every interpolation and every interpreted rate
reads the content of the field's current buffer.  (The compiled rate is NOT covered: see
`pde_rate_jit_stale_after_write`.) -/
theorem interpolator_reads_current_buffer :
    ∀ (es : List (HEv κ V)) (s : FieldSt κ V), (∀ e ∈ es, e.notJit = true) → HInv s →
      hrun HeapFix.cur s es = href (s.bufs s.cur) es :=
  fun es s hnj h => helpers_read_current_content HeapFix.cur rfl rfl es s (Or.inr hnj) h

/-- in particular from a freshly created field -/
theorem interpolator_reads_current_buffer_new (v : V) (es : List (HEv κ V))
    (hnj : ∀ e ∈ es, e.notJit = true) :
    hrun HeapFix.cur (newField v) es = href v es :=
  interpolator_reads_current_buffer es _ hnj (HInv_newField v)

/-- **With the proposed fix E every history is covered**, including the compiled rate. -/
theorem helpers_read_current_content_fixE (es : List (HEv κ V)) (s : FieldSt κ V) (h : HInv s) :
    hrun HeapFix.fixE s es = href (s.bufs s.cur) es :=
  helpers_read_current_content HeapFix.fixE rfl rfl es s (Or.inl rfl) h

/-- **Finding E (the code as it is): the numba-compiled rate ignores an in-place write to a
field-valued constant.**  `[compiled rate, write c1, compiled rate]` returns the old content twice. -/
theorem pde_rate_jit_stale_after_write (c0 c1 : V) (h : c0 ≠ c1) :
    hrun (κ := κ) HeapFix.cur (newField c0) [.rateJit, .write c1, .rateJit] = [c0, c0] ∧
    href (κ := κ) c0 [HEv.rateJit, .write c1, .rateJit] = [c0, c1] ∧
    hrun (κ := κ) HeapFix.cur (newField c0) [.rateJit, .write c1, .rateJit]
      ≠ href (κ := κ) c0 [HEv.rateJit, .write c1, .rateJit] ∧
    hrun (κ := κ) HeapFix.fixE (newField c0) [.rateJit, .write c1, .rateJit] = [c0, c1] := by
  have h1 : hrun (κ := κ) HeapFix.cur (newField c0) [.rateJit, .write c1, .rateJit] = [c0, c0] := by
    simp [hrun, hstep, newField, HeapFix.cur]
  refine ⟨h1, rfl, ?_, ?_⟩
  · rw [h1]; simp [href]; exact h
  · simp [hrun, hstep, newField, HeapFix.fixE, h]

/-- witness without the invalidation of fix F2 -/
theorem interpolator_stale_after_relink_old (k : κ) (c0 c1 : V) (h : c0 ≠ c1) :
    hrun ⟨false, true, false⟩ (newField c0) [.interp k, .relink, .write c1, .interp k] = [c0, c0] ∧
    href c0 [HEv.interp k, .relink, .write c1, .interp k] = [c0, c1] ∧
    hrun ⟨false, true, false⟩ (newField c0) [.interp k, .relink, .write c1, .interp k]
      ≠ href c0 [HEv.interp k, .relink, .write c1, .interp k] := by
  have h1 : hrun ⟨false, true, false⟩ (newField c0) [.interp k, .relink, .write c1, .interp k] = [c0, c0] := by
    simp [hrun, hstep, newField, rebind]
  refine ⟨h1, rfl, ?_⟩
  rw [h1]; simp [href]; exact h

theorem pde_rate_stale_after_relink_old (c0 c1 : V) (h : c0 ≠ c1) :
    hrun (κ := κ) ⟨true, false, false⟩ (newField c0) [.rate, .relink, .write c1, .rate] = [c0, c0] ∧
    hrun (κ := κ) ⟨true, false, false⟩ (newField c0) [.rate, .relink, .write c1, .rate]
      ≠ href (κ := κ) c0 [HEv.rate, .relink, .write c1, .rate] := by
  have h1 : hrun (κ := κ) ⟨true, false, false⟩ (newField c0) [.rate, .relink, .write c1, .rate] = [c0, c0] := by
    simp [hrun, hstep, newField, rebind]
  refine ⟨h1, ?_⟩
  rw [h1]; simp [href]; exact h

end Heap

/-! ## (ii), (iv) faithfulness of the keys -/


/-! ### injectivity of the idealised leaf hashes -/

theorem rawKey_inj {a b : List Nat} (h : rawKey a = rawKey b) : a = b := by
  unfold rawKey at h
  by_cases ha : a = [] <;> by_cases hb : b = [] <;> simp_all

theorem rawKey_ne_ustr (a : List Nat) (s : String) : rawKey a ≠ .leaf (.ustr s) := by
  unfold rawKey; split <;> simp

theorem charCodes_inj {s t : String} (h : s.toList.map Char.toNat = t.toList.map Char.toNat) : s = t := by
  apply String.toList_inj.mp
  refine List.map_injective_iff.mpr ?_ h
  intro a b hab
  exact Char.toNat_inj.mp hab

/-- the idealised `hash(str)` is injective -/
theorem strKey_inj {s t : String} (h : strKey s = strKey t) : s = t := by
  unfold strKey at h
  split at h <;> split at h
  · exact charCodes_inj (rawKey_inj h)
  · exact absurd h (rawKey_ne_ustr _ _)
  · exact absurd h.symm (rawKey_ne_ustr _ _)
  · simpa using h

theorem pairKey_inj {p q : String × Key} (h : pairKey p = pairKey q) : p = q := by
  obtain ⟨a, b⟩ := p; obtain ⟨c, d⟩ := q
  simp [pairKey] at h
  simp [h.1, h.2]

/-! ### the canonical order of dictionary items -/

theorem insertAttr_perm (a : String × Key) (l : List (String × Key)) : insertAttr a l ~ a :: l := by
  induction l with
  | nil => simp [insertAttr]
  | cons b bs ih =>
    simp only [insertAttr]
    split
    · exact Perm.refl _
    · exact (Perm.cons b ih).trans (Perm.swap a b bs)

theorem sortAttrs_perm (l : List (String × Key)) : sortAttrs l ~ l := by
  induction l with
  | nil => simp [sortAttrs]
  | cons a as ih => exact (insertAttr_perm a _).trans (Perm.cons a ih)

theorem insertAttr_pairwise (a : String × Key) (l : List (String × Key))
    (h : l.Pairwise (fun x y => x.1 ≤ y.1)) : (insertAttr a l).Pairwise (fun x y => x.1 ≤ y.1) := by
  induction l with
  | nil => simp [insertAttr]
  | cons b bs ih =>
    simp only [insertAttr]
    have hb := List.pairwise_cons.mp h
    split
    · next hab =>
      refine List.pairwise_cons.mpr ⟨?_, h⟩
      intro c hc
      rcases List.mem_cons.mp hc with rfl | hc
      · exact hab
      · exact le_trans hab (hb.1 c hc)
    · next hab =>
      refine List.pairwise_cons.mpr ⟨?_, ih hb.2⟩
      intro c hc
      rcases List.mem_cons.mp ((insertAttr_perm a bs).subset hc) with rfl | hc
      · exact le_of_lt (not_le.mp hab)
      · exact hb.1 c hc

theorem sortAttrs_pairwise (l : List (String × Key)) : (sortAttrs l).Pairwise (fun x y => x.1 ≤ y.1) := by
  induction l with
  | nil => simp [sortAttrs]
  | cons a as ih => exact insertAttr_pairwise a _ ih

/-- the canonical form does not depend on the insertion order of a dictionary -/
theorem sortAttrs_eq_of_perm {l l' : List (String × Key)} (hp : l ~ l') (hn : (l.map Prod.fst).Nodup) :
    sortAttrs l = sortAttrs l' := by
  refine Perm.eq_of_pairwise ?_ (sortAttrs_pairwise l) (sortAttrs_pairwise l')
    ((sortAttrs_perm l).trans (hp.trans (sortAttrs_perm l').symm))
  intro a b ha hb hab hba
  have ha' : a ∈ l := (sortAttrs_perm l).subset ha
  have hb' : b ∈ l := hp.symm.subset ((sortAttrs_perm l').subset hb)
  exact List.inj_on_of_nodup_map hn ha' hb' (le_antisymm hab hba)

theorem perm_lookup_eq {β : Type} {l l' : List (String × β)} (hp : l ~ l') (hn : (l.map Prod.fst).Nodup)
    (n : String) : l.lookup n = l'.lookup n := by
  induction hp with
  | nil => rfl
  | cons x _ ih =>
    obtain ⟨a, b⟩ := x
    simp only [List.map_cons, List.nodup_cons] at hn
    simp only [List.lookup_cons]
    split
    · rfl
    · exact ih hn.2
  | swap x y l =>
    obtain ⟨a, b⟩ := x; obtain ⟨c, d⟩ := y
    simp only [List.map_cons, List.nodup_cons, List.mem_cons, not_or] at hn
    simp only [List.lookup_cons]
    by_cases h1 : n = c <;> by_cases h2 : n = a
    · exact absurd (h1.symm.trans h2) hn.1.1
    · simp [h1]
      have : (c == a) = false := by simpa using hn.1.1
      simp [this]
    · simp [h2]
      have : (a == c) = false := by simpa using (Ne.symm hn.1.1)
      simp [this]
    · have e1 : (n == c) = false := by simpa using h1
      have e2 : (n == a) = false := by simpa using h2
      simp [e1, e2]
  | trans h1 _ ih1 ih2 =>
    rw [ih1 hn, ih2 ((h1.map Prod.fst).nodup_iff.mp hn)]

/-- equal dictionary keys: the same names carry values with the same keys -/
theorem dictKey_lookup {A B : List (String × Key)} (h : dictKey A = dictKey B)
    (hA : (A.map Prod.fst).Nodup) (n : String) : A.lookup n = B.lookup n := by
  unfold dictKey at h
  have h1 : (sortAttrs A).map pairKey = (sortAttrs B).map pairKey := by simpa using h
  have h2 : sortAttrs A = sortAttrs B :=
    List.map_injective_iff.mpr (fun _ _ => pairKey_inj) h1
  have hp : A ~ B := (sortAttrs_perm A).symm.trans (h2 ▸ sortAttrs_perm B)
  exact perm_lookup_eq hp hA n


theorem hashAttrsG_eq (d : Deriv) (l : List (String × PyObj)) :
    hashAttrsG d l = (l.filter (fun kv => !isCacheAttr kv.1)).map (fun kv => (kv.1, hashMutableG d kv.2)) := by
  induction l with
  | nil => simp [hashAttrsG]
  | cons p l ih =>
    obtain ⟨k, v⟩ := p
    simp only [hashAttrsG]
    by_cases h : isCacheAttr k = true
    · simp [h, ih]
    · have h' : isCacheAttr k = false := by simpa using h
      simp [h', ih]

theorem hashListG_eq (d : Deriv) (l : List PyObj) : hashListG d l = l.map (hashMutableG d) := by
  induction l with
  | nil => simp [hashListG]
  | cons a l ih => simp [hashListG, ih]

theorem builtinList_eq (d : Deriv) (l : List PyObj) : builtinList d l = l.map (builtinKey d) := by
  induction l with
  | nil => simp [builtinList]
  | cons a l ih => simp [builtinList, ih]

theorem hashAttrsG_names_nodup (d : Deriv) (l : List (String × PyObj)) (h : (l.map Prod.fst).Nodup) :
    ((hashAttrsG d l).map Prod.fst).Nodup := by
  rw [hashAttrsG_eq]
  simp only [List.map_map]
  have : (fun kv : String × PyObj => (kv.1, hashMutableG d kv.2).1) = Prod.fst := rfl
  rw [Function.comp_def, this]
  exact (List.filter_sublist.map Prod.fst).nodup h

theorem lookup_hashAttrsG (d : Deriv) (l : List (String × PyObj)) (n : String) :
    (hashAttrsG d l).lookup n = if isCacheAttr n then none else (l.lookup n).map (hashMutableG d) := by
  induction l with
  | nil => simp [hashAttrsG]
  | cons p l ih =>
    obtain ⟨k, v⟩ := p
    simp only [hashAttrsG]
    by_cases hk : isCacheAttr k = true
    · simp only [hk, if_true, ih, List.lookup_cons]
      by_cases hn : n = k
      · subst hn; simp [hk]
      · have : (n == k) = false := by simpa using hn
        simp [this]
    · have hk' : isCacheAttr k = false := by simpa using hk
      simp only [hk', Bool.false_eq_true, if_false, List.lookup_cons, ih]
      by_cases hn : n = k
      · subst hn; simp [hk']
      · have : (n == k) = false := by simpa using hn
        simp [this]

/-- **kwargs-order independence**: the key of a cached call does not depend on the order in
which the keyword arguments were given. -/
theorem kwargs_order_independent (d : Deriv) (ignore : List String) (extra args : List PyObj)
    {kw kw' : List (String × PyObj)} (hp : kw ~ kw') (hn : (kw.map Prod.fst).Nodup) :
    cacheKeyG d ignore extra args kw = cacheKeyG d ignore extra args kw' := by
  unfold cacheKeyG
  simp only [hashMutableG, List.cons_append, List.nil_append, hashListG]
  congr 2
  unfold dictKey
  congr 2
  have hp' : kw.filter (fun kv => !ignore.contains kv.1) ~ kw'.filter (fun kv => !ignore.contains kv.1) :=
    hp.filter _
  congr 1
  apply sortAttrs_eq_of_perm
  · rw [hashAttrsG_eq, hashAttrsG_eq]
    exact (hp'.filter _).map _
  · apply hashAttrsG_names_nodup
    exact (List.filter_sublist.map Prod.fst).nodup hn

/-! ### leaves of the modelled graphs -/

theorem boolKey_inj {a b : Bool} (h : boolKey a = boolKey b) : a = b := by
  cases a <;> cases b <;> simp [boolKey] at h ⊢

theorem fracText_nat (n : Nat) : fracText (n : Int) 0 = Nat.repr n := by
  simp [fracText, Int.repr]

theorem natObj_key_inj (d : Deriv) (hd : d.numRepr = true) {a b : Nat}
    (h : hashMutableG d (natObj a) = hashMutableG d (natObj b)) : a = b := by
  simp only [natObj, hashMutableG, numKey, hd, if_true, numText, fracText_nat] at h
  have h2 : strKey (Nat.repr a) = strKey (Nat.repr b) := by
    injection h with h; injection h with _ h; injection h
  exact Nat.repr_inj.mp (strKey_inj h2)

theorem boolObj_key_inj (d : Deriv) (hd : d.numRepr = true) {a b : Bool}
    (h : hashMutableG d (boolObj a) = hashMutableG d (boolObj b)) : a = b := by
  cases a <;> cases b <;> first | rfl | (exfalso; revert h; simp only [boolObj, hashMutableG, numKey, hd, if_true]; decide)

theorem natList_key_inj (d : Deriv) (hd : d.numRepr = true) {l l' : List Nat}
    (h : hashMutableG d (.tuple (l.map natObj)) = hashMutableG d (.tuple (l'.map natObj))) : l = l' := by
  simp only [hashMutableG, hashListG_eq, List.map_map] at h
  have h' : l.map (hashMutableG d ∘ natObj) = l'.map (hashMutableG d ∘ natObj) := by injection h
  exact List.map_injective_iff.mpr (fun x y hxy => natObj_key_inj d hd hxy) h'

theorem pyHashNum_nat (n : Nat) (h : n < hashModulus) : pyHashNum (n : Int) 0 = n := by
  unfold pyHashNum
  simp only [Int.natAbs_natCast, Nat.mod_eq_of_lt h]
  have : ((0 : Int) % 61).toNat = 0 := by decide
  simp only [this, pow_zero, mul_one, Nat.mod_eq_of_lt h]
  have h1 : ¬ ((n : Int) < 0) := by omega
  simp only [h1, if_false]
  have h2 : ¬ ((n : Int) = -1) := by omega
  simp [h2]

/-- the key of an array determines dtype, shape and bytes -/
theorem arrObj_key_inj (d : Deriv) (hd : d.arrMeta = true) {a b : ArrSpec}
    (ha : ∀ n ∈ a.shape, n < hashModulus) (hb : ∀ n ∈ b.shape, n < hashModulus)
    (h : hashMutableG d (arrObj a) = hashMutableG d (arrObj b)) : a = b := by
  obtain ⟨da, sa, ba⟩ := a; obtain ⟨db, sb, bb⟩ := b
  simp only [arrObj, hashMutableG, arrKey, hd, if_true] at h
  injection h with h
  injection h with h1 h
  injection h with h2 h
  injection h with h3 _
  have e1 := strKey_inj h1
  have e3 := rawKey_inj h3
  injection h2 with h2
  have e2 : sa = sb := by
    have hl : ∀ (s : List Nat), (∀ n ∈ s, n < hashModulus) →
        s.map (fun n : Nat => Key.leaf (Leaf.int (pyHashNum (n : Int) 0))) = s.map (fun n : Nat => Key.leaf (Leaf.int (n : Int))) := by
      intro s hs
      apply List.map_congr_left
      intro n hn
      rw [pyHashNum_nat n (hs n hn)]
    rw [hl sa ha, hl sb hb] at h2
    refine List.map_injective_iff.mpr ?_ h2
    intro x y hxy
    injection hxy with h; injection h with h
    exact_mod_cast h
  simp [e1, e2, e3]

theorem BCClass.name_inj {a b : BCClass} (h : a.name = b.name) : a = b := by
  cases a <;> cases b <;> first | rfl | (simp [BCClass.name] at h)


/-! ### boundary conditions -/

theorem bcAttrs_names_nodup (a : BCSpec) : ((bcAttrs a).map Prod.fst).Nodup := by
  obtain ⟨cls, grid, axis, upper, rank, st, sb, value, hom, linked, const, flip⟩ := a
  unfold bcAttrs
  by_cases h : rank = 0 <;> cases cls <;> simp [h, BCClass.hasValue, BCClass.hasConst]

theorem bcAttrs_lookup_axis (a : BCSpec) : (bcAttrs a).lookup "axis" = some (natObj a.axis) := by
  simp [bcAttrs, List.lookup_append, List.lookup_cons]
theorem bcAttrs_lookup_grid (a : BCSpec) : (bcAttrs a).lookup "grid" = some (gridGraph a.grid) := by
  simp [bcAttrs, List.lookup_append, List.lookup_cons]
theorem bcAttrs_lookup_upper (a : BCSpec) : (bcAttrs a).lookup "upper" = some (boolObj a.upper) := by
  simp [bcAttrs, List.lookup_append, List.lookup_cons]
theorem bcAttrs_lookup_rank (a : BCSpec) : (bcAttrs a).lookup "rank" = some (natObj a.rank) := by
  simp [bcAttrs, List.lookup_append, List.lookup_cons]
theorem bcAttrs_lookup_st (a : BCSpec) :
    (bcAttrs a).lookup "_shape_tensor" = some (.tuple (a.shapeTensor.map natObj)) := by
  by_cases h : a.rank = 0 <;> simp [bcAttrs, List.lookup_append, List.lookup_cons, h]
theorem bcAttrs_lookup_sb (a : BCSpec) :
    (bcAttrs a).lookup "_shape_boundary" = some (.tuple (a.shapeBoundary.map natObj)) := by
  by_cases h : a.rank = 0 <;> simp [bcAttrs, List.lookup_append, List.lookup_cons, h]
theorem bcAttrs_lookup_value (a : BCSpec) (hv : a.cls.hasValue = true) :
    (bcAttrs a).lookup "_value" = some (arrObj a.value) := by
  by_cases h : a.rank = 0 <;> simp [bcAttrs, List.lookup_append, List.lookup_cons, h, hv]
theorem bcAttrs_lookup_hom (a : BCSpec) (hv : a.cls.hasValue = true) :
    (bcAttrs a).lookup "homogeneous" = some (boolObj a.homogeneous) := by
  by_cases h : a.rank = 0 <;> simp [bcAttrs, List.lookup_append, List.lookup_cons, h, hv]
theorem bcAttrs_lookup_linked (a : BCSpec) (hv : a.cls.hasValue = true) :
    (bcAttrs a).lookup "value_is_linked" = some (boolObj a.valueIsLinked) := by
  by_cases h : a.rank = 0 <;> simp [bcAttrs, List.lookup_append, List.lookup_cons, h, hv]
theorem bcAttrs_lookup_const (a : BCSpec) (hc : a.cls.hasConst = true) :
    (bcAttrs a).lookup "const" = some (arrObj a.const) := by
  have hv : a.cls.hasValue = true := by
    revert hc; cases a.cls <;> simp [BCClass.hasConst, BCClass.hasValue]
  by_cases h : a.rank = 0 <;> simp [bcAttrs, List.lookup_append, List.lookup_cons, h, hv, hc]
theorem bcAttrs_lookup_flip (a : BCSpec) (hc : a.cls = .PeriodicBC) :
    (bcAttrs a).lookup "flip_sign" = some (boolObj a.flipSign) := by
  by_cases h : a.rank = 0 <;>
    simp [bcAttrs, List.lookup_append, List.lookup_cons, h, hc, BCClass.hasValue, BCClass.hasConst]


/-- what equal keys of two boundary conditions imply -/
structure BCSame (d : Deriv) (a b : BCSpec) : Prop where
  cls : a.cls = b.cls
  axis : a.axis = b.axis
  /-- the side -/
  upper : a.upper = b.upper
  rank : a.rank = b.rank
  normal : a.cls.normal = b.cls.normal
  shapeTensor : a.shapeTensor = b.shapeTensor
  shapeBoundary : a.shapeBoundary = b.shapeBoundary
  /-- value array (dtype, shape and bytes), homogeneity, linkage -/
  value : a.cls.hasValue = true →
    a.value = b.value ∧ a.homogeneous = b.homogeneous ∧ a.valueIsLinked = b.valueIsLinked
  const : a.cls.hasConst = true → a.const = b.const
  flip : a.cls = .PeriodicBC → a.flipSign = b.flipSign
  /-- the grids have the same key -/
  grid : hashMutableG d (gridGraph a.grid) = hashMutableG d (gridGraph b.grid)

/-- array shapes are far below `2^61-1` -/
def ArrSpec.Small (a : ArrSpec) : Prop := ∀ n ∈ a.shape, n < hashModulus

theorem some_map_inj {α β : Type} {f : α → β} {x y : α} (h : (some x).map f = (some y).map f) : f x = f y := by
  simpa using h

theorem bc_key_faithful_gen (d : Deriv) (h1 : d.withClass = true) (h2 : d.numRepr = true)
    (h3 : d.arrMeta = true) (a b : BCSpec)
    (hsm : a.value.Small ∧ b.value.Small ∧ a.const.Small ∧ b.const.Small)
    (h : hashMutableG d (bcGraph a) = hashMutableG d (bcGraph b)) : BCSame d a b := by
  simp only [bcGraph, hashMutableG, h1, if_true] at h
  injection h with h
  injection h with hc h
  injection h with hd _
  have hcls : a.cls = b.cls := BCClass.name_inj (strKey_inj hc)
  have hL : ∀ n, isCacheAttr n = false →
      ((bcAttrs a).lookup n).map (hashMutableG d) = ((bcAttrs b).lookup n).map (hashMutableG d) := by
    intro n hn
    have := dictKey_lookup hd (hashAttrsG_names_nodup d _ (bcAttrs_names_nodup a)) n
    simpa [lookup_hashAttrsG, hn] using this
  have hrank : a.rank = b.rank := by
    have := hL "rank" (by decide)
    rw [bcAttrs_lookup_rank, bcAttrs_lookup_rank] at this
    exact natObj_key_inj d h2 (some_map_inj this)
  refine ⟨hcls, ?_, ?_, hrank, by rw [hcls], ?_, ?_, ?_, ?_, ?_, ?_⟩
  · have := hL "axis" (by decide)
    rw [bcAttrs_lookup_axis, bcAttrs_lookup_axis] at this
    exact natObj_key_inj d h2 (some_map_inj this)
  · have := hL "upper" (by decide)
    rw [bcAttrs_lookup_upper, bcAttrs_lookup_upper] at this
    exact boolObj_key_inj d h2 (some_map_inj this)
  · have := hL "_shape_tensor" (by decide)
    rw [bcAttrs_lookup_st, bcAttrs_lookup_st] at this
    exact natList_key_inj d h2 (some_map_inj this)
  · have := hL "_shape_boundary" (by decide)
    rw [bcAttrs_lookup_sb, bcAttrs_lookup_sb] at this
    exact natList_key_inj d h2 (some_map_inj this)
  · intro hv
    have hvb : b.cls.hasValue = true := hcls ▸ hv
    refine ⟨?_, ?_, ?_⟩
    · have := hL "_value" (by decide)
      rw [bcAttrs_lookup_value a hv, bcAttrs_lookup_value b hvb] at this
      exact arrObj_key_inj d h3 hsm.1 hsm.2.1 (some_map_inj this)
    · have := hL "homogeneous" (by decide)
      rw [bcAttrs_lookup_hom a hv, bcAttrs_lookup_hom b hvb] at this
      exact boolObj_key_inj d h2 (some_map_inj this)
    · have := hL "value_is_linked" (by decide)
      rw [bcAttrs_lookup_linked a hv, bcAttrs_lookup_linked b hvb] at this
      exact boolObj_key_inj d h2 (some_map_inj this)
  · intro hv
    have hvb : b.cls.hasConst = true := hcls ▸ hv
    have := hL "const" (by decide)
    rw [bcAttrs_lookup_const a hv, bcAttrs_lookup_const b hvb] at this
    exact arrObj_key_inj d h3 hsm.2.2.1 hsm.2.2.2 (some_map_inj this)
  · intro hv
    have hvb : b.cls = .PeriodicBC := hcls ▸ hv
    have := hL "flip_sign" (by decide)
    rw [bcAttrs_lookup_flip a hv, bcAttrs_lookup_flip b hvb] at this
    exact boolObj_key_inj d h2 (some_map_inj this)
  · have := hL "grid" (by decide)
    rw [bcAttrs_lookup_grid, bcAttrs_lookup_grid] at this
    exact some_map_inj this

/-- **Faithfulness of the key of a boundary condition** (current derivation): equal keys imply
equal class, axis, side, rank, normal flag, value and const arrays, flip sign. -/
theorem bc_key_faithful (a b : BCSpec)
    (hsm : a.value.Small ∧ b.value.Small ∧ a.const.Small ∧ b.const.Small)
    (h : hashMutable (bcGraph a) = hashMutable (bcGraph b)) : BCSame Deriv.cur a b :=
  bc_key_faithful_gen Deriv.cur rfl rfl rfl a b hsm h


/-! ### grids -/

theorem map_inj_of_inj {α β : Type} {f : α → β} (hf : ∀ x y, f x = f y → x = y) {l l' : List α}
    (h : l.map f = l'.map f) : l = l' :=
  List.map_injective_iff.mpr (fun x y => hf x y) h

/-- builtin hashes of the two bounds of an axis -/
def boundsHash (b : FloatSpec × FloatSpec) : Int × Int := (pyHashNum b.1.m b.1.e, pyHashNum b.2.m b.2.e)

/-- `GridBase._cache_hash` with the builtin `hash`: the key determines class, shape and
periodicity, but of the bounds only their builtin numeric hashes. -/
theorem grid_key_faithful_builtin (d : Deriv) (hd : d.gridRepr = false) (a b : GridSpec)
    (ha : ∀ n ∈ a.shape, n < hashModulus) (hb : ∀ n ∈ b.shape, n < hashModulus)
    (h : hashMutableG d (gridGraph a) = hashMutableG d (gridGraph b)) :
    a.cls = b.cls ∧ a.shape = b.shape ∧ a.periodic = b.periodic ∧
      a.bounds.map boundsHash = b.bounds.map boundsHash := by
  simp only [gridGraph, hashMutableG, hd, Bool.false_eq_true, if_false, builtinKey, builtinList,
    builtinList_eq, List.map_map] at h
  injection h with h
  injection h with h1 h
  injection h with h2 h
  injection h with h3 h
  injection h with h4 _
  injection h2 with h2
  injection h3 with h3
  injection h4 with h4
  refine ⟨strKey_inj h1, ?_, ?_, ?_⟩
  · have hl : ∀ (s : List Nat), (∀ n ∈ s, n < hashModulus) →
        s.map (builtinKey d ∘ natObj) = s.map (fun n : Nat => Key.leaf (Leaf.int (n : Int))) := by
      intro s hs
      apply List.map_congr_left
      intro n hn
      simp [natObj, builtinKey, pyHashVal, pyHashNum_nat n (hs n hn)]
    rw [hl _ ha, hl _ hb] at h2
    refine map_inj_of_inj ?_ h2
    intro x y hxy
    injection hxy with h; injection h with h
    exact_mod_cast h
  · refine map_inj_of_inj ?_ h4
    intro x y hxy
    cases x <;> cases y <;> first | rfl | (exfalso; revert hxy; simp only [Function.comp, boolObj, builtinKey, pyHashVal]; decide)
  · have hf : ∀ (s : List (FloatSpec × FloatSpec)),
        s.map (builtinKey d ∘ fun b => PyObj.tuple [floatObj b.1, floatObj b.2]) =
        (s.map boundsHash).map (fun p : Int × Int => Key.tup [Key.leaf (Leaf.int p.1), Key.leaf (Leaf.int p.2)]) := by
      intro s
      simp [List.map_map, Function.comp_def, boundsHash, floatObj, builtinKey, builtinList, pyHashVal]
    rw [hf, hf] at h3
    refine map_inj_of_inj ?_ h3
    intro x y hxy
    injection hxy with h
    injection h with h1 h
    injection h with h2 _
    injection h1 with h1; injection h1 with h1
    injection h2 with h2; injection h2 with h2
    exact Prod.ext h1 h2

/-- the text of the exact values (`str(Fraction(x))`) of the two bounds of an axis -/
def boundsText (p : FloatSpec × FloatSpec) : String × String := (fracText p.1.m p.1.e, fracText p.2.m p.2.e)

/-- `GridBase._cache_hash` through `hash_mutable`: the key determines class, shape, periodicity
and the exact value (as the text of its fraction) of every bound. -/
theorem grid_key_faithful_mutable (d : Deriv) (hd : d.gridRepr = true) (h2 : d.numRepr = true) (a b : GridSpec)
    (h : hashMutableG d (gridGraph a) = hashMutableG d (gridGraph b)) :
    a.cls = b.cls ∧ a.shape = b.shape ∧ a.periodic = b.periodic ∧
      a.bounds.map boundsText = b.bounds.map boundsText := by
  simp only [gridGraph, hashMutableG, hd, if_true, hashListG, hashListG_eq, List.map_map] at h
  injection h with h
  injection h with h1 h
  injection h with hs h
  injection h with h3 h
  injection h with h4 _
  injection hs with hs
  injection h3 with h3
  injection h4 with h4
  refine ⟨strKey_inj h1, ?_, ?_, ?_⟩
  · exact map_inj_of_inj (fun x y hxy => natObj_key_inj d h2 hxy) hs
  · exact map_inj_of_inj (fun x y hxy => boolObj_key_inj d h2 hxy) h4
  · have hf : ∀ (s : List (FloatSpec × FloatSpec)),
        s.map (hashMutableG d ∘ fun b => PyObj.tuple [floatObj b.1, floatObj b.2]) =
        (s.map boundsText).map (fun p : String × String =>
          Key.tup [Key.tup [strKey "number", strKey p.1], Key.tup [strKey "number", strKey p.2]]) := by
      intro s
      simp [List.map_map, Function.comp_def, floatObj, hashMutableG, hashListG, numKey, h2, boundsText, numText]
    rw [hf, hf] at h3
    refine map_inj_of_inj ?_ h3
    intro x y hxy
    injection hxy with h
    injection h with e1 h
    injection h with e2 _
    injection e1 with e1; injection e1 with _ e1; injection e1 with e1 _
    injection e2 with e2; injection e2 with _ e2; injection e2 with e2 _
    exact Prod.ext (strKey_inj e1) (strKey_inj e2)


/-! ### BoundaryPair, BoundariesList, requests -/

def BCSpec.Small (b : BCSpec) : Prop := b.value.Small ∧ b.const.Small
def AxisSpec.Small (a : AxisSpec) : Prop := a.low.Small ∧ a.high.Small

structure AxisSame (d : Deriv) (a b : AxisSpec) : Prop where
  periodic : a.periodic = b.periodic
  low : BCSame d a.low b.low
  high : BCSame d a.high b.high

theorem axis_key_faithful (d : Deriv) (h1 : d.withClass = true) (h2 : d.numRepr = true)
    (h3 : d.arrMeta = true) (a b : AxisSpec) (ha : a.Small) (hb : b.Small)
    (h : hashMutableG d (axisGraph a) = hashMutableG d (axisGraph b)) : AxisSame d a b := by
  simp only [axisGraph, hashMutableG, h1, if_true] at h
  injection h with h
  injection h with hc h
  injection h with hd _
  have hL : ∀ n, isCacheAttr n = false →
      (List.lookup n [("low", bcGraph a.low), ("high", bcGraph a.high)]).map (hashMutableG d) =
      (List.lookup n [("low", bcGraph b.low), ("high", bcGraph b.high)]).map (hashMutableG d) := by
    intro n hn
    have := dictKey_lookup hd (hashAttrsG_names_nodup d _ (by simp)) n
    simpa [lookup_hashAttrsG, hn] using this
  refine ⟨?_, ?_, ?_⟩
  · have := strKey_inj hc
    cases hpa : a.periodic <;> cases hpb : b.periodic <;> simp [hpa, hpb] at this ⊢
  · have := hL "low" (by decide)
    simp only [List.lookup_cons, beq_self_eq_true] at this
    exact bc_key_faithful_gen d h1 h2 h3 _ _ ⟨ha.1.1, hb.1.1, ha.1.2, hb.1.2⟩ (some_map_inj this)
  · have := hL "high" (by decide)
    have e : ("high" == "low") = false := by decide
    simp only [List.lookup_cons, e, beq_self_eq_true] at this
    exact bc_key_faithful_gen d h1 h2 h3 _ _ ⟨ha.2.1, hb.2.1, ha.2.2, hb.2.2⟩ (some_map_inj this)

structure BcsSame (d : Deriv) (a b : BcsSpec) : Prop where
  grid : hashMutableG d (gridGraph a.grid) = hashMutableG d (gridGraph b.grid)
  rank : a.rank = b.rank
  axes : List.Forall₂ (AxisSame d) a.axes b.axes

theorem forall₂_of_map_eq {α β : Type} {f : α → β} {R : α → α → Prop} :
    ∀ {l l' : List α}, (∀ x ∈ l, ∀ y ∈ l', f x = f y → R x y) → l.map f = l'.map f → List.Forall₂ R l l'
  | [], [], _, _ => List.Forall₂.nil
  | [], _ :: _, _, h => by simp at h
  | _ :: _, [], _, h => by simp at h
  | x :: l, y :: l', hR, h => by
    simp only [List.map_cons, List.cons.injEq] at h
    exact List.Forall₂.cons (hR x (by simp) y (by simp) h.1)
      (forall₂_of_map_eq (fun x hx y hy => hR x (by simp [hx]) y (by simp [hy])) h.2)

theorem bcs_key_faithful (d : Deriv) (h1 : d.withClass = true) (h2 : d.numRepr = true)
    (h3 : d.arrMeta = true) (a b : BcsSpec) (ha : ∀ x ∈ a.axes, x.Small) (hb : ∀ x ∈ b.axes, x.Small)
    (h : hashMutableG d (bcsGraph a) = hashMutableG d (bcsGraph b)) : BcsSame d a b := by
  simp only [bcsGraph, hashMutableG, h1, if_true] at h
  injection h with h
  injection h with _ h
  injection h with hd _
  have hL : ∀ n, isCacheAttr n = false →
      (List.lookup n [("grid", gridGraph a.grid), ("rank", natObj a.rank), ("_axes", PyObj.list (a.axes.map axisGraph))]).map (hashMutableG d) =
      (List.lookup n [("grid", gridGraph b.grid), ("rank", natObj b.rank), ("_axes", PyObj.list (b.axes.map axisGraph))]).map (hashMutableG d) := by
    intro n hn
    have := dictKey_lookup hd (hashAttrsG_names_nodup d _ (by simp)) n
    simpa [lookup_hashAttrsG, hn] using this
  refine ⟨?_, ?_, ?_⟩
  · have := hL "grid" (by decide)
    simp only [List.lookup_cons, beq_self_eq_true] at this
    exact some_map_inj this
  · have := hL "rank" (by decide)
    have e : ("rank" == "grid") = false := by decide
    simp only [List.lookup_cons, e, beq_self_eq_true] at this
    exact natObj_key_inj d h2 (some_map_inj this)
  · have := hL "_axes" (by decide)
    have e1 : ("_axes" == "grid") = false := by decide
    have e2 : ("_axes" == "rank") = false := by decide
    simp only [List.lookup_cons, e1, e2, beq_self_eq_true] at this
    have := some_map_inj this
    simp only [hashMutableG, hashListG_eq, List.map_map] at this
    injection this with this
    exact forall₂_of_map_eq (fun x hx y hy hxy => axis_key_faithful d h1 h2 h3 x y (ha x hx) (hb y hy) hxy) this

/-- what equal keys of two requests to the cached `make_operator` imply -/
structure OpReqSame (d : Deriv) (a b : OpReq) : Prop where
  grid : hashMutableG d (gridGraph a.grid) = hashMutableG d (gridGraph b.grid)
  op : a.op = b.op
  bcs : BcsSame d a.bcs b.bcs
  dtype : hashMutableG d a.dtype = hashMutableG d b.dtype
  /-- every further keyword has a value with the same key -/
  kwargs : ∀ n, isCacheAttr n = false → n ≠ "bcs" → n ≠ "dtype" →
    (a.kwargs.lookup n).map (hashMutableG d) = (b.kwargs.lookup n).map (hashMutableG d)

theorem opSpec_key_inj (d : Deriv) (h2 : d.numRepr = true) {a b : OpSpec}
    (h : hashMutableG d (opGraph a) = hashMutableG d (opGraph b)) : a = b := by
  obtain ⟨fa, ia, oa, na⟩ := a; obtain ⟨fb, ib, ob, nb⟩ := b
  simp only [opGraph, hashMutableG, hashListG] at h
  injection h with h
  injection h with e1 h
  injection h with e2 h
  injection h with e3 h
  injection h with e4 _
  injection e1 with e1; injection e1 with e1
  have := natObj_key_inj d h2 (by simpa [hashMutableG] using e2 : hashMutableG d (natObj ia) = hashMutableG d (natObj ib))
  have := natObj_key_inj d h2 (by simpa [hashMutableG] using e3 : hashMutableG d (natObj oa) = hashMutableG d (natObj ob))
  have := strKey_inj e4
  simp_all

/-- **Faithfulness of the key of the cached `NumbaBackend.make_operator`.** -/
theorem opreq_key_faithful (d : Deriv) (h1 : d.withClass = true) (h2 : d.numRepr = true)
    (h3 : d.arrMeta = true) (a b : OpReq)
    (ha : ∀ x ∈ a.bcs.axes, x.Small) (hb : ∀ x ∈ b.bcs.axes, x.Small)
    (hna : ((opReqKwargs a).map Prod.fst).Nodup)
    (h : opReqKeyG d a = opReqKeyG d b) : OpReqSame d a b := by
  simp only [opReqKeyG, cacheKeyG, hashMutableG, hashListG, List.cons_append, List.nil_append,
    List.append_nil, opReqArgs] at h
  injection h with h
  injection h with hargs h
  injection h with hkw _
  injection hargs with hargs
  injection hargs with hg hargs
  injection hargs with ho _
  have hfa : ∀ r : OpReq, (opReqKwargs r).filter (fun kv => !([] : List String).contains kv.1) = opReqKwargs r := by
    intro r; simp
  rw [hfa, hfa] at hkw
  have hL : ∀ n, isCacheAttr n = false →
      ((opReqKwargs a).lookup n).map (hashMutableG d) = ((opReqKwargs b).lookup n).map (hashMutableG d) := by
    intro n hn
    have := dictKey_lookup hkw (hashAttrsG_names_nodup d _ hna) n
    simpa [lookup_hashAttrsG, hn] using this
  refine ⟨hg, opSpec_key_inj d h2 ho, ?_, ?_, ?_⟩
  · have := hL "bcs" (by decide)
    simp only [opReqKwargs, List.cons_append, List.nil_append, List.lookup_cons, beq_self_eq_true] at this
    exact bcs_key_faithful d h1 h2 h3 _ _ ha hb (some_map_inj this)
  · have := hL "dtype" (by decide)
    have e : ("dtype" == "bcs") = false := by decide
    simp only [opReqKwargs, List.cons_append, List.nil_append, List.lookup_cons, e, beq_self_eq_true] at this
    exact some_map_inj this
  · intro n hn hb' hd'
    have := hL n hn
    have e1 : (n == "bcs") = false := by simpa using hb'
    have e2 : (n == "dtype") = false := by simpa using hd'
    simpa only [opReqKwargs, List.cons_append, List.nil_append, List.lookup_cons, e1, e2] using this


/-! ### witnesses: the key derivations before the repairs are NOT faithful -/

def unitGrid8 : GridSpec :=
  { cls := "UnitGrid", shape := [8], bounds := [(⟨"float64", "np.float64(0.0)", 0, 0⟩, ⟨"float64", "np.float64(8.0)", 8, 0⟩)],
    periodic := [false] }

/-- `{"value": 0}` on the lower side of `UnitGrid([8])` (int64 zero, shape `()`) -/
def dirichlet0 : BCSpec :=
  { cls := .DirichletBC, grid := unitGrid8, axis := 0, upper := false, rank := 0,
    shapeTensor := [], shapeBoundary := [], value := ⟨"<i8", [], [0, 0, 0, 0, 0, 0, 0, 0]⟩,
    homogeneous := true, valueIsLinked := false, const := ⟨"", [], []⟩, flipSign := false }

/-- `{"derivative": 0}` at the same place -/
def neumann0 : BCSpec := { dirichlet0 with cls := .NeumannBC }

/-- **F1 witness**: before the class name was added, value 0 and derivative 0 had the same key;
now they have different keys. -/
theorem bc_key_collision_dirichlet_neumann_old :
    hashMutableOld (bcGraph dirichlet0) = hashMutableOld (bcGraph neumann0) ∧
    dirichlet0.cls ≠ neumann0.cls ∧
    hashMutable (bcGraph dirichlet0) ≠ hashMutable (bcGraph neumann0) := by
  decide +kernel

def bcsOf (b : BCSpec) : BcsSpec :=
  { grid := unitGrid8, rank := 0, axes := [{ periodic := false, low := b, high := { b with upper := true } }] }

def laplaceReq (b : BCSpec) : OpReq :=
  { grid := unitGrid8, op := ⟨"id:make_laplace", 0, 0, "laplace"⟩, bcs := bcsOf b, dtype := .none, kwargs := [] }

/-- the collision reaches the cached `make_operator`: `g.make_operator("laplace", {"value": 0})`
and `g.make_operator("laplace", {"derivative": 0})` had one key -/
theorem opreq_key_collision_old :
    opReqKeyG .beforeF1 (laplaceReq dirichlet0) = opReqKeyG .beforeF1 (laplaceReq neumann0) ∧
    opReqKey (laplaceReq dirichlet0) ≠ opReqKey (laplaceReq neumann0) := by
  decide +kernel

/-- ... and is observable: whatever the two operators are, if they differ, the history
`[value 0, derivative 0]` hands out the first one twice. -/
theorem f1_regression_observable {V : Type} (sem : OpReq → V)
    (hs : sem (laplaceReq dirichlet0) ≠ sem (laplaceReq neumann0)) :
    runAll none (opReqKeyG .beforeF1) sem [] [laplaceReq dirichlet0, laplaceReq neumann0]
      = [sem (laplaceReq dirichlet0), sem (laplaceReq dirichlet0)] :=
  (cache_unsound_of_collision none (by simp) _ sem _ _ opreq_key_collision_old.1 hs).1

/-- **A witness**: the builtin numeric hash does not separate -1 and -2 (nor 0.5 and 2^60);
the current derivation does. -/
theorem num_key_collision_old :
    hashMutableG .beforeA (.num "int" "-1" (.fin (-1) 0)) = hashMutableG .beforeA (.num "int" "-2" (.fin (-2) 0)) ∧
    hashMutableG .beforeA (.num "float" "0.5" (.fin 1 (-1))) = hashMutableG .beforeA (.num "int" "1152921504606846976" (.fin 1152921504606846976 0)) ∧
    cacheKeyG .beforeA [] [] [] [("fill", .num "int" "-1" (.fin (-1) 0))] = cacheKeyG .beforeA [] [] [] [("fill", .num "int" "-2" (.fin (-2) 0))] ∧
    cacheKey [] [] [] [("fill", .num "int" "-1" (.fin (-1) 0))] ≠ cacheKey [] [] [] [("fill", .num "int" "-2" (.fin (-2) 0))] := by
  decide +kernel

/-- **B witness**: `tobytes()` alone does not determine dtype or shape: int64 `1` and float64
`5e-324`; `zeros(1)` and `zeros((1,1))`. -/
theorem array_key_collision_old :
    hashMutableG .beforeB (.ndarray "<i8" [] [1, 0, 0, 0, 0, 0, 0, 0]) = hashMutableG .beforeB (.ndarray "<f8" [] [1, 0, 0, 0, 0, 0, 0, 0]) ∧
    hashMutableG .beforeB (.ndarray "<f8" [1] [0, 0, 0, 0, 0, 0, 0, 0]) = hashMutableG .beforeB (.ndarray "<f8" [1, 1] [0, 0, 0, 0, 0, 0, 0, 0]) ∧
    hashMutable (.ndarray "<i8" [] [1, 0, 0, 0, 0, 0, 0, 0]) ≠ hashMutable (.ndarray "<f8" [] [1, 0, 0, 0, 0, 0, 0, 0]) ∧
    hashMutable (.ndarray "<f8" [1] [0, 0, 0, 0, 0, 0, 0, 0]) ≠ hashMutable (.ndarray "<f8" [1, 1] [0, 0, 0, 0, 0, 0, 0, 0]) := by
  decide +kernel

def gridM1 : GridSpec :=
  { cls := "CartesianGrid", shape := [4], bounds := [(⟨"float", "-1.0", -1, 0⟩, ⟨"float", "1.0", 1, 0⟩)], periodic := [false] }
def gridM2 : GridSpec :=
  { cls := "CartesianGrid", shape := [4], bounds := [(⟨"float", "-2.0", -2, 0⟩, ⟨"float", "1.0", 1, 0⟩)], periodic := [false] }

/-- **D witness**: with the builtin hash inside `_cache_hash`, `CartesianGrid([[-1,1]],4)` and
`CartesianGrid([[-2,1]],4)` had one key. -/
theorem grid_key_collision_old :
    hashMutableG .beforeD (gridGraph gridM1) = hashMutableG .beforeD (gridGraph gridM2) ∧
    hashMutable (gridGraph gridM1) ≠ hashMutable (gridGraph gridM2) := by
  decide +kernel

/-- systematic coincidences that remain in the current derivation (none reaches a cached method
of py-pde): slices and lists/tuples -/
theorem remaining_coincidences :
    hashMutable (.slice (.num "int" "-1" (.fin (-1) 0)) .none .none) = hashMutable (.slice (.num "int" "-2" (.fin (-2) 0)) .none .none) ∧
    hashMutable (.list [.bool true]) = hashMutable (.tuple [.bool true]) ∧
    hashMutable (.str "abc") = hashMutable (.bytes [97, 98, 99]) := by
  decide +kernel

/-- equal numbers of different classes share their key (`1`, `1.0`, `True`, `np.float32(1)`,
`1+0j` ...): only the exact value is hashed -/
theorem num_key_class_independent (c r c' r' : String) (v : NumVal) :
    hashMutable (.num c r v) = hashMutable (.num c' r' v) := rfl

/-- ... and different small integers have different keys -/
theorem int_key_inj {a b : Nat}
    (h : hashMutable (.num "int" (Nat.repr a) (.fin a 0)) = hashMutable (.num "float" "x" (.fin b 0))) : a = b := by
  simp only [hashMutableG, numKey, Deriv.cur, if_true, numText, fracText_nat] at h
  have h2 : strKey (Nat.repr a) = strKey (Nat.repr b) := by
    injection h with h; injection h with _ h; injection h
  exact Nat.repr_inj.mp (strKey_inj h2)

/-! ### non-vacuity -/

/-- the hypotheses of `bc_key_faithful` are satisfiable by a non-trivial pair, and the conclusion
is not trivially true: two conditions that differ only in the side have different keys -/
example : dirichlet0.value.Small ∧ dirichlet0.const.Small := by
  constructor <;> intro n hn <;> simp [dirichlet0] at hn

example : hashMutable (bcGraph dirichlet0) ≠ hashMutable (bcGraph { dirichlet0 with upper := true }) := by
  decide +kernel

example : hashMutable (bcGraph dirichlet0) = hashMutable (bcGraph { dirichlet0 with flipSign := true }) := by
  decide +kernel

/-- a history with hits, misses and an invalidation on a faithful key -/
example : runEvents (κ := Nat) (V := Nat) none (fun _ r => r % 3) (fun _ r => r % 3) none
    [.call "f" 1, .call "f" 4, .call "g" 4, .drop, .call "f" 7] = [1, 1, 1, 1] := by decide

/-- a cache of capacity 1 forgets -/
example : (call (κ := Nat) (V := Nat) (some 1) id id [(5, 5)] 6).1 = [(6, 6)] := by decide

example : hrun (κ := Nat) HeapFix.cur (newField 1) [.interp 0, .relink, .write 10, .interp 0, .rate, .assignNew 3, .rate]
    = [1, 10, 10, 3] := by decide

/-- the hypothesis of `interpolator_reads_current_buffer` holds for this history ... -/
example : ∀ e ∈ ([.interp 0, .relink, .write 10, .interp 0, .rate, .assignNew 3, .rate] : List (HEv Nat Nat)), e.notJit = true := by
  decide

/-- ... and cannot be dropped: the compiled rate of the code as it is returns the frozen 1, with fix E the current 10 -/
example : hrun (κ := Nat) HeapFix.cur (newField 1) [.rateJit, .write 10, .rateJit, .relink, .rateJit] = [1, 1, 10] ∧
    hrun (κ := Nat) HeapFix.fixE (newField 1) [.rateJit, .write 10, .rateJit, .relink, .rateJit] = [1, 10, 10] := by decide


/-! ## the cache machine on a set of admissible requests

`cache_sound_of_faithful` asks for a key that is faithful on ALL requests.  The keys of py-pde
are faithful on the requests whose arguments are of the modelled kinds (`OpReq.Modelled`,
`KwModelled`); the machine theorems relative to such a set `P`: -/

section MachineOn
variable {Req κ V : Type} [DecidableEq κ]

/-- every cached entry is the value of some admissible request with that key -/
def CInvOn (P : Req → Prop) (key : Req → κ) (sem : Req → V) (c : List (κ × V)) : Prop :=
  ∀ k v, c.lookup k = some v → ∃ a, P a ∧ key a = k ∧ v = sem a

theorem CInvOn_nil (P : Req → Prop) (key : Req → κ) (sem : Req → V) : CInvOn P key sem [] := by
  intro k v h; simp at h

theorem call_inv_on (P : Req → Prop) (cap : Option Nat) (key : Req → κ) (sem : Req → V) (c) (r : Req)
    (hr : P r) (h : CInvOn P key sem c) : CInvOn P key sem (call cap key sem c r).1 := by
  unfold call
  split
  · exact h
  · have hcons : CInvOn P key sem ((key r, sem r) :: c) := by
      intro k v hk
      simp only [List.lookup_cons] at hk
      split at hk
      · rename_i heq
        have hkr : k = key r := by simpa using heq
        simp at hk
        exact ⟨r, hr, hkr.symm, hk.symm⟩
      · exact h k v hk
    cases cap with
    | none => exact hcons
    | some n =>
      intro k v hk
      exact hcons k v (lookup_take n _ k v hk)

theorem call_sound_on (P : Req → Prop) (cap : Option Nat) (key : Req → κ) (sem : Req → V)
    (faithful : ∀ a b, P a → P b → key a = key b → sem a = sem b)
    (c) (r : Req) (hr : P r) (h : CInvOn P key sem c) : (call cap key sem c r).2 = sem r := by
  unfold call
  split
  · rename_i v hv
    obtain ⟨a, hPa, ha, rfl⟩ := h _ _ hv
    exact faithful a r hPa hr ha
  · rfl

/-- **Cache soundness on admissible requests**: every history of admissible requests. -/
theorem cache_sound_of_faithful_on (P : Req → Prop) (cap : Option Nat) (key : Req → κ) (sem : Req → V)
    (faithful : ∀ a b, P a → P b → key a = key b → sem a = sem b) :
    ∀ (rs : List Req) (c), CInvOn P key sem c → (∀ r ∈ rs, P r) → runAll cap key sem c rs = rs.map sem := by
  intro rs
  induction rs with
  | nil => intro c _ _; rfl
  | cons r rs ih =>
    intro c h hP
    have hr : P r := hP r (by simp)
    simp only [runAll, List.map_cons]
    rw [call_sound_on P cap key sem faithful c r hr h,
      ih _ (call_inv_on P cap key sem c r hr h) (fun r' hr' => hP r' (by simp [hr']))]

/-- every method cache of the instance satisfies the entry invariant -/
def MInvOn (P : String → Req → Prop) (key : String → Req → κ) (sem : String → Req → V) (m : Methods κ V) : Prop :=
  ∀ n, CInvOn (P n) (key n) (sem n) (methodCache m n)

/-- all cached calls of the history are admissible -/
def EvsOn (P : String → Req → Prop) : List (Ev Req) → Prop
  | [] => True
  | .call n r :: es => P n r ∧ EvsOn P es
  | .drop :: es => EvsOn P es

/-- **Soundness of the per-instance machine on admissible requests**: any interleaving of cached
calls of any methods with invalidations. -/
theorem events_sound_of_faithful_on (P : String → Req → Prop) (cap : Option Nat)
    (key : String → Req → κ) (sem : String → Req → V)
    (faithful : ∀ n a b, P n a → P n b → key n a = key n b → sem n a = sem n b) :
    ∀ (es : List (Ev Req)) (m : Methods κ V), MInvOn P key sem m → EvsOn P es →
      runEvents cap key sem m es = freshEvents sem es := by
  intro es
  induction es with
  | nil => intro m _ _; rfl
  | cons e es ih =>
    intro m h hP
    cases e with
    | call n r =>
      simp only [EvsOn] at hP
      simp only [runEvents, freshEvents]
      have hv : (callMethod cap key sem m n r).2 = sem n r := by
        simp only [callMethod]
        exact call_sound_on (P n) cap _ _ (faithful n) _ r hP.1 (h n)
      have hinv : MInvOn P key sem (callMethod cap key sem m n r).1 := by
        intro n'
        simp only [callMethod, methodCache_set]
        split
        · next heq => subst heq; exact call_inv_on (P n') cap _ _ _ r hP.1 (h n')
        · exact h n'
      rw [hv, ih _ hinv hP.2]
    | drop =>
      simp only [EvsOn] at hP
      simp only [runEvents, freshEvents]
      exact ih none (fun n => CInvOn_nil _ _ _) hP

end MachineOn

/-! ## what a key determines: observable projections

The observable attributes of the arguments - everything the implementation built for a request
can depend on - and the proof that the key of the current derivation determines them. -/

/-- class, shape, periodicity and the EXACT values of the bounds -/
structure GridObs where
  cls : String
  shape : List Nat
  periodic : List Bool
  bounds : List (ℚ × ℚ)

def boundsVal (p : FloatSpec × FloatSpec) : ℚ × ℚ := (dyadicVal p.1.m p.1.e, dyadicVal p.2.m p.2.e)

def gridObs (g : GridSpec) : GridObs := ⟨g.cls, g.shape, g.periodic, g.bounds.map boundsVal⟩

theorem map_eq_of_map_eq {α β γ : Type} {f : α → β} {g : α → γ} (hfg : ∀ x y, f x = f y → g x = g y) :
    ∀ {l l' : List α}, l.map f = l'.map f → l.map g = l'.map g
  | [], [], _ => rfl
  | [], _ :: _, h => by simp at h
  | _ :: _, [], h => by simp at h
  | x :: l, y :: l', h => by
    simp only [List.map_cons, List.cons.injEq] at h ⊢
    exact ⟨hfg x y h.1, map_eq_of_map_eq hfg h.2⟩

/-- **The grid key determines the grid**: class, shape, periodicity and the exact value of every
bound (any finite floats, negative ones and fractions included: `fracText_inj`). -/
theorem grid_obs_of_key_eq (d : Deriv) (hd : d.gridRepr = true) (h2 : d.numRepr = true) (a b : GridSpec)
    (h : hashMutableG d (gridGraph a) = hashMutableG d (gridGraph b)) : gridObs a = gridObs b := by
  obtain ⟨h1, h3, h4, h5⟩ := grid_key_faithful_mutable d hd h2 a b h
  have h6 : a.bounds.map boundsVal = b.bounds.map boundsVal := by
    refine map_eq_of_map_eq ?_ h5
    intro x y hxy
    simp only [boundsText, Prod.mk.injEq] at hxy
    simp only [boundsVal, Prod.mk.injEq]
    exact ⟨fracText_inj hxy.1, fracText_inj hxy.2⟩
  simp [gridObs, h1, h3, h4, h6]

/-- ... and conversely grids with the same observables have the same key (the key is a function
of the observables: e.g. `UnitGrid` stores `np.float64` bounds, `CartesianGrid` Python floats) -/
theorem grid_key_eq_of_obs (d : Deriv) (hd : d.gridRepr = true) (h2 : d.numRepr = true) (a b : GridSpec)
    (h : gridObs a = gridObs b) : hashMutableG d (gridGraph a) = hashMutableG d (gridGraph b) := by
  simp only [gridObs, GridObs.mk.injEq] at h
  obtain ⟨h1, h3, h4, h5⟩ := h
  have h6 : a.bounds.map boundsText = b.bounds.map boundsText := by
    refine map_eq_of_map_eq ?_ h5
    intro x y hxy
    simp only [boundsVal, Prod.mk.injEq] at hxy
    simp only [boundsText, Prod.mk.injEq]
    exact ⟨fracText_eq_of_val hxy.1, fracText_eq_of_val hxy.2⟩
  have hf : ∀ (s : List (FloatSpec × FloatSpec)),
      s.map (hashMutableG d ∘ fun b => PyObj.tuple [floatObj b.1, floatObj b.2]) =
      (s.map boundsText).map (fun p : String × String =>
        Key.tup [Key.tup [strKey "number", strKey p.1], Key.tup [strKey "number", strKey p.2]]) := by
    intro s
    simp [List.map_map, Function.comp_def, floatObj, hashMutableG, hashListG, numKey, h2, boundsText, numText]
  simp only [gridGraph, hashMutableG, hd, if_true, hashListG, hashListG_eq, List.map_map]
  rw [hf, hf, h6, h1, h3, h4]

/-- the observable attributes of a boundary condition -/
structure BCObs where
  cls : BCClass
  grid : GridObs
  axis : Nat
  upper : Bool
  rank : Nat
  shapeTensor : List Nat
  shapeBoundary : List Nat
  /-- value array (dtype, shape, bytes), homogeneous, linked - for the classes that have a value -/
  value : Option (ArrSpec × Bool × Bool)
  const : Option ArrSpec
  flip : Option Bool

def bcObs (b : BCSpec) : BCObs :=
  { cls := b.cls, grid := gridObs b.grid, axis := b.axis, upper := b.upper, rank := b.rank,
    shapeTensor := b.shapeTensor, shapeBoundary := b.shapeBoundary,
    value := if b.cls.hasValue then some (b.value, b.homogeneous, b.valueIsLinked) else none,
    const := if b.cls.hasConst then some b.const else none,
    flip := if b.cls = .PeriodicBC then some b.flipSign else none }

theorem bc_obs_of_same (d : Deriv) (hd : d.gridRepr = true) (h2 : d.numRepr = true) {a b : BCSpec}
    (h : BCSame d a b) : bcObs a = bcObs b := by
  have hg := grid_obs_of_key_eq d hd h2 _ _ h.grid
  have hcls := h.cls
  have hv : (if a.cls.hasValue then some (a.value, a.homogeneous, a.valueIsLinked) else none) =
      (if b.cls.hasValue then some (b.value, b.homogeneous, b.valueIsLinked) else none) := by
    by_cases hh : a.cls.hasValue = true
    · obtain ⟨e1, e2, e3⟩ := h.value hh
      have hb : b.cls.hasValue = true := hcls ▸ hh
      simp [hh, hb, e1, e2, e3]
    · have hb : ¬ b.cls.hasValue = true := hcls ▸ hh
      simp [hh, hb]
  have hc : (if a.cls.hasConst then some a.const else none) = (if b.cls.hasConst then some b.const else none) := by
    by_cases hh : a.cls.hasConst = true
    · have hb : b.cls.hasConst = true := hcls ▸ hh
      simp [hh, hb, h.const hh]
    · have hb : ¬ b.cls.hasConst = true := hcls ▸ hh
      simp [hh, hb]
  have hf : (if a.cls = .PeriodicBC then some a.flipSign else none) = (if b.cls = .PeriodicBC then some b.flipSign else none) := by
    by_cases hh : a.cls = .PeriodicBC
    · have hb : b.cls = .PeriodicBC := hcls ▸ hh
      simp [hh, hb, h.flip hh]
    · have hb : ¬ b.cls = .PeriodicBC := hcls ▸ hh
      simp [hh, hb]
  simp only [bcObs, BCObs.mk.injEq]
  exact ⟨hcls, hg, h.axis, h.upper, h.rank, h.shapeTensor, h.shapeBoundary, hv, hc, hf⟩

structure AxisObs where
  periodic : Bool
  low : BCObs
  high : BCObs

def axisObs (a : AxisSpec) : AxisObs := ⟨a.periodic, bcObs a.low, bcObs a.high⟩

structure BcsObs where
  grid : GridObs
  rank : Nat
  axes : List AxisObs

def bcsObs (b : BcsSpec) : BcsObs := ⟨gridObs b.grid, b.rank, b.axes.map axisObs⟩

theorem map_eq_of_forall₂ {α β : Type} {R : α → α → Prop} {f : α → β} (hR : ∀ x y, R x y → f x = f y) :
    ∀ {l l' : List α}, List.Forall₂ R l l' → l.map f = l'.map f
  | _, _, .nil => rfl
  | _, _, .cons h t => by
    simp only [List.map_cons, List.cons.injEq]
    exact ⟨hR _ _ h, map_eq_of_forall₂ hR t⟩

theorem bcs_obs_of_same (d : Deriv) (hd : d.gridRepr = true) (h2 : d.numRepr = true) {a b : BcsSpec}
    (h : BcsSame d a b) : bcsObs a = bcsObs b := by
  have hax : a.axes.map axisObs = b.axes.map axisObs := by
    refine map_eq_of_forall₂ ?_ h.axes
    intro x y hxy
    simp only [axisObs, AxisObs.mk.injEq]
    exact ⟨hxy.periodic, bc_obs_of_same d hd h2 hxy.low, bc_obs_of_same d hd h2 hxy.high⟩
  simp only [bcsObs, BcsObs.mk.injEq]
  exact ⟨grid_obs_of_key_eq d hd h2 _ _ h.grid, h.rank, hax⟩

/-- the observable content of a plain argument (a dtype, the value of a keyword argument):
`None`, a hashable leaf identified by its equality class (type objects, `numpy.dtype`, backend
objects, functions), a string, or a finite number by its EXACT value (`1`, `1.0`, `True` and
`np.float64(1)` are the same argument) -/
inductive ArgObs where
  | none
  | atom (tag : String)
  | str (s : String)
  | num (v : ℚ)

def argObs : PyObj → Option ArgObs
  | .none => some .none
  | .atom t => some (.atom t)
  | .str s => some (.str s)
  | .num _ _ (.fin m e) => some (.num (dyadicVal m e))
  | _ => Option.none

theorem strKey_ne_none (s : String) : strKey s ≠ .leaf (.int pyHashNone) := by
  unfold strKey rawKey
  split
  · split
    · intro h; injection h with h; injection h with h; revert h; decide
    · simp
  · simp

theorem strKey_ne_atom (s t : String) : strKey s ≠ .leaf (.atom t) := by
  unfold strKey rawKey
  split
  · split <;> simp
  · simp

theorem strKey_ne_tup (s : String) (l : List Key) : strKey s ≠ .tup l := by
  unfold strKey rawKey
  split
  · split <;> simp
  · simp

/-- **The key of a plain argument determines its observable content** (numbers: for ALL finite
values, by `fracText_inj`). -/
theorem arg_obs_of_key_eq (d : Deriv) (h2 : d.numRepr = true) {a b : PyObj} {x y : ArgObs}
    (ha : argObs a = some x) (hb : argObs b = some y)
    (h : hashMutableG d a = hashMutableG d b) : x = y := by
  cases a <;> simp only [argObs, Option.some.injEq, reduceCtorEq] at ha
  case none =>
    subst ha
    cases b <;> simp only [argObs, Option.some.injEq, reduceCtorEq] at hb
    case none => exact hb
    case atom t => simp [hashMutableG] at h
    case str s => simp only [hashMutableG] at h; exact absurd h.symm (strKey_ne_none s)
    case num c r v =>
      cases v <;> simp only [argObs, Option.some.injEq, reduceCtorEq] at hb
      simp [hashMutableG, numKey, h2] at h
  case atom t =>
    subst ha
    cases b <;> simp only [argObs, Option.some.injEq, reduceCtorEq] at hb
    case none => simp [hashMutableG] at h
    case atom t' => subst hb; simp only [hashMutableG] at h; injection h with h; injection h with h; rw [h]
    case str s => simp only [hashMutableG] at h; exact absurd h.symm (strKey_ne_atom s t)
    case num c r v =>
      cases v <;> simp only [argObs, Option.some.injEq, reduceCtorEq] at hb
      simp [hashMutableG, numKey, h2] at h
  case str s =>
    subst ha
    cases b <;> simp only [argObs, Option.some.injEq, reduceCtorEq] at hb
    case none => simp only [hashMutableG] at h; exact absurd h (strKey_ne_none s)
    case atom t' => simp only [hashMutableG] at h; exact absurd h (strKey_ne_atom s t')
    case str s' => subst hb; simp only [hashMutableG] at h; rw [strKey_inj h]
    case num c r v =>
      cases v <;> simp only [argObs, Option.some.injEq, reduceCtorEq] at hb
      simp only [hashMutableG, numKey, h2, if_true] at h
      exact absurd h (strKey_ne_tup _ _)
  case num c r v =>
    cases v <;> simp only [argObs, Option.some.injEq, reduceCtorEq] at ha
    case fin m e =>
      subst ha
      cases b <;> simp only [argObs, Option.some.injEq, reduceCtorEq] at hb
      case none => simp [hashMutableG, numKey, h2] at h
      case atom t' => simp [hashMutableG, numKey, h2] at h
      case str s' =>
        simp only [hashMutableG, numKey, h2, if_true] at h
        exact absurd h.symm (strKey_ne_tup _ _)
      case num c' r' v' =>
        cases v' <;> simp only [argObs, Option.some.injEq, reduceCtorEq] at hb
        case fin m' e' =>
          subst hb
          simp only [hashMutableG, numKey, h2, if_true, numText] at h
          have h3 : strKey (fracText m e) = strKey (fracText m' e') := by
            injection h with h; injection h with _ h; injection h
          rw [fracText_inj (strKey_inj h3)]

/-- the arguments of a keyword dictionary are of the modelled kinds, no name twice, no name
that the key derivation drops (`_cache...`) -/
structure KwModelled (kw : List (String × PyObj)) : Prop where
  nodup : (kw.map Prod.fst).Nodup
  args : ∀ p ∈ kw, (argObs p.2).isSome = true
  names : ∀ p ∈ kw, isCacheAttr p.1 = false

/-- what a keyword dictionary says: name ↦ observable content -/
def kwObs (kw : List (String × PyObj)) : String → Option ArgObs := fun n => (kw.lookup n).bind argObs

theorem mem_of_lookup {β : Type} {l : List (String × β)} {n : String} {v : β} (h : l.lookup n = some v) : (n, v) ∈ l := by
  induction l with
  | nil => simp at h
  | cons p l ih =>
    obtain ⟨a, b⟩ := p
    simp only [List.lookup_cons] at h
    split at h
    · next heq =>
      have : n = a := by simpa using heq
      simp at h
      simp [this, h]
    · exact List.mem_cons_of_mem _ (ih h)

theorem lookup_none_of_cache {β : Type} {l : List (String × β)} (hn : ∀ p ∈ l, isCacheAttr p.1 = false) {n : String}
    (h : isCacheAttr n = true) : l.lookup n = none := by
  cases hl : l.lookup n with
  | none => rfl
  | some v => have := hn _ (mem_of_lookup hl); simp [h] at this

theorem bind_obs_eq (d : Deriv) (h2 : d.numRepr = true) {A B : List (String × PyObj)}
    (hA : ∀ p ∈ A, (argObs p.2).isSome = true) (hB : ∀ p ∈ B, (argObs p.2).isSome = true) (n : String)
    (h : (A.lookup n).map (hashMutableG d) = (B.lookup n).map (hashMutableG d)) :
    (A.lookup n).bind argObs = (B.lookup n).bind argObs := by
  cases ha : A.lookup n with
  | none =>
    cases hb : B.lookup n with
    | none => rfl
    | some y => simp [ha, hb] at h
  | some x =>
    cases hb : B.lookup n with
    | none => simp [ha, hb] at h
    | some y =>
      have hx := hA _ (mem_of_lookup ha)
      have hy := hB _ (mem_of_lookup hb)
      obtain ⟨ox, hox⟩ := Option.isSome_iff_exists.mp hx
      obtain ⟨oy, hoy⟩ := Option.isSome_iff_exists.mp hy
      simp only [ha, hb, Option.map_some, Option.some.injEq] at h
      simp only [Option.bind_some]
      simp only at hox hoy
      rw [hox, hoy, arg_obs_of_key_eq d h2 hox hoy h]

/-- **Keyword keys** (the cached `make_interpolator(**kwargs)`, `fill=-1` vs `fill=-2`, `0.5` vs
`2**60`, any finite numbers): equal wrapper keys imply that every name carries the same
observable content. -/
theorem kwargs_obs_of_key_eq (d : Deriv) (h2 : d.numRepr = true) {kw kw' : List (String × PyObj)}
    (hk : KwModelled kw) (hk' : KwModelled kw')
    (h : cacheKeyG d [] [] [] kw = cacheKeyG d [] [] [] kw') : kwObs kw = kwObs kw' := by
  simp only [cacheKeyG, hashMutableG, hashListG, List.cons_append, List.nil_append, List.append_nil] at h
  injection h with h
  injection h with _ h
  injection h with hkw _
  have hfa : ∀ l : List (String × PyObj), l.filter (fun kv => !([] : List String).contains kv.1) = l := by
    intro l; simp
  rw [hfa, hfa] at hkw
  funext n
  by_cases hn : isCacheAttr n = true
  · simp [kwObs, lookup_none_of_cache hk.names hn, lookup_none_of_cache hk'.names hn]
  · have hn' : isCacheAttr n = false := by simpa using hn
    have := dictKey_lookup hkw (hashAttrsG_names_nodup d _ hk.nodup) n
    have hm : (kw.lookup n).map (hashMutableG d) = (kw'.lookup n).map (hashMutableG d) := by
      simpa [lookup_hashAttrsG, hn'] using this
    exact bind_obs_eq d h2 hk.args hk'.args n hm

/-- the observable content of a request to the cached `make_operator` -/
structure OpObs where
  grid : GridObs
  op : OpSpec
  bcs : BcsObs
  dtype : Option ArgObs
  kwargs : String → Option ArgObs

def opObs (r : OpReq) : OpObs := ⟨gridObs r.grid, r.op, bcsObs r.bcs, argObs r.dtype, kwObs r.kwargs⟩

/-- requests whose arguments are of the modelled kinds -/
structure OpReq.Modelled (r : OpReq) : Prop where
  small : ∀ x ∈ r.bcs.axes, x.Small
  dtype : (argObs r.dtype).isSome = true
  kwargs : KwModelled r.kwargs
  reserved : ∀ p ∈ r.kwargs, p.1 ≠ "bcs" ∧ p.1 ≠ "dtype"

theorem lookup_none_of_not_name {β : Type} {l : List (String × β)} {n : String} (h : ∀ p ∈ l, p.1 ≠ n) : l.lookup n = none := by
  cases hl : l.lookup n with
  | none => rfl
  | some v => exact absurd rfl (h _ (mem_of_lookup hl))

/-- **The key of the cached `make_operator` determines the observable content of the request.** -/
theorem opreq_obs_of_key_eq (d : Deriv) (h1 : d.withClass = true) (h2 : d.numRepr = true)
    (h3 : d.arrMeta = true) (h4 : d.gridRepr = true) (a b : OpReq) (ha : a.Modelled) (hb : b.Modelled)
    (h : opReqKeyG d a = opReqKeyG d b) : opObs a = opObs b := by
  have hna : ((opReqKwargs a).map Prod.fst).Nodup := by
    simp only [opReqKwargs, List.cons_append, List.nil_append, List.map_cons, List.nodup_cons, List.mem_cons,
      List.mem_map, not_or]
    refine ⟨⟨by decide, ?_⟩, ?_, ha.kwargs.nodup⟩
    · rintro ⟨p, hp, hpe⟩; exact (ha.reserved p hp).1 hpe
    · rintro ⟨p, hp, hpe⟩; exact (ha.reserved p hp).2 hpe
  have hs := opreq_key_faithful d h1 h2 h3 a b ha.small hb.small hna h
  obtain ⟨oa, hoa⟩ := Option.isSome_iff_exists.mp ha.dtype
  obtain ⟨ob, hob⟩ := Option.isSome_iff_exists.mp hb.dtype
  have hdt : argObs a.dtype = argObs b.dtype := by
    rw [hoa, hob, arg_obs_of_key_eq d h2 hoa hob hs.dtype]
  have hkw : kwObs a.kwargs = kwObs b.kwargs := by
    funext n
    by_cases hn : isCacheAttr n = true
    · simp [kwObs, lookup_none_of_cache ha.kwargs.names hn, lookup_none_of_cache hb.kwargs.names hn]
    · have hn' : isCacheAttr n = false := by simpa using hn
      by_cases hnb : n = "bcs"
      · subst hnb
        simp [kwObs, lookup_none_of_not_name (fun p hp => (ha.reserved p hp).1),
          lookup_none_of_not_name (fun p hp => (hb.reserved p hp).1)]
      · by_cases hnd : n = "dtype"
        · subst hnd
          simp [kwObs, lookup_none_of_not_name (fun p hp => (ha.reserved p hp).2),
            lookup_none_of_not_name (fun p hp => (hb.reserved p hp).2)]
        · exact bind_obs_eq d h2 ha.kwargs.args hb.kwargs.args n (hs.kwargs n hn' hnb hnd)
  simp only [opObs, OpObs.mk.injEq]
  exact ⟨grid_obs_of_key_eq d h4 h2 _ _ hs.grid, hs.op, bcs_obs_of_same d h4 h2 hs.bcs, hdt, hkw⟩

/-! ## composition: the cached methods of py-pde, every history

Whatever `make_operator` builds for a request - as long as it is a function `build` of the
observable content of the request - every history of modelled requests on the cache keyed by the
CURRENT key derivation returns exactly what a fresh construction returns: for every order, every
length, every capacity.  (That the real operators are functions of the observables, and that the
modelled graphs are the graphs of the real arguments, is what the harness checks on the real
code: `sem_eq` / `cached_ok` monitors and the `spec-graph` tie.) -/

theorem make_operator_cache_sound {V : Type} (build : OpObs → V) (cap : Option Nat) (rs : List OpReq)
    (hrs : ∀ r ∈ rs, r.Modelled) :
    runAll cap opReqKey (fun r => build (opObs r)) [] rs = rs.map (fun r => build (opObs r)) :=
  cache_sound_of_faithful_on OpReq.Modelled cap opReqKey _
    (fun a b ha hb h => by
      show build (opObs a) = build (opObs b)
      rw [opreq_obs_of_key_eq Deriv.cur rfl rfl rfl rfl a b ha hb h])
    rs [] (CInvOn_nil _ _ _) hrs

/-- the same on the per-instance `_cache_methods` machine (the backend singleton), with
invalidations and other cached methods of the instance interleaved -/
theorem make_operator_events_sound {V : Type} (build : String → OpObs → V) (cap : Option Nat)
    (es : List (Ev OpReq)) (hes : EvsOn (fun _ r => r.Modelled) es) :
    runEvents cap (fun _ => opReqKey) (fun n r => build n (opObs r)) none es
      = freshEvents (fun n r => build n (opObs r)) es :=
  events_sound_of_faithful_on (fun _ r => r.Modelled) cap _ _
    (fun n a b ha hb h => by
      show build n (opObs a) = build n (opObs b)
      rw [opreq_obs_of_key_eq Deriv.cur rfl rfl rfl rfl a b ha hb h])
    es none (fun n => CInvOn_nil _ _ _) hes

/-- `DataFieldBase.make_interpolator(**kwargs)` (and every other cached method keyed by plain
keyword arguments only): every history of modelled keyword dictionaries -/
theorem kwargs_method_cache_sound {V : Type} (build : (String → Option ArgObs) → V) (cap : Option Nat)
    (rs : List (List (String × PyObj))) (hrs : ∀ kw ∈ rs, KwModelled kw) :
    runAll cap (cacheKey [] [] []) (fun kw => build (kwObs kw)) [] rs = rs.map (fun kw => build (kwObs kw)) :=
  cache_sound_of_faithful_on KwModelled cap (cacheKey [] [] []) _
    (fun a b ha hb h => by
      show build (kwObs a) = build (kwObs b)
      rw [kwargs_obs_of_key_eq Deriv.cur rfl ha hb h])
    rs [] (CInvOn_nil _ _ _) hrs

/-- the regression in the same terms: before F1 the composed statement is FALSE for the history
`[value 0, derivative 0]` whenever the two operators differ -/
theorem make_operator_cache_unsound_old {V : Type} (build : OpObs → V)
    (hs : build (opObs (laplaceReq dirichlet0)) ≠ build (opObs (laplaceReq neumann0))) :
    runAll none (opReqKeyG .beforeF1) (fun r => build (opObs r)) [] [laplaceReq dirichlet0, laplaceReq neumann0]
      ≠ [laplaceReq dirichlet0, laplaceReq neumann0].map (fun r => build (opObs r)) :=
  (cache_unsound_of_collision none (by simp) _ (fun r => build (opObs r)) _ _ opreq_key_collision_old.1 hs).2

/-! ### non-vacuity of the composition -/

/-- the hypotheses are satisfiable: the two requests of the F1 regression are modelled ... -/
theorem laplaceReq_modelled (b : BCSpec) (hb : b.value.Small ∧ b.const.Small) : (laplaceReq b).Modelled := by
  refine ⟨?_, rfl, ⟨by simp [laplaceReq], by simp [laplaceReq], by simp [laplaceReq]⟩, by simp [laplaceReq]⟩
  intro x hx
  simp only [laplaceReq, bcsOf, List.mem_singleton] at hx
  subst hx
  exact ⟨hb, hb⟩

example : (laplaceReq dirichlet0).Modelled ∧ (laplaceReq neumann0).Modelled := by
  constructor <;> apply laplaceReq_modelled <;> constructor <;> intro n hn <;> simp [dirichlet0, neumann0] at hn

/-- ... their observable contents differ (so `build` may tell them apart) ... -/
example : (opObs (laplaceReq dirichlet0)).bcs.axes.map (fun a => a.low.cls) ≠
    (opObs (laplaceReq neumann0)).bcs.axes.map (fun a => a.low.cls) := by
  decide

/-- ... and a keyword dictionary with a negative and a fractional number is modelled -/
example : KwModelled [("fill", .num "int" "-1" (.fin (-1) 0)), ("with_ghost_cells", boolObj true), ("backend", .str "numba")] := by
  refine ⟨by decide, ?_, ?_⟩ <;> intro p hp <;> simp at hp <;> rcases hp with rfl | rfl | rfl <;> first | rfl | decide

/-- `fill=-1` and `fill=-2`, `0.5` and `2**60` are told apart by the key (as values, not by a finite table) -/
example : kwObs [("fill", .num "int" "-1" (.fin (-1) 0))] "fill" ≠ kwObs [("fill", .num "int" "-2" (.fin (-2) 0))] "fill" := by
  simp [kwObs, argObs, dyadicVal]



/-! ## (vi) the operator registry: the registration as part of the cache key -/

/-! ## (vi) registry -/

/-- the key that contains the resolved registration is faithful -/
theorem name_key_by_info_faithful (a b : NameReq) (h : a.key .byInfo = b.key .byInfo) : a.sem = b.sem := by
  simp only [NameReq.key, Prod.mk.injEq, Option.some.injEq] at h
  exact h.2.2.2

/-- every entry of the cache keyed with the registration holds the factory its key names -/
def RInv (c : List (NameK × Nat)) : Prop :=
  ∀ k v, c.lookup k = some v → k.2.2.2 = some (some v)

theorem regCall_spec (c : List (NameK × Nat)) (q : NameReq) (h : RInv c) :
    RInv (regCall .byInfo c q).1 ∧ (regCall .byInfo c q).2 = q.sem := by
  unfold regCall
  split
  · rename_i v hv
    refine ⟨h, ?_⟩
    have := h _ _ hv
    simp only [NameReq.key, Option.some.injEq] at this
    exact this.symm
  · rename_i hn
    cases hs : q.sem with
    | none => exact ⟨h, rfl⟩
    | some fid =>
      refine ⟨?_, rfl⟩
      intro k v hk
      simp only [List.lookup_cons] at hk
      split at hk
      · rename_i heq
        have : k = q.key .byInfo := by simpa using heq
        subst this
        simp only [Option.some.injEq] at hk
        subst hk
        simp only [NameReq.key]
        exact congrArg some hs
      · exact h _ _ hk

/-- **Registration as part of the key.**  For EVERY history of registrations, removals and queries
(on any number of cache objects, any names) every cached call whose key contains the resolved
`OperatorInfo` returns what the name denotes at the moment of the call. -/
theorem registry_cache_sound_by_info (es : List RegEv) : regRun .byInfo es = regRef es := by
  unfold regRun regRef
  suffices h : ∀ (qs : List NameReq) (c), RInv c → regRunAll .byInfo c qs = qs.map NameReq.sem from
    h _ [] (by intro k v hk; simp at hk)
  intro qs
  induction qs with
  | nil => intro c _; rfl
  | cons q qs ih =>
    intro c hc
    simp only [regRunAll, List.map_cons]
    rw [(regCall_spec c q hc).2, ih _ (regCall_spec c q hc).1]

/-- **The name alone is not a faithful key** (seeded change C04-3; on the unchanged tree: the direct
calls `grid.make_operator_no_bc("op")`, `backend.make_operator(grid, "op", bcs=...)` and a `PDE`
object): for every cache object, name, factories `f ≠ g` the history
`[register f, query, register g, query]` answers `[f, f]`, a fresh process answers `[f, g]`. -/
theorem registry_cache_stale_by_name (c l x f g : Nat) (n : String) (hfg : f ≠ g) :
    regRun .byName [.register l n f, .query c n x, .register l n g, .query c n x] = [some f, some f] ∧
    regRef [.register l n f, .query c n x, .register l n g, .query c n x] = [some f, some g] ∧
    regRun .byInfo [.register l n f, .query c n x, .register l n g, .query c n x] = [some f, some g] ∧
    regRun .byName [.register l n f, .query c n x, .register l n g, .query c n x] ≠
      regRef [.register l n f, .query c n x, .register l n g, .query c n x] := by
  have r1 : Registry.resolve (Registry.register [] l n f) n = some f := by
    simp [Registry.resolve, Registry.register, Registry.better]
  have r2 : Registry.resolve (Registry.register (Registry.register [] l n f) l n g) n = some g := by
    simp [Registry.resolve, Registry.register, Registry.better]
  have h1 : regRun .byName [.register l n f, .query c n x, .register l n g, .query c n x] = [some f, some f] := by
    simp [regRun, regRequests, regRunAll, regCall, NameReq.key, NameReq.sem, r1, List.lookup]
  have h2 : regRef [.register l n f, .query c n x, .register l n g, .query c n x] = [some f, some g] := by
    simp [regRef, regRequests, NameReq.sem, r1, r2]
  refine ⟨h1, h2, ?_, ?_⟩
  · rw [registry_cache_sound_by_info, h2]
  · rw [h1, h2]
    simp
    exact hfg

/-- the walk order of `get_operator_info`: an entry found earlier (lower level) shadows a later one, also when it was
registered later; removing it uncovers the other one again; the cache keyed with the registration follows -/
example : regRun .byInfo [.register 2 "op" 7, .query 0 "op" 0, .register 0 "op" 8, .query 0 "op" 0, .query 1 "op" 0,
      .unregister 0 "op", .query 0 "op" 0, .unregister 2 "op", .query 0 "op" 0] = [some 7, some 8, some 8, some 7, none] ∧
    regRun .byName [.register 2 "op" 7, .query 0 "op" 0, .register 0 "op" 8, .query 0 "op" 0, .query 1 "op" 0,
      .unregister 0 "op", .query 0 "op" 0, .unregister 2 "op", .query 0 "op" 0] = [some 7, some 7, some 8, some 7, some 7] := by
  decide +kernel

/-! ## (vii) the operator table of a PDE with several variables -/

section OpTable
variable {κ V : Type} [DecidableEq κ]

/-- one step of `_add_operators_to_expr` -/
def addOne (key : String → String → κ) (build : String → String → V) (name : String) (t : List (κ × V)) (o : String) : List (κ × V) :=
  match t.lookup (key name o) with
  | some _ => t
  | none => (key name o, build name o) :: t

theorem addOpsK_eq (key : String → String → κ) (build : String → String → V) (tab) (v : VarSpec) :
    addOpsK key build tab v = v.ops.foldl (addOne key build v.name) tab := rfl

/-- entries are never overwritten -/
theorem addOne_mono (key : String → String → κ) (build : String → String → V) (name : String) (t) (o : String)
    (k : κ) (x : V) (h : t.lookup k = some x) : (addOne key build name t o).lookup k = some x := by
  unfold addOne
  split
  · exact h
  · rename_i hn
    rw [List.lookup_cons]
    split
    · rename_i heq
      have : k = key name o := by simpa using heq
      subst this
      rw [hn] at h
      exact absurd h (by simp)
    · exact h

theorem addOne_present (key : String → String → κ) (build : String → String → V) (name : String) (t) (o : String) :
    ∃ x, (addOne key build name t o).lookup (key name o) = some x := by
  unfold addOne
  split
  · rename_i x hx
    exact ⟨x, hx⟩
  · exact ⟨build name o, by simp⟩

theorem foldl_addOne_mono (key : String → String → κ) (build : String → String → V) (name : String) (os : List String) :
    ∀ (t : List (κ × V)) (k : κ) (x : V), t.lookup k = some x → (os.foldl (addOne key build name) t).lookup k = some x := by
  induction os with
  | nil => intro t k x h; exact h
  | cons o os ih =>
    intro t k x h
    exact ih _ k x (addOne_mono key build name t o k x h)

theorem foldl_addOne_present (key : String → String → κ) (build : String → String → V) (name : String) (os : List String) :
    ∀ (t : List (κ × V)) (o : String), o ∈ os → ∃ x, (os.foldl (addOne key build name) t).lookup (key name o) = some x := by
  induction os with
  | nil => intro t o h; exact absurd h (by simp)
  | cons o' os ih =>
    intro t o h
    rcases List.mem_cons.mp h with rfl | h
    · obtain ⟨x, hx⟩ := addOne_present key build name t o
      exact ⟨x, foldl_addOne_mono key build name os _ _ x hx⟩
    · exact ih _ o h

theorem prepareK_mono (key : String → String → κ) (build : String → String → V) (vars : List VarSpec) :
    ∀ (t : List (κ × V)) (k : κ) (x : V), t.lookup k = some x → (prepareK key build t vars).lookup k = some x := by
  induction vars with
  | nil => intro t k x h; exact h
  | cons v vs ih =>
    intro t k x h
    exact ih _ k x (foldl_addOne_mono key build v.name v.ops t k x h)

theorem prepareK_present (key : String → String → κ) (build : String → String → V) (vars : List VarSpec) :
    ∀ (t : List (κ × V)) (v : VarSpec) (o : String), v ∈ vars → o ∈ v.ops →
      ∃ x, (prepareK key build t vars).lookup (key v.name o) = some x := by
  induction vars with
  | nil => intro t v o h; exact absurd h (by simp)
  | cons w vs ih =>
    intro t v o hv ho
    rcases List.mem_cons.mp hv with rfl | hv
    · obtain ⟨x, hx⟩ := foldl_addOne_present key build v.name v.ops t o ho
      exact ⟨x, prepareK_mono key build vs _ _ x hx⟩
    · exact ih _ v o hv ho

/-- every entry is the operator built for a (variable, operator) pair with that key -/
def TInv (key : String → String → κ) (build : String → String → V) (t : List (κ × V)) : Prop :=
  ∀ k x, t.lookup k = some x → ∃ v o, key v o = k ∧ x = build v o

theorem addOne_inv (key : String → String → κ) (build : String → String → V) (name : String) (t) (o : String)
    (h : TInv key build t) : TInv key build (addOne key build name t o) := by
  unfold addOne
  split
  · exact h
  · intro k x hk
    rw [List.lookup_cons] at hk
    split at hk
    · rename_i heq
      have : k = key name o := by simpa using heq
      subst this
      simp only [Option.some.injEq] at hk
      exact ⟨name, o, rfl, hk.symm⟩
    · exact h k x hk

theorem prepareK_inv (key : String → String → κ) (build : String → String → V) (vars : List VarSpec) :
    ∀ t, TInv key build t → TInv key build (prepareK key build t vars) := by
  induction vars with
  | nil => intro t h; exact h
  | cons v vs ih =>
    intro t h
    apply ih
    show TInv key build (v.ops.foldl (addOne key build v.name) t)
    generalize v.ops = os
    induction os generalizing t with
    | nil => exact h
    | cons o os ih2 => exact ih2 _ (addOne_inv key build v.name t o h)

theorem TInv_nil (key : String → String → κ) (build : String → String → V) : TInv key build [] := by
  intro k x h; simp at h

theorem TInv_cons (key : String → String → κ) (build : String → String → V) (v o : String) (t : List (κ × V))
    (h : TInv key build t) : TInv key build ((key v o, build v o) :: t) := by
  intro k x hk
  rw [List.lookup_cons] at hk
  split at hk
  · rename_i heq
    have : k = key v o := by simpa using heq
    subst this
    simp only [Option.some.injEq] at hk
    exact ⟨v, o, rfl, hk.symm⟩
  · exact h k x hk

/-- **A faithful table key.**  If the key of the table determines the (variable, operator) pair up to
what `build` distinguishes, then for EVERY list of variables in EVERY order, starting from any table whose
entries are of that form (`init`: the general operators `dot`, `inner`, `outer`, `integral`, whose
implementation is the same for every variable), the expression of every variable finds, under every
operator name it uses, the operator built for this variable and operator. -/
theorem served_of_faithful_key (key : String → String → κ) (build : String → String → V)
    (faithful : ∀ v o v' o', key v o = key v' o' → build v o = build v' o')
    (init : List (κ × V)) (hinit : TInv key build init)
    (vars : List VarSpec) (v : VarSpec) (o : String) (hv : v ∈ vars) (ho : o ∈ v.ops) :
    servedK key build init vars v.name o = some (build v.name o) := by
  unfold servedK
  obtain ⟨x, hx⟩ := prepareK_present key build vars init v o hv ho
  obtain ⟨v', o', hk, rfl⟩ := prepareK_inv key build vars init hinit _ _ hx
  rw [hx, faithful _ _ _ _ hk]

end OpTable

/-- **The table keyed by (variable, operator)** - the code as it is, every variable prepares its own copy -
serves every variable the operator built for it (with the boundary condition selected for
`VARIABLE:OPERATOR`), for every list of variables. -/
theorem pde_operator_table_faithful {V : Type} (build : String → String → V) (vars : List VarSpec)
    (v : VarSpec) (o : String) (hv : v ∈ vars) (ho : o ∈ v.ops) :
    servedK TableKey.perVar.key build [] vars v.name o = some (build v.name o) := by
  apply served_of_faithful_key _ _ _ [] (TInv_nil _ _) vars v o hv ho
  intro a b a' b' h
  simp only [TableKey.key, Prod.mk.injEq] at h
  rw [h.1, h.2]

/-- ... in particular in every order of the variables -/
theorem pde_operator_table_order_independent {V : Type} (build : String → String → V) (vars vars' : List VarSpec)
    (hp : vars ~ vars') (v : VarSpec) (o : String) (hv : v ∈ vars) (ho : o ∈ v.ops) :
    servedK TableKey.perVar.key build [] vars' v.name o = servedK TableKey.perVar.key build [] vars v.name o := by
  rw [pde_operator_table_faithful build vars v o hv ho, pde_operator_table_faithful build vars' v o (hp.subset hv) ho]

/-- the boundary condition of every operator of every variable is the one `PDE.bcs` selects for it -/
theorem pde_bc_per_variable (bcs : BcKeys) (vars : List VarSpec) (v : VarSpec) (o : String) (hv : v ∈ vars) (ho : o ∈ v.ops) :
    servedBC .perVar bcs vars v.name o = some (selectBC bcs v.name o) :=
  pde_operator_table_faithful (selectBC bcs) vars v o hv ho

/-- all entries of a table that only one variable wrote were built for that variable -/
theorem foldl_addOne_inv_name {κ V : Type} [DecidableEq κ] (key : String → String → κ) (build : String → String → V) (name : String)
    (os : List String) : ∀ (t : List (κ × V)), (∀ k x, t.lookup k = some x → ∃ o, key name o = k ∧ x = build name o) →
      ∀ k x, (os.foldl (addOne key build name) t).lookup k = some x → ∃ o, key name o = k ∧ x = build name o := by
  induction os with
  | nil => intro t h; exact h
  | cons o os ih =>
    intro t h
    apply ih
    intro k x hk
    unfold addOne at hk
    split at hk
    · exact h k x hk
    · rw [List.lookup_cons] at hk
      split at hk
      · rename_i heq
        have : k = key name o := by simpa using heq
        subst this
        simp only [Option.some.injEq] at hk
        exact ⟨o, rfl, hk.symm⟩
      · exact h k x hk

/-- **One table for all variables is served by whoever comes first**: with the operator name as the
only key, EVERY variable (`var` arbitrary) finds under an operator name that the first variable uses
the operator built for the FIRST variable - with the boundary condition of the first variable. -/
theorem pde_shared_table_serves_first {V : Type} (build : String → String → V) (u : VarSpec) (rest : List VarSpec)
    (var o : String) (ho : o ∈ u.ops) :
    servedK TableKey.shared.key build [] (u :: rest) var o = some (build u.name o) := by
  unfold servedK
  obtain ⟨x, hx⟩ := foldl_addOne_present TableKey.shared.key build u.name u.ops [] o ho
  obtain ⟨o', hk, rfl⟩ := foldl_addOne_inv_name TableKey.shared.key build u.name u.ops []
    (by intro k x h; simp at h) _ _ hx
  simp only [TableKey.key, Prod.mk.injEq, true_and] at hk
  subst hk
  exact prepareK_mono TableKey.shared.key build rest _ _ _ hx

/-- **Kernel-checked witness (seeded change C04-4).**  `PDE({"u": "laplace(u)", "v": "laplace(v)"},
bc_ops={"u:laplace": b0, "v:laplace": b1})`: with one table for all variables the equation of `v` is
served the operator with the condition of `u` (entry 0), its own condition (entry 1) is never used;
swapping the variables swaps which one is wrong; the table keyed by (variable, operator) serves both
correctly in both orders. -/
theorem pde_shared_operator_table_unsound :
    let bcs : BcKeys := [("u", "laplace"), ("v", "laplace"), ("*", "*")]
    let u : VarSpec := ⟨"u", ["laplace"]⟩
    let v : VarSpec := ⟨"v", ["laplace"]⟩
    servedBC .shared bcs [u, v] "v" "laplace" = some (some 0) ∧ selectBC bcs "v" "laplace" = some 1 ∧
    servedBC .shared bcs [v, u] "u" "laplace" = some (some 1) ∧ selectBC bcs "u" "laplace" = some 0 ∧
    bcsUsed .shared bcs [u, v] = [0] ∧ bcsUsed .shared bcs [v, u] = [1] ∧
    servedBC .perVar bcs [u, v] "v" "laplace" = some (some 1) ∧ servedBC .perVar bcs [v, u] "u" "laplace" = some (some 0) ∧
    bcsUsed .perVar bcs [u, v] = [1, 0] ∧ bcsUsed .perVar bcs [v, u] = [0, 1] := by
  decide +kernel

/-- the hypotheses of `served_of_faithful_key` hold for a table that starts with the general operators (`dot`: the same
implementation in the copy of every variable) -/
example : let build : String → String → String := fun v o => if o = "dot" then "DOT" else v ++ ":" ++ o
    TInv TableKey.perVar.key build [(("u", "dot"), "DOT"), (("v", "dot"), "DOT")] ∧
    servedK TableKey.perVar.key build [(("u", "dot"), "DOT"), (("v", "dot"), "DOT")]
      [⟨"u", ["dot", "laplace"]⟩, ⟨"v", ["laplace", "dot"]⟩] "v" "laplace" = some "v:laplace" ∧
    servedK TableKey.perVar.key build [(("u", "dot"), "DOT"), (("v", "dot"), "DOT")]
      [⟨"u", ["dot", "laplace"]⟩, ⟨"v", ["laplace", "dot"]⟩] "v" "dot" = some "DOT" := by
  intro build
  refine ⟨?_, by decide +kernel, by decide +kernel⟩
  exact TInv_cons TableKey.perVar.key build "u" "dot" _ (TInv_cons TableKey.perVar.key build "v" "dot" _ (TInv_nil _ _))

/-- the hypotheses of `pde_operator_table_faithful` are satisfiable with operators shared between variables -/
example : let vars : List VarSpec := [⟨"u", ["laplace", "gradient_squared"]⟩, ⟨"v", ["laplace"]⟩, ⟨"w", ["laplace", "laplace"]⟩]
    (⟨"v", ["laplace"]⟩ : VarSpec) ∈ vars ∧ "laplace" ∈ (⟨"v", ["laplace"]⟩ : VarSpec).ops ∧
    servedK TableKey.perVar.key (fun v o => v ++ ":" ++ o) [] vars "w" "laplace" = some "w:laplace" ∧
    servedK TableKey.shared.key (fun v o => v ++ ":" ++ o) [] vars "w" "laplace" = some "u:laplace" := by
  decide +kernel

end PdeVerif.Cache
