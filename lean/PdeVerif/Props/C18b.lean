import PdeVerif.Props.C02
import PdeVerif.Props.C18
/-
C18 / C03 - the sparse-matrix route equals the stencil route **after the ghost-cell setter**.

`Props/C18.lean` proves `matvec (assembled row) x + v = stencil of C01 on a padded array a` under the hypotheses "the valid
cells of `a` hold `x`, the ghost cells of `a` hold `bcData.eval x`".  Here the padded array is no longer hypothetical: it is
`BC.setGhostAll faces a0`, the model of `set_ghost_cells` that C02 is about (and that `c02.ghost` / `c03.apply` evaluate
against the interpreted and the compiled setter of the real code), applied to *any* padded array `a0` whose valid cells hold
`x` (whatever its ghost cells, edges and corners held before).  The conditions are the `BC.Cond` of C02 (values may vary along
the face); the matrix is assembled from `bcData` of the condition at each face point (`pcondAt`), which is what
`get_sparse_matrix_data` returns there.
-/
set_option linter.unusedSimpArgs false
set_option linter.unusedSectionVars false

namespace PdeVerif.Matrix
open PdeVerif PdeVerif.BC PdeVerif.Stencil

section
variable {K : Type} [Field K] [CharZero K]

/-- the conditions for which `get_sparse_matrix_data` exists (`ExpressionBC` raises `NotImplementedError`) and is finite
(no face point with a non-finite Robin factor) -/
def HasMatrixData : Cond K → Prop
  | .mixed nf _ _ => ∀ vi, nf vi = false
  | .exprValue _ => False
  | .exprDerivative _ => False
  | .exprMixed _ _ => False
  | _ => True

/-- the scalar condition at the face point with value index `vi` -/
def pcondAt (c : Cond K) (vi : List Int) : PCond K :=
  match c with
  | .dirichlet v => .dirichlet (v vi)
  | .neumann d => .neumann (d vi)
  | .mixed _ g b => .mixed (g vi) (b vi)
  | .curvature k => .curvature (k vi)
  | .periodic flip => .periodic flip
  | .exprValue v => .dirichlet (v vi)
  | .exprDerivative v => .neumann (v vi)
  | .exprMixed g b => .mixed (g vi) (b vi)

/-- **the value `set_ghost_cells` writes is the value `get_sparse_matrix_data` describes**: the ghost-cell law of C02 at a
face point, read on the line through that point, is `const + Σ factor_k x_k` of the boundary data -/
theorem ghostValue_eq_bcData (f : Face) (dx : K) (c : Cond K) (hc : HasMatrixData c) (a : List Int → K) (idx : List Int)
    (hN : 2 ≤ f.N) :
    ghostValue f dx c a idx
      = (bcData f.N f.side dx (pcondAt c (f.valueIdx idx))).eval (fun k => a (f.at idx ((k:Int) + 1))) := by
  rw [bcData_ghost]
  have h1 : ((f.N - 1 : Nat) : Int) + 1 = f.N := by omega
  have h2 : ((f.N - 2 : Nat) : Int) + 1 = (f.N : Int) - 1 := by omega
  have h3 : ((0 : Nat) : Int) + 1 = 1 := by norm_num
  have h4 : ((1 : Nat) : Int) + 1 = 2 := by norm_num
  cases c with
  | mixed nf g b =>
    have := hc (f.valueIdx idx)
    cases hs : f.side <;>
      simp only [ghostValue, pcondAt, near0, nearIdx, hs, h1, h3, this, vpMixedSel, Bool.false_eq_true, if_false]
  | exprValue v => exact absurd hc (by simp [HasMatrixData])
  | exprDerivative v => exact absurd hc (by simp [HasMatrixData])
  | exprMixed g b => exact absurd hc (by simp [HasMatrixData])
  | dirichlet v => cases hs : f.side <;> simp only [ghostValue, pcondAt, near0, nearIdx, hs, h1, h3]
  | neumann v => cases hs : f.side <;> simp only [ghostValue, pcondAt, near0, nearIdx, hs, h1, h3]
  | curvature k =>
    cases hs : f.side <;> simp only [ghostValue, pcondAt, near0, near20, nearIdx, near2Idx, hs, h1, h2, h3, h4]
  | periodic flip => cases hs : f.side <;> simp only [ghostValue, pcondAt, opp0, oppIdx, hs, h1, h3]

theorem BCData.eval_congr (b : BCData K) (x y : Nat → K) (h : ∀ e ∈ b.entries, x e.1 = y e.1) : b.eval x = b.eval y := by
  unfold BCData.eval
  congr 2
  apply List.map_congr_left
  intro e he
  rw [h e he]

/-- the boundary data of a condition reads cells of its own line only (`N >= 2` cells) -/
theorem bcData_eval_congr (N : Nat) (hN : 2 ≤ N) (s : Side) (dx : K) (c : PCond K) (x y : Nat → K)
    (h : ∀ k, k < N → x k = y k) : (bcData N s dx c).eval x = (bcData N s dx c).eval y :=
  BCData.eval_congr _ x y (fun e he => h e.1 (bcData_entries_lt N hN s dx c e he))

/-! ### one axis (1-d Cartesian, polar, spherical) -/

/-- the two faces of a one-axis grid in the order of `BoundaryPair.set_ghost_cells` (upper side first) -/
def faces1 (N : Nat) (dx : K) (cl ch : Cond K) : List (Face × K × Cond K) :=
  [({ shape := [N], rank := 0, axis := 0, side := .upper, normal := false }, dx, ch),
   ({ shape := [N], rank := 0, axis := 0, side := .lower, normal := false }, dx, cl)]

theorem faces1_compatible (N : Nat) (hN : 2 ≤ N) (dx : K) (cl ch : Cond K) : Compatible (faces1 N dx cl ch) := by
  refine ⟨?_, ?_, ?_, ?_⟩
  · intro fc hf gc hg
    simp only [faces1, List.mem_cons, List.mem_nil_iff, or_false] at hf hg
    rcases hf with rfl | rfl <;> rcases hg with rfl | rfl <;> exact ⟨rfl, rfl⟩
  · intro fc hf
    simp only [faces1, List.mem_cons, List.mem_nil_iff, or_false] at hf
    rcases hf with rfl | rfl <;> simp [Face.WF, Face.N] <;> omega
  · simp [faces1]
  · intro fc hf k _
    simp only [faces1, List.mem_cons, List.mem_nil_iff, or_false] at hf
    rcases hf with rfl | rfl <;> simpa [Face.N] using hN

/-- the padded line after the setter: valid cells unchanged, ghost cells = boundary data of the two conditions -/
theorem setGhostAll_line (N : Nat) (hN : 2 ≤ N) (dx : K) (cl ch : Cond K) (hcl : HasMatrixData cl) (hch : HasMatrixData ch)
    (x : Nat → K) (a0 : Arr K) (hval : ∀ k : Nat, k < N → a0 [(k:Int) + 1] = x k) :
    (∀ k : Nat, k < N → setGhostAll (faces1 N dx cl ch) a0 [(k:Int) + 1] = x k)
    ∧ setGhostAll (faces1 N dx cl ch) a0 [0] = (bcData N .lower dx (pcondAt cl [])).eval x
    ∧ setGhostAll (faces1 N dx cl ch) a0 [(N:Int) + 1] = (bcData N .upper dx (pcondAt ch [])).eval x := by
  have hcomp := faces1_compatible N hN dx cl ch
  refine ⟨?_, ?_, ?_⟩
  · intro k hk
    rw [setGhostAll_frame, hval k hk]
    intro fc hf
    simp only [faces1, List.mem_cons, List.mem_nil_iff, or_false] at hf
    rcases hf with rfl | rfl <;>
      · apply Face.not_writes_of_valid
        simp [Face.N]
        omega
  · rw [setGhostAll_written _ hcomp a0 [0] _ (List.mem_cons_of_mem _ List.mem_cons_self) (by simp [Face.writes, Face.N, ghostIdx])]
    rw [ghostValue_eq_bcData _ _ _ hcl _ _ (by simpa [Face.N] using hN)]
    simp only [Face.N, Face.valueIdx, Face.at, removeAt, setAt, List.getD_cons_zero, List.take_zero, List.drop_zero,
      List.nil_append, List.set_cons_zero, List.eraseIdx_cons_zero, Bool.false_eq_true, if_false]
    exact bcData_eval_congr N hN _ dx _ _ _ hval
  · rw [setGhostAll_written _ hcomp a0 [(N:Int) + 1] _ List.mem_cons_self (by simp [Face.writes, Face.N, ghostIdx])]
    rw [ghostValue_eq_bcData _ _ _ hch _ _ (by simpa [Face.N] using hN)]
    simp only [Face.N, Face.valueIdx, Face.at, removeAt, setAt, List.getD_cons_zero, List.take_zero, List.drop_zero,
      List.nil_append, List.set_cons_zero, List.eraseIdx_cons_zero, Bool.false_eq_true, if_false]
    exact bcData_eval_congr N hN _ dx _ _ _ hval

/-- **1-d Cartesian, matrix route = stencil route after the setter**: the assembled row applied to the valid data plus the
vector entry is the 3-point Laplacian of C01 at that cell of the array `set_ghost_cells` produces - for every number of
cells `N >= 2`, every condition with matrix data on either side (value, derivative, mixed, curvature, periodic,
anti-periodic), every data and every previous content of the ghost cells -/
theorem cart1_matrix_eq_laplace_after_setter (N : Nat) (hN : 2 ≤ N) (dx : K) (cl ch : Cond K)
    (hcl : HasMatrixData cl) (hch : HasMatrixData ch) (i : Nat) (hi' : i < N)
    (x : Nat → K) (a0 : Arr K) (hval : ∀ k : Nat, k < N → a0 [(k:Int) + 1] = x k) :
    matvec N (cart1Row N dx (bcData N .lower dx (pcondAt cl [])) (bcData N .upper dx (pcondAt ch [])) i).2 x
        + (cart1Row N dx (bcData N .lower dx (pcondAt cl [])) (bcData N .upper dx (pcondAt ch [])) i).1
      = cartLaplace [dx] (setGhostAll (faces1 N dx cl ch) a0) [] [(i:Int) + 1] := by
  obtain ⟨h1, h2, h3⟩ := setGhostAll_line N hN dx cl ch hcl hch x a0 hval
  exact cart1_assembled_eq_laplace N hN dx _ _ i hi' x _ h1 h2 h3

/-- polar grid with an inner boundary (`r_min > 0`: annulus), every row -/
theorem polar_matrix_eq_laplace_after_setter (N : Nat) (hN : 2 ≤ N) (r : Int → K) (dr : K) (cl ch : Cond K)
    (hcl : HasMatrixData cl) (hch : HasMatrixData ch) (i : Nat) (hi' : i < N)
    (x : Nat → K) (a0 : Arr K) (hval : ∀ k : Nat, k < N → a0 [(k:Int) + 1] = x k) :
    matvec N (polarRow N r dr false (bcData N .lower dr (pcondAt cl [])) (bcData N .upper dr (pcondAt ch [])) i).2 x
        + (polarRow N r dr false (bcData N .lower dr (pcondAt cl [])) (bcData N .upper dr (pcondAt ch [])) i).1
      = polarLaplace r dr (setGhostAll (faces1 N dr cl ch) a0) ((i:Int) + 1) := by
  obtain ⟨h1, h2, h3⟩ := setGhostAll_line N hN dr cl ch hcl hch x a0 hval
  exact polar_assembled_eq_laplace N hN r dr _ _ i hi' x _ h1 h2 h3

/-- full disk (`r_min = 0`, i.e. `r_1 = dr/2`), every row `i < N` (the first row and the rows `i > 0`): the matrix skips the
inner virtual point, the stencil multiplies whatever the setter wrote there by zero -/
theorem polar_disk_matrix_eq_laplace_after_setter (N : Nat) (hN : 2 ≤ N) (r : Int → K) (dr : K) (hdr : dr ≠ 0)
    (hr : r 1 = dr / 2) (cl ch : Cond K) (hcl : HasMatrixData cl) (hch : HasMatrixData ch) (i : Nat) (hi' : i < N)
    (x : Nat → K) (a0 : Arr K) (hval : ∀ k : Nat, k < N → a0 [(k:Int) + 1] = x k) :
    matvec N (polarRow N r dr true (bcData N .lower dr (pcondAt cl [])) (bcData N .upper dr (pcondAt ch [])) i).2 x
        + (polarRow N r dr true (bcData N .lower dr (pcondAt cl [])) (bcData N .upper dr (pcondAt ch [])) i).1
      = polarLaplace r dr (setGhostAll (faces1 N dr cl ch) a0) ((i:Int) + 1) := by
  obtain ⟨h1, _, h3⟩ := setGhostAll_line N hN dr cl ch hcl hch x a0 hval
  exact polar_disk_assembled_eq_laplace N hN r dr hdr hr _ _ i hi' x _ h1 h3

/-- spherical grid with an inner boundary (shell), every row -/
theorem sph_matrix_eq_laplace_after_setter (N : Nat) (hN : 2 ≤ N) (r : Int → K) (dr : K) (cl ch : Cond K)
    (hcl : HasMatrixData cl) (hch : HasMatrixData ch) (i : Nat) (hi' : i < N)
    (x : Nat → K) (a0 : Arr K) (hval : ∀ k : Nat, k < N → a0 [(k:Int) + 1] = x k) :
    matvec N (sphRow N r dr false (bcData N .lower dr (pcondAt cl [])) (bcData N .upper dr (pcondAt ch [])) i).2 x
        + (sphRow N r dr false (bcData N .lower dr (pcondAt cl [])) (bcData N .upper dr (pcondAt ch [])) i).1
      = sphLaplace true r dr (setGhostAll (faces1 N dr cl ch) a0) ((i:Int) + 1) := by
  obtain ⟨h1, h2, h3⟩ := setGhostAll_line N hN dr cl ch hcl hch x a0 hval
  exact sph_assembled_eq_laplace N hN r dr _ _ i hi' x _ h1 h2 h3

/-- full ball (`r_min = 0`), every row `i < N` -/
theorem sph_ball_matrix_eq_laplace_after_setter (N : Nat) (hN : 2 ≤ N) (r : Int → K) (dr : K) (hr : r 1 = dr / 2)
    (cl ch : Cond K) (hcl : HasMatrixData cl) (hch : HasMatrixData ch) (i : Nat) (hi' : i < N)
    (x : Nat → K) (a0 : Arr K) (hval : ∀ k : Nat, k < N → a0 [(k:Int) + 1] = x k) :
    matvec N (sphRow N r dr true (bcData N .lower dr (pcondAt cl [])) (bcData N .upper dr (pcondAt ch [])) i).2 x
        + (sphRow N r dr true (bcData N .lower dr (pcondAt cl [])) (bcData N .upper dr (pcondAt ch [])) i).1
      = sphLaplace true r dr (setGhostAll (faces1 N dr cl ch) a0) ((i:Int) + 1) := by
  obtain ⟨h1, _, h3⟩ := setGhostAll_line N hN dr cl ch hcl hch x a0 hval
  exact sph_ball_assembled_eq_laplace N hN r dr hr _ _ i hi' x _ h1 h3

/-- a concrete instance of the hypotheses: 3 cells, curvature condition below, Robin condition above -/
example : HasMatrixData (Cond.curvature (fun _ => (2:Rat))) ∧ HasMatrixData (Cond.mixed (fun _ => false) (fun _ => (1:Rat)) (fun _ => 3)) :=
  ⟨trivial, fun _ => rfl⟩
example : setGhostAll (faces1 3 (1/2 : Rat) (.curvature (fun _ => 2)) (.mixed (fun _ => false) (fun _ => 1) (fun _ => 3)))
    (fun i => (i.getD 0 0 : Rat) ^ 2) [0] = 2 * (1/4) + 2 * 1 - 4 := by decide +kernel

/-! ### two axes (2-d Cartesian, cylindrical) -/

/-- the four faces of a two-axis grid in the order of `BoundariesList.set_ghost_cells` -/
def faces2 (nx ny : Nat) (dx dy : K) (cxl cxh cyl cyh : Cond K) : List (Face × K × Cond K) :=
  [({ shape := [nx, ny], rank := 0, axis := 0, side := .upper, normal := false }, dx, cxh),
   ({ shape := [nx, ny], rank := 0, axis := 0, side := .lower, normal := false }, dx, cxl),
   ({ shape := [nx, ny], rank := 0, axis := 1, side := .upper, normal := false }, dy, cyh),
   ({ shape := [nx, ny], rank := 0, axis := 1, side := .lower, normal := false }, dy, cyl)]

theorem faces2_compatible (nx ny : Nat) (hnx : 2 ≤ nx) (hny : 2 ≤ ny) (dx dy : K) (cxl cxh cyl cyh : Cond K) :
    Compatible (faces2 nx ny dx dy cxl cxh cyl cyh) := by
  refine ⟨?_, ?_, ?_, ?_⟩
  · intro fc hf gc hg
    simp only [faces2, List.mem_cons, List.mem_nil_iff, or_false] at hf hg
    rcases hf with rfl | rfl | rfl | rfl <;> rcases hg with rfl | rfl | rfl | rfl <;> exact ⟨rfl, rfl⟩
  · intro fc hf
    simp only [faces2, List.mem_cons, List.mem_nil_iff, or_false] at hf
    rcases hf with rfl | rfl | rfl | rfl <;> simp [Face.WF, Face.N] <;> omega
  · simp [faces2]
  · intro fc hf k _
    simp only [faces2, List.mem_cons, List.mem_nil_iff, or_false] at hf
    rcases hf with rfl | rfl | rfl | rfl <;> simpa [Face.N]

/-- the padded plane after the setter: valid cells unchanged, the four faces hold the boundary data of the conditions at
each face point, read on the grid line through that point -/
theorem setGhostAll_plane (nx ny : Nat) (hnx : 2 ≤ nx) (hny : 2 ≤ ny) (dx dy : K) (cxl cxh cyl cyh : Cond K)
    (hxl : HasMatrixData cxl) (hxh : HasMatrixData cxh) (hyl : HasMatrixData cyl) (hyh : HasMatrixData cyh)
    (u : Nat → K) (a0 : Arr K) (hval : ∀ p q : Nat, p < nx → q < ny → a0 [(p:Int) + 1, (q:Int) + 1] = u (p * ny + q)) :
    (∀ p q : Nat, p < nx → q < ny → setGhostAll (faces2 nx ny dx dy cxl cxh cyl cyh) a0 [(p:Int) + 1, (q:Int) + 1] = u (p * ny + q))
    ∧ (∀ cy : Nat, cy < ny →
        setGhostAll (faces2 nx ny dx dy cxl cxh cyl cyh) a0 [0, (cy:Int) + 1]
          = (bcData nx .lower dx (pcondAt cxl [(cy:Int) + 1])).eval (fun k => u (k * ny + cy))
        ∧ setGhostAll (faces2 nx ny dx dy cxl cxh cyl cyh) a0 [(nx:Int) + 1, (cy:Int) + 1]
          = (bcData nx .upper dx (pcondAt cxh [(cy:Int) + 1])).eval (fun k => u (k * ny + cy)))
    ∧ (∀ cx : Nat, cx < nx →
        setGhostAll (faces2 nx ny dx dy cxl cxh cyl cyh) a0 [(cx:Int) + 1, 0]
          = (bcData ny .lower dy (pcondAt cyl [(cx:Int) + 1])).eval (fun k => u (cx * ny + k))
        ∧ setGhostAll (faces2 nx ny dx dy cxl cxh cyl cyh) a0 [(cx:Int) + 1, (ny:Int) + 1]
          = (bcData ny .upper dy (pcondAt cyh [(cx:Int) + 1])).eval (fun k => u (cx * ny + k))) := by
  have hcomp := faces2_compatible nx ny hnx hny dx dy cxl cxh cyl cyh
  refine ⟨?_, ?_, ?_⟩
  · intro p q hp hq
    rw [setGhostAll_frame, hval p q hp hq]
    intro fc hf
    simp only [faces2, List.mem_cons, List.mem_nil_iff, or_false] at hf
    rcases hf with rfl | rfl | rfl | rfl <;>
      · apply Face.not_writes_of_valid
        simp [Face.N]
        omega
  · intro cy hcy
    constructor
    · rw [setGhostAll_written _ hcomp a0 _ _ (List.mem_cons_of_mem _ List.mem_cons_self)
        (by simp [Face.writes, Face.N, ghostIdx, List.range_succ]; omega)]
      rw [ghostValue_eq_bcData _ _ _ hxl _ _ (by simpa [Face.N] using hnx)]
      simp only [Face.N, Face.valueIdx, Face.at, removeAt, setAt, List.getD_cons_zero, List.take_zero, List.drop_zero,
        List.nil_append, List.set_cons_zero, List.eraseIdx_cons_zero, Bool.false_eq_true, if_false]
      exact bcData_eval_congr nx hnx _ dx _ _ _ (fun k hk => hval k cy hk hcy)
    · rw [setGhostAll_written _ hcomp a0 _ _ List.mem_cons_self
        (by simp [Face.writes, Face.N, ghostIdx, List.range_succ]; omega)]
      rw [ghostValue_eq_bcData _ _ _ hxh _ _ (by simpa [Face.N] using hnx)]
      simp only [Face.N, Face.valueIdx, Face.at, removeAt, setAt, List.getD_cons_zero, List.take_zero, List.drop_zero,
        List.nil_append, List.set_cons_zero, List.eraseIdx_cons_zero, Bool.false_eq_true, if_false]
      exact bcData_eval_congr nx hnx _ dx _ _ _ (fun k hk => hval k cy hk hcy)
  · intro cx hcx
    constructor
    · rw [setGhostAll_written _ hcomp a0 _ _
        (List.mem_cons_of_mem _ (List.mem_cons_of_mem _ (List.mem_cons_of_mem _ List.mem_cons_self)))
        (by simp [Face.writes, Face.N, ghostIdx, List.range_succ]; omega)]
      rw [ghostValue_eq_bcData _ _ _ hyl _ _ (by simpa [Face.N] using hny)]
      simp only [Face.N, Face.valueIdx, Face.at, removeAt, setAt, List.take_zero, List.drop_zero,
        List.nil_append, List.set_cons_succ, List.set_cons_zero, List.eraseIdx_cons_succ, List.eraseIdx_cons_zero,
        Bool.false_eq_true, if_false, List.getD_cons_succ, List.getD_cons_zero]
      exact bcData_eval_congr ny hny _ dy _ _ _ (fun k hk => hval cx k hcx hk)
    · rw [setGhostAll_written _ hcomp a0 _ _
        (List.mem_cons_of_mem _ (List.mem_cons_of_mem _ List.mem_cons_self))
        (by simp [Face.writes, Face.N, ghostIdx, List.range_succ]; omega)]
      rw [ghostValue_eq_bcData _ _ _ hyh _ _ (by simpa [Face.N] using hny)]
      simp only [Face.N, Face.valueIdx, Face.at, removeAt, setAt, List.take_zero, List.drop_zero,
        List.nil_append, List.set_cons_succ, List.set_cons_zero, List.eraseIdx_cons_succ, List.eraseIdx_cons_zero,
        Bool.false_eq_true, if_false, List.getD_cons_succ, List.getD_cons_zero]
      exact bcData_eval_congr ny hny _ dy _ _ _ (fun k hk => hval cx k hcx hk)

/-- **2-d Cartesian, matrix route = stencil route after the setter**: conditions may vary along each face; all sizes
`>= 2 x 2`, all cells, all data, any previous content of ghost cells and corners -/
theorem cart2_matrix_eq_laplace_after_setter (nx ny : Nat) (hnx : 2 ≤ nx) (hny : 2 ≤ ny) (dx dy : K)
    (cxl cxh cyl cyh : Cond K)
    (hxl : HasMatrixData cxl) (hxh : HasMatrixData cxh) (hyl : HasMatrixData cyl) (hyh : HasMatrixData cyh)
    (cx cy : Nat) (hx : cx < nx) (hy : cy < ny) (u : Nat → K) (a0 : Arr K)
    (hval : ∀ p q : Nat, p < nx → q < ny → a0 [(p:Int) + 1, (q:Int) + 1] = u (p * ny + q)) :
    matvec (nx * ny) (cart2Row nx ny dx dy
        (fun y => bcData nx .lower dx (pcondAt cxl [(y:Int) + 1])) (fun y => bcData nx .upper dx (pcondAt cxh [(y:Int) + 1]))
        (fun x => bcData ny .lower dy (pcondAt cyl [(x:Int) + 1])) (fun x => bcData ny .upper dy (pcondAt cyh [(x:Int) + 1])) cx cy).2 u
      + (cart2Row nx ny dx dy
        (fun y => bcData nx .lower dx (pcondAt cxl [(y:Int) + 1])) (fun y => bcData nx .upper dx (pcondAt cxh [(y:Int) + 1]))
        (fun x => bcData ny .lower dy (pcondAt cyl [(x:Int) + 1])) (fun x => bcData ny .upper dy (pcondAt cyh [(x:Int) + 1])) cx cy).1
      = cartLaplace [dx, dy] (setGhostAll (faces2 nx ny dx dy cxl cxh cyl cyh) a0) [] [(cx:Int) + 1, (cy:Int) + 1] := by
  obtain ⟨h1, h2, h3⟩ := setGhostAll_plane nx ny hnx hny dx dy cxl cxh cyl cyh hxl hxh hyl hyh u a0 hval
  exact cart2_assembled_eq_laplace nx ny hnx hny dx dy (fun y => pcondAt cxl [(y:Int) + 1]) (fun y => pcondAt cxh [(y:Int) + 1])
    (fun x => pcondAt cyl [(x:Int) + 1]) (fun x => pcondAt cyh [(x:Int) + 1]) cx cy hx hy u _ h1
    (h2 cy hy).1 (h2 cy hy).2 (h3 cx hx).1 (h3 cx hx).2

/-- **cylindrical grid** (radial axis with weights `1/dr² ∓ 1/(2 r dr)`, axial axis), every cell, after the setter -/
theorem cyl_matrix_eq_laplace_after_setter (nr nz : Nat) (hnr : 2 ≤ nr) (hnz : 2 ≤ nz) (r : Int → K) (dr dz : K)
    (crl crh czl czh : Cond K)
    (hrl : HasMatrixData crl) (hrh : HasMatrixData crh) (hzl : HasMatrixData czl) (hzh : HasMatrixData czh)
    (cx cz : Nat) (hx : cx < nr) (hz : cz < nz) (u : Nat → K) (a0 : Arr K)
    (hval : ∀ p q : Nat, p < nr → q < nz → a0 [(p:Int) + 1, (q:Int) + 1] = u (p * nz + q)) :
    matvec (nr * nz) (cylRow nr nz r dr dz
        (fun z => bcData nr .lower dr (pcondAt crl [(z:Int) + 1])) (fun z => bcData nr .upper dr (pcondAt crh [(z:Int) + 1]))
        (fun x => bcData nz .lower dz (pcondAt czl [(x:Int) + 1])) (fun x => bcData nz .upper dz (pcondAt czh [(x:Int) + 1])) cx cz).2 u
      + (cylRow nr nz r dr dz
        (fun z => bcData nr .lower dr (pcondAt crl [(z:Int) + 1])) (fun z => bcData nr .upper dr (pcondAt crh [(z:Int) + 1]))
        (fun x => bcData nz .lower dz (pcondAt czl [(x:Int) + 1])) (fun x => bcData nz .upper dz (pcondAt czh [(x:Int) + 1])) cx cz).1
      = cylLaplace r dr dz (setGhostAll (faces2 nr nz dr dz crl crh czl czh) a0) ((cx:Int) + 1) ((cz:Int) + 1) := by
  obtain ⟨h1, h2, h3⟩ := setGhostAll_plane nr nz hnr hnz dr dz crl crh czl czh hrl hrh hzl hzh u a0 hval
  exact cyl_assembled_eq_laplace nr nz hnr hnz r dr dz (fun y => pcondAt crl [(y:Int) + 1]) (fun y => pcondAt crh [(y:Int) + 1])
    (fun x => pcondAt czl [(x:Int) + 1]) (fun x => pcondAt czh [(x:Int) + 1]) cx cz hx hz u _ h1
    (h2 cz hz).1 (h2 cz hz).2 (h3 cx hx).1 (h3 cx hx).2

/-- concrete instance: 2 x 3 cells, a Dirichlet value varying along the lower x face, periodic y axis -/
example : setGhostAll (faces2 2 3 (1:Rat) 1 (.dirichlet (fun vi => (vi.getD 0 0 : Rat))) (.neumann (fun _ => 0))
    (.periodic false) (.periodic false)) (fun i => (i.getD 0 0 : Rat) * 10 + i.getD 1 0) [0, 2] = 2 * 2 - 12 := by
  decide +kernel

/-! ### three axes (3-d Cartesian) -/

def faces3 (nx ny nz : Nat) (dx dy dz : K) (cxl cxh cyl cyh czl czh : Cond K) : List (Face × K × Cond K) :=
  [({ shape := [nx, ny, nz], rank := 0, axis := 0, side := .upper, normal := false }, dx, cxh),
   ({ shape := [nx, ny, nz], rank := 0, axis := 0, side := .lower, normal := false }, dx, cxl),
   ({ shape := [nx, ny, nz], rank := 0, axis := 1, side := .upper, normal := false }, dy, cyh),
   ({ shape := [nx, ny, nz], rank := 0, axis := 1, side := .lower, normal := false }, dy, cyl),
   ({ shape := [nx, ny, nz], rank := 0, axis := 2, side := .upper, normal := false }, dz, czh),
   ({ shape := [nx, ny, nz], rank := 0, axis := 2, side := .lower, normal := false }, dz, czl)]

theorem faces3_compatible (nx ny nz : Nat) (hnx : 2 ≤ nx) (hny : 2 ≤ ny) (hnz : 2 ≤ nz) (dx dy dz : K)
    (cxl cxh cyl cyh czl czh : Cond K) : Compatible (faces3 nx ny nz dx dy dz cxl cxh cyl cyh czl czh) := by
  refine ⟨?_, ?_, ?_, ?_⟩
  · intro fc hf gc hg
    simp only [faces3, List.mem_cons, List.mem_nil_iff, or_false] at hf hg
    rcases hf with rfl | rfl | rfl | rfl | rfl | rfl <;> rcases hg with rfl | rfl | rfl | rfl | rfl | rfl <;> exact ⟨rfl, rfl⟩
  · intro fc hf
    simp only [faces3, List.mem_cons, List.mem_nil_iff, or_false] at hf
    rcases hf with rfl | rfl | rfl | rfl | rfl | rfl <;> simp [Face.WF, Face.N] <;> omega
  · simp [faces3]
  · intro fc hf k _
    simp only [faces3, List.mem_cons, List.mem_nil_iff, or_false] at hf
    rcases hf with rfl | rfl | rfl | rfl | rfl | rfl <;> simpa [Face.N]

theorem setGhostAll_box (nx ny nz : Nat) (hnx : 2 ≤ nx) (hny : 2 ≤ ny) (hnz : 2 ≤ nz) (dx dy dz : K)
    (cxl cxh cyl cyh czl czh : Cond K)
    (hxl : HasMatrixData cxl) (hxh : HasMatrixData cxh) (hyl : HasMatrixData cyl) (hyh : HasMatrixData cyh)
    (hzl : HasMatrixData czl) (hzh : HasMatrixData czh)
    (u : Nat → K) (a0 : Arr K)
    (hval : ∀ p q s : Nat, p < nx → q < ny → s < nz → a0 [(p:Int) + 1, (q:Int) + 1, (s:Int) + 1] = u ((p * ny + q) * nz + s)) :
    (∀ p q s : Nat, p < nx → q < ny → s < nz →
        setGhostAll (faces3 nx ny nz dx dy dz cxl cxh cyl cyh czl czh) a0 [(p:Int) + 1, (q:Int) + 1, (s:Int) + 1] = u ((p * ny + q) * nz + s))
    ∧ (∀ cy cz : Nat, cy < ny → cz < nz →
        setGhostAll (faces3 nx ny nz dx dy dz cxl cxh cyl cyh czl czh) a0 [0, (cy:Int) + 1, (cz:Int) + 1]
          = (bcData nx .lower dx (pcondAt cxl [(cy:Int) + 1, (cz:Int) + 1])).eval (fun k => u ((k * ny + cy) * nz + cz))
        ∧ setGhostAll (faces3 nx ny nz dx dy dz cxl cxh cyl cyh czl czh) a0 [(nx:Int) + 1, (cy:Int) + 1, (cz:Int) + 1]
          = (bcData nx .upper dx (pcondAt cxh [(cy:Int) + 1, (cz:Int) + 1])).eval (fun k => u ((k * ny + cy) * nz + cz)))
    ∧ (∀ cx cz : Nat, cx < nx → cz < nz →
        setGhostAll (faces3 nx ny nz dx dy dz cxl cxh cyl cyh czl czh) a0 [(cx:Int) + 1, 0, (cz:Int) + 1]
          = (bcData ny .lower dy (pcondAt cyl [(cx:Int) + 1, (cz:Int) + 1])).eval (fun k => u ((cx * ny + k) * nz + cz))
        ∧ setGhostAll (faces3 nx ny nz dx dy dz cxl cxh cyl cyh czl czh) a0 [(cx:Int) + 1, (ny:Int) + 1, (cz:Int) + 1]
          = (bcData ny .upper dy (pcondAt cyh [(cx:Int) + 1, (cz:Int) + 1])).eval (fun k => u ((cx * ny + k) * nz + cz)))
    ∧ (∀ cx cy : Nat, cx < nx → cy < ny →
        setGhostAll (faces3 nx ny nz dx dy dz cxl cxh cyl cyh czl czh) a0 [(cx:Int) + 1, (cy:Int) + 1, 0]
          = (bcData nz .lower dz (pcondAt czl [(cx:Int) + 1, (cy:Int) + 1])).eval (fun k => u ((cx * ny + cy) * nz + k))
        ∧ setGhostAll (faces3 nx ny nz dx dy dz cxl cxh cyl cyh czl czh) a0 [(cx:Int) + 1, (cy:Int) + 1, (nz:Int) + 1]
          = (bcData nz .upper dz (pcondAt czh [(cx:Int) + 1, (cy:Int) + 1])).eval (fun k => u ((cx * ny + cy) * nz + k))) := by
  have hcomp := faces3_compatible nx ny nz hnx hny hnz dx dy dz cxl cxh cyl cyh czl czh
  refine ⟨?_, ?_, ?_, ?_⟩
  · intro p q s hp hq hs
    rw [setGhostAll_frame, hval p q s hp hq hs]
    intro fc hf
    simp only [faces3, List.mem_cons, List.mem_nil_iff, or_false] at hf
    rcases hf with rfl | rfl | rfl | rfl | rfl | rfl <;>
      · apply Face.not_writes_of_valid
        simp [Face.N]
        omega
  · intro cy cz hcy hcz
    constructor
    · rw [setGhostAll_written _ hcomp a0 [0, (cy:Int) + 1, (cz:Int) + 1] _ (List.mem_cons_of_mem _ List.mem_cons_self)
        (by simp [Face.writes, Face.N, ghostIdx, List.range_succ]; omega)]
      rw [ghostValue_eq_bcData _ _ _ hxl _ _ (by simpa [Face.N] using hnx)]
      simp only [Face.N, Face.valueIdx, Face.at, removeAt, setAt, List.take_zero, List.drop_zero,
        List.nil_append, List.set_cons_succ, List.set_cons_zero, List.eraseIdx_cons_succ, List.eraseIdx_cons_zero,
        Bool.false_eq_true, if_false, List.getD_cons_succ, List.getD_cons_zero]
      exact bcData_eval_congr nx hnx _ dx _ _ _ (fun k hk => hval k cy cz hk hcy hcz)
    · rw [setGhostAll_written _ hcomp a0 [(nx:Int) + 1, (cy:Int) + 1, (cz:Int) + 1] _ List.mem_cons_self
        (by simp [Face.writes, Face.N, ghostIdx, List.range_succ]; omega)]
      rw [ghostValue_eq_bcData _ _ _ hxh _ _ (by simpa [Face.N] using hnx)]
      simp only [Face.N, Face.valueIdx, Face.at, removeAt, setAt, List.take_zero, List.drop_zero,
        List.nil_append, List.set_cons_succ, List.set_cons_zero, List.eraseIdx_cons_succ, List.eraseIdx_cons_zero,
        Bool.false_eq_true, if_false, List.getD_cons_succ, List.getD_cons_zero]
      exact bcData_eval_congr nx hnx _ dx _ _ _ (fun k hk => hval k cy cz hk hcy hcz)
  · intro cx cz hcx hcz
    constructor
    · rw [setGhostAll_written _ hcomp a0 [(cx:Int) + 1, 0, (cz:Int) + 1] _ (List.mem_cons_of_mem _ (List.mem_cons_of_mem _ (List.mem_cons_of_mem _ List.mem_cons_self)))
        (by simp [Face.writes, Face.N, ghostIdx, List.range_succ]; omega)]
      rw [ghostValue_eq_bcData _ _ _ hyl _ _ (by simpa [Face.N] using hny)]
      simp only [Face.N, Face.valueIdx, Face.at, removeAt, setAt, List.take_zero, List.drop_zero,
        List.nil_append, List.set_cons_succ, List.set_cons_zero, List.eraseIdx_cons_succ, List.eraseIdx_cons_zero,
        Bool.false_eq_true, if_false, List.getD_cons_succ, List.getD_cons_zero]
      exact bcData_eval_congr ny hny _ dy _ _ _ (fun k hk => hval cx k cz hcx hk hcz)
    · rw [setGhostAll_written _ hcomp a0 [(cx:Int) + 1, (ny:Int) + 1, (cz:Int) + 1] _ (List.mem_cons_of_mem _ (List.mem_cons_of_mem _ List.mem_cons_self))
        (by simp [Face.writes, Face.N, ghostIdx, List.range_succ]; omega)]
      rw [ghostValue_eq_bcData _ _ _ hyh _ _ (by simpa [Face.N] using hny)]
      simp only [Face.N, Face.valueIdx, Face.at, removeAt, setAt, List.take_zero, List.drop_zero,
        List.nil_append, List.set_cons_succ, List.set_cons_zero, List.eraseIdx_cons_succ, List.eraseIdx_cons_zero,
        Bool.false_eq_true, if_false, List.getD_cons_succ, List.getD_cons_zero]
      exact bcData_eval_congr ny hny _ dy _ _ _ (fun k hk => hval cx k cz hcx hk hcz)
  · intro cx cy hcx hcy
    constructor
    · rw [setGhostAll_written _ hcomp a0 [(cx:Int) + 1, (cy:Int) + 1, 0] _ (List.mem_cons_of_mem _ (List.mem_cons_of_mem _ (List.mem_cons_of_mem _ (List.mem_cons_of_mem _ (List.mem_cons_of_mem _ List.mem_cons_self)))))
        (by simp [Face.writes, Face.N, ghostIdx, List.range_succ]; omega)]
      rw [ghostValue_eq_bcData _ _ _ hzl _ _ (by simpa [Face.N] using hnz)]
      simp only [Face.N, Face.valueIdx, Face.at, removeAt, setAt, List.take_zero, List.drop_zero,
        List.nil_append, List.set_cons_succ, List.set_cons_zero, List.eraseIdx_cons_succ, List.eraseIdx_cons_zero,
        Bool.false_eq_true, if_false, List.getD_cons_succ, List.getD_cons_zero]
      exact bcData_eval_congr nz hnz _ dz _ _ _ (fun k hk => hval cx cy k hcx hcy hk)
    · rw [setGhostAll_written _ hcomp a0 [(cx:Int) + 1, (cy:Int) + 1, (nz:Int) + 1] _ (List.mem_cons_of_mem _ (List.mem_cons_of_mem _ (List.mem_cons_of_mem _ (List.mem_cons_of_mem _ List.mem_cons_self))))
        (by simp [Face.writes, Face.N, ghostIdx, List.range_succ]; omega)]
      rw [ghostValue_eq_bcData _ _ _ hzh _ _ (by simpa [Face.N] using hnz)]
      simp only [Face.N, Face.valueIdx, Face.at, removeAt, setAt, List.take_zero, List.drop_zero,
        List.nil_append, List.set_cons_succ, List.set_cons_zero, List.eraseIdx_cons_succ, List.eraseIdx_cons_zero,
        Bool.false_eq_true, if_false, List.getD_cons_succ, List.getD_cons_zero]
      exact bcData_eval_congr nz hnz _ dz _ _ _ (fun k hk => hval cx cy k hcx hcy hk)

/-- **3-d Cartesian, matrix route = stencil route after the setter** -/
theorem cart3_matrix_eq_laplace_after_setter (nx ny nz : Nat) (hnx : 2 ≤ nx) (hny : 2 ≤ ny) (hnz : 2 ≤ nz) (dx dy dz : K)
    (cxl cxh cyl cyh czl czh : Cond K)
    (hxl : HasMatrixData cxl) (hxh : HasMatrixData cxh) (hyl : HasMatrixData cyl) (hyh : HasMatrixData cyh)
    (hzl : HasMatrixData czl) (hzh : HasMatrixData czh)
    (cx cy cz : Nat) (hx : cx < nx) (hy : cy < ny) (hz : cz < nz) (u : Nat → K) (a0 : Arr K)
    (hval : ∀ p q s : Nat, p < nx → q < ny → s < nz → a0 [(p:Int) + 1, (q:Int) + 1, (s:Int) + 1] = u ((p * ny + q) * nz + s)) :
    matvec (nx * ny * nz) (cart3Row nx ny nz dx dy dz
        (fun y z => bcData nx .lower dx (pcondAt cxl [(y:Int) + 1, (z:Int) + 1])) (fun y z => bcData nx .upper dx (pcondAt cxh [(y:Int) + 1, (z:Int) + 1]))
        (fun x z => bcData ny .lower dy (pcondAt cyl [(x:Int) + 1, (z:Int) + 1])) (fun x z => bcData ny .upper dy (pcondAt cyh [(x:Int) + 1, (z:Int) + 1]))
        (fun x y => bcData nz .lower dz (pcondAt czl [(x:Int) + 1, (y:Int) + 1])) (fun x y => bcData nz .upper dz (pcondAt czh [(x:Int) + 1, (y:Int) + 1]))
        cx cy cz).2 u
      + (cart3Row nx ny nz dx dy dz
        (fun y z => bcData nx .lower dx (pcondAt cxl [(y:Int) + 1, (z:Int) + 1])) (fun y z => bcData nx .upper dx (pcondAt cxh [(y:Int) + 1, (z:Int) + 1]))
        (fun x z => bcData ny .lower dy (pcondAt cyl [(x:Int) + 1, (z:Int) + 1])) (fun x z => bcData ny .upper dy (pcondAt cyh [(x:Int) + 1, (z:Int) + 1]))
        (fun x y => bcData nz .lower dz (pcondAt czl [(x:Int) + 1, (y:Int) + 1])) (fun x y => bcData nz .upper dz (pcondAt czh [(x:Int) + 1, (y:Int) + 1]))
        cx cy cz).1
      = cartLaplace [dx, dy, dz] (setGhostAll (faces3 nx ny nz dx dy dz cxl cxh cyl cyh czl czh) a0) []
          [(cx:Int) + 1, (cy:Int) + 1, (cz:Int) + 1] := by
  obtain ⟨h1, h2, h3, h4⟩ := setGhostAll_box nx ny nz hnx hny hnz dx dy dz cxl cxh cyl cyh czl czh hxl hxh hyl hyh hzl hzh u a0 hval
  exact cart3_assembled_eq_laplace nx ny nz hnx hny hnz dx dy dz
    (fun y z => pcondAt cxl [(y:Int) + 1, (z:Int) + 1]) (fun y z => pcondAt cxh [(y:Int) + 1, (z:Int) + 1])
    (fun x z => pcondAt cyl [(x:Int) + 1, (z:Int) + 1]) (fun x z => pcondAt cyh [(x:Int) + 1, (z:Int) + 1])
    (fun x y => pcondAt czl [(x:Int) + 1, (y:Int) + 1]) (fun x y => pcondAt czh [(x:Int) + 1, (y:Int) + 1])
    cx cy cz hx hy hz u _ h1 (h2 cy cz hy hz).1 (h2 cy cz hy hz).2 (h3 cx cz hx hz).1 (h3 cx cz hx hz).2
    (h4 cx cy hx hy).1 (h4 cx cy hx hy).2

end
end PdeVerif.Matrix
