import PdeVerif.Model.Serialize
import PdeVerif.Lemmas.Basic
import PdeVerif.Lemmas.Grid
import Mathlib.Tactic.Ring
import Mathlib.Tactic.Linarith
import Mathlib.Tactic.FieldSimp
import Mathlib.Tactic.NormNum
import Mathlib.Algebra.BigOperators.Group.List.Basic
/-
C14 - saving and restoring grids and fields loses nothing.
Property theorems about `PdeVerif.Serialize` (model of `state` / `state_serialized` / `from_state` /
`copy` / `__eq__` of the grid classes, of the serialised attributes of fields and collections and
of `FieldCollection.from_data`).  Every statement holds for an arbitrary ordered field `K`, every
grid class, every number of axes and cells, every inner radius, every list of fields and any data.
-/
set_option linter.unusedSectionVars false
namespace PdeVerif.Serialize
open PdeVerif PdeVerif.Grids

section
variable {K : Type} [Field K] [LinearOrder K] [IsStrictOrderedRing K]

/-! ### 0. which grid objects exist

`GridObj.Valid` is defined next to the constructors in `Model/Serialize.lean` (with `<` and its
negation, as the constructors test it).  Over an ordered field it reads as follows; section 0b
proves that every object a constructor or `from_state` returns is `Valid`. -/

theorem valid_unit (s : List Nat) (p : List Bool) :
    (GridObj.unit s p : GridObj K).Valid ↔ s ≠ [] ∧ (∀ n ∈ s, 1 ≤ n) ∧ p.length = s.length := Iff.rfl

theorem valid_cartesian (b : List (K × K)) (s : List Nat) (p : List Bool) :
    (GridObj.cartesian b s p).Valid ↔
      b ≠ [] ∧ s.length = b.length ∧ p.length = s.length ∧ (∀ n ∈ s, 1 ≤ n) ∧ ∀ x ∈ b, x.1 ≤ x.2 := by
  simp only [GridObj.Valid, not_lt]

theorem valid_polar (ri ro : K) (n : Nat) :
    (GridObj.polar ri ro n).Valid ↔ 0 ≤ ri ∧ ri < ro ∧ 1 ≤ n := by
  simp only [GridObj.Valid, not_lt, Nat.cast_zero]

theorem valid_spherical (ri ro : K) (n : Nat) :
    (GridObj.spherical ri ro n).Valid ↔ 0 ≤ ri ∧ ri < ro ∧ 1 ≤ n := by
  simp only [GridObj.Valid, not_lt, Nat.cast_zero]

theorem valid_cylindrical (ri ro zl zh : K) (nr nz : Nat) (pz : Bool) :
    (GridObj.cylindrical ri ro zl zh nr nz pz).Valid ↔ 0 ≤ ri ∧ ri < ro ∧ 1 ≤ nr ∧ 1 ≤ nz := by
  simp only [GridObj.Valid, not_lt, Nat.cast_zero]

/-! ### helper lemmas: printing followed by parsing -/

theorem mapM_shapeEntry (s : List Nat) (h : ∀ n ∈ s, 1 ≤ n) :
    (s.map (Val.nat : Nat → Val K)).mapM shapeEntry = .ok s := by
  induction s with
  | nil => rfl
  | cons a t ih =>
    have ha : 1 ≤ a := h a (by simp)
    have := ih (fun n hn => h n (by simp [hn]))
    simp only [List.map_cons, List.mapM_cons, this, shapeEntry, ha, if_true]
    rfl

theorem checkShape_shapeVal (s : List Nat) (h1 : s ≠ []) (h2 : ∀ n ∈ s, 1 ≤ n) :
    checkShape (shapeVal s : Val K) = .ok s := by
  unfold checkShape shapeVal
  have : (s.map (Val.nat : Nat → Val K)).isEmpty = false := by cases s <;> simp_all
  simp only [this]
  exact mapM_shapeEntry s h2

theorem mapM_flagEntry (p : List Bool) :
    (p.map (Val.bool : Bool → Val K)).mapM flagEntry = .ok p := by
  induction p with
  | nil => rfl
  | cons a t ih =>
    simp only [List.map_cons, List.mapM_cons, ih, flagEntry]
    rfl

theorem cartesianPeriodic_flagsVal (p : List Bool) (d : Nat) (h : p.length = d) :
    cartesianPeriodic d (flagsVal p : Val K) = .ok p := by
  unfold cartesianPeriodic flagsVal
  simp only [List.length_map, h, ne_eq, not_true_eq_false, if_false]
  exact mapM_flagEntry p

theorem asNums_pairs (b : List (K × K)) (h : b ≠ []) : asNums (b.map pairVal) = none := by
  cases b with
  | nil => exact absurd rfl h
  | cons x t => simp [pairVal, asNums]

theorem asSingles_pairs (b : List (K × K)) (h : b ≠ []) : asSingles (b.map pairVal) = none := by
  cases b with
  | nil => exact absurd rfl h
  | cons x t => simp [pairVal, asSingles]

theorem asPairs_pairs (b : List (K × K)) : asPairs (b.map pairVal) = some b := by
  induction b with
  | nil => rfl
  | cons x t ih => simp [pairVal, asPairs, ih]

/-- `Cuboid.from_bounds` leaves ordered bounds alone -/
theorem cuboidBounds_id (x : K × K) (h : x.1 ≤ x.2) : cuboidBounds x.1 x.2 = x := by
  unfold cuboidBounds
  have : ¬ (x.2 - x.1 < ((0:Nat) : K)) := by push_cast; linarith
  simp only [this, if_false]
  ext <;> simp

theorem cartesianBounds_pairs (b : List (K × K)) (h : b ≠ []) (ho : ∀ x ∈ b, x.1 ≤ x.2) :
    cartesianBounds (.list (b.map pairVal)) = .ok b := by
  unfold cartesianBounds
  simp only [asNums_pairs b h, asSingles_pairs b h, asPairs_pairs]
  congr 1
  conv_rhs => rw [← List.map_id b]
  exact List.map_congr_left fun x hx => cuboidBounds_id x (ho x hx)

theorem parseRadius_radiusVal (ri ro : K) (h0 : 0 ≤ ri) (h : ri < ro) :
    parseRadius (radiusVal ri ro) = .ok (ri, ro) := by
  unfold radiusVal
  by_cases hz : ri = 0
  · subst hz
    have : ((0 : K) == ((0:Nat) : K)) = true := by simp
    simp only [this, if_true, parseRadius, parseRadius.checkRadii]
    have h1 : ¬ (((0:Nat) : K) < ((0:Nat) : K)) := lt_irrefl _
    have h2 : ((0:Nat) : K) < ro := by push_cast; exact h
    simp only [h1, h2, if_false, if_true]
    simp
  · have : (ri == ((0:Nat) : K)) = false := by simp [hz]
    have h1 : ¬ (ri < ((0:Nat) : K)) := by push_cast; exact not_lt.mpr h0
    simp [parseRadius, parseRadius.checkRadii, hz, not_lt.mpr h0, h]

/-! ### 1. `from_state(state)` restores the object -/

/-- **C14** `cls.from_state(grid.state)` rebuilds exactly the stored object: bounds (including
the inner radius), shape and periodicity, for every valid grid of every class -/
theorem grid_state_roundtrip (g : GridObj K) (hg : g.Valid) :
    classFromState g.cls g.state = .ok g := by
  cases g with
  | unit s p =>
    obtain ⟨h1, h2, h3⟩ := hg
    simp [GridObj.cls, GridObj.state, classFromState, pop, lookup, erase, mkUnit, checkShape_shapeVal s h1 h2, cartesianPeriodic_flagsVal p s.length h3, unused,
      bind, Except.bind]
  | cartesian b s p =>
    obtain ⟨h1, h2, h3, h4, h5⟩ := (valid_cartesian b s p).mp hg
    have hs : s ≠ [] := by
      intro h; subst h; cases b with
      | nil => exact h1 rfl
      | cons x t => simp at h2
    have hsh : cartesianShape b.length (shapeVal s : Val K) = .ok s := by
      unfold cartesianShape
      simp only [checkShape_shapeVal s hs h4, bind, Except.bind]
      have : ¬ (s.length = 1 ∧ 1 < b.length) := by omega
      simp only [this, if_false]
      simp [h2]
    simp [GridObj.cls, GridObj.state, classFromState, pop, lookup, erase, mkCartesian, cartesianBounds_pairs b h1 h5, hsh, cartesianPeriodic_flagsVal p s.length h3,
      unused, bind, Except.bind]
  | polar ri ro n =>
    obtain ⟨h0, h1, h2⟩ := (valid_polar ri ro n).mp hg
    simp [GridObj.cls, GridObj.state, classFromState, pop, lookup, erase, mkRadial, checkShape_shapeVal [n] (by simp) (by simpa using h2),
      parseRadius_radiusVal ri ro h0 h1, unused, bind, Except.bind]
  | spherical ri ro n =>
    obtain ⟨h0, h1, h2⟩ := (valid_spherical ri ro n).mp hg
    simp [GridObj.cls, GridObj.state, classFromState, pop, lookup, erase, mkRadial, checkShape_shapeVal [n] (by simp) (by simpa using h2),
      parseRadius_radiusVal ri ro h0 h1, unused, bind, Except.bind]
  | cylindrical ri ro zl zh nr nz pz =>
    obtain ⟨h0, h1, h2, h3⟩ := (valid_cylindrical ri ro zl zh nr nz pz).mp hg
    simp [GridObj.cls, GridObj.state, classFromState, pop, lookup, erase, mkCylindrical, checkShape_shapeVal [nr, nz] (by simp) (by simp [h2, h3]),
      parseRadius_radiusVal ri ro h0 h1, unused, bind, Except.bind, pairVal]

/-- the class name printed into the JSON state finds the class again -/
theorem classOfName_className (c : GridClass) : classOfName (className c) = some c := by
  cases c <;> decide

/-- `GridBase.from_state` on `state_serialized` dispatches to the class and hands it the state -/
theorem fromState_stateSerialized (g : GridObj K) :
    fromState g.stateSerialized = classFromState g.cls g.state := by
  cases g <;>
    simp [GridObj.stateSerialized, fromState, GridObj.state, GridObj.cls, pop, lookup, erase, className,
      classOfName, bind, Except.bind]

/-- **C14** `GridBase.from_state(grid.state_serialized)`: the round trip through the JSON tree
(state plus class name) restores the object -/
theorem grid_json_roundtrip (g : GridObj K) (hg : g.Valid) : fromState g.stateSerialized = .ok g := by
  rw [fromState_stateSerialized]; exact grid_state_roundtrip g hg

/-! ### 2. copies are equal to the original -/

theorem eqPairs_refl (l : List (K × K)) : eqPairs l l = true := by
  induction l with
  | nil => rfl
  | cons a t ih => simp [eqPairs, ih]

theorem eqPairs_iff (l m : List (K × K)) : eqPairs l m = true ↔ l = m := by
  induction l generalizing m with
  | nil => cases m <;> simp [eqPairs]
  | cons a t ih =>
    cases m with
    | nil => simp [eqPairs]
    | cons b u =>
      simp only [eqPairs, Bool.and_eq_true, beq_iff_eq, ih, List.cons.injEq]
      constructor
      · rintro ⟨⟨h1, h2⟩, h3⟩; exact ⟨Prod.ext h1 h2, h3⟩
      · rintro ⟨h1, h2⟩; exact ⟨⟨congrArg Prod.fst h1, congrArg Prod.snd h1⟩, h2⟩

theorem gridEq_refl (g : GridObj K) : gridEq g g = true := by
  simp [gridEq, subclassOf, eqPairs_refl]

/-- what `==` means: related classes (equal, or `UnitGrid` against `CartesianGrid`) and identical
shape, bounds and periodicity -/
theorem gridEq_iff (a b : GridObj K) :
    gridEq a b = true ↔
      (subclassOf b.cls a.cls = true ∨ subclassOf a.cls b.cls = true) ∧
        a.shape = b.shape ∧ a.axesBounds = b.axesBounds ∧ a.periodic = b.periodic := by
  simp only [gridEq, Bool.and_eq_true, Bool.or_eq_true, beq_iff_eq, eqPairs_iff]
  tauto

theorem gridEq_symm (a b : GridObj K) : gridEq a b = gridEq b a := by
  rw [Bool.eq_iff_iff, gridEq_iff, gridEq_iff]
  constructor <;> rintro ⟨h1, h2, h3, h4⟩ <;> exact ⟨h1.symm, h2.symm, h3.symm, h4.symm⟩

/-- equal grids of the same class are the same object: nothing else is stored -/
theorem gridEq_same_class (a b : GridObj K) (hc : a.cls = b.cls) (h : gridEq a b = true) : a = b := by
  obtain ⟨_, hs, hb, hp⟩ := (gridEq_iff a b).mp h
  cases a <;> cases b <;> simp_all [GridObj.cls, GridObj.shape, GridObj.axesBounds, GridObj.periodic]

/-- **C14** `grid.copy()` (also `copy.copy`, `copy.deepcopy`) returns the stored object again, and
it compares equal to the original in both directions -/
theorem grid_copy_eq (g : GridObj K) (hg : g.Valid) :
    g.copy = .ok g ∧ ∀ c, g.copy = .ok c → gridEq c g = true ∧ gridEq g c = true := by
  have h : g.copy = .ok g := grid_state_roundtrip g hg
  refine ⟨h, fun c hc => ?_⟩
  rw [h] at hc
  cases hc
  exact ⟨gridEq_refl g, gridEq_refl g⟩

/-- the state determines the object: two valid grids of one class with the same state are the same -/
theorem state_injective (a b : GridObj K) (ha : a.Valid) (hb : b.Valid) (hc : a.cls = b.cls)
    (h : a.state = b.state) : a = b := by
  have h1 := grid_state_roundtrip a ha
  have h2 := grid_state_roundtrip b hb
  rw [hc, h, h2] at h1
  cases h1; rfl

/-! ### 2b. every object a constructor or `from_state` returns is `Valid`

The round-trip theorems above are stated for `Valid` objects.  This section shows that the set of
`Valid` objects contains everything that can occur: the results of the four constructors (for every
argument tree they accept) and therefore of every `from_state` / `copy`. -/

theorem mapM_except_ok {α β ε : Type} (f : α → Except ε β) :
    ∀ (l : List α) (r : List β), l.mapM f = .ok r →
      r.length = l.length ∧ ∀ y ∈ r, ∃ x ∈ l, f x = .ok y := by
  intro l
  induction l with
  | nil =>
    intro r h
    simp only [List.mapM_nil, pure, Except.pure, Except.ok.injEq] at h
    subst h
    simp
  | cons a t ih =>
    intro r h
    simp only [List.mapM_cons, bind, Except.bind] at h
    cases hf : f a with
    | error e => simp [hf] at h
    | ok b =>
      cases ht : t.mapM f with
      | error e => simp [hf, ht] at h
      | ok u =>
        simp only [hf, ht, pure, Except.pure, Except.ok.injEq] at h
        subst h
        obtain ⟨h1, h2⟩ := ih u ht
        refine ⟨by simp [h1], ?_⟩
        intro y hy
        rcases List.mem_cons.mp hy with rfl | hy
        · exact ⟨a, by simp, hf⟩
        · obtain ⟨x, hx, hx'⟩ := h2 y hy
          exact ⟨x, by simp [hx], hx'⟩

theorem shapeEntry_ok (v : Val K) (n : Nat) (h : shapeEntry v = .ok n) : 1 ≤ n := by
  cases v <;> simp only [shapeEntry] at h <;> try (cases h)
  split at h
  · cases h; assumption
  · cases h

theorem checkShape_ok (v : Val K) (s : List Nat) (h : checkShape v = .ok s) :
    s ≠ [] ∧ ∀ n ∈ s, 1 ≤ n := by
  cases v <;> simp only [checkShape] at h <;> try (cases h)
  · split at h
    · cases h; simp; assumption
    · cases h
  · split at h
    · cases h
    · rename_i l hl
      obtain ⟨h1, h2⟩ := mapM_except_ok shapeEntry l s h
      constructor
      · intro e; subst e; cases l <;> simp_all
      · intro n hn
        obtain ⟨x, _, hx⟩ := h2 n hn
        exact shapeEntry_ok x n hx

theorem cuboidPosSize_le (pos x : K) : (cuboidPosSize pos x).1 ≤ (cuboidPosSize pos x).2 := by
  unfold cuboidPosSize
  split
  · rename_i hx
    have : x < 0 := by simpa using hx
    simp only
    linarith
  · rename_i hx
    have : 0 ≤ x := by simpa using hx
    simp only
    linarith

theorem cuboidBounds_le (lo hi : K) : (cuboidBounds lo hi).1 ≤ (cuboidBounds lo hi).2 := by
  unfold cuboidBounds
  simp only
  split
  · rename_i hx
    have : hi - lo < 0 := by simpa using hx
    simp only
    linarith
  · rename_i hx
    have : 0 ≤ hi - lo := by simpa using hx
    simp only
    linarith

theorem cartesianBounds_ok (v : Val K) (b : List (K × K)) (h : cartesianBounds v = .ok b) :
    ∀ x ∈ b, x.1 ≤ x.2 := by
  unfold cartesianBounds at h
  split at h
  · cases h
    intro x hx
    simp only [List.mem_singleton] at hx
    subst hx
    exact cuboidPosSize_le _ _
  · split at h
    · split at h
      · cases h
      · cases h
        intro x hx
        obtain ⟨y, _, rfl⟩ := List.mem_map.mp hx
        exact cuboidPosSize_le _ _
    · split at h
      · cases h
        intro x hx
        obtain ⟨y, _, rfl⟩ := List.mem_map.mp hx
        exact cuboidPosSize_le _ _
      · split at h
        · cases h
          intro x hx
          obtain ⟨y, _, rfl⟩ := List.mem_map.mp hx
          exact cuboidBounds_le _ _
        · cases h
  · cases h

theorem cartesianPeriodic_ok (d : Nat) (v : Val K) (p : List Bool) (h : cartesianPeriodic d v = .ok p) :
    p.length = d := by
  unfold cartesianPeriodic at h
  split at h
  · cases h; simp
  · split at h
    · cases h
    · rename_i l hl
      have := (mapM_except_ok flagEntry l p h).1
      omega
  · cases h

theorem cartesianShape_ok (d : Nat) (v : Val K) (s : List Nat) (h : cartesianShape d v = .ok s) :
    s.length = d ∧ s ≠ [] ∧ ∀ n ∈ s, 1 ≤ n := by
  unfold cartesianShape at h
  simp only [bind, Except.bind] at h
  cases hc : checkShape v with
  | error e => simp [hc] at h
  | ok s0 =>
    obtain ⟨hne, hge⟩ := checkShape_ok v s0 hc
    simp only [hc] at h
    by_cases hcond : s0.length = 1 ∧ 1 < d
    · simp only [hcond, and_self, if_true, List.length_replicate, ne_eq, not_true_eq_false, if_false] at h
      cases h
      refine ⟨by simp, ?_, ?_⟩
      · intro e
        have := congrArg List.length e
        simp at this
        omega
      · intro n hn
        have := (List.mem_replicate.mp hn).2
        subst this
        cases s0 with
        | nil => exact absurd rfl hne
        | cons a t => simpa using hge a (by simp)
    · simp only [hcond, if_false] at h
      split at h
      · cases h
      · rename_i hd
        cases h
        exact ⟨(not_not.mp hd).symm, hne, hge⟩

theorem parseRadius_ok (v : Val K) (r : K × K) (h : parseRadius v = .ok r) :
    ¬ (r.1 < ((0:Nat) : K)) ∧ r.1 < r.2 := by
  have key : ∀ a b : K, parseRadius.checkRadii a b = .ok r → ¬ (r.1 < ((0:Nat) : K)) ∧ r.1 < r.2 := by
    intro a b hk
    unfold parseRadius.checkRadii at hk
    split at hk
    · cases hk
    · split at hk
      · cases hk; constructor <;> assumption
      · cases hk
  unfold parseRadius at h
  split at h
  · exact key _ _ h
  · exact key _ _ h
  · cases h
  · cases h
  · cases h

/-- **every `UnitGrid` the constructor returns is a valid object** -/
theorem mkUnit_valid (shape periodic : Val K) (g : GridObj K) (h : mkUnit shape periodic = .ok g) :
    g.Valid := by
  unfold mkUnit at h
  simp only [bind, Except.bind] at h
  cases hs : checkShape shape with
  | error e => simp [hs] at h
  | ok s =>
    simp only [hs] at h
    cases hp : cartesianPeriodic s.length periodic with
    | error e => simp [hp] at h
    | ok p =>
      simp only [hp] at h
      cases h
      obtain ⟨h1, h2⟩ := checkShape_ok shape s hs
      exact ⟨h1, h2, cartesianPeriodic_ok _ _ _ hp⟩

/-- **every `CartesianGrid` the constructor returns is a valid object** (non-empty ordered bounds,
one count `≥ 1` and one flag per axis) -/
theorem mkCartesian_valid (bounds shape periodic : Val K) (g : GridObj K)
    (h : mkCartesian bounds shape periodic = .ok g) : g.Valid := by
  unfold mkCartesian at h
  simp only [bind, Except.bind] at h
  cases hb : cartesianBounds bounds with
  | error e => simp [hb] at h
  | ok b =>
    simp only [hb] at h
    cases hs : cartesianShape b.length shape with
    | error e => simp [hs] at h
    | ok s =>
      simp only [hs] at h
      cases hp : cartesianPeriodic s.length periodic with
      | error e => simp [hp] at h
      | ok p =>
        simp only [hp] at h
        cases h
        obtain ⟨h1, h2, h3⟩ := cartesianShape_ok _ shape s hs
        refine (valid_cartesian b s p).mpr ⟨?_, h1, cartesianPeriodic_ok _ _ _ hp, h3, cartesianBounds_ok bounds b hb⟩
        intro e
        subst e
        apply h2
        exact List.eq_nil_of_length_eq_zero h1

/-- **every `PolarSymGrid` / `SphericalSymGrid` the constructor returns is a valid object**
(`0 ≤ r_inner < r_outer`, at least one cell) -/
theorem mkRadial_valid (sph : Bool) (radius shape : Val K) (g : GridObj K)
    (h : mkRadial sph radius shape = .ok g) : g.Valid := by
  unfold mkRadial at h
  simp only [bind, Except.bind] at h
  cases hs : checkShape shape with
  | error e => simp [hs] at h
  | ok s =>
    simp only [hs] at h
    obtain ⟨h1, h2⟩ := checkShape_ok shape s hs
    split at h
    · cases h
    · rename_i hl
      have hl' : s.length = 1 := not_not.mp hl
      cases hr : parseRadius radius with
      | error e => simp [hr] at h
      | ok r =>
        simp only [hr] at h
        obtain ⟨r1, r2⟩ := parseRadius_ok radius r hr
        have hn : 1 ≤ s.headD 1 := by
          cases s with
          | nil => simp at hl'
          | cons a t => simpa using h2 a (by simp)
        cases sph <;> simp only [Bool.false_eq_true, if_false, if_true] at h <;> cases h <;>
          exact ⟨r1, r2, hn⟩

/-- **every `CylindricalSymGrid` the constructor returns is a valid object** -/
theorem mkCylindrical_valid (radius boundsZ shape periodicZ : Val K) (g : GridObj K)
    (h : mkCylindrical radius boundsZ shape periodicZ = .ok g) : g.Valid := by
  unfold mkCylindrical at h
  simp only [bind, Except.bind] at h
  cases hs : checkShape shape with
  | error e => simp [hs] at h
  | ok s =>
    simp only [hs] at h
    obtain ⟨_, h2⟩ := checkShape_ok shape s hs
    split at h
    · cases h
    · rename_i nn hnn
      split at h
      · cases h
      · rename_i zz hzz
        split at h
        · cases h
        · rename_i pz hpz
          cases hr : parseRadius radius with
          | error e => simp [hr] at h
          | ok r =>
            simp only [hr] at h
            cases h
            obtain ⟨r1, r2⟩ := parseRadius_ok radius r hr
            have : 1 ≤ nn.1 ∧ 1 ≤ nn.2 := by
              split at hnn
              · cases hnn; exact ⟨h2 _ (by simp), h2 _ (by simp)⟩
              · cases hnn; exact ⟨h2 _ (by simp), h2 _ (by simp)⟩
              · cases hnn
            exact ⟨r1, r2, this.1, this.2⟩

/-- **whatever a class's `from_state` returns is a valid object**, for every state dictionary
(well-formed or not) -/
theorem classFromState_valid (c : GridClass) (d : Dict K) (g : GridObj K)
    (h : classFromState c d = .ok g) : g.Valid := by
  have hun : ∀ (d' : Dict K) (g' : GridObj K), unused d' g' = .ok g → g' = g := by
    intro d' g' hu
    unfold unused at hu
    split at hu
    · cases hu; rfl
    · cases hu
  cases c <;> simp only [classFromState, bind, Except.bind] at h
  · -- unit
    cases h1 : pop "shape" d with
    | error e => simp [h1] at h
    | ok a1 =>
      simp only [h1] at h
      cases h2 : pop "periodic" a1.2 with
      | error e => simp [h2] at h
      | ok a2 =>
        simp only [h2] at h
        cases hm : mkUnit a1.1 a2.1 with
        | error e => simp [hm] at h
        | ok g' =>
          simp only [hm] at h
          rw [← hun _ _ h]
          exact mkUnit_valid _ _ _ hm
  · -- cartesian
    cases h1 : pop "bounds" d with
    | error e => simp [h1] at h
    | ok a1 =>
      simp only [h1] at h
      cases h2 : pop "shape" a1.2 with
      | error e => simp [h2] at h
      | ok a2 =>
        simp only [h2] at h
        cases h3 : pop "periodic" a2.2 with
        | error e => simp [h3] at h
        | ok a3 =>
          simp only [h3] at h
          cases hm : mkCartesian a1.1 a2.1 a3.1 with
          | error e => simp [hm] at h
          | ok g' =>
            simp only [hm] at h
            rw [← hun _ _ h]
            exact mkCartesian_valid _ _ _ _ hm
  · -- polar
    cases h1 : pop "radius" d with
    | error e => simp [h1] at h
    | ok a1 =>
      simp only [h1] at h
      cases h2 : pop "shape" a1.2 with
      | error e => simp [h2] at h
      | ok a2 =>
        simp only [h2] at h
        cases hm : mkRadial false a1.1 a2.1 with
        | error e => simp [hm] at h
        | ok g' =>
          simp only [hm] at h
          rw [← hun _ _ h]
          exact mkRadial_valid _ _ _ _ hm
  · -- spherical
    cases h1 : pop "radius" d with
    | error e => simp [h1] at h
    | ok a1 =>
      simp only [h1] at h
      cases h2 : pop "shape" a1.2 with
      | error e => simp [h2] at h
      | ok a2 =>
        simp only [h2] at h
        cases hm : mkRadial true a1.1 a2.1 with
        | error e => simp [hm] at h
        | ok g' =>
          simp only [hm] at h
          rw [← hun _ _ h]
          exact mkRadial_valid _ _ _ _ hm
  · -- cylindrical
    cases h1 : pop "radius" d with
    | error e => simp [h1] at h
    | ok a1 =>
      simp only [h1] at h
      cases h2 : pop "bounds_z" a1.2 with
      | error e => simp [h2] at h
      | ok a2 =>
        simp only [h2] at h
        cases h3 : pop "shape" a2.2 with
        | error e => simp [h3] at h
        | ok a3 =>
          simp only [h3] at h
          cases h4 : pop "periodic_z" a3.2 with
          | error e => simp [h4] at h
          | ok a4 =>
            simp only [h4] at h
            cases hm : mkCylindrical a1.1 a2.1 a3.1 a4.1 with
            | error e => simp [hm] at h
            | ok g' =>
              simp only [hm] at h
              rw [← hun _ _ h]
              exact mkCylindrical_valid _ _ _ _ _ hm

/-- **whatever `GridBase.from_state` returns is a valid object**, for every JSON tree -/
theorem fromState_valid (v : Val K) (g : GridObj K) (h : fromState v = .ok g) : g.Valid := by
  unfold fromState at h
  split at h
  · simp only [bind, Except.bind] at h
    rename_i d
    cases h1 : pop "class" d with
    | error e => simp [h1] at h
    | ok a1 =>
      simp only [h1] at h
      split at h
      · split at h
        · cases h
        · split at h
          · cases h
          · split at h
            · cases h
            · exact classFromState_valid _ _ _ h
      · cases h
  · cases h

/-- **composition: a restored (or copied) grid is itself restorable, exactly.**  Whatever tree
`GridBase.from_state` accepts, the object it returns satisfies every round trip of the property:
its own `state`, its own JSON tree and `copy()` give the same object again, and `==` holds. -/
theorem restored_grid_roundtrips (v : Val K) (g : GridObj K) (h : fromState v = .ok g) :
    classFromState g.cls g.state = .ok g ∧ fromState g.stateSerialized = .ok g ∧
      g.copy = .ok g ∧ gridEq g g = true :=
  have hv := fromState_valid v g h
  ⟨grid_state_roundtrip g hv, grid_json_roundtrip g hv, (grid_copy_eq g hv).1, gridEq_refl g⟩

/-- **composition: every constructed grid survives every round trip.**  For all constructor
arguments the constructors accept (every spelling of bounds, shape, periodicity and radius the
model parses), the object they build is restored exactly from its `state`, from its JSON tree and
by `copy()`.  This closes the gap between `grid_state_roundtrip` (stated for `Valid` objects) and
the objects that can actually occur. -/
theorem constructed_grid_roundtrips (g : GridObj K)
    (h : (∃ s p, mkUnit s p = .ok g) ∨ (∃ b s p, mkCartesian b s p = .ok g) ∨
      (∃ sph r s, mkRadial sph r s = .ok g) ∨ (∃ r z s p, mkCylindrical r z s p = .ok g)) :
    g.Valid ∧ classFromState g.cls g.state = .ok g ∧ fromState g.stateSerialized = .ok g ∧
      g.copy = .ok g := by
  have hv : g.Valid := by
    rcases h with ⟨s, p, h⟩ | ⟨b, s, p, h⟩ | ⟨sph, r, s, h⟩ | ⟨r, z, s, p, h⟩
    · exact mkUnit_valid _ _ _ h
    · exact mkCartesian_valid _ _ _ _ h
    · exact mkRadial_valid _ _ _ _ h
    · exact mkCylindrical_valid _ _ _ _ _ h
  exact ⟨hv, grid_state_roundtrip g hv, grid_json_roundtrip g hv, (grid_copy_eq g hv).1⟩

/-- the copy of a copy: `copy` is idempotent on everything it returns -/
theorem copy_valid (g c : GridObj K) (h : g.copy = .ok c) : c.Valid ∧ c.copy = .ok c := by
  have hv := classFromState_valid _ _ _ h
  exact ⟨hv, (grid_copy_eq c hv).1⟩

/-! ### 3. derived quantities are functions of bounds and shape -/

theorem mkAxes_unit_mem (s : List Nat) (p : List Bool) :
    ∀ a ∈ mkAxes (s.map fun (n : Nat) => (((0:Nat) : K), ((n : Nat) : K))) s p,
      a.lo = 0 ∧ a.hi = (a.n : K) ∧ a.n ∈ s := by
  induction s generalizing p with
  | nil => intro a ha; simp [mkAxes] at ha
  | cons n t ih =>
    cases p with
    | nil => intro a ha; simp [mkAxes] at ha
    | cons q u =>
      intro a ha
      simp only [List.map_cons, mkAxes, List.mem_cons] at ha
      rcases ha with rfl | ha
      · simp
      · obtain ⟨h1, h2, h3⟩ := ih u a ha
        exact ⟨h1, h2, List.mem_cons_of_mem _ h3⟩

theorem enumFrom_mem {α : Type} (l : List α) (k : Nat) : ∀ x ∈ enumFrom k l, x.2 ∈ l := by
  induction l generalizing k with
  | nil => intro x hx; simp [enumFrom] at hx
  | cons a t ih =>
    intro x hx
    simp only [enumFrom, List.mem_cons] at hx
    rcases hx with rfl | hx
    · simp
    · exact List.mem_cons_of_mem _ (ih _ x hx)

theorem zipWith_congr_left {α β γ : Type} (f f' : α → β → γ) (l : List α) (m : List β)
    (h : ∀ x ∈ l, ∀ y, f x y = f' x y) : List.zipWith f l m = List.zipWith f' l m := by
  induction l generalizing m with
  | nil => rfl
  | cons a t ih =>
    cases m with
    | nil => rfl
    | cons b u =>
      simp only [List.zipWith_cons_cons]
      rw [h a (by simp) b, ih u (fun x hx y => h x (List.mem_cons_of_mem _ hx) y)]

/-- a `UnitGrid` and the `CartesianGrid` with the same bounds `(0, n)` (the pair `==` accepts
across classes) have the same coordinates, spacings, cell volumes and volume -/
theorem unit_cartesian_same_geometry (axes : List (Axis K))
    (h : ∀ a ∈ axes, a.lo = 0 ∧ a.hi = (a.n : K) ∧ 1 ≤ a.n) :
    (⟨.unit, axes⟩ : Grid K).axesCoords = (⟨.cartesian, axes⟩ : Grid K).axesCoords ∧
    (⟨.unit, axes⟩ : Grid K).discretization = (⟨.cartesian, axes⟩ : Grid K).discretization ∧
    (∀ pi idx, (⟨.unit, axes⟩ : Grid K).cellVolume pi idx = (⟨.cartesian, axes⟩ : Grid K).cellVolume pi idx) ∧
    ∀ pi, (⟨.unit, axes⟩ : Grid K).volume pi = (⟨.cartesian, axes⟩ : Grid K).volume pi := by
  have hdx : ∀ a ∈ axes, (⟨.unit, axes⟩ : Grid K).dxOf a = (⟨.cartesian, axes⟩ : Grid K).dxOf a := by
    intro a ha
    obtain ⟨h1, h2, h3⟩ := h a ha
    have hn : (a.n : K) ≠ 0 := Nat.cast_ne_zero.mpr (by omega)
    simp [Grid.dxOf, unitDx, dx, h1, h2, hn]
  refine ⟨?_, ?_, ?_, ?_⟩
  · apply List.map_congr_left
    intro a ha
    obtain ⟨h1, h2, h3⟩ := h a ha
    have hn : (a.n : K) ≠ 0 := Nat.cast_ne_zero.mpr (by omega)
    apply List.map_congr_left
    intro i _
    simp [Grid.centreOf, unitCentre, centre, dx, h1, h2, hn]
  · exact List.map_congr_left hdx
  · intro pi idx
    simp only [Grid.cellVolume, Grid.axisVolsAll, Grid.axisVols]
    congr 1
    apply zipWith_congr_left
    intro x hx y
    have hx' := enumFrom_mem axes 0 x hx
    have := hdx x.2 hx'
    have hv : Grid.volFactor pi (⟨.unit, axes⟩ : Grid K) x.1 x.2 =
        Grid.volFactor pi (⟨.cartesian, axes⟩ : Grid K) x.1 x.2 := by
      funext i
      unfold Grid.volFactor
      exact this
    rw [hv]
  · intro pi
    rfl

/-- **C14** bounds and shape determine everything derived from them: two valid grids that compare
equal (`==`: same bounds, shape, periodicity, related classes) have identical cell coordinates,
spacings, cell volumes and total volume (C12's functions of the grid).  Together with
`grid_state_roundtrip` every restored grid therefore has the derived quantities of the original. -/
theorem derived_quantities_determined (g h : GridObj K) (hg : g.Valid) (hh : h.Valid)
    (he : gridEq g h = true) :
    g.toGrid.axesCoords = h.toGrid.axesCoords ∧
    g.toGrid.discretization = h.toGrid.discretization ∧
    (∀ pi idx, g.toGrid.cellVolume pi idx = h.toGrid.cellVolume pi idx) ∧
    ∀ pi, g.toGrid.volume pi = h.toGrid.volume pi := by
  by_cases hc : g.cls = h.cls
  · have := gridEq_same_class g h hc he
    subst this
    exact ⟨rfl, rfl, fun _ _ => rfl, fun _ => rfl⟩
  · obtain ⟨hrel, hs, hb, hp⟩ := (gridEq_iff g h).mp he
    -- the only related distinct classes are UnitGrid / CartesianGrid
    have key : ∀ (s : List Nat) (p : List Bool) (b : List (K × K)),
        (∀ n ∈ s, 1 ≤ n) →
        b = s.map (fun (n : Nat) => (((0:Nat) : K), ((n : Nat) : K))) →
        ∀ a ∈ mkAxes b s p, a.lo = 0 ∧ a.hi = (a.n : K) ∧ 1 ≤ a.n := by
      intro s p b h1 hb' a ha
      subst hb'
      obtain ⟨x, y, z⟩ := mkAxes_unit_mem s p a ha
      exact ⟨x, y, h1 _ z⟩
    cases g <;> cases h <;> simp [GridObj.cls, subclassOf] at hc hrel
    case unit.cartesian s p b s' p' =>
      simp only [GridObj.shape, GridObj.axesBounds, GridObj.periodic] at hs hb hp
      subst hs hp hb
      have hax := key s p _ hg.2.1 rfl
      exact unit_cartesian_same_geometry _ hax
    case cartesian.unit b s p s' p' =>
      simp only [GridObj.shape, GridObj.axesBounds, GridObj.periodic] at hs hb hp
      subst hs hp hb
      have hax := key s p _ hh.2.1 rfl
      obtain ⟨h1, h2, h3, h4⟩ := unit_cartesian_same_geometry _ hax
      exact ⟨h1.symm, h2.symm, fun pi idx => (h3 pi idx).symm, fun pi => (h4 pi).symm⟩

/-- corollary: whatever `from_state` returns for the state of a valid grid has the derived
quantities of the original -/
theorem roundtrip_preserves_derived (g r : GridObj K) (hg : g.Valid)
    (hr : classFromState g.cls g.state = .ok r) :
    r.toGrid.axesCoords = g.toGrid.axesCoords ∧
    (∀ pi idx, r.toGrid.cellVolume pi idx = g.toGrid.cellVolume pi idx) := by
  rw [grid_state_roundtrip g hg] at hr
  cases hr
  exact ⟨rfl, fun _ _ => rfl⟩

end

/-! ### 4. slice layout of a collection buffer -/

theorem slicesFrom_length (st : Nat) (l : List Nat) : (slicesFrom st l).length = l.length := by
  induction l generalizing st with
  | nil => rfl
  | cons n t ih => simp [slicesFrom, ih]

theorem slicesFrom_getElem (st : Nat) (l : List Nat) (i : Nat) (h : i < l.length) :
    (slicesFrom st l)[i]'(by rw [slicesFrom_length]; exact h) =
      (st + (l.take i).sum, st + (l.take i).sum + l[i]) := by
  induction l generalizing st i with
  | nil => simp at h
  | cons n t ih =>
    cases i with
    | zero => simp [slicesFrom]
    | succ j =>
      simp only [slicesFrom, List.getElem_cons_succ, List.take_succ_cons, List.sum_cons]
      rw [ih (st + n) j (by simpa using h)]
      simp [Nat.add_assoc]

/-- **C14** slice `i` of a collection starts at the sum of the lengths of the earlier slices and is
as long as its own length says (`_slices[i] = slice(sum(len[:i]), sum(len[:i]) + len[i])`) -/
theorem slices_offsets_prefix_sums (l : List Nat) (i : Nat) (h : i < l.length) :
    (slices l)[i]'(by unfold slices; rw [slicesFrom_length]; exact h) =
      ((l.take i).sum, (l.take i).sum + l[i]) := by
  unfold slices
  rw [slicesFrom_getElem 0 l i h]
  simp

theorem sum_take_mono (l : List Nat) (i j : Nat) (h : i ≤ j) : (l.take i).sum ≤ (l.take j).sum := by
  induction l generalizing i j with
  | nil => simp
  | cons n t ih =>
    cases i with
    | zero => simp
    | succ i' =>
      cases j with
      | zero => omega
      | succ j' =>
        simp only [List.take_succ_cons, List.sum_cons]
        exact Nat.add_le_add_left (ih i' j' (by omega)) n

/-- **C14** the slices are pairwise disjoint and ordered: an earlier slice ends before a later
one starts -/
theorem slices_disjoint (l : List Nat) (i j : Nat) (hij : i < j) (hj : j < l.length) :
    ((slices l)[i]'(by unfold slices; rw [slicesFrom_length]; omega)).2 ≤
      ((slices l)[j]'(by unfold slices; rw [slicesFrom_length]; exact hj)).1 := by
  rw [slices_offsets_prefix_sums l i (by omega), slices_offsets_prefix_sums l j hj]
  simp only
  rw [← List.sum_take_succ l i (by omega)]
  exact sum_take_mono l (i + 1) j hij

theorem slicesFrom_cover (st : Nat) (l : List Nat) (c : Nat) (h1 : st ≤ c) (h2 : c < st + l.sum) :
    ∃ p ∈ slicesFrom st l, p.1 ≤ c ∧ c < p.2 := by
  induction l generalizing st with
  | nil => simp at h2; omega
  | cons n t ih =>
    by_cases hc : c < st + n
    · exact ⟨(st, st + n), by simp [slicesFrom], h1, hc⟩
    · obtain ⟨p, hp, hp'⟩ := ih (st + n) (by omega) (by simp only [List.sum_cons] at h2; omega)
      exact ⟨p, by simp [slicesFrom, hp], hp'⟩

/-- **C14** the slices cover the buffer: every component index below the total lies in a slice -/
theorem slices_cover (l : List Nat) (c : Nat) (h : c < l.sum) :
    ∃ p ∈ slices l, p.1 ≤ c ∧ c < p.2 :=
  slicesFrom_cover 0 l c (Nat.zero_le _) (by simpa using h)

/-- the last slice ends at the total number of components -/
theorem slices_total (l : List Nat) (h : l ≠ []) :
    ((slices l).getLast (by
      intro e; apply h; have := congrArg List.length e
      unfold slices at this; rw [slicesFrom_length] at this; simpa using this)).2 = l.sum := by
  have hl : 0 < l.length := List.length_pos_of_ne_nil h
  rw [List.getLast_eq_getElem]
  have hlen : (slices l).length = l.length := by unfold slices; rw [slicesFrom_length]
  simp only [hlen]
  rw [slices_offsets_prefix_sums l (l.length - 1) (by omega)]
  simp only
  rw [← List.sum_take_succ l (l.length - 1) (by omega)]
  have : l.length - 1 + 1 = l.length := by omega
  rw [this, List.take_length]

/-- cutting a concatenation at the lengths of its parts gives the parts back (whatever follows) -/
theorem splitBy_flatten {α : Type} (ls : List (List α)) (rest : List α) :
    splitBy (ls.map List.length) (ls.flatten ++ rest) = ls := by
  induction ls with
  | nil => rfl
  | cons a t ih =>
    simp only [List.map_cons, splitBy, List.flatten_cons, List.append_assoc]
    rw [List.take_left' rfl, List.drop_left' rfl, ih]

/-- chunk `i` of `splitBy` is `data[start_i : start_i + len_i]` with the offsets of `slices` -/
theorem splitBy_getElem {α : Type} (l : List Nat) (data : List α) (i : Nat) (h : i < l.length) :
    (splitBy l data)[i]? = some ((data.drop (l.take i).sum).take l[i]) := by
  induction l generalizing data i with
  | nil => simp at h
  | cons n t ih =>
    cases i with
    | zero => simp [splitBy]
    | succ j =>
      simp only [splitBy, List.getElem?_cons_succ, List.take_succ_cons, List.sum_cons,
        List.getElem_cons_succ]
      rw [ih (data.drop n) j (by simpa using h), List.drop_drop]

/-! ### 5. `FieldCollection.from_data` reproduces every component -/

section
variable {K : Type} [Field K] [LinearOrder K] [IsStrictOrderedRing K]
variable {C : Type} [Inhabited C]

theorem dim_pos (g : GridObj K) (hg : g.Valid) : 1 ≤ g.dim := by
  cases g with
  | unit s p =>
    have : s ≠ [] := hg.1
    simp only [GridObj.dim, GridObj.cls, GridClass.dim, GridObj.shape]
    exact List.length_pos_of_ne_nil this
  | cartesian b s p =>
    obtain ⟨h1, h2, _⟩ := hg
    simp only [GridObj.dim, GridObj.cls, GridClass.dim, GridObj.shape]
    rw [h2]; exact List.length_pos_of_ne_nil h1
  | polar => simp [GridObj.dim, GridObj.cls, GridClass.dim]
  | spherical => simp [GridObj.dim, GridObj.cls, GridClass.dim]
  | cylindrical => simp [GridObj.dim, GridObj.cls, GridClass.dim]

theorem numComps_pos (dim : Nat) (hd : 1 ≤ dim) (c : FieldClass) : 1 ≤ numComps dim c :=
  Nat.one_le_pow _ _ hd

/-- a slice of exactly `dim ** rank` component arrays sets the field to these arrays, with and
without ghost cells -/
theorem setField_exact (cast : DType → C → C) (wg : Bool) (dim : Nat) (hd : 1 ≤ dim) (c : FieldClass)
    (dt : DType) (sl : List C) (hl : sl.length = numComps dim c) (hc : ∀ x ∈ sl, cast dt x = x) :
    setField cast wg dim c dt sl = .ok sl := by
  have hpos := numComps_pos dim hd c
  cases wg with
  | true =>
    cases c with
    | scalar =>
      have h1 : sl.length = 1 := by simpa [numComps, FieldClass.rank] using hl
      match sl, h1 with
      | [x], _ => simp [setField]
    | vector => simp [setField]
    | tensor2 =>
      have h2 : sl.length = dim * dim := by simpa [numComps, FieldClass.rank, pow_two] using hl
      simp [setField, h2]
  | false =>
    match sl, hl, hc with
    | [], hl, _ => simp at hl; omega
    | x :: t, hl, hc =>
      simp only [setField, Bool.false_eq_true, if_false]
      congr 1
      apply List.ext_getElem
      · simp [hl]
      · intro i h1 h2
        simp only [List.getElem_map, List.getElem_range]
        have hi : i < (x :: t).length := h2
        rw [Nat.mod_eq_of_lt hi]
        have : (x :: t).getD i x = (x :: t)[i] := by
          simp [List.getD_eq_getElem?_getD, List.getElem?_eq_getElem hi]
        rw [this]
        exact hc _ (List.getElem_mem hi)

theorem fromDataLoop_flatten (cast : DType → C → C) (wg : Bool) (dim : Nat) (hd : 1 ≤ dim) (dt : DType)
    (fs : List (FieldClass × List C)) (rest : List C)
    (hl : ∀ f ∈ fs, f.2.length = numComps dim f.1) (hc : ∀ f ∈ fs, ∀ x ∈ f.2, cast dt x = x) :
    fromDataLoop cast wg dim (numComps dim) dt (fs.map (·.1)) ((fs.map (·.2)).flatten ++ rest) =
      .ok (fs.map (·.2)) := by
  induction fs with
  | nil => rfl
  | cons f t ih =>
    have h1 := hl f (by simp)
    simp only [List.map_cons, List.flatten_cons, List.append_assoc, fromDataLoop]
    rw [List.take_left' h1, List.drop_left' h1,
      setField_exact cast wg dim hd f.1 dt f.2 h1 (hc f (by simp)),
      ih (fun g hg => hl g (by simp [hg])) (fun g hg => hc g (by simp [hg]))]
    rfl

theorem zip3_fst {α β γ : Type} (as : List α) (bs : List β) (cs : List γ)
    (h1 : bs.length = as.length) (h2 : cs.length = as.length) :
    (zip3 as bs cs).map (·.1) = as ∧ (zip3 as bs cs).map (·.2.1) = bs ∧
      (zip3 as bs cs).map (·.2.2) = cs := by
  induction as generalizing bs cs with
  | nil =>
    cases bs <;> cases cs <;> simp_all [zip3]
  | cons a t ih =>
    cases bs with
    | nil => simp at h1
    | cons b u =>
      cases cs with
      | nil => simp at h2
      | cons c v =>
        obtain ⟨x, y, z⟩ := ih u v (by simpa using h1) (by simpa using h2)
        simp [zip3, x, y, z]

/-- **C14** building a collection from the flat array of its component arrays reproduces every
component of every field: for every grid class (the count per field is `dim ** rank`, also when
the grid has symmetric axes), any list of fields of rank 0-2 (induction over the list), any data,
with and without ghost cells; label, labels and dtype are the requested ones.  Hypotheses: the
data is representable in its own dtype and in the resulting one (`cast` is the identity on it). -/
theorem collection_fromData_roundtrip (cast : DType → C → C) (g : GridObj K) (hg : g.Valid)
    (fs : List (FieldClass × List C)) (hne : fs ≠ [])
    (hl : ∀ f ∈ fs, f.2.length = numComps g.dim f.1)
    (wg : Bool) (label : Option String) (labels : Option (List (Option String)))
    (hlab : ∀ l, labels = some l → l.length = fs.length)
    (dtype : Option DType) (dd : DType)
    (hc : ∀ f ∈ fs, ∀ x ∈ f.2, cast dd x = x ∧ cast (dtype.getD dd.common) x = x) :
    ∃ r, fromData cast g (fs.map (·.1)) (fs.map (·.2)).flatten wg label labels dtype dd = .ok r ∧
      r.label = label ∧ r.dtype = dtype.getD dd.common ∧
      r.fields.map (·.1) = fs.map (·.1) ∧
      r.fields.map (·.2.1) = labels.getD (fs.map fun _ => none) ∧
      r.fields.map (·.2.2) = fs.map (·.2) := by
  have hd := dim_pos g hg
  have hloop := fromDataLoop_flatten cast wg g.dim hd dd fs [] hl (fun f hf x hx => (hc f hf x hx).1)
  rw [List.append_nil] at hloop
  have hemp : (fs.map (·.2)).isEmpty = false := by cases fs <;> simp_all
  have hany : (fs.map (·.2)).any (·.isEmpty) = false := by
    rw [List.any_eq_false]
    intro x hx
    obtain ⟨f, hf, rfl⟩ := List.mem_map.mp hx
    have := numComps_pos g.dim hd f.1
    have h2 := hl f hf
    cases h : f.2 with
    | nil => rw [h] at h2; simp at h2; omega
    | cons => simp
  have hcast : (fs.map (·.2)).map (fun f => f.map (cast (dtype.getD dd.common))) = fs.map (·.2) := by
    rw [List.map_map]
    apply List.map_congr_left
    intro f hf
    simp only [Function.comp]
    conv_rhs => rw [← List.map_id f.2]
    exact List.map_congr_left fun x hx => (hc f hf x hx).2
  unfold fromData fromDataWith
  simp only [hloop, bind, Except.bind, hemp, hany, Bool.false_eq_true, if_false, hcast]
  cases labels with
  | none =>
    simp only [Option.getD_none]
    obtain ⟨a, b, c⟩ := zip3_fst (fs.map (·.1)) ((fs.map (·.1)).map fun _ => (none : Option String))
      (fs.map (·.2)) (by simp) (by simp)
    refine ⟨_, rfl, rfl, rfl, a, ?_, c⟩
    rw [b, List.map_map]; rfl
  | some l =>
    have hll := hlab l rfl
    simp only [List.length_map, hll, if_true, Option.getD_some]
    obtain ⟨a, b, c⟩ := zip3_fst (fs.map (·.1)) l (fs.map (·.2)) (by simp [hll]) (by simp)
    exact ⟨_, rfl, rfl, rfl, a, b, c⟩

/-- component `(i, j)` of field `k` (row-major position `i * dim + j` of its slice) is component
`offset_k + i * dim + j` of the flat array -/
theorem fromData_component (g : GridObj K) (fs : List (FieldClass × List C))
    (hl : ∀ f ∈ fs, f.2.length = numComps g.dim f.1) (k : Nat) (hk : k < fs.length) (i j : Nat) :
    comp2 g.dim (fs[k]).2 i j =
      ((fs.map (·.2)).flatten.drop (((fs.map (·.1)).map (numComps g.dim)).take k).sum)[i * g.dim + j]? ∨
      (fs[k]).2.length ≤ i * g.dim + j := by
  by_cases hlt : i * g.dim + j < (fs[k]).2.length
  · left
    have hlen : (fs.map (·.1)).map (numComps g.dim) = (fs.map (·.2)).map List.length := by
      rw [List.map_map, List.map_map]
      apply List.map_congr_left
      intro f hf
      simp [hl f hf]
    have h1 := splitBy_flatten (fs.map (·.2)) []
    rw [List.append_nil] at h1
    have h2 := splitBy_getElem ((fs.map (·.2)).map List.length) (fs.map (·.2)).flatten k (by simpa using hk)
    rw [h1] at h2
    simp only [List.getElem?_map, List.getElem?_eq_getElem hk, Option.map_some, Option.some.injEq,
      List.getElem_map] at h2
    unfold comp2
    rw [hlen]
    conv_lhs => rw [h2]
    rw [List.getElem?_take_of_lt hlt]
  · right; omega

end

/-! ### 6. regression witnesses -/

section
variable {K : Type} [Field K] [LinearOrder K] [IsStrictOrderedRing K]
variable {C : Type} [Inhabited C]

/-- **C14 / F4** the state function before fix f7b9cbf (outer radius only) maps every annular
cylinder and the full cylinder of the same outer radius to the same state, and `from_state`
answers the full one: the inner radius was lost -/
theorem cyl_state_old_not_injective (ri ro zl zh : K) (nr nz : Nat) (pz : Bool)
    (h0 : 0 < ri) (h1 : ri < ro) (hr : 1 ≤ nr) (hz : 1 ≤ nz) :
    (GridObj.cylindrical ri ro zl zh nr nz pz).Valid ∧ (GridObj.cylindrical 0 ro zl zh nr nz pz).Valid ∧
    GridObj.cylindrical ri ro zl zh nr nz pz ≠ GridObj.cylindrical 0 ro zl zh nr nz pz ∧
    cylStateOld (GridObj.cylindrical ri ro zl zh nr nz pz) =
      cylStateOld (GridObj.cylindrical 0 ro zl zh nr nz pz) ∧
    classFromState .cylindrical (cylStateOld (GridObj.cylindrical ri ro zl zh nr nz pz)) =
      .ok (GridObj.cylindrical 0 ro zl zh nr nz pz) := by
  have hro : (0 : K) < ro := lt_trans h0 h1
  refine ⟨(valid_cylindrical ..).mpr ⟨le_of_lt h0, h1, hr, hz⟩,
    (valid_cylindrical ..).mpr ⟨le_refl _, hro, hr, hz⟩, ?_, rfl, ?_⟩
  · intro h
    injection h with h _
    exact absurd h (ne_of_gt h0)
  · simp [cylStateOld, classFromState, pop, lookup, erase, mkCylindrical, parseRadius,
      parseRadius.checkRadii, checkShape_shapeVal [nr, nz] (by simp) (by simp [hr, hz]), unused, bind,
      Except.bind, pairVal, hro]

/-- no decoder can restore annular cylinders from the old state -/
theorem cyl_state_old_no_decoder :
    ¬ ∃ f : Dict ℚ → GridObj ℚ, ∀ g : GridObj ℚ, g.Valid → f (cylStateOld g) = g := by
  rintro ⟨f, hf⟩
  obtain ⟨v1, v2, hne, heq, _⟩ :=
    cyl_state_old_not_injective (1 : ℚ) 2 0 1 1 1 false (by norm_num) (by norm_num) le_rfl le_rfl
  exact hne (by rw [← hf _ v1, ← hf _ v2, heq])

/-- `num_axes ** rank` and `dim ** rank` differ for every field of rank >= 1 on a grid with
symmetric axes -/
theorem numComps_lt (na dim : Nat) (h : na < dim) (c : FieldClass) (hr : 1 ≤ c.rank) :
    numComps na c < numComps dim c :=
  Nat.pow_lt_pow_left h (by omega)

/-- **C14 / F8** the loop of `from_data` before fix 2bf9c99 (`num_axes ** rank` component arrays
per field) does not reproduce the fields whenever the grid has symmetric axes (`num_axes < dim`)
and a field of rank >= 1 is present: the first such field gets too few arrays (a shorter vector,
or a failing reshape of a tensor) and every later field starts at the wrong offset -/
theorem fromData_numAxes_misplaces (cast : DType → C → C) (na dim : Nat) (hna : na < dim) (dt : DType)
    (fs : List (FieldClass × List C)) (rest : List C)
    (hl : ∀ f ∈ fs, f.2.length = numComps dim f.1) (hr : ∃ f ∈ fs, 1 ≤ f.1.rank) :
    fromDataLoop cast true dim (numComps na) dt (fs.map (·.1)) ((fs.map (·.2)).flatten ++ rest) ≠
      .ok (fs.map (·.2)) := by
  induction fs generalizing rest with
  | nil => obtain ⟨f, hf, _⟩ := hr; simp at hf
  | cons f t ih =>
    have h1 := hl f (by simp)
    simp only [List.map_cons, List.flatten_cons, List.append_assoc, fromDataLoop]
    by_cases hrank : 1 ≤ f.1.rank
    · -- this field gets `na ** rank < dim ** rank` arrays
      have hlt := numComps_lt na dim hna f.1 hrank
      have htake : (f.2 ++ ((t.map (·.2)).flatten ++ rest)).take (numComps na f.1) =
          f.2.take (numComps na f.1) := List.take_append_of_le_length (by omega)
      have hlen : (f.2.take (numComps na f.1)).length = numComps na f.1 := by
        rw [List.length_take]; omega
      rw [htake]
      cases hc : f.1 with
      | scalar => rw [hc] at hrank; simp [FieldClass.rank] at hrank
      | vector =>
        simp only [setField, if_true, bind, Except.bind]
        split
        · intro h; cases h
        · intro h
          injection h with h
          injection h with h _
          have := congrArg List.length h
          rw [hc] at hlen hlt h1
          rw [hlen] at this
          omega
      | tensor2 =>
        have : ¬ ((f.2.take (numComps na .tensor2)).length = dim * dim) := by
          rw [hc] at hlen hlt h1
          rw [hlen]
          simp only [numComps, FieldClass.rank, pow_two] at hlt h1 ⊢
          omega
        simp only [setField, if_true, this, if_false, bind, Except.bind]
        intro h; cases h
    · -- a scalar field: one array either way, the defect is further down the list
      have hs : f.1 = .scalar := by
        cases hc : f.1 <;> simp [hc, FieldClass.rank] at hrank ⊢
      have hn : numComps na f.1 = 1 := by simp [hs, numComps, FieldClass.rank]
      have hd1 : f.2.length = 1 := by rw [h1]; simp [hs, numComps, FieldClass.rank]
      rw [hn, List.take_left' hd1, List.drop_left' hd1]
      have hr' : ∃ g ∈ t, 1 ≤ g.1.rank := by
        obtain ⟨g, hg, hg'⟩ := hr
        rcases List.mem_cons.mp hg with rfl | hg
        · exact absurd hg' hrank
        · exact ⟨g, hg, hg'⟩
      have := ih rest (fun g hg => hl g (by simp [hg])) hr'
      match hf2 : f.2, hd1 with
      | [x], _ =>
        simp only [hs, setField, if_true, bind, Except.bind]
        split
        · intro h; cases h
        · rename_i v hv
          intro h
          injection h with h
          injection h with _ h
          exact this (by rw [hv, h])

/-- **C14 / F8** concrete witness on a polar grid (`num_axes = 1`, `dim = 2`) with a scalar, a
vector, a tensor and a scalar field: the pre-fix function fails (the tensor cannot be reshaped),
the current one returns the eight arrays in place; without ghost cells the pre-fix function
silently fills the vector and the tensor with repeated arrays -/
theorem fromData_symmetric_grid_wrong_slice :
    let g : GridObj ℚ := .polar 0 2 3
    let cls : List FieldClass := [.scalar, .vector, .tensor2, .scalar]
    let id : DType → Nat → Nat := fun _ x => x
    (match fromDataOld id g cls [10, 11, 12, 13, 14, 15, 16, 17] true none none none .f8 with
      | .ok _ => none | .error e => some e) = some Err.valueError ∧
    (match fromData id g cls [10, 11, 12, 13, 14, 15, 16, 17] true none none none .f8 with
      | .ok r => r.fields.map (·.2.2) | .error _ => []) = [[10], [11, 12], [13, 14, 15, 16], [17]] ∧
    (match fromDataOld id g cls [10, 11, 12, 13, 14, 15, 16, 17] false none none none .f8 with
      | .ok r => r.fields.map (·.2.2) | .error _ => []) = [[10], [11, 11], [12, 12, 12, 12], [13]] ∧
    collSlices g.numAxes cls = [(0, 1), (1, 2), (2, 3), (3, 4)] ∧
    collSlices g.dim cls = [(0, 1), (1, 3), (3, 7), (7, 8)] := by
  decide

end

/-! ### 7. serialised attributes of fields and collections -/

section
variable {K : Type} [Field K] [LinearOrder K] [IsStrictOrderedRing K]
variable {D : Type} [Inhabited D]

theorem ofName_name (c : FieldClass) : FieldClass.ofName c.name = some c := by
  cases c <;> decide

theorem ofStr_str (d : DType) : DType.ofStr d.str = some d := by
  cases d <;> decide

/-- the unserialised attributes of a field: the grid rebuilt, the rest decoded -/
def uattrs (a : FieldAttrs K) : UAttrs K :=
  [("class", .val (.str a.cls.name)), ("grid", .grid a.grid), ("label", .val (labelVal a.label)),
   ("dtype", .val (.str a.dtype.str))]

theorem unserializeField_serialized (a : FieldAttrs K) (hg : a.grid.Valid) :
    unserializeField a.serialized = .ok (uattrs a) := by
  obtain ⟨cls, grid, label, dtype⟩ := a
  have hj := grid_json_roundtrip grid hg
  cases cls <;>
    simp [FieldAttrs.serialized, unserializeField, lookup, FieldClass.name, FieldClass.ofName,
      unserializeData, hj, uattrs, bind, Except.bind, Except.map]

theorem fieldFromState_uattrs (cast : DType → D → D) (a : FieldAttrs K) (data : List D) (dd : DType)
    (hd : data.length = dataLen a.cls a.grid) (hc : ∀ x ∈ data, cast a.dtype x = x) :
    fieldFromState cast (uattrs a) (some data) dd = .ok ⟨a, data⟩ := by
  obtain ⟨cls, grid, label, dtype⟩ := a
  have hm : data.map (cast dtype) = data := by
    conv_rhs => rw [← List.map_id data]
    exact List.map_congr_left hc
  cases cls <;> cases label <;>
    simp [fieldFromState, uattrs, pop, lookup, erase, FieldClass.name, FieldClass.ofName, fieldKwargs,
      ofStr_str, labelVal, bind, Except.bind, hd, hm]

theorem fieldFromState_uattrs_none (cast : DType → D → D) (a : FieldAttrs K) (dd : DType) :
    fieldFromState cast (uattrs a) none dd =
      .ok ⟨a, List.replicate (dataLen a.cls a.grid) default⟩ := by
  obtain ⟨cls, grid, label, dtype⟩ := a
  cases cls <;> cases label <;>
    simp [fieldFromState, uattrs, pop, lookup, erase, FieldClass.name, FieldClass.ofName, fieldKwargs,
      ofStr_str, labelVal, bind, Except.bind]

/-- **C14** `attributes_serialized -> unserialize_attributes -> from_state(attributes, data)`
returns the field: same class, grid (with every parameter, by `grid_json_roundtrip`), label, dtype
and data, for every field class, valid grid, label (including `None`) and dtype -/
theorem field_attr_roundtrip (cast : DType → D → D) (f : FieldObj K D) (hg : f.attrs.grid.Valid)
    (hd : f.data.length = dataLen f.attrs.cls f.attrs.grid)
    (hc : ∀ x ∈ f.data, cast f.attrs.dtype x = x) (dd : DType) :
    (do let u ← unserializeField f.attrs.serialized
        fieldFromState cast u (some f.data) dd) = .ok f := by
  rw [unserializeField_serialized f.attrs hg]
  exact fieldFromState_uattrs cast f.attrs f.data dd hd hc

/-- what the property asks of a collection object: at least one field, every member on a valid
grid with data of the right size that conforms to the dtype of the collection, which every member
reports as its own; all grids equal -/
structure CollObj.Valid (cast : DType → D → D) (c : CollObj K D) : Prop where
  nonempty : c.fields ≠ []
  grids : ∀ f ∈ c.fields, f.attrs.grid.Valid
  sizes : ∀ f ∈ c.fields, f.data.length = dataLen f.attrs.cls f.attrs.grid
  dtypes : ∀ f ∈ c.fields, f.attrs.dtype = c.dtype
  conforms : ∀ f ∈ c.fields, ∀ x ∈ f.data, cast c.dtype x = x
  agree : gridsAgree c.fields = true

theorem mapM_unserializeEntry (fs : List (FieldAttrs K)) (hg : ∀ a ∈ fs, a.grid.Valid) :
    (fs.map fun a => (Val.obj a.serialized : Val K)).mapM unserializeEntry = .ok (fs.map uattrs) := by
  induction fs with
  | nil => rfl
  | cons a t ih =>
    simp only [List.map_cons, List.mapM_cons, unserializeEntry,
      unserializeField_serialized a (hg a (by simp)), ih (fun b hb => hg b (by simp [hb]))]
    rfl

theorem mapM_emptyField (cast : DType → D → D) (fs : List (FieldAttrs K)) :
    (fs.map uattrs).mapM (emptyField (D := D) cast) =
      .ok (fs.map fun a => ⟨a, List.replicate (dataLen a.cls a.grid) default⟩) := by
  induction fs with
  | nil => rfl
  | cons a t ih =>
    simp only [List.map_cons, List.mapM_cons, emptyField, fieldFromState_uattrs_none, ih]
    rfl

theorem setData_restore (cast : DType → D → D) (dt : DType) (fs : List (FieldObj K D))
    (h1 : ∀ f ∈ fs, f.attrs.dtype = dt) (h2 : ∀ f ∈ fs, ∀ x ∈ f.data, cast dt x = x) :
    setData cast dt (fs.map fun f => ⟨f.attrs, List.replicate (dataLen f.attrs.cls f.attrs.grid) default⟩)
      (fs.map (·.data)) = fs := by
  induction fs with
  | nil => rfl
  | cons f t ih =>
    simp only [List.map_cons, setData]
    rw [ih (fun g hg => h1 g (by simp [hg])) (fun g hg => h2 g (by simp [hg]))]
    congr 1
    obtain ⟨⟨cls, grid, label, dtype⟩, data⟩ := f
    have e1 : dtype = dt := h1 ⟨⟨cls, grid, label, dtype⟩, data⟩ (by simp)
    have e2 : data.map (cast dt) = data := by
      conv_rhs => rw [← List.map_id data]
      exact List.map_congr_left (h2 ⟨⟨cls, grid, label, dtype⟩, data⟩ (by simp))
    simp [e1, e2]

theorem gridsAgree_attrs (fs : List (FieldObj K D)) (gs : List (FieldObj K D))
    (h : gs.map (·.attrs.grid) = fs.map (·.attrs.grid)) : gridsAgree gs = gridsAgree fs := by
  cases fs with
  | nil => cases gs <;> simp_all [gridsAgree]
  | cons f t =>
    cases gs with
    | nil => simp at h
    | cons g u =>
      simp only [List.map_cons, List.cons.injEq] at h
      simp only [gridsAgree, h.1]
      have : u.all (fun f' => gridEq f.attrs.grid f'.attrs.grid) =
          (u.map (·.attrs.grid)).all (fun x => gridEq f.attrs.grid x) := by
        simp [List.all_map, Function.comp_def]
      rw [this, h.2]
      simp [List.all_map, Function.comp_def]

theorem collKwargs_spec (label : Option String) (dtype : DType) :
    collKwargs ([("label", labelVal label), ("dtype", .str dtype.str)] : Dict K) =
      .ok (some label, some (some dtype)) := by
  cases label <;> simp [collKwargs, labelVal, ofStr_str, bind, Except.bind]

theorem unserializeColl_serialized (a : CollAttrs K) (hg : ∀ f ∈ a.fields, f.grid.Valid) :
    unserializeColl a.serialized =
      .ok ⟨[("class", .str "FieldCollection"), ("label", labelVal a.label), ("dtype", .str a.dtype.str)],
        some (a.fields.map uattrs)⟩ := by
  have h1 : lookup "fields" a.serialized = some (.list (a.fields.map fun f => .obj f.serialized)) := rfl
  have h2 : erase "fields" a.serialized =
      [("class", .str "FieldCollection"), ("label", labelVal a.label), ("dtype", .str a.dtype.str)] := rfl
  unfold unserializeColl
  simp only [h1, h2, mapM_unserializeEntry a.fields hg, bind, Except.bind]

/-- **C14** the serialised attributes of a collection plus its flat data give the collection back:
label, dtype, every member with its class, grid, label (so `labels` is restored) and its own chunk
of the data - for any number of fields (induction over the list), classes, grids and labels -/
theorem collection_attr_roundtrip (cast : DType → D → D) (c : CollObj K D) (hv : c.Valid cast) :
    (do let u ← unserializeColl c.attrs.serialized
        collFromState cast u (some c.data)) = .ok c := by
  obtain ⟨label, dtype, fields⟩ := c
  obtain ⟨hne, hg, hs, hdt, hcf, hag⟩ := hv
  simp only at hne hg hs hdt hcf hag
  have hu := unserializeColl_serialized (K := K) ⟨label, dtype, fields.map (·.attrs)⟩
    (fun a ha => by obtain ⟨f, hf, rfl⟩ := List.mem_map.mp ha; exact hg f hf)
  have he := mapM_emptyField (D := D) cast (fields.map (·.attrs))
  have hz : (fields.map (·.attrs)).map (fun a => (⟨a, List.replicate (dataLen a.cls a.grid) default⟩ : FieldObj K D)) =
      fields.map (fun f => ⟨f.attrs, List.replicate (dataLen f.attrs.cls f.attrs.grid) default⟩) := by
    rw [List.map_map]; rfl
  rw [hz] at he
  generalize hZ : fields.map (fun f => (⟨f.attrs, List.replicate (dataLen f.attrs.cls f.attrs.grid) default⟩ : FieldObj K D)) = Z at he
  have hZe : Z.isEmpty = false := by subst hZ; cases fields <;> simp_all
  have hZa : gridsAgree Z = true := by
    rw [gridsAgree_attrs fields Z (by subst hZ; simp [List.map_map, Function.comp_def])]; exact hag
  have hlens : Z.map (·.data.length) = (fields.map (·.data)).map List.length := by
    subst hZ
    simp only [List.map_map]
    apply List.map_congr_left
    intro f hf
    simp [hs f hf]
  have hsum : (fields.map (·.data)).flatten.length = (Z.map (·.data.length)).foldr (· + ·) 0 := by
    rw [hlens, List.length_flatten, List.sum_eq_foldr]
  have hsplit := splitBy_flatten (fields.map (·.data)) []
  rw [List.append_nil] at hsplit
  have hc1 : lookup "class" ([("class", .str "FieldCollection"), ("label", labelVal label), ("dtype", .str dtype.str)] : Dict K) =
      some (.str "FieldCollection") := rfl
  have hc2 : erase "class" ([("class", .str "FieldCollection"), ("label", labelVal label), ("dtype", .str dtype.str)] : Dict K) =
      [("label", labelVal label), ("dtype", .str dtype.str)] := rfl
  have hres := setData_restore cast dtype fields hdt hcf
  rw [hZ] at hres
  simp only [CollObj.attrs, CollObj.data, hu, bind, Except.bind, collFromState, hc1, hc2, if_true, he,
    collKwargs_spec, hZe, hZa, Bool.false_eq_true, if_false, Bool.not_true, hsum, hlens, hsplit,
    Option.getD_some, hres]

/-- corollary: the labels of the fields come back in order -/
theorem collection_labels_restored (cast : DType → D → D) (c r : CollObj K D) (hv : c.Valid cast)
    (h : (do let u ← unserializeColl c.attrs.serialized
             collFromState cast u (some c.data)) = .ok r) : r.labels = c.labels ∧ r.label = c.label := by
  rw [collection_attr_roundtrip cast c hv] at h
  cases h
  exact ⟨rfl, rfl⟩

end

/-! ### 8. the hypotheses are satisfiable (non-vacuity) -/

/-- an annular cylinder periodic in `z`, a reversed-then-normalised 2-d Cartesian grid, a unit grid,
a disk and a spherical shell are valid objects -/
example : (GridObj.cylindrical (1 : ℚ) 3 0 10 4 5 true).Valid := by norm_num [GridObj.Valid]
example : (GridObj.cartesian [((-1 : ℚ), 2), (0, 1 / 2)] [3, 3] [false, true]).Valid := by
  refine ⟨by simp, rfl, rfl, by simp, ?_⟩
  intro x hx
  simp at hx
  rcases hx with rfl | rfl <;> norm_num
example : (GridObj.unit [4, 2] [true, false] : GridObj ℚ).Valid := by simp [GridObj.Valid]
example : (GridObj.polar (0 : ℚ) 2 3).Valid := by norm_num [GridObj.Valid]
example : (GridObj.spherical (1 / 2 : ℚ) 2 1).Valid := by norm_num [GridObj.Valid]

/-- the hypotheses of `constructed_grid_roundtrips` are satisfiable: the constructors accept an
annular periodic cylinder given with a radius pair and a single shape number, a reversed Cartesian
interval (flipped by `Cuboid`), upper-bounds-only Cartesian bounds with a repeated shape, a unit
grid from an `int`, and a disk from a scalar radius - and return the expected objects -/
example : mkCylindrical (K := ℚ) (.list [.num 1, .num 3]) (.list [.num 0, .num 10]) (.nat 4) (.bool true) =
    .ok (.cylindrical 1 3 0 10 4 4 true) := by rfl
example : (match mkCartesian (K := ℚ) (.list [.list [.num 2, .num (-1)]]) (.nat 3) (.bool false) with
    | .ok (.cartesian b s p) => decide (b = [(-1, 2)] ∧ s = [3] ∧ p = [false])
    | _ => false) = true := by decide +kernel
example : (match mkCartesian (K := ℚ) (.list [.num 2, .num 3, .num (1 / 2)]) (.nat 2)
      (.list [.bool true, .bool true, .bool false]) with
    | .ok (.cartesian b s p) => decide (b = [(0, 2), (0, 3), (0, 1 / 2)] ∧ s = [2, 2, 2] ∧ p = [true, true, false])
    | _ => false) = true := by decide +kernel
example : mkUnit (K := ℚ) (.nat 4) (.bool true) = .ok (.unit [4] [true]) := by rfl
example : mkRadial (K := ℚ) false (.num 2) (.nat 3) = .ok (.polar 0 2 3) := by rfl
/-- ... and reject what the package rejects -/
example : (match mkRadial (K := ℚ) true (.list [.num 2, .num 1]) (.nat 3) with
    | .error e => some e | .ok _ => none) = some Err.valueError := by rfl

/-- the round trip of the annular cylinder, evaluated: the inner radius is in the state (as a pair)
and comes back -/
example : classFromState .cylindrical (GridObj.cylindrical (1 : ℚ) 3 0 10 4 5 true).state =
    .ok (GridObj.cylindrical 1 3 0 10 4 5 true) := by
  have h := grid_state_roundtrip (GridObj.cylindrical (1 : ℚ) 3 0 10 4 5 true) (by norm_num [GridObj.Valid])
  exact h

/-- a full disk is stored with a scalar radius, an annulus with a pair -/
example : radiusVal (0 : ℚ) 2 = .num 2 ∧ radiusVal (1 : ℚ) 2 = .list [.num 1, .num 2] := by
  constructor <;> simp [radiusVal]

/-- `UnitGrid([2])` equals `CartesianGrid([(0, 2)], 2)` in both directions, but not a polar grid
a spherical one -/
example : gridEq (GridObj.unit [2] [false] : GridObj ℚ) (.cartesian [(0, 2)] [2] [false]) = true ∧
    gridEq (GridObj.cartesian [((0 : ℚ), 2)] [2] [false]) (.unit [2] [false]) = true ∧
    gridEq (GridObj.polar (0 : ℚ) 2 3) (.spherical 0 2 3) = false := by
  refine ⟨?_, ?_, ?_⟩ <;> simp [gridEq, subclassOf, GridObj.cls, GridObj.shape, GridObj.axesBounds,
    GridObj.periodic, eqPairs]

/-- a valid collection: a labelled scalar and an unlabelled vector field of dtype float32 on a disk
with two cells (`dim = 2`: the vector has `2 * 2` values), data distinct -/
example : (⟨some "c", .f4,
    [⟨⟨.scalar, .polar (0 : ℚ) 2 2, some "s", .f4⟩, [1, 2]⟩,
     ⟨⟨.vector, .polar (0 : ℚ) 2 2, none, .f4⟩, [3, 4, 5, 6]⟩]⟩ : CollObj ℚ Nat).Valid (fun _ x => x) where
  nonempty := by simp
  grids := by intro f hf; simp at hf; rcases hf with rfl | rfl <;> norm_num [GridObj.Valid]
  sizes := by
    intro f hf; simp at hf
    rcases hf with rfl | rfl <;>
      simp [dataLen, GridObj.dim, GridObj.cls, GridClass.dim, GridObj.numCells, GridObj.shape, FieldClass.rank]
  dtypes := by intro f hf; simp at hf; rcases hf with rfl | rfl <;> rfl
  conforms := by intro f _ x _; rfl
  agree := by simp [gridsAgree, gridEq_refl]

/-- the hypotheses of `collection_fromData_roundtrip` for a scalar/vector/tensor mix on a cylinder
(`dim = 3`): 1 + 3 + 9 component arrays -/
example : ∀ f ∈ ([(.scalar, [0]), (.vector, [1, 2, 3]), (.tensor2, [4, 5, 6, 7, 8, 9, 10, 11, 12])] :
    List (FieldClass × List Nat)),
    f.2.length = numComps (GridObj.cylindrical (1 : ℚ) 3 0 10 4 5 true).dim f.1 := by
  intro f hf
  simp at hf
  rcases hf with rfl | rfl | rfl <;>
    simp [numComps, GridObj.dim, GridObj.cls, GridClass.dim, FieldClass.rank]

end PdeVerif.Serialize
