import PdeVerif.Props.C04
/-
C04 - "in every order", lifted from the single abstract cache to the concrete registries of a process,
and the `solve` clause.

`Model/Cache.lean` section (viii): a process is any number of objects, each with its own
`_cache_methods` dictionary (`procRun`); `PDE._cache` is the instance with one slot per backend name
(`pdeCap`, `solveRun`).  The driver handler `c04.replay_proc` evaluates `procRun` (for the toy instances
of the real decorator AND for real `PDE` objects asked through `evolution_rate` / `make_pde_rhs` /
`solve`) and the harness compares the hit/miss pattern with the real code on every run.

* `proc_sound_of_faithful_on` / `proc_sound_of_faithful`: EVERY history of cached calls and invalidations
  on ANY number of objects, with any capacities per object and method, returns what a computation without
  any cache returns, provided the key of every method is faithful on the admissible requests.
* `proc_object_independent`: the answers an object gives are those of its own events alone
  (`runEvents` on `eventsOf o`): events on other objects never matter - for any key, faithful or not.
* `process_cache_sound`: the concrete process - the cached operator factories (`NumbaBackend.make_operator`
  on the backend singletons, keyed by `opReqKey`) and the cached methods keyed by keyword arguments
  (`make_interpolator` of every field) in one history, every order: fresh results.
* `solveRun_eq_procRun`, `solve_history_independent`: every history of `evolution_rate` / `make_pde_rhs` /
  `solve` requests on any number of `PDE` objects, backends and states returns what a new `PDE` object
  returns, provided the prepared right-hand side is a function of what the slot is validated by;
  `pde_cache_single_slot` (kernel-checked: the slot holds one entry per backend, other backends and other
  objects do not evict it), `solve_stale_of_unfaithful_key` (the hypothesis cannot be dropped).
-/
set_option linter.unusedSimpArgs false
set_option linter.unusedSectionVars false
set_option linter.unusedVariables false

namespace PdeVerif.Cache
open List

section ProcessThms
variable {Req κ V : Type} [DecidableEq κ]

theorem lookup_filter_ne_nat {β : Type} (d : List (Nat × β)) (o o' : Nat) (h : o' ≠ o) :
    (d.filter (fun q => q.1 != o)).lookup o' = d.lookup o' := by
  induction d with
  | nil => rfl
  | cons q d ih =>
    obtain ⟨a, b⟩ := q
    by_cases ha : a = o
    · subst ha
      have : (o' == a) = false := by simpa using h
      simp [List.filter_cons, List.lookup_cons, this, ih]
    · have hne : (a != o) = true := by simpa using ha
      simp only [List.filter_cons, hne, if_true, List.lookup_cons, ih]

theorem Proc.get_set (p : Proc κ V) (o o' : Nat) (m : Methods κ V) :
    (p.set o m).get o' = if o' = o then m else p.get o' := by
  by_cases h : o' = o
  · subst h
    simp [Proc.get, Proc.set, List.lookup_cons]
  · have : (o' == o) = false := by simpa using h
    simp only [Proc.get, Proc.set, List.lookup_cons, this, h, if_false, lookup_filter_ne_nat p o o' h]

/-- every cache of every object of the process satisfies the entry invariant -/
def PInvOn (P : Nat → String → Req → Prop) (key : Nat → String → Req → κ) (sem : Nat → String → Req → V)
    (p : Proc κ V) : Prop :=
  ∀ o, MInvOn (P o) (key o) (sem o) (p.get o)

theorem PInvOn_nil (P : Nat → String → Req → Prop) (key : Nat → String → Req → κ) (sem : Nat → String → Req → V) :
    PInvOn P key sem ([] : Proc κ V) := by
  intro o n
  simp only [Proc.get, List.lookup, methodCache]
  exact CInvOn_nil _ _ _

/-- all cached calls of the history are admissible -/
def ProcOn (P : Nat → String → Req → Prop) : List (Nat × Ev Req) → Prop
  | [] => True
  | (o, .call n r) :: es => P o n r ∧ ProcOn P es
  | (_, .drop) :: es => ProcOn P es

/-- **"In every order", on the concrete registries**: any interleaving of cached calls of any methods of any
number of objects with invalidations of any of them, any capacity per object and method, any initial
contents satisfying the entry invariant: every answer is the freshly computed one, if the key of every
method of every object is faithful on the admissible requests. -/
theorem proc_sound_of_faithful_on (P : Nat → String → Req → Prop) (cap : Nat → String → Option Nat)
    (key : Nat → String → Req → κ) (sem : Nat → String → Req → V)
    (faithful : ∀ o n a b, P o n a → P o n b → key o n a = key o n b → sem o n a = sem o n b) :
    ∀ (es : List (Nat × Ev Req)) (p : Proc κ V), PInvOn P key sem p → ProcOn P es →
      procRun cap key sem p es = procFresh sem es := by
  intro es
  induction es with
  | nil => intro p _ _; rfl
  | cons e es ih =>
    intro p h hP
    obtain ⟨o, e⟩ := e
    cases e with
    | call n r =>
      simp only [ProcOn] at hP
      simp only [procRun, procFresh]
      have hv : (callMethod (cap o n) (key o) (sem o) (p.get o) n r).2 = sem o n r := by
        simp only [callMethod]
        exact call_sound_on (P o n) (cap o n) _ _ (faithful o n) _ r hP.1 (h o n)
      have hinv : PInvOn P key sem (p.set o (callMethod (cap o n) (key o) (sem o) (p.get o) n r).1) := by
        intro o' n'
        rw [Proc.get_set]
        split
        · next heq =>
          subst heq
          simp only [callMethod, methodCache_set]
          split
          · next hn => subst hn; exact call_inv_on (P o' n') (cap o' n') _ _ _ r hP.1 (h o' n')
          · exact h o' n'
        · exact h o' n'
      rw [hv, ih _ hinv hP.2]
    | drop =>
      simp only [ProcOn] at hP
      simp only [procRun, procFresh]
      refine ih _ ?_ hP
      intro o' n'
      rw [Proc.get_set]
      split
      · simp only [methodCache]; exact CInvOn_nil _ _ _
      · exact h o' n'

/-- the same without a restriction of the requests, from the empty process -/
theorem proc_sound_of_faithful (cap : Nat → String → Option Nat)
    (key : Nat → String → Req → κ) (sem : Nat → String → Req → V)
    (faithful : ∀ o n a b, key o n a = key o n b → sem o n a = sem o n b) (es : List (Nat × Ev Req)) :
    procRun cap key sem [] es = procFresh sem es := by
  refine proc_sound_of_faithful_on (fun _ _ _ => True) cap key sem (fun o n a b _ _ => faithful o n a b) es []
    (PInvOn_nil _ key sem) ?_
  induction es with
  | nil => trivial
  | cons e es ih =>
    obtain ⟨o, e⟩ := e
    cases e <;> simp [ProcOn, ih]

/-- the answers of object `o` within a history of the process -/
def answersOf (cap : Nat → String → Option Nat) (key : Nat → String → Req → κ) (sem : Nat → String → Req → V)
    (o : Nat) : Proc κ V → List (Nat × Ev Req) → List V
  | _, [] => []
  | p, (o', .call n r) :: es =>
    let res := callMethod (cap o' n) (key o') (sem o') (p.get o') n r
    if o' = o then res.2 :: answersOf cap key sem o (p.set o' res.1) es
    else answersOf cap key sem o (p.set o' res.1) es
  | p, (o', .drop) :: es => answersOf cap key sem o (p.set o' none) es

/-- the machine of one object with a capacity per method -/
def runEventsCap (cap : String → Option Nat) (key : String → Req → κ) (sem : String → Req → V) :
    Methods κ V → List (Ev Req) → List V
  | _, [] => []
  | m, .call n r :: es =>
    (callMethod (cap n) key sem m n r).2 :: runEventsCap cap key sem (callMethod (cap n) key sem m n r).1 es
  | _, .drop :: es => runEventsCap cap key sem none es

theorem runEventsCap_const (c : Option Nat) (key : String → Req → κ) (sem : String → Req → V) :
    ∀ (es : List (Ev Req)) (m : Methods κ V), runEventsCap (fun _ => c) key sem m es = runEvents c key sem m es := by
  intro es
  induction es with
  | nil => intro m; rfl
  | cons e es ih =>
    intro m
    cases e with
    | call n r => simp only [runEventsCap, runEvents, ih]
    | drop => simp only [runEventsCap, runEvents, ih]

/-- **No interference between objects** (any key derivation, faithful or not): what an object answers in a
history of the process is what it answers to its own events alone. -/
theorem proc_object_independent (cap : Nat → String → Option Nat) (key : Nat → String → Req → κ)
    (sem : Nat → String → Req → V) (o : Nat) :
    ∀ (es : List (Nat × Ev Req)) (p : Proc κ V),
      answersOf cap key sem o p es = runEventsCap (cap o) (key o) (sem o) (p.get o) (eventsOf o es) := by
  intro es
  induction es with
  | nil => intro p; rfl
  | cons e es ih =>
    intro p
    obtain ⟨o', e⟩ := e
    by_cases ho : o' = o
    · subst ho
      cases e with
      | call n r =>
        simp only [answersOf, if_true, eventsOf, List.filter_cons, beq_self_eq_true, List.map_cons, runEventsCap]
        rw [ih, Proc.get_set, if_pos rfl]
        rfl
      | drop =>
        simp only [answersOf, eventsOf, List.filter_cons, beq_self_eq_true, if_true, List.map_cons, runEventsCap]
        rw [ih, Proc.get_set, if_pos rfl]
        rfl
    · have hb : (o' == o) = false := by simpa using ho
      have hne : o ≠ o' := fun h => ho h.symm
      cases e with
      | call n r =>
        simp only [answersOf, if_neg ho, eventsOf, List.filter_cons, hb]
        rw [ih, Proc.get_set, if_neg hne]
        rfl
      | drop =>
        simp only [answersOf, eventsOf, List.filter_cons, hb]
        rw [ih, Proc.get_set, if_neg hne]
        rfl

end ProcessThms

/-! ## the concrete process: operator factories and keyword-keyed helpers in one history -/

/-- a request to a cached method of py-pde: an operator request (`make_operator(grid, operator_info, *, bcs,
dtype, **kwargs)`) or a call with plain keyword arguments (`make_interpolator(**kwargs)`) -/
inductive PReq where
  | op (r : OpReq)
  | kw (kwargs : List (String × PyObj))

/-- the key `_class_cache.wrapper` derives for it (current derivation) -/
def PReq.key : PReq → Key
  | .op r => opReqKey r
  | .kw k => cacheKey [] [] [] k

/-- what the method may depend on -/
inductive PObs where
  | op (o : OpObs)
  | kw (o : String → Option ArgObs)

def PReq.obs : PReq → PObs
  | .op r => .op (opObs r)
  | .kw k => .kw (kwObs k)

/-- admissible: the methods in `ops` are asked with modelled operator requests, all others with modelled
keyword dictionaries -/
def PReq.Ok (ops : List String) (n : String) : PReq → Prop
  | .op r => n ∈ ops ∧ r.Modelled
  | .kw k => n ∉ ops ∧ KwModelled k

/-- **The operator / interpolation clause for every history of a process**: whatever the cached methods build -
as long as it is a function `build` of the object, the method and the observable content of the request -
every interleaving of operator requests to the backends and keyword-keyed requests to fields, with
invalidations, any capacities, in every order, returns what a fresh construction returns. -/
theorem process_cache_sound {V : Type} (ops : List String) (build : Nat → String → PObs → V)
    (cap : Nat → String → Option Nat) (es : List (Nat × Ev PReq))
    (hes : ProcOn (fun _ n r => PReq.Ok ops n r) es) :
    procRun cap (fun _ _ => PReq.key) (fun o n r => build o n r.obs) [] es
      = procFresh (fun o n r => build o n r.obs) es := by
  refine proc_sound_of_faithful_on (fun _ n r => PReq.Ok ops n r) cap _ _ ?_ es [] (PInvOn_nil _ _ _) hes
  intro o n a b ha hb h
  show build o n a.obs = build o n b.obs
  cases a with
  | op ra =>
    cases b with
    | op rb =>
      simp only [PReq.key] at h
      simp only [PReq.obs, opreq_obs_of_key_eq Deriv.cur rfl rfl rfl rfl ra rb ha.2 hb.2 h]
    | kw kb => exact absurd ha.1 hb.1
  | kw ka =>
    cases b with
    | op rb => exact absurd hb.1 ha.1
    | kw kb =>
      simp only [PReq.key] at h
      simp only [PReq.obs, kwargs_obs_of_key_eq Deriv.cur rfl ha.2 hb.2 h]

/-- the hypotheses are satisfiable by a history that mixes both kinds on several objects: the F1 regression pair on
the backend singleton (object 0), an interpolator request on two fields (objects 1, 2), an invalidation in between -/
example : ProcOn (fun _ n r => PReq.Ok ["make_operator"] n r)
    [(0, .call "make_operator" (.op (laplaceReq dirichlet0))), (1, .call "make_interpolator" (.kw [])),
     (1, .drop), (0, .call "make_operator" (.op (laplaceReq neumann0))), (2, .call "make_interpolator" (.kw []))] := by
  have hm : (laplaceReq dirichlet0).Modelled ∧ (laplaceReq neumann0).Modelled := by
    constructor <;> apply laplaceReq_modelled <;> constructor <;> intro n hn <;> simp [dirichlet0, neumann0] at hn
  have hk : KwModelled [] := ⟨by simp, by simp, by simp⟩
  simp only [ProcOn, PReq.Ok]
  exact ⟨⟨by simp, hm.1⟩, ⟨by simp, hk⟩, ⟨by simp, hm.2⟩, ⟨by simp, hk⟩, trivial⟩

/-! ## `PDE._cache` and the `solve` clause -/

section Solve
variable {κ A D R : Type} [DecidableEq κ]

/-- `solveRun` hands every request the slot that `procRun` (the definition the driver evaluates against real
`PDE` objects) hands out, applied to the input of the request -/
theorem solveRun_eq_procRun (key : A → κ) (prepare : Nat → String → A → D → R) :
    ∀ (qs : List (SolveReq A D)) (p : Proc κ (D → R)),
      solveRun key prepare p qs
        = List.zipWith (fun f q => f q.input) (procRun pdeCap (fun _ _ => key) prepare p (solveEvents qs)) qs := by
  intro qs
  induction qs with
  | nil => intro p; rfl
  | cons q qs ih =>
    intro p
    simp only [solveRun, solveEvents, List.map_cons, procRun, List.zipWith_cons_cons]
    rw [ih]
    rfl

/-- **The `solve` / evolution-rate clause for every history**: requests to any number of `PDE` objects, on any
backends, for states with any attributes, in every order - each returns what a new `PDE` object (empty
`_cache`) returns for it, provided the right-hand side prepared for a state is a function of what the slot is
validated by (`key`: the state attributes, the identities and - for compiling backends - contents of the
constants). -/
theorem solve_history_independent (key : A → κ) (prepare : Nat → String → A → D → R)
    (faithful : ∀ o b x y, key x = key y → prepare o b x = prepare o b y) (qs : List (SolveReq A D)) :
    solveRun key prepare [] qs = qs.map (fun q => prepare q.pde q.backend q.attrs q.input) := by
  rw [solveRun_eq_procRun, proc_sound_of_faithful pdeCap (fun _ _ => key) prepare faithful]
  induction qs with
  | nil => rfl
  | cons q qs ih => simp only [solveEvents, List.map_cons, procFresh, List.zipWith_cons_cons] at ih ⊢; rw [ih]

end Solve

/-- the slot of `PDE._cache` (key = attributes, answer = index of the request that prepared the slot):
one entry per backend - `[a, b, a]` on one backend prepares three times, a request on another backend or on
another PDE object in between evicts nothing -/
theorem pde_cache_single_slot :
    procRun (κ := Nat) (V := Nat) pdeCap (fun _ _ r => r.2) (fun _ _ r => r.1) []
        [(0, .call "numpy" (0, 7)), (0, .call "numpy" (1, 8)), (0, .call "numpy" (2, 7))] = [0, 1, 2]
    ∧ procRun (κ := Nat) (V := Nat) pdeCap (fun _ _ r => r.2) (fun _ _ r => r.1) []
        [(0, .call "numpy" (0, 7)), (0, .call "numba" (1, 8)), (1, .call "numpy" (2, 8)), (0, .call "numpy" (3, 7))]
        = [0, 1, 2, 0] := by
  constructor <;> decide +kernel

/-- the hypothesis of `solve_history_independent` cannot be dropped: if two states share the key of the slot but
not the prepared right-hand side, the second request is answered with the right-hand side of the first -/
theorem solve_stale_of_unfaithful_key {κ A D R : Type} [DecidableEq κ] (key : A → κ)
    (prepare : Nat → String → A → D → R) (o : Nat) (b : String) (x y : A) (d : D)
    (hk : key x = key y) (hp : prepare o b x d ≠ prepare o b y d) :
    solveRun key prepare [] [⟨o, b, x, d⟩, ⟨o, b, y, d⟩] = [prepare o b x d, prepare o b x d]
      ∧ solveRun key prepare [] [⟨o, b, x, d⟩, ⟨o, b, y, d⟩]
          ≠ [⟨o, b, x, d⟩, ⟨o, b, y, d⟩].map (fun q : SolveReq A D => prepare q.pde q.backend q.attrs q.input) := by
  have h1 : solveRun key prepare [] [⟨o, b, x, d⟩, ⟨o, b, y, d⟩] = [prepare o b x d, prepare o b x d] := by
    simp [solveRun, callMethod, call, methodCache, setMethodCache, Proc.get, Proc.set, pdeCap, hk, List.lookup]
  refine ⟨h1, ?_⟩
  rw [h1]
  simp only [List.map_cons, List.map_nil]
  intro h
  injection h with _ h2
  injection h2 with h3 _
  exact hp h3

/-- instance of the hypotheses of `solve_stale_of_unfaithful_key` / `solve_history_independent`: a key that forgets
the attribute is not faithful for a preparation that depends on it; the identity key is -/
example : solveRun (κ := Unit) (fun _ : Nat => ()) (fun _ _ (a : Nat) (d : Nat) => a + d) [] [⟨0, "numpy", 1, 5⟩, ⟨0, "numpy", 2, 5⟩]
    = [6, 6] := by decide +kernel

example : solveRun (κ := Nat) (fun a : Nat => a) (fun _ _ (a : Nat) (d : Nat) => a + d) [] [⟨0, "numpy", 1, 5⟩, ⟨0, "numpy", 2, 5⟩,
    ⟨1, "numba", 1, 5⟩, ⟨0, "numpy", 1, 6⟩] = [6, 7, 6, 7] := by decide +kernel

end PdeVerif.Cache
