import PdeVerif.Props.C01
/-
C01 (continued) - polynomial exactness with explicit remainders for the operators that so far had only the
smooth-field bounds (`Props/C01SmoothB.lean`) or the refinement study behind them:

* Cartesian grids with ANY number of axes: Laplacian, gradient, divergence, vector gradient, vector Laplacian,
  tensor divergence (`*_poly_nd`), and their instances on three axes for sampled trivariate fields (`*_poly_3d`);
* hypotheses are on the restrictions of the field to the grid lines through the cell (`QuarticLine`): every
  polynomial of degree <= 4 in each variable separately is covered (all mixed terms).

Hand-written.  All for an arbitrary field `K` of characteristic zero; the model definitions are the ones the
driver `Drv/C01.lean` evaluates against the real kernels (matrix leg of `harness/c01.py`).
-/
set_option linter.unusedSectionVars false
set_option linter.unusedSimpArgs false
set_option linter.unusedVariables false
set_option linter.unusedTactic false
set_option linter.unreachableTactic false
set_option linter.style.multiGoal false
namespace PdeVerif.Stencil
open PdeVerif

section
variable {K : Type} [Field K] [CharZero K]

/-- quartic with the coefficients `c 0 .. c 4` -/
abbrev quartic (c : Nat → K) : K → K := poly4 (c 0) (c 1) (c 2) (c 3) (c 4)
/-- its first derivative -/
abbrev dquartic (c : Nat → K) : K → K := dpoly4 (c 1) (c 2) (c 3) (c 4)
/-- its second derivative -/
abbrev ddquartic (c : Nat → K) : K → K := ddpoly4 (c 2) (c 3) (c 4)

/-- the restriction of the padded array `a` to the grid line through `idx` along array position `pos` is a
sampled quartic: the three stencil points carry `q(ξ - h)`, `q(ξ)`, `q(ξ + h)` -/
structure QuarticLine (a : Arr K) (idx : List Int) (pos : Nat) (h ξ : K) (c : Nat → K) : Prop where
  mid : a idx = quartic c ξ
  up : a (shift idx pos 1) = quartic c (ξ + h)
  dn : a (shift idx pos (-1)) = quartic c (ξ - h)

/-- second difference along a grid line that carries a quartic: `q'' + h²·2 c₄` (`= q'' + h²/12 · q''''`) -/
theorem d2_line_poly (a : Arr K) (idx : List Int) (pos : Nat) (h ξ : K) (c : Nat → K)
    (hq : QuarticLine a idx pos h ξ c) (hh : h ≠ 0) :
    d2 h a idx pos = ddquartic c ξ + h^2 * (2 * c 4) := by
  simp only [d2, hq.mid, hq.up, hq.dn, quartic, ddquartic, poly4, ddpoly4]
  push_cast
  field_simp
  ring

/-- central first difference along a grid line that carries a quartic: `q' + h²·(c₃ + 4 c₄ ξ)`
(`= q' + h²/6 · q'''(ξ)`) -/
theorem d1_central_line_poly (a : Arr K) (idx : List Int) (pos : Nat) (h ξ : K) (c : Nat → K)
    (hq : QuarticLine a idx pos h ξ c) (hh : h ≠ 0) :
    d1 .central h a idx pos = dquartic c ξ + h^2 * (c 3 + 4 * c 4 * ξ) := by
  simp only [d1, hq.up, hq.dn, quartic, dquartic, poly4, dpoly4]
  push_cast
  field_simp
  ring

/-- forward difference: first order, remainder `h·E` -/
theorem d1_forward_line_poly (a : Arr K) (idx : List Int) (pos : Nat) (h ξ : K) (c : Nat → K)
    (hq : QuarticLine a idx pos h ξ c) (hh : h ≠ 0) :
    d1 .forward h a idx pos = dquartic c ξ
      + h * (c 2 + c 3 * h + c 4 * h^2 + 3 * c 3 * ξ + 6 * c 4 * ξ^2 + 4 * c 4 * h * ξ) := by
  simp only [d1, hq.up, hq.mid, quartic, dquartic, poly4, dpoly4]
  field_simp
  ring

/-- backward difference: first order, remainder `h·E` -/
theorem d1_backward_line_poly (a : Arr K) (idx : List Int) (pos : Nat) (h ξ : K) (c : Nat → K)
    (hq : QuarticLine a idx pos h ξ c) (hh : h ≠ 0) :
    d1 .backward h a idx pos = dquartic c ξ
      + h * (-(c 2) + c 3 * h - c 4 * h^2 - 3 * c 3 * ξ - 6 * c 4 * ξ^2 + 4 * c 4 * h * ξ) := by
  simp only [d1, hq.dn, hq.mid, quartic, dquartic, poly4, dpoly4]
  field_simp
  ring

theorem lsum_nil : lsum ([] : List K) = 0 := by simp [lsum]
theorem lsum_cons (x : K) (l : List K) : lsum (x :: l) = x + lsum l := by simp [lsum]

theorem lsum_map_add {ι : Type} (l : List ι) (f g : ι → K) :
    lsum (l.map fun i => f i + g i) = lsum (l.map f) + lsum (l.map g) := by
  induction l with
  | nil => simp [lsum_nil]
  | cons x l ih => simp only [List.map_cons, lsum_cons, ih]; ring

theorem lsum_map_congr {ι : Type} (l : List ι) (f g : ι → K) (hfg : ∀ i ∈ l, f i = g i) :
    lsum (l.map f) = lsum (l.map g) := by
  rw [List.map_congr_left hfg]

/-! ### Cartesian grids with any number of axes -/

/-- **Cartesian Laplacian, any number of axes** (any leading component indices `pre`): if the field is a quartic
along every grid line through the cell (spacing `dxs[ax]`, coordinate `ξ ax`, coefficients `c ax`), the stencil
returns the continuum Laplacian `Σ_ax ∂²_ax f` plus the explicit remainder `Σ_ax dx_ax² · 2 c₄(ax)`
(`= Σ_ax dx_ax²/12 · ∂⁴_ax f`); exact for cubics -/
theorem cartLaplace_poly_nd (dxs : List K) (a : Arr K) (pre sp : List Int) (ξ : Nat → K) (c : Nat → Nat → K)
    (hdx : ∀ ax, ax < dxs.length → dxs.getD ax 1 ≠ 0)
    (hq : ∀ ax, ax < dxs.length → QuarticLine a (pre ++ sp) (pre.length + ax) (dxs.getD ax 1) (ξ ax) (c ax)) :
    cartLaplace dxs a pre sp =
      lsum ((List.range dxs.length).map fun ax => ddquartic (c ax) (ξ ax))
        + lsum ((List.range dxs.length).map fun ax => (dxs.getD ax 1)^2 * (2 * c ax 4)) := by
  rw [← lsum_map_add]
  unfold cartLaplace
  apply lsum_map_congr
  intro ax hax
  have hax' : ax < dxs.length := List.mem_range.mp hax
  have := d2_line_poly a (pre ++ sp) (pre.length + ax) (dxs.getD ax 1) (ξ ax) (c ax) (hq ax hax') (hdx ax hax')
  simpa using this

/-- **Cartesian gradient, any number of axes**, component `k`: `∂_k f + dx_k²·(c₃ + 4 c₄ ξ_k)` -/
theorem cartGradient_poly_nd (dxs : List K) (a : Arr K) (pre sp : List Int) (k : Nat) (ξ : K) (c : Nat → K)
    (hdx : dxs.getD k 1 ≠ 0)
    (hq : QuarticLine a (pre ++ sp) (pre.length + k) (dxs.getD k 1) ξ c) :
    cartGradient .central dxs a pre k sp = dquartic c ξ + (dxs.getD k 1)^2 * (c 3 + 4 * c 4 * ξ) := by
  have := d1_central_line_poly a (pre ++ sp) (pre.length + k) (dxs.getD k 1) ξ c hq hdx
  simpa [cartGradient] using this

/-- one-sided Cartesian gradient, any number of axes: first order, remainder `dx_k·E` -/
theorem cartGradient_onesided_poly_nd (dxs : List K) (a : Arr K) (pre sp : List Int) (k : Nat) (ξ : K) (c : Nat → K)
    (hdx : dxs.getD k 1 ≠ 0)
    (hq : QuarticLine a (pre ++ sp) (pre.length + k) (dxs.getD k 1) ξ c) :
    cartGradient .forward dxs a pre k sp = dquartic c ξ + dxs.getD k 1 *
        (c 2 + c 3 * dxs.getD k 1 + c 4 * (dxs.getD k 1)^2 + 3 * c 3 * ξ + 6 * c 4 * ξ^2 + 4 * c 4 * dxs.getD k 1 * ξ) ∧
    cartGradient .backward dxs a pre k sp = dquartic c ξ + dxs.getD k 1 *
        (-(c 2) + c 3 * dxs.getD k 1 - c 4 * (dxs.getD k 1)^2 - 3 * c 3 * ξ - 6 * c 4 * ξ^2 + 4 * c 4 * dxs.getD k 1 * ξ) := by
  have h1 := d1_forward_line_poly a (pre ++ sp) (pre.length + k) (dxs.getD k 1) ξ c hq hdx
  have h2 := d1_backward_line_poly a (pre ++ sp) (pre.length + k) (dxs.getD k 1) ξ c hq hdx
  constructor
  · simpa [cartGradient] using h1
  · simpa [cartGradient] using h2

/-- **Cartesian divergence, any number of axes**: component `k` of the vector (index `pre ++ [k] ++ sp`) is a
quartic along axis `k`; the stencil returns `Σ_k ∂_k v_k + Σ_k dx_k²·(c₃(k) + 4 c₄(k) ξ_k)`; exact for
quadratics -/
theorem cartDivergence_poly_nd (dxs : List K) (a : Arr K) (pre sp : List Int) (ξ : Nat → K) (c : Nat → Nat → K)
    (hdx : ∀ k, k < dxs.length → dxs.getD k 1 ≠ 0)
    (hq : ∀ k, k < dxs.length →
      QuarticLine a (pre ++ [(k:Int)] ++ sp) (pre.length + 1 + k) (dxs.getD k 1) (ξ k) (c k)) :
    cartDivergence .central dxs a pre sp =
      lsum ((List.range dxs.length).map fun k => dquartic (c k) (ξ k))
        + lsum ((List.range dxs.length).map fun k => (dxs.getD k 1)^2 * (c k 3 + 4 * c k 4 * ξ k)) := by
  rw [← lsum_map_add]
  unfold cartDivergence
  apply lsum_map_congr
  intro k hk
  have hk' : k < dxs.length := List.mem_range.mp hk
  have := d1_central_line_poly a (pre ++ [(k:Int)] ++ sp) (pre.length + 1 + k) (dxs.getD k 1) (ξ k) (c k)
    (hq k hk') (hdx k hk')
  simpa using this

/-- **Cartesian vector gradient, any number of axes**: `out[i, j] = ∂_j v_i + dx_j²·(c₃ + 4 c₄ ξ_j)` -/
theorem cartVectorGradient_poly_nd (dxs : List K) (a : Arr K) (sp : List Int) (i j : Nat) (ξ : K) (c : Nat → K)
    (hdx : dxs.getD j 1 ≠ 0)
    (hq : QuarticLine a ((i:Int) :: sp) (1 + j) (dxs.getD j 1) ξ c) :
    cartVectorGradient .central dxs a i j sp = dquartic c ξ + (dxs.getD j 1)^2 * (c 3 + 4 * c 4 * ξ) := by
  have := cartGradient_poly_nd dxs a [(i:Int)] sp j ξ c hdx (by simpa using hq)
  simpa [cartVectorGradient] using this

/-- **Cartesian vector Laplacian, any number of axes**: `out[i] = Δ v_i + Σ_ax dx_ax²·2 c₄(ax)` -/
theorem cartVectorLaplace_poly_nd (dxs : List K) (a : Arr K) (sp : List Int) (i : Nat) (ξ : Nat → K) (c : Nat → Nat → K)
    (hdx : ∀ ax, ax < dxs.length → dxs.getD ax 1 ≠ 0)
    (hq : ∀ ax, ax < dxs.length → QuarticLine a ((i:Int) :: sp) (1 + ax) (dxs.getD ax 1) (ξ ax) (c ax)) :
    cartVectorLaplace dxs a i sp =
      lsum ((List.range dxs.length).map fun ax => ddquartic (c ax) (ξ ax))
        + lsum ((List.range dxs.length).map fun ax => (dxs.getD ax 1)^2 * (2 * c ax 4)) := by
  have := cartLaplace_poly_nd dxs a [(i:Int)] sp ξ c hdx (by simpa using hq)
  simpa [cartVectorLaplace] using this

/-- **Cartesian tensor divergence, any number of axes**: `out[i] = Σ_j ∂_j T_ij + Σ_j dx_j²·(c₃(j) + 4 c₄(j) ξ_j)` -/
theorem cartTensorDivergence_poly_nd (dxs : List K) (a : Arr K) (sp : List Int) (i : Nat) (ξ : Nat → K) (c : Nat → Nat → K)
    (hdx : ∀ k, k < dxs.length → dxs.getD k 1 ≠ 0)
    (hq : ∀ k, k < dxs.length →
      QuarticLine a ((i:Int) :: (k:Int) :: sp) (2 + k) (dxs.getD k 1) (ξ k) (c k)) :
    cartTensorDivergence .central dxs a i sp =
      lsum ((List.range dxs.length).map fun k => dquartic (c k) (ξ k))
        + lsum ((List.range dxs.length).map fun k => (dxs.getD k 1)^2 * (c k 3 + 4 * c k 4 * ξ k)) := by
  have := cartDivergence_poly_nd dxs a [(i:Int)] sp ξ c hdx (by simpa using hq)
  simpa [cartTensorDivergence] using this

/-! ### three axes: sampled trivariate fields -/

theorem shift_append_right (cs l : List Int) (p : Nat) (d : Int) :
    shift (cs ++ l) (cs.length + p) d = cs ++ shift l p d := by
  simp [shift, List.set_append_right, List.getElem?_append_right]

/-- sampled field on three grid axes, component multi-index first: `a (cs ++ [i, j, m]) = F cs (x0 + i h) (y0 + j k) (z0 + m l)` -/
def sampleF3 (F : List Int → K → K → K → K) (x0 h y0 k z0 l : K) : Arr K :=
  fun idx => F (idx.take (idx.length - 3)) (x0 + ((idx.getD (idx.length - 3) 0 : Int) : K) * h)
    (y0 + ((idx.getD (idx.length - 3 + 1) 0 : Int) : K) * k) (z0 + ((idx.getD (idx.length - 3 + 2) 0 : Int) : K) * l)

theorem sampleF3_app (F : List Int → K → K → K → K) (x0 h y0 k z0 l : K) (cs : List Int) (i j m : Int) :
    sampleF3 F x0 h y0 k z0 l (cs ++ [i, j, m]) = F cs (x0 + (i:K) * h) (y0 + (j:K) * k) (z0 + (m:K) * l) := by
  simp [sampleF3]

/-- a field that is a quartic in `x` along the line through the cell gives a `QuarticLine` of the sampled array -/
theorem quarticLine_x (F : List Int → K → K → K → K) (x0 h y0 k z0 l : K) (cs : List Int) (i j m : Int) (c : Nat → K)
    (hx : ∀ x, F cs x (y0 + (j:K) * k) (z0 + (m:K) * l) = quartic c x) :
    QuarticLine (sampleF3 F x0 h y0 k z0 l) (cs ++ [i, j, m]) (cs.length + 0) h (x0 + (i:K) * h) c := by
  refine ⟨?_, ?_, ?_⟩
  · rw [sampleF3_app, hx]
  · rw [shift_append_right, show shift [i, j, m] 0 1 = [i + 1, j, m] by simp [shift], sampleF3_app, hx]
    congr 1; push_cast; ring
  · rw [shift_append_right, show shift [i, j, m] 0 (-1) = [i + -1, j, m] by simp [shift], sampleF3_app, hx]
    congr 1; push_cast; ring

theorem quarticLine_y (F : List Int → K → K → K → K) (x0 h y0 k z0 l : K) (cs : List Int) (i j m : Int) (c : Nat → K)
    (hy : ∀ y, F cs (x0 + (i:K) * h) y (z0 + (m:K) * l) = quartic c y) :
    QuarticLine (sampleF3 F x0 h y0 k z0 l) (cs ++ [i, j, m]) (cs.length + 1) k (y0 + (j:K) * k) c := by
  refine ⟨?_, ?_, ?_⟩
  · rw [sampleF3_app, hy]
  · rw [shift_append_right, show shift [i, j, m] 1 1 = [i, j + 1, m] by simp [shift], sampleF3_app, hy]
    congr 1; push_cast; ring
  · rw [shift_append_right, show shift [i, j, m] 1 (-1) = [i, j + -1, m] by simp [shift], sampleF3_app, hy]
    congr 1; push_cast; ring

theorem quarticLine_z (F : List Int → K → K → K → K) (x0 h y0 k z0 l : K) (cs : List Int) (i j m : Int) (c : Nat → K)
    (hz : ∀ z, F cs (x0 + (i:K) * h) (y0 + (j:K) * k) z = quartic c z) :
    QuarticLine (sampleF3 F x0 h y0 k z0 l) (cs ++ [i, j, m]) (cs.length + 2) l (z0 + (m:K) * l) c := by
  refine ⟨?_, ?_, ?_⟩
  · rw [sampleF3_app, hz]
  · rw [shift_append_right, show shift [i, j, m] 2 1 = [i, j, m + 1] by simp [shift], sampleF3_app, hz]
    congr 1; push_cast; ring
  · rw [shift_append_right, show shift [i, j, m] 2 (-1) = [i, j, m + -1] by simp [shift], sampleF3_app, hz]
    congr 1; push_cast; ring

/-- selects per axis -/
def ax3 {α : Type} (a b c : α) (ax : Nat) : α := match ax with | 0 => a | 1 => b | _ => c

theorem forall_lt_three (P : Nat → Prop) (h0 : P 0) (h1 : P 1) (h2 : P 2) : ∀ ax, ax < 3 → P ax := by
  intro ax hax
  match ax, hax with
  | 0, _ => exact h0
  | 1, _ => exact h1
  | 2, _ => exact h2
  | n + 3, h => exact absurd h (by omega)

theorem cartLaplace_poly_3d (F : List Int → K → K → K → K) (x0 h y0 k z0 l : K) (cs : List Int) (i j m : Int)
    (ξ η ζ : K) (hξ : ξ = x0 + (i:K) * h) (hη : η = y0 + (j:K) * k) (hζ : ζ = z0 + (m:K) * l)
    (cx cy cz : Nat → K)
    (hx : ∀ x, F cs x η ζ = quartic cx x) (hy : ∀ y, F cs ξ y ζ = quartic cy y) (hz : ∀ z, F cs ξ η z = quartic cz z)
    (hh : h ≠ 0) (hk : k ≠ 0) (hl : l ≠ 0) :
    cartLaplace [h, k, l] (sampleF3 F x0 h y0 k z0 l) cs [i, j, m] =
      (ddquartic cx ξ + ddquartic cy η + ddquartic cz ζ) + (h^2 * (2 * cx 4) + k^2 * (2 * cy 4) + l^2 * (2 * cz 4)) := by
  subst hξ hη hζ
  have := cartLaplace_poly_nd [h, k, l] (sampleF3 F x0 h y0 k z0 l) cs [i, j, m]
    (ax3 (x0 + (i:K) * h) (y0 + (j:K) * k) (z0 + (m:K) * l)) (ax3 cx cy cz)
    (forall_lt_three _ (by simpa) (by simpa) (by simpa))
    (forall_lt_three _ (by simpa [ax3] using quarticLine_x F x0 h y0 k z0 l cs i j m cx hx)
      (by simpa [ax3] using quarticLine_y F x0 h y0 k z0 l cs i j m cy hy)
      (by simpa [ax3] using quarticLine_z F x0 h y0 k z0 l cs i j m cz hz))
  rw [this]
  simp [List.range_succ, lsum, ax3]
  ring

/-- **3-d Cartesian gradient** (components `x, y, z`; `cs` = fixed leading component indices): `∂_a f + dx_a²·(c₃ + 4 c₄ ξ_a)` -/
theorem cartGradient_poly_3d (F : List Int → K → K → K → K) (x0 h y0 k z0 l : K) (cs : List Int) (i j m : Int)
    (ξ η ζ : K) (hξ : ξ = x0 + (i:K) * h) (hη : η = y0 + (j:K) * k) (hζ : ζ = z0 + (m:K) * l)
    (cx cy cz : Nat → K)
    (hx : ∀ x, F cs x η ζ = quartic cx x) (hy : ∀ y, F cs ξ y ζ = quartic cy y) (hz : ∀ z, F cs ξ η z = quartic cz z)
    (hh : h ≠ 0) (hk : k ≠ 0) (hl : l ≠ 0) :
    cartGradient .central [h, k, l] (sampleF3 F x0 h y0 k z0 l) cs 0 [i, j, m] = dquartic cx ξ + h^2 * (cx 3 + 4 * cx 4 * ξ) ∧
    cartGradient .central [h, k, l] (sampleF3 F x0 h y0 k z0 l) cs 1 [i, j, m] = dquartic cy η + k^2 * (cy 3 + 4 * cy 4 * η) ∧
    cartGradient .central [h, k, l] (sampleF3 F x0 h y0 k z0 l) cs 2 [i, j, m] = dquartic cz ζ + l^2 * (cz 3 + 4 * cz 4 * ζ) := by
  subst hξ hη hζ
  refine ⟨?_, ?_, ?_⟩
  · simpa using cartGradient_poly_nd [h, k, l] (sampleF3 F x0 h y0 k z0 l) cs [i, j, m] 0 _ cx (by simpa)
      (by simpa using quarticLine_x F x0 h y0 k z0 l cs i j m cx hx)
  · simpa using cartGradient_poly_nd [h, k, l] (sampleF3 F x0 h y0 k z0 l) cs [i, j, m] 1 _ cy (by simpa)
      (by simpa using quarticLine_y F x0 h y0 k z0 l cs i j m cy hy)
  · simpa using cartGradient_poly_nd [h, k, l] (sampleF3 F x0 h y0 k z0 l) cs [i, j, m] 2 _ cz (by simpa)
      (by simpa using quarticLine_z F x0 h y0 k z0 l cs i j m cz hz)

/-- **3-d Cartesian divergence** of the vector with components `F (cs ++ [0])`, `F (cs ++ [1])`, `F (cs ++ [2])` -/
theorem cartDivergence_poly_3d (F : List Int → K → K → K → K) (x0 h y0 k z0 l : K) (cs : List Int) (i j m : Int)
    (ξ η ζ : K) (hξ : ξ = x0 + (i:K) * h) (hη : η = y0 + (j:K) * k) (hζ : ζ = z0 + (m:K) * l)
    (cx cy cz : Nat → K)
    (hx : ∀ x, F (cs ++ [0]) x η ζ = quartic cx x) (hy : ∀ y, F (cs ++ [1]) ξ y ζ = quartic cy y)
    (hz : ∀ z, F (cs ++ [2]) ξ η z = quartic cz z)
    (hh : h ≠ 0) (hk : k ≠ 0) (hl : l ≠ 0) :
    cartDivergence .central [h, k, l] (sampleF3 F x0 h y0 k z0 l) cs [i, j, m] =
      (dquartic cx ξ + dquartic cy η + dquartic cz ζ)
        + (h^2 * (cx 3 + 4 * cx 4 * ξ) + k^2 * (cy 3 + 4 * cy 4 * η) + l^2 * (cz 3 + 4 * cz 4 * ζ)) := by
  subst hξ hη hζ
  have := cartDivergence_poly_nd [h, k, l] (sampleF3 F x0 h y0 k z0 l) cs [i, j, m]
    (ax3 (x0 + (i:K) * h) (y0 + (j:K) * k) (z0 + (m:K) * l)) (ax3 cx cy cz)
    (forall_lt_three _ (by simpa) (by simpa) (by simpa))
    (forall_lt_three _ (by simpa [ax3] using quarticLine_x F x0 h y0 k z0 l (cs ++ [0]) i j m cx hx)
      (by simpa [ax3] using quarticLine_y F x0 h y0 k z0 l (cs ++ [1]) i j m cy hy)
      (by simpa [ax3] using quarticLine_z F x0 h y0 k z0 l (cs ++ [2]) i j m cz hz))
  rw [this]
  simp [List.range_succ, lsum, ax3]
  ring

/-- **3-d Cartesian vector gradient**, every component index `p`: `out[p, a] = ∂_a v_p + dx_a²·(c₃ + 4 c₄ ξ_a)` -/
theorem cartVectorGradient_poly_3d (F : List Int → K → K → K → K) (x0 h y0 k z0 l : K) (p : Nat) (i j m : Int)
    (ξ η ζ : K) (hξ : ξ = x0 + (i:K) * h) (hη : η = y0 + (j:K) * k) (hζ : ζ = z0 + (m:K) * l)
    (cx cy cz : Nat → K)
    (hx : ∀ x, F [(p:Int)] x η ζ = quartic cx x) (hy : ∀ y, F [(p:Int)] ξ y ζ = quartic cy y)
    (hz : ∀ z, F [(p:Int)] ξ η z = quartic cz z)
    (hh : h ≠ 0) (hk : k ≠ 0) (hl : l ≠ 0) :
    cartVectorGradient .central [h, k, l] (sampleF3 F x0 h y0 k z0 l) p 0 [i, j, m] = dquartic cx ξ + h^2 * (cx 3 + 4 * cx 4 * ξ) ∧
    cartVectorGradient .central [h, k, l] (sampleF3 F x0 h y0 k z0 l) p 1 [i, j, m] = dquartic cy η + k^2 * (cy 3 + 4 * cy 4 * η) ∧
    cartVectorGradient .central [h, k, l] (sampleF3 F x0 h y0 k z0 l) p 2 [i, j, m] = dquartic cz ζ + l^2 * (cz 3 + 4 * cz 4 * ζ) :=
  cartGradient_poly_3d F x0 h y0 k z0 l [(p:Int)] i j m ξ η ζ hξ hη hζ cx cy cz hx hy hz hh hk hl

/-- **3-d Cartesian vector Laplacian**, every component index `p`: `out[p] = Δ v_p + Σ_a dx_a²·2 c₄(a)` -/
theorem cartVectorLaplace_poly_3d (F : List Int → K → K → K → K) (x0 h y0 k z0 l : K) (p : Nat) (i j m : Int)
    (ξ η ζ : K) (hξ : ξ = x0 + (i:K) * h) (hη : η = y0 + (j:K) * k) (hζ : ζ = z0 + (m:K) * l)
    (cx cy cz : Nat → K)
    (hx : ∀ x, F [(p:Int)] x η ζ = quartic cx x) (hy : ∀ y, F [(p:Int)] ξ y ζ = quartic cy y)
    (hz : ∀ z, F [(p:Int)] ξ η z = quartic cz z)
    (hh : h ≠ 0) (hk : k ≠ 0) (hl : l ≠ 0) :
    cartVectorLaplace [h, k, l] (sampleF3 F x0 h y0 k z0 l) p [i, j, m] =
      (ddquartic cx ξ + ddquartic cy η + ddquartic cz ζ) + (h^2 * (2 * cx 4) + k^2 * (2 * cy 4) + l^2 * (2 * cz 4)) :=
  cartLaplace_poly_3d F x0 h y0 k z0 l [(p:Int)] i j m ξ η ζ hξ hη hζ cx cy cz hx hy hz hh hk hl

/-- **3-d Cartesian tensor divergence**, every component index `p`: `out[p] = Σ_a ∂_a T_pa + Σ_a dx_a²·(c₃(a) + 4 c₄(a) ξ_a)` -/
theorem cartTensorDivergence_poly_3d (F : List Int → K → K → K → K) (x0 h y0 k z0 l : K) (p : Nat) (i j m : Int)
    (ξ η ζ : K) (hξ : ξ = x0 + (i:K) * h) (hη : η = y0 + (j:K) * k) (hζ : ζ = z0 + (m:K) * l)
    (cx cy cz : Nat → K)
    (hx : ∀ x, F [(p:Int), 0] x η ζ = quartic cx x) (hy : ∀ y, F [(p:Int), 1] ξ y ζ = quartic cy y)
    (hz : ∀ z, F [(p:Int), 2] ξ η z = quartic cz z)
    (hh : h ≠ 0) (hk : k ≠ 0) (hl : l ≠ 0) :
    cartTensorDivergence .central [h, k, l] (sampleF3 F x0 h y0 k z0 l) p [i, j, m] =
      (dquartic cx ξ + dquartic cy η + dquartic cz ζ)
        + (h^2 * (cx 3 + 4 * cx 4 * ξ) + k^2 * (cy 3 + 4 * cy 4 * η) + l^2 * (cz 3 + 4 * cz 4 * ζ)) :=
  cartDivergence_poly_3d F x0 h y0 k z0 l [(p:Int)] i j m ξ η ζ hξ hη hζ cx cy cz hx hy hz hh hk hl

/-- coefficient function from five values -/
def coef5 (a0 a1 a2 a3 a4 : K) (n : Nat) : K :=
  match n with | 0 => a0 | 1 => a1 | 2 => a2 | 3 => a3 | 4 => a4 | _ => 0

/-- instance with symbolic coefficients and mixed terms: for
`f = A(x) + B(y) + C(z) + m₁xy + m₂yz + m₃xz + q·xyz + n₁x²y² + n₂y²z² + n₃x²z² + w·x⁴yz` (`A, B, C` quartics) the
5+2-point stencil returns `Δf + h²·(2 a₄ + 2 w η ζ) + k²·2 b₄ + l²·2 c₄` - the remainder `Σ dx²/12 ∂⁴f` with the
position dependent fourth derivative `∂ₓ⁴f = 24 (a₄ + w y z)` -/
theorem cartLaplace_poly_3d_mixed (x0 h y0 k z0 l a0 a1 a2 a3 a4 b0 b1 b2 b3 b4 c0 c1 c2 c3 c4 m1 m2 m3 q n1 n2 n3 w : K)
    (i j m : Int) (ξ η ζ : K) (hξ : ξ = x0 + (i:K) * h) (hη : η = y0 + (j:K) * k) (hζ : ζ = z0 + (m:K) * l)
    (hh : h ≠ 0) (hk : k ≠ 0) (hl : l ≠ 0) :
    cartLaplace [h, k, l] (sampleF3 (fun _ x y z => poly4 a0 a1 a2 a3 a4 x + poly4 b0 b1 b2 b3 b4 y + poly4 c0 c1 c2 c3 c4 z
        + m1*x*y + m2*y*z + m3*x*z + q*x*y*z + n1*x^2*y^2 + n2*y^2*z^2 + n3*x^2*z^2 + w*x^4*y*z) x0 h y0 k z0 l) [] [i, j, m] =
      (ddpoly4 a2 a3 a4 ξ + 2*n1*η^2 + 2*n3*ζ^2 + 12*w*ξ^2*η*ζ)
        + (ddpoly4 b2 b3 b4 η + 2*n1*ξ^2 + 2*n2*ζ^2) + (ddpoly4 c2 c3 c4 ζ + 2*n2*η^2 + 2*n3*ξ^2)
        + (h^2 * (2*a4 + 2*w*η*ζ) + k^2 * (2*b4) + l^2 * (2*c4)) := by
  rw [cartLaplace_poly_3d _ x0 h y0 k z0 l [] i j m ξ η ζ hξ hη hζ
    (coef5 (a0 + poly4 b0 b1 b2 b3 b4 η + poly4 c0 c1 c2 c3 c4 ζ + m2*η*ζ + n2*η^2*ζ^2) (a1 + m1*η + m3*ζ + q*η*ζ)
      (a2 + n1*η^2 + n3*ζ^2) a3 (a4 + w*η*ζ))
    (coef5 (b0 + poly4 a0 a1 a2 a3 a4 ξ + poly4 c0 c1 c2 c3 c4 ζ + m3*ξ*ζ + n3*ξ^2*ζ^2 ) (b1 + m1*ξ + m2*ζ + q*ξ*ζ + w*ξ^4*ζ)
      (b2 + n1*ξ^2 + n2*ζ^2) b3 b4)
    (coef5 (c0 + poly4 a0 a1 a2 a3 a4 ξ + poly4 b0 b1 b2 b3 b4 η + m1*ξ*η + n1*ξ^2*η^2) (c1 + m2*η + m3*ξ + q*ξ*η + w*ξ^4*η)
      (c2 + n2*η^2 + n3*ξ^2) c3 c4)
    (by intro x; simp only [quartic, coef5, poly4]; ring) (by intro y; simp only [quartic, coef5, poly4]; ring)
    (by intro z; simp only [quartic, coef5, poly4]; ring) hh hk hl]
  simp only [ddquartic, coef5, ddpoly4]
  ring

/-- non-vacuity of the tensor-divergence statement: a concrete tensor field with mixed terms on a concrete
anisotropic lattice over `ℚ` -/
example : cartTensorDivergence .central [(1/2 : ℚ), 1/4, 2]
    (sampleF3 (fun cs x y z => if cs = [1, 0] then x^3 * y + z else if cs = [1, 1] then x * y^4 - y^2 * z else if cs = [1, 2] then z^3 + x * y * z else 7)
      1 (1/2) 0 (1/4) (-1) 2) 1 [2, 4, 1]
    = (12 + 6 + 5) + ((1/2)^2 * 1 + (1/4)^2 * 8 + 2^2 * 1) := by
  rw [cartTensorDivergence_poly_3d _ 1 (1/2) 0 (1/4) (-1) 2 1 2 4 1 2 1 1 (by norm_num) (by norm_num) (by norm_num)
    (coef5 1 0 0 1 0) (coef5 0 0 (-1) 0 2) (coef5 0 2 0 1 0)
    (by intro x; simp [quartic, coef5, poly4]; ring) (by intro y; simp [quartic, coef5, poly4]; ring)
    (by intro z; simp [quartic, coef5, poly4]; ring) (by norm_num) (by norm_num) (by norm_num)]
  simp [dquartic, coef5, dpoly4]
  norm_num

/-- **one-sided Cartesian divergence, any number of axes** (`forward`): first order, remainder `Σ_k dx_k·E_k` -/
theorem cartDivergence_forward_poly_nd (dxs : List K) (a : Arr K) (pre sp : List Int) (ξ : Nat → K) (c : Nat → Nat → K)
    (hdx : ∀ k, k < dxs.length → dxs.getD k 1 ≠ 0)
    (hq : ∀ k, k < dxs.length →
      QuarticLine a (pre ++ [(k:Int)] ++ sp) (pre.length + 1 + k) (dxs.getD k 1) (ξ k) (c k)) :
    cartDivergence .forward dxs a pre sp =
      lsum ((List.range dxs.length).map fun k => dquartic (c k) (ξ k))
        + lsum ((List.range dxs.length).map fun k => dxs.getD k 1 *
            (c k 2 + c k 3 * dxs.getD k 1 + c k 4 * (dxs.getD k 1)^2 + 3 * c k 3 * ξ k + 6 * c k 4 * (ξ k)^2
              + 4 * c k 4 * dxs.getD k 1 * ξ k)) := by
  rw [← lsum_map_add]
  unfold cartDivergence
  apply lsum_map_congr
  intro k hk
  have hk' : k < dxs.length := List.mem_range.mp hk
  have := d1_forward_line_poly a (pre ++ [(k:Int)] ++ sp) (pre.length + 1 + k) (dxs.getD k 1) (ξ k) (c k)
    (hq k hk') (hdx k hk')
  simpa using this

/-- **one-sided Cartesian divergence, any number of axes** (`backward`) -/
theorem cartDivergence_backward_poly_nd (dxs : List K) (a : Arr K) (pre sp : List Int) (ξ : Nat → K) (c : Nat → Nat → K)
    (hdx : ∀ k, k < dxs.length → dxs.getD k 1 ≠ 0)
    (hq : ∀ k, k < dxs.length →
      QuarticLine a (pre ++ [(k:Int)] ++ sp) (pre.length + 1 + k) (dxs.getD k 1) (ξ k) (c k)) :
    cartDivergence .backward dxs a pre sp =
      lsum ((List.range dxs.length).map fun k => dquartic (c k) (ξ k))
        + lsum ((List.range dxs.length).map fun k => dxs.getD k 1 *
            (-(c k 2) + c k 3 * dxs.getD k 1 - c k 4 * (dxs.getD k 1)^2 - 3 * c k 3 * ξ k - 6 * c k 4 * (ξ k)^2
              + 4 * c k 4 * dxs.getD k 1 * ξ k)) := by
  rw [← lsum_map_add]
  unfold cartDivergence
  apply lsum_map_congr
  intro k hk
  have hk' : k < dxs.length := List.mem_range.mp hk
  have := d1_backward_line_poly a (pre ++ [(k:Int)] ++ sp) (pre.length + 1 + k) (dxs.getD k 1) (ξ k) (c k)
    (hq k hk') (hdx k hk')
  simpa using this

/-- the one- and two-axis grids are instances of the `_nd` theorems: 2-d divergence of a sampled vector field
(`sample` = `sampleV2` of `Props/C01.lean`) with mixed terms -/
example (x0 h z0 k a0 a1 a2 a3 a4 b0 b1 b2 b3 b4 s t : K) (i j : Int) (hh : h ≠ 0) (hk : k ≠ 0) :
    cartDivergence .central [h, k] (sampleV2 (fun c x y => if c = 0 then poly4 a0 a1 a2 a3 a4 x + s*x^2*y else poly4 b0 b1 b2 b3 b4 y + t*x*y^3) x0 h z0 k) [] [i, j]
      = (dpoly4 a1 a2 a3 a4 (x0 + (i:K)*h) + 2*s*(x0 + (i:K)*h)*(z0 + (j:K)*k))
        + (dpoly4 b1 b2 b3 b4 (z0 + (j:K)*k) + 3*t*(x0 + (i:K)*h)*(z0 + (j:K)*k)^2)
        + (h^2 * (a3 + 4*a4*(x0 + (i:K)*h)) + k^2 * ((b3 + t*(x0 + (i:K)*h)) + 4*b4*(z0 + (j:K)*k))) := by
  have := cartDivergence_poly_nd [h, k] (sampleV2 (fun c x y => if c = 0 then poly4 a0 a1 a2 a3 a4 x + s*x^2*y else poly4 b0 b1 b2 b3 b4 y + t*x*y^3) x0 h z0 k) [] [i, j]
    (fun ax => if ax = 0 then x0 + (i:K)*h else z0 + (j:K)*k)
    (fun ax => if ax = 0 then coef5 a0 a1 (a2 + s*(z0 + (j:K)*k)) a3 a4 else coef5 b0 b1 b2 (b3 + t*(x0 + (i:K)*h)) b4)
    (by intro ax hax
        match ax, hax with
        | 0, _ => simpa
        | 1, _ => simpa
        | n + 2, h => exact absurd h (by simp))
    (by intro ax hax
        match ax, hax with
        | 0, _ =>
          refine ⟨?_, ?_, ?_⟩ <;>
            simp [sampleV2, shift, quartic, coef5, poly4] <;> push_cast <;> ring
        | 1, _ =>
          refine ⟨?_, ?_, ?_⟩ <;>
            simp [sampleV2, shift, quartic, coef5, poly4] <;> push_cast <;> ring
        | n + 2, h => exact absurd h (by simp))
  rw [this]
  simp [List.range_succ, lsum, dquartic, coef5, dpoly4]
  ring


/-! ### cylindrical grid: axes `(r, z)`, components `(r, z, φ)` -/

/-- central first difference quotient of a function -/
def Dc (f : K → K) (x h : K) : K := (f (x + h) - f (x - h)) / (2 * h)
/-- second difference quotient of a function -/
def DD (f : K → K) (x h : K) : K := (f (x + h) - 2 * f x + f (x - h)) / (h * h)

theorem Dc_quartic (f : K → K) (c : Nat → K) (hf : ∀ x, f x = quartic c x) (x h : K) (hh : h ≠ 0) :
    Dc f x h = dquartic c x + h^2 * (c 3 + 4 * c 4 * x) := by
  simp only [Dc, hf, quartic, dquartic, poly4, dpoly4]
  field_simp
  ring

theorem DD_quartic (f : K → K) (c : Nat → K) (hf : ∀ x, f x = quartic c x) (x h : K) (hh : h ≠ 0) :
    DD f x h = ddquartic c x + h^2 * (2 * c 4) := by
  simp only [DD, hf, quartic, ddquartic, poly4, ddpoly4]
  field_simp
  ring

/-- sampled field on two grid axes `(r, z)`, component multi-index first -/
def sampleF2 (F : List Int → K → K → K) (x0 h z0 k : K) : Arr K :=
  fun idx => F (idx.take (idx.length - 2)) (x0 + ((idx.getD (idx.length - 2) 0 : Int) : K) * h)
    (z0 + ((idx.getD (idx.length - 2 + 1) 0 : Int) : K) * k)
theorem sampleF2_s (F : List Int → K → K → K) (x0 h z0 k : K) (i j : Int) :
    sampleF2 F x0 h z0 k [i, j] = F [] (x0 + (i:K) * h) (z0 + (j:K) * k) := rfl
theorem sampleF2_v (F : List Int → K → K → K) (x0 h z0 k : K) (c i j : Int) :
    sampleF2 F x0 h z0 k [c, i, j] = F [c] (x0 + (i:K) * h) (z0 + (j:K) * k) := rfl
theorem sampleF2_t (F : List Int → K → K → K) (x0 h z0 k : K) (p q i j : Int) :
    sampleF2 F x0 h z0 k [p, q, i, j] = F [p, q] (x0 + (i:K) * h) (z0 + (j:K) * k) := rfl

/-- proves `stencil = combination of difference quotients of the restrictions to the grid lines` -/
macro "atoms_split" "[" ds:Lean.Parser.Tactic.simpLemma,* "]" "[" es:Lean.Parser.Tactic.simpLemma,* "]" : tactic =>
  `(tactic| (simp only [$ds,*, Dc, DD] <;> push_cast <;> (try simp only [$es,*]) <;>
      (first | done | ring1 | (field_simp; ring1) | field_simp)))

/-- **cylindrical gradient** (components `(r, z, φ)`): `∂_r f + h²(c₃ + 4c₄ρ)`, `∂_z f + k²(c₃ + 4c₄ζ)`, `0`; no
division by the radius: second order uniformly over all cells including those at the axis -/
theorem cylGradient_poly (F : List Int → K → K → K) (x0 h z0 k : K) (i j : Int) (ρ ζ : K)
    (hρ : ρ = x0 + (i:K) * h) (hζ : ζ = z0 + (j:K) * k) (cr cz : Nat → K)
    (hr : ∀ r, F [] r ζ = quartic cr r) (hz : ∀ z, F [] ρ z = quartic cz z) (hh : h ≠ 0) (hk : k ≠ 0) :
    cylGradient h k (sampleF2 F x0 h z0 k) 0 i j = dquartic cr ρ + h^2 * (cr 3 + 4 * cr 4 * ρ) ∧
    cylGradient h k (sampleF2 F x0 h z0 k) 1 i j = dquartic cz ζ + k^2 * (cz 3 + 4 * cz 4 * ζ) ∧
    cylGradient h k (sampleF2 F x0 h z0 k) 2 i j = 0 := by
  have e0i : x0 + (i:K) * h = ρ := hρ.symm
  have e1i : x0 + ((i:K) + 1) * h = ρ + h := by rw [hρ]; ring
  have e2i : x0 + ((i:K) - 1) * h = ρ - h := by rw [hρ]; ring
  have e0j : z0 + (j:K) * k = ζ := hζ.symm
  have e1j : z0 + ((j:K) + 1) * k = ζ + k := by rw [hζ]; ring
  have e2j : z0 + ((j:K) - 1) * k = ζ - k := by rw [hζ]; ring
  refine ⟨?_, ?_, ?_⟩
  · have split : cylGradient h k (sampleF2 F x0 h z0 k) 0 i j = Dc (fun r => F [] r ζ) ρ h := by
      atoms_split [cylGradient, sampleF2_s] [e0i, e1i, e2i, e0j, e1j, e2j]
    rw [split, Dc_quartic _ cr hr ρ h hh]
  · have split : cylGradient h k (sampleF2 F x0 h z0 k) 1 i j = Dc (F [] ρ) ζ k := by
      atoms_split [cylGradient, sampleF2_s] [e0i, e1i, e2i, e0j, e1j, e2j]
    rw [split, Dc_quartic _ cz hz ζ k hk]
  · simp [cylGradient]

/-- **cylindrical vector gradient**, all nine components (`out[a, b]`, components `(r, z, φ)`, derivative index last):
six central differences with remainders `h²(c₃ + 4c₄ρ)` / `k²(c₃ + 4c₄ζ)`, and `rφ = -v_φ/ρ`, `zφ = 0`, `φφ = v_r/ρ`
exactly (for any field) - no remainder is divided by the radius: uniform over all cells including those at the axis -/
theorem cylVectorGradient_poly (F : List Int → K → K → K) (x0 h z0 k : K) (i j : Int) (ρ ζ : K)
    (hρ : ρ = x0 + (i:K) * h) (hζ : ζ = z0 + (j:K) * k) (cr cz : Int → Nat → K)
    (hr : ∀ c r, F [c] r ζ = quartic (cr c) r) (hz : ∀ c z, F [c] ρ z = quartic (cz c) z) (hh : h ≠ 0) (hk : k ≠ 0) :
    (∀ c : Nat, c < 3 → cylVectorGradient (fun n => x0 + (n:K) * h) h k (sampleF2 F x0 h z0 k) c 0 i j
        = dquartic (cr c) ρ + h^2 * (cr c 3 + 4 * cr c 4 * ρ)) ∧
    (∀ c : Nat, c < 3 → cylVectorGradient (fun n => x0 + (n:K) * h) h k (sampleF2 F x0 h z0 k) c 1 i j
        = dquartic (cz c) ζ + k^2 * (cz c 3 + 4 * cz c 4 * ζ)) ∧
    cylVectorGradient (fun n => x0 + (n:K) * h) h k (sampleF2 F x0 h z0 k) 0 2 i j = -(F [2] ρ ζ) / ρ ∧
    cylVectorGradient (fun n => x0 + (n:K) * h) h k (sampleF2 F x0 h z0 k) 1 2 i j = 0 ∧
    cylVectorGradient (fun n => x0 + (n:K) * h) h k (sampleF2 F x0 h z0 k) 2 2 i j = F [0] ρ ζ / ρ := by
  have e0i : x0 + (i:K) * h = ρ := hρ.symm
  have e1i : x0 + ((i:K) + 1) * h = ρ + h := by rw [hρ]; ring
  have e2i : x0 + ((i:K) - 1) * h = ρ - h := by rw [hρ]; ring
  have e0j : z0 + (j:K) * k = ζ := hζ.symm
  have e1j : z0 + ((j:K) + 1) * k = ζ + k := by rw [hζ]; ring
  have e2j : z0 + ((j:K) - 1) * k = ζ - k := by rw [hζ]; ring
  refine ⟨?_, ?_, ?_, ?_, ?_⟩
  · refine forall_lt_three _ ?_ ?_ ?_ <;> simp only [Nat.cast_zero, Nat.cast_one, Nat.cast_ofNat]
    · have split : cylVectorGradient (fun n => x0 + (n:K) * h) h k (sampleF2 F x0 h z0 k) 0 0 i j = Dc (fun r => F [0] r ζ) ρ h := by
        atoms_split [cylVectorGradient, sampleF2_v] [e0i, e1i, e2i, e0j, e1j, e2j]
      rw [split, Dc_quartic _ (cr 0) (hr 0) ρ h hh]
    · have split : cylVectorGradient (fun n => x0 + (n:K) * h) h k (sampleF2 F x0 h z0 k) 1 0 i j = Dc (fun r => F [1] r ζ) ρ h := by
        atoms_split [cylVectorGradient, sampleF2_v] [e0i, e1i, e2i, e0j, e1j, e2j]
      rw [split, Dc_quartic _ (cr 1) (hr 1) ρ h hh]
    · have split : cylVectorGradient (fun n => x0 + (n:K) * h) h k (sampleF2 F x0 h z0 k) 2 0 i j = Dc (fun r => F [2] r ζ) ρ h := by
        atoms_split [cylVectorGradient, sampleF2_v] [e0i, e1i, e2i, e0j, e1j, e2j]
      rw [split, Dc_quartic _ (cr 2) (hr 2) ρ h hh]
  · refine forall_lt_three _ ?_ ?_ ?_ <;> simp only [Nat.cast_zero, Nat.cast_one, Nat.cast_ofNat]
    · have split : cylVectorGradient (fun n => x0 + (n:K) * h) h k (sampleF2 F x0 h z0 k) 0 1 i j = Dc (F [0] ρ) ζ k := by
        atoms_split [cylVectorGradient, sampleF2_v] [e0i, e1i, e2i, e0j, e1j, e2j]
      rw [split, Dc_quartic _ (cz 0) (hz 0) ζ k hk]
    · have split : cylVectorGradient (fun n => x0 + (n:K) * h) h k (sampleF2 F x0 h z0 k) 1 1 i j = Dc (F [1] ρ) ζ k := by
        atoms_split [cylVectorGradient, sampleF2_v] [e0i, e1i, e2i, e0j, e1j, e2j]
      rw [split, Dc_quartic _ (cz 1) (hz 1) ζ k hk]
    · have split : cylVectorGradient (fun n => x0 + (n:K) * h) h k (sampleF2 F x0 h z0 k) 2 1 i j = Dc (F [2] ρ) ζ k := by
        atoms_split [cylVectorGradient, sampleF2_v] [e0i, e1i, e2i, e0j, e1j, e2j]
      rw [split, Dc_quartic _ (cz 2) (hz 2) ζ k hk]
  · simp only [cylVectorGradient, sampleF2_v, e0i, e0j]
  · simp [cylVectorGradient]
  · simp only [cylVectorGradient, sampleF2_v, e0i, e0j]

/-- **cylindrical tensor divergence**, components `(r, z, φ)`:
`r`: `∂_z T_rz + ∂_r T_rr + (T_rr - T_φφ)/ρ`, `z`: `∂_z T_zz + ∂_r T_zr + T_zr/ρ`, `φ`: `∂_z T_φz + ∂_r T_φr + (T_rφ + T_φr)/ρ`,
each with the remainder `k²(c₃ + 4c₄ζ) + h²(c₃ + 4c₄ρ)` of the two central differences; the curvature terms are
exact, so no remainder is divided by the radius: second order uniformly over all cells including those at the axis -/
theorem cylTensorDivergence_poly (F : List Int → K → K → K) (x0 h z0 k : K) (i j : Int) (ρ ζ : K)
    (hρ : ρ = x0 + (i:K) * h) (hζ : ζ = z0 + (j:K) * k) (cr cz : Int → Int → Nat → K)
    (hr : ∀ p q r, F [p, q] r ζ = quartic (cr p q) r) (hz : ∀ p q z, F [p, q] ρ z = quartic (cz p q) z)
    (hh : h ≠ 0) (hk : k ≠ 0) (hρ0 : ρ ≠ 0) :
    cylTensorDivergence (fun n => x0 + (n:K) * h) h k (sampleF2 F x0 h z0 k) 0 i j
      = dquartic (cz 0 1) ζ + dquartic (cr 0 0) ρ + (F [0, 0] ρ ζ - F [2, 2] ρ ζ) / ρ
        + (k^2 * (cz 0 1 3 + 4 * cz 0 1 4 * ζ) + h^2 * (cr 0 0 3 + 4 * cr 0 0 4 * ρ)) ∧
    cylTensorDivergence (fun n => x0 + (n:K) * h) h k (sampleF2 F x0 h z0 k) 1 i j
      = dquartic (cz 1 1) ζ + dquartic (cr 1 0) ρ + F [1, 0] ρ ζ / ρ
        + (k^2 * (cz 1 1 3 + 4 * cz 1 1 4 * ζ) + h^2 * (cr 1 0 3 + 4 * cr 1 0 4 * ρ)) ∧
    cylTensorDivergence (fun n => x0 + (n:K) * h) h k (sampleF2 F x0 h z0 k) 2 i j
      = dquartic (cz 2 1) ζ + dquartic (cr 2 0) ρ + (F [0, 2] ρ ζ + F [2, 0] ρ ζ) / ρ
        + (k^2 * (cz 2 1 3 + 4 * cz 2 1 4 * ζ) + h^2 * (cr 2 0 3 + 4 * cr 2 0 4 * ρ)) := by
  have e0i : x0 + (i:K) * h = ρ := hρ.symm
  have e1i : x0 + ((i:K) + 1) * h = ρ + h := by rw [hρ]; ring
  have e2i : x0 + ((i:K) - 1) * h = ρ - h := by rw [hρ]; ring
  have e0j : z0 + (j:K) * k = ζ := hζ.symm
  have e1j : z0 + ((j:K) + 1) * k = ζ + k := by rw [hζ]; ring
  have e2j : z0 + ((j:K) - 1) * k = ζ - k := by rw [hζ]; ring
  refine ⟨?_, ?_, ?_⟩
  · have split : cylTensorDivergence (fun n => x0 + (n:K) * h) h k (sampleF2 F x0 h z0 k) 0 i j
        = Dc (F [0, 1] ρ) ζ k + Dc (fun r => F [0, 0] r ζ) ρ h + (F [0, 0] ρ ζ - F [2, 2] ρ ζ) / ρ := by
      atoms_split [cylTensorDivergence, sampleF2_t] [e0i, e1i, e2i, e0j, e1j, e2j]
    rw [split, Dc_quartic _ (cz 0 1) (hz 0 1) ζ k hk, Dc_quartic _ (cr 0 0) (hr 0 0) ρ h hh]; ring
  · have split : cylTensorDivergence (fun n => x0 + (n:K) * h) h k (sampleF2 F x0 h z0 k) 1 i j
        = Dc (F [1, 1] ρ) ζ k + Dc (fun r => F [1, 0] r ζ) ρ h + F [1, 0] ρ ζ / ρ := by
      atoms_split [cylTensorDivergence, sampleF2_t] [e0i, e1i, e2i, e0j, e1j, e2j]
    rw [split, Dc_quartic _ (cz 1 1) (hz 1 1) ζ k hk, Dc_quartic _ (cr 1 0) (hr 1 0) ρ h hh]; ring
  · have split : cylTensorDivergence (fun n => x0 + (n:K) * h) h k (sampleF2 F x0 h z0 k) 2 i j
        = Dc (F [2, 1] ρ) ζ k + Dc (fun r => F [2, 0] r ζ) ρ h + (F [0, 2] ρ ζ + F [2, 0] ρ ζ) / ρ := by
      atoms_split [cylTensorDivergence, sampleF2_t] [e0i, e1i, e2i, e0j, e1j, e2j]
    rw [split, Dc_quartic _ (cz 2 1) (hz 2 1) ζ k hk, Dc_quartic _ (cr 2 0) (hr 2 0) ρ h hh]; ring

/-- **cylindrical vector Laplacian, all three components** (`(r, z, φ)`):
`(Δv)_r = ∂_zz v_r - v_r/ρ² + ∂_r v_r/ρ + ∂_rr v_r`, `(Δv)_z = ∂_zz v_z + ∂_r v_z/ρ + ∂_rr v_z`,
`(Δv)_φ = ∂_zz v_φ - v_φ/ρ² + ∂_r v_φ/ρ + ∂_rr v_φ`, each with the remainder
`k²·2c₄(z) + h²·((c₃ + 4c₄ρ)/ρ + 2c₄)`: second order at every fixed distance from the axis -/
theorem cylVectorLaplace_components_poly (F : List Int → K → K → K) (x0 h z0 k : K) (i j : Int) (ρ ζ : K)
    (hρ : ρ = x0 + (i:K) * h) (hζ : ζ = z0 + (j:K) * k) (cr cz : Int → Nat → K)
    (hr : ∀ c r, F [c] r ζ = quartic (cr c) r) (hz : ∀ c z, F [c] ρ z = quartic (cz c) z)
    (hh : h ≠ 0) (hk : k ≠ 0) (hρ0 : ρ ≠ 0) :
    cylVectorLaplace (fun n => x0 + (n:K) * h) h k (sampleF2 F x0 h z0 k) 0 i j
      = ddquartic (cz 0) ζ - F [0] ρ ζ / ρ^2 + dquartic (cr 0) ρ / ρ + ddquartic (cr 0) ρ
        + (k^2 * (2 * cz 0 4) + h^2 * ((cr 0 3 + 4 * cr 0 4 * ρ) / ρ + 2 * cr 0 4)) ∧
    cylVectorLaplace (fun n => x0 + (n:K) * h) h k (sampleF2 F x0 h z0 k) 1 i j
      = ddquartic (cz 1) ζ + dquartic (cr 1) ρ / ρ + ddquartic (cr 1) ρ
        + (k^2 * (2 * cz 1 4) + h^2 * ((cr 1 3 + 4 * cr 1 4 * ρ) / ρ + 2 * cr 1 4)) ∧
    cylVectorLaplace (fun n => x0 + (n:K) * h) h k (sampleF2 F x0 h z0 k) 2 i j
      = ddquartic (cz 2) ζ - F [2] ρ ζ / ρ^2 + dquartic (cr 2) ρ / ρ + ddquartic (cr 2) ρ
        + (k^2 * (2 * cz 2 4) + h^2 * ((cr 2 3 + 4 * cr 2 4 * ρ) / ρ + 2 * cr 2 4)) := by
  have e0i : x0 + (i:K) * h = ρ := hρ.symm
  have e1i : x0 + ((i:K) + 1) * h = ρ + h := by rw [hρ]; ring
  have e2i : x0 + ((i:K) - 1) * h = ρ - h := by rw [hρ]; ring
  have e0j : z0 + (j:K) * k = ζ := hζ.symm
  have e1j : z0 + ((j:K) + 1) * k = ζ + k := by rw [hζ]; ring
  have e2j : z0 + ((j:K) - 1) * k = ζ - k := by rw [hζ]; ring
  refine ⟨?_, ?_, ?_⟩
  · have split : cylVectorLaplace (fun n => x0 + (n:K) * h) h k (sampleF2 F x0 h z0 k) 0 i j
        = DD (F [0] ρ) ζ k - F [0] ρ ζ / ρ^2 + Dc (fun r => F [0] r ζ) ρ h / ρ + DD (fun r => F [0] r ζ) ρ h := by
      atoms_split [cylVectorLaplace, sampleF2_v] [e0i, e1i, e2i, e0j, e1j, e2j]
    rw [split, DD_quartic _ (cz 0) (hz 0) ζ k hk, Dc_quartic _ (cr 0) (hr 0) ρ h hh, DD_quartic _ (cr 0) (hr 0) ρ h hh]
    field_simp; ring
  · have split : cylVectorLaplace (fun n => x0 + (n:K) * h) h k (sampleF2 F x0 h z0 k) 1 i j
        = DD (F [1] ρ) ζ k + Dc (fun r => F [1] r ζ) ρ h / ρ + DD (fun r => F [1] r ζ) ρ h := by
      atoms_split [cylVectorLaplace, sampleF2_v] [e0i, e1i, e2i, e0j, e1j, e2j]
    rw [split, DD_quartic _ (cz 1) (hz 1) ζ k hk, Dc_quartic _ (cr 1) (hr 1) ρ h hh, DD_quartic _ (cr 1) (hr 1) ρ h hh]
    field_simp; ring
  · have split : cylVectorLaplace (fun n => x0 + (n:K) * h) h k (sampleF2 F x0 h z0 k) 2 i j
        = DD (F [2] ρ) ζ k - F [2] ρ ζ / ρ^2 + Dc (fun r => F [2] r ζ) ρ h / ρ + DD (fun r => F [2] r ζ) ρ h := by
      atoms_split [cylVectorLaplace, sampleF2_v] [e0i, e1i, e2i, e0j, e1j, e2j]
    rw [split, DD_quartic _ (cz 2) (hz 2) ζ k hk, Dc_quartic _ (cr 2) (hr 2) ρ h hh, DD_quartic _ (cr 2) (hr 2) ρ h hh]
    field_simp; ring

/-- **axial component of the cylindrical vector Laplacian, fields regular at the axis** (`v_z` even in `r`:
`c₁ = c₃ = 0`): the remainder is `k²·2c₄(z) + h²·6c₄(r)` - a polynomial, hence second order uniformly over ALL cells
including those adjoining the axis (`ρ = h/2`); the documented first-order exception concerns the `r` and `φ`
components only -/
theorem cylVectorLaplace_z_even_uniform (F : List Int → K → K → K) (x0 h z0 k : K) (i j : Int) (ρ ζ : K)
    (hρ : ρ = x0 + (i:K) * h) (hζ : ζ = z0 + (j:K) * k) (cr cz : Nat → K)
    (hr : ∀ r, F [1] r ζ = quartic cr r) (hz : ∀ z, F [1] ρ z = quartic cz z) (h1 : cr 1 = 0) (h3 : cr 3 = 0)
    (hh : h ≠ 0) (hk : k ≠ 0) (hρ0 : ρ ≠ 0) :
    cylVectorLaplace (fun n => x0 + (n:K) * h) h k (sampleF2 F x0 h z0 k) 1 i j
      = ddquartic cz ζ + (4 * cr 2 + 16 * cr 4 * ρ^2) + (k^2 * (2 * cz 4) + h^2 * (6 * cr 4)) := by
  have e0i : x0 + (i:K) * h = ρ := hρ.symm
  have e1i : x0 + ((i:K) + 1) * h = ρ + h := by rw [hρ]; ring
  have e2i : x0 + ((i:K) - 1) * h = ρ - h := by rw [hρ]; ring
  have e0j : z0 + (j:K) * k = ζ := hζ.symm
  have e1j : z0 + ((j:K) + 1) * k = ζ + k := by rw [hζ]; ring
  have e2j : z0 + ((j:K) - 1) * k = ζ - k := by rw [hζ]; ring
  have split : cylVectorLaplace (fun n => x0 + (n:K) * h) h k (sampleF2 F x0 h z0 k) 1 i j
      = DD (F [1] ρ) ζ k + Dc (fun r => F [1] r ζ) ρ h / ρ + DD (fun r => F [1] r ζ) ρ h := by
    atoms_split [cylVectorLaplace, sampleF2_v] [e0i, e1i, e2i, e0j, e1j, e2j]
  rw [split, DD_quartic _ cz hz ζ k hk, Dc_quartic _ cr hr ρ h hh, DD_quartic _ cr hr ρ h hh]
  simp only [dquartic, ddquartic, dpoly4, ddpoly4, h1, h3]
  field_simp; ring

/-- **scalar cylindrical Laplacian, fields regular at the axis** (even in `r`): remainder `h²·6c₄(r) + k²·2c₄(z)`,
second order uniformly over all cells including those adjoining the axis -/
theorem cylLaplace_even_uniform (F : List Int → K → K → K) (x0 h z0 k : K) (i j : Int) (ρ ζ : K)
    (hρ : ρ = x0 + (i:K) * h) (hζ : ζ = z0 + (j:K) * k) (cr cz : Nat → K)
    (hr : ∀ r, F [] r ζ = quartic cr r) (hz : ∀ z, F [] ρ z = quartic cz z) (h1 : cr 1 = 0) (h3 : cr 3 = 0)
    (hh : h ≠ 0) (hk : k ≠ 0) (hρ0 : ρ ≠ 0) :
    cylLaplace (fun n => x0 + (n:K) * h) h k (sampleF2 F x0 h z0 k) i j
      = (4 * cr 2 + 16 * cr 4 * ρ^2) + ddquartic cz ζ + (h^2 * (6 * cr 4) + k^2 * (2 * cz 4)) := by
  have e0i : x0 + (i:K) * h = ρ := hρ.symm
  have e1i : x0 + ((i:K) + 1) * h = ρ + h := by rw [hρ]; ring
  have e2i : x0 + ((i:K) - 1) * h = ρ - h := by rw [hρ]; ring
  have e0j : z0 + (j:K) * k = ζ := hζ.symm
  have e1j : z0 + ((j:K) + 1) * k = ζ + k := by rw [hζ]; ring
  have e2j : z0 + ((j:K) - 1) * k = ζ - k := by rw [hζ]; ring
  have split : cylLaplace (fun n => x0 + (n:K) * h) h k (sampleF2 F x0 h z0 k) i j
      = DD (fun r => F [] r ζ) ρ h + Dc (fun r => F [] r ζ) ρ h / ρ + DD (F [] ρ) ζ k := by
    atoms_split [cylLaplace, sampleF2_s] [e0i, e1i, e2i, e0j, e1j, e2j]
  rw [split, DD_quartic _ cz hz ζ k hk, Dc_quartic _ cr hr ρ h hh, DD_quartic _ cr hr ρ h hh]
  simp only [dquartic, ddquartic, dpoly4, ddpoly4, h1, h3]
  field_simp; ring

/-- **the `φ` component shares the documented exception**: for `v_φ = a₁ r + a₃ r³` (odd in `r`, i.e. regular at the
axis; continuum value `(Δv)_φ = 8 a₃ r`) on a full cylinder, the stencil in the cell adjoining the axis (`ρ = h/2`)
returns `8 a₃ ρ + 2 a₃ h`: an error of first order for every cell size -/
theorem cylVectorLaplace_phi_axis_first_order (h z0 k a1 a3 : K) (j : Int) (hh : h ≠ 0) (hk : k ≠ 0) :
    cylVectorLaplace (fun n => -(h/2) + (n:K) * h) h k
        (sampleF2 (fun c r _ => if c = [2] then a1 * r + a3 * r^3 else 0) (-(h/2)) h z0 k) 2 1 j
      = 8 * a3 * (h/2) + h * (2 * a3) := by
  have := (cylVectorLaplace_components_poly (fun c r _ => if c = [2] then a1 * r + a3 * r^3 else 0) (-(h/2)) h z0 k 1 j
    (h/2) (z0 + (j:K) * k) (by push_cast; ring) rfl
    (fun c => if c = 2 then coef5 0 a1 0 a3 0 else coef5 0 0 0 0 0)
    (fun c => if c = 2 then coef5 (a1 * (h/2) + a3 * (h/2)^3) 0 0 0 0 else coef5 0 0 0 0 0)
    (by intro c r; by_cases hc : c = 2 <;> simp [hc, quartic, coef5, poly4])
    (by intro c z; by_cases hc : c = 2 <;> simp [hc, quartic, coef5, poly4])
    hh hk (by simp [hh])).2.2
  rw [this]
  simp [dquartic, ddquartic, coef5, dpoly4, ddpoly4]
  field_simp
  ring

/-! non-vacuity: concrete fields with mixed terms in the cell adjoining the axis of a full cylinder
(`x0 = -h/2`, `i = 1`, `ρ = h/2 = 1/4`) over `ℚ` -/
example : cylGradient (1/2 : ℚ) (1/3) (sampleF2 (fun _ r z => r^3*z^2 + r*z^4) (-1/4) (1/2) 0 (1/3)) 0 1 3
    = (1 + 3/16) + (1/2)^2 * 1 := by
  have := (cylGradient_poly (fun _ r z => r^3*z^2 + r*z^4) (-1/4 : ℚ) (1/2) 0 (1/3) 1 3 (1/4) 1 (by norm_num) (by norm_num)
    (coef5 0 1 0 1 0) (coef5 0 0 (1/64) 0 (1/4)) (by intro r; simp [quartic, coef5, poly4] <;> first | ring1 | norm_num)
    (by intro z; simp [quartic, coef5, poly4] <;> first | ring1 | norm_num) (by norm_num) (by norm_num)).1
  rw [this]; simp [dquartic, coef5, dpoly4]; norm_num

example : cylTensorDivergence (fun n => (-1/4 : ℚ) + (n:ℚ) * (1/2)) (1/2) (1/3)
    (sampleF2 (fun c r z => if c = [0, 0] then r^3 * z else if c = [0, 1] then r * z^3 else if c = [2, 2] then r^2 else 5)
      (-1/4) (1/2) 0 (1/3)) 0 1 3
    = 3/4 + 3/16 + (1/64 - 1/16) / (1/4) + ((1/3)^2 * (1/4) + (1/2)^2 * 1) := by
  have := (cylTensorDivergence_poly (fun c r z => if c = [0, 0] then r^3 * z else if c = [0, 1] then r * z^3 else if c = [2, 2] then r^2 else 5)
    (-1/4 : ℚ) (1/2) 0 (1/3) 1 3 (1/4) 1 (by norm_num) (by norm_num)
    (fun p q => if p = 0 ∧ q = 0 then coef5 0 0 0 1 0 else if p = 0 ∧ q = 1 then coef5 0 1 0 0 0 else if p = 2 ∧ q = 2 then coef5 0 0 1 0 0 else coef5 5 0 0 0 0)
    (fun p q => if p = 0 ∧ q = 0 then coef5 0 (1/64) 0 0 0 else if p = 0 ∧ q = 1 then coef5 0 0 0 (1/4) 0 else if p = 2 ∧ q = 2 then coef5 (1/16) 0 0 0 0 else coef5 5 0 0 0 0)
    (by intro p q r
        by_cases h00 : p = 0 ∧ q = 0
        · obtain ⟨rfl, rfl⟩ := h00; simp [quartic, coef5, poly4]
        by_cases h01 : p = 0 ∧ q = 1
        · obtain ⟨rfl, rfl⟩ := h01; simp [quartic, coef5, poly4]
        by_cases h22 : p = 2 ∧ q = 2
        · obtain ⟨rfl, rfl⟩ := h22; simp [quartic, coef5, poly4]
        simp only [List.cons.injEq, and_true, h00, h01, h22, if_false]; simp [quartic, coef5, poly4])
    (by intro p q z
        by_cases h00 : p = 0 ∧ q = 0
        · obtain ⟨rfl, rfl⟩ := h00; simp [quartic, coef5, poly4] <;> first | ring1 | norm_num
        by_cases h01 : p = 0 ∧ q = 1
        · obtain ⟨rfl, rfl⟩ := h01; simp [quartic, coef5, poly4] <;> first | ring1 | norm_num
        by_cases h22 : p = 2 ∧ q = 2
        · obtain ⟨rfl, rfl⟩ := h22; simp [quartic, coef5, poly4] <;> first | ring1 | norm_num
        simp only [List.cons.injEq, and_true, h00, h01, h22, if_false]; simp [quartic, coef5, poly4])
    (by norm_num) (by norm_num) (by norm_num)).1
  rw [this]; simp [dquartic, coef5, dpoly4]; norm_num

/-! ### polar and spherical grids: the remaining operators, all cells including those at the axis / origin -/

/-- sampled field on one (radial) grid axis, component multi-index first -/
def sampleF1 (F : List Int → K → K) (x0 h : K) : Arr K :=
  fun idx => F (idx.take (idx.length - 1)) (x0 + ((idx.getD (idx.length - 1) 0 : Int) : K) * h)
theorem sampleF1_s (F : List Int → K → K) (x0 h : K) (i : Int) :
    sampleF1 F x0 h [i] = F [] (x0 + (i:K) * h) := rfl
theorem sampleF1_v (F : List Int → K → K) (x0 h : K) (c i : Int) :
    sampleF1 F x0 h [c, i] = F [c] (x0 + (i:K) * h) := rfl
theorem sampleF1_t (F : List Int → K → K) (x0 h : K) (p q i : Int) :
    sampleF1 F x0 h [p, q, i] = F [p, q] (x0 + (i:K) * h) := rfl

/-- **polar and spherical gradient** of a quartic: `∂_r f + h²(c₃ + 4c₄ρ)` in the radial component, zero in the
angular ones; no division by the radius - second order uniformly over all cells -/
theorem radialGradient_poly (c : Nat → K) (x0 h : K) (i : Int) (ρ : K) (hρ : ρ = x0 + (i:K) * h) (hh : h ≠ 0) :
    polarGradient .central h (sampleF1 (fun _ => quartic c) x0 h) 0 i = dquartic c ρ + h^2 * (c 3 + 4 * c 4 * ρ) ∧
    polarGradient .central h (sampleF1 (fun _ => quartic c) x0 h) 1 i = 0 ∧
    sphGradient .central h (sampleF1 (fun _ => quartic c) x0 h) 0 i = dquartic c ρ + h^2 * (c 3 + 4 * c 4 * ρ) ∧
    sphGradient .central h (sampleF1 (fun _ => quartic c) x0 h) 1 i = 0 ∧
    sphGradient .central h (sampleF1 (fun _ => quartic c) x0 h) 2 i = 0 := by
  have e0i : x0 + (i:K) * h = ρ := hρ.symm
  have e1i : x0 + ((i:K) + 1) * h = ρ + h := by rw [hρ]; ring
  have e2i : x0 + ((i:K) - 1) * h = ρ - h := by rw [hρ]; ring
  have e3i : x0 + ((i:K) + -1) * h = ρ - h := by rw [hρ]; ring
  have key : d1 .central h (sampleF1 (fun _ => quartic c) x0 h) [i] 0 = Dc (quartic c) ρ h := by
    atoms_split [d1, shift_single, sampleF1_s] [e0i, e1i, e2i, e3i]
  refine ⟨?_, ?_, ?_, ?_, ?_⟩
  · simp only [polarGradient, if_true]; rw [key, Dc_quartic _ c (fun _ => rfl) ρ h hh]
  · simp [polarGradient]
  · simp only [sphGradient, if_true]; rw [key, Dc_quartic _ c (fun _ => rfl) ρ h hh]
  · simp [sphGradient]
  · simp [sphGradient]

/-- **polar divergence** `v_r' + v_r/ρ` and **plain spherical divergence** `v_r' + 2v_r/ρ` of a quartic radial component:
the curvature term is exact, the remainder `h²(c₃ + 4c₄ρ)` is not divided by the radius - second order uniformly
over all cells (including `ρ = h/2`) -/
theorem radialDivergence_poly (F : List Int → K → K) (c : Nat → K) (hF : ∀ r, F [0] r = quartic c r)
    (x0 h : K) (i : Int) (ρ : K) (hρ : ρ = x0 + (i:K) * h) (hh : h ≠ 0) (hr : ρ ≠ 0) :
    polarDivergence (fun n => x0 + (n:K) * h) h (sampleF1 F x0 h) i
      = dquartic c ρ + quartic c ρ / ρ + h^2 * (c 3 + 4 * c 4 * ρ) ∧
    sphDivergence false .central (fun n => x0 + (n:K) * h) h (sampleF1 F x0 h) i
      = dquartic c ρ + 2 * quartic c ρ / ρ + h^2 * (c 3 + 4 * c 4 * ρ) := by
  have e0i : x0 + (i:K) * h = ρ := hρ.symm
  have e1i : x0 + ((i:K) + 1) * h = ρ + h := by rw [hρ]; ring
  have e2i : x0 + ((i:K) - 1) * h = ρ - h := by rw [hρ]; ring
  have e3i : x0 + ((i:K) + -1) * h = ρ - h := by rw [hρ]; ring
  constructor
  · have split : polarDivergence (fun n => x0 + (n:K) * h) h (sampleF1 F x0 h) i = Dc (F [0]) ρ h + F [0] ρ / ρ := by
      atoms_split [polarDivergence, sampleF1_v] [e0i, e1i, e2i, e3i]
    rw [split, Dc_quartic _ c hF ρ h hh, hF]; ring
  · have split : sphDivergence false .central (fun n => x0 + (n:K) * h) h (sampleF1 F x0 h) i
        = Dc (F [0]) ρ h + 2 * F [0] ρ / ρ := by
      atoms_split [sphDivergence, d1, shift, sampleF1_v, List.getD_cons_zero, List.getD_cons_succ, List.set_cons_succ,
        List.set_cons_zero, Bool.false_eq_true, if_false] [e0i, e1i, e2i, e3i]
    rw [split, Dc_quartic _ c hF ρ h hh, hF]; ring

/-- **plain (non-conservative) spherical Laplacian, fields regular at the origin** (even in `r`): the remainder is
`10 c₄ h²` - second order uniformly over all cells including the innermost (`ρ = h/2`) -/
theorem sphLaplace_plain_even_uniform (h x0 c0 c2 c4 : K) (i : Int) (ρ : K) (hρ : ρ = x0 + (i:K) * h) (hh : h ≠ 0) (hr : ρ ≠ 0) :
    sphLaplace false (fun k => x0 + (k:K) * h) h (sample1 (poly4 c0 0 c2 0 c4) x0 h) i =
      (6*c2 + 20*c4*ρ^2) + h^2 * (10*c4) := by
  rw [sphLaplace_plain_poly h x0 c0 0 c2 0 c4 i ρ hρ hh hr]
  simp only [dpoly4, ddpoly4]
  field_simp
  ring

/-- **conservative spherical divergence, fields regular at the origin** (`v_r = a₁ r + a₃ r³`, odd in `r`): the
remainder `a₃ (52ρ² + 3h²)/(h² + 12ρ²)` has only the positive shell-volume denominator -/
theorem sphDivergence_conservative_odd_uniform (h x0 a1 a3 : K) (i : Int) (ρ : K) (hρ : ρ = x0 + (i:K) * h)
    (hh : h ≠ 0) (hr : ρ ≠ 0) (hv : h^2 + 12 * ρ^2 ≠ 0) :
    sphDivergence true .central (fun k => x0 + (k:K) * h) h (sampleV (fun _ x => 0 + a1*x + 0*x^2 + a3*x^3) x0 h) i =
      (3*a1 + 5*a3*ρ^2) + h^2 * (a3 * (52*ρ^2 + 3*h^2) / (h^2 + 12*ρ^2)) := by
  rw [sphDivergence_conservative_poly h x0 0 a1 0 a3 i ρ hρ hh hr hv]
  field_simp
  ring


/-- **polar tensor divergence**, all components quartics: `r`: `T_rr' + (T_rr - T_φφ)/ρ`, `φ`: `T_φr' + (T_rφ + T_φr)/ρ`;
curvature terms exact, remainder `h²(c₃ + 4c₄ρ)` of the differentiated component - uniform over all cells -/
theorem polarTensorDivergence_quartic_poly (F : List Int → K → K) (c : Int → Int → Nat → K)
    (hF : ∀ p q r, F [p, q] r = quartic (c p q) r)
    (x0 h : K) (i : Int) (ρ : K) (hρ : ρ = x0 + (i:K) * h) (hh : h ≠ 0) (hr : ρ ≠ 0) :
    polarTensorDivergence (fun n => x0 + (n:K) * h) h (sampleF1 F x0 h) 0 i
      = dquartic (c 0 0) ρ + (F [0, 0] ρ - F [1, 1] ρ) / ρ + h^2 * (c 0 0 3 + 4 * c 0 0 4 * ρ) ∧
    polarTensorDivergence (fun n => x0 + (n:K) * h) h (sampleF1 F x0 h) 1 i
      = dquartic (c 1 0) ρ + (F [0, 1] ρ + F [1, 0] ρ) / ρ + h^2 * (c 1 0 3 + 4 * c 1 0 4 * ρ) := by
  have e0i : x0 + (i:K) * h = ρ := hρ.symm
  have e1i : x0 + ((i:K) + 1) * h = ρ + h := by rw [hρ]; ring
  have e2i : x0 + ((i:K) - 1) * h = ρ - h := by rw [hρ]; ring
  constructor
  · have split : polarTensorDivergence (fun n => x0 + (n:K) * h) h (sampleF1 F x0 h) 0 i
        = Dc (F [0, 0]) ρ h + (F [0, 0] ρ - F [1, 1] ρ) / ρ := by
      atoms_split [polarTensorDivergence, sampleF1_t] [e0i, e1i, e2i]
    rw [split, Dc_quartic _ (c 0 0) (hF 0 0) ρ h hh]; ring
  · have split : polarTensorDivergence (fun n => x0 + (n:K) * h) h (sampleF1 F x0 h) 1 i
        = Dc (F [1, 0]) ρ h + (F [0, 1] ρ + F [1, 0] ρ) / ρ := by
      atoms_split [polarTensorDivergence, sampleF1_t] [e0i, e1i, e2i]
    rw [split, Dc_quartic _ (c 1 0) (hF 1 0) ρ h hh]; ring

/-- **plain spherical tensor divergence**, all components quartics (components `(r, θ, φ)`) - uniform over all cells -/
theorem sphTensorDivergence_plain_quartic_poly (F : List Int → K → K) (c : Int → Int → Nat → K)
    (hF : ∀ p q r, F [p, q] r = quartic (c p q) r)
    (x0 h : K) (i : Int) (ρ : K) (hρ : ρ = x0 + (i:K) * h) (hh : h ≠ 0) (hr : ρ ≠ 0) :
    sphTensorDivergence false (fun n => x0 + (n:K) * h) h (sampleF1 F x0 h) 0 i
      = dquartic (c 0 0) ρ + 2 * (F [0, 0] ρ - F [2, 2] ρ) / ρ + h^2 * (c 0 0 3 + 4 * c 0 0 4 * ρ) ∧
    sphTensorDivergence false (fun n => x0 + (n:K) * h) h (sampleF1 F x0 h) 1 i
      = dquartic (c 1 0) ρ + 2 * F [1, 0] ρ / ρ + h^2 * (c 1 0 3 + 4 * c 1 0 4 * ρ) ∧
    sphTensorDivergence false (fun n => x0 + (n:K) * h) h (sampleF1 F x0 h) 2 i
      = dquartic (c 2 0) ρ + (2 * F [2, 0] ρ + F [0, 2] ρ) / ρ + h^2 * (c 2 0 3 + 4 * c 2 0 4 * ρ) := by
  have e0i : x0 + (i:K) * h = ρ := hρ.symm
  have e1i : x0 + ((i:K) + 1) * h = ρ + h := by rw [hρ]; ring
  have e2i : x0 + ((i:K) - 1) * h = ρ - h := by rw [hρ]; ring
  refine ⟨?_, ?_, ?_⟩
  · have split : sphTensorDivergence false (fun n => x0 + (n:K) * h) h (sampleF1 F x0 h) 0 i
        = Dc (F [0, 0]) ρ h + 2 * (F [0, 0] ρ - F [2, 2] ρ) / ρ := by
      atoms_split [sphTensorDivergence, sampleF1_t, Bool.false_eq_true, if_false] [e0i, e1i, e2i]
    rw [split, Dc_quartic _ (c 0 0) (hF 0 0) ρ h hh]; ring
  · have split : sphTensorDivergence false (fun n => x0 + (n:K) * h) h (sampleF1 F x0 h) 1 i
        = Dc (F [1, 0]) ρ h + 2 * F [1, 0] ρ / ρ := by
      atoms_split [sphTensorDivergence, sampleF1_t, Bool.false_eq_true, if_false] [e0i, e1i, e2i]
    rw [split, Dc_quartic _ (c 1 0) (hF 1 0) ρ h hh]; ring
  · have split : sphTensorDivergence false (fun n => x0 + (n:K) * h) h (sampleF1 F x0 h) 2 i
        = Dc (F [2, 0]) ρ h + (2 * F [2, 0] ρ + F [0, 2] ρ) / ρ := by
      atoms_split [sphTensorDivergence, sampleF1_t, Bool.false_eq_true, if_false] [e0i, e1i, e2i]
    rw [split, Dc_quartic _ (c 2 0) (hF 2 0) ρ h hh]; ring

/-- **plain spherical tensor double divergence, tensors regular at the origin** (`T_rr = a₀ + a₂r² + a₄r⁴`,
`T_θθ = T_φφ = a₀ + b₂r² + b₄r⁴`: isotropic at `r = 0`, even): the remainder is the constant `h²(18a₄ - 8b₄)` -
second order uniformly over all cells including the innermost -/
theorem sphTensorDoubleDivergence_plain_regular_uniform (F : List Int → K → K) (a0 a2 a4 b2 b4 : K)
    (h00 : ∀ r, F [0, 0] r = a0 + a2 * r^2 + a4 * r^4) (h22 : ∀ r, F [2, 2] r = a0 + b2 * r^2 + b4 * r^4)
    (x0 h : K) (i : Int) (ρ : K) (hρ : ρ = x0 + (i:K) * h) (hh : h ≠ 0) (hr : ρ ≠ 0) :
    sphTensorDoubleDivergence false (fun n => x0 + (n:K) * h) h (sampleF1 F x0 h) i
      = (12 * a2 + 30 * a4 * ρ^2 - 6 * b2 - 10 * b4 * ρ^2) + h^2 * (18 * a4 - 8 * b4) := by
  have e0i : x0 + (i:K) * h = ρ := hρ.symm
  have e1i : x0 + ((i:K) + 1) * h = ρ + h := by rw [hρ]; ring
  have e2i : x0 + ((i:K) - 1) * h = ρ - h := by rw [hρ]; ring
  simp only [sphTensorDoubleDivergence, sampleF1_t, h00, h22, Bool.false_eq_true, if_false]
  push_cast
  simp only [e0i, e1i, e2i]
  field_simp
  ring

/-- **conservative spherical tensor double divergence on the same regular tensors**: exact remainder for every cell.
Its denominator is the positive `h² + 12ρ²`, but the numerator contains the `h`-independent term `6(a₂ - b₂)`: in
cells with `ρ ~ h` the error does not vanish with `h` (known finding, cf. `Props/C01Axis.lean`), at every fixed
distance from the origin it is `O(h²)` -/
theorem sphTensorDoubleDivergence_conservative_regular_poly (F : List Int → K → K) (a0 a2 a4 b2 b4 : K)
    (h00 : ∀ r, F [0, 0] r = a0 + a2 * r^2 + a4 * r^4) (h22 : ∀ r, F [2, 2] r = a0 + b2 * r^2 + b4 * r^4)
    (x0 h : K) (i : Int) (ρ : K) (hρ : ρ = x0 + (i:K) * h) (hh : h ≠ 0) (hr : ρ ≠ 0) (hv : h^2 + 12 * ρ^2 ≠ 0) :
    sphTensorDoubleDivergence true (fun n => x0 + (n:K) * h) h (sampleF1 F x0 h) i
      = (12 * a2 + 30 * a4 * ρ^2 - 6 * b2 - 10 * b4 * ρ^2)
        + h^2 * (2 * (3 * a2 + 9 * a4 * h^2 + 147 * a4 * ρ^2 - 3 * b2 - 6 * b4 * h^2 - 79 * b4 * ρ^2) / (h^2 + 12 * ρ^2)) := by
  have e0i : x0 + (i:K) * h = ρ := hρ.symm
  have e1i : x0 + ((i:K) + 1) * h = ρ + h := by rw [hρ]; ring
  have e2i : x0 + ((i:K) - 1) * h = ρ - h := by rw [hρ]; ring
  simp only [sphTensorDoubleDivergence, shellThird, sampleF1_t, h00, h22, if_true]
  push_cast
  simp only [e0i, e1i, e2i]
  have e : ((ρ + h / 2) * (ρ + h / 2) * (ρ + h / 2) - (ρ - h / 2) * (ρ - h / 2) * (ρ - h / 2)) / 3
      = h * (h^2 + 12 * ρ^2) / 12 := by ring
  rw [e]
  have hv' : h^2 + ρ^2 * 12 ≠ 0 := by rw [show h^2 + ρ^2 * 12 = h^2 + 12 * ρ^2 by ring]; exact hv
  field_simp
  ring

/-- **conservative spherical tensor divergence (radial component) on the same regular tensors**: exact remainder
`h²·2ρ(7a₂ + b₂ + 12a₄h² + 63a₄ρ² + b₄ρ²)/(h² + 12ρ²)` for every cell: `O(h²)` at fixed distance, but of size
`~ h (7a₂ + b₂)/8` at `ρ = h/2` (first order, the known finding of `Props/C01Axis.lean`) -/
theorem sphTensorDivergence_conservative_regular_poly (F : List Int → K → K) (a0 a2 a4 b2 b4 : K)
    (h00 : ∀ r, F [0, 0] r = a0 + a2 * r^2 + a4 * r^4) (h22 : ∀ r, F [2, 2] r = a0 + b2 * r^2 + b4 * r^4)
    (x0 h : K) (i : Int) (ρ : K) (hρ : ρ = x0 + (i:K) * h) (hh : h ≠ 0) (hr : ρ ≠ 0) (hv : h^2 + 12 * ρ^2 ≠ 0) :
    sphTensorDivergence true (fun n => x0 + (n:K) * h) h (sampleF1 F x0 h) 0 i
      = (2 * a2 * ρ + 4 * a4 * ρ^3) + 2 * ((a2 - b2) * ρ + (a4 - b4) * ρ^3)
        + h^2 * (2 * ρ * (7 * a2 + 12 * a4 * h^2 + 63 * a4 * ρ^2 + b2 + b4 * ρ^2) / (h^2 + 12 * ρ^2)) := by
  have e0i : x0 + (i:K) * h = ρ := hρ.symm
  have e1i : x0 + ((i:K) + 1) * h = ρ + h := by rw [hρ]; ring
  have e2i : x0 + ((i:K) - 1) * h = ρ - h := by rw [hρ]; ring
  simp only [sphTensorDivergence, shellThird, sampleF1_t, h00, h22, if_true]
  push_cast
  simp only [e0i, e1i, e2i]
  have e : ((ρ + h / 2) * (ρ + h / 2) * (ρ + h / 2) - (ρ - h / 2) * (ρ - h / 2) * (ρ - h / 2)) / 3
      = h * (h^2 + 12 * ρ^2) / 12 := by ring
  rw [e]
  have hv' : h^2 + ρ^2 * 12 ≠ 0 := by rw [show h^2 + ρ^2 * 12 = h^2 + 12 * ρ^2 by ring]; exact hv
  field_simp
  ring


end

section ordered
variable {K : Type} [Field K] [LinearOrder K] [IsStrictOrderedRing K]

/-- the remainder coefficient of `sphDivergence_conservative_odd_uniform` is bounded independently of `h` and of the
position (every cell, including the one at the origin): `≤ 13/3 |a₃| + 3 |a₃|` -/
theorem sphDivergence_conservative_odd_remainder_bound (ρ h a3 : K) (hh : h ≠ 0) :
    |a3 * (52*ρ^2 + 3*h^2) / (h^2 + 12*ρ^2)| ≤ (22/3) * |a3| := by
  have hD : 0 < h^2 + 12*ρ^2 := by positivity
  have hN : 0 ≤ 52*ρ^2 + 3*h^2 := by positivity
  rw [abs_div, abs_of_pos hD, abs_mul, abs_of_nonneg hN, div_le_iff₀ hD]
  nlinarith [abs_nonneg a3, sq_nonneg h, sq_nonneg ρ, mul_nonneg (abs_nonneg a3) (sq_nonneg h),
    mul_nonneg (abs_nonneg a3) (sq_nonneg ρ)]

/-- the remainder coefficient of `sphLaplace_conservative_even_uniform` is bounded independently of `h` and of the
position (every cell): `≤ 52/3 |c₄|` -/
theorem sphLaplace_conservative_even_remainder_bound (ρ h c4 : K) (hh : h ≠ 0) :
    |(6*c4*h^2 + 136*c4*ρ^2) / (h^2 + 12*ρ^2)| ≤ (52/3) * |c4| := by
  have hD : 0 < h^2 + 12*ρ^2 := by positivity
  have e : 6*c4*h^2 + 136*c4*ρ^2 = c4 * (6*h^2 + 136*ρ^2) := by ring
  have hN : 0 ≤ 6*h^2 + 136*ρ^2 := by positivity
  rw [e, abs_div, abs_of_pos hD, abs_mul, abs_of_nonneg hN, div_le_iff₀ hD]
  nlinarith [abs_nonneg c4, sq_nonneg h, sq_nonneg ρ, mul_nonneg (abs_nonneg c4) (sq_nonneg h),
    mul_nonneg (abs_nonneg c4) (sq_nonneg ρ)]


/-! #### the uniform clause in its final form: `|stencil - continuum| ≤ C h²` for EVERY cell (every `x0`, `i`, `h ≠ 0`,
in particular `ρ = h/2`), `C` independent of the position and of `h`, for fields regular at the axis / origin -/

theorem polarLaplace_even_uniform_bound (h x0 c0 c2 c4 : K) (i : Int) (ρ : K) (hρ : ρ = x0 + (i:K) * h) (hh : h ≠ 0) (hr : ρ ≠ 0) :
    |polarLaplace (fun k => x0 + (k:K) * h) h (sample1 (poly4 c0 0 c2 0 c4) x0 h) i - (4*c2 + 16*c4*ρ^2)| ≤ 6 * |c4| * h^2 := by
  rw [polarLaplace_even_uniform h x0 c0 c2 c4 i ρ hρ hh hr, add_sub_cancel_left, abs_mul, abs_mul,
    abs_of_nonneg (sq_nonneg h), abs_of_pos (by norm_num : (0:K) < 6)]
  exact le_of_eq (by ring)

theorem sphLaplace_plain_even_uniform_bound (h x0 c0 c2 c4 : K) (i : Int) (ρ : K) (hρ : ρ = x0 + (i:K) * h) (hh : h ≠ 0) (hr : ρ ≠ 0) :
    |sphLaplace false (fun k => x0 + (k:K) * h) h (sample1 (poly4 c0 0 c2 0 c4) x0 h) i - (6*c2 + 20*c4*ρ^2)| ≤ 10 * |c4| * h^2 := by
  rw [sphLaplace_plain_even_uniform h x0 c0 c2 c4 i ρ hρ hh hr, add_sub_cancel_left, abs_mul, abs_mul,
    abs_of_nonneg (sq_nonneg h), abs_of_pos (by norm_num : (0:K) < 10)]
  exact le_of_eq (by ring)

theorem sphLaplace_conservative_even_uniform_bound (h x0 c0 c2 c4 : K) (i : Int) (ρ : K) (hρ : ρ = x0 + (i:K) * h) (hh : h ≠ 0) :
    |sphLaplace true (fun k => x0 + (k:K) * h) h (sample1 (poly4 c0 0 c2 0 c4) x0 h) i - (6*c2 + 20*c4*ρ^2)| ≤ (52/3) * |c4| * h^2 := by
  have hv : h^2 + 12 * ρ^2 ≠ 0 := by positivity
  rw [sphLaplace_conservative_even_uniform h x0 c0 c2 c4 i ρ hρ hh hv, add_sub_cancel_left, abs_mul,
    abs_of_nonneg (sq_nonneg h)]
  have := sphLaplace_conservative_even_remainder_bound ρ h c4 hh
  nlinarith [sq_nonneg h]

theorem sphDivergence_conservative_odd_uniform_bound (h x0 a1 a3 : K) (i : Int) (ρ : K) (hρ : ρ = x0 + (i:K) * h)
    (hh : h ≠ 0) (hr : ρ ≠ 0) :
    |sphDivergence true .central (fun k => x0 + (k:K) * h) h (sampleV (fun _ x => 0 + a1*x + 0*x^2 + a3*x^3) x0 h) i
        - (3*a1 + 5*a3*ρ^2)| ≤ (22/3) * |a3| * h^2 := by
  have hv : h^2 + 12 * ρ^2 ≠ 0 := by positivity
  rw [sphDivergence_conservative_odd_uniform h x0 a1 a3 i ρ hρ hh hr hv, add_sub_cancel_left, abs_mul,
    abs_of_nonneg (sq_nonneg h)]
  have := sphDivergence_conservative_odd_remainder_bound ρ h a3 hh
  nlinarith [sq_nonneg h]

/-- non-vacuity: the innermost cell of a full sphere (`x0 = -h/2`, `i = 1`, `ρ = h/2`) with `h = 1/2` over `ℚ` -/
example : |sphDivergence true .central (fun k => (-1/4 : ℚ) + (k:ℚ) * (1/2)) (1/2)
      (sampleV (fun _ x => 0 + 2*x + 0*x^2 + 3*x^3) (-1/4) (1/2)) 1 - (3*2 + 5*3*(1/4)^2)| ≤ (22/3) * |3| * (1/2)^2 :=
  sphDivergence_conservative_odd_uniform_bound (1/2) (-1/4) 2 3 1 (1/4) (by norm_num) (by norm_num) (by norm_num)

end ordered

/-! ### non-vacuity of the remaining conditional theorems (hypotheses instantiated) -/
section
variable {K : Type} [Field K] [CharZero K]

/-- all components the same quartic: every hypothesis of the quartic tensor / vector theorems holds -/
example (x0 h : K) (i : Int) (hh : h ≠ 0) (hr : x0 + (i:K) * h ≠ 0) :=
  polarTensorDivergence_quartic_poly (fun _ => quartic (coef5 (1:K) 2 3 4 5)) (fun _ _ => coef5 1 2 3 4 5)
    (fun _ _ _ => rfl) x0 h i _ rfl hh hr

example (x0 h : K) (i : Int) (hh : h ≠ 0) (hr : x0 + (i:K) * h ≠ 0) :=
  sphTensorDivergence_plain_quartic_poly (fun _ => quartic (coef5 (1:K) 2 3 4 5)) (fun _ _ => coef5 1 2 3 4 5)
    (fun _ _ _ => rfl) x0 h i _ rfl hh hr

example (x0 h : K) (i : Int) (hh : h ≠ 0) (hr : x0 + (i:K) * h ≠ 0) :=
  radialDivergence_poly (fun _ => quartic (coef5 (1:K) 2 3 4 5)) (coef5 1 2 3 4 5) (fun _ => rfl) x0 h i _ rfl hh hr

/-- tensors regular at the origin with symbolic coefficients -/
example (a0 a2 a4 b2 b4 x0 h : K) (i : Int) (hh : h ≠ 0) (hr : x0 + (i:K) * h ≠ 0) (hv : h^2 + 12 * (x0 + (i:K) * h)^2 ≠ 0) :=
  And.intro
    (sphTensorDoubleDivergence_plain_regular_uniform
      (fun cs r => if cs = [0, 0] then a0 + a2 * r^2 + a4 * r^4 else a0 + b2 * r^2 + b4 * r^4) a0 a2 a4 b2 b4
      (by intro r; simp) (by intro r; simp) x0 h i _ rfl hh hr)
    (And.intro
      (sphTensorDoubleDivergence_conservative_regular_poly
        (fun cs r => if cs = [0, 0] then a0 + a2 * r^2 + a4 * r^4 else a0 + b2 * r^2 + b4 * r^4) a0 a2 a4 b2 b4
        (by intro r; simp) (by intro r; simp) x0 h i _ rfl hh hr hv)
      (sphTensorDivergence_conservative_regular_poly
        (fun cs r => if cs = [0, 0] then a0 + a2 * r^2 + a4 * r^4 else a0 + b2 * r^2 + b4 * r^4) a0 a2 a4 b2 b4
        (by intro r; simp) (by intro r; simp) x0 h i _ rfl hh hr hv))

/-- a field even in `r` with mixed terms, `f = (1 + z)·r⁴ + z³ r² + z`: both `*_even_uniform` theorems of the cylinder, and all
nine components of the vector gradient for `v_c = f` -/
example (x0 h z0 k : K) (i j : Int) (hh : h ≠ 0) (hk : k ≠ 0) (hr : x0 + (i:K) * h ≠ 0) :=
  And.intro
    (cylLaplace_even_uniform (fun _ r z => (1 + z) * r^4 + z^3 * r^2 + z) x0 h z0 k i j _ _ rfl rfl
      (coef5 (z0 + (j:K) * k) 0 ((z0 + (j:K) * k)^3) 0 (1 + (z0 + (j:K) * k)))
      (coef5 ((x0 + (i:K) * h)^4) ((x0 + (i:K) * h)^4 + 1) 0 ((x0 + (i:K) * h)^2) 0)
      (by intro r; simp only [quartic, coef5, poly4]; ring) (by intro z; simp only [quartic, coef5, poly4]; ring)
      rfl rfl hh hk hr)
    (And.intro
      (cylVectorLaplace_z_even_uniform (fun _ r z => (1 + z) * r^4 + z^3 * r^2 + z) x0 h z0 k i j _ _ rfl rfl
        (coef5 (z0 + (j:K) * k) 0 ((z0 + (j:K) * k)^3) 0 (1 + (z0 + (j:K) * k)))
        (coef5 ((x0 + (i:K) * h)^4) ((x0 + (i:K) * h)^4 + 1) 0 ((x0 + (i:K) * h)^2) 0)
        (by intro r; simp only [quartic, coef5, poly4]; ring) (by intro z; simp only [quartic, coef5, poly4]; ring)
        rfl rfl hh hk hr)
      (cylVectorGradient_poly (fun _ r z => (1 + z) * r^4 + z^3 * r^2 + z) x0 h z0 k i j _ _ rfl rfl
        (fun _ => coef5 (z0 + (j:K) * k) 0 ((z0 + (j:K) * k)^3) 0 (1 + (z0 + (j:K) * k)))
        (fun _ => coef5 ((x0 + (i:K) * h)^4) ((x0 + (i:K) * h)^4 + 1) 0 ((x0 + (i:K) * h)^2) 0)
        (by intro c r; simp only [quartic, coef5, poly4]; ring) (by intro c z; simp only [quartic, coef5, poly4]; ring)
        hh hk))
end

end PdeVerif.Stencil
