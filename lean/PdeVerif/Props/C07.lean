import PdeVerif.Model.Controller
import PdeVerif.Model.StepMaps
import PdeVerif.Lemmas.Basic
import PdeVerif.Lemmas.Controller
/-
C07 - observation does not perturb a simulation; step and time accounting is exact.

Property theorems about `PdeVerif.Controller` (model of pde/solvers/controller.py, the fixed
stepper of pde/solvers/base.py and TrackerCollection of pde/trackers/base.py).  Every statement
holds for an arbitrary ordered field with floor, an arbitrary state type and one-step map, every
list of trackers, and every interrupt state machine `nxt` whatsoever (no assumption on the action
times: they may be adversarial, adaptive, in the past, infinite).
-/
set_option linter.unusedSectionVars false
set_option linter.unusedVariables false

namespace PdeVerif.Controller
open PdeVerif

section
variable {K : Type} [Field K] [LinearOrder K] [IsStrictOrderedRing K] [FloorRing K]
variable {S σ : Type}

/-! ### C07: lattice, iterate -/

/-- **lattice_invariant**: the reported final time is `t_start + steps*dt` - on every path
(final time reached, stopped by a tracker), for every tracker list and schedule. -/
theorem lattice_invariant (c : Cfg K S σ) (u0 : S) (trs : List (Tracker K S σ)) (fuel : Nat) :
    (runFuel c u0 trs fuel).tFinal = c.tStart + (runFuel c u0 trs fuel).steps * c.dt := by
  show (finalHandle c _).1.t = c.tStart + ((finalHandle c _).1.steps : K) * c.dt
  rw [finalHandle_t, finalHandle_steps]
  exact (loop_acc c u0 fuel _ (acc_init c u0 trs)).1

/-- **state_is_iterate**: the returned state is `steps` applications of the one-step map, the
`i`-th at time `t_start + i*dt` - on every path, for every tracker list and schedule. -/
theorem state_is_iterate (c : Cfg K S σ) (u0 : S) (trs : List (Tracker K S σ)) (fuel : Nat) :
    (runFuel c u0 trs fuel).state = stateAfter c u0 (runFuel c u0 trs fuel).steps := by
  show (finalHandle c _).1.u = stateAfter c u0 (finalHandle c _).1.steps
  rw [finalHandle_u, finalHandle_steps]
  exact (loop_acc c u0 fuel _ (acc_init c u0 trs)).2

/-- **initial_state_untouched_partial**: in the model `run` works on a copy (`work := u0`), so the
caller's value is returned unchanged - true by construction (`rfl`).
PARTIAL: the full clause "the caller's initial state *object* is left unmodified" is about mutation
and aliasing of Python objects (`state = initial_state.copy()` in `Controller.run`, in-place
stepping of `state.data`); the value-semantics model cannot express a missing copy, so this
theorem says nothing about it.  The clause is checked on every real run by the monitor only
(every cell, real and imaginary part, dtype, label, ghost cells; no shared memory with the result). -/
theorem initial_state_untouched_partial (c : Cfg K S σ) (u0 : S) (trs : List (Tracker K S σ)) (fuel : Nat) :
    (runFuel c u0 trs fuel).initial = u0 := rfl

/-! ### C07: step count -/

/-- **progress**: every pass through the loop body takes at least one step -/
theorem progress (c : Cfg K S σ) (st : LState K S σ) :
    st.steps + 1 ≤ (advance c st).steps := advance_progress c st

/-- **no_overshoot**: the run never takes more steps than `⌈T/dt - eps⌉` (so it never passes
`t_end` by a full step), on every path and for every tracker list and schedule -/
theorem no_overshoot (c : Cfg K S σ) (hdt : 0 < c.dt) (he1 : c.eps < 1 / 2) (u0 : S)
    (trs : List (Tracker K S σ)) (fuel : Nat) :
    (runFuel c u0 trs fuel).steps ≤ finalStepCount c := run_no_overshoot c hdt he1 u0 trs fuel

/-- termination: the fuel bound is a theorem -/
theorem loop_terminates (c : Cfg K S σ) (hdt : 0 < c.dt) (he1 : c.eps < 1 / 2) (u0 : S) :
    ∀ (fuel : Nat) (st : LState K S σ), Bounded c u0 st → finalStepCount c - st.steps < fuel →
      (loop c fuel st).2 ≠ .fuel := by
  intro fuel
  induction fuel with
  | zero => intro st _ h; omega
  | succ n ih =>
    intro st hb hf
    unfold loop
    rcases iterOnce_cases c st with ⟨_, e⟩ | ⟨hc, r, hr, e⟩ | ⟨hc, hn, e⟩
    · rw [e]; simp
    · rw [e]; simp
    · rw [e]
      have hb' : Bounded c u0 (advance c st) :=
        ⟨acc_advance c u0 st hb.1, bound_advance c hdt he1 st hb.1.1 hc⟩
      have hp := advance_progress c st
      have := hb'.2
      exact ih _ hb' (by omega)

theorem finalStepCount_lt_defaultFuel (c : Cfg K S σ) (he0 : 0 ≤ c.eps) :
    finalStepCount c < defaultFuel c := by
  unfold finalStepCount defaultFuel
  rw [ceilI_eq_ceil]
  have : Int.ceil ((c.tEnd - c.tStart) / c.dt - c.eps) ≤ Int.ceil ((c.tEnd - c.tStart) / c.dt) :=
    Int.ceil_le_ceil (by linarith)
  omega

/-- **run_terminates**: with the model's default fuel the loop always ends by itself (the `fuel`
exit is unreachable), for every tracker list and schedule. -/
theorem run_terminates (c : Cfg K S σ) (hdt : 0 < c.dt) (he0 : 0 ≤ c.eps) (he1 : c.eps < 1 / 2)
    (u0 : S) (trs : List (Tracker K S σ)) : (run c u0 trs).exit ≠ .fuel := by
  show (finalHandle c _).2 ≠ .fuel
  rw [Ne, finalHandle_fuel]
  refine loop_terminates c hdt he1 u0 _ _ ⟨acc_init c u0 trs, Nat.zero_le _⟩ ?_
  have := finalStepCount_lt_defaultFuel c he0
  show finalStepCount c - 0 < defaultFuel c
  omega

/-- **steps_eq_ceil**: a run that reaches the end of the loop has taken exactly
`⌈(t_end - t_start)/dt - eps⌉` steps - whatever trackers observed it and whatever their
schedules asked for.  (All other C07 step-count statements are corollaries.) -/
theorem steps_eq_ceil (c : Cfg K S σ) (hdt : 0 < c.dt) (he1 : c.eps < 1 / 2) (u0 : S)
    (trs : List (Tracker K S σ)) (fuel : Nat) (h : (runFuel c u0 trs fuel).exit.reachedEnd) :
    (runFuel c u0 trs fuel).steps = finalStepCount c :=
  run_steps_of_reachedEnd c hdt he1 u0 trs fuel h

/-- **whole_range_exact**: a range that is `N` steps long takes exactly `N` steps and ends at
`t_end`, for every tracker list and every schedule. -/
theorem whole_range_exact (c : Cfg K S σ) (hdt : 0 < c.dt) (he0 : 0 < c.eps) (he1 : c.eps < 1 / 2)
    (N : Nat) (hN : c.tEnd - c.tStart = N * c.dt) (u0 : S) (trs : List (Tracker K S σ)) (fuel : Nat)
    (h : (runFuel c u0 trs fuel).exit.reachedEnd) :
    (runFuel c u0 trs fuel).steps = N ∧ (runFuel c u0 trs fuel).tFinal = c.tEnd := by
  have hs := steps_eq_ceil c hdt he1 u0 trs fuel h
  have hcount : finalStepCount c = N := by
    unfold finalStepCount
    have e : (c.tEnd - c.tStart) / c.dt - c.eps = (N : K) - c.eps := by
      rw [hN]; field_simp
    rw [e]
    have : Int.ceil ((N : K) - c.eps) = (N : Int) := by
      rw [Int.ceil_eq_iff]; push_cast; constructor <;> linarith
    rw [this]; simp
  refine ⟨by rw [hs, hcount], ?_⟩
  rw [lattice_invariant, hs, hcount]
  linarith

/-- **whole_range_exact_approx**: the same when the range is `N` steps long only up to
`|delta| < eps*dt` (the loop's own tolerance): exactly `N` steps, final time `t_start + N*dt`,
which is within `|delta|` of `t_end`. -/
theorem whole_range_exact_approx (c : Cfg K S σ) (hdt : 0 < c.dt) (he1 : c.eps < 1 / 2)
    (N : Nat) (δ : K) (hN : c.tEnd - c.tStart = N * c.dt + δ) (hδ : |δ| < c.eps * c.dt) (u0 : S)
    (trs : List (Tracker K S σ)) (fuel : Nat) (h : (runFuel c u0 trs fuel).exit.reachedEnd) :
    (runFuel c u0 trs fuel).steps = N ∧ (runFuel c u0 trs fuel).tFinal = c.tStart + N * c.dt ∧
      |(runFuel c u0 trs fuel).tFinal - c.tEnd| = |δ| := by
  have hs := steps_eq_ceil c hdt he1 u0 trs fuel h
  rw [abs_lt] at hδ
  have hcount : finalStepCount c = N := by
    unfold finalStepCount
    have e : (c.tEnd - c.tStart) / c.dt - c.eps = (N : K) + δ / c.dt - c.eps := by
      rw [hN]; field_simp
    rw [e]
    have h1 : δ / c.dt < c.eps := by rw [div_lt_iff₀ hdt]; exact hδ.2
    have h2 : -c.eps < δ / c.dt := by rw [lt_div_iff₀ hdt]; linarith [hδ.1]
    have : Int.ceil ((N : K) + δ / c.dt - c.eps) = (N : Int) := by
      rw [Int.ceil_eq_iff]; push_cast; constructor <;> linarith
    rw [this]; simp
  have ht : (runFuel c u0 trs fuel).tFinal = c.tStart + N * c.dt := by
    rw [lattice_invariant, hs, hcount]
  refine ⟨by rw [hs, hcount], ht, ?_⟩
  rw [ht]
  have : c.tStart + N * c.dt - c.tEnd = -δ := by linarith
  rw [this, abs_neg]

/-- **general_range**: for any range `t_end ≥ t_start` the run ends less than one step from
`t_end` (at most `eps*dt` before it), at `t_start + steps*dt`. -/
theorem general_range (c : Cfg K S σ) (hdt : 0 < c.dt) (he0 : 0 < c.eps) (he1 : c.eps < 1 / 2)
    (hT : c.tStart ≤ c.tEnd) (u0 : S) (trs : List (Tracker K S σ)) (fuel : Nat)
    (h : (runFuel c u0 trs fuel).exit.reachedEnd) :
    (runFuel c u0 trs fuel).tFinal = c.tStart + (runFuel c u0 trs fuel).steps * c.dt ∧
      c.tEnd - c.eps * c.dt ≤ (runFuel c u0 trs fuel).tFinal ∧
      (runFuel c u0 trs fuel).tFinal < c.tEnd + c.dt ∧
      |(runFuel c u0 trs fuel).tFinal - c.tEnd| < c.dt := by
  have hs := steps_eq_ceil c hdt he1 u0 trs fuel h
  have hl := lattice_invariant c u0 trs fuel
  set x := (c.tEnd - c.tStart) / c.dt - c.eps with hx
  have hxdt : x * c.dt = c.tEnd - c.tStart - c.eps * c.dt := by rw [hx]; field_simp
  have hcl : -1 < x := by
    have : 0 ≤ (c.tEnd - c.tStart) / c.dt := div_nonneg (by linarith) hdt.le
    rw [hx]; linarith
  have hceil0 : 0 ≤ Int.ceil x := by
    have : (-1 : Int) < Int.ceil x := by rw [Int.lt_ceil]; push_cast; exact hcl
    omega
  have hN : ((finalStepCount c : Nat) : K) = (Int.ceil x : K) := by
    have : ((finalStepCount c : Nat) : Int) = Int.ceil x := by unfold finalStepCount; rw [← hx]; omega
    have := congrArg (fun z : Int => (z : K)) this
    simpa using this
  have h1 : x ≤ (Int.ceil x : K) := Int.le_ceil x
  have h2 : (Int.ceil x : K) < x + 1 := Int.ceil_lt_add_one x
  have lo : c.tEnd - c.eps * c.dt ≤ (runFuel c u0 trs fuel).tFinal := by
    rw [hl, hs, hN]; nlinarith
  have hi : (runFuel c u0 trs fuel).tFinal < c.tEnd + c.dt := by
    rw [hl, hs, hN]; nlinarith
  refine ⟨hl, lo, hi, ?_⟩
  rw [abs_lt]
  constructor
  · nlinarith
  · linarith

/-! ### read-only trackers -/

theorem handle_readOnly (tr : Tracker K S σ) (h : tr.ReadOnly) (t : K) (u : S) :
    (tr.handle t u).2 = none ∧ (tr.handle t u).1.ReadOnly := by
  unfold Tracker.handle
  have h0 := h tr.calls t u
  simp only [h0]
  cases tr.kind <;> exact ⟨rfl, h⟩

theorem handleAll_readOnly (nxt : σ → K → σ × Option K) (atol t : K) (u : S) :
    ∀ (trs : List (Tracker K S σ)) (i : Nat), (∀ tr ∈ trs, tr.ReadOnly) →
      (handleAll nxt atol t u i trs).2.2 = none ∧ ∀ tr ∈ (handleAll nxt atol t u i trs).1, tr.ReadOnly := by
  intro trs
  induction trs with
  | nil => intro i _; simp [handleAll]
  | cons tr rest ih =>
    intro i h
    have htr := h tr (List.mem_cons_self)
    obtain ⟨r1, r2⟩ := ih (i + 1) (fun x hx => h x (List.mem_cons_of_mem _ hx))
    obtain ⟨e1, e2⟩ := handle_readOnly tr htr t u
    unfold handleAll
    split_ifs with hd
    · simp only
      refine ⟨by rw [r1, e1]; rfl, ?_⟩
      intro x hx
      rcases List.mem_cons.mp hx with rfl | hx
      · exact e2
      · exact r2 x hx
    · simp only
      refine ⟨r1, ?_⟩
      intro x hx
      rcases List.mem_cons.mp hx with rfl | hx
      · exact htr
      · exact r2 x hx

/-- with read-only trackers the main loop never leaves through the stop exit -/
theorem loop_readOnly (c : Cfg K S σ) :
    ∀ (fuel : Nat) (st : LState K S σ), (∀ tr ∈ st.trs, tr.ReadOnly) →
      (∀ tr ∈ (loop c fuel st).1.trs, tr.ReadOnly) ∧
      ((loop c fuel st).2 = .final ∨ (loop c fuel st).2 = .fuel) := by
  intro fuel
  induction fuel with
  | zero => intro st h; exact ⟨h, Or.inr rfl⟩
  | succ n ih =>
    intro st h
    unfold loop
    obtain ⟨r1, r2⟩ := handleAll_readOnly c.nxt (half * c.dt) st.t st.u st.trs 0 h
    rcases iterOnce_cases c st with ⟨_, e⟩ | ⟨hc, r, hr, e⟩ | ⟨hc, hn, e⟩
    · rw [e]; exact ⟨h, Or.inl rfl⟩
    · unfold mainHandle at hr; rw [r1] at hr; cases hr
    · rw [e]; exact ih (advance c st) r2

/-- **readonly_reaches_final**: a run observed only by read-only trackers reaches the final
time and reports it (`Reached final time`, successful) -/
theorem readonly_reaches_final (c : Cfg K S σ) (hdt : 0 < c.dt) (he0 : 0 ≤ c.eps) (he1 : c.eps < 1 / 2)
    (u0 : S) (trs : List (Tracker K S σ)) (h : ∀ tr ∈ trs, tr.ReadOnly) :
    (run c u0 trs).exit = .final := by
  have hterm := run_terminates c hdt he0 he1 u0 trs
  obtain ⟨r1, r2⟩ := loop_readOnly c (defaultFuel c) (initState c u0 trs) h
  have hne : (loop c (defaultFuel c) (initState c u0 trs)).2 ≠ .fuel := by
    intro hf
    apply hterm
    show (finalHandle c _).2 = .fuel
    rw [finalHandle_fuel]; exact hf
  have hfin : (loop c (defaultFuel c) (initState c u0 trs)).2 = .final := by
    rcases r2 with h1 | h1
    · exact h1
    · exact absurd h1 hne
  show (finalHandle c (loop c (defaultFuel c) (initState c u0 trs))).2 = .final
  obtain ⟨q1, _⟩ := handleAll_readOnly c.nxt (c.eps * c.dt)
    (loop c (defaultFuel c) (initState c u0 trs)).1.t (loop c (defaultFuel c) (initState c u0 trs)).1.u
    (loop c (defaultFuel c) (initState c u0 trs)).1.trs 0 r1
  unfold finalHandle
  rw [hfin]
  simp only [q1]

/-- **observation_independent**: two runs of the same simulation observed by two arbitrary sets
of read-only trackers (any number, any schedules) take the same number of steps, report the same
final time and return the same state. -/
theorem observation_independent (c : Cfg K S σ) (hdt : 0 < c.dt) (he0 : 0 ≤ c.eps) (he1 : c.eps < 1 / 2)
    (u0 : S) (trs trs' : List (Tracker K S σ)) (h : ∀ tr ∈ trs, tr.ReadOnly)
    (h' : ∀ tr ∈ trs', tr.ReadOnly) :
    (run c u0 trs).steps = (run c u0 trs').steps ∧ (run c u0 trs).tFinal = (run c u0 trs').tFinal ∧
      (run c u0 trs).state = (run c u0 trs').state := by
  have e1 := readonly_reaches_final c hdt he0 he1 u0 trs h
  have e2 := readonly_reaches_final c hdt he0 he1 u0 trs' h'
  have s1 := steps_eq_ceil c hdt he1 u0 trs (defaultFuel c) (by show (run c u0 trs).exit.reachedEnd; rw [e1]; trivial)
  have s2 := steps_eq_ceil c hdt he1 u0 trs' (defaultFuel c) (by show (run c u0 trs').exit.reachedEnd; rw [e2]; trivial)
  have hs : (run c u0 trs).steps = (run c u0 trs').steps := by
    show (runFuel c u0 trs _).steps = (runFuel c u0 trs' _).steps
    rw [s1, s2]
  refine ⟨hs, ?_, ?_⟩
  · show (runFuel c u0 trs _).tFinal = (runFuel c u0 trs' _).tFinal
    rw [lattice_invariant, lattice_invariant]
    show c.tStart + ((run c u0 trs).steps : K) * c.dt = c.tStart + ((run c u0 trs').steps : K) * c.dt
    rw [hs]
  · show (runFuel c u0 trs _).state = (runFuel c u0 trs' _).state
    rw [state_is_iterate, state_is_iterate]
    show stateAfter c u0 (run c u0 trs).steps = stateAfter c u0 (run c u0 trs').steps
    rw [hs]

/-- the property as a user reads it: `N` whole steps, any read-only trackers with any schedules,
the model's own fuel: `N` steps, `t_final = t_end`, final state = `N`-fold iterate, "Reached final
time", initial state untouched -/
theorem whole_range_exact_readonly (c : Cfg K S σ) (hdt : 0 < c.dt) (he0 : 0 < c.eps)
    (he1 : c.eps < 1 / 2) (N : Nat) (hN : c.tEnd - c.tStart = N * c.dt) (u0 : S)
    (trs : List (Tracker K S σ)) (h : ∀ tr ∈ trs, tr.ReadOnly) :
    (run c u0 trs).steps = N ∧ (run c u0 trs).tFinal = c.tEnd ∧
      (run c u0 trs).state = stateAfter c u0 N ∧ (run c u0 trs).exit = .final ∧
      (run c u0 trs).exit.reason = "Reached final time" ∧ (run c u0 trs).initial = u0 := by
  have e := readonly_reaches_final c hdt he0.le he1 u0 trs h
  have hre : (runFuel c u0 trs (defaultFuel c)).exit.reachedEnd := by
    show (run c u0 trs).exit.reachedEnd; rw [e]; trivial
  obtain ⟨h1, h2⟩ := whole_range_exact c hdt he0 he1 N hN u0 trs (defaultFuel c) hre
  refine ⟨h1, h2, ?_, e, by rw [e]; rfl, rfl⟩
  have := state_is_iterate c u0 trs (defaultFuel c)
  rw [h1] at this
  exact this

/-- the same for trackers that may ask to stop: whenever both runs get to the end of the loop -/
theorem observation_independent_of_reachedEnd (c : Cfg K S σ) (hdt : 0 < c.dt) (he1 : c.eps < 1 / 2)
    (u0 : S) (trs trs' : List (Tracker K S σ)) (fuel fuel' : Nat)
    (h : (runFuel c u0 trs fuel).exit.reachedEnd) (h' : (runFuel c u0 trs' fuel').exit.reachedEnd) :
    (runFuel c u0 trs fuel).steps = (runFuel c u0 trs' fuel').steps ∧
      (runFuel c u0 trs fuel).tFinal = (runFuel c u0 trs' fuel').tFinal ∧
      (runFuel c u0 trs fuel).state = (runFuel c u0 trs' fuel').state := by
  have s1 := steps_eq_ceil c hdt he1 u0 trs fuel h
  have s2 := steps_eq_ceil c hdt he1 u0 trs' fuel' h'
  refine ⟨by rw [s1, s2], ?_, ?_⟩
  · rw [lattice_invariant, lattice_invariant, s1, s2]
  · rw [state_is_iterate, state_is_iterate, s1, s2]

/-! ### solvers with their own persistent state

The state type `S` of the model is arbitrary, so it may contain whatever the stepper keeps between
two of its calls.  The driver instantiates `S` with `StepMaps.SolverState K` = cell value +
Adams-Bashforth's previous state (+ a raised `ConvergenceError`), and `step` with the update
formulas of the five fixed-step solvers.  The corollaries below spell out what
`observation_independent` / `state_is_iterate` then say: the *whole* solver state, including the
part no tracker ever sees, is independent of the observers.  (What the model takes for granted -
that the real stepper keeps this state in one place that survives an interrupt, instead of
re-creating it per call - is what the correspondence and the monitors check with the
state-dependent equations `u' = a*u`, `u' = a*u + t`.) -/

/-- **solver_state_survives_interrupts**: any two sets of read-only trackers leave every fixed-step
solver (Euler, Runge-Kutta, implicit Euler, Crank-Nicolson, Adams-Bashforth), applied to any
right-hand side `f`, in the same solver state: same cell value, same Adams-Bashforth previous
state, same convergence outcome. -/
theorem solver_state_survives_interrupts (sch : StepMaps.Scheme) (f : StepMaps.Rate K)
    (p : StepMaps.Params K) (dt tStart tEnd eps : K) (nxt : σ → K → σ × Option K)
    (hdt : 0 < dt) (he0 : 0 ≤ eps) (he1 : eps < 1 / 2) (u0 : K)
    (trs trs' : List (Tracker K (StepMaps.SolverState K) σ))
    (h : ∀ tr ∈ trs, tr.ReadOnly) (h' : ∀ tr ∈ trs', tr.ReadOnly) :
    let c : Cfg K (StepMaps.SolverState K) σ :=
      { dt := dt, tStart := tStart, tEnd := tEnd, eps := eps, step := StepMaps.stepOf sch f p dt, nxt := nxt }
    let s0 := StepMaps.initState sch f dt tStart u0
    (run c s0 trs).state = (run c s0 trs').state ∧ (run c s0 trs).steps = (run c s0 trs').steps := by
  intro c s0
  obtain ⟨h1, _, h3⟩ := observation_independent c hdt he0 he1 s0 trs trs' h h'
  exact ⟨h3, h1⟩

/-- the observed run equals the run nobody observes (empty tracker list) -/
theorem observed_run_eq_unobserved (c : Cfg K S σ) (hdt : 0 < c.dt) (he0 : 0 ≤ c.eps) (he1 : c.eps < 1 / 2)
    (u0 : S) (trs : List (Tracker K S σ)) (h : ∀ tr ∈ trs, tr.ReadOnly) :
    (run c u0 trs).steps = (run c u0 []).steps ∧ (run c u0 trs).tFinal = (run c u0 []).tFinal ∧
      (run c u0 trs).state = (run c u0 []).state :=
  observation_independent c hdt he0 he1 u0 trs [] h (by simp)

/-! ### robustness of the step count to rounding of the quotient -/

/-- **round_stable**: a computed quotient within 1/2 of the integer `N` rounds to `N` -/
theorem round_stable (q : K) (N : Int) (h : |q - N| < 1 / 2) : roundHE q = N :=
  roundHE_eq_of_abs_lt q N h

/-- **steps_stable_under_relative_error**: if a segment is exactly `N ≥ 1` steps long, the fixed
stepper takes `N` steps even when the quotient `(t_end - t_start)/dt` is computed with any
relative error `e`, `N*|e| < 1/4` (for IEEE doubles `|e| ≤ 3*2^-53`, so up to `N ~ 7e14` steps). -/
theorem steps_stable_under_relative_error (t s dt : K) (hdt : dt ≠ 0) (N : Nat) (hN : 1 ≤ N)
    (hs : s - t = N * dt) (e : K) (he : N * |e| < 1 / 4) :
    (max 1 (roundHE ((s - t) / dt * (1 + e)))).toNat = N := by
  have hq : (s - t) / dt = N := by rw [hs]; field_simp
  rw [hq]
  have : roundHE ((N : K) * (1 + e)) = (N : Int) := by
    apply roundHE_eq_of_abs_lt
    have : (N : K) * (1 + e) - ((N : Int) : K) = N * e := by push_cast; ring
    rw [this, abs_mul, abs_of_nonneg (by positivity : (0 : K) ≤ (N : K))]
    linarith
  rw [this]
  omega

/-! ### non-vacuity: a concrete run at `Rat` -/

/-- dt = 1/4, range [1/2, 3], two read-only trackers (interval 7/10 and fixed times 1, 2):
10 steps, ends at 3, six handle calls -/
def exCfg : Cfg Rat Rat (Sched Rat) :=
  { dt := 1 / 4, tStart := 1 / 2, tEnd := 3, eps := 1 / 1000000, step := fun u t => u + 1 / 4 * t,
    nxt := Sched.next }

def exTrackers : List (Tracker Rat Rat (Sched Rat)) :=
  [ (TrackerSpec.init { kind := .callback, sched := .const (7 / 10) none, stopAt := fun _ _ _ => none } (1 / 2)),
    (TrackerSpec.init { kind := .storage, sched := .fixed [1, 2], stopAt := fun _ _ _ => none } (1 / 2)) ]

example : (run exCfg 0 exTrackers).steps = 10 ∧ (run exCfg 0 exTrackers).tFinal = 3 ∧
    (run exCfg 0 exTrackers).state = 65 / 16 ∧ (run exCfg 0 exTrackers).exit = .final ∧
    (run exCfg 0 exTrackers).trace.map (fun e => (e.1, e.2.1)) =
      [(0, 1 / 2), (1, 1), (0, 5 / 4), (0, 2), (1, 2), (0, 5 / 2)] := by decide +kernel

/-- the hypotheses of the theorems hold for this run: `T = 10*dt`, read-only trackers -/
example : exCfg.tEnd - exCfg.tStart = (10 : Nat) * exCfg.dt ∧ 0 < exCfg.dt ∧ 0 < exCfg.eps ∧
    exCfg.eps < 1 / 2 := by
  refine ⟨by norm_num [exCfg], by norm_num [exCfg], by norm_num [exCfg], by norm_num [exCfg]⟩

example : ∀ tr ∈ exTrackers, tr.ReadOnly := by
  intro tr h
  simp only [exTrackers, List.mem_cons, List.not_mem_nil, or_false] at h
  rcases h with rfl | rfl <;> intro n t u <;> rfl

/-- Adams-Bashforth on `u' = -u/2`, dt = 1/4, range [0, 1]: observed at interval 3/10 or not at
all, the solver ends in the same state - cell value and previous state (kernel-evaluated) -/
def exAB2 : Cfg Rat (StepMaps.SolverState Rat) (Sched Rat) :=
  { dt := 1 / 4, tStart := 0, tEnd := 1, eps := 1 / 1000000,
    step := StepMaps.stepOf .ab2 (StepMaps.rateLin (-1 / 2)) { cells := 1, maxiter := 100, maxerr2 := 1 / 100000000 } (1 / 4),
    nxt := Sched.next }

def exAB2Trackers : List (Tracker Rat (StepMaps.SolverState Rat) (Sched Rat)) :=
  [ (TrackerSpec.init { kind := .callback, sched := .const (3 / 10) none, stopAt := fun _ _ _ => none } 0) ]

example :
    (run exAB2 (StepMaps.initState .ab2 (StepMaps.rateLin (-1 / 2)) (1 / 4) 0 1) exAB2Trackers).state =
      some (318949 / 524288, 22569 / 32768) ∧
    (run exAB2 (StepMaps.initState .ab2 (StepMaps.rateLin (-1 / 2)) (1 / 4) 0 1) []).state =
      some (318949 / 524288, 22569 / 32768) ∧
    (run exAB2 (StepMaps.initState .ab2 (StepMaps.rateLin (-1 / 2)) (1 / 4) 0 1) exAB2Trackers).trace.length = 4 := by
  decide +kernel

end
end PdeVerif.Controller
