import PdeVerif.Model.Conserve
import PdeVerif.Lemmas.Basic
import Mathlib.Tactic.Positivity
import Mathlib.Tactic.NormNum
import Mathlib.Algebra.Module.LinearMap.Defs
import Mathlib.Algebra.BigOperators.Group.List.Basic
/-
C05 - discrete conservation: no-flux Laplacian and divergence integrate to zero.
Theorems about `PdeVerif.Conserve` (volume-weighted sums of the `PdeVerif.Stencil` kernels with
ghost cells given by `PdeVerif.BC`).  All for any number of cells `n`, any spacing, any inner
radius, any field content, by telescoping (induction on `n`).

Continued in `Props/C05b.lean` (per-axis conserving ghost cells for every number of axes, Cartesian divergence in 2-d
and 3-d, cylindrical periodic `z`, composition with `BC.setGhostAll` and `Stencil.centre`) and `Props/C05c.lean` (the
solver steps and loops of `Model/Solvers.lean`).  NOTE: the ghost-cell hypotheses of the 2-d/3-d/cylindrical theorems
of *this* file quantify over all `j : Nat` (edges and corners included), which is more than `setGhostAll` delivers;
the versions with bounded hypotheses that compose with the ghost-cell model are in `Props/C05b.lean`.
-/
namespace PdeVerif.Conserve
open PdeVerif PdeVerif.Stencil PdeVerif.BC

section
variable {K : Type} [Field K] [CharZero K]

/-- telescoping: if `f (i+1) = g (i+1) - g i` then `Σ_{i=1}^{n} f i = g n - g 0` -/
theorem sumTo_telescope (f g : Nat → K) (h : ∀ i, f (i + 1) = g (i + 1) - g i) (n : Nat) :
    sumTo f n = g n - g 0 := by
  induction n with
  | zero => simp [sumTo]
  | succ n ih => simp only [sumTo]; rw [ih, h n]; ring

theorem sumTo_add (f g : Nat → K) (n : Nat) : sumTo (fun i => f i + g i) n = sumTo f n + sumTo g n := by
  induction n with
  | zero => simp [sumTo]
  | succ n ih => simp only [sumTo]; rw [ih]; ring

theorem sumTo_congr (f g : Nat → K) (n : Nat) (h : ∀ i, 1 ≤ i → i ≤ n → f i = g i) : sumTo f n = sumTo g n := by
  induction n with
  | zero => simp [sumTo]
  | succ n ih =>
    simp only [sumTo]
    rw [ih (fun i h1 h2 => h i h1 (by omega)), h (n + 1) (by omega) (le_refl _)]

theorem sumTo_zero (n : Nat) : sumTo (fun _ => (0:K)) n = 0 := by
  induction n with
  | zero => simp [sumTo]
  | succ n ih => simp only [sumTo]; rw [ih]; ring

theorem sumTo_comm (f : Nat → Nat → K) (n m : Nat) :
    sumTo (fun i => sumTo (fun j => f i j) m) n = sumTo (fun j => sumTo (fun i => f i j) n) m := by
  induction n with
  | zero => simp [sumTo, sumTo_zero]
  | succ n ih =>
    simp only [sumTo]
    rw [ih, ← sumTo_add]

/-! ### ghost cells of the conserving boundary conditions (link to the C02 model) -/

theorem neumann0_ghost (dx cell : K) : ghost1 (vpNeumann dx 0) cell = cell := by
  unfold ghost1 vpNeumann; simp
theorem dirichlet0_ghost (cell : K) : ghost1 (vpDirichlet (0:K)) cell = -cell := by
  unfold ghost1 vpDirichlet; simp
theorem periodic_ghost (opp : K) : ghost1 (vpPeriodic false) opp = opp := by
  unfold ghost1 vpPeriodic; simp

/-! ### Cartesian Laplacian -/

theorem cartLaplace_1d (dx : K) (a : Arr K) (i : Int) : cartLaplace [dx] a [] [i] = d2 dx a [i] 0 := by
  simp [cartLaplace, lsum]

/-- flux form in 1-d: the weighted sum equals the difference of the boundary fluxes -/
theorem cart1_laplace_sum (dx : K) (hdx : dx ≠ 0) (a : Arr K) (n : Nat) :
    intCart1Laplace dx a n = (a [(n:Int) + 1] - a [(n:Int)]) / dx - (a [1] - a [0]) / dx := by
  unfold intCart1Laplace
  have := sumTo_telescope (fun i => dx * cartLaplace [dx] a [] [(i:Int)])
    (fun i => (a [(i:Int) + 1] - a [(i:Int)]) / dx) (by
      intro i
      simp only [cartLaplace_1d, d2, shift]
      simp only [List.getD_cons_zero, List.set_cons_zero]
      push_cast
      have e1 : ((i:Int) + 1 + -1) = (i:Int) := by ring
      rw [e1]
      field_simp
      ring) n
  rw [this]; simp

/-- zero-flux (Neumann-0) ghost cells: the integral of the Laplacian vanishes, any `n` -/
theorem cart1_laplace_integral_zero_neumann (dx : K) (hdx : dx ≠ 0) (a : Arr K) (n : Nat)
    (hlo : a [0] = ghost1 (vpNeumann dx 0) (a [1]))
    (hhi : a [(n:Int) + 1] = ghost1 (vpNeumann dx 0) (a [(n:Int)])) :
    intCart1Laplace dx a n = 0 := by
  rw [cart1_laplace_sum dx hdx, hlo, hhi, neumann0_ghost, neumann0_ghost]; simp

/-- periodic ghost cells: the integral of the Laplacian vanishes, any `n` -/
theorem cart1_laplace_integral_zero_periodic (dx : K) (hdx : dx ≠ 0) (a : Arr K) (n : Nat)
    (hlo : a [0] = ghost1 (vpPeriodic false) (a [(n:Int)]))
    (hhi : a [(n:Int) + 1] = ghost1 (vpPeriodic false) (a [1])) :
    intCart1Laplace dx a n = 0 := by
  rw [cart1_laplace_sum dx hdx, hlo, hhi, periodic_ghost, periodic_ghost]; ring

/-! ### polar Laplacian (not written in flux form, but it is one) -/

/-- `V_i L_i = 2 rh_i (f_{i+1}-f_i)/dr - 2 rl_i (f_i-f_{i-1})/dr` -/
theorem polar_laplace_flux_form (r : Int → K) (dr : K) (a : Arr K) (i : Int) (hdr : dr ≠ 0) (hr : r i ≠ 0) :
    volPolar r dr i * polarLaplace r dr a i =
      2 * (r i + dr / 2) * (a [i + 1] - a [i]) / dr - 2 * (r i - dr / 2) * (a [i] - a [i - 1]) / dr := by
  unfold volPolar polarLaplace
  push_cast
  field_simp
  ring

/-- any number of cells, any inner radius: only the two boundary fluxes remain -/
theorem polar_laplace_sum (r : Int → K) (dr : K) (a : Arr K) (n : Nat) (hdr : dr ≠ 0)
    (hlat : ∀ i : Int, r (i + 1) = r i + dr) (hr : ∀ i : Nat, 1 ≤ i → r i ≠ 0) :
    intPolarLaplace r dr a n =
      2 * (r n + dr / 2) * (a [(n:Int) + 1] - a [(n:Int)]) / dr - 2 * (r 0 + dr / 2) * (a [1] - a [0]) / dr := by
  unfold intPolarLaplace
  have := sumTo_telescope (fun i => volPolar r dr (i:Int) * polarLaplace r dr a (i:Int))
    (fun i => 2 * (r (i:Int) + dr / 2) * (a [(i:Int) + 1] - a [(i:Int)]) / dr) (by
      intro i
      have h1 := polar_laplace_flux_form r dr a ((i:Int) + 1) hdr (by
        have := hr (i + 1) (by omega); push_cast at this; exact this)
      push_cast
      rw [h1, hlat]
      have e1 : ((i:Int) + 1 - 1) = (i:Int) := by ring
      rw [e1]
      field_simp
      ring) n
  rw [this]; simp

/-- full disk (`r_min = 0`, i.e. `r 0 = -dr/2`): no inner condition is needed at all; with a
zero-flux outer ghost cell the integral vanishes -/
theorem polar_laplace_integral_zero (r : Int → K) (dr : K) (a : Arr K) (n : Nat) (hdr : dr ≠ 0)
    (hlat : ∀ i : Int, r (i + 1) = r i + dr) (hr : ∀ i : Nat, 1 ≤ i → r i ≠ 0)
    (hinner : r 0 + dr / 2 = 0 ∨ a [0] = ghost1 (vpNeumann dr 0) (a [1]))
    (houter : a [(n:Int) + 1] = ghost1 (vpNeumann dr 0) (a [(n:Int)])) :
    intPolarLaplace r dr a n = 0 := by
  rw [polar_laplace_sum r dr a n hdr hlat hr, houter, neumann0_ghost]
  rcases hinner with h | h
  · rw [h]; simp
  · rw [h, neumann0_ghost]; simp

/-! ### conservative spherical Laplacian -/

theorem shell_ne (ρ dr : K) (hdr : dr ≠ 0) (hv : dr^2 + 12 * ρ^2 ≠ 0) :
    shellThird (ρ - dr / 2) (ρ + dr / 2) ≠ 0 := by
  have e : shellThird (ρ - dr / 2) (ρ + dr / 2) = dr * (dr^2 + 12 * ρ^2) / 12 := by
    unfold shellThird; push_cast; ring
  rw [e]
  exact div_ne_zero (mul_ne_zero hdr hv) (by norm_num)

theorem sph_laplace_flux_form (r : Int → K) (dr : K) (a : Arr K) (i : Int) (hdr : dr ≠ 0)
    (hv : dr^2 + 12 * (r i)^2 ≠ 0) :
    volSph r dr i * sphLaplace true r dr a i =
      4 * (r i + dr / 2)^2 * (a [i + 1] - a [i]) / dr - 4 * (r i - dr / 2)^2 * (a [i] - a [i - 1]) / dr := by
  have hs := shell_ne (r i) dr hdr hv
  unfold volSph sphLaplace
  simp only [if_true]
  push_cast at hs ⊢
  generalize shellThird (r i - dr / 2) (r i + dr / 2) = S at hs ⊢
  field_simp
  try ring

theorem sph_laplace_conservative_sum (r : Int → K) (dr : K) (a : Arr K) (n : Nat) (hdr : dr ≠ 0)
    (hlat : ∀ i : Int, r (i + 1) = r i + dr) (hv : ∀ i : Nat, dr^2 + 12 * (r i)^2 ≠ 0) :
    intSphLaplace true r dr a n =
      4 * (r n + dr / 2)^2 * (a [(n:Int) + 1] - a [(n:Int)]) / dr - 4 * (r 0 + dr / 2)^2 * (a [1] - a [0]) / dr := by
  unfold intSphLaplace
  have := sumTo_telescope (fun i => volSph r dr (i:Int) * sphLaplace true r dr a (i:Int))
    (fun i => 4 * (r (i:Int) + dr / 2)^2 * (a [(i:Int) + 1] - a [(i:Int)]) / dr) (by
      intro i
      have h1 := sph_laplace_flux_form r dr a ((i:Int) + 1) hdr (by
        have := hv (i + 1); push_cast at this; exact this)
      push_cast
      rw [h1, hlat]
      have e1 : ((i:Int) + 1 - 1) = (i:Int) := by ring
      rw [e1]
      field_simp
      ring) n
  rw [this]; simp

theorem sph_laplace_conservative_integral_zero (r : Int → K) (dr : K) (a : Arr K) (n : Nat) (hdr : dr ≠ 0)
    (hlat : ∀ i : Int, r (i + 1) = r i + dr) (hv : ∀ i : Nat, dr^2 + 12 * (r i)^2 ≠ 0)
    (hinner : r 0 + dr / 2 = 0 ∨ a [0] = ghost1 (vpNeumann dr 0) (a [1]))
    (houter : a [(n:Int) + 1] = ghost1 (vpNeumann dr 0) (a [(n:Int)])) :
    intSphLaplace true r dr a n = 0 := by
  rw [sph_laplace_conservative_sum r dr a n hdr hlat hv, houter, neumann0_ghost]
  rcases hinner with h | h
  · rw [h]; simp
  · rw [h, neumann0_ghost]; simp

/-! ### two axes: Cartesian 2-d and cylindrical (sums over both axes, any `n × m`) -/

theorem sumTo_mul_left (c : K) (f : Nat → K) (n : Nat) : sumTo (fun i => c * f i) n = c * sumTo f n := by
  induction n with
  | zero => simp [sumTo]
  | succ n ih => simp only [sumTo]; rw [ih]; ring

/-- telescoping of a second difference of a function on the integers -/
theorem d2_fun_sum (dx : K) (hdx : dx ≠ 0) (f : Int → K) (n : Nat) :
    sumTo (fun i => dx * ((f ((i:Int) + 1) - 2 * f (i:Int) + f ((i:Int) - 1)) / (dx * dx))) n
      = (f ((n:Int) + 1) - f (n:Int)) / dx - (f 1 - f 0) / dx := by
  have := sumTo_telescope (fun i => dx * ((f ((i:Int) + 1) - 2 * f (i:Int) + f ((i:Int) - 1)) / (dx * dx)))
    (fun i => (f ((i:Int) + 1) - f (i:Int)) / dx) (by
      intro i
      push_cast
      have e1 : ((i:Int) + 1 - 1) = (i:Int) := by ring
      rw [e1]
      field_simp
      ring) n
  rw [this]; simp

/-- telescoping of the radial part of the polar/cylindrical Laplacian weighted with `2 dr r_i` -/
theorem radial_fun_sum (r : Int → K) (dr : K) (hdr : dr ≠ 0) (f : Int → K) (n : Nat)
    (hlat : ∀ i : Int, r (i + 1) = r i + dr) (hr : ∀ i : Nat, 1 ≤ i → r i ≠ 0) :
    sumTo (fun i => 2 * dr * r (i:Int) * ((f ((i:Int) + 1) - 2 * f (i:Int) + f ((i:Int) - 1)) / (dr * dr)
        + (f ((i:Int) + 1) - f ((i:Int) - 1)) / (2 * r (i:Int) * dr))) n
      = 2 * (r n + dr / 2) * (f ((n:Int) + 1) - f (n:Int)) / dr - 2 * (r 0 + dr / 2) * (f 1 - f 0) / dr := by
  have := sumTo_telescope (fun i => 2 * dr * r (i:Int) * ((f ((i:Int) + 1) - 2 * f (i:Int) + f ((i:Int) - 1)) / (dr * dr)
        + (f ((i:Int) + 1) - f ((i:Int) - 1)) / (2 * r (i:Int) * dr)))
    (fun i => 2 * (r (i:Int) + dr / 2) * (f ((i:Int) + 1) - f (i:Int)) / dr) (by
      intro i
      have hri : r ((i:Int) + 1) ≠ 0 := by have := hr (i + 1) (by omega); push_cast at this; exact this
      push_cast
      have e1 : ((i:Int) + 1 - 1) = (i:Int) := by ring
      rw [e1]
      have e2 : r (i:Int) = r ((i:Int) + 1) - dr := by rw [hlat]; ring
      rw [e2]
      field_simp
      ring) n
  rw [this]; simp

theorem cartLaplace_2d (dx dy : K) (a : Arr K) (i j : Int) :
    cartLaplace [dx, dy] a [] [i, j] =
      (a [i + 1, j] - 2 * a [i, j] + a [i - 1, j]) / (dx * dx)
        + (a [i, j + 1] - 2 * a [i, j] + a [i, j - 1]) / (dy * dy) := by
  simp [cartLaplace, lsum, d2, shift, List.range_succ]
  push_cast
  ring_nf

/-- 2-d Cartesian Laplacian: the integral is the sum of the four face fluxes -/
theorem cart2_laplace_sum (dx dy : K) (hdx : dx ≠ 0) (hdy : dy ≠ 0) (a : Arr K) (n m : Nat) :
    intCart2Laplace dx dy a n m =
      sumTo (fun j => dy * ((a [(n:Int) + 1, (j:Int)] - a [(n:Int), (j:Int)]) / dx
                            - (a [1, (j:Int)] - a [0, (j:Int)]) / dx)) m
      + sumTo (fun i => dx * ((a [(i:Int), (m:Int) + 1] - a [(i:Int), (m:Int)]) / dy
                              - (a [(i:Int), 1] - a [(i:Int), 0]) / dy)) n := by
  unfold intCart2Laplace
  have split : ∀ i j : Nat, dx * dy * cartLaplace [dx, dy] a [] [(i:Int), (j:Int)] =
      dy * (dx * ((a [(i:Int) + 1, (j:Int)] - 2 * a [(i:Int), (j:Int)] + a [(i:Int) - 1, (j:Int)]) / (dx * dx)))
      + dx * (dy * ((a [(i:Int), (j:Int) + 1] - 2 * a [(i:Int), (j:Int)] + a [(i:Int), (j:Int) - 1]) / (dy * dy))) := by
    intro i j; rw [cartLaplace_2d]; ring
  simp only [split, sumTo_add]
  congr 1
  · rw [sumTo_comm]
    apply sumTo_congr
    intro j _ _
    rw [sumTo_mul_left]
    have := d2_fun_sum dx hdx (fun i => a [i, (j:Int)]) n
    rw [this]
  · apply sumTo_congr
    intro i _ _
    rw [sumTo_mul_left]
    have := d2_fun_sum dy hdy (fun j => a [(i:Int), j]) m
    rw [this]

/-- zero-flux ghost cells on all four faces: the integral vanishes -/
theorem cart2_laplace_integral_zero_neumann (dx dy : K) (hdx : dx ≠ 0) (hdy : dy ≠ 0) (a : Arr K) (n m : Nat)
    (hx0 : ∀ j : Nat, a [0, (j:Int)] = a [1, (j:Int)]) (hx1 : ∀ j : Nat, a [(n:Int) + 1, (j:Int)] = a [(n:Int), (j:Int)])
    (hy0 : ∀ i : Nat, a [(i:Int), 0] = a [(i:Int), 1]) (hy1 : ∀ i : Nat, a [(i:Int), (m:Int) + 1] = a [(i:Int), (m:Int)]) :
    intCart2Laplace dx dy a n m = 0 := by
  rw [cart2_laplace_sum dx dy hdx hdy]
  have h1 : sumTo (fun j : Nat => dy * ((a [(n:Int) + 1, (j:Int)] - a [(n:Int), (j:Int)]) / dx
      - (a [1, (j:Int)] - a [0, (j:Int)]) / dx)) m = 0 := by
    rw [sumTo_congr _ (fun _ => (0:K)) m (by intro j _ _; rw [hx0, hx1]; simp), sumTo_zero]
  have h2 : sumTo (fun i : Nat => dx * ((a [(i:Int), (m:Int) + 1] - a [(i:Int), (m:Int)]) / dy
      - (a [(i:Int), 1] - a [(i:Int), 0]) / dy)) n = 0 := by
    rw [sumTo_congr _ (fun _ => (0:K)) n (by intro i _ _; rw [hy0, hy1]; simp), sumTo_zero]
  rw [h1, h2]; simp

/-- periodic ghost cells on both axes: the integral vanishes -/
theorem cart2_laplace_integral_zero_periodic (dx dy : K) (hdx : dx ≠ 0) (hdy : dy ≠ 0) (a : Arr K) (n m : Nat)
    (hx0 : ∀ j : Nat, a [0, (j:Int)] = a [(n:Int), (j:Int)]) (hx1 : ∀ j : Nat, a [(n:Int) + 1, (j:Int)] = a [1, (j:Int)])
    (hy0 : ∀ i : Nat, a [(i:Int), 0] = a [(i:Int), (m:Int)]) (hy1 : ∀ i : Nat, a [(i:Int), (m:Int) + 1] = a [(i:Int), 1]) :
    intCart2Laplace dx dy a n m = 0 := by
  rw [cart2_laplace_sum dx dy hdx hdy]
  have h1 : sumTo (fun j : Nat => dy * ((a [(n:Int) + 1, (j:Int)] - a [(n:Int), (j:Int)]) / dx
      - (a [1, (j:Int)] - a [0, (j:Int)]) / dx)) m = 0 := by
    rw [sumTo_congr _ (fun _ => (0:K)) m (by intro j _ _; rw [hx0, hx1]; ring), sumTo_zero]
  have h2 : sumTo (fun i : Nat => dx * ((a [(i:Int), (m:Int) + 1] - a [(i:Int), (m:Int)]) / dy
      - (a [(i:Int), 1] - a [(i:Int), 0]) / dy)) n = 0 := by
    rw [sumTo_congr _ (fun _ => (0:K)) n (by intro i _ _; rw [hy0, hy1]; ring), sumTo_zero]
  rw [h1, h2]; simp

theorem cartLaplace_3d (dx dy dz : K) (a : Arr K) (i j k : Int) :
    cartLaplace [dx, dy, dz] a [] [i, j, k] =
      (a [i + 1, j, k] - 2 * a [i, j, k] + a [i - 1, j, k]) / (dx * dx)
        + (a [i, j + 1, k] - 2 * a [i, j, k] + a [i, j - 1, k]) / (dy * dy)
        + (a [i, j, k + 1] - 2 * a [i, j, k] + a [i, j, k - 1]) / (dz * dz) := by
  simp [cartLaplace, lsum, d2, shift, List.range_succ]
  push_cast
  ring_nf

/-- 3-d Cartesian Laplacian with zero-flux ghost cells on all six faces: the integral vanishes for
any `n × m × l` cells and anisotropic spacings -/
theorem cart3_laplace_integral_zero_neumann (dx dy dz : K) (hdx : dx ≠ 0) (hdy : dy ≠ 0) (hdz : dz ≠ 0)
    (a : Arr K) (n m l : Nat)
    (hx0 : ∀ j k : Nat, a [0, (j:Int), (k:Int)] = a [1, (j:Int), (k:Int)])
    (hx1 : ∀ j k : Nat, a [(n:Int) + 1, (j:Int), (k:Int)] = a [(n:Int), (j:Int), (k:Int)])
    (hy0 : ∀ i k : Nat, a [(i:Int), 0, (k:Int)] = a [(i:Int), 1, (k:Int)])
    (hy1 : ∀ i k : Nat, a [(i:Int), (m:Int) + 1, (k:Int)] = a [(i:Int), (m:Int), (k:Int)])
    (hz0 : ∀ i j : Nat, a [(i:Int), (j:Int), 0] = a [(i:Int), (j:Int), 1])
    (hz1 : ∀ i j : Nat, a [(i:Int), (j:Int), (l:Int) + 1] = a [(i:Int), (j:Int), (l:Int)]) :
    intCart3Laplace dx dy dz a n m l = 0 := by
  unfold intCart3Laplace
  have split : ∀ i j k : Nat, dx * dy * dz * cartLaplace [dx, dy, dz] a [] [(i:Int), (j:Int), (k:Int)] =
      dy * dz * (dx * ((a [(i:Int) + 1, (j:Int), (k:Int)] - 2 * a [(i:Int), (j:Int), (k:Int)]
          + a [(i:Int) - 1, (j:Int), (k:Int)]) / (dx * dx)))
      + dx * dz * (dy * ((a [(i:Int), (j:Int) + 1, (k:Int)] - 2 * a [(i:Int), (j:Int), (k:Int)]
          + a [(i:Int), (j:Int) - 1, (k:Int)]) / (dy * dy)))
      + dx * dy * (dz * ((a [(i:Int), (j:Int), (k:Int) + 1] - 2 * a [(i:Int), (j:Int), (k:Int)]
          + a [(i:Int), (j:Int), (k:Int) - 1]) / (dz * dz))) := by
    intro i j k; rw [cartLaplace_3d]; ring
  simp only [split, sumTo_add]
  -- x part: bring the i-sum inside
  have hX : sumTo (fun i => sumTo (fun j => sumTo (fun k => dy * dz * (dx * ((a [(i:Int) + 1, (j:Int), (k:Int)]
      - 2 * a [(i:Int), (j:Int), (k:Int)] + a [(i:Int) - 1, (j:Int), (k:Int)]) / (dx * dx)))) l) m) n = 0 := by
    rw [sumTo_comm]
    rw [sumTo_congr _ (fun _ => (0:K)) m (by
      intro j _ _
      rw [sumTo_comm]
      rw [sumTo_congr _ (fun _ => (0:K)) l (by
        intro k _ _
        rw [sumTo_mul_left]
        have := d2_fun_sum dx hdx (fun i => a [i, (j:Int), (k:Int)]) n
        rw [this, hx0, hx1]; simp), sumTo_zero]), sumTo_zero]
  have hY : sumTo (fun i => sumTo (fun j => sumTo (fun k => dx * dz * (dy * ((a [(i:Int), (j:Int) + 1, (k:Int)]
      - 2 * a [(i:Int), (j:Int), (k:Int)] + a [(i:Int), (j:Int) - 1, (k:Int)]) / (dy * dy)))) l) m) n = 0 := by
    rw [sumTo_congr _ (fun _ => (0:K)) n (by
      intro i _ _
      rw [sumTo_comm]
      rw [sumTo_congr _ (fun _ => (0:K)) l (by
        intro k _ _
        rw [sumTo_mul_left]
        have := d2_fun_sum dy hdy (fun j => a [(i:Int), j, (k:Int)]) m
        rw [this, hy0, hy1]; simp), sumTo_zero]), sumTo_zero]
  have hZ : sumTo (fun i => sumTo (fun j => sumTo (fun k => dx * dy * (dz * ((a [(i:Int), (j:Int), (k:Int) + 1]
      - 2 * a [(i:Int), (j:Int), (k:Int)] + a [(i:Int), (j:Int), (k:Int) - 1]) / (dz * dz)))) l) m) n = 0 := by
    rw [sumTo_congr _ (fun _ => (0:K)) n (by
      intro i _ _
      rw [sumTo_congr _ (fun _ => (0:K)) m (by
        intro j _ _
        rw [sumTo_mul_left]
        have := d2_fun_sum dz hdz (fun k => a [(i:Int), (j:Int), k]) l
        rw [this, hz0, hz1]; simp), sumTo_zero]), sumTo_zero]
  rw [hX, hY, hZ]; simp

/-- cylindrical Laplacian with the volumes `2 dr r_i dz` (factor `π` dropped): the integral is the
sum of the radial and axial face fluxes, for any `n × m` cells and any inner radius -/
theorem cyl_laplace_sum (r : Int → K) (dr dz : K) (hdr : dr ≠ 0) (hdz : dz ≠ 0) (a : Arr K) (n m : Nat)
    (hlat : ∀ i : Int, r (i + 1) = r i + dr) (hr : ∀ i : Nat, 1 ≤ i → r i ≠ 0) :
    intCylLaplace r dr dz a n m =
      sumTo (fun j => dz * (2 * (r n + dr / 2) * (a [(n:Int) + 1, (j:Int)] - a [(n:Int), (j:Int)]) / dr
                            - 2 * (r 0 + dr / 2) * (a [1, (j:Int)] - a [0, (j:Int)]) / dr)) m
      + sumTo (fun i => 2 * dr * r (i:Int) * ((a [(i:Int), (m:Int) + 1] - a [(i:Int), (m:Int)]) / dz
                              - (a [(i:Int), 1] - a [(i:Int), 0]) / dz)) n := by
  unfold intCylLaplace
  have split : ∀ i j : Nat, volCyl r dr dz (i:Int) * cylLaplace r dr dz a (i:Int) (j:Int) =
      dz * (2 * dr * r (i:Int) * ((a [(i:Int) + 1, (j:Int)] - 2 * a [(i:Int), (j:Int)] + a [(i:Int) - 1, (j:Int)]) / (dr * dr)
        + (a [(i:Int) + 1, (j:Int)] - a [(i:Int) - 1, (j:Int)]) / (2 * r (i:Int) * dr)))
      + 2 * dr * r (i:Int) * (dz * ((a [(i:Int), (j:Int) + 1] - 2 * a [(i:Int), (j:Int)] + a [(i:Int), (j:Int) - 1]) / (dz * dz))) := by
    intro i j; unfold volCyl cylLaplace; push_cast; ring
  simp only [split, sumTo_add]
  congr 1
  · rw [sumTo_comm]
    apply sumTo_congr
    intro j _ _
    rw [sumTo_mul_left]
    have := radial_fun_sum r dr hdr (fun i => a [i, (j:Int)]) n hlat hr
    rw [this]
  · apply sumTo_congr
    intro i _ _
    rw [sumTo_mul_left]
    have := d2_fun_sum dz hdz (fun j => a [(i:Int), j]) m
    rw [this]

/-- zero-flux outer and axial ghost cells (and either a full cylinder or a zero-flux inner
ghost cell): the integral vanishes -/
theorem cyl_laplace_integral_zero (r : Int → K) (dr dz : K) (hdr : dr ≠ 0) (hdz : dz ≠ 0) (a : Arr K) (n m : Nat)
    (hlat : ∀ i : Int, r (i + 1) = r i + dr) (hr : ∀ i : Nat, 1 ≤ i → r i ≠ 0)
    (hinner : r 0 + dr / 2 = 0 ∨ ∀ j : Nat, a [0, (j:Int)] = a [1, (j:Int)])
    (houter : ∀ j : Nat, a [(n:Int) + 1, (j:Int)] = a [(n:Int), (j:Int)])
    (hz0 : ∀ i : Nat, a [(i:Int), 0] = a [(i:Int), 1]) (hz1 : ∀ i : Nat, a [(i:Int), (m:Int) + 1] = a [(i:Int), (m:Int)]) :
    intCylLaplace r dr dz a n m = 0 := by
  rw [cyl_laplace_sum r dr dz hdr hdz a n m hlat hr]
  have h1 : sumTo (fun j : Nat => dz * (2 * (r n + dr / 2) * (a [(n:Int) + 1, (j:Int)] - a [(n:Int), (j:Int)]) / dr
      - 2 * (r 0 + dr / 2) * (a [1, (j:Int)] - a [0, (j:Int)]) / dr)) m = 0 := by
    rw [sumTo_congr _ (fun _ => (0:K)) m (by
      intro j _ _
      rw [houter]
      rcases hinner with h | h
      · rw [h]; simp
      · rw [h]; simp), sumTo_zero]
  have h2 : sumTo (fun i : Nat => 2 * dr * r (i:Int) * ((a [(i:Int), (m:Int) + 1] - a [(i:Int), (m:Int)]) / dz
      - (a [(i:Int), 1] - a [(i:Int), 0]) / dz)) n = 0 := by
    rw [sumTo_congr _ (fun _ => (0:K)) n (by intro i _ _; rw [hz0, hz1]; simp), sumTo_zero]
  rw [h1, h2]; simp

/-- the cylindrical volume used by the code equals the exact annulus volume -/
theorem cyl_volume_identity (r : Int → K) (dr dz : K) (i : Int) :
    volCyl r dr dz i = volPolar r dr i * dz := by
  unfold volCyl volPolar; push_cast; ring

/-! ### divergence -/

theorem cartDivergence_1d (m : Method) (dx : K) (a : Arr K) (i : Int) :
    cartDivergence m [dx] a [] [i] = d1 m dx a [0, i] 1 := by
  simp [cartDivergence, lsum]

/-- central divergence in 1-d: the sum is the difference of the face averages -/
theorem cart1_divergence_central_sum (dx : K) (hdx : dx ≠ 0) (a : Arr K) (n : Nat) :
    intCart1Divergence .central dx a n =
      (a [0, (n:Int) + 1] + a [0, (n:Int)]) / 2 - (a [0, 1] + a [0, 0]) / 2 := by
  unfold intCart1Divergence
  have := sumTo_telescope (fun i => dx * cartDivergence .central [dx] a [] [(i:Int)])
    (fun i => (a [0, (i:Int) + 1] + a [0, (i:Int)]) / 2) (by
      intro i
      simp only [cartDivergence_1d, d1, shift]
      simp only [List.getD_cons_zero, List.getD_cons_succ, List.set_cons_zero, List.set_cons_succ]
      push_cast
      have e1 : ((i:Int) + 1 + -1) = (i:Int) := by ring
      rw [e1]
      field_simp
      ring) n
  rw [this]; simp

/-- vanishing normal component (Dirichlet-0 ghost cell `v_ghost = -v_cell`): the integral of the
central divergence vanishes -/
theorem cart1_divergence_integral_zero (dx : K) (hdx : dx ≠ 0) (a : Arr K) (n : Nat)
    (hlo : a [0, 0] = ghost1 (vpDirichlet (0:K)) (a [0, 1]))
    (hhi : a [0, (n:Int) + 1] = ghost1 (vpDirichlet (0:K)) (a [0, (n:Int)])) :
    intCart1Divergence .central dx a n = 0 := by
  rw [cart1_divergence_central_sum dx hdx, hlo, hhi, dirichlet0_ghost, dirichlet0_ghost]; ring

/-- every variant of the divergence conserves on a periodic axis -/
theorem cart1_divergence_integral_zero_periodic (m : Method) (dx : K) (hdx : dx ≠ 0) (a : Arr K) (n : Nat)
    (hlo : a [0, 0] = a [0, (n:Int)]) (hhi : a [0, (n:Int) + 1] = a [0, 1]) :
    intCart1Divergence m dx a n = 0 := by
  cases m with
  | central => rw [cart1_divergence_central_sum dx hdx, hlo, hhi]; ring
  | forward =>
    unfold intCart1Divergence
    have := sumTo_telescope (fun i => dx * cartDivergence .forward [dx] a [] [(i:Int)])
      (fun i => a [0, (i:Int) + 1]) (by
        intro i
        simp only [cartDivergence_1d, d1, shift]
        simp only [List.getD_cons_zero, List.getD_cons_succ, List.set_cons_zero, List.set_cons_succ]
        push_cast
        field_simp) n
    rw [this]; simp [hhi]
  | backward =>
    unfold intCart1Divergence
    have := sumTo_telescope (fun i => dx * cartDivergence .backward [dx] a [] [(i:Int)])
      (fun i => a [0, (i:Int)]) (by
        intro i
        simp only [cartDivergence_1d, d1, shift]
        simp only [List.getD_cons_zero, List.getD_cons_succ, List.set_cons_zero, List.set_cons_succ]
        push_cast
        have e1 : ((i:Int) + 1 + -1) = (i:Int) := by ring
        rw [e1]
        field_simp) n
    rw [this]; simp [hlo]

/-- conservative spherical divergence (central): flux form `2 rh² (v_i + v_{i+1}) - 2 rl² (v_{i-1} + v_i)` -/
theorem sph_divergence_flux_form (r : Int → K) (dr : K) (a : Arr K) (i : Int) (hdr : dr ≠ 0)
    (hv : dr^2 + 12 * (r i)^2 ≠ 0) :
    volSph r dr i * sphDivergence true .central r dr a i =
      2 * (r i + dr / 2)^2 * (a [0, i] + a [0, i + 1]) - 2 * (r i - dr / 2)^2 * (a [0, i - 1] + a [0, i]) := by
  have hs := shell_ne (r i) dr hdr hv
  unfold volSph sphDivergence
  simp only [if_true]
  push_cast at hs ⊢
  generalize shellThird (r i - dr / 2) (r i + dr / 2) = S at hs ⊢
  field_simp
  try ring

theorem sph_divergence_conservative_sum (r : Int → K) (dr : K) (a : Arr K) (n : Nat) (hdr : dr ≠ 0)
    (hlat : ∀ i : Int, r (i + 1) = r i + dr) (hv : ∀ i : Nat, dr^2 + 12 * (r i)^2 ≠ 0) :
    intSphDivergence true .central r dr a n =
      2 * (r n + dr / 2)^2 * (a [0, (n:Int)] + a [0, (n:Int) + 1]) - 2 * (r 0 + dr / 2)^2 * (a [0, 0] + a [0, 1]) := by
  unfold intSphDivergence
  have := sumTo_telescope (fun i => volSph r dr (i:Int) * sphDivergence true .central r dr a (i:Int))
    (fun i => 2 * (r (i:Int) + dr / 2)^2 * (a [0, (i:Int)] + a [0, (i:Int) + 1])) (by
      intro i
      have h1 := sph_divergence_flux_form r dr a ((i:Int) + 1) hdr (by
        have := hv (i + 1); push_cast at this; exact this)
      push_cast
      rw [h1, hlat]
      have e1 : ((i:Int) + 1 - 1) = (i:Int) := by ring
      rw [e1]
      ring) n
  rw [this]; simp

/-- vanishing normal component outside, and inside either `r_min = 0` or a vanishing normal component -/
theorem sph_divergence_conservative_integral_zero (r : Int → K) (dr : K) (a : Arr K) (n : Nat) (hdr : dr ≠ 0)
    (hlat : ∀ i : Int, r (i + 1) = r i + dr) (hv : ∀ i : Nat, dr^2 + 12 * (r i)^2 ≠ 0)
    (hinner : r 0 + dr / 2 = 0 ∨ a [0, 0] = ghost1 (vpDirichlet (0:K)) (a [0, 1]))
    (houter : a [0, (n:Int) + 1] = ghost1 (vpDirichlet (0:K)) (a [0, (n:Int)])) :
    intSphDivergence true .central r dr a n = 0 := by
  rw [sph_divergence_conservative_sum r dr a n hdr hlat hv, houter, dirichlet0_ghost]
  rcases hinner with h | h
  · rw [h]; ring
  · rw [h, dirichlet0_ghost]; ring

/-! ### what is *not* conservative (delimits the property) -/

/-- the plain (non-conservative) spherical Laplacian does not conserve: witness on 2 cells -/
theorem sph_laplace_nonconservative_not_conservative :
    ∃ (a : Arr Rat), a [0] = a [1] ∧ a [3] = a [2] ∧
      intSphLaplace false (centre (0:Rat) 1) 1 a 2 ≠ 0 := by
  refine ⟨fun idx => if idx = [2] ∨ idx = [3] then 1 else 0, by decide, by decide, ?_⟩
  decide +kernel

/-- the polar divergence does not conserve under a vanishing normal component: witness -/
theorem polar_divergence_not_conservative :
    ∃ (a : Arr Rat), a [0, 0] = -a [0, 1] ∧ a [0, 3] = -a [0, 2] ∧
      intPolarDivergence (centre (0:Rat) 1) 1 a 2 ≠ 0 := by
  refine ⟨fun idx => if idx = [0, 1] then 1 else if idx = [0, 0] then -1 else if idx = [0, 2] then 3
    else if idx = [0, 3] then -3 else 0, by decide, by decide, ?_⟩
  decide +kernel

/-- one-sided divergence under a vanishing normal component does not conserve: witness -/
theorem onesided_divergence_not_conservative_under_dirichlet :
    ∃ (a : Arr Rat), a [0, 0] = -a [0, 1] ∧ a [0, 3] = -a [0, 2] ∧
      intCart1Divergence .forward (1:Rat) a 2 ≠ 0 := by
  refine ⟨fun idx => if idx = [0, 1] then 1 else if idx = [0, 0] then -1 else if idx = [0, 2] then 2
    else if idx = [0, 3] then -2 else 0, by decide, by decide, ?_⟩
  decide +kernel

end

/-! ### simulations keep the integral: every scheme that adds linear combinations of rates -/
section schemes
variable {K V : Type} [Field K] [AddCommGroup V] [Module K V]

/-- one explicit or implicit-iteration update has the form `u + Σ_j c_j • F(w_j, t_j)`; if the
(linear) integral of every rate vanishes, the integral of the state is unchanged -/
theorem integral_invariant_of_rate_zero_integral (I : V →ₗ[K] K) (u : V) (terms : List (K × V))
    (hF : ∀ p ∈ terms, I p.2 = 0) :
    I (u + (terms.map (fun p => p.1 • p.2)).sum) = I u := by
  induction terms with
  | nil => simp
  | cons p ps ih =>
    have h1 : I p.2 = 0 := hF p List.mem_cons_self
    have h2 := ih (fun q hq => hF q (List.mem_cons_of_mem _ hq))
    simp only [List.map_cons, List.sum_cons, map_add, map_smul, h1, smul_zero, zero_add] at h2 ⊢
    exact h2

/-- any number of such steps (Euler, Runge-Kutta stages, Adams-Bashforth, every fixed-point iterate
of the implicit and Crank-Nicolson solvers, every accepted adaptive step): by induction over steps -/
theorem integral_invariant_over_steps (I : V →ₗ[K] K) (step : V → V)
    (hstep : ∀ u, ∃ terms : List (K × V), (∀ p ∈ terms, I p.2 = 0) ∧
      step u = u + (terms.map (fun p => p.1 • p.2)).sum) (u0 : V) (n : Nat) :
    I (step^[n] u0) = I u0 := by
  induction n with
  | zero => rfl
  | succ n ih =>
    rw [Function.iterate_succ_apply']
    obtain ⟨terms, h1, h2⟩ := hstep (step^[n] u0)
    rw [h2, integral_invariant_of_rate_zero_integral I _ terms h1, ih]

/- Cahn-Hilliard: the rate is the (conserving) Laplacian of *any* chemical potential - stated concretely (ghost cells by
`setGhostAll`, arbitrary potential `mu u t`) as `cart1Rate_conserving` ... `cylRate_conserving` in `Props/C05c.lean`;
the solver steps of `Model/Solvers.lean` that keep the integral are there too (`solver_steps_conserve`). -/

end schemes

end PdeVerif.Conserve
