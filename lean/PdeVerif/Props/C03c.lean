import PdeVerif.Model.OutAlias
import Mathlib.Data.List.Nodup
import Mathlib.Tactic.Ring
/-
C03 - evaluation with or without an `out` array (the aliasing contract), on the memory model `Model/OutAlias.lean`.

* `wrapperRoute_out_irrelevant`: the wrappers returned by `make_operator` give, in every output cell, the kernel applied to the
  prepared copy of the input - whatever `out` held before, whether it was freshly allocated (`out=None`), a separate array,
  or **the input array itself** (`out=arr`);
* `fieldRoute_separate_out`: the field route gives the same numbers provided `out` is a different buffer than the field's own;
* `fieldRoute_aliased_out_differs`: kernel-checked witness that for `out is self` the field route of the code as it is
  computes different numbers (the stencil reads cells that earlier iterations already overwrote) - the input and the output
  are those observed on the real code: `ScalarField(UnitGrid([6]), [0,1,4,9,16,25]).laplace({"value": 1}, out=<the field itself>)`.
-/
namespace PdeVerif.OutAlias

variable {V : Type}

theorem runKernel_cons (k : (Nat → V) → Nat → V) (view : Nat → Nat) (src out c : Nat) (cells : List Nat) (s : Store V) :
    runKernel k view src out (c :: cells) s = runKernel k view src out cells (updS s out (view c) (k (s src) c)) := rfl

/-- the kernel never touches another buffer -/
theorem runKernel_frame (k : (Nat → V) → Nat → V) (view : Nat → Nat) (src out : Nat) (cells : List Nat) (s : Store V)
    (b : Nat) (hb : b ≠ out) : runKernel k view src out cells s b = s b := by
  induction cells generalizing s with
  | nil => rfl
  | cons c rest ih =>
    rw [runKernel_cons, ih]
    funext i
    simp [updS, hb]

/-- elements of the output buffer that are no cell of the loop keep their value -/
theorem runKernel_untouched (k : (Nat → V) → Nat → V) (view : Nat → Nat) (src out : Nat) (cells : List Nat) (s : Store V)
    (i : Nat) (hi : ∀ c ∈ cells, view c ≠ i) : runKernel k view src out cells s out i = s out i := by
  induction cells generalizing s with
  | nil => rfl
  | cons c rest ih =>
    rw [runKernel_cons, ih _ (fun c' hc' => hi c' (List.mem_cons_of_mem _ hc'))]
    have : ¬ i = view c := fun h => hi c List.mem_cons_self h.symm
    simp [updS, this]

/-- **source and output in different buffers**: every output cell gets the kernel value computed from the source as it was
before the loop (the loop order is irrelevant, earlier iterations cannot disturb later ones) -/
theorem runKernel_separate (k : (Nat → V) → Nat → V) (view : Nat → Nat) (src out : Nat) (hso : src ≠ out)
    (cells : List Nat) (hnd : cells.Nodup) (hinj : ∀ c ∈ cells, ∀ c' ∈ cells, view c = view c' → c = c')
    (s : Store V) (c : Nat) (hc : c ∈ cells) :
    runKernel k view src out cells s out (view c) = k (s src) c := by
  induction cells generalizing s with
  | nil => cases hc
  | cons d rest ih =>
    rw [runKernel_cons]
    have hnd' := (List.nodup_cons.mp hnd)
    have hsrc : (updS s out (view d) (k (s src) d)) src = s src := by
      funext i
      simp [updS, hso]
    rcases List.mem_cons.mp hc with rfl | hc'
    · rw [runKernel_untouched]
      · simp [updS]
      · intro c' hc' hv
        have := hinj c' (List.mem_cons_of_mem _ hc') c List.mem_cons_self hv
        exact hnd'.1 (this ▸ hc')
    · rw [ih hnd'.2 (fun a ha b hb => hinj a (List.mem_cons_of_mem _ ha) b (List.mem_cons_of_mem _ hb)) _ hc', hsrc]

/-- **`make_operator` wrappers: the result does not depend on `out`** - not on its previous content, not on whether it is a
fresh allocation (`out=None`), a separate array or the input array itself (`out = arr`; only the scratch buffer `tmp` of the
call must be fresh, which `np.empty`/`np.zeros` guarantee) -/
theorem wrapperRoute_out_irrelevant (prep : (Nat → V) → (Nat → V)) (k : (Nat → V) → Nat → V) (arr tmp out : Nat)
    (hto : tmp ≠ out) (cells : List Nat) (hnd : cells.Nodup) (s : Store V) (c : Nat) (hc : c ∈ cells) :
    wrapperRoute prep k arr tmp out cells s out c = k (prep (s arr)) c := by
  unfold wrapperRoute
  have := runKernel_separate k id tmp out hto cells hnd (fun _ _ _ _ h => h)
    (fun b => if b = tmp then prep (s arr) else s b) c hc
  simpa using this

/-- with `out=arr` and with a fresh `out`: the same numbers -/
theorem wrapperRoute_aliased_eq_fresh (prep : (Nat → V) → (Nat → V)) (k : (Nat → V) → Nat → V) (arr tmp fresh : Nat)
    (h1 : tmp ≠ arr) (h2 : tmp ≠ fresh) (cells : List Nat) (hnd : cells.Nodup) (s : Store V) (c : Nat) (hc : c ∈ cells) :
    wrapperRoute prep k arr tmp arr cells s arr c = wrapperRoute prep k arr tmp fresh cells s fresh c := by
  rw [wrapperRoute_out_irrelevant prep k arr tmp arr h1 cells hnd s c hc,
    wrapperRoute_out_irrelevant prep k arr tmp fresh h2 cells hnd s c hc]

/-- field route with an output field that does not share the buffer of the input field: the kernel applied to the field's
padded data after the ghost-cell setter, independent of what `out` held -/
theorem fieldRoute_separate_out (setg : (Nat → V) → (Nat → V)) (k : (Nat → V) → Nat → V) (view : Nat → Nat) (self out : Nat)
    (hso : self ≠ out) (cells : List Nat) (hnd : cells.Nodup)
    (hinj : ∀ c ∈ cells, ∀ c' ∈ cells, view c = view c' → c = c') (s : Store V) (c : Nat) (hc : c ∈ cells) :
    fieldRoute setg k view self out cells s out (view c) = k (setg (s self)) c := by
  unfold fieldRoute
  have := runKernel_separate k view self out hso cells hnd hinj (fun b => if b = self then setg (s self) else s b) c hc
  simpa using this

/-! ### the hypotheses are satisfiable / the hypothesis `self ≠ out` is needed -/

/-- padded line of `[0,1,4,9,16,25]` with the ghost cells of the condition `value = 1` (`2*1 - 0`, `2*1 - 25`) -/
def exPadded : Nat → Int := fun i => [2, 0, 1, 4, 9, 16, 25, -23].getD i 0

def exStore : Store Int := fun b => if b = 0 then exPadded else fun _ => 777

example : (List.range 6).Nodup := by decide
/-- separate output buffer: the Laplacian `[3, 2, 2, 2, 2, -57]` (what `field.laplace(bc)` returns) -/
example : (List.range 6).map (fun c => fieldRoute id (lap1 1 2) (· + 1) 0 1 (List.range 6) exStore 1 (c + 1))
    = [3, 2, 2, 2, 2, -57] := by decide +kernel
/-- `make_operator` wrapper with `out = arr`: also `[3, 2, 2, 2, 2, -57]` (here `prep` shifts nothing: buffer 0 is already padded) -/
example : (List.range 6).map (fun c => wrapperRoute id (lap1 1 2) 0 5 0 (List.range 6) exStore 0 c)
    = [3, 2, 2, 2, 2, -57] := by decide +kernel

/-- **witness of the deviation**: `field.laplace(bc, out=field)` - output view of the field's own buffer - computes
`[3, 5, 6, 4, -3, -76]` (observed on the real code) instead of `[3, 2, 2, 2, 2, -57]`: the clause "evaluation with or
without an `out` array gives the same numbers" fails for the field route when `out` is the field itself -/
theorem fieldRoute_aliased_out_differs :
    (List.range 6).map (fun c => fieldRoute id (lap1 1 2) (· + 1) 0 0 (List.range 6) exStore 0 (c + 1))
      = [3, 5, 6, 4, -3, -76]
    ∧ (List.range 6).map (fun c => fieldRoute id (lap1 1 2) (· + 1) 0 1 (List.range 6) exStore 1 (c + 1))
      = [3, 2, 2, 2, 2, -57] := by
  constructor <;> decide +kernel

end PdeVerif.OutAlias
