import PdeVerif.Model.Storage
import PdeVerif.Lemmas.Basic
/-
C20 - in-memory storage returns exactly what was stored, in order.
Property theorems about `PdeVerif.Storage` (model of pde/storage/memory.py and the generic
methods of pde/storage/base.py).  Statements hold for every time/number type, every frame type
and every operation sequence (induction over the list of operations).
-/
namespace PdeVerif.Storage

section store
variable {K F : Type}

/-! ### what one operation does to `times`, `frames` and `mode` -/

/-- `start_writing`, accepted: truncation exactly in the modes `truncate`/`truncate_once`,
`truncate_once` turns into `append`; rejected: stored pairs and mode untouched -/
theorem startWriting_cases (s : Store K F) (fi : FieldInfo) :
    ((startWriting s fi).2 = none ∧
      (s.mode = .truncate ∨ s.mode = .truncateOnce ∨ s.mode = .append) ∧
      (startWriting s fi).1.times = (if s.mode = .append then s.times else []) ∧
      (startWriting s fi).1.frames = (if s.mode = .append then s.frames else []) ∧
      (startWriting s fi).1.mode = (if s.mode = .truncateOnce then .append else s.mode)) ∨
    ((startWriting s fi).2 ≠ none ∧ (startWriting s fi).1.times = s.times ∧
      (startWriting s fi).1.frames = s.frames ∧ (startWriting s fi).1.mode = s.mode) := by
  unfold startWriting baseStart
  cases hm : s.mode <;> cases hd : s.dataShape <;> simp [clear, hm] <;> split_ifs <;> simp [hm]

section
variable [Add K] [NatCast K]

/-- `append`, accepted: exactly one pair is added at the end (time as given, or the default
`last + 1` / `0`); rejected: stored pairs and mode untouched -/
theorem append_cases (s : Store K F) (fi : FieldInfo) (t : Option K) (f : F) (c : Bool) :
    ((append s fi t f c).2 = none ∧
      (append s fi t f c).1.times = s.times ++ [t.getD (defaultTime s.times)] ∧
      (append s fi t f c).1.frames = s.frames ++ [f] ∧ (append s fi t f c).1.mode = s.mode) ∨
    ((append s fi t f c).2 ≠ none ∧ (append s fi t f c).1.times = s.times ∧
      (append s fi t f c).1.frames = s.frames ∧ (append s fi t f c).1.mode = s.mode) := by
  unfold append appendCast appendData
  by_cases hm : s.mode = Mode.readonly
  · simp [hm]
  · simp only [hm, if_false]
    cases hg : s.grid <;> cases hd : s.dataShape <;> cases t <;> simp <;> split_ifs <;> simp

/-! ### the specification: the list of appended pairs of the surviving sessions -/

/-- specification state: the pairs that must be readable, the mode *as documented* (the one
the user set), and whether a writing session has been started since it was set -/
structure Spec (K F : Type) where
  log : List (K × F)
  mode : Mode
  fresh : Bool

def Spec.init (m : Mode) : Spec K F := { log := [], mode := m, fresh := true }

/-- documented: `truncate` clears at every session start, `truncate_once` at the first one -/
def Spec.truncates (sp : Spec K F) : Bool :=
  decide (sp.mode = .truncate) || (decide (sp.mode = .truncateOnce) && sp.fresh)

/-- effect of an operation on the specification; `accepted` = the operation did not raise -/
def Spec.step (sp : Spec K F) (op : SOp K F) (accepted : Bool) : Spec K F :=
  if accepted then
    match op with
    | .start _ => { sp with log := if sp.truncates then [] else sp.log, fresh := false }
    | .append _ t f _ => { sp with log := sp.log ++ [(t.getD (defaultTime (sp.log.map Prod.fst)), f)] }
    | .endW => sp
    | .clear _ => { sp with log := [] }
    | .setMode m => { sp with mode := m, fresh := true }
  else sp

/-- the value of `write_mode` that implements the documented mode -/
def Spec.effMode (sp : Spec K F) : Mode :=
  if sp.mode = .truncateOnce ∧ sp.fresh = false then .append else sp.mode

/-- refinement relation between a storage and its specification -/
def Refines (s : Store K F) (sp : Spec K F) : Prop :=
  s.times.length = s.frames.length ∧ s.contents = sp.log ∧ s.mode = sp.effMode

/-- model and specification in lockstep; the specification only learns whether the model
accepted the operation -/
def runBoth : Store K F → Spec K F → List (SOp K F) → Store K F × Spec K F
  | s, sp, [] => (s, sp)
  | s, sp, op :: ops => runBoth (sstep s op).1 (sp.step op (sstep s op).2.isNone) ops

theorem runBoth_fst (s : Store K F) (sp : Spec K F) (ops : List (SOp K F)) :
    (runBoth s sp ops).1 = srun s ops := by
  induction ops generalizing s sp with
  | nil => rfl
  | cons op ops ih => simp [runBoth, srun, ih]

theorem srun_cons' (o : Store K F) (op : SOp K F) (ops : List (SOp K F)) :
    srun o (op :: ops) = srun (sstep o op).1 ops := rfl

theorem contents_times (s : Store K F) (h : s.times.length = s.frames.length) :
    s.contents.map Prod.fst = s.times := by
  unfold Store.contents
  rw [List.map_fst_zip]; omega

theorem contents_frames (s : Store K F) (h : s.times.length = s.frames.length) :
    s.contents.map Prod.snd = s.frames := by
  unfold Store.contents
  rw [List.map_snd_zip]; omega

/-- one step preserves the refinement -/
theorem refines_step (s : Store K F) (sp : Spec K F) (op : SOp K F) (h : Refines s sp) :
    Refines (sstep s op).1 (sp.step op (sstep s op).2.isNone) := by
  obtain ⟨hlen, hc, hm⟩ := h
  have htimes : sp.log.map Prod.fst = s.times := by rw [← hc]; exact contents_times s hlen
  cases op with
  | start fi =>
    simp only [sstep]
    rcases startWriting_cases s fi with ⟨he, hmode, ht, hf, hmd⟩ | ⟨he, ht, hf, hmd⟩
    · simp only [he, Option.isNone_none, Spec.step, if_true]
      unfold Store.contents at hc
      obtain ⟨log, md, fr⟩ := sp
      simp only [Spec.effMode] at hm
      simp only at hc
      refine ⟨by rw [ht, hf]; split_ifs <;> simp [hlen], ?_, ?_⟩
      · unfold Store.contents; rw [ht, hf]
        cases md <;> cases fr <;> simp at hm <;> rw [hm] at hmode ⊢ <;>
          simp [Spec.truncates, hc] at hmode ⊢
      · rw [hmd]
        cases md <;> cases fr <;> simp at hm <;> rw [hm] <;> simp [Spec.effMode]
    · have : (startWriting s fi).2.isNone = false := by
        cases h : (startWriting s fi).2 with
        | none => exact absurd h he
        | some e => rfl
      simp only [this, Spec.step]
      exact ⟨by rw [ht, hf]; exact hlen, by unfold Store.contents at hc ⊢; rw [ht, hf]; exact hc,
        by rw [hmd]; exact hm⟩
  | append fi t f c =>
    simp only [sstep]
    rcases append_cases s fi t f c with ⟨he, ht, hf, hmd⟩ | ⟨he, ht, hf, hmd⟩
    · simp only [he, Option.isNone_none, Spec.step, if_true]
      refine ⟨by rw [ht, hf]; simp [hlen], ?_, by rw [hmd]; exact hm⟩
      unfold Store.contents; rw [ht, hf, htimes]
      rw [List.zip_append (by exact hlen)]
      unfold Store.contents at hc
      rw [hc]; rfl
    · have : (append s fi t f c).2.isNone = false := by
        cases h : (append s fi t f c).2 with
        | none => exact absurd h he
        | some e => rfl
      simp only [this, Spec.step]
      exact ⟨by rw [ht, hf]; exact hlen, by unfold Store.contents at hc ⊢; rw [ht, hf]; exact hc,
        by rw [hmd]; exact hm⟩
  | endW => simpa [sstep, Spec.step] using ⟨hlen, hc, hm⟩
  | clear b =>
    simp only [sstep, Option.isNone_none, Spec.step, if_true]
    exact ⟨by simp [clear], by simp [clear, Store.contents], by simpa [clear, Spec.effMode] using hm⟩
  | setMode m =>
    simp only [sstep, Option.isNone_none, Spec.step, if_true]
    exact ⟨hlen, hc, by simp [Spec.effMode]⟩

theorem refines_init (m : Mode) : Refines (Store.new m : Store K F) (Spec.init m) := by
  simp [Refines, Store.new, Spec.init, Store.contents, Spec.effMode]

/-- the refinement holds along every operation sequence, from any related pair of states -/
theorem refines_run (ops : List (SOp K F)) :
    ∀ (s : Store K F) (sp : Spec K F), Refines s sp →
      Refines (runBoth s sp ops).1 (runBoth s sp ops).2 := by
  induction ops with
  | nil => intro s sp h; exact h
  | cons op ops ih => intro s sp h; exact ih _ _ (refines_step s sp op h)

/-! ### well-formedness of reachable states and reading -/

/-- invariant of every state reachable from `MemoryStorage()`/`from_fields`/derived storages:
as many frames as times; frames only when a data shape is known; a known data shape is the one
of the template -/
def WF (s : Store K F) : Prop :=
  s.times.length = s.frames.length ∧ (s.frames ≠ [] → s.dataShape ≠ none) ∧
  (s.dataShape ≠ none → ∃ fi, s.template = some fi ∧ s.dataShape = some fi.shape)

theorem wf_new (m : Mode) : WF (Store.new m : Store K F) := by
  simp [WF, Store.new]

theorem wf_startWriting (s : Store K F) (fi : FieldInfo) (h : WF s) : WF (startWriting s fi).1 := by
  obtain ⟨h1, h2, h3⟩ := h
  unfold startWriting baseStart
  cases hm : s.mode <;> cases hd : s.dataShape <;> simp [clear, WF] <;>
    (try split_ifs) <;> simp_all [WF]

theorem wf_append (s : Store K F) (fi : FieldInfo) (t : Option K) (f : F) (c : Bool) (h : WF s) :
    WF (append s fi t f c).1 := by
  obtain ⟨h1, h2, h3⟩ := h
  unfold append appendCast appendData
  by_cases hm : s.mode = Mode.readonly
  · simp only [hm, if_true]; exact ⟨h1, h2, h3⟩
  · simp only [hm, if_false]
    cases hg : s.grid <;> cases hd : s.dataShape <;> simp [WF] <;> (try split_ifs) <;> simp_all [WF]

theorem wf_clear (s : Store K F) (b : Bool) (h : WF s) : WF (clear s b) := by
  obtain ⟨h1, h2, h3⟩ := h
  cases b <;> simp_all [WF, clear]

theorem wf_sstep (s : Store K F) (op : SOp K F) (h : WF s) : WF (sstep s op).1 := by
  cases op with
  | start fi => exact wf_startWriting s fi h
  | append fi t f c => exact wf_append s fi t f c h
  | endW => exact h
  | clear b => exact wf_clear s b h
  | setMode m => exact h

theorem wf_srun (ops : List (SOp K F)) : ∀ s : Store K F, WF s → WF (srun s ops) := by
  induction ops with
  | nil => intro s h; exact h
  | cons op ops ih => intro s h; exact ih _ (wf_sstep s op h)

theorem normIndex_nat (n i : Nat) (h : i < n) : normIndex n (i : Int) = .ok i := by
  unfold normIndex
  have : ¬ ((i : Int) < 0) := by omega
  simp only [this, if_false]
  rw [if_pos ⟨by omega, by omega⟩]; simp

/-- Python's negative indices: `-k` (1 ≤ k ≤ n) addresses `n - k` -/
theorem normIndex_neg (n k : Nat) (h1 : 1 ≤ k) (h2 : k ≤ n) :
    normIndex n (-(k : Int)) = .ok (n - k) := by
  unfold normIndex
  have : (-(k : Int) < 0) := by omega
  simp only [this, if_true]
  rw [if_pos ⟨by omega, by omega⟩]
  congr 1; omega

theorem normIndex_out (n : Nat) (i : Int) (h : i < -(n : Int) ∨ (n : Int) ≤ i) :
    normIndex n i = .error .index := by
  unfold normIndex
  by_cases hi : i < 0
  · simp only [hi, if_true]; rw [if_neg]; omega
  · simp only [hi, if_false]; rw [if_neg]; omega

/-- a template is present whenever something is stored: the `_init_field` route of
`_get_field` is not reachable -/
theorem template_present (s : Store K F) (h : WF s) (hne : s.frames ≠ []) :
    ∃ fi, s.template = some fi ∧ s.dataShape = some fi.shape :=
  h.2.2 (h.2.1 hne)

/-- `storage[i]` for a valid non-negative index: a field built from the template with the data
of the `i`-th stored frame -/
theorem getField_nat (s : Store K F) (h : WF s) (i : Nat) (hi : i < s.frames.length) :
    ∃ fi, s.template = some fi ∧ getField s (i : Int) = .ok (fi, s.frames[i]) := by
  have hne : s.frames ≠ [] := by intro h0; rw [h0] at hi; simp at hi
  obtain ⟨fi, hfi, _⟩ := template_present s h hne
  refine ⟨fi, hfi, ?_⟩
  unfold getField
  rw [normIndex_nat _ _ (by rw [h.1]; exact hi)]
  simp [hfi, hi]

theorem getField_neg (s : Store K F) (h : WF s) (k : Nat) (h1 : 1 ≤ k) (h2 : k ≤ s.frames.length) :
    ∃ fi, s.template = some fi ∧
      getField s (-(k : Int)) = .ok (fi, s.frames[s.frames.length - k]'(by omega)) := by
  have hne : s.frames ≠ [] := by intro h0; rw [h0] at h2; simp at h2; omega
  obtain ⟨fi, hfi, _⟩ := template_present s h hne
  refine ⟨fi, hfi, ?_⟩
  unfold getField
  rw [normIndex_neg _ _ h1 (by rw [h.1]; exact h2)]
  have : s.frames.length - k < s.frames.length := by omega
  simp only [hfi, h.1]
  rw [List.getElem?_eq_getElem this]

theorem getField_out_of_range (s : Store K F) (i : Int)
    (h : i < -(s.times.length : Int) ∨ (s.times.length : Int) ≤ i) :
    getField s i = .error .index := by
  unfold getField; rw [normIndex_out _ _ h]

theorem mapM_ok {α β : Type} (f : α → Except Err β) (g : α → β) :
    ∀ l : List α, (∀ x ∈ l, f x = .ok (g x)) → l.mapM f = .ok (l.map g) := by
  intro l
  induction l with
  | nil => intro _; rfl
  | cons a l ih =>
    intro h
    rw [List.mapM_cons, h a (by simp), ih (fun x hx => h x (by simp [hx]))]
    rfl

/-- `items()` yields exactly the stored pairs, in order, each as a field built from the
template -/
theorem items_eq_contents (s : Store K F) (h : WF s) :
    ∃ l, items s = .ok l ∧ l.map (fun r => (r.1, r.2.2)) = s.contents ∧
      ∀ r ∈ l, s.template = some r.2.1 := by
  unfold items
  by_cases hne : s.frames = []
  · have : s.times = [] := by
      have := h.1; rw [hne] at this; simpa using this
    refine ⟨[], ?_, ?_, by simp⟩
    · simp [this]; rfl
    · simp [Store.contents, this]
  · obtain ⟨fi, hfi, _⟩ := template_present s h hne
    refine ⟨s.contents.map (fun p => (p.1, fi, p.2)), ?_, ?_, ?_⟩
    · rw [mapM_ok _ (fun p => (p.1, fi, s.frames.getD p.2 (s.frames.head hne)))]
      · congr 1
        unfold Store.contents
        apply List.ext_getElem
        · simp [h.1]
        · intro i h1 h2
          simp at h1 h2
          simp [h2]
      · intro p hp
        obtain ⟨i, hi, rfl⟩ := List.mem_iff_getElem.mp hp
        simp at hi
        obtain ⟨fi', hfi', hg⟩ := getField_nat s h i (by rw [← h.1]; exact hi)
        rw [hfi] at hfi'; cases hfi'
        simp only [List.getElem_zipIdx, Nat.zero_add]
        rw [hg]
        have : i < s.frames.length := by rw [← h.1]; exact hi
        simp [this]
    · simp [List.map_map, Function.comp_def]
    · intro r hr
      simp only [List.mem_map] at hr
      obtain ⟨p, _, rfl⟩ := hr
      exact hfi

theorem sliceBound_le (n : Nat) (b : Option Int) (d : Nat) (hd : d ≤ n) : sliceBound n b d ≤ n := by
  unfold sliceBound
  cases b with
  | none => exact hd
  | some i =>
    simp only
    split_ifs with h
    · omega
    · exact Nat.min_le_right _ _

/-- `storage[a:b]` (step 1): the fields of the stored frames `lo .. hi-1` in order, where `lo`, `hi`
are Python's `slice.indices` bounds; never an error -/
theorem getSlice_eq (s : Store K F) (h : WF s) (a b : Option Int) :
    ∃ l, getSlice s a b = .ok l ∧
      l.map Prod.snd = (s.frames.drop (sliceBound s.times.length a 0)).take
        (sliceBound s.times.length b s.times.length - sliceBound s.times.length a 0) ∧
      ∀ r ∈ l, s.template = some r.1 := by
  unfold getSlice
  simp only
  generalize hlo : sliceBound s.times.length a 0 = lo
  generalize hhi : sliceBound s.times.length b s.times.length = hi
  have hhi' : hi ≤ s.frames.length := by
    rw [← hhi, ← h.1]; exact sliceBound_le _ _ _ (le_refl _)
  by_cases hm : hi - lo = 0
  · refine ⟨[], ?_, by simp [hm], by simp⟩
    simp [hm]; rfl
  · have hne : s.frames ≠ [] := by
      intro h0; rw [h0] at hhi'; simp at hhi'; omega
    obtain ⟨fi, hfi, _⟩ := template_present s h hne
    refine ⟨((List.range (hi - lo)).map (· + lo)).map (fun i => (fi, s.frames.getD i (s.frames.head hne))), ?_, ?_, ?_⟩
    · apply mapM_ok
      intro i hi'
      simp only [List.mem_map, List.mem_range] at hi'
      obtain ⟨k, hk, rfl⟩ := hi'
      have hlt : k + lo < s.frames.length := by omega
      obtain ⟨fi', hfi', hg⟩ := getField_nat s h (k + lo) hlt
      rw [hfi] at hfi'; cases hfi'
      rw [hg]; simp [hlt]
    · apply List.ext_getElem
      · simp; omega
      · intro k h1 h2
        simp at h1 h2
        have hlt : lo + k < s.frames.length := by omega
        simp [Nat.add_comm, List.getElem?_eq_getElem hlt]
    · intro r hr
      simp only [List.mem_map] at hr
      obtain ⟨i, _, rfl⟩ := hr
      exact hfi

theorem log_snd_eq_frame (s : Store K F) (sp : Spec K F) (h : Refines s sp) (i : Nat)
    (hi : i < sp.log.length) :
    ∃ h2 : i < s.frames.length, (sp.log[i]).2 = s.frames[i] := by
  obtain ⟨hlen, hc, _⟩ := h
  have hl : sp.log.length = s.frames.length := by
    rw [← hc]; simp [Store.contents, hlen]
  refine ⟨by omega, ?_⟩
  have : sp.log[i] = s.contents[i]'(by rw [hc]; exact hi) := by simp [hc]
  rw [this]; simp [Store.contents]

/-- **C20, reading**: from any storage state that refines a specification state, after ANY
sequence of `start_writing`/`append`/`end_writing`/`clear`/mode changes, the stored pairs are
the specification's list of appended pairs of the surviving sessions; `items()` returns them
in order, `storage[i]` returns the `i`-th one (Python indexing from both ends) and indices
outside the range raise `IndexError`. -/
theorem read_returns_appended_from (s0 : Store K F) (sp0 : Spec K F) (h0 : Refines s0 sp0)
    (hwf : WF s0) (ops : List (SOp K F)) :
    let s := srun s0 ops
    let sp := (runBoth s0 sp0 ops).2
    s.contents = sp.log ∧
    (∃ l, items s = .ok l ∧ l.map (fun r => (r.1, r.2.2)) = sp.log) ∧
    (∀ i (hi : i < sp.log.length), ∃ fi, s.template = some fi ∧
      getField s (i : Int) = .ok (fi, (sp.log[i]).2)) ∧
    (∀ k (h1 : 1 ≤ k) (h2 : k ≤ sp.log.length), ∃ fi, s.template = some fi ∧
      getField s (-(k : Int)) = .ok (fi, (sp.log[sp.log.length - k]'(by omega)).2)) ∧
    ∀ i : Int, (i < -(sp.log.length : Int) ∨ (sp.log.length : Int) ≤ i) →
      getField s i = .error .index := by
  intro s sp
  have hr : Refines s sp := by
    have := refines_run ops s0 sp0 h0
    rw [runBoth_fst] at this; exact this
  have hw : WF s := wf_srun ops s0 hwf
  have hl : sp.log.length = s.frames.length := by
    rw [← hr.2.1]; simp [Store.contents, hr.1]
  refine ⟨hr.2.1, ?_, ?_, ?_, ?_⟩
  · obtain ⟨l, h1, h2, _⟩ := items_eq_contents s hw
    exact ⟨l, h1, by rw [h2, hr.2.1]⟩
  · intro i hi
    obtain ⟨h2, he⟩ := log_snd_eq_frame s sp hr i hi
    obtain ⟨fi, hfi, hg⟩ := getField_nat s hw i h2
    exact ⟨fi, hfi, by rw [hg, he]⟩
  · intro k h1 h2
    obtain ⟨fi, hfi, hg⟩ := getField_neg s hw k h1 (by omega)
    obtain ⟨h3, he⟩ := log_snd_eq_frame s sp hr (sp.log.length - k) (by omega)
    refine ⟨fi, hfi, ?_⟩
    rw [hg, he]; simp [hl]
  · intro i hi
    apply getField_out_of_range
    rw [hw.1, ← hl]; exact hi

/-- **C20, reading, from a new storage** (`MemoryStorage(write_mode=m)`) -/
theorem read_returns_appended_in_order (m : Mode) (ops : List (SOp K F)) :
    let s := srun (Store.new m : Store K F) ops
    let sp := (runBoth (Store.new m : Store K F) (Spec.init m) ops).2
    s.contents = sp.log ∧
    (∃ l, items s = .ok l ∧ l.map (fun r => (r.1, r.2.2)) = sp.log) ∧
    (∀ i (hi : i < sp.log.length), ∃ fi, s.template = some fi ∧
      getField s (i : Int) = .ok (fi, (sp.log[i]).2)) ∧
    (∀ k (h1 : 1 ≤ k) (h2 : k ≤ sp.log.length), ∃ fi, s.template = some fi ∧
      getField s (-(k : Int)) = .ok (fi, (sp.log[sp.log.length - k]'(by omega)).2)) ∧
    ∀ i : Int, (i < -(sp.log.length : Int) ∨ (sp.log.length : Int) ≤ i) →
      getField s i = .error .index :=
  read_returns_appended_from _ _ (refines_init m) (wf_new m) ops

/-! ### write modes -/

/-- exactly when `start_writing` is accepted -/
theorem start_accepted_iff (s : Store K F) (fi : FieldInfo) :
    (startWriting s fi).2 = none ↔
      (s.mode = .truncate ∨ s.mode = .truncateOnce ∨ s.mode = .append) ∧
      (s.dataShape = none ∨ s.dataShape = some fi.shape) := by
  unfold startWriting baseStart
  cases hm : s.mode <;> cases hd : s.dataShape <;> simp [clear] <;> split_ifs <;> simp_all

/-- exactly when `append` is accepted: not in `readonly` mode, the grid is unknown or equal,
numpy can cast the data to the dtype of the storage (if one is set) and the data shape is the
known one -/
theorem append_accepted_iff (s : Store K F) (fi : FieldInfo) (t : Option K) (f : F) (c : Bool) :
    (append s fi t f c).2 = none ↔
      s.mode ≠ .readonly ∧ (s.grid = none ∨ s.grid = some fi.grid) ∧
      (s.dtypeSet = true → c = true) ∧ s.dataShape = some fi.shape := by
  unfold append appendCast appendData
  by_cases hm : s.mode = Mode.readonly
  · simp [hm]
  · simp only [hm, if_false]
    cases hg : s.grid <;> cases hd : s.dataShape <;> cases hdt : s.dtypeSet <;> cases c <;>
      simp <;> (try split_ifs) <;> simp_all <;> (try (intro h; exact absurd h.symm ‹_›))

/-- mode `truncate`: every accepted session start empties the storage; the mode stays -/
theorem mode_truncate (s : Store K F) (fi : FieldInfo) (hm : s.mode = .truncate)
    (ha : (startWriting s fi).2 = none) :
    (startWriting s fi).1.contents = [] ∧ (startWriting s fi).1.mode = .truncate := by
  rcases startWriting_cases s fi with ⟨_, _, ht, hf, hmd⟩ | ⟨he, _⟩
  · simp [Store.contents, ht, hf, hmd, hm]
  · exact absurd ha he

/-- mode `truncate_once`: the accepted session start empties the storage and switches the
mode to `append` -/
theorem mode_truncate_once (s : Store K F) (fi : FieldInfo) (hm : s.mode = .truncateOnce)
    (ha : (startWriting s fi).2 = none) :
    (startWriting s fi).1.contents = [] ∧ (startWriting s fi).1.mode = .append := by
  rcases startWriting_cases s fi with ⟨_, _, ht, hf, hmd⟩ | ⟨he, _⟩
  · simp [Store.contents, ht, hf, hmd, hm]
  · exact absurd ha he

/-- mode `append`: a session start keeps every stored pair and the mode -/
theorem mode_append (s : Store K F) (fi : FieldInfo) (hm : s.mode = .append) :
    (startWriting s fi).1.contents = s.contents ∧ (startWriting s fi).1.mode = .append := by
  rcases startWriting_cases s fi with ⟨_, _, ht, hf, hmd⟩ | ⟨_, ht, hf, hmd⟩
  · simp [Store.contents, ht, hf, hmd, hm]
  · simp [Store.contents, ht, hf, hmd, hm]

/-- mode `readonly`: `start_writing` raises `RuntimeError` and changes nothing at all -/
theorem readonly_rejects (s : Store K F) (fi : FieldInfo) (hm : s.mode = .readonly) :
    startWriting s fi = (s, some .runtime) := by
  unfold startWriting baseStart; simp [hm]

/-- an unknown mode string: `ValueError`; the stored pairs survive (template, grid and data
shape have already been replaced at that point) -/
theorem mode_unknown_rejects (s : Store K F) (fi : FieldInfo) (hm : s.mode = .other) :
    (startWriting s fi).2 ≠ none ∧ (startWriting s fi).1.contents = s.contents := by
  rcases startWriting_cases s fi with ⟨_, h, _⟩ | ⟨he, ht, hf, _⟩
  · rw [hm] at h; simp at h
  · exact ⟨he, by simp [Store.contents, ht, hf]⟩

/-- a rejected operation never changes the stored pairs -/
theorem rejected_keeps_contents (s : Store K F) (op : SOp K F) (h : (sstep s op).2 ≠ none) :
    (sstep s op).1.contents = s.contents ∧ (sstep s op).1.mode = s.mode := by
  cases op with
  | start fi =>
    rcases startWriting_cases s fi with ⟨he, _⟩ | ⟨_, ht, hf, hmd⟩
    · exact absurd he h
    · exact ⟨by simp [sstep, Store.contents, ht, hf], by simp [sstep, hmd]⟩
  | append fi t f c =>
    rcases append_cases s fi t f c with ⟨he, _⟩ | ⟨_, ht, hf, hmd⟩
    · exact absurd he h
    · exact ⟨by simp [sstep, Store.contents, ht, hf], by simp [sstep, hmd]⟩
  | endW => simp [sstep] at h
  | clear b => simp [sstep] at h
  | setMode m => simp [sstep] at h

/-- `SOp`s that neither set the mode nor clear -/
def SOp.keeps : SOp K F → Bool
  | .setMode _ => false
  | .clear _ => false
  | _ => true

/-- in `write_mode == "append"` nothing is ever lost: along any sequence of sessions and
appends the stored pairs only grow at the end -/
theorem append_mode_never_truncates (ops : List (SOp K F)) :
    ∀ s : Store K F, s.mode = .append → s.times.length = s.frames.length →
      (∀ op ∈ ops, op.keeps = true) →
      s.contents <+: (srun s ops).contents ∧ (srun s ops).mode = .append := by
  induction ops with
  | nil => intro s hm _ _; exact ⟨List.prefix_refl _, hm⟩
  | cons op ops ih =>
    intro s hm hlen hk
    have hk' : ∀ op ∈ ops, op.keeps = true := fun o ho => hk o (by simp [ho])
    have hop := hk op (by simp)
    have key : s.contents <+: (sstep s op).1.contents ∧ (sstep s op).1.mode = .append ∧
        (sstep s op).1.times.length = (sstep s op).1.frames.length := by
      cases op with
      | start fi =>
        rcases startWriting_cases s fi with ⟨_, _, ht, hf, hmd⟩ | ⟨_, ht, hf, hmd⟩ <;>
          simp [sstep, Store.contents, ht, hf, hmd, hm, hlen]
      | append fi t f c =>
        rcases append_cases s fi t f c with ⟨_, ht, hf, hmd⟩ | ⟨_, ht, hf, hmd⟩
        · refine ⟨?_, by simp [sstep, hmd, hm], by simp [sstep, ht, hf, hlen]⟩
          simp only [sstep, Store.contents, ht, hf]
          rw [List.zip_append hlen]
          exact List.prefix_append _ _
        · simp [sstep, Store.contents, ht, hf, hmd, hm, hlen]
      | endW => simp [sstep, hm, hlen]
      | clear b => simp [SOp.keeps] at hop
      | setMode m => simp [SOp.keeps] at hop
    obtain ⟨h1, h2⟩ := ih (sstep s op).1 key.2.1 key.2.2 hk'
    exact ⟨key.1.trans h1, h2⟩

/-- **truncate_once, then append**: the first accepted session of a `truncate_once` storage
empties it and turns the mode into `append`; whatever sessions and appends follow (without the
user resetting the mode or clearing), no pair stored after that moment is ever dropped. -/
theorem truncate_once_then_append (s : Store K F) (fi : FieldInfo) (hm : s.mode = .truncateOnce)
    (ha : (startWriting s fi).2 = none) (ops : List (SOp K F))
    (hk : ∀ op ∈ ops, op.keeps = true) :
    (startWriting s fi).1.contents = [] ∧ (startWriting s fi).1.mode = .append ∧
    ∀ (n : Nat), (srun (startWriting s fi).1 (ops.take n)).contents <+:
      (srun (startWriting s fi).1 ops).contents := by
  obtain ⟨h1, h2⟩ := mode_truncate_once s fi hm ha
  refine ⟨h1, h2, ?_⟩
  intro n
  have hlen : (startWriting s fi).1.times.length = (startWriting s fi).1.frames.length := by
    rcases startWriting_cases s fi with ⟨_, _, ht, hf, _⟩ | ⟨he, _⟩
    · simp [ht, hf, hm]
    · exact absurd ha he
  have hsplit : srun (startWriting s fi).1 ops =
      srun (srun (startWriting s fi).1 (ops.take n)) (ops.drop n) := by
    unfold srun; rw [← List.foldl_append, List.take_append_drop]
  rw [hsplit]
  obtain ⟨p1, p2⟩ := append_mode_never_truncates (ops.take n) _ h2 hlen
    (fun o ho => hk o (List.mem_of_mem_take ho))
  have hlen' : (srun (startWriting s fi).1 (ops.take n)).times.length =
      (srun (startWriting s fi).1 (ops.take n)).frames.length := by
    have : Refines (startWriting s fi).1 ⟨(startWriting s fi).1.contents, .append, true⟩ :=
      ⟨hlen, rfl, by simp [Spec.effMode, h2]⟩
    have := refines_run (ops.take n) _ _ this
    rw [runBoth_fst] at this
    exact this.1
  exact (append_mode_never_truncates (ops.drop n) _ p2 hlen'
    (fun o ho => hk o (List.mem_of_mem_drop ho))).1

/-- mode `readonly`: `append` raises `RuntimeError` and changes nothing at all (since fd5b417) -/
theorem readonly_rejects_append (s : Store K F) (fi : FieldInfo) (t : Option K) (f : F) (c : Bool)
    (hm : s.mode = .readonly) : append s fi t f c = (s, some .runtime) := by
  unfold append; simp [hm]

/-- **readonly disables writing completely** (single operation): `start_writing`, `append` and
`end_writing` leave a readonly storage exactly as it is.  (`clear()` is not a write: it is the
explicit request to drop the data, and a mode change ends the readonly state.) -/
theorem readonly_frozen (s : Store K F) (hm : s.mode = .readonly) (op : SOp K F)
    (h2 : ∀ b, op ≠ .clear b) (h3 : ∀ m, op ≠ .setMode m) :
    (sstep s op).1 = s ∧ (op ≠ .endW → (sstep s op).2 = some .runtime) := by
  cases op with
  | start fi => simp [sstep, readonly_rejects s fi hm]
  | append fi t f c => simp [sstep, readonly_rejects_append s fi t f c hm]
  | endW => simp [sstep]
  | clear b => exact absurd rfl (h2 b)
  | setMode m => exact absurd rfl (h3 m)

/-- **readonly disables writing completely** (every operation sequence): as long as the mode
is not changed, nothing can ever be added to a readonly storage - its pairs stay what they are
or, after an explicit `clear()`, are gone; the mode stays `readonly` -/
theorem readonly_disables_writing (ops : List (SOp K F)) :
    ∀ s : Store K F, s.mode = .readonly → (∀ op ∈ ops, ∀ m, op ≠ .setMode m) →
      (srun s ops).mode = .readonly ∧
      ((srun s ops).contents = s.contents ∨ (srun s ops).contents = []) := by
  induction ops with
  | nil => intro s hm _; exact ⟨hm, Or.inl rfl⟩
  | cons op ops ih =>
    intro s hm hops
    have hops' : ∀ o ∈ ops, ∀ m, o ≠ .setMode m := fun o ho => hops o (by simp [ho])
    by_cases hc : ∃ b, op = .clear b
    · obtain ⟨b, rfl⟩ := hc
      have hm' : (sstep s (.clear b)).1.mode = .readonly := by simp [sstep, clear, hm]
      obtain ⟨e1, e2⟩ := ih _ hm' hops'
      refine ⟨e1, Or.inr ?_⟩
      have h0 : (sstep s (SOp.clear b)).1.contents = [] := by simp [sstep, clear, Store.contents]
      rcases e2 with e2 | e2
      · rw [srun_cons', e2, h0]
      · rw [srun_cons', e2]
    · have hfz := (readonly_frozen s hm op (fun b h0 => hc ⟨b, h0⟩) (hops op (by simp))).1
      rw [srun_cons', hfz]
      exact ih s hm hops'

/-- the behaviour BEFORE fd5b417 (`StorageBase.append` without the read-only check and without
the dtype rule), kept only to state what the regression legs of the harness guard against -/
def appendOld (s : Store K F) (fi : FieldInfo) (time : Option K) (frame : F) :
    Store K F × Option Err :=
  let t := match time with
    | some t => t
    | none => defaultTime s.times
  match s.grid with
  | none => appendData { s with grid := some fi.grid } fi t frame
  | some g => if g ≠ fi.grid then (s, some .value) else appendData s fi t frame

/-- witness about the OLD code: a storage that knows its data shape accepted `append` in
`readonly` mode (finding C20/1, repaired by fd5b417; `readonly_rejects_append` is the new code) -/
theorem appendOld_readonly_accepted (s : Store K F) (fi : FieldInfo) (t : K) (f : F)
    (hm : s.mode = .readonly) (hlen : s.times.length = s.frames.length)
    (hs : s.dataShape = some fi.shape) (hg : s.grid = some fi.grid) :
    (appendOld s fi (some t) f).2 = none ∧
      (appendOld s fi (some t) f).1.contents = s.contents ++ [(t, f)] ∧
      (appendOld s fi (some t) f).1.mode = .readonly := by
  unfold appendOld appendData
  simp only [hg, hs, ne_eq, not_true_eq_false, if_false]
  refine ⟨trivial, ?_, hm⟩
  simp only [Store.contents]
  rw [List.zip_append hlen]; rfl

end

/-! ### `extract_time_range`: binary search and consistency with the stored pairs -/

section bisect
variable {K F : Type}

/-- the search loop keeps its bracket: everything left of `base` goes right, nothing from
`base + len` on does; needs only that `goRight` is downward closed along the list -/
theorem bisectGo_spec (go : K → Bool) (ts : List K)
    (hcl : ∀ (i j : Nat) (v w : K), i ≤ j → ts[i]? = some v → ts[j]? = some w → go w = true → go v = true) :
    ∀ fuel base len, 1 ≤ len → len ≤ fuel + 1 → base + len ≤ ts.length →
      (∀ (i : Nat) (v : K), i < base → ts[i]? = some v → go v = true) →
      (∀ (i : Nat) (v : K), base + len ≤ i → ts[i]? = some v → go v = false) →
      bisectGo go ts fuel base len < ts.length ∧
      (∀ (i : Nat) (v : K), i < bisectGo go ts fuel base len → ts[i]? = some v → go v = true) ∧
      (∀ (i : Nat) (v : K), bisectGo go ts fuel base len + 1 ≤ i → ts[i]? = some v → go v = false) := by
  intro fuel
  induction fuel with
  | zero =>
    intro base len h1 h2 h3 hlo hhi
    have : len = 1 := by omega
    subst this
    simp only [bisectGo]
    exact ⟨by omega, hlo, hhi⟩
  | succ n ih =>
    intro base len h1 h2 h3 hlo hhi
    unfold bisectGo
    by_cases hlen : 1 < len
    · simp only [hlen, if_true]
      have hmid : base + len / 2 < ts.length := by omega
      have hmid' : ts[base + len / 2]? = some ts[base + len / 2] := List.getElem?_eq_getElem hmid
      rw [hmid']
      simp only
      have hhalf : 1 ≤ len / 2 := by omega
      cases hg : go ts[base + len / 2] with
      | true =>
        simp only [if_true]
        apply ih (base + len / 2) (len - len / 2) (by omega) (by omega) (by omega)
        · intro i v hi hv
          exact hcl i (base + len / 2) v _ (by omega) hv hmid' hg
        · intro i v hge hv
          exact hhi i v (by omega) hv
      | false =>
        simp only [Bool.false_eq_true, if_false]
        apply ih base (len - len / 2) (by omega) (by omega) (by omega) hlo
        intro i v hge hv
        cases hgi : go v with
        | false => rfl
        | true =>
          have := hcl (base + len / 2) i _ v (by omega) hmid' hv hgi
          rw [hg] at this; cases this
    · simp only [hlen, if_false]
      have : len = 1 := by omega
      subst this
      exact ⟨by omega, hlo, hhi⟩

/-- on a list along which `goRight` is downward closed the search returns the partition
point: exactly the entries before it go right -/
theorem bisect_spec (go : K → Bool) (ts : List K)
    (hcl : ∀ (i j : Nat) (v w : K), i ≤ j → ts[i]? = some v → ts[j]? = some w → go w = true → go v = true) :
    bisect go ts ≤ ts.length ∧
      ∀ (i : Nat) (v : K), ts[i]? = some v → (i < bisect go ts ↔ go v = true) := by
  by_cases hn : ts.length = 0
  · have : ts = [] := List.eq_nil_of_length_eq_zero hn
    subst this
    simp [bisect, bisectGo]
  · obtain ⟨h1, h2, h3⟩ := bisectGo_spec go ts hcl ts.length 0 ts.length (by omega) (by omega)
      (by omega) (by intro i v h; omega)
      (by intro i v hi hv
          have := (List.getElem?_eq_some_iff.mp hv).1
          omega)
    unfold bisect
    simp only
    have hb := List.getElem?_eq_getElem h1
    rw [hb]
    simp only
    cases hg : go ts[bisectGo go ts ts.length 0 ts.length] with
    | true =>
      simp only [if_true]
      refine ⟨by omega, ?_⟩
      intro i v hv
      constructor
      · intro hlt
        by_cases he : i = bisectGo go ts ts.length 0 ts.length
        · subst he; rw [hb] at hv; cases hv; exact hg
        · exact h2 i v (by omega) hv
      · intro hgi
        by_contra hge
        have := h3 i v (by omega) hv
        rw [this] at hgi; cases hgi
    | false =>
      simp only [Bool.false_eq_true, if_false]
      refine ⟨by omega, ?_⟩
      intro i v hv
      constructor
      · intro hlt; exact h2 i v hlt hv
      · intro hgi
        by_contra hge
        by_cases he : i = bisectGo go ts ts.length 0 ts.length
        · subst he; rw [hb] at hv; cases hv; rw [hg] at hgi; cases hgi
        · have := h3 i v (by omega) hv
          rw [this] at hgi; cases hgi

theorem zip_drop_take {α β : Type} (l : List α) (l' : List β) (i n : Nat) :
    ((l.zip l').drop i).take n = ((l.drop i).take n).zip ((l'.drop i).take n) := by
  simp [List.zip_eq_zipWith, List.take_zipWith, List.drop_zipWith]

/-- `construct` succeeds on lists of equal length and stores them as they are -/
theorem construct_ok (times : List K) (frames : List F) (tm : Option FieldInfo) (m : Mode)
    (h : times.length = frames.length) :
    construct times frames tm m = .ok
      { times := times, frames := frames, mode := m, dataShape := tm.map (·.shape),
        dtypeSet := false, grid := tm.map (·.grid), template := tm } := by
  unfold construct; simp [h]

variable [LinearOrder K]

theorem sorted_getElem?_le (ts : List K) (hs : ts.Pairwise (· ≤ ·)) (i j : Nat) (v w : K)
    (hij : i ≤ j) (hv : ts[i]? = some v) (hw : ts[j]? = some w) : v ≤ w := by
  obtain ⟨hi, rfl⟩ := List.getElem?_eq_some_iff.mp hv
  obtain ⟨hj, rfl⟩ := List.getElem?_eq_some_iff.mp hw
  rcases Nat.lt_or_eq_of_le hij with h1 | h1
  · exact List.pairwise_iff_getElem.mp hs i j hi hj h1
  · subst h1; exact le_refl _

/-- `searchsorted(side="left")` on sorted times: the number of entries `< x` -/
theorem bisectLeft_sorted (ts : List K) (hs : ts.Pairwise (· ≤ ·)) (x : K) :
    bisectLeft ts x ≤ ts.length ∧
      ∀ (i : Nat) (v : K), ts[i]? = some v → (i < bisectLeft ts x ↔ v < x) := by
  have := bisect_spec (fun v => decide (v < x)) ts (by
    intro i j v w hij hv hw h
    simp only [decide_eq_true_eq] at h ⊢
    exact lt_of_le_of_lt (sorted_getElem?_le ts hs i j v w hij hv hw) h)
  simpa [bisectLeft] using this

/-- `searchsorted(side="right")` on sorted times: the number of entries `≤ x` -/
theorem bisectRight_sorted (ts : List K) (hs : ts.Pairwise (· ≤ ·)) (x : K) :
    bisectRight ts x ≤ ts.length ∧
      ∀ (i : Nat) (v : K), ts[i]? = some v → (i < bisectRight ts x ↔ v ≤ x) := by
  have := bisect_spec (fun v => !decide (x < v)) ts (by
    intro i j v w hij hv hw h
    simp only [Bool.not_eq_eq_eq_not, Bool.not_true, decide_eq_false_iff_not, not_lt] at h ⊢
    exact le_trans (sorted_getElem?_le ts hs i j v w hij hv hw) h)
  simpa [bisectRight] using this

/-- a predicate that holds exactly on the index range `[i, j)` filters out that range -/
theorem filter_eq_drop_take {α : Type} (q : α → Bool) :
    ∀ (l : List α) (i j : Nat), (∀ k (h : k < l.length), (q l[k] = true ↔ i ≤ k ∧ k < j)) →
      l.filter q = (l.drop i).take (j - i) := by
  intro l
  induction l with
  | nil => intro i j _; simp
  | cons x xs ih =>
    intro i j h
    have h0 := h 0 (by simp)
    simp only [List.getElem_cons_zero] at h0
    have hxs : ∀ i' j', (∀ k (hk : k < xs.length), (q xs[k] = true ↔ i' ≤ k ∧ k < j')) →
        xs.filter q = (xs.drop i').take (j' - i') := fun i' j' h' => ih i' j' h'
    cases i with
    | zero =>
      cases j with
      | zero =>
        have hq : q x = false := by
          cases hqx : q x with
          | false => rfl
          | true => have := h0.mp hqx; omega
        rw [List.filter_cons_of_neg (by simp [hq])]
        rw [hxs 0 0 (by
          intro k hk
          have := h (k + 1) (by simp; omega)
          simp only [List.getElem_cons_succ] at this
          rw [this]; omega)]
        simp
      | succ j' =>
        have hq : q x = true := h0.mpr ⟨by omega, by omega⟩
        rw [List.filter_cons_of_pos hq]
        rw [hxs 0 j' (by
          intro k hk
          have := h (k + 1) (by simp; omega)
          simp only [List.getElem_cons_succ] at this
          rw [this]; omega)]
        simp
    | succ i' =>
      have hq : q x = false := by
        cases hqx : q x with
        | false => rfl
        | true => have := h0.mp hqx; omega
      rw [List.filter_cons_of_neg (by simp [hq])]
      rw [hxs i' (j - 1) (by
        intro k hk
        have := h (k + 1) (by simp; omega)
        simp only [List.getElem_cons_succ] at this
        rw [this]; omega)]
      simp only [List.drop_succ_cons]
      congr 1; omega

/-- `extract_time_range` with both ends given never fails and returns a storage in the default
write mode that holds a contiguous run of the stored pairs - the *same* frame objects - and the
same template.  Holds for arbitrary (also unsorted) times. -/
theorem extract_time_range_is_slice (s : Store K F) (hlen : s.times.length = s.frames.length)
    (a b : K) :
    ∃ s' i n, extractTimeRange s (.pair (some a) (some b)) = .ok s' ∧
      i = bisectLeft s.times a ∧ n = bisectRight s.times b - bisectLeft s.times a ∧
      s'.contents = (s.contents.drop i).take n ∧ s'.frames = (s.frames.drop i).take n ∧
      s'.template = s.template ∧ s'.mode = .truncateOnce ∧
      s'.times.length = s'.frames.length := by
  unfold extractTimeRange
  simp only
  rw [construct_ok _ _ _ _ (by simp [hlen])]
  refine ⟨_, _, _, rfl, rfl, rfl, ?_, rfl, rfl, rfl, by simp [hlen]⟩
  simp only [Store.contents]
  rw [zip_drop_take]

/-- how the optional ends are filled in: `None` means the first / the last stored time -/
theorem extract_time_range_defaults (s : Store K F) (t0 t1 : K) (h0 : s.times.head? = some t0)
    (h1 : s.times.getLast? = some t1) (t : K) (a b : Option K) :
    extractTimeRange s .all = extractTimeRange s (.pair (some t0) (some t1)) ∧
    extractTimeRange s (.upto t) = extractTimeRange s (.pair (some t0) (some t)) ∧
    extractTimeRange s (.pair none b) = extractTimeRange s (.pair (some t0) b) ∧
    extractTimeRange s (.pair a none) = extractTimeRange s (.pair a (some t1)) := by
  unfold extractTimeRange
  refine ⟨by simp [h0, h1], by simp [h0], by simp [h0], by simp [h1]⟩

/-- an open end on an empty storage is `IndexError` (`self.times[0]`) -/
theorem extract_time_range_empty (s : Store K F) (h : s.times = []) (t : K) (a b : Option K) :
    extractTimeRange s .all = .error .index ∧ extractTimeRange s (.upto t) = .error .index ∧
    extractTimeRange s (.pair none b) = .error .index ∧
    extractTimeRange s (.pair (some t) none) = .error .index := by
  unfold extractTimeRange
  simp [h]

/-- on sorted times the result of `extract_time_range` holds exactly the stored pairs with
`a ≤ t ≤ b`, in storage order (the sorted half of `extract_time_range_consistent`) -/
theorem extract_time_range_sorted (s : Store K F) (hlen : s.times.length = s.frames.length)
    (hs : s.times.Pairwise (· ≤ ·)) (a b : K) :
    ∃ s', extractTimeRange s (.pair (some a) (some b)) = .ok s' ∧
      s'.contents = s.contents.filter (fun p => decide (a ≤ p.1 ∧ p.1 ≤ b)) := by
  obtain ⟨s', i, n, h1, hi, hn, hc, _⟩ := extract_time_range_is_slice s hlen a b
  refine ⟨s', h1, ?_⟩
  rw [hc, hi, hn]
  symm
  apply filter_eq_drop_take
  intro k hk
  have hk' : k < s.times.length := by simpa [Store.contents, hlen] using hk
  have hv : s.times[k]? = some (s.contents[k]).1 := by
    simp [Store.contents, hk']
  have hl := (bisectLeft_sorted s.times hs a).2 k _ hv
  have hr := (bisectRight_sorted s.times hs b).2 k _ hv
  simp only [decide_eq_true_eq]
  rw [hr]
  constructor
  · rintro ⟨h2, h3⟩
    refine ⟨?_, h3⟩
    by_contra hlt
    exact absurd (hl.mp (by omega)) (not_lt.mpr h2)
  · rintro ⟨h2, h3⟩
    refine ⟨?_, h3⟩
    by_contra hlt
    exact absurd (hl.mpr (not_le.mp hlt)) (by omega)

/-- **extract_time_range is consistent with the stored frames** (full statement).  For ANY stored times
(sorted or not) the call with both ends never fails and returns a storage in the default write mode with
the same template that holds a contiguous run of the stored pairs - the *same* frame objects -; and
whenever the stored times are sorted that run is exactly the stored pairs with `a ≤ t ≤ b`, in order.
(On unsorted times "the pairs in the interval" has no documented meaning: `np.searchsorted` returns
whatever its search loop reaches; the run property is all that can be promised.) -/
theorem extract_time_range_consistent (s : Store K F) (hlen : s.times.length = s.frames.length)
    (a b : K) :
    ∃ s' i n, extractTimeRange s (.pair (some a) (some b)) = .ok s' ∧
      s'.contents = (s.contents.drop i).take n ∧ s'.frames = (s.frames.drop i).take n ∧
      s'.template = s.template ∧ s'.mode = .truncateOnce ∧
      (s.times.Pairwise (· ≤ ·) →
        s'.contents = s.contents.filter (fun p => decide (a ≤ p.1 ∧ p.1 ≤ b))) := by
  obtain ⟨s', i, n, h1, _, _, hc, hf, ht, hm, _⟩ := extract_time_range_is_slice s hlen a b
  refine ⟨s', i, n, h1, hc, hf, ht, hm, ?_⟩
  intro hs
  obtain ⟨s'', h2, h3⟩ := extract_time_range_sorted s hlen hs a b
  rw [h1] at h2
  cases h2
  exact h3


end bisect

/-! ### collections: `extract_field` and `view_field` -/

section collections
variable {K F V : Type}

/-- the label lookup returns the first member carrying the label -/
theorem labelIndex_eq_some (ms : List Member) (l : String) (i : Nat) :
    labelIndex ms l = some i ↔
      ∃ h : i < ms.length, ms[i].label = some l ∧ ∀ j (hj : j < i), (ms[j]'(by omega)).label ≠ some l := by
  unfold labelIndex
  rw [List.findIdx?_eq_some_iff_getElem]
  constructor
  · rintro ⟨h, h1, h2⟩
    exact ⟨h, by simpa using h1, fun j hj => by simpa using h2 j hj⟩
  · rintro ⟨h, h1, h2⟩
    exact ⟨h, by simpa using h1, fun j hj => by simpa using h2 j hj⟩

theorem labelIndex_eq_none (ms : List Member) (l : String) :
    labelIndex ms l = none ↔ ∀ m ∈ ms, m.label ≠ some l := by
  unfold labelIndex
  rw [List.findIdx?_eq_none_iff]
  simp

theorem pyIndex_nat (n i : Nat) (h : i < n) : pyIndex n (i : Int) = .ok i := normIndex_nat n i h

theorem pyIndex_neg (n k : Nat) (h1 : 1 ≤ k) (h2 : k ≤ n) : pyIndex n (-(k : Int)) = .ok (n - k) :=
  normIndex_neg n k h1 h2

theorem pyIndex_out (n : Nat) (i : Int) (h : i < -(n : Int) ∨ (n : Int) ≤ i) :
    pyIndex n i = .error .index := normIndex_out n i h

theorem pyIndex_lt (n : Nat) (i : Int) (j : Nat) (h : pyIndex n i = .ok j) : j < n := by
  unfold pyIndex at h
  simp only at h
  split_ifs at h with h1 h2 h2
  · cases h; omega
  · cases h; omega

/-- slicing on raw data: rows `offset i .. offset i + ncomp i` of a frame with `ncell` cells -/
theorem sliceFrame_blocks (ncell : Nat) :
    ∀ (ms : List Member) (blocks : List (List V)) (i : Nat) (fi : FieldInfo),
      fi.members = ms → fi.ncell = ncell → blocks.length = ms.length →
      (∀ j (h1 : j < ms.length) (h2 : j < blocks.length), blocks[j].length = ms[j].ncomp * ncell) →
      ∀ (hi : i < blocks.length), sliceFrame fi i blocks.flatten = blocks[i] := by
  intro ms
  induction ms with
  | nil => intro blocks i fi _ _ hl _ hi; simp at hl; rw [hl] at hi; simp at hi
  | cons m ms ih =>
    intro blocks i fi hm hn hl hb hi
    cases blocks with
    | nil => simp at hi
    | cons b bs =>
      have hb0 := hb 0 (by simp) (by simp)
      simp only [List.getElem_cons_zero] at hb0
      cases i with
      | zero =>
        unfold sliceFrame
        simp only [hm, hn, memberOffset, List.take_zero, List.map_nil, List.sum_nil, Nat.zero_mul,
          List.drop_zero, List.getElem?_cons_zero, List.flatten_cons, List.getElem_cons_zero]
        exact List.take_left' hb0
      | succ i =>
        have hrec := ih bs i { fi with members := ms } rfl hn (by simpa using hl)
          (by intro j h1 h2
              have := hb (j + 1) (by simp; omega) (by simp; omega)
              simpa using this)
          (by simpa using hi)
        simp only [List.getElem_cons_succ]
        rw [← hrec]
        unfold sliceFrame
        simp only [hm, hn, memberOffset, List.take_succ_cons, List.map_cons, List.sum_cons,
          List.getElem?_cons_succ, List.flatten_cons]
        rw [Nat.add_mul, ← hb0, List.drop_length_add_append]

/-- the members' slices partition the frame: concatenated in order they give it back -/
theorem sliceFrame_exhaustive (fi : FieldInfo) (blocks : List (List V))
    (hl : blocks.length = fi.members.length)
    (hb : ∀ j (h1 : j < fi.members.length) (h2 : j < blocks.length),
      blocks[j].length = fi.members[j].ncomp * fi.ncell) :
    ((List.range fi.members.length).map (fun i => sliceFrame fi i blocks.flatten)).flatten =
      blocks.flatten := by
  congr 1
  apply List.ext_getElem
  · simp [hl]
  · intro i h1 h2
    simp only [List.getElem_map, List.getElem_range]
    exact sliceFrame_blocks fi.ncell fi.members blocks i fi rfl rfl hl hb h2

/-- which member `extract_field` selects and which errors it raises:
an int is a Python index into the members, a label selects the first member carrying it -/
theorem extractFieldPlan_cases (s : Store K F) (fi : FieldInfo) (ht : s.template = some fi)
    (fid : FieldId) (label : Option String) :
    (fi.cls ≠ 3 → extractFieldPlan s fid label = .error .type) ∧
    (fi.cls = 3 → ∀ (i : Nat) (h : i < fi.members.length),
      (fid = .idx (i : Int) ∨ (∃ k : Nat, 1 ≤ k ∧ k ≤ fi.members.length ∧ fid = .idx (-(k : Int)) ∧
          i = fi.members.length - k) ∨ (∃ l, fid = .name l ∧ labelIndex fi.members l = some i)) →
      extractFieldPlan s fid label = .ok (fi, i, memberInfo fi fi.members[i] label)) ∧
    (fi.cls = 3 → ∀ i : Int, (i < -(fi.members.length : Int) ∨ (fi.members.length : Int) ≤ i) →
      extractFieldPlan s (.idx i) label = .error .index) ∧
    (fi.cls = 3 → ∀ l, labelIndex fi.members l = none →
      extractFieldPlan s (.name l) label = .error .value) := by
  refine ⟨?_, ?_, ?_, ?_⟩
  · intro hc; unfold extractFieldPlan; simp [ht, hc]
  · intro hc i h hfid
    unfold extractFieldPlan
    simp only [ht, hc, ne_eq, not_true_eq_false, if_false]
    rcases hfid with rfl | ⟨k, h1, h2, rfl, rfl⟩ | ⟨l, rfl, hl⟩
    · simp only [pyIndex_nat _ _ h, List.getElem?_eq_getElem h]
    · have h3 : fi.members.length - k < fi.members.length := by omega
      simp only [pyIndex_neg _ _ h1 h2, List.getElem?_eq_getElem h3]
    · simp only [hl, List.getElem?_eq_getElem h]
  · intro hc i hi
    unfold extractFieldPlan
    simp [ht, hc, pyIndex_out _ _ hi]
  · intro hc l hl
    unfold extractFieldPlan
    simp [ht, hc, hl]

/-- **extract_field is consistent with the stored frames**: the result has the same times, its
`k`-th frame is member `i`'s part of the `k`-th stored frame, the template is the member (with
the label override), the mode is the default one and nothing else is carried over. -/
theorem extract_field_consistent (s : Store K (List V)) (hlen : s.times.length = s.frames.length)
    (fid : FieldId) (label : Option String) (fi tmpl : FieldInfo) (i : Nat)
    (hp : extractFieldPlan s fid label = .ok (fi, i, tmpl)) :
    ∃ s', extractFieldBuild s tmpl (s.frames.map (sliceFrame fi i)) = .ok s' ∧
      s'.contents = s.contents.map (fun p => (p.1, sliceFrame fi i p.2)) ∧
      s'.template = some tmpl ∧ s'.mode = .truncateOnce ∧ s'.dataShape = some tmpl.shape ∧
      s'.grid = some tmpl.grid ∧ s.template = some fi ∧ fi.cls = 3 ∧
      ∃ h : i < fi.members.length, tmpl = memberInfo fi fi.members[i] label := by
  unfold extractFieldBuild
  rw [construct_ok _ _ _ _ (by simp [hlen])]
  refine ⟨_, rfl, ?_, rfl, rfl, rfl, rfl, ?_⟩
  · simp only [Store.contents]
    rw [List.zip_map_right]
    simp
  · unfold extractFieldPlan at hp
    cases ht : s.template with
    | none => rw [ht] at hp; simp only at hp; split at hp <;> (try split_ifs at hp) <;> cases hp
    | some fi0 =>
      rw [ht] at hp
      simp only at hp
      by_cases hc : fi0.cls = 3
      · simp only [hc, ne_eq, not_true_eq_false, if_false] at hp
        split at hp
        · cases hp
        · rename_i j hj
          split at hp
          · cases hp
          · rename_i m hm
            cases hp
            obtain ⟨hlt, rfl⟩ := List.getElem?_eq_some_iff.mp hm
            exact ⟨rfl, hc, hlt, rfl⟩
      · simp [hc] at hp

/-- **view_field is consistent with the stored frames and with extract_field**: item `k` of a
view is member `j` of `storage[k]`, where `j` is the member `extract_field` selects for the same
field id; its data is that member's part of the `k`-th stored frame (`sliceFrame fi j f`). -/
theorem view_field_consistent (s : Store K F) (fid : FieldId) (fidx k : Int) (fi : FieldInfo)
    (f : F) (j : Nat) (m : Member) (hc : viewCreate s fid = .ok fidx)
    (hg : viewGet s fidx k = .ok (fi, f, j, m)) :
    getField s k = .ok (fi, f) ∧ extractFieldPlan s fid none = .ok (fi, j, memberInfo fi m none) := by
  unfold viewGet at hg
  cases hgf : getField s k with
  | error e => rw [hgf] at hg; cases hg
  | ok r =>
    obtain ⟨fi0, f0⟩ := r
    rw [hgf] at hg
    simp only at hg
    have htm : s.template = some fi0 := by
      unfold getField at hgf
      split at hgf
      · cases hgf
      · split at hgf
        · cases hgf
        · rename_i fi1 h1
          split at hgf
          · cases hgf
          · cases hgf; exact h1
    by_cases hcl : fi0.cls = 3
    · simp only [hcl, ne_eq, not_true_eq_false, if_false] at hg
      split at hg
      · cases hg
      · rename_i j0 hj0
        split at hg
        · cases hg
        · rename_i m0 hm0
          cases hg
          refine ⟨rfl, ?_⟩
          unfold viewCreate at hc
          simp only [htm, hcl, beq_self_eq_true] at hc
          unfold extractFieldPlan
          simp only [htm, hcl, ne_eq, not_true_eq_false, if_false]
          cases fid with
          | idx i =>
            simp only at hc
            cases hc
            simp only [hj0, hm0]
          | name l =>
            simp only at hc
            cases hl : labelIndex fi.members l with
            | none => rw [hl] at hc; cases hc
            | some i0 =>
              rw [hl] at hc
              cases hc
              have : pyIndex fi.members.length (i0 : Int) = .ok i0 := by
                apply pyIndex_nat
                exact ((labelIndex_eq_some _ _ _).mp hl).1
              rw [this] at hj0
              cases hj0
              simp only [hl, hm0]
    · simp [hcl] at hg

end collections

/-! ### `copy` and `apply` -/

section apply
variable {K F : Type} [Add K] [NatCast K]

/-- the (time, frame) pairs the loop of `apply` appends for the work list `todo` -/
def pairsOf (times : List K) (todo : List (Nat × F)) : List (K × F) :=
  todo.filterMap (fun p => (times[p.1]?).map (fun t => (t, p.2)))

theorem pairsOf_range' : ∀ (times pre : List K) (nf : List F),
    pairsOf (pre ++ times) ((List.range' pre.length times.length).zip nf) = times.zip nf := by
  intro times
  induction times with
  | nil => intro pre nf; simp [pairsOf]
  | cons t ts ih =>
    intro pre nf
    cases nf with
    | nil => simp [pairsOf]
    | cons f fs =>
      have h := ih (pre ++ [t]) fs
      simp only [List.length_append, List.length_cons, List.length_nil, List.append_assoc,
        List.singleton_append] at h
      simp only [List.length_cons, List.range'_succ, List.zip_cons_cons, pairsOf,
        List.filterMap_cons]
      have : (pre ++ t :: ts)[pre.length]? = some t := by simp
      simp only [this, Option.map_some]
      unfold pairsOf at h
      rw [Nat.zero_add] at h
      rw [h]

theorem pairsOf_range (times : List K) (nf : List F) :
    pairsOf times ((List.range times.length).zip nf) = times.zip nf := by
  have := pairsOf_range' times [] nf
  simpa [List.range_eq_range'] using this

/-- a storage that accepts appends of fields described by `fi'` (up to the dtype rule) -/
def Ready (o : Store K F) (fi' : FieldInfo) : Prop :=
  o.mode ≠ .readonly ∧ o.grid = some fi'.grid ∧ o.dataShape = some fi'.shape

/-- an accepted `start_writing` leaves the storage ready for appends of fields like `fi`, with
its dtype set -/
theorem startWriting_accepted_ready (o : Store K F) (fi : FieldInfo)
    (h : (startWriting o fi).2 = none) :
    Ready (startWriting o fi).1 fi ∧ (startWriting o fi).1.template = some fi ∧
      (startWriting o fi).1.dtypeSet = true := by
  revert h
  unfold startWriting baseStart Ready
  cases hm : o.mode <;> cases hd : o.dataShape <;> simp [clear] <;> split_ifs <;> simp_all

theorem append_ready (o : Store K F) (fi' : FieldInfo) (t : K) (nf : F) (c : Bool)
    (hr : Ready o fi') (hc : o.dtypeSet = true → c = true) :
    append o fi' (some t) nf c =
      ({ o with frames := o.frames ++ [nf], times := o.times ++ [t] }, none) := by
  obtain ⟨h1, h2, h3⟩ := hr
  unfold append appendCast appendData
  cases hd : o.dtypeSet <;> cases c <;> simp_all

theorem append_castfail (o : Store K F) (fi' : FieldInfo) (t : K) (nf : F)
    (hr : Ready o fi') (hd : o.dtypeSet = true) :
    append o fi' (some t) nf false = (o, some .type) := by
  obtain ⟨h1, h2, h3⟩ := hr
  unfold append appendCast
  simp_all

theorem ready_append (o : Store K F) (fi' : FieldInfo) (t : K) (nf : F) (hr : Ready o fi') :
    Ready ({ o with frames := o.frames ++ [nf], times := o.times ++ [t] } : Store K F) fi' := hr

/-- the loop of `apply` once the output storage has been opened (and numpy can cast the
transformed data): every remaining item is appended with its time; nothing else changes -/
theorem applyLoop_writing (s : Store K F) (hw : WF s) (fi : FieldInfo) (ht : s.template = some fi)
    (finfo : FieldInfo → FieldInfo) :
    ∀ (todo : List (Nat × F)) (o : Store K F), (∀ p ∈ todo, p.1 < s.frames.length) →
      Ready o (finfo fi) → o.times.length = o.frames.length →
      ∃ o', applyLoop s finfo true todo (some o) true = (some o', none) ∧
        o'.contents = o.contents ++ pairsOf s.times todo ∧ o'.mode = o.mode ∧
        o'.template = o.template ∧ o'.dataShape = o.dataShape ∧
        o'.times.length = o'.frames.length := by
  intro todo
  induction todo with
  | nil => intro o _ _ hl; exact ⟨o, rfl, by simp [pairsOf], rfl, rfl, rfl, hl⟩
  | cons p todo ih =>
    intro o hp hr hl
    obtain ⟨i, nf⟩ := p
    have hi : i < s.frames.length := hp (i, nf) (by simp)
    obtain ⟨fi', hfi', hgf⟩ := getField_nat s hw i hi
    rw [ht] at hfi'; cases hfi'
    obtain ⟨ti, hti⟩ : ∃ t, s.times[i]? = some t :=
      ⟨s.times[i]'(by rw [hw.1]; exact hi), List.getElem?_eq_getElem (by rw [hw.1]; exact hi)⟩
    have hap := append_ready o (finfo fi) ti nf true hr (fun _ => rfl)
    obtain ⟨o', e1, e2, e3, e4, e5, e6⟩ := ih _ (fun q hq => hp q (by simp [hq]))
      (ready_append o (finfo fi) ti nf hr) (by simp [hl])
    refine ⟨o', ?_, ?_, e3, e4, e5, e6⟩
    · unfold applyLoop
      rw [hgf, hti]
      simp only [if_true, outOrNew, hap]
      exact e1
    · rw [e2]
      simp only [Store.contents, pairsOf, List.filterMap_cons, hti, Option.map_some]
      rw [List.zip_append hl]
      simp

/-- **copy / apply are consistent with the stored frames.**  `newFrames[k]` is the data of the
transformed `k`-th field (for `copy` the `k`-th frame itself), `finfo` the effect of the user
function on the field description.
1. an empty storage gives a new empty storage in the default mode;
2. without `out` the result holds the pairs `(times[k], newFrames[k])` in order, its template is
   the transformed template and its mode has become `append`;
3. with `out`, `out.start_writing(transformed)` decides: rejected - that error, `out` keeps
   its pairs; accepted - `out` (truncated or not according to its mode) followed by all pairs. -/
theorem copy_apply_consistent (s : Store K F) (hw : WF s) (finfo : FieldInfo → FieldInfo)
    (newFrames : List F) (hn : newFrames.length = s.frames.length) :
    (s.frames = [] → ∀ out, applyTo s finfo newFrames out true =
      (some (out.getD (Store.new .truncateOnce)), none)) ∧
    (∀ fi, s.template = some fi → s.frames ≠ [] →
      ∃ o, applyTo s finfo newFrames none true = (some o, none) ∧
        o.contents = s.times.zip newFrames ∧ o.mode = .append ∧
        o.template = some (finfo fi) ∧ o.dataShape = some (finfo fi).shape) ∧
    (∀ fi o0, s.template = some fi → s.frames ≠ [] → o0.times.length = o0.frames.length →
      ((startWriting o0 (finfo fi)).2 = none →
        ∃ o, applyTo s finfo newFrames (some o0) true = (some o, none) ∧
          o.contents = (startWriting o0 (finfo fi)).1.contents ++ s.times.zip newFrames ∧
          o.mode = (startWriting o0 (finfo fi)).1.mode) ∧
      (∀ e, (startWriting o0 (finfo fi)).2 = some e →
        applyTo s finfo newFrames (some o0) true = (some (startWriting o0 (finfo fi)).1, some e) ∧
        (startWriting o0 (finfo fi)).1.contents = o0.contents)) := by
  have hmem : ∀ p ∈ (List.range s.times.length).zip newFrames, p.1 < s.frames.length := by
    intro p hp
    have := (List.of_mem_zip hp).1
    rw [List.mem_range, hw.1] at this; exact this
  -- the first iteration, for any `out` state `o1` about to be opened
  have first : ∀ fi, s.template = some fi → s.frames ≠ [] → ∀ (out : Option (Store K F)) (o1 : Store K F),
      o1 = outOrNew out (finfo fi) →
      o1.times.length = o1.frames.length →
      ((startWriting o1 (finfo fi)).2 = none →
        ∃ o, applyTo s finfo newFrames out true = (some o, none) ∧
          o.contents = (startWriting o1 (finfo fi)).1.contents ++ s.times.zip newFrames ∧
          o.mode = (startWriting o1 (finfo fi)).1.mode ∧
          o.template = some (finfo fi) ∧ o.dataShape = some (finfo fi).shape) ∧
      (∀ e, (startWriting o1 (finfo fi)).2 = some e →
        applyTo s finfo newFrames out true = (some (startWriting o1 (finfo fi)).1, some e)) := by
    intro fi ht hne out o1 ho1 hl1
    have hpos : 0 < s.frames.length := List.length_pos_iff.mpr hne
    have hnf : newFrames ≠ [] := by intro h; rw [h] at hn; simp at hn; omega
    obtain ⟨nf, nfs, rfl⟩ := List.exists_cons_of_ne_nil hnf
    have hr : List.range s.times.length = 0 :: (List.range' 1 (s.times.length - 1)) := by
      rw [List.range_eq_range']
      have : s.times.length = (s.times.length - 1) + 1 := by rw [hw.1]; omega
      conv_lhs => rw [this, List.range'_succ]
    obtain ⟨fi', hfi', hgf⟩ := getField_nat s hw 0 hpos
    rw [ht] at hfi'; cases hfi'
    obtain ⟨t0, hti⟩ : ∃ t, s.times[0]? = some t :=
      ⟨s.times[0]'(by rw [hw.1]; exact hpos), List.getElem?_eq_getElem (by rw [hw.1]; exact hpos)⟩
    constructor
    · intro hacc
      obtain ⟨gr, g3, _⟩ := startWriting_accepted_ready o1 (finfo fi) hacc
      have g2 := gr.2.2
      have hl2 : (startWriting o1 (finfo fi)).1.times.length = (startWriting o1 (finfo fi)).1.frames.length := by
        rcases startWriting_cases o1 (finfo fi) with ⟨_, _, h1, h2, _⟩ | ⟨he, _⟩
        · rw [h1, h2]; split_ifs <;> simp [hl1]
        · exact absurd hacc he
      obtain ⟨o', e1, e2, e3, e4, e5, _⟩ := applyLoop_writing s hw fi ht finfo
        ((List.range s.times.length).zip (nf :: nfs)) (startWriting o1 (finfo fi)).1 hmem gr hl2
      refine ⟨o', ?_, by rw [e2, pairsOf_range], e3, by rw [e4, g3], by rw [e5, g2]⟩
      unfold applyTo
      -- unfold the first iteration on both sides
      rw [hr] at e1 ⊢
      simp only [List.zip_cons_cons] at e1 ⊢
      unfold applyLoop at e1 ⊢
      simp only [Nat.cast_zero] at e1 ⊢
      have hgf0 : getField s (0 : Int) = .ok (fi, s.frames[0]) := by simpa using hgf
      rw [hgf0, hti] at e1 ⊢
      simp only [if_true, outOrNew] at e1
      simp only [Bool.false_eq_true, if_false]
      rw [← ho1]
      cases hsw : startWriting o1 (finfo fi) with
      | mk o2 e2' =>
        rw [hsw] at hacc e1
        simp only at hacc
        subst hacc
        simp only at e1 ⊢
        -- `e1` is about the loop entered with `writing = true` on `o2`: same continuation
        cases hap : append o2 (finfo fi) (some t0) nf true with
        | mk o3 e3' =>
          rw [hap] at e1
          cases e3' with
          | some err => simp at e1
          | none =>
            simp only at e1 ⊢
            rw [e1]
    · intro e he
      unfold applyTo
      rw [hr]
      simp only [List.zip_cons_cons]
      unfold applyLoop
      simp only [Nat.cast_zero]
      have hgf0 : getField s (0 : Int) = .ok (fi, s.frames[0]) := by simpa using hgf
      rw [hgf0, hti]
      simp only [Bool.false_eq_true, if_false]
      rw [← ho1]
      cases hsw : startWriting o1 (finfo fi) with
      | mk o2 e2' =>
        rw [hsw] at he
        simp only at he
        subst he
        rfl
  refine ⟨?_, ?_, ?_⟩
  · intro he out
    have : s.times = [] := by
      have := hw.1; rw [he] at this; simpa using this
    unfold applyTo
    simp only [this, List.length_nil, List.range_zero, List.zip_nil_left, applyLoop]
    cases out <;> rfl
  · intro fi ht hne
    have h := first fi ht hne none _ rfl (by simp [outOrNew])
    have hmo : (outOrNew (none : Option (Store K F)) (finfo fi)).mode = .truncateOnce := rfl
    have hacc : (startWriting (outOrNew (none : Option (Store K F)) (finfo fi)) (finfo fi)).2 = none := by
      rw [start_accepted_iff]; simp [outOrNew]
    obtain ⟨o, e1, e2, e3, e4, e5⟩ := h.1 hacc
    refine ⟨o, e1, ?_, ?_, e4, e5⟩
    · rw [e2, (mode_truncate_once _ _ hmo hacc).1]; simp
    · rw [e3, (mode_truncate_once _ _ hmo hacc).2]
  · intro fi o0 ht hne hl0
    have h := first fi ht hne (some o0) o0 rfl hl0
    refine ⟨?_, ?_⟩
    · intro hacc
      obtain ⟨o, e1, e2, e3, _⟩ := h.1 hacc
      exact ⟨o, e1, e2, e3⟩
    · intro e he
      refine ⟨h.2 e he, ?_⟩
      have : (sstep o0 (.start (finfo fi))).2 ≠ none := by simp [sstep, he]
      exact (rejected_keeps_contents o0 (.start (finfo fi)) this).1

/-- the appends `apply` performs, as storage operations (`c`: numpy's cast verdict for the
transformed data) -/
def appendOps (fi' : FieldInfo) (c : Bool) (ps : List (K × F)) : List (SOp K F) :=
  ps.map (fun p => .append fi' (some p.1) p.2 c)

theorem srun_cons (o : Store K F) (op : SOp K F) (ops : List (SOp K F)) :
    srun o (op :: ops) = srun (sstep o op).1 ops := rfl

/-- appends that numpy cannot cast are all rejected and leave the storage as it is -/
theorem srun_castfail (fi' : FieldInfo) : ∀ (ps : List (K × F)) (o : Store K F),
    Ready o fi' → o.dtypeSet = true → srun o (appendOps fi' false ps) = o := by
  intro ps
  induction ps with
  | nil => intro o _ _; rfl
  | cons p ps ih =>
    intro o hr hd
    simp only [appendOps, List.map_cons, srun_cons, sstep]
    rw [append_castfail o fi' p.1 p.2 hr hd]
    exact ih o hr hd

/-- the loop of `apply` after the output has been opened IS a run of the storage state machine
on the appends (all accepted if numpy can cast the data, all rejected otherwise) -/
theorem applyLoop_writing_srun (s : Store K F) (hw : WF s) (fi : FieldInfo) (ht : s.template = some fi)
    (finfo : FieldInfo → FieldInfo) (c : Bool) :
    ∀ (todo : List (Nat × F)) (o : Store K F), (∀ p ∈ todo, p.1 < s.frames.length) →
      Ready o (finfo fi) → o.dtypeSet = true →
      (applyLoop s finfo c todo (some o) true).1 =
        some (srun o (appendOps (finfo fi) c (pairsOf s.times todo))) := by
  intro todo
  induction todo with
  | nil => intro o _ _ _; simp [applyLoop, pairsOf, appendOps, srun]
  | cons p todo ih =>
    intro o hp hr hd
    obtain ⟨i, nf⟩ := p
    have hi : i < s.frames.length := hp (i, nf) (by simp)
    obtain ⟨fi', hfi', hgf⟩ := getField_nat s hw i hi
    rw [ht] at hfi'; cases hfi'
    obtain ⟨ti, hti⟩ : ∃ t, s.times[i]? = some t :=
      ⟨s.times[i]'(by rw [hw.1]; exact hi), List.getElem?_eq_getElem (by rw [hw.1]; exact hi)⟩
    cases c with
    | true =>
      have hap := append_ready o (finfo fi) ti nf true hr (fun _ => rfl)
      have hrec := ih _ (fun q hq => hp q (by simp [hq])) (ready_append o (finfo fi) ti nf hr) hd
      unfold applyLoop
      rw [hgf, hti]
      simp only [if_true, outOrNew, hap]
      rw [hrec]
      simp only [pairsOf, List.filterMap_cons, hti, Option.map_some, appendOps, List.map_cons,
        srun_cons, sstep, hap]
    | false =>
      have hap := append_castfail o (finfo fi) ti nf hr hd
      unfold applyLoop
      rw [hgf, hti]
      simp only [if_true, outOrNew, hap]
      rw [srun_castfail (finfo fi) _ o hr hd]

/-- the storage operations `apply(func, out=o0)` amounts to on `o0`: nothing for an empty
source; otherwise `start_writing(transformed)` and, if that is accepted, one append per frame -/
def applyOps (s : Store K F) (finfo : FieldInfo → FieldInfo) (newFrames : List F) (o0 : Store K F)
    (c : Bool) : List (SOp K F) :=
  match s.template with
  | none => []
  | some fi =>
    if s.frames.isEmpty then []
    else .start (finfo fi) ::
      (if (startWriting o0 (finfo fi)).2 = none then appendOps (finfo fi) c (s.times.zip newFrames)
       else [])

/-- **`copy`/`apply` into an existing storage is a run of that storage's state machine** on
`applyOps` -/
theorem applyTo_some_srun (s : Store K F) (hw : WF s) (finfo : FieldInfo → FieldInfo)
    (newFrames : List F) (hn : newFrames.length = s.frames.length) (o0 : Store K F) (c : Bool) :
    (applyTo s finfo newFrames (some o0) c).1 = some (srun o0 (applyOps s finfo newFrames o0 c)) := by
  by_cases hne : s.frames = []
  · have ht : s.times = [] := by
      have := hw.1; rw [hne] at this; simpa using this
    have : applyOps s finfo newFrames o0 c = [] := by
      unfold applyOps; cases s.template <;> simp [hne]
    rw [this]
    unfold applyTo
    simp [ht, applyLoop, srun]
  · obtain ⟨fi, ht, _⟩ := template_present s hw hne
    have hpos : 0 < s.frames.length := List.length_pos_iff.mpr hne
    have hnf : newFrames ≠ [] := by intro h; rw [h] at hn; simp at hn; omega
    obtain ⟨nf, nfs, rfl⟩ := List.exists_cons_of_ne_nil hnf
    have hr : List.range s.times.length = 0 :: (List.range' 1 (s.times.length - 1)) := by
      rw [List.range_eq_range']
      have : s.times.length = (s.times.length - 1) + 1 := by rw [hw.1]; omega
      conv_lhs => rw [this, List.range'_succ]
    have hmem : ∀ p ∈ (List.range s.times.length).zip (nf :: nfs), p.1 < s.frames.length := by
      intro p hp
      have := (List.of_mem_zip hp).1
      rw [List.mem_range, hw.1] at this; exact this
    obtain ⟨fi', hfi', hgf⟩ := getField_nat s hw 0 hpos
    rw [ht] at hfi'; cases hfi'
    have hgf0 : getField s (0 : Int) = .ok (fi, s.frames[0]) := by simpa using hgf
    obtain ⟨t0, hti⟩ : ∃ t, s.times[0]? = some t :=
      ⟨s.times[0]'(by rw [hw.1]; exact hpos), List.getElem?_eq_getElem (by rw [hw.1]; exact hpos)⟩
    have hops : applyOps s finfo (nf :: nfs) o0 c = .start (finfo fi) ::
        (if (startWriting o0 (finfo fi)).2 = none then
          appendOps (finfo fi) c (s.times.zip (nf :: nfs)) else []) := by
      unfold applyOps; simp [ht, hne]
    rw [hops, srun_cons]
    simp only [sstep]
    cases hsw : startWriting o0 (finfo fi) with
    | mk o2 e2 =>
      cases e2 with
      | some e =>
        simp only [reduceCtorEq, if_false, srun, List.foldl_nil]
        unfold applyTo
        rw [hr]
        simp only [List.zip_cons_cons]
        unfold applyLoop
        simp only [Nat.cast_zero]
        rw [hgf0, hti]
        simp only [Bool.false_eq_true, if_false, outOrNew, hsw]
      | none =>
        simp only [if_true]
        have hacc : (startWriting o0 (finfo fi)).2 = none := by rw [hsw]
        obtain ⟨gr, _, gd⟩ := startWriting_accepted_ready o0 (finfo fi) hacc
        rw [hsw] at gr gd
        have e1 := applyLoop_writing_srun s hw fi ht finfo c
          ((List.range s.times.length).zip (nf :: nfs)) o2 hmem gr gd
        rw [pairsOf_range] at e1
        -- both sides: the loop entered with `writing = true` on `o2`
        have hsame : applyLoop s finfo c ((List.range s.times.length).zip (nf :: nfs)) (some o0) false =
            applyLoop s finfo c ((List.range s.times.length).zip (nf :: nfs)) (some o2) true := by
          rw [hr]
          simp only [List.zip_cons_cons]
          conv_lhs => unfold applyLoop
          conv_rhs => unfold applyLoop
          simp only [Nat.cast_zero]
          rw [hgf0, hti]
          simp only [Bool.false_eq_true, if_false, if_true, outOrNew, hsw]
        unfold applyTo
        rw [hsame]
        cases hl : applyLoop s finfo c ((List.range s.times.length).zip (nf :: nfs)) (some o2) true with
        | mk ol el =>
          rw [hl] at e1
          simp only at e1
          subst e1
          cases el <;> rfl

/-- `copy`/`apply` when numpy cannot cast the transformed data to the dtype of the output storage
(`canCast = false`): `out.start_writing(transformed)` decides first (its error, or - accepted - the
truncation it performs as documented); then the very first `append` raises `TypeError` and nothing is added -/
theorem copy_apply_castfail (s : Store K F) (hw : WF s) (finfo : FieldInfo → FieldInfo)
    (newFrames : List F) (hn : newFrames.length = s.frames.length) (fi : FieldInfo)
    (ht : s.template = some fi) (hne : s.frames ≠ []) (out : Option (Store K F)) :
    ((startWriting (outOrNew out (finfo fi)) (finfo fi)).2 = none →
      applyTo s finfo newFrames out false =
        (some (startWriting (outOrNew out (finfo fi)) (finfo fi)).1, some .type)) ∧
    (∀ e, (startWriting (outOrNew out (finfo fi)) (finfo fi)).2 = some e →
      applyTo s finfo newFrames out false =
        (some (startWriting (outOrNew out (finfo fi)) (finfo fi)).1, some e)) := by
  have hpos : 0 < s.frames.length := List.length_pos_iff.mpr hne
  have hnf : newFrames ≠ [] := by intro h; rw [h] at hn; simp at hn; omega
  obtain ⟨nf, nfs, rfl⟩ := List.exists_cons_of_ne_nil hnf
  have hr : List.range s.times.length = 0 :: (List.range' 1 (s.times.length - 1)) := by
    rw [List.range_eq_range']
    have : s.times.length = (s.times.length - 1) + 1 := by rw [hw.1]; omega
    conv_lhs => rw [this, List.range'_succ]
  obtain ⟨fi', hfi', hgf⟩ := getField_nat s hw 0 hpos
  rw [ht] at hfi'; cases hfi'
  have hgf0 : getField s (0 : Int) = .ok (fi, s.frames[0]) := by simpa using hgf
  obtain ⟨t0, hti⟩ : ∃ t, s.times[0]? = some t :=
    ⟨s.times[0]'(by rw [hw.1]; exact hpos), List.getElem?_eq_getElem (by rw [hw.1]; exact hpos)⟩
  constructor
  · intro hacc
    obtain ⟨gr, _, gd⟩ := startWriting_accepted_ready _ (finfo fi) hacc
    have hap := append_castfail _ (finfo fi) t0 nf gr gd
    unfold applyTo
    rw [hr]
    simp only [List.zip_cons_cons]
    unfold applyLoop
    simp only [Nat.cast_zero]
    rw [hgf0, hti]
    simp only [Bool.false_eq_true, if_false]
    cases hsw : startWriting (outOrNew out (finfo fi)) (finfo fi) with
    | mk o2 e2 =>
      rw [hsw] at hacc hap
      simp only at hacc hap
      subst hacc
      simp only [hap]
  · intro e he
    unfold applyTo
    rw [hr]
    simp only [List.zip_cons_cons]
    unfold applyLoop
    simp only [Nat.cast_zero]
    rw [hgf0, hti]
    simp only [Bool.false_eq_true, if_false]
    cases hsw : startWriting (outOrNew out (finfo fi)) (finfo fi) with
    | mk o2 e2 =>
      rw [hsw] at he
      simp only at he
      subst he
      rfl


end apply

/-! ### acceptance: valid operations are never refused -/

section acceptance
variable {K F : Type} [Add K] [NatCast K]

/-- no operation of the list raises -/
def allAccepted : Store K F → List (SOp K F) → Prop
  | _, [] => True
  | s, op :: ops => (sstep s op).2 = none ∧ allAccepted (sstep s op).1 ops

/-- the specification run on its own: every operation counted as accepted -/
def Spec.run (sp : Spec K F) (ops : List (SOp K F)) : Spec K F :=
  ops.foldl (fun sp op => sp.step op true) sp

theorem runBoth_of_allAccepted (ops : List (SOp K F)) :
    ∀ (s : Store K F) (sp : Spec K F), allAccepted s ops → (runBoth s sp ops).2 = sp.run ops := by
  induction ops with
  | nil => intro s sp _; rfl
  | cons op ops ih =>
    intro s sp h
    obtain ⟨h1, h2⟩ := h
    simp only [runBoth, Spec.run, List.foldl_cons, h1, Option.isNone_none]
    exact ih _ _ h2

theorem allAccepted_append (a b : List (SOp K F)) :
    ∀ s : Store K F, allAccepted s (a ++ b) ↔ allAccepted s a ∧ allAccepted (srun s a) b := by
  induction a with
  | nil => intro s; simp [allAccepted, srun]
  | cons op a ih =>
    intro s
    simp only [List.cons_append, allAccepted, srun_cons', ih, and_assoc]

theorem srun_app (o : Store K F) (a b : List (SOp K F)) : srun o (a ++ b) = srun (srun o a) b := by
  simp [srun, List.foldl_append]

/-- a documented writable mode -/
def Mode.writable (m : Mode) : Prop := m = .truncate ∨ m = .truncateOnce ∨ m = .append

/-- one writing session as documented: `start_writing(fi)`, appends of fields on the grid of `fi` with the
data shape of `fi` whose dtype numpy can cast (`true`), `end_writing()` -/
def sessionOps (fi : FieldInfo) (ps : List (FieldInfo × K × F)) : List (SOp K F) :=
  .start fi :: (ps.map (fun p => SOp.append p.1 (some p.2.1) p.2.2 true) ++ [.endW])

def ValidSession (sh : List Nat) (fi : FieldInfo) (ps : List (FieldInfo × K × F)) : Prop :=
  fi.shape = sh ∧ ∀ p ∈ ps, p.1.grid = fi.grid ∧ p.1.shape = sh

theorem appends_accepted (fi : FieldInfo) : ∀ (ps : List (FieldInfo × K × F)) (o : Store K F),
    Ready o fi → (∀ p ∈ ps, p.1.grid = fi.grid ∧ p.1.shape = fi.shape) →
    allAccepted o (ps.map (fun p => SOp.append p.1 (some p.2.1) p.2.2 true)) ∧
    Ready (srun o (ps.map (fun p => SOp.append p.1 (some p.2.1) p.2.2 true))) fi ∧
    (srun o (ps.map (fun p => SOp.append p.1 (some p.2.1) p.2.2 true))).mode = o.mode := by
  intro ps
  induction ps with
  | nil => intro o hr _; exact ⟨trivial, hr, rfl⟩
  | cons p ps ih =>
    intro o hr hp
    obtain ⟨hg, hs⟩ := hp p (by simp)
    have hr' : Ready o p.1 := ⟨hr.1, by rw [hr.2.1, hg], by rw [hr.2.2, hs]⟩
    have hap := append_ready o p.1 p.2.1 p.2.2 true hr' (fun _ => rfl)
    have hr2 : Ready ({ o with frames := o.frames ++ [p.2.2], times := o.times ++ [p.2.1] } : Store K F) fi := hr
    obtain ⟨a1, a2, a3⟩ := ih _ hr2 (fun q hq => hp q (by simp [hq]))
    simp only [List.map_cons, allAccepted, srun_cons', sstep, hap]
    exact ⟨⟨trivial, a1⟩, a2, a3⟩

/-- **a valid session is accepted as a whole**: in a documented writable mode, with the data shape unknown
or equal to the field's, `start_writing`, every append of a field on the same grid with the same data shape
and `end_writing` all succeed; afterwards the mode is still writable and the data shape is the field's -/
theorem valid_session_accepted (s : Store K F) (sh : List Nat) (fi : FieldInfo)
    (ps : List (FieldInfo × K × F)) (hm : s.mode.writable)
    (hd : s.dataShape = none ∨ s.dataShape = some sh) (hv : ValidSession sh fi ps) :
    allAccepted s (sessionOps fi ps) ∧ (srun s (sessionOps fi ps)).mode.writable ∧
      (srun s (sessionOps fi ps)).dataShape = some sh := by
  obtain ⟨hsh, hps⟩ := hv
  have hacc : (startWriting s fi).2 = none := by
    rw [start_accepted_iff]; exact ⟨hm, by rw [hsh]; exact hd⟩
  obtain ⟨hr, _, _⟩ := startWriting_accepted_ready s fi hacc
  have hmode : (startWriting s fi).1.mode.writable := by
    rcases startWriting_cases s fi with ⟨_, _, _, _, hmd⟩ | ⟨he, _⟩
    · rw [Mode.writable, hmd]
      rcases hm with h | h | h <;> simp [h]
    · exact absurd hacc he
  obtain ⟨a1, a2, a3⟩ := appends_accepted fi ps (startWriting s fi).1 hr
    (fun p hp => by rw [hsh]; exact hps p hp)
  have hrun : srun s (sessionOps fi ps) =
      srun (startWriting s fi).1 (ps.map (fun p => SOp.append p.1 (some p.2.1) p.2.2 true)) := by
    unfold sessionOps
    rw [srun_cons', srun_app]
    rfl
  refine ⟨?_, by rw [hrun, a3]; exact hmode, by rw [hrun, a2.2.2, hsh]⟩
  unfold sessionOps
  refine ⟨hacc, ?_⟩
  simp only [sstep]
  rw [allAccepted_append]
  exact ⟨a1, rfl, trivial⟩

/-- **any history of valid sessions** (no operation of it is refused) -/
theorem valid_sessions_accepted (sh : List Nat) :
    ∀ (ss : List (FieldInfo × List (FieldInfo × K × F))) (s : Store K F), s.mode.writable →
      (s.dataShape = none ∨ s.dataShape = some sh) → (∀ x ∈ ss, ValidSession sh x.1 x.2) →
      allAccepted s (ss.flatMap (fun x => sessionOps x.1 x.2)) := by
  intro ss
  induction ss with
  | nil => intro s _ _ _; exact trivial
  | cons x ss ih =>
    intro s hm hd hv
    obtain ⟨b1, b2, b3⟩ := valid_session_accepted s sh x.1 x.2 hm hd (hv x (by simp))
    simp only [List.flatMap_cons]
    rw [allAccepted_append]
    exact ⟨b1, ih _ b2 (Or.inr b3) (fun y hy => hv y (by simp [hy]))⟩

/-- **acceptance and content, composed**: on a new storage in a documented writable mode any history of
valid sessions runs without a single refusal, and the storage then holds exactly the log of the
specification run ON ITS OWN (`Spec.run`: no information from the model) -/
theorem valid_history_stored (m : Mode) (hm : m.writable) (sh : List Nat)
    (ss : List (FieldInfo × List (FieldInfo × K × F))) (hv : ∀ x ∈ ss, ValidSession sh x.1 x.2) :
    let ops := ss.flatMap (fun x => sessionOps x.1 x.2)
    allAccepted (Store.new m : Store K F) ops ∧
    (srun (Store.new m : Store K F) ops).contents = ((Spec.init m : Spec K F).run ops).log := by
  intro ops
  have hacc := valid_sessions_accepted sh ss (Store.new m : Store K F) hm (Or.inl rfl) hv
  refine ⟨hacc, ?_⟩
  have := (read_returns_appended_in_order (K := K) (F := F) m ops).1
  rw [this, runBoth_of_allAccepted ops _ _ hacc]

end acceptance

/-! ### the storage logic never looks into a frame (naturality in the frame type) -/

section natural
variable {K F G : Type}

theorem mapFrames_startWriting (g : F → G) (s : Store K F) (fi : FieldInfo) :
    startWriting (s.mapFrames g) fi = ((startWriting s fi).1.mapFrames g, (startWriting s fi).2) := by
  unfold startWriting baseStart
  cases hm : s.mode <;> cases hd : s.dataShape <;>
    simp [Store.mapFrames, clear, hm, hd] <;> split_ifs <;> simp [hm, hd]

theorem mapFrames_clear (g : F → G) (s : Store K F) (b : Bool) :
    clear (s.mapFrames g) b = (clear s b).mapFrames g := by
  simp [Store.mapFrames, clear]

theorem mapFrames_getField (g : F → G) (s : Store K F) (i : Int) :
    getField (s.mapFrames g) i = (getField s i).map (fun r => (r.1, g r.2)) := by
  unfold getField
  simp only [Store.mapFrames]
  cases normIndex s.times.length i with
  | error e => rfl
  | ok j =>
    simp only
    cases s.template with
    | none => rfl
    | some fi =>
      simp only [List.getElem?_map]
      cases s.frames[j]? <;> rfl

theorem mapFrames_construct (g : F → G) (times : List K) (frames : List F)
    (tm : Option FieldInfo) (m : Mode) :
    construct times (frames.map g) tm m = (construct times frames tm m).map (Store.mapFrames g) := by
  unfold construct
  simp only [List.length_map]
  split_ifs <;> rfl

section
variable [LT K] [DecidableLT K]

theorem mapFrames_extractTimeRange (g : F → G) (s : Store K F) (r : TRange K) :
    extractTimeRange (s.mapFrames g) r = (extractTimeRange s r).map (Store.mapFrames g) := by
  unfold extractTimeRange
  simp only [Store.mapFrames]
  split <;> try rfl
  rw [← List.map_drop, ← List.map_take, mapFrames_construct]

end

section
variable [Add K] [NatCast K]

theorem mapFrames_append (g : F → G) (s : Store K F) (fi : FieldInfo) (t : Option K) (f : F)
    (c : Bool) :
    append (s.mapFrames g) fi t (g f) c = ((append s fi t f c).1.mapFrames g, (append s fi t f c).2) := by
  unfold append appendCast appendData
  by_cases hm : s.mode = Mode.readonly
  · simp [Store.mapFrames, hm]
  · cases hg : s.grid <;> cases hd : s.dataShape <;> cases t <;> cases hdt : s.dtypeSet <;> cases c <;>
      simp [Store.mapFrames, hg, hd, hm, hdt] <;> (try split_ifs) <;> simp [hg, hd, hm, hdt]

theorem mapFrames_outOrNew (g : F → G) (out : Option (Store K F)) (fi : FieldInfo) :
    outOrNew (out.map (Store.mapFrames g)) fi = (outOrNew out fi).mapFrames g := by
  cases out <;> simp [outOrNew, Store.mapFrames]

theorem mapFrames_applyLoop (g : F → G) (s : Store K F) (finfo : FieldInfo → FieldInfo) (c : Bool) :
    ∀ (todo : List (Nat × F)) (out : Option (Store K F)) (w : Bool),
      applyLoop (s.mapFrames g) finfo c (todo.map (fun p => (p.1, g p.2)))
          (out.map (Store.mapFrames g)) w =
        ((applyLoop s finfo c todo out w).1.map (Store.mapFrames g),
         (applyLoop s finfo c todo out w).2) := by
  intro todo
  induction todo with
  | nil => intro out w; simp [applyLoop]
  | cons p todo ih =>
    intro out w
    obtain ⟨i, nf⟩ := p
    simp only [List.map_cons]
    unfold applyLoop
    rw [mapFrames_getField]
    have ht : (s.mapFrames g).times = s.times := rfl
    rw [ht]
    cases hgf : getField s (i : Int) with
    | error e => simp [Except.map]
    | ok r =>
      obtain ⟨fi, f0⟩ := r
      simp only [Except.map]
      cases hti : s.times[i]? with
      | none => simp
      | some t =>
        simp only
        rw [mapFrames_outOrNew]
        cases w with
        | true =>
          simp only [if_true]
          rw [mapFrames_append]
          cases hap : append (outOrNew out (finfo fi)) (finfo fi) (some t) nf c with
          | mk o3 e3 =>
            cases e3 with
            | some e => simp
            | none =>
              simp only
              have := ih (some o3) true
              simpa using this
        | false =>
          simp only [Bool.false_eq_true, if_false]
          rw [mapFrames_startWriting]
          cases hsw : startWriting (outOrNew out (finfo fi)) (finfo fi) with
          | mk o2 e2 =>
            cases e2 with
            | some e => simp
            | none =>
              simp only
              rw [mapFrames_append]
              cases hap : append o2 (finfo fi) (some t) nf c with
              | mk o3 e3 =>
                cases e3 with
                | some e => simp
                | none =>
                  simp only
                  have := ih (some o3) true
                  simpa using this

theorem mapFrames_applyTo (g : F → G) (s : Store K F) (finfo : FieldInfo → FieldInfo)
    (newFrames : List F) (out : Option (Store K F)) (c : Bool) :
    applyTo (s.mapFrames g) finfo (newFrames.map g) (out.map (Store.mapFrames g)) c =
      ((applyTo s finfo newFrames out c).1.map (Store.mapFrames g),
       (applyTo s finfo newFrames out c).2) := by
  unfold applyTo
  have hz : (List.range (s.mapFrames g).times.length).zip (newFrames.map g) =
      ((List.range s.times.length).zip newFrames).map (fun p => (p.1, g p.2)) := by
    simp only [Store.mapFrames]
    rw [List.zip_map_right]
    rfl
  rw [hz, mapFrames_applyLoop]
  cases h : applyLoop s finfo c ((List.range s.times.length).zip newFrames) out false with
  | mk o e =>
    cases e with
    | some err => rfl
    | none => cases o <;> simp [Store.mapFrames, Store.new]

/-! ### which frames a storage can hold after an operation -/

theorem frames_startWriting (s : Store K F) (fi : FieldInfo) :
    ∀ id ∈ (startWriting s fi).1.frames, id ∈ s.frames := by
  intro id h
  rcases startWriting_cases s fi with ⟨_, _, _, hf, _⟩ | ⟨_, _, hf, _⟩
  · rw [hf] at h; split_ifs at h
    · exact h
    · simp at h
  · rw [hf] at h; exact h

theorem frames_append (s : Store K F) (fi : FieldInfo) (t : Option K) (f : F) (c : Bool) :
    ∀ id ∈ (append s fi t f c).1.frames, id ∈ s.frames ∨ id = f := by
  intro id h
  rcases append_cases s fi t f c with ⟨_, _, hf, _⟩ | ⟨_, _, hf, _⟩
  · rw [hf] at h; simpa using h
  · rw [hf] at h; exact Or.inl h

theorem frames_applyLoop (s : Store K F) (finfo : FieldInfo → FieldInfo) (c : Bool) :
    ∀ (todo : List (Nat × F)) (out : Option (Store K F)) (w : Bool) (o' : Store K F),
      (applyLoop s finfo c todo out w).1 = some o' →
      ∀ id ∈ o'.frames, (∃ o, out = some o ∧ id ∈ o.frames) ∨ id ∈ todo.map Prod.snd := by
  intro todo
  induction todo with
  | nil =>
    intro out w o' h id hid
    simp only [applyLoop] at h
    exact Or.inl ⟨o', h, hid⟩
  | cons p todo ih =>
    intro out w o' h id hid
    obtain ⟨i, nf⟩ := p
    unfold applyLoop at h
    cases hgf : getField s (i : Int) with
    | error e =>
      rw [hgf] at h; simp only at h
      exact Or.inl ⟨o', h, hid⟩
    | ok r =>
      obtain ⟨fi, f0⟩ := r
      rw [hgf] at h
      cases hti : s.times[i]? with
      | none => rw [hti] at h; simp only at h; exact Or.inl ⟨o', h, hid⟩
      | some t =>
        rw [hti] at h
        simp only at h
        have hnew : ∀ id ∈ (outOrNew out (finfo fi)).frames, ∃ o, out = some o ∧ id ∈ o.frames := by
          intro id hid
          cases out with
          | none => simp [outOrNew] at hid
          | some o => exact ⟨o, rfl, by simpa [outOrNew] using hid⟩
        -- state after the optional `start_writing`
        have hstart : ∀ (o2 : Store K F) (e2 : Option Err),
            (if w = true then (outOrNew out (finfo fi), none) else
              startWriting (outOrNew out (finfo fi)) (finfo fi)) = (o2, e2) →
            ∀ id ∈ o2.frames, ∃ o, out = some o ∧ id ∈ o.frames := by
          intro o2 e2 h2 id hid
          split_ifs at h2
          · cases h2; exact hnew id hid
          · have := frames_startWriting (outOrNew out (finfo fi)) (finfo fi) id
              (by rw [h2]; exact hid)
            exact hnew id this
        cases hr2 : (if w = true then (outOrNew out (finfo fi), none) else
              startWriting (outOrNew out (finfo fi)) (finfo fi)) with
        | mk o2 e2 =>
          rw [hr2] at h
          cases e2 with
          | some e =>
            simp only at h
            cases h
            exact Or.inl (hstart _ _ hr2 id hid)
          | none =>
            simp only at h
            cases hap : append o2 (finfo fi) (some t) nf c with
            | mk o3 e3 =>
              rw [hap] at h
              have h3 : ∀ id ∈ o3.frames, (∃ o, out = some o ∧ id ∈ o.frames) ∨ id = nf := by
                intro id hid
                rcases frames_append o2 (finfo fi) (some t) nf c id (by rw [hap]; exact hid) with h4 | h4
                · exact Or.inl (hstart _ _ hr2 id h4)
                · exact Or.inr h4
              cases e3 with
              | some e =>
                simp only at h
                cases h
                rcases h3 id hid with h4 | h4
                · exact Or.inl h4
                · exact Or.inr (by simp [h4])
              | none =>
                simp only at h
                rcases ih (some o3) true o' h id hid with ⟨o, ho, hio⟩ | h5
                · cases ho
                  rcases h3 id hio with h4 | h4
                  · exact Or.inl h4
                  · exact Or.inr (by simp [h4])
                · exact Or.inr (by simp only [List.map_cons, List.mem_cons]; exact Or.inr h5)

end

theorem mapM_except_map {α β γ : Type} (f : α → Except Err β) (f' : α → Except Err γ) (h : β → γ)
    (hf : ∀ a, f' a = (f a).map h) : ∀ l : List α, l.mapM f' = (l.mapM f).map (List.map h) := by
  intro l
  induction l with
  | nil => rfl
  | cons a l ih =>
    simp only [List.mapM_cons, ih, hf a]
    cases f a with
    | error e => rfl
    | ok b =>
      cases l.mapM f with
      | error e => rfl
      | ok bs => rfl

theorem mapFrames_items (g : F → G) (s : Store K F) :
    items (s.mapFrames g) = (items s).map (List.map (fun r => (r.1, r.2.1, g r.2.2))) := by
  unfold items
  apply mapM_except_map
  intro p
  rw [mapFrames_getField]
  cases getField s (p.2 : Int) <;> rfl

theorem mapFrames_getSlice (g : F → G) (s : Store K F) (a b : Option Int) :
    getSlice (s.mapFrames g) a b = (getSlice s a b).map (List.map (fun r => (r.1, g r.2))) := by
  unfold getSlice
  apply mapM_except_map
  intro i
  rw [mapFrames_getField]

theorem mapFrames_viewCreate (g : F → G) (s : Store K F) (fid : FieldId) :
    viewCreate (s.mapFrames g) fid = viewCreate s fid := rfl

theorem mapFrames_viewGet (g : F → G) (s : Store K F) (fidx k : Int) :
    viewGet (s.mapFrames g) fidx k =
      (viewGet s fidx k).map (fun r => (r.1, g r.2.1, r.2.2.1, r.2.2.2)) := by
  unfold viewGet
  rw [mapFrames_getField]
  cases getField s k with
  | error e => rfl
  | ok r =>
    obtain ⟨fi, f⟩ := r
    simp only [Except.map]
    split_ifs
    · rfl
    · cases pyIndex fi.members.length fidx with
      | error e => rfl
      | ok j =>
        simp only
        cases fi.members[j]? <;> rfl

end natural

/-! ### the world: aliasing, immutability of stored frames -/

section world
variable {K : Type} [Add K] [Sub K] [Mul K] [Neg K] [NatCast K] [LT K] [DecidableLT K] [LE K] [DecidableLE K]

/-- the frames of all storages are private: they lie in the heap and none of them is the
buffer of a live field.  Holds in the empty world and is preserved by every operation except
`from_fields` (which aliases the given fields by design). -/
def World.Inv (w : World K) : Prop :=
  (∀ p ∈ w.fields, p.2 < w.heap.length) ∧
  ∀ s ∈ w.stores, ∀ id ∈ s.frames, id < w.heap.length ∧ ∀ p ∈ w.fields, p.2 ≠ id

/-- everything except `from_fields` and direct writes into `storage.data[i]` -/
def Op.safe : Op K → Bool
  | .fromFields _ _ _ => false
  | .poke _ _ _ => false
  | _ => true

/-- the operations through which storage `sid` is written -/
def Op.writesTo (sid : Nat) : Op K → Bool
  | .setMode s _ => s == sid
  | .start s _ => s == sid
  | .append s _ _ _ => s == sid
  | .clear s _ => s == sid
  | .apply _ _ (some o) _ => o == sid
  | _ => false

/-- buffers that are not owned by a live field keep their content -/
def HeapExt (w w' : World K) : Prop :=
  w.heap.length ≤ w'.heap.length ∧
  ∀ id, id < w.heap.length → (∀ p ∈ w.fields, p.2 ≠ id) → w'.deref id = w.deref id

theorem deref_append (w : World K) (x : List (List K)) (id : Nat) (h : id < w.heap.length) :
    ({ w with heap := w.heap ++ x } : World K).deref id = w.deref id := by
  simp [World.deref, List.getD_eq_getElem?_getD, List.getElem?_append_left h]

theorem heapExt_refl (w : World K) : HeapExt w w := ⟨le_refl _, fun _ _ _ => rfl⟩

theorem heapExt_append (w w' : World K) (x : List (List K)) (h : w'.heap = w.heap ++ x) :
    HeapExt w w' := by
  refine ⟨by rw [h]; simp, ?_⟩
  intro id hid _
  simp [World.deref, h, List.getD_eq_getElem?_getD, List.getElem?_append_left hid]

theorem heapExt_set (w w' : World K) (b : Nat) (v : List K) (h : w'.heap = w.heap.set b v)
    (hb : ∃ p ∈ w.fields, p.2 = b) : HeapExt w w' := by
  refine ⟨by rw [h]; simp, ?_⟩
  intro id _ hne
  obtain ⟨p, hp, rfl⟩ := hb
  have : p.2 ≠ id := hne p hp
  simp [World.deref, h, List.getD_eq_getElem?_getD, List.getElem?_set_ne this]

theorem updStore_heap (w : World K) (sid : Nat) (f : Store K Nat → Store K Nat × Option Err) :
    (updStore w sid f).1.heap = w.heap ∧ (updStore w sid f).1.fields = w.fields := by
  unfold updStore
  cases w.stores[sid]? with
  | none => exact ⟨rfl, rfl⟩
  | some s =>
    simp only
    cases hf : f s with
    | mk s' e => cases e <;> exact ⟨rfl, rfl⟩

theorem updStore_stores (w : World K) (sid : Nat) (f : Store K Nat → Store K Nat × Option Err) :
    (updStore w sid f).1.stores =
      match w.stores[sid]? with
      | none => w.stores
      | some s => w.stores.set sid (f s).1 := by
  unfold updStore
  cases w.stores[sid]? with
  | none => rfl
  | some s =>
    simp only
    cases hf : f s with
    | mk s' e => cases e <;> rfl

/-- every safe operation leaves the content of all buffers that are not owned by a live field
untouched (it only allocates, or writes to the buffer of a live field) -/
theorem heapExt_step (w : World K) (op : Op K) (hs : op.safe = true) : HeapExt w (step w op).1 := by
  cases op with
  | newField fi vals => exact heapExt_append _ _ [vals] rfl
  | setField fid vals =>
    simp only [step]
    cases h : w.fields[fid]? with
    | none => exact heapExt_refl w
    | some p => exact heapExt_set _ _ p.2 vals rfl ⟨p, List.mem_of_getElem? h, rfl⟩
  | newStore m => exact heapExt_append _ _ [] (by simp [step])
  | setMode sid m => exact heapExt_append _ _ [] (by simp [step, updStore_heap])
  | start sid fid =>
    simp only [step]
    cases h : w.fields[fid]? with
    | none => exact heapExt_refl w
    | some p => exact heapExt_append _ _ [] (by simp [updStore_heap])
  | append sid fid t c =>
    simp only [step]
    cases h : w.fields[fid]? with
    | none => exact heapExt_refl w
    | some p => exact heapExt_append _ _ [w.deref p.2] (by simp [updStore_heap])
  | endW sid => exact heapExt_append _ _ [] (by simp [step, updStore_heap])
  | clear sid b => exact heapExt_append _ _ [] (by simp [step, updStore_heap])
  | read sid i =>
    simp only [step]
    cases w.stores[sid]? with
    | none => exact heapExt_refl w
    | some s =>
      simp only
      cases getField s i with
      | error e => exact heapExt_refl w
      | ok r => exact heapExt_append _ _ [w.deref r.2] rfl
  | items sid =>
    simp only [step]
    cases w.stores[sid]? with
    | none => exact heapExt_refl w
    | some s => simp only; cases Storage.items s <;> exact heapExt_refl w
  | slice sid a b =>
    simp only [step]
    cases w.stores[sid]? with
    | none => exact heapExt_refl w
    | some s => simp only; cases getSlice s a b <;> exact heapExt_refl w
  | extractTimeRange sid r =>
    simp only [step]
    cases w.stores[sid]? with
    | none => exact heapExt_refl w
    | some s =>
      simp only
      cases Storage.extractTimeRange s r with
      | error e => exact heapExt_refl w
      | ok s' => exact heapExt_append _ _ [] (by simp)
  | extractField sid fid label =>
    simp only [step]
    cases w.stores[sid]? with
    | none => exact heapExt_refl w
    | some s =>
      simp only
      cases extractFieldPlan s fid label with
      | error e => exact heapExt_refl w
      | ok r =>
        obtain ⟨fi, i, tmpl⟩ := r
        simp only
        cases extractFieldBuild s tmpl _ with
        | error e => exact heapExt_refl w
        | ok s' => exact heapExt_append _ _ _ rfl
  | viewRead sid fid k =>
    simp only [step]
    cases w.stores[sid]? with
    | none => exact heapExt_refl w
    | some s =>
      simp only
      cases viewCreate s fid with
      | error e => exact heapExt_refl w
      | ok fidx =>
        simp only
        cases viewGet s fidx k with
        | error e => exact heapExt_refl w
        | ok r =>
          obtain ⟨fi, id, j, m⟩ := r
          exact heapExt_append _ _ _ rfl
  | viewItems sid fid =>
    simp only [step]
    cases w.stores[sid]? with
    | none => exact heapExt_refl w
    | some s =>
      simp only
      cases viewCreate s fid with
      | error e => exact heapExt_refl w
      | ok fidx =>
        simp only
        split <;> exact heapExt_refl w
  | apply sid f out c =>
    simp only [step]
    cases w.stores[sid]? with
    | none => exact heapExt_refl w
    | some s =>
      simp only
      split_ifs
      · exact heapExt_refl w
      · split
        · exact heapExt_refl w
        · split <;> exact heapExt_append _ _ _ rfl
  | fromFields times fids m => simp [Op.safe] at hs
  | poke sid i vals => simp [Op.safe] at hs
  | fromCollection sids label rtol atol =>
    simp only [step]
    split
    · exact heapExt_refl w
    · exact heapExt_append _ _ [] (by simp)
    · split
      · exact heapExt_refl w
      · split
        · exact heapExt_refl w
        · split
          · exact heapExt_refl w
          · split
            · exact heapExt_refl w
            · split_ifs
              · exact heapExt_refl w
              · exact heapExt_refl w
              · split
                · exact heapExt_refl w
                · exact heapExt_append _ _ _ rfl

/-- a frame id that may be stored: in the heap and not the buffer of a live field -/
def World.Private (w : World K) (id : Nat) : Prop :=
  id < w.heap.length ∧ ∀ p ∈ w.fields, p.2 ≠ id

theorem inv_iff (w : World K) :
    w.Inv ↔ (∀ p ∈ w.fields, p.2 < w.heap.length) ∧ ∀ s ∈ w.stores, ∀ id ∈ s.frames, w.Private id :=
  Iff.rfl

theorem private_heap_grow (w : World K) (x : List (List K)) (id : Nat) (h : w.Private id) :
    ({ w with heap := w.heap ++ x } : World K).Private id :=
  ⟨by simp only [List.length_append]; have := h.1; omega, h.2⟩

theorem inv_heap_grow (w : World K) (x : List (List K)) (h : w.Inv) :
    ({ w with heap := w.heap ++ x } : World K).Inv :=
  ⟨fun p hp => by simp only [List.length_append]; have := h.1 p hp; omega,
   fun s hs id hid => private_heap_grow w x id (h.2 s hs id hid)⟩

theorem inv_set_store (w : World K) (sid : Nat) (s' : Store K Nat) (h : w.Inv)
    (hs : ∀ id ∈ s'.frames, w.Private id) :
    ({ w with stores := w.stores.set sid s' } : World K).Inv := by
  refine ⟨h.1, ?_⟩
  intro s hmem id hid
  rcases List.mem_or_eq_of_mem_set hmem with h1 | h1
  · exact h.2 s h1 id hid
  · subst h1; exact hs id hid

theorem inv_push_store (w : World K) (s' : Store K Nat) (h : w.Inv)
    (hs : ∀ id ∈ s'.frames, w.Private id) :
    ({ w with stores := w.stores ++ [s'] } : World K).Inv := by
  refine ⟨h.1, ?_⟩
  intro s hmem id hid
  rcases List.mem_append.mp hmem with h1 | h1
  · exact h.2 s h1 id hid
  · simp at h1; subst h1; exact hs id hid

theorem inv_push_field (w : World K) (fi : FieldInfo) (v : List K) (h : w.Inv) :
    ({ w with heap := w.heap ++ [v], fields := w.fields ++ [(fi, w.heap.length)] } : World K).Inv := by
  refine ⟨?_, ?_⟩
  · intro p hp
    simp only [List.length_append, List.length_cons, List.length_nil]
    rcases List.mem_append.mp hp with h1 | h1
    · have := h.1 p h1; omega
    · simp at h1; subst h1; simp
  · intro s hs id hid
    obtain ⟨h1, h2⟩ := h.2 s hs id hid
    refine ⟨by simp only [List.length_append]; omega, ?_⟩
    intro p hp
    rcases List.mem_append.mp hp with h3 | h3
    · exact h2 p h3
    · simp at h3; subst h3; simp; omega

theorem private_fresh (w : World K) (x : List (List K)) (h : w.Inv) (id : Nat)
    (hid : id ∈ List.range' w.heap.length x.length) :
    ({ w with heap := w.heap ++ x } : World K).Private id := by
  rw [List.mem_range'_1] at hid
  refine ⟨by simp only [List.length_append]; omega, ?_⟩
  intro p hp
  have := h.1 p hp
  omega

theorem updStore_inv (w : World K) (sid : Nat) (f : Store K Nat → Store K Nat × Option Err)
    (h : w.Inv) (hf : ∀ s ∈ w.stores, ∀ id ∈ (f s).1.frames, w.Private id) :
    (updStore w sid f).1.Inv := by
  have hst := updStore_stores w sid f
  obtain ⟨hh, hfl⟩ := updStore_heap w sid f
  cases hs : w.stores[sid]? with
  | none =>
    rw [hs] at hst
    exact ⟨by rw [hfl, hh]; exact h.1, by rw [hst, hfl, hh]; exact h.2⟩
  | some s =>
    rw [hs] at hst
    have := inv_set_store w sid (f s).1 h (hf s (List.mem_of_getElem? hs))
    exact ⟨by rw [hfl, hh]; exact h.1, by rw [hst, hfl, hh]; exact this.2⟩

/-- **the privacy invariant is preserved by every safe operation** -/
theorem inv_step (w : World K) (op : Op K) (hs : op.safe = true) (h : w.Inv) : (step w op).1.Inv := by
  cases op with
  | newField fi vals => exact inv_push_field w fi vals h
  | setField fid vals =>
    simp only [step]
    cases w.fields[fid]? with
    | none => exact h
    | some p =>
      refine ⟨fun q hq => by simpa using h.1 q hq, fun s hs id hid => ?_⟩
      have := h.2 s hs id hid
      exact ⟨by simpa using this.1, this.2⟩
  | newStore m => exact inv_push_store w _ h (by simp [Store.new])
  | setMode sid m => exact updStore_inv w sid _ h (fun s hs id hid => h.2 s hs id hid)
  | start sid fid =>
    simp only [step]
    cases w.fields[fid]? with
    | none => exact h
    | some p =>
      exact updStore_inv w sid _ h (fun s hs id hid => h.2 s hs id (frames_startWriting s p.1 id hid))
  | append sid fid t c =>
    simp only [step]
    cases w.fields[fid]? with
    | none => exact h
    | some p =>
      apply updStore_inv _ sid _ (inv_heap_grow w [w.deref p.2] h)
      intro s hs id hid
      rcases frames_append s p.1 t w.heap.length c id hid with h1 | h1
      · exact private_heap_grow w _ id (h.2 s hs id h1)
      · subst h1; exact private_fresh w [w.deref p.2] h _ (by simp)
  | endW sid => exact updStore_inv w sid _ h (fun s hs id hid => h.2 s hs id hid)
  | clear sid b => exact updStore_inv w sid _ h (fun s hs id hid => by simp [clear] at hid)
  | read sid i =>
    simp only [step]
    cases w.stores[sid]? with
    | none => exact h
    | some s =>
      simp only
      cases getField s i with
      | error e => exact h
      | ok r => exact inv_push_field w r.1 _ h
  | items sid =>
    simp only [step]
    cases w.stores[sid]? with
    | none => exact h
    | some s => simp only; cases Storage.items s <;> exact h
  | slice sid a b =>
    simp only [step]
    cases w.stores[sid]? with
    | none => exact h
    | some s => simp only; cases getSlice s a b <;> exact h
  | extractTimeRange sid r =>
    simp only [step]
    cases hst : w.stores[sid]? with
    | none => exact h
    | some s =>
      simp only
      cases hr : Storage.extractTimeRange s r with
      | error e => exact h
      | ok s' =>
        apply inv_push_store w s' h
        intro id hid
        apply h.2 s (List.mem_of_getElem? hst) id
        unfold Storage.extractTimeRange at hr
        simp only at hr
        split at hr
        · cases hr
        · cases hr
        · unfold construct at hr
          split_ifs at hr
          cases hr
          exact List.mem_of_mem_drop (List.mem_of_mem_take hid)
  | extractField sid fid label =>
    simp only [step]
    cases hst : w.stores[sid]? with
    | none => exact h
    | some s =>
      simp only
      cases extractFieldPlan s fid label with
      | error e => exact h
      | ok r =>
        obtain ⟨fi, i, tmpl⟩ := r
        simp only
        cases hb : extractFieldBuild s tmpl _ with
        | error e => exact h
        | ok s' =>
          apply inv_push_store _ s' (inv_heap_grow w _ h)
          intro id hid
          unfold extractFieldBuild construct at hb
          split_ifs at hb
          cases hb
          exact private_fresh w _ h id (by simpa using hid)
  | viewRead sid fid k =>
    simp only [step]
    cases w.stores[sid]? with
    | none => exact h
    | some s =>
      simp only
      cases viewCreate s fid with
      | error e => exact h
      | ok fidx =>
        simp only
        cases viewGet s fidx k with
        | error e => exact h
        | ok r =>
          obtain ⟨fi, id, j, m⟩ := r
          exact inv_push_field w _ _ h
  | viewItems sid fid =>
    simp only [step]
    cases w.stores[sid]? with
    | none => exact h
    | some s =>
      simp only
      cases viewCreate s fid with
      | error e => exact h
      | ok fidx =>
        simp only
        split <;> exact h
  | apply sid f out c =>
    simp only [step]
    cases hst : w.stores[sid]? with
    | none => exact h
    | some s =>
      simp only
      split_ifs
      · exact h
      · split
        · exact h
        · rename_i outS houtS
          -- frames of the resulting `out`: old frames of `out` or freshly allocated buffers
          have hfr : ∀ o', (applyTo s f.info (List.range' w.heap.length
                (applyNewVals w f s).length) outS c).1 = some o' →
              ∀ id ∈ o'.frames, ({ w with heap := w.heap ++ applyNewVals w f s } : World K).Private id := by
            intro o' ho' id hid
            unfold applyTo at ho'
            have key := frames_applyLoop s f.info c
              ((List.range s.times.length).zip (List.range' w.heap.length
                (applyNewVals w f s).length)) outS false
            cases hl : applyLoop s f.info c
              ((List.range s.times.length).zip (List.range' w.heap.length
                (applyNewVals w f s).length)) outS false with
            | mk ol el =>
              rw [hl] at ho' key
              have hcase : ol = some o' ∨ (ol = none ∧ o' = Store.new .truncateOnce) := by
                cases el with
                | some e => simp only at ho'; exact Or.inl ho'
                | none =>
                  cases ol with
                  | some o => simp only at ho'; exact Or.inl ho'
                  | none => simp only at ho'; cases ho'; exact Or.inr ⟨rfl, rfl⟩
              rcases hcase with h1 | ⟨_, h1⟩
              · rcases key o' h1 id hid with ⟨o, ho, hio⟩ | h2
                · subst ho
                  cases out with
                  | none => simp at houtS
                  | some oid =>
                    simp only at houtS
                    cases hoid : w.stores[oid]? with
                    | none => rw [hoid] at houtS; simp at houtS
                    | some o0 =>
                      rw [hoid] at houtS
                      simp only [Option.map_some, Option.some.injEq] at houtS
                      cases houtS
                      exact private_heap_grow w _ id (h.2 o (List.mem_of_getElem? hoid) id hio)
                · apply private_fresh w _ h id
                  simp only [List.mem_map] at h2
                  obtain ⟨q, hq, rfl⟩ := h2
                  exact (List.of_mem_zip hq).2
              · subst h1; simp [Store.new] at hid
          split
          · rename_i o heq _
            exact inv_push_store _ o (inv_heap_grow w _ h) (hfr o (by rw [heq]))
          · rename_i o oid heq _
            exact inv_set_store _ oid o (inv_heap_grow w _ h) (hfr o (by rw [heq]))
          · rename_i o e oid heq _
            exact inv_set_store _ oid o (inv_heap_grow w _ h) (hfr o (by rw [heq]))
          · exact inv_heap_grow w _ h
          · exact inv_heap_grow w _ h
  | fromFields times fids m => simp [Op.safe] at hs
  | poke sid i vals => simp [Op.safe] at hs
  | fromCollection sids label rtol atol =>
    simp only [step]
    split
    · exact h
    · exact inv_push_store w _ h (by simp [Store.new])
    · split
      · exact h
      · split
        · exact h
        · split
          · exact h
          · split
            · exact h
            · split_ifs
              · exact h
              · exact h
              · split
                · exact h
                · next s' hs' =>
                  apply inv_push_store _ s' (inv_heap_grow w _ h)
                  intro id hid
                  unfold construct at hs'
                  split_ifs at hs'
                  cases hs'
                  exact private_fresh w _ h id (by simpa using hid)

theorem getElem?_set_other {α : Type} (l : List α) (i j : Nat) (a : α) (h : i ≠ j) :
    (l.set i a)[j]? = l[j]? := List.getElem?_set_ne h

theorem updStore_other (w : World K) (sid sid' : Nat) (f : Store K Nat → Store K Nat × Option Err)
    (h : sid' ≠ sid) : (updStore w sid' f).1.stores[sid]? = w.stores[sid]? := by
  rw [updStore_stores]
  cases w.stores[sid']? with
  | none => rfl
  | some s => exact List.getElem?_set_ne h

/-- an operation that does not write to storage `sid` leaves the object `stores[sid]` as it
is (its frame ids, times, mode, template) -/
theorem stores_step_other (w : World K) (op : Op K) (sid : Nat) (s : Store K Nat)
    (hw : op.writesTo sid = false) (hs : w.stores[sid]? = some s) :
    (step w op).1.stores[sid]? = some s := by
  have hlt : sid < w.stores.length := (List.getElem?_eq_some_iff.mp hs).1
  have push : ∀ s' : Store K Nat, (w.stores ++ [s'])[sid]? = some s := by
    intro s'; rw [List.getElem?_append_left hlt]; exact hs
  cases op with
  | newField fi vals => exact hs
  | setField fid vals => simp only [step]; cases w.fields[fid]? <;> exact hs
  | newStore m => exact push _
  | setMode sid' m =>
    simp only [Op.writesTo, beq_eq_false_iff_ne, ne_eq] at hw
    simp only [step]; rw [updStore_other _ _ _ _ hw]; exact hs
  | start sid' fid =>
    simp only [Op.writesTo, beq_eq_false_iff_ne, ne_eq] at hw
    simp only [step]
    cases w.fields[fid]? with
    | none => exact hs
    | some p => simp only; rw [updStore_other _ _ _ _ hw]; exact hs
  | append sid' fid t c =>
    simp only [Op.writesTo, beq_eq_false_iff_ne, ne_eq] at hw
    simp only [step]
    cases w.fields[fid]? with
    | none => exact hs
    | some p => simp only; rw [updStore_other _ _ _ _ hw]; exact hs
  | endW sid' =>
    simp only [step]
    by_cases h : sid' = sid
    · subst h
      rw [updStore_stores, hs]
      simp only
      rw [List.getElem?_set_self hlt]
    · rw [updStore_other _ _ _ _ h]; exact hs
  | clear sid' b =>
    simp only [Op.writesTo, beq_eq_false_iff_ne, ne_eq] at hw
    simp only [step]; rw [updStore_other _ _ _ _ hw]; exact hs
  | read sid' i =>
    simp only [step]
    cases w.stores[sid']? with
    | none => exact hs
    | some s1 => simp only; cases getField s1 i <;> exact hs
  | items sid' =>
    simp only [step]
    cases w.stores[sid']? with
    | none => exact hs
    | some s1 => simp only; cases Storage.items s1 <;> exact hs
  | slice sid' a b =>
    simp only [step]
    cases w.stores[sid']? with
    | none => exact hs
    | some s1 => simp only; cases getSlice s1 a b <;> exact hs
  | extractTimeRange sid' r =>
    simp only [step]
    cases w.stores[sid']? with
    | none => exact hs
    | some s1 =>
      simp only
      cases Storage.extractTimeRange s1 r with
      | error e => exact hs
      | ok s' => exact push _
  | extractField sid' fid label =>
    simp only [step]
    cases w.stores[sid']? with
    | none => exact hs
    | some s1 =>
      simp only
      cases extractFieldPlan s1 fid label with
      | error e => exact hs
      | ok r =>
        obtain ⟨fi, i, tmpl⟩ := r
        simp only
        cases extractFieldBuild s1 tmpl _ with
        | error e => exact hs
        | ok s' => exact push _
  | viewRead sid' fid k =>
    simp only [step]
    cases w.stores[sid']? with
    | none => exact hs
    | some s1 =>
      simp only
      cases viewCreate s1 fid with
      | error e => exact hs
      | ok fidx =>
        simp only
        cases viewGet s1 fidx k with
        | error e => exact hs
        | ok r => obtain ⟨fi, id, j, m⟩ := r; exact hs
  | viewItems sid' fid =>
    simp only [step]
    cases w.stores[sid']? with
    | none => exact hs
    | some s1 =>
      simp only
      cases viewCreate s1 fid with
      | error e => exact hs
      | ok fidx => simp only; split <;> exact hs
  | apply sid' f out c =>
    simp only [step]
    cases w.stores[sid']? with
    | none => exact hs
    | some s1 =>
      simp only
      split_ifs
      · exact hs
      · split
        · exact hs
        · split
          · exact push _
          · rename_i o oid heq _
            simp only [Op.writesTo, beq_eq_false_iff_ne, ne_eq] at hw
            simp only
            rw [List.getElem?_set_ne hw]; exact hs
          · rename_i o e oid heq _
            simp only [Op.writesTo, beq_eq_false_iff_ne, ne_eq] at hw
            simp only
            rw [List.getElem?_set_ne hw]; exact hs
          · exact hs
          · exact hs
  | fromFields times fids m =>
    simp only [step]
    split
    · exact hs
    · exact hs
    · split_ifs
      · exact hs
      · exact hs
      · split
        · exact hs
        · exact push _
  | poke sid' i vals =>
    simp only [step]
    cases w.stores[sid']? with
    | none => exact hs
    | some s1 => simp only; cases s1.frames[i]? <;> exact hs
  | fromCollection sids label rtol atol =>
    simp only [step]
    split
    · exact hs
    · exact push _
    · split
      · exact hs
      · split
        · exact hs
        · split
          · exact hs
          · split
            · exact hs
            · split_ifs
              · exact hs
              · exact hs
              · split
                · exact hs
                · exact push _

/-- what a reader sees of a storage depends only on the storage object and on the content of
its (private) buffers -/
theorem view_of_heapExt (w w' : World K) (h : w.Inv) (hx : HeapExt w w') (sid : Nat)
    (s : Store K Nat) (hs : w.stores[sid]? = some s) (hs' : w'.stores[sid]? = some s) :
    w'.view sid = w.view sid := by
  unfold World.view
  rw [hs, hs']
  simp only [Option.map_some, Option.some.injEq]
  unfold Store.mapFrames
  congr 1
  apply List.map_congr_left
  intro id hid
  obtain ⟨h1, h2⟩ := h.2 s (List.mem_of_getElem? hs) id hid
  exact hx.2 id h1 h2

/-- one step that does not write to `sid`: nothing a reader can see of `sid` changes -/
theorem view_step_other (w : World K) (op : Op K) (sid : Nat) (h : w.Inv) (hsafe : op.safe = true)
    (hw : op.writesTo sid = false) (hlt : sid < w.stores.length) :
    (step w op).1.view sid = w.view sid := by
  obtain ⟨s, hs⟩ : ∃ s, w.stores[sid]? = some s := ⟨w.stores[sid], List.getElem?_eq_getElem hlt⟩
  exact view_of_heapExt w _ h (heapExt_step w op hsafe) sid s hs (stores_step_other w op sid s hw hs)

theorem stores_length_step (w : World K) (op : Op K) (sid : Nat) (hlt : sid < w.stores.length) :
    sid < (step w op).1.stores.length := by
  by_cases hw : op.writesTo sid = false
  · have := stores_step_other w op sid w.stores[sid] hw (List.getElem?_eq_getElem hlt)
    exact (List.getElem?_eq_some_iff.mp this).1
  · -- the writing operations replace an element of the list or leave it alone
    cases op with
    | setMode sid' m => simp only [step]; rw [updStore_stores]; split <;> simp [hlt]
    | start sid' fid =>
      simp only [step]
      cases w.fields[fid]? with
      | none => exact hlt
      | some p => simp only; rw [updStore_stores]; split <;> simp [hlt]
    | append sid' fid t c =>
      simp only [step]
      cases w.fields[fid]? with
      | none => exact hlt
      | some p => simp only; rw [updStore_stores]; split <;> simp [hlt]
    | clear sid' b => simp only [step]; rw [updStore_stores]; split <;> simp [hlt]
    | apply sid' f out c =>
      simp only [step]
      cases w.stores[sid']? with
      | none => exact hlt
      | some s1 =>
        simp only
        split_ifs
        · exact hlt
        · split
          · exact hlt
          · split <;> simp <;> omega
    | _ => simp [Op.writesTo] at hw

/-- **frames are immutable**: whatever is done in the world that is not a write to storage
`sid` itself - in-place changes of the source fields after they were appended, changes of
fields read back from this or any other storage (`storage[i]`, `view_field`), new fields, reads,
writing sessions on other storages, derived storages (`extract_*`, `copy`, `apply`) - the times
and the content of every frame of `sid` stay exactly as they were. -/
theorem frames_immutable (ops : List (Op K)) :
    ∀ (w : World K) (sid : Nat), w.Inv → sid < w.stores.length →
      (∀ op ∈ ops, op.safe = true ∧ op.writesTo sid = false) →
      (run w ops).view sid = w.view sid ∧ (run w ops).Inv := by
  induction ops with
  | nil => intro w sid h _ _; exact ⟨rfl, h⟩
  | cons op ops ih =>
    intro w sid h hlt hops
    obtain ⟨h1, h2⟩ := hops op (by simp)
    have hstep := view_step_other w op sid h h1 h2 hlt
    obtain ⟨e1, e2⟩ := ih (step w op).1 sid (inv_step w op h1 h) (stores_length_step w op sid hlt)
      (fun o ho => hops o (by simp [ho]))
    exact ⟨by simp only [run, List.foldl_cons] at e1 ⊢; rw [e1, hstep], by simpa [run] using e2⟩

/-- the privacy invariant holds along every safe operation sequence from the empty world -/
theorem inv_run (ops : List (Op K)) : ∀ w : World K, w.Inv → (∀ op ∈ ops, op.safe = true) →
    (run w ops).Inv := by
  induction ops with
  | nil => intro w h _; exact h
  | cons op ops ih =>
    intro w h hops
    exact ih _ (inv_step w op (hops op (by simp)) h) (fun o ho => hops o (by simp [ho]))

theorem inv_empty : (World.empty : World K).Inv := by
  simp [World.Inv, World.empty]

/-- the operation on storage `sid` that a world operation amounts to, as the storage sees it:
an `append` carries the content of the source field's buffer *at this moment* -/
def project (w : World K) (sid : Nat) : Op K → Option (SOp K (List K))
  | .setMode s m => if s = sid then some (.setMode m) else none
  | .start s fid => if s = sid then (w.fields[fid]?).map (fun p => .start p.1) else none
  | .append s fid t c =>
    if s = sid then (w.fields[fid]?).map (fun p => .append p.1 t (w.deref p.2) c) else none
  | .clear s b => if s = sid then some (.clear b) else none
  | _ => none

theorem updStore_view (w : World K) (sid : Nat) (f : Store K Nat → Store K Nat × Option Err)
    (s : Store K Nat) (hs : w.stores[sid]? = some s) :
    (updStore w sid f).1.view sid = some ((f s).1.mapFrames w.deref) := by
  have hlt : sid < w.stores.length := (List.getElem?_eq_some_iff.mp hs).1
  unfold World.view
  rw [updStore_stores, hs]
  simp only
  rw [List.getElem?_set_self hlt]
  simp only [Option.map_some, Option.some.injEq]
  have : (updStore w sid f).1.deref = w.deref := by
    funext id; simp [World.deref, (updStore_heap w sid f).1]
  rw [this]

theorem mapFrames_congr {F G : Type} (g g' : F → G) (s : Store K F) (h : ∀ id ∈ s.frames, g id = g' id) :
    s.mapFrames g = s.mapFrames g' := by
  unfold Store.mapFrames
  congr 1
  exact List.map_congr_left h

/-- **one world step, seen from storage `sid`** (every safe operation except `copy`/`apply`
*into* `sid`, which `copy_apply_consistent` covers): the view of the storage - times, the
content of every frame, mode, shape, template - moves exactly as the storage state machine
moves on the projected operation, or does not move at all. -/
theorem world_refines_store (w : World K) (op : Op K) (sid : Nat) (h : w.Inv) (hsafe : op.safe = true)
    (hna : ∀ src f c, op ≠ .apply src f (some sid) c) (hlt : sid < w.stores.length) :
    (step w op).1.view sid = (w.view sid).map (fun sv =>
      match project w sid op with
      | some sop => (sstep sv sop).1
      | none => sv) := by
  obtain ⟨s, hs⟩ : ∃ s, w.stores[sid]? = some s := ⟨w.stores[sid], List.getElem?_eq_getElem hlt⟩
  have hview : w.view sid = some (s.mapFrames w.deref) := by simp [World.view, hs]
  by_cases hw : op.writesTo sid = false
  · have hp : project w sid op = none := by
      cases op <;> simp_all [project, Op.writesTo]
    rw [view_step_other w op sid h hsafe hw hlt, hp]
    simp
  · cases op with
    | setMode sid' m =>
      have : sid' = sid := by simpa [Op.writesTo] using hw
      subst this
      simp only [step, project, if_true]
      rw [updStore_view _ _ _ s hs, hview]
      simp [sstep, Store.mapFrames]
    | start sid' fid =>
      have : sid' = sid := by simpa [Op.writesTo] using hw
      subst this
      simp only [step, project, if_true]
      cases hf : w.fields[fid]? with
      | none => simp
      | some p =>
        simp only [Option.map_some]
        rw [updStore_view _ _ _ s hs, hview]
        simp only [Option.map_some, sstep, mapFrames_startWriting]
    | append sid' fid t c =>
      have : sid' = sid := by simpa [Op.writesTo] using hw
      subst this
      simp only [step, project, if_true]
      cases hf : w.fields[fid]? with
      | none => simp
      | some p =>
        simp only [Option.map_some]
        have hs1 : ({ w with heap := w.heap ++ [w.deref p.2] } : World K).stores[sid']? = some s := hs
        rw [updStore_view _ _ _ s hs1, hview]
        simp only [Option.map_some, sstep, Option.some.injEq]
        -- the frames of `s` keep their content, the new id holds the copy
        have hold : s.mapFrames ({ w with heap := w.heap ++ [w.deref p.2] } : World K).deref =
            s.mapFrames w.deref := by
          apply mapFrames_congr
          intro id hid
          exact deref_append w _ id (h.2 s (List.mem_of_getElem? hs) id hid).1
        have hnew : ({ w with heap := w.heap ++ [w.deref p.2] } : World K).deref w.heap.length =
            w.deref p.2 := by
          simp [World.deref]
        have := mapFrames_append ({ w with heap := w.heap ++ [w.deref p.2] } : World K).deref
          s p.1 t w.heap.length c
        rw [hold, hnew] at this
        rw [this]
    | clear sid' b =>
      have : sid' = sid := by simpa [Op.writesTo] using hw
      subst this
      simp only [step, project, if_true]
      rw [updStore_view _ _ _ s hs, hview]
      simp [sstep, mapFrames_clear]
    | apply src f out c =>
      cases out with
      | none => simp [Op.writesTo] at hw
      | some o =>
        have : o = sid := by simpa [Op.writesTo] using hw
        subst this
        exact absurd rfl (hna src f c)
    | _ => simp [Op.writesTo] at hw

/-- the operations storage `sid` sees along a world operation sequence -/
def wtrace (sid : Nat) : World K → List (Op K) → List (SOp K (List K))
  | _, [] => []
  | w, op :: ops => (project w sid op).toList ++ wtrace sid (step w op).1 ops

/-- **C20 in the world, every operation sequence**: what a reader sees of storage `sid` after
any sequence of safe operations (interleaved writing sessions on all storages, in-place
mutation of every live field, reads, derived storages, ...) is the storage state machine run on
the operations addressed to `sid`, in which every `append` carries the data the source field
had at the moment of appending.  With `read_returns_appended_from` (at `F = List K`) this is
the property statement: later changes to the source field or to fields read back do not alter
stored frames. -/
theorem world_run_refines (ops : List (Op K)) :
    ∀ (w : World K) (sid : Nat), w.Inv → sid < w.stores.length →
      (∀ op ∈ ops, op.safe = true ∧ ∀ src f c, op ≠ .apply src f (some sid) c) →
      (run w ops).view sid = (w.view sid).map (fun sv => srun sv (wtrace sid w ops)) := by
  induction ops with
  | nil => intro w sid _ _ _; simp [run, wtrace, srun]
  | cons op ops ih =>
    intro w sid h hlt hops
    obtain ⟨h1, h2⟩ := hops op (by simp)
    have hstep := world_refines_store w op sid h h1 h2 hlt
    have := ih (step w op).1 sid (inv_step w op h1 h) (stores_length_step w op sid hlt)
      (fun o ho => hops o (by simp [ho]))
    simp only [run, List.foldl_cons] at this ⊢
    rw [this, hstep]
    simp only [wtrace, Option.map_map]
    congr 1
    funext sv
    simp only [Function.comp]
    cases project w sid op with
    | none => simp
    | some sop => simp [srun]

/-! ### every storage of every reachable world is well formed -/

theorem wf_construct {F : Type} (times : List K) (frames : List F) (tm : Option FieldInfo) (m : Mode)
    (s' : Store K F) (h : construct times frames tm m = .ok s') (ht : frames ≠ [] → tm ≠ none) :
    WF s' := by
  unfold construct at h
  split_ifs at h with hl
  cases h
  refine ⟨by simpa using hl, ?_, ?_⟩
  · intro hne
    simp only
    cases tm with
    | none => exact absurd rfl (ht hne)
    | some fi => simp
  · intro hd
    cases tm with
    | none => simp at hd
    | some fi => exact ⟨fi, rfl, rfl⟩

theorem wf_applyLoop {F : Type} (s : Store K F) (finfo : FieldInfo → FieldInfo) (c : Bool) :
    ∀ (todo : List (Nat × F)) (out : Option (Store K F)) (w : Bool) (o' : Store K F),
      (∀ o, out = some o → WF o) → (applyLoop s finfo c todo out w).1 = some o' → WF o' := by
  intro todo
  induction todo with
  | nil =>
    intro out w o' hout h
    simp only [applyLoop] at h
    exact hout o' h
  | cons p todo ih =>
    intro out w o' hout h
    obtain ⟨i, nf⟩ := p
    unfold applyLoop at h
    cases hgf : getField s (i : Int) with
    | error e => rw [hgf] at h; exact hout o' h
    | ok r =>
      obtain ⟨fi, f0⟩ := r
      rw [hgf] at h
      cases hti : s.times[i]? with
      | none => rw [hti] at h; exact hout o' h
      | some t =>
        rw [hti] at h
        simp only at h
        have hnew : WF (outOrNew out (finfo fi)) := by
          cases out with
          | none => simp [outOrNew, WF]
          | some o => exact hout o rfl
        have h2 : ∀ (o2 : Store K F) (e2 : Option Err),
            (if w = true then (outOrNew out (finfo fi), none) else
              startWriting (outOrNew out (finfo fi)) (finfo fi)) = (o2, e2) → WF o2 := by
          intro o2 e2 h2
          split_ifs at h2
          · cases h2; exact hnew
          · have := wf_startWriting (outOrNew out (finfo fi)) (finfo fi) hnew
            rw [h2] at this; exact this
        cases hr2 : (if w = true then (outOrNew out (finfo fi), none) else
              startWriting (outOrNew out (finfo fi)) (finfo fi)) with
        | mk o2 e2 =>
          rw [hr2] at h
          have hw2 := h2 o2 e2 hr2
          cases e2 with
          | some e => simp only at h; cases h; exact hw2
          | none =>
            simp only at h
            have hw3 := wf_append o2 (finfo fi) (some t) nf c hw2
            cases hap : append o2 (finfo fi) (some t) nf c with
            | mk o3 e3 =>
              rw [hap] at h hw3
              cases e3 with
              | some e => simp only at h; cases h; exact hw3
              | none =>
                simp only at h
                exact ih (some o3) true o' (by intro o ho; cases ho; exact hw3) h

theorem wf_applyTo {F : Type} (s : Store K F) (finfo : FieldInfo → FieldInfo) (nf : List F)
    (out : Option (Store K F)) (c : Bool) (o' : Store K F) (hout : ∀ o, out = some o → WF o)
    (h : (applyTo s finfo nf out c).1 = some o') : WF o' := by
  unfold applyTo at h
  have key := wf_applyLoop s finfo c ((List.range s.times.length).zip nf) out false
  cases hl : applyLoop s finfo c ((List.range s.times.length).zip nf) out false with
  | mk ol el =>
    rw [hl] at h key
    cases el with
    | some e => simp only at h; exact key o' hout h
    | none =>
      cases ol with
      | some o => simp only at h; exact key o' hout h
      | none => simp only at h; cases h; exact wf_new _

/-- all storages of the world are well formed -/
def World.AllWF (w : World K) : Prop := ∀ s ∈ w.stores, WF s

theorem allwf_set (w : World K) (sid : Nat) (s' : Store K Nat) (h : w.AllWF) (hs : WF s') :
    ({ w with stores := w.stores.set sid s' } : World K).AllWF := by
  intro s hmem
  rcases List.mem_or_eq_of_mem_set hmem with h1 | h1
  · exact h s h1
  · subst h1; exact hs

theorem allwf_push (w : World K) (s' : Store K Nat) (h : w.AllWF) (hs : WF s') :
    ({ w with stores := w.stores ++ [s'] } : World K).AllWF := by
  intro s hmem
  rcases List.mem_append.mp hmem with h1 | h1
  · exact h s h1
  · simp at h1; subst h1; exact hs

theorem updStore_allwf (w : World K) (sid : Nat) (f : Store K Nat → Store K Nat × Option Err)
    (h : w.AllWF) (hf : ∀ s, WF s → WF (f s).1) : (updStore w sid f).1.AllWF := by
  intro s hmem
  rw [updStore_stores] at hmem
  cases hs : w.stores[sid]? with
  | none => rw [hs] at hmem; exact h s hmem
  | some s0 =>
    rw [hs] at hmem
    rcases List.mem_or_eq_of_mem_set hmem with h1 | h1
    · exact h s h1
    · subst h1; exact hf s0 (h s0 (List.mem_of_getElem? hs))

/-- **well-formedness is preserved by every operation** (also `from_fields` and `poke`): in
every reachable world every storage - also every derived one - has as many frames as times and a
template whenever it stores something, so all reads of the read theorems succeed -/
theorem allwf_step (w : World K) (op : Op K) (h : w.AllWF) : (step w op).1.AllWF := by
  cases op with
  | newField fi vals => exact h
  | setField fid vals => simp only [step]; cases w.fields[fid]? <;> exact h
  | newStore m => exact allwf_push w _ h (wf_new m)
  | setMode sid m => exact updStore_allwf w sid _ h (fun s hs => hs)
  | start sid fid =>
    simp only [step]
    cases w.fields[fid]? with
    | none => exact h
    | some p => exact updStore_allwf w sid _ h (fun s hs => wf_startWriting s p.1 hs)
  | append sid fid t c =>
    simp only [step]
    cases w.fields[fid]? with
    | none => exact h
    | some p => exact updStore_allwf _ sid _ h (fun s hs => wf_append s p.1 t _ c hs)
  | endW sid => exact updStore_allwf w sid _ h (fun s hs => hs)
  | clear sid b => exact updStore_allwf w sid _ h (fun s hs => wf_clear s b hs)
  | read sid i =>
    simp only [step]
    cases w.stores[sid]? with
    | none => exact h
    | some s => simp only; cases getField s i <;> exact h
  | items sid =>
    simp only [step]
    cases w.stores[sid]? with
    | none => exact h
    | some s => simp only; cases Storage.items s <;> exact h
  | slice sid a b =>
    simp only [step]
    cases w.stores[sid]? with
    | none => exact h
    | some s => simp only; cases getSlice s a b <;> exact h
  | extractTimeRange sid r =>
    simp only [step]
    cases hst : w.stores[sid]? with
    | none => exact h
    | some s =>
      simp only
      cases hr : Storage.extractTimeRange s r with
      | error e => exact h
      | ok s' =>
        apply allwf_push w s' h
        have hws := h s (List.mem_of_getElem? hst)
        unfold Storage.extractTimeRange at hr
        simp only at hr
        split at hr
        · cases hr
        · cases hr
        · apply wf_construct _ _ _ _ s' hr
          intro hne
          have : s.frames ≠ [] := by
            intro h0; rw [h0] at hne; simp at hne
          obtain ⟨fi, hfi, _⟩ := template_present s hws this
          rw [hfi]; simp
  | extractField sid fid label =>
    simp only [step]
    cases hst : w.stores[sid]? with
    | none => exact h
    | some s =>
      simp only
      cases extractFieldPlan s fid label with
      | error e => exact h
      | ok r =>
        obtain ⟨fi, i, tmpl⟩ := r
        simp only
        cases hb : extractFieldBuild s tmpl _ with
        | error e => exact h
        | ok s' =>
          apply allwf_push _ s' h
          unfold extractFieldBuild at hb
          exact wf_construct _ _ _ _ s' hb (by simp)
  | viewRead sid fid k =>
    simp only [step]
    cases w.stores[sid]? with
    | none => exact h
    | some s =>
      simp only
      cases viewCreate s fid with
      | error e => exact h
      | ok fidx =>
        simp only
        cases viewGet s fidx k with
        | error e => exact h
        | ok r => obtain ⟨fi, id, j, m⟩ := r; exact h
  | viewItems sid fid =>
    simp only [step]
    cases w.stores[sid]? with
    | none => exact h
    | some s =>
      simp only
      cases viewCreate s fid with
      | error e => exact h
      | ok fidx => simp only; split <;> exact h
  | apply sid f out c =>
    simp only [step]
    cases hst : w.stores[sid]? with
    | none => exact h
    | some s =>
      simp only
      split_ifs
      · exact h
      · split
        · exact h
        · rename_i outS houtS
          have hout : ∀ o, outS = some o → WF o := by
            intro o ho
            subst ho
            cases out with
            | none => simp at houtS
            | some oid =>
              simp only at houtS
              cases hoid : w.stores[oid]? with
              | none => rw [hoid] at houtS; simp at houtS
              | some o0 =>
                rw [hoid] at houtS
                simp only [Option.map_some, Option.some.injEq] at houtS
                cases houtS
                exact h o (List.mem_of_getElem? hoid)
          split
          · rename_i o heq _
            exact allwf_push _ o h (wf_applyTo s f.info _ outS c o hout (by rw [heq]))
          · rename_i o oid heq _
            exact allwf_set _ oid o h (wf_applyTo s f.info _ outS c o hout (by rw [heq]))
          · rename_i o e oid heq _
            exact allwf_set _ oid o h (wf_applyTo s f.info _ outS c o hout (by rw [heq]))
          · exact h
          · exact h
  | fromFields times fids m =>
    simp only [step]
    split
    · exact h
    · exact h
    · split_ifs
      · exact h
      · exact h
      · split
        · exact h
        · next s' hs' => exact allwf_push w s' h (wf_construct _ _ _ _ s' hs' (by simp))
  | poke sid i vals =>
    simp only [step]
    cases w.stores[sid]? with
    | none => exact h
    | some s => simp only; cases s.frames[i]? <;> exact h
  | fromCollection sids label rtol atol =>
    simp only [step]
    split
    · exact h
    · exact allwf_push w _ h (wf_new _)
    · split
      · exact h
      · split
        · exact h
        · split
          · exact h
          · split
            · exact h
            · split_ifs
              · exact h
              · exact h
              · split
                · exact h
                · next s' hs' => exact allwf_push _ s' h (wf_construct _ _ _ _ s' hs' (by simp))

theorem allwf_run (ops : List (Op K)) : ∀ w : World K, w.AllWF → (run w ops).AllWF := by
  induction ops with
  | nil => intro w h; exact h
  | cons op ops ih => intro w h; exact ih _ (allwf_step w op h)

theorem allwf_empty : (World.empty : World K).AllWF := by
  intro s hs; simp [World.empty] at hs

/-! ### derived storages in the world: what they hold when they are created -/

theorem map_deref_fresh (w : World K) (x : List (List K)) :
    (List.range' w.heap.length x.length).map ({ w with heap := w.heap ++ x } : World K).deref = x := by
  apply List.ext_getElem
  · simp
  · intro i h1 h2
    simp only [List.getElem_map, List.getElem_range', World.deref, Nat.one_mul]
    rw [List.getD_eq_getElem?_getD, List.getElem?_append_right (by omega)]
    simp at h2 ⊢
    simp [h2]

theorem view_push (w : World K) (s' : Store K Nat) (x : List (List K)) :
    ({ w with heap := w.heap ++ x, stores := w.stores ++ [s'] } : World K).view w.stores.length =
      some (s'.mapFrames ({ w with heap := w.heap ++ x } : World K).deref) := by
  simp only [World.view, List.getElem?_concat_length, Option.map_some]
  rfl

/-- `extract_time_range` in the world: the new storage is what the value-level function gives
on the view of the source, and it holds (shares) frame objects of the source -/
theorem extract_time_range_world (w : World K) (sid : Nat) (r : TRange K) (s s' : Store K Nat)
    (hs : w.stores[sid]? = some s) (hr : Storage.extractTimeRange s r = .ok s') :
    (step w (.extractTimeRange sid r)).1.view w.stores.length = some (s'.mapFrames w.deref) ∧
    Storage.extractTimeRange (s.mapFrames w.deref) r = .ok (s'.mapFrames w.deref) ∧
    (step w (.extractTimeRange sid r)).1.heap = w.heap := by
  refine ⟨?_, ?_, ?_⟩
  · simp only [step, hs, hr]
    have := view_push w s' []
    simpa [World.view, World.deref] using this
  · rw [mapFrames_extractTimeRange, hr]; rfl
  · simp only [step, hs, hr]

/-- `extract_field` in the world: the new storage holds fresh buffers whose contents are the
member's slices of the source frames - the value-level `extract_field` of the source's view -/
theorem extract_field_world (w : World K) (sid : Nat) (fid : FieldId) (label : Option String)
    (s : Store K Nat) (fi tmpl : FieldInfo) (i : Nat) (hs : w.stores[sid]? = some s)
    (hlen : s.times.length = s.frames.length)
    (hp : extractFieldPlan s fid label = .ok (fi, i, tmpl)) :
    ∃ sv', (step w (.extractField sid fid label)).1.view w.stores.length = some sv' ∧
      extractFieldBuild (s.mapFrames w.deref) tmpl
        ((s.mapFrames w.deref).frames.map (sliceFrame fi i)) = .ok sv' ∧
      sv'.contents = (s.mapFrames w.deref).contents.map (fun p => (p.1, sliceFrame fi i p.2)) := by
  have hb : extractFieldBuild s tmpl (List.range' w.heap.length
      (s.frames.map (fun id => sliceFrame fi i (w.deref id))).length) = .ok
        { times := s.times, frames := List.range' w.heap.length
            (s.frames.map (fun id => sliceFrame fi i (w.deref id))).length,
          mode := .truncateOnce, dataShape := some tmpl.shape, dtypeSet := false,
          grid := some tmpl.grid, template := some tmpl } := by
    unfold extractFieldBuild
    rw [construct_ok _ _ _ _ (by simp [hlen])]
    rfl
  have hplanv : extractFieldPlan (s.mapFrames w.deref) fid label = .ok (fi, i, tmpl) := by
    unfold extractFieldPlan at hp ⊢
    simpa [Store.mapFrames] using hp
  obtain ⟨sv', e1, e2, _⟩ := extract_field_consistent (s.mapFrames w.deref)
    (by simp [Store.mapFrames, hlen]) fid label fi tmpl i hplanv
  refine ⟨sv', ?_, e1, e2⟩
  simp only [step, hs, hp, hb]
  rw [view_push]
  simp only [Option.some.injEq]
  unfold extractFieldBuild at e1
  rw [construct_ok _ _ _ _ (by simp [Store.mapFrames, hlen])] at e1
  cases e1
  simp only [Store.mapFrames]
  congr 1
  rw [map_deref_fresh]
  simp

/-- `copy` / `apply` in the world, without `out` or into another storage: the resulting
storage is what the value-level `apply` (`copy_apply_consistent`) gives on the views, the
appended frames being fresh buffers that hold the transformed data -/
theorem apply_world (w : World K) (h : w.Inv) (sid : Nat) (f : Func K) (out : Option Nat)
    (s : Store K Nat) (hs : w.stores[sid]? = some s) (hne : out ≠ some sid)
    (outS : Option (Store K Nat)) (c : Bool)
    (hout : (match out with
      | none => some none
      | some o => (w.stores[o]?).map some) = some outS) (o' : Store K Nat)
    (hok : (applyTo s f.info (List.range' w.heap.length (applyNewVals w f s).length) outS c).1 = some o') :
    (applyTo (s.mapFrames w.deref) f.info (applyNewVals w f s)
        (outS.map (Store.mapFrames w.deref)) c).1 =
      some (o'.mapFrames ({ w with heap := w.heap ++ applyNewVals w f s } : World K).deref) ∧
    (applyTo (s.mapFrames w.deref) f.info (applyNewVals w f s)
        (outS.map (Store.mapFrames w.deref)) c).2 =
      (applyTo s f.info (List.range' w.heap.length (applyNewVals w f s).length) outS c).2 ∧
    ∃ tgt, (match out with | none => tgt = w.stores.length | some o => tgt = o) ∧
      ((applyTo s f.info (List.range' w.heap.length (applyNewVals w f s).length) outS c).2 = none ∨
        out ≠ none →
      (step w (.apply sid f out c)).1.view tgt =
        some (o'.mapFrames ({ w with heap := w.heap ++ applyNewVals w f s } : World K).deref)) := by
  have hnat := mapFrames_applyTo ({ w with heap := w.heap ++ applyNewVals w f s } : World K).deref
    s f.info (List.range' w.heap.length (applyNewVals w f s).length) outS c
  rw [map_deref_fresh] at hnat
  have hsv : s.mapFrames ({ w with heap := w.heap ++ applyNewVals w f s } : World K).deref =
      s.mapFrames w.deref := by
    apply mapFrames_congr
    intro id hid
    exact deref_append w _ id (h.2 s (List.mem_of_getElem? hs) id hid).1
  have hov : outS.map (Store.mapFrames ({ w with heap := w.heap ++ applyNewVals w f s } : World K).deref) =
      outS.map (Store.mapFrames w.deref) := by
    cases outS with
    | none => rfl
    | some o0 =>
      simp only [Option.map_some, Option.some.injEq]
      apply mapFrames_congr
      intro id hid
      cases out with
      | none => simp at hout
      | some oid =>
        simp only at hout
        cases hoid : w.stores[oid]? with
        | none => rw [hoid] at hout; simp at hout
        | some o1 =>
          rw [hoid] at hout
          simp only [Option.map_some, Option.some.injEq] at hout
          cases hout
          exact deref_append w _ id (h.2 o0 (List.mem_of_getElem? hoid) id hid).1
  rw [hsv, hov] at hnat
  refine ⟨by rw [hnat, hok]; rfl, by rw [hnat], ?_⟩
  cases out with
  | none =>
    refine ⟨w.stores.length, rfl, ?_⟩
    intro hcond
    have he : (applyTo s f.info (List.range' w.heap.length (applyNewVals w f s).length) outS c).2 = none := by
      rcases hcond with h1 | h1
      · exact h1
      · exact absurd rfl h1
    simp only at hout
    cases hout
    simp only [step, hs, reduceCtorEq, ↓reduceIte]
    cases hap : applyTo s f.info (List.range' w.heap.length (applyNewVals w f s).length) none c with
    | mk o e =>
      rw [hap] at hok he
      simp only at hok he
      subst hok he
      simp only
      exact view_push w o' _
  | some oid =>
    refine ⟨oid, rfl, ?_⟩
    intro _
    simp only at hout
    cases hoid : w.stores[oid]? with
    | none => rw [hoid] at hout; simp at hout
    | some o1 =>
      rw [hoid] at hout
      simp only [Option.map_some, Option.some.injEq] at hout
      cases hout
      have hlt : oid < w.stores.length := (List.getElem?_eq_some_iff.mp hoid).1
      simp only [step, hs]
      rw [if_neg hne]
      simp only [hoid, Option.map_some]
      cases hap : applyTo s f.info (List.range' w.heap.length (applyNewVals w f s).length) (some o1) c with
      | mk o e =>
        rw [hap] at hok
        simp only at hok
        subst hok
        cases e <;> simp only [World.view, List.getElem?_set_self hlt, Option.map_some] <;> rfl

theorem wf_mapFrames {F G : Type} (g : F → G) (s : Store K F) (h : WF s) : WF (s.mapFrames g) := by
  obtain ⟨h1, h2, h3⟩ := h
  refine ⟨by simpa [Store.mapFrames] using h1, ?_, h3⟩
  intro hne
  apply h2
  intro h0
  apply hne
  simp [Store.mapFrames, h0]

theorem applyNewVals_length (w : World K) (f : Func K) (s : Store K Nat) (h : WF s) :
    (applyNewVals w f s).length = s.frames.length := by
  simp [applyNewVals, h.1]

/-- the storage operations a world operation amounts to for storage `sid`, now including
`copy`/`apply` *into* `sid` (a session start and, if accepted, one append per frame of the
source, carrying the transformed data of the source's frames at this moment) -/
def projectL (w : World K) (sid : Nat) (op : Op K) : List (SOp K (List K)) :=
  match op with
  | .apply src f (some out) c =>
    if out = sid ∧ src ≠ sid then
      match w.stores[src]?, w.view sid with
      | some s, some ov => applyOps (s.mapFrames w.deref) f.info (applyNewVals w f s) ov c
      | _, _ => []
    else []
  | op => (project w sid op).toList

/-- **one world step, seen from storage `sid`, every safe operation** -/
theorem world_refines_store_all (w : World K) (op : Op K) (sid : Nat) (h : w.Inv) (hwf : w.AllWF)
    (hsafe : op.safe = true) (hlt : sid < w.stores.length) :
    (step w op).1.view sid = (w.view sid).map (fun sv => srun sv (projectL w sid op)) := by
  by_cases hap : ∃ src f c, op = .apply src f (some sid) c
  · obtain ⟨src, f, c, rfl⟩ := hap
    obtain ⟨o1, ho1⟩ : ∃ s, w.stores[sid]? = some s := ⟨w.stores[sid], List.getElem?_eq_getElem hlt⟩
    have hview : w.view sid = some (o1.mapFrames w.deref) := by simp [World.view, ho1]
    by_cases hsrc : src = sid
    · subst hsrc
      simp [step, ho1, projectL, srun, hview]
    · cases hs : w.stores[src]? with
      | none => simp [step, hs, projectL, srun, hview]
      | some s =>
        have hws : WF s := hwf s (List.mem_of_getElem? hs)
        have hlen := applyNewVals_length w f s hws
        -- id level: the result of `applyTo` is a run of `out`'s state machine
        have hid := applyTo_some_srun s hws f.info
          (List.range' w.heap.length (applyNewVals w f s).length) (by simp [hlen]) o1 c
        have hne : (some sid : Option Nat) ≠ some src := by
          intro h0; cases h0; exact hsrc rfl
        obtain ⟨e1, _, tgt, htgt, e3⟩ := apply_world w h src f (some sid) s hs hne (some o1) c
          (by simp [ho1]) _ hid
        simp only at htgt
        subst htgt
        rw [e3 (Or.inr (by simp))]
        -- value level: the same run on the views
        have hval := applyTo_some_srun (s.mapFrames w.deref) (wf_mapFrames _ s hws) f.info
          (applyNewVals w f s) (by simp [Store.mapFrames, hlen]) (o1.mapFrames w.deref) c
        simp only [Option.map_some] at e1
        rw [hval] at e1
        rw [hview]
        simp only [Option.map_some, projectL, hs, hview]
        rw [if_pos ⟨trivial, hsrc⟩]
        exact e1.symm
  · have hna : ∀ src f c, op ≠ .apply src f (some sid) c := fun src f c h0 => hap ⟨src, f, c, h0⟩
    rw [world_refines_store w op sid h hsafe hna hlt]
    congr 1
    funext sv
    have hp : projectL w sid op = (project w sid op).toList := by
      cases op with
      | apply src f out c =>
        cases out with
        | none => rfl
        | some o =>
          have : o ≠ sid := by intro h0; subst h0; exact hna src f c rfl
          simp [projectL, project, this]
      | _ => rfl
    rw [hp]
    cases project w sid op with
    | none => simp [srun]
    | some sop => simp [srun]

/-- the operations storage `sid` sees along a world operation sequence (all safe operations) -/
def wtraceL (sid : Nat) : World K → List (Op K) → List (SOp K (List K))
  | _, [] => []
  | w, op :: ops => projectL w sid op ++ wtraceL sid (step w op).1 ops

theorem srun_append {F : Type} (o : Store K F) (a b : List (SOp K F)) :
    srun o (a ++ b) = srun (srun o a) b := by
  simp [srun, List.foldl_append]

/-- **C20 in the world, EVERY safe operation sequence** (everything except `from_fields` and
direct writes into `storage.data`): what a reader sees of storage `sid` is the storage state
machine run on the operations addressed to it - sessions, appends carrying the source's data at
that moment, clears, mode changes, and `copy`/`apply` into it carrying the transformed frames of
their source at that moment. -/
theorem world_run_refines_all (ops : List (Op K)) :
    ∀ (w : World K) (sid : Nat), w.Inv → w.AllWF → sid < w.stores.length →
      (∀ op ∈ ops, op.safe = true) →
      (run w ops).view sid = (w.view sid).map (fun sv => srun sv (wtraceL sid w ops)) := by
  induction ops with
  | nil => intro w sid _ _ _ _; simp [run, wtraceL, srun]
  | cons op ops ih =>
    intro w sid h hwf hlt hops
    have h1 := hops op (by simp)
    have hstep := world_refines_store_all w op sid h hwf h1 hlt
    have := ih (step w op).1 sid (inv_step w op h1 h) (allwf_step w op hwf)
      (stores_length_step w op sid hlt) (fun o ho => hops o (by simp [ho]))
    simp only [run, List.foldl_cons] at this ⊢
    rw [this, hstep]
    simp only [wtraceL, Option.map_map]
    congr 1
    funext sv
    simp only [Function.comp, srun_append]

/-- **the property statement for a storage created in any reachable world**: after any safe
continuation, reading the storage (`items()`, `storage[i]`) returns the specification log of the
operations it saw - the appended (time, data-at-that-moment) pairs of the surviving sessions -/
theorem world_reads_appended (w : World K) (h : w.Inv) (hwf : w.AllWF) (m : Mode)
    (ops : List (Op K)) (hops : ∀ op ∈ ops, op.safe = true) :
    let w0 := (step w (.newStore m)).1
    let sid := w.stores.length
    ∃ sv, (run w0 ops).view sid = some sv ∧
      sv = srun (Store.new m) (wtraceL sid w0 ops) ∧
      sv.contents = (runBoth (Store.new m) (Spec.init m) (wtraceL sid w0 ops)).2.log ∧
      ∃ l, items sv = .ok l ∧
        l.map (fun r => (r.1, r.2.2)) = (runBoth (Store.new m) (Spec.init m) (wtraceL sid w0 ops)).2.log := by
  intro w0 sid
  have h0 : w0.Inv := inv_step w (.newStore m) rfl h
  have hwf0 : w0.AllWF := allwf_step w (.newStore m) hwf
  have hlt : sid < w0.stores.length := by simp [w0, sid, step]
  have hv0 : w0.view sid = some (Store.new m) := by
    simp [w0, sid, step, World.view, Store.mapFrames, Store.new]
  have := world_run_refines_all ops w0 sid h0 hwf0 hlt hops
  rw [hv0] at this
  simp only [Option.map_some] at this
  refine ⟨_, this, rfl, ?_⟩
  have hr := read_returns_appended_in_order (K := K) (F := List K) m (wtraceL sid w0 ops)
  exact ⟨hr.1, hr.2.1⟩

/-! ### what the reading operations of the world return -/

omit [Add K] [Sub K] [Mul K] [Neg K] [NatCast K] [LT K] [DecidableLT K] [LE K] [DecidableLE K] in
theorem view_some (w : World K) (sid : Nat) (sv : Store K (List K)) (h : w.view sid = some sv) :
    ∃ s, w.stores[sid]? = some s ∧ sv = s.mapFrames w.deref := by
  unfold World.view at h
  cases hs : w.stores[sid]? with
  | none => rw [hs] at h; simp at h
  | some s => rw [hs] at h; simp at h; exact ⟨s, rfl, h.symm⟩

/-- `storage[i]` in the world returns what `_get_field` gives on the storage *as a reader sees it*
(every frame replaced by its current content) -/
theorem read_world (w : World K) (sid : Nat) (i : Int) (sv : Store K (List K))
    (hv : w.view sid = some sv) :
    (step w (.read sid i)).2 =
      (match getField sv i with
       | .error e => .error e
       | .ok (fi, vals) => .ok (.field fi vals)) := by
  obtain ⟨s, hs, rfl⟩ := view_some w sid sv hv
  simp only [step, hs, mapFrames_getField]
  cases getField s i with
  | error e => rfl
  | ok r => rfl

/-- `list(storage.items())` in the world -/
theorem items_world (w : World K) (sid : Nat) (sv : Store K (List K)) (hv : w.view sid = some sv) :
    (step w (.items sid)).2 =
      (match items sv with
       | .error e => .error e
       | .ok l => .ok (.items l)) ∧ (step w (.items sid)).1 = w := by
  obtain ⟨s, hs, rfl⟩ := view_some w sid sv hv
  simp only [step, hs, mapFrames_items]
  cases Storage.items s with
  | error e => exact ⟨rfl, rfl⟩
  | ok l => exact ⟨rfl, rfl⟩

/-- `storage[a:b]` in the world -/
theorem slice_world (w : World K) (sid : Nat) (a b : Option Int) (sv : Store K (List K))
    (hv : w.view sid = some sv) :
    (step w (.slice sid a b)).2 =
      (match getSlice sv a b with
       | .error e => .error e
       | .ok l => .ok (.fields l)) ∧ (step w (.slice sid a b)).1 = w := by
  obtain ⟨s, hs, rfl⟩ := view_some w sid sv hv
  simp only [step, hs, mapFrames_getSlice]
  cases getSlice s a b with
  | error e => exact ⟨rfl, rfl⟩
  | ok l => exact ⟨rfl, rfl⟩

/-- `storage.view_field(fid)[k]` in the world: the member's slice of the CURRENT content of frame `k` -/
theorem view_field_world (w : World K) (sid : Nat) (fid : FieldId) (k : Int) (sv : Store K (List K))
    (hv : w.view sid = some sv) :
    (step w (.viewRead sid fid k)).2 =
      (match viewCreate sv fid with
       | .error e => .error e
       | .ok fidx =>
         match viewGet sv fidx k with
         | .error e => .error e
         | .ok (fi, vals, j, m) => .ok (.field (memberInfo fi m none) (sliceFrame fi j vals))) := by
  obtain ⟨s, hs, rfl⟩ := view_some w sid sv hv
  simp only [step, hs, mapFrames_viewCreate]
  cases viewCreate s fid with
  | error e => rfl
  | ok fidx =>
    simp only [mapFrames_viewGet]
    cases viewGet s fidx k with
    | error e => rfl
    | ok r => rfl

/-- **the property statement, observed through the operations themselves**: for a storage created in any
reachable world, after any safe continuation, `storage[i]` RETURNS the data of the `i`-th pair of the
specification log (the data the source field had at the moment of appending), every index outside
`[-n, n)` raises `IndexError`, and `items()` returns the whole log in order -/
theorem world_read_returns_appended (w : World K) (h : w.Inv) (hwf : w.AllWF) (m : Mode)
    (ops : List (Op K)) (hops : ∀ op ∈ ops, op.safe = true) :
    let w0 := (step w (.newStore m)).1
    let sid := w.stores.length
    let w1 := run w0 ops
    let log := (runBoth (Store.new m) (Spec.init m) (wtraceL sid w0 ops)).2.log
    (∀ i (hi : i < log.length), ∃ fi, (step w1 (.read sid (i : Int))).2 = .ok (.field fi (log[i]).2)) ∧
    (∀ k (h1 : 1 ≤ k) (h2 : k ≤ log.length), ∃ fi,
      (step w1 (.read sid (-(k : Int)))).2 = .ok (.field fi (log[log.length - k]'(by omega)).2)) ∧
    (∀ i : Int, (i < -(log.length : Int) ∨ (log.length : Int) ≤ i) →
      (step w1 (.read sid i)).2 = .error .index) ∧
    (∃ l, (step w1 (.items sid)).2 = .ok (.items l) ∧ l.map (fun r => (r.1, r.2.2)) = log) := by
  intro w0 sid w1 log
  obtain ⟨sv, hv, hsv, _, _⟩ := world_reads_appended w h hwf m ops hops
  have hr := read_returns_appended_in_order (K := K) (F := List K) m (wtraceL sid w0 ops)
  simp only at hr
  rw [← hsv] at hr
  obtain ⟨_, ⟨l, hl1, hl2⟩, hnat, hneg, hout⟩ := hr
  refine ⟨?_, ?_, ?_, ?_⟩
  · intro i hi
    obtain ⟨fi, _, hg⟩ := hnat i hi
    exact ⟨fi, by rw [read_world w1 sid _ sv hv, hg]⟩
  · intro k h1 h2
    obtain ⟨fi, _, hg⟩ := hneg k h1 h2
    exact ⟨fi, by rw [read_world w1 sid _ sv hv, hg]⟩
  · intro i hi
    rw [read_world w1 sid _ sv hv, hout i hi]
  · exact ⟨l, by rw [(items_world w1 sid sv hv).1, hl1], hl2⟩


end world

/-! ### `from_collection` -/

section fromCollection

/-- the gathering loop of `from_collection`: the fields of a storage with at most as many
frames as the first one are appended to the first `fs.length` member lists, in order -/
theorem gatherInto_spec {α : Type} : ∀ (fs : List α) (data : List (List α)) (i : Nat),
    i + fs.length ≤ data.length →
    ∃ data', gatherInto data fs i = .ok data' ∧ data'.length = data.length ∧
      ∀ k (hk : k < data.length) (hk' : k < data'.length),
        data'[k] = if h : i ≤ k ∧ k < i + fs.length then data[k] ++ [fs[k - i]'(by omega)] else data[k] := by
  intro fs
  induction fs with
  | nil => intro data i _; exact ⟨data, rfl, rfl, by intro k hk hk'; simp⟩
  | cons f fs ih =>
    intro data i h
    simp only [List.length_cons] at h
    have hi : i < data.length := by omega
    unfold gatherInto
    rw [List.getElem?_eq_getElem hi]
    simp only
    obtain ⟨data', e1, e2, e3⟩ := ih (data.set i (data[i] ++ [f])) (i + 1) (by simp; omega)
    refine ⟨data', e1, by simpa using e2, ?_⟩
    intro k hk hk'
    have := e3 k (by simpa using hk) hk'
    rw [this]
    by_cases hki : k = i
    · subst hki
      simp
    · rw [List.getElem_set_ne (Ne.symm hki)]
      by_cases hc : i + 1 ≤ k ∧ k < i + 1 + fs.length
      · have hc' : i ≤ k ∧ k < i + (fs.length + 1) := by omega
        simp only [hc, hc', and_self, dite_true, List.length_cons]
        congr 2
        have : k - i = (k - (i + 1)) + 1 := by omega
        simp [this]
      · have hc' : ¬ (i ≤ k ∧ k < i + (fs.length + 1)) := by omega
        simp [hc, hc']

/-- a longer storage than the first one is `IndexError` (`data[i]`) -/
theorem gatherInto_too_long {α : Type} : ∀ (fs : List α) (data : List (List α)) (i : Nat),
    i ≤ data.length → data.length < i + fs.length → gatherInto data fs i = .error .index := by
  intro fs
  induction fs with
  | nil => intro data i h1 h2; simp at h2; omega
  | cons f fs ih =>
    intro data i h1 h2
    unfold gatherInto
    by_cases hi : i < data.length
    · rw [List.getElem?_eq_getElem hi]
      simp only
      exact ih _ (i + 1) (by simp; omega) (by simp at h2 ⊢; omega)
    · rw [List.getElem?_eq_none (by omega)]

/-- what `FieldCollection(fields, label=...)` makes of the member descriptions -/
theorem collInfo_cases (label : Option String) (fi0 : FieldInfo) (rest : List FieldInfo) :
    ((∃ fi ∈ rest, fi.grid ≠ fi0.grid) → collInfo label (fi0 :: rest) = .error .runtime) ∧
    ((∀ fi ∈ rest, fi.grid = fi0.grid) → (∃ fi ∈ fi0 :: rest, fi.cls = 3) →
      collInfo label (fi0 :: rest) = .error .type) ∧
    ((∀ fi ∈ rest, fi.grid = fi0.grid) → (∀ fi ∈ fi0 :: rest, fi.cls ≠ 3) →
      ∃ c, collInfo label (fi0 :: rest) = .ok c ∧ c.cls = 3 ∧ c.label = label ∧ c.grid = fi0.grid ∧
        c.members.map (·.label) = (fi0 :: rest).map (·.label) ∧
        c.members.map (·.shape) = (fi0 :: rest).map (·.shape)) := by
  refine ⟨?_, ?_, ?_⟩
  · rintro ⟨fi, hfi, hne⟩
    simp only [collInfo]
    rw [if_pos]
    simp only [List.any_eq_true, decide_eq_true_eq]
    exact ⟨fi, hfi, hne⟩
  · intro hg ⟨fi, hfi, hc⟩
    simp only [collInfo]
    rw [if_neg, if_pos]
    · simp only [List.any_eq_true, beq_iff_eq]
      exact ⟨fi, hfi, hc⟩
    · simp only [List.any_eq_true, decide_eq_true_eq, not_exists, not_and, not_not]
      exact hg
  · intro hg hc
    simp only [collInfo]
    rw [if_neg, if_neg]
    · exact ⟨_, rfl, rfl, rfl, rfl, by simp [List.map_map, Function.comp_def],
        by simp [List.map_map, Function.comp_def]⟩
    · simp only [List.any_eq_true, beq_iff_eq, not_exists, not_and]
      exact hc
    · simp only [List.any_eq_true, decide_eq_true_eq, not_exists, not_and, not_not]
      exact hg

end fromCollection

/-! ### non-vacuity: concrete histories meet the hypotheses and the conclusions are not trivial -/

section examples

def exInfo : FieldInfo := { grid := 0, ncell := 2, shape := [2], cls := 0, label := some "a", members := [] }

def exColl : FieldInfo :=
  { grid := 0, ncell := 2, shape := [3, 2], cls := 3, label := none,
    members := [⟨some "a", 0, [2], 1⟩, ⟨some "v", 1, [2, 2], 2⟩] }

/-- a `truncate_once` storage: two sessions, the source field is overwritten between the
appends and a field read back is overwritten too; all three appended snapshots survive, in
order, and the second session did not truncate -/
def exOps : List (Op Rat) :=
  [.newField exInfo [1, 2], .newStore .truncateOnce, .start 0 0, .append 0 0 (some 0) true,
   .setField 0 [5, 5], .append 0 0 none true, .endW 0, .read 0 0, .setField 1 [9, 9],
   .start 0 0, .append 0 0 (some (1/2)) true, .setField 0 [7, 7]]

example : ((run World.empty exOps).view 0).map (·.contents) =
    some [(0, [1, 2]), (1, [5, 5]), (1/2, [5, 5])] := by decide +kernel

example : ((run World.empty exOps).view 0).map (·.mode) = some Mode.append := by decide +kernel

example : ∀ op ∈ exOps, op.safe = true ∧ ∀ src f c, op ≠ .apply src f (some 0) c := by
  intro op hop
  simp only [exOps, List.mem_cons, List.not_mem_nil, or_false] at hop
  rcases hop with rfl | rfl | rfl | rfl | rfl | rfl | rfl | rfl | rfl | rfl | rfl | rfl <;>
    exact ⟨rfl, fun _ _ _ h => by cases h⟩

/-- `truncate`: the second session drops the first one -/
example : ((run World.empty ([.newField exInfo [1, 2], .newStore .truncate, .start 0 0,
    .append 0 0 (some 0) true, .append 0 0 (some 1) true, .start 0 0, .append 0 0 (some 3) true] : List (Op Rat))).view 0).map
    (·.contents) = some [(3, [1, 2])] := by decide +kernel

/-- the hypothesis `safe` of `frames_immutable` is needed: a storage built by `from_fields`
aliases the fields, so a later write to the field changes what the storage returns -/
example : ((run World.empty ([.newField exInfo [1, 2], .fromFields [0] [0] .append,
    .setField 0 [8, 8]] : List (Op Rat))).view 0).map (·.contents) = some [(0, [8, 8])] := by
  decide +kernel

/-- `extract_time_range` shares the frames of its source: a direct write into a frame of the
extracted storage is visible in the source (documented: "might return a view") -/
example : ((run World.empty ([.newField exInfo [1, 2], .newStore .truncateOnce, .start 0 0,
    .append 0 0 (some 0) true, .append 0 0 (some 1) true, .extractTimeRange 0 (.pair (some 1) (some 5)),
    .poke 1 0 [4, 4]] : List (Op Rat))).view 0).map (·.contents) = some [(0, [1, 2]), (1, [4, 4])] := by
  decide +kernel

/-- ... whereas `extract_field`, `copy` and `apply` hold their own copies -/
example : ((run World.empty ([.newField exColl [1, 2, 3, 4, 5, 6], .newStore .truncateOnce, .start 0 0,
    .append 0 0 (some 0) true, .extractField 0 (.name "v") none, .apply 0 (.scale 2) none true, .poke 1 0 [0, 0, 0, 0],
    .poke 2 0 [0, 0, 0, 0, 0, 0]] : List (Op Rat))).view 0).map (·.contents) =
    some [(0, [1, 2, 3, 4, 5, 6])] := by decide +kernel

example : ((run World.empty ([.newField exColl [1, 2, 3, 4, 5, 6], .newStore .truncateOnce, .start 0 0,
    .append 0 0 (some 0) true, .extractField 0 (.name "v") none, .apply 0 (.scale 2) none true] :
    List (Op Rat))).view 1).map (·.contents) = some [(0, [3, 4, 5, 6])] := by decide +kernel

example : ((run World.empty ([.newField exColl [1, 2, 3, 4, 5, 6], .newStore .truncateOnce, .start 0 0,
    .append 0 0 (some 0) true, .extractField 0 (.name "v") none, .apply 0 (.scale 2) none true] :
    List (Op Rat))).view 2).map (·.contents) = some [(0, [2, 4, 6, 8, 10, 12])] := by decide +kernel

/-- readonly as a history (code after fd5b417): the storage is set to `readonly` after a session;
`start_writing` AND `append` are rejected with `RuntimeError`, nothing is added -/
example : (step (run World.empty ([.newField exInfo [1, 2], .newStore .truncateOnce, .start 0 0,
    .append 0 0 (some 0) true, .setMode 0 .readonly] : List (Op Rat))) (.start 0 0)).2.toOption.isNone
    = true ∧
    (step (run World.empty ([.newField exInfo [1, 2], .newStore .truncateOnce, .start 0 0,
    .append 0 0 (some 0) true, .setMode 0 .readonly] : List (Op Rat))) (.append 0 0 (some 1) true)).2.toOption.isNone
    = true ∧
    ((run World.empty ([.newField exInfo [1, 2], .newStore .truncateOnce, .start 0 0,
    .append 0 0 (some 0) true, .setMode 0 .readonly, .append 0 0 (some 1) true, .start 0 0,
    .append 0 0 none true] : List (Op Rat))).view 0).map
    (·.contents) = some [(0, [1, 2])] := by decide +kernel

/-- the dtype rule: data numpy cannot cast to the dtype of the storage is rejected (`TypeError`)
once a session has set the dtype; before any session (`_dtype is None`) the rule is not consulted
and the missing data shape decides -/
example : ((run World.empty ([.newField exInfo [1, 2], .newStore .truncateOnce, .start 0 0,
    .append 0 0 (some 0) false, .append 0 0 (some 1) true] : List (Op Rat))).view 0).map
    (·.contents) = some [(1, [1, 2])] := by decide +kernel

/-- searchsorted on sorted times with ties, and on an unsorted list (value of numpy 2.5.3) -/
example : (bisectLeft ([0, 1, 1, 2, 5] : List Rat) 1, bisectRight ([0, 1, 1, 2, 5] : List Rat) 1) = (1, 3) := by
  decide +kernel
example : (bisectLeft ([1/2, 5/2, -1/2, 1/2, 1/2, -5/2, -3] : List Rat) (1/2),
    bisectRight ([1/2, 5/2, -1/2, 1/2, 1/2, -5/2, -3] : List Rat) (1/2)) = (3, 7) := by decide +kernel

example : ([0, 1, 1, 2, 5] : List Rat).Pairwise (· ≤ ·) := by decide +kernel

/-- `from_collection` of a scalar and a vector time series with the same times: the frames are
the concatenated member data, the template is a collection with the members' labels -/
example : ((run World.empty ([.newField exInfo [1, 2], .newField ⟨0, 2, [1, 2], 1, some "w", []⟩ [7, 8],
    .newStore .truncateOnce, .newStore .append, .start 0 0, .start 1 1, .append 0 0 (some 0) true,
    .append 1 1 (some 0) true, .setField 0 [3, 4], .append 0 0 (some 2) true, .append 1 1 (some 2) true,
    .fromCollection [0, 1, 0] (some "L") (1/100000) (1/100000000)] : List (Op Rat))).view 2).map
    (fun s => (s.contents, s.template.map (fun t => (t.shape, t.members.map (·.label))))) =
    some ([(0, [1, 2, 7, 8, 1, 2]), (2, [3, 4, 7, 8, 3, 4])],
      some ([3, 2], [some "a", some "w", some "a"])) := by decide +kernel

/-- the hypotheses of `valid_session_accepted`/`valid_history_stored` are satisfiable: two valid sessions
(the second one appends a field with another label on the same grid) on a `truncate_once` storage ... -/
example : ValidSession (K := Rat) (F := List Rat) [2] exInfo [(exInfo, 0, [1, 2]), ({ exInfo with label := none }, 1/2, [3, 4])] :=
  ⟨rfl, by simp [exInfo]⟩

example : Mode.writable .truncateOnce := Or.inr (Or.inl rfl)

/-- ... and what `valid_history_stored` then says, computed: nothing is refused (the specification run on its
own gives the stored pairs), the second session does not truncate -/
example : (srun (Store.new .truncateOnce : Store Rat (List Rat))
      (sessionOps exInfo [(exInfo, 0, [1, 2]), ({ exInfo with label := none }, 1/2, [3, 4])] ++
       sessionOps exInfo [(exInfo, 1, [5, 6])])).contents =
    ((Spec.init .truncateOnce : Spec Rat (List Rat)).run
      (sessionOps exInfo [(exInfo, 0, [1, 2]), ({ exInfo with label := none }, 1/2, [3, 4])] ++
       sessionOps exInfo [(exInfo, 1, [5, 6])])).log ∧
    ((Spec.init .truncateOnce : Spec Rat (List Rat)).run
      (sessionOps exInfo [(exInfo, 0, [1, 2]), ({ exInfo with label := none }, 1/2, [3, 4])] ++
       sessionOps exInfo [(exInfo, 1, [5, 6])])).log = [(0, [1, 2]), (1/2, [3, 4]), (1, [5, 6])] := by
  decide +kernel

/-- an INVALID session (wrong data shape) is refused: the hypothesis `ValidSession` is needed -/
example : (sstep (srun (Store.new .truncateOnce : Store Rat (List Rat)) [.start exInfo])
    (.append { exInfo with shape := [3] } (some 0) [1, 2, 3] true)).2 = some .value := by decide +kernel

/-- `world_read_returns_appended` on a concrete history (hypotheses `inv_empty`, `allwf_empty`, all
operations safe): the read returns the data the source had when it was appended, not its later content -/
example : ∀ op ∈ ([.newField exInfo [1, 2], .start 0 0, .append 0 0 (some 0) true, .setField 0 [7, 8],
    .read 0 0, .setField 1 [9, 9]] : List (Op Rat)), op.safe = true := by decide +kernel

example : (match (step (run (step (World.empty : World Rat) (.newStore .truncateOnce)).1
      [.newField exInfo [1, 2], .start 0 0, .append 0 0 (some 0) true, .setField 0 [7, 8], .read 0 0,
       .setField 1 [9, 9]]) (.read 0 (-1))).2 with
    | .ok (.field _ v) => v
    | _ => []) = [1, 2] := by decide +kernel

/-- `extract_time_range_consistent` on unsorted times: a contiguous run (here frames 2 and 3), not the
interval filter (which would also contain the pair with time 2) -/
example : (match extractTimeRange ({ (Store.new .append : Store Rat Nat) with
      times := [2, 0, 3, 1, 4], frames := [0, 1, 2, 3, 4] }) (.pair (some 1) (some 3)) with
    | .ok s' => s'.contents
    | .error _ => []) = [(3, 2), (1, 3)] := by decide +kernel

end examples

end store
end PdeVerif.Storage
