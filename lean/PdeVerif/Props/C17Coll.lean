import PdeVerif.Model.Mesh
import PdeVerif.Lemmas.Mesh
import PdeVerif.Lemmas.MeshNd
import PdeVerif.Props.C17
/-
C17, `GridMesh.extract_subfield` for fields and collections (`Mesh.subfield`, `Mesh.subcollection`):
the padded sub-field taken WITH ghost cells is the block of the base padded array (its ghost cells hold the neighbours'
data / the base ghost cells), the one taken WITHOUT defines exactly the interior and agrees there, and a collection is
split member by member with the same flag.
-/
namespace PdeVerif.Mesh.C17
open PdeVerif PdeVerif.Mesh

theorem vadd_pred_succ (s q : List Nat) (hq : allPos q = true) :
    (vadd s (q.map (· - 1))).map (· + 1) = vadd s q := by
  induction s generalizing q with
  | nil => cases q <;> simp [vadd]
  | cons a as ih =>
    cases q with
    | nil => simp [vadd]
    | cons b bs =>
      simp only [allPos, List.all_cons, Bool.and_eq_true, decide_eq_true_eq] at hq
      simp only [List.map_cons, vadd, List.cons.injEq]
      exact ⟨by omega, ih bs (by simpa [allPos] using hq.2)⟩

theorem interior_shape {α : Type} (m : Mesh) (full : Arr α) (hfull : full.shape = m.arrShape true) :
    full.interior.shape = m.arrShape false := by
  simp [Arr.interior, hfull, Mesh.arrShape, gadd, List.map_map, Function.comp_def]

/-- **with ghost cells**: every cell of the padded sub-field - ghost cells included - is defined and is the cell of the
base padded array at the shifted index (so a ghost cell at an inner cut holds the neighbour's data, one at the outer
boundary the base ghost cell) -/
theorem subfield_ghost_get {α : Type} (m : Mesh) (full : Arr α) (hfull : full.shape = m.arrShape true)
    {id : Nat} (hid : id < m.len) (q : List Nat) (hq : InRange q ((m.subShape id).map (· + 2))) :
    (m.subfield true full id).get? q = some (some (full.get (vadd (starts (m.box false id)) q))) := by
  have h := (get?_extract_ghost m full hfull hid q hq).1
  unfold Arr.get? at h ⊢
  simp only [Mesh.subfield, if_true, Arr.map] at h ⊢
  split at h
  · rename_i hin
    rw [if_pos hin]
    simp only [Option.some.injEq] at h ⊢
    exact h
  · cases h

/-- shapes: both modes give the padded shape of the sub-grid -/
theorem subfield_shape {α : Type} (m : Mesh) (ghost : Bool) (full : Arr α) (hfull : full.shape = m.arrShape true)
    {id : Nat} (hid : id < m.len) : (m.subfield ghost full id).shape = (m.subShape id).map (· + 2) := by
  cases ghost
  · simp only [Mesh.subfield, Bool.false_eq_true, if_false, Arr.padUndefined]
    rw [m.extract_shape false full.interior (interior_shape m full hfull) hid]
    simp [gadd, List.map_map, Function.comp_def]
  · simp only [Mesh.subfield, if_true, Arr.map]
    rw [m.extract_shape true full hfull hid]; simp [gadd]

/-- **without ghost cells**: an interior cell of the padded sub-field is the same cell of the base padded array ... -/
theorem subfield_valid_interior {α : Type} (m : Mesh) (full : Arr α) (hfull : full.shape = m.arrShape true)
    {id : Nat} (hid : id < m.len) (q : List Nat) (hpos : allPos q = true)
    (hq : InRange (q.map (· - 1)) (m.subShape id)) :
    (m.subfield false full id).get q = some (full.get (vadd (starts (m.box false id)) q)) := by
  have hsh := m.extract_shape false full.interior (interior_shape m full hfull) hid
  simp only [Mesh.subfield, Bool.false_eq_true, if_false, Arr.padUndefined]
  have hin : inShape (q.map (· - 1)) (m.extract false full.interior id).shape = true := by
    rw [hsh]; simpa [gadd] using hq
  rw [hpos, hin]
  simp only [Bool.and_self, if_true, Option.some.injEq]
  simp only [Mesh.extract, Arr.slice, Arr.interior]
  rw [vadd_pred_succ _ q hpos]

/-- ... and every other cell (the ghost layer) is undefined: nothing may be read from it -/
theorem subfield_valid_ghost_undefined {α : Type} (m : Mesh) (full : Arr α) (hfull : full.shape = m.arrShape true)
    {id : Nat} (hid : id < m.len) (q : List Nat)
    (hq : ¬ (allPos q = true ∧ InRange (q.map (· - 1)) (m.subShape id))) :
    (m.subfield false full id).get q = none := by
  have hsh := m.extract_shape false full.interior (interior_shape m full hfull) hid
  simp only [Mesh.subfield, Bool.false_eq_true, if_false, Arr.padUndefined]
  rw [hsh]
  have : (allPos q && inShape (q.map (· - 1)) ((m.subShape id).map (· + gadd false))) = false := by
    rw [Bool.eq_false_iff]; intro h
    simp only [Bool.and_eq_true] at h
    exact hq ⟨h.1, by simpa [gadd] using h.2⟩
  rw [this]; simp

/-- the two extraction modes agree on the valid data -/
theorem subfield_modes_agree {α : Type} (m : Mesh) (full : Arr α) (hfull : full.shape = m.arrShape true)
    {id : Nat} (hid : id < m.len) (q : List Nat) (hpos : allPos q = true)
    (hq : InRange (q.map (· - 1)) (m.subShape id)) (hq2 : InRange q ((m.subShape id).map (· + 2))) :
    (m.subfield false full id).get q = (m.subfield true full id).get q := by
  rw [subfield_valid_interior m full hfull hid q hpos hq]
  have h := subfield_ghost_get m full hfull hid q hq2
  unfold Arr.get? at h
  split at h
  · simpa using h.symm
  · cases h

/-- **collections**: member `k`, component `c` of the sub-collection is the sub-field of that component of that member,
taken with the SAME ghost-cell flag -/
theorem subcollection_member {α : Type} (m : Mesh) (ghost : Bool) (members : List (List (Arr α))) (id k c : Nat) :
    ((m.subcollection ghost members id)[k]?.bind (·[c]?)) =
      ((members[k]?.bind (·[c]?)).map (fun a => m.subfield ghost a id)) := by
  simp only [Mesh.subcollection, Mesh.subfieldComps, List.getElem?_map]
  cases members[k]? with
  | none => rfl
  | some comps => simp [List.getElem?_map]

theorem subcollection_length {α : Type} (m : Mesh) (ghost : Bool) (members : List (List (Arr α))) (id : Nat) :
    (m.subcollection ghost members id).map List.length = members.map List.length := by
  simp [Mesh.subcollection, Mesh.subfieldComps, List.map_map, Function.comp_def]

/-- the clause for collections in one statement: every cell, ghost cells included, of every component of every member of a
sub-collection extracted with ghost cells is the corresponding cell of that component's base padded array -/
theorem subcollection_ghost_get {α : Type} (m : Mesh) (members : List (List (Arr α))) {id : Nat} (hid : id < m.len)
    (k c : Nat) (a : Arr α) (ha : members[k]?.bind (·[c]?) = some a) (hfull : a.shape = m.arrShape true)
    (q : List Nat) (hq : InRange q ((m.subShape id).map (· + 2))) :
    ∃ s, (m.subcollection true members id)[k]?.bind (·[c]?) = some s ∧
      s.get? q = some (some (a.get (vadd (starts (m.box false id)) q))) := by
  refine ⟨m.subfield true a id, ?_, subfield_ghost_get m a hfull hid q hq⟩
  rw [subcollection_member, ha]; rfl

end PdeVerif.Mesh.C17
