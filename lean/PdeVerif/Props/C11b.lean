import PdeVerif.Props.C11
import Mathlib.Algebra.Polynomial.Derivative
import Mathlib.Algebra.Polynomial.Eval.Defs
import Mathlib.Tactic.Ring
import Mathlib.Tactic.FieldSimp
/-
C11 (second file) - theorem gaps closed after the first rounds:

* C11.3 the symbolic derivative `diff` as an ALGEBRAIC identity (no analysis, every field):
  `diff_dual` (dual numbers `K[ε]/(ε²)`: evaluating at `x + ε` gives value + diff·ε on the whole
  rational fragment), `toPoly_eval`, `diff_eq_polynomial_derivative` (`Polynomial.derivative`).
* C11.2 `checkSignature_iff` and the rejection theorems: exactly the malformed calls are rejected.
* C11.1 `withUser_inline`: the value of an expression with user functions is the value of the
  formula with the bodies substituted for the calls.
* C11.4 indexed symbols through the calling convention.

`diff`, `checkSignature`, `exprFunction`, `withUser` are the definitions of Model/Expr.lean that
the driver (Drv/C11.lean) runs against the real code on every check.
-/
set_option linter.unusedSectionVars false
namespace PdeVerif.Ex
open PdeVerif

/-! ### C11.3 the symbolic derivative as an algebraic identity: dual numbers -/

/-- dual numbers `K[ε]/(ε²)`: value and first-order part -/
structure Dual (K : Type) where
  re : K
  eps : K

namespace Dual
variable {K : Type} [Add K] [Sub K] [Mul K] [Div K] [Neg K] [NatCast K] [IntCast K]
instance : Add (Dual K) := ⟨fun a b => ⟨a.re + b.re, a.eps + b.eps⟩⟩
instance : Sub (Dual K) := ⟨fun a b => ⟨a.re - b.re, a.eps - b.eps⟩⟩
instance : Neg (Dual K) := ⟨fun a => ⟨- a.re, - a.eps⟩⟩
instance : Mul (Dual K) := ⟨fun a b => ⟨a.re * b.re, a.eps * b.re + a.re * b.eps⟩⟩
instance : Div (Dual K) :=
  ⟨fun a b => ⟨a.re / b.re, (a.eps * b.re - a.re * b.eps) / (b.re * b.re)⟩⟩
instance : NatCast (Dual K) := ⟨fun n => ⟨(n : K), ((0 : Nat) : K)⟩⟩
instance : IntCast (Dual K) := ⟨fun n => ⟨(n : K), ((0 : Nat) : K)⟩⟩
end Dual

section dual
variable {K : Type} [Field K]

/-- the environment in which `x` is the dual number `x + ε` and every other symbol a constant -/
def dualEnv (x : String) (env : Env K) : Env (Dual K) where
  sc := fun y => ⟨env.sc y, if y = x then 1 else 0⟩
  ix := fun y i => ⟨env.ix y i, 0⟩

/-- constants of the table as dual constants (function names are outside the fragment) -/
def dualTab (T : FunTab K) : FunTab (Dual K) where
  f0 := fun c => ⟨T.f0 c, 0⟩
  f1 := fun f a => ⟨T.f1 f a.re, 0⟩
  f2 := fun f a b => ⟨T.f2 f a.re b.re, 0⟩
  heav := fun a h => ⟨T.heav a.re h.re, 0⟩
  cmp := fun op a b => ⟨T.cmp op a.re b.re, 0⟩

/-- the rational fragment proper: field operations and integer powers of symbols, literals and
named constants -/
def ratFrag : Expr → Bool
  | .num _ => true
  | .var _ => true
  | .idx _ _ => true
  | .named _ => true
  | .neg a => ratFrag a
  | .add a b => ratFrag a && ratFrag b
  | .sub a b => ratFrag a && ratFrag b
  | .mul a b => ratFrag a && ratFrag b
  | .div a b => ratFrag a && ratFrag b
  | .powI a _ => ratFrag a
  | _ => false

@[simp] theorem Dual.add_def (a b : Dual K) : a + b = ⟨a.re + b.re, a.eps + b.eps⟩ := rfl
@[simp] theorem Dual.sub_def (a b : Dual K) : a - b = ⟨a.re - b.re, a.eps - b.eps⟩ := rfl
@[simp] theorem Dual.neg_def (a : Dual K) : - a = ⟨- a.re, - a.eps⟩ := rfl
@[simp] theorem Dual.mul_def (a b : Dual K) :
    a * b = ⟨a.re * b.re, a.eps * b.re + a.re * b.eps⟩ := rfl
@[simp] theorem Dual.div_def (a b : Dual K) :
    a / b = ⟨a.re / b.re, (a.eps * b.re - a.re * b.eps) / (b.re * b.re)⟩ := rfl
@[simp] theorem Dual.natCast_def (n : Nat) : ((n : Nat) : Dual K) = ⟨(n : K), 0⟩ := by
  show (⟨(n : K), ((0 : Nat) : K)⟩ : Dual K) = _
  simp
@[simp] theorem Dual.intCast_def (n : Int) : ((n : Int) : Dual K) = ⟨(n : K), 0⟩ := by
  show (⟨(n : K), ((0 : Nat) : K)⟩ : Dual K) = _
  simp

theorem Dual.ofRat_eq (q : Rat) : (ofRat q : Dual K) = ⟨(q : K), 0⟩ := by
  unfold ofRat
  simp [Rat.cast_def]

theorem Dual.npow_eq (a : Dual K) (k : Nat) :
    npow a k = ⟨a.re ^ k, (k : K) * a.re ^ (k - 1) * a.eps⟩ := by
  induction k with
  | zero => simp [npow, one]
  | succ k ih =>
    rw [npow, ih]
    cases k with
    | zero => simp
    | succ j =>
      simp only [Dual.mul_def, Nat.add_sub_cancel]
      congr 1
      · ring
      · push_cast; ring

theorem Dual.powInt_eq (a : Dual K) (n : Int) :
    powInt a n = ⟨a.re ^ n, (n : K) * a.re ^ (n - 1) * a.eps⟩ := by
  cases n with
  | ofNat k =>
    simp only [powInt, Dual.npow_eq, Int.ofNat_eq_natCast, zpow_natCast, Int.cast_natCast]
    cases k with
    | zero => simp
    | succ j =>
      have : ((j + 1 : Nat) : Int) - 1 = (j : Int) := by push_cast; ring
      rw [this]; simp
  | negSucc k =>
    simp only [powInt, Dual.npow_eq, one, Dual.natCast_def, Dual.div_def, Nat.add_sub_cancel]
    by_cases ha : a.re = 0
    · simp [ha, zero_zpow _ (Int.negSucc_ne_zero k)]
    · congr 1
      · simp [zpow_negSucc]
      · have h2 : Int.negSucc k - 1 = -((k + 2 : Nat) : Int) := by
          rw [Int.negSucc_eq]; push_cast; ring
        rw [h2, zpow_neg, zpow_natCast, Int.negSucc_eq]
        push_cast
        field_simp
        ring

/-- **diff_dual**: on the rational fragment the model's symbolic derivative IS the formal
derivative: evaluating `e` at the dual number `x + ε` (all other symbols constants) gives
`value + (value of diff x e)·ε` - an identity in every field (division by zero reads 0 on both
sides, as in `eval`), no analysis involved -/
theorem diff_dual (T : FunTab K) (x : String) (env : Env K) (e : Expr) (h : ratFrag e = true) :
    eval (dualTab T) (dualEnv x env) e = ⟨eval T env e, eval T env (diff x e)⟩ := by
  induction e with
  | num q => simp [eval, diff, Dual.ofRat_eq]
  | var y => by_cases hy : y = x <;> simp [eval, diff, dualEnv, hy]
  | idx y i => simp [eval, diff, dualEnv]
  | named c => simp [eval, diff, dualTab]
  | neg a iha => simp [ratFrag] at h; simp [eval, diff, iha h]
  | add a b iha ihb | sub a b iha ihb =>
    simp [ratFrag] at h; simp [eval, diff, iha h.1, ihb h.2]
  | mul a b iha ihb =>
    simp [ratFrag] at h; simp [eval, diff, iha h.1, ihb h.2]
  | div a b iha ihb =>
    simp [ratFrag] at h; simp [eval, diff, iha h.1, ihb h.2, zpow_ofNat, pow_two]
  | powI a n iha =>
    simp [ratFrag] at h
    simp [eval, diff, iha h, Dual.powInt_eq]
  | _ => simp [ratFrag] at h


/-- x + ε through `(x^2 + 1)/x` at x = 2 in ℚ: value 5/2, derivative 1 - 1/x² = 3/4 -/
example : eval (dualTab (algTab : FunTab ℚ)) (dualEnv "x" (bindEnv ["x"] [Val.sc 2] defaultEnv))
    (.div (.add (.powI (.var "x") 2) (.num 1)) (.var "x")) = ⟨5/2, 3/4⟩ := by
  rw [diff_dual _ _ _ _ (by simp [ratFrag])]
  simp [eval, diff, bindEnv, Env.bind1, Val.toSc]
  norm_num

/-! #### the polynomial fragment: `diff` is `Polynomial.derivative` -/

/-- polynomial fragment in the symbols: ring operations and powers with a literal exponent ≥ 0 -/
def polyFrag : Expr → Bool
  | .num _ => true
  | .var _ => true
  | .idx _ _ => true
  | .named _ => true
  | .neg a => polyFrag a
  | .add a b => polyFrag a && polyFrag b
  | .sub a b => polyFrag a && polyFrag b
  | .mul a b => polyFrag a && polyFrag b
  | .powI a n => polyFrag a && decide (0 ≤ n)
  | _ => false

open Polynomial in
/-- the polynomial in `x` an expression of the polynomial fragment denotes (all other symbols
are coefficients read from the environment) -/
noncomputable def toPoly (T : FunTab K) (x : String) (env : Env K) : Expr → Polynomial K
  | .num q => C (q : K)
  | .var y => if y = x then X else C (env.sc y)
  | .idx y i => C (env.ix y i)
  | .named c => C (T.f0 c)
  | .neg a => - toPoly T x env a
  | .add a b => toPoly T x env a + toPoly T x env b
  | .sub a b => toPoly T x env a - toPoly T x env b
  | .mul a b => toPoly T x env a * toPoly T x env b
  | .powI a n => toPoly T x env a ^ n.toNat
  | _ => 0

/-- the polynomial denoted by `e`, evaluated at `v`, is the value of `e` with `x` bound to `v` -/
theorem toPoly_eval (T : FunTab K) (x : String) (env : Env K) (v : K) (e : Expr)
    (h : polyFrag e = true) :
    (toPoly T x env e).eval v = eval T (env.set x v) e := by
  induction e with
  | num q => simp [toPoly, eval]
  | var y => by_cases hy : y = x <;> simp [toPoly, eval, Env.set, hy]
  | idx y i => simp [toPoly, eval, Env.set]
  | named c => simp [toPoly, eval]
  | neg a iha => simp [polyFrag] at h; simp [toPoly, eval, iha h]
  | add a b iha ihb | sub a b iha ihb | mul a b iha ihb =>
    simp [polyFrag] at h; simp [toPoly, eval, iha h.1, ihb h.2]
  | powI a n iha =>
    simp [polyFrag] at h
    obtain ⟨k, rfl⟩ := Int.eq_ofNat_of_zero_le h.2
    simp [toPoly, eval, iha h.1]
  | _ => simp [polyFrag] at h

theorem Env.set_self' (env : Env K) (x : String) : env.set x (env.sc x) = env := by
  cases env with
  | mk sc ix =>
    simp only [Env.set, Env.mk.injEq, and_true]
    funext y; by_cases hy : y = x <;> simp [hy]

/-- **diff_eq_polynomial_derivative**: on the polynomial fragment the value of the model's
symbolic derivative is Mathlib's formal derivative `Polynomial.derivative` of the polynomial the
expression denotes, evaluated at the point - in every field, any characteristic -/
theorem diff_eq_polynomial_derivative (T : FunTab K) (x : String) (env : Env K) (e : Expr)
    (h : polyFrag e = true) :
    eval T env (diff x e) = (Polynomial.derivative (toPoly T x env e)).eval (env.sc x) := by
  induction e with
  | num q => simp [toPoly, eval, diff]
  | var y => by_cases hy : y = x <;> simp [toPoly, eval, diff, hy]
  | idx y i => simp [toPoly, eval, diff]
  | named c => simp [toPoly, eval, diff]
  | neg a iha => simp [polyFrag] at h; simp [toPoly, eval, diff, iha h]
  | add a b iha ihb | sub a b iha ihb =>
    simp [polyFrag] at h; simp [toPoly, eval, diff, iha h.1, ihb h.2]
  | mul a b iha ihb =>
    simp [polyFrag] at h
    have ea := toPoly_eval T x env (env.sc x) a h.1
    have eb := toPoly_eval T x env (env.sc x) b h.2
    rw [Env.set_self'] at ea eb
    simp [toPoly, eval, diff, iha h.1, ihb h.2, ea, eb]
  | powI a n iha =>
    simp [polyFrag] at h
    obtain ⟨k, rfl⟩ := Int.eq_ofNat_of_zero_le h.2
    have ea := toPoly_eval T x env (env.sc x) a h.1
    rw [Env.set_self'] at ea
    cases k with
    | zero => simp [toPoly, eval, diff]
    | succ j =>
      have : ((j + 1 : Nat) : Int) - 1 = (j : Int) := by push_cast; ring
      have hn : (ofRat ((((j + 1 : Nat) : Int)) : ℚ) : K) = (j : K) + 1 := by
        rw [ofRat_eq', Rat.cast_intCast]; push_cast; ring
      simp only [toPoly, eval, diff, iha h.1, hn, this, Polynomial.derivative_pow]
      simp [ea]
  | _ => simp [polyFrag] at h

/-- d/dx (3x² - c·x) with c = 5 at x = 2 is 6·2 - 5 = 7, read off the formal derivative -/
example : (Polynomial.derivative (toPoly (algTab : FunTab ℚ) "x"
      (bindEnv ["x", "c"] [Val.sc 2, Val.sc 5] defaultEnv)
      (.sub (.mul (.num 3) (.powI (.var "x") 2)) (.mul (.var "c") (.var "x"))))).eval 2 = 7 := by
  have h := diff_eq_polynomial_derivative (algTab : FunTab ℚ) "x"
    (bindEnv ["x", "c"] [Val.sc 2, Val.sc 5] defaultEnv)
    (.sub (.mul (.num 3) (.powI (.var "x") 2)) (.mul (.var "c") (.var "x"))) (by simp [polyFrag])
  have e2 : (bindEnv ["x", "c"] [Val.sc (2:ℚ), Val.sc 5] defaultEnv).sc "x" = 2 := by
    simp [bindEnv, Env.bind1, Val.toSc]
  rw [e2] at h
  rw [← h]
  simp [eval, diff, bindEnv, Env.bind1, Val.toSc]
  norm_num

end dual
/-! ### C11.2 `_check_signature`: exactly the malformed calls are rejected -/

/-- after `eraseDups`, a predicate selects at most one element iff all elements of the list that
satisfy it are equal -/
theorem eraseDups_filter_le_one_iff (l : List String) (p : String → Bool) :
    ((l.eraseDups).filter p).length ≤ 1 ↔
      ∀ s ∈ l, ∀ t ∈ l, p s = true → p t = true → s = t := by
  constructor
  · intro h s hs t ht hps hpt
    have hs' : s ∈ (l.eraseDups).filter p :=
      List.mem_filter.mpr ⟨mem_eraseDups_of_mem _ _ s (Nat.le_refl _) hs, hps⟩
    have ht' : t ∈ (l.eraseDups).filter p :=
      List.mem_filter.mpr ⟨mem_eraseDups_of_mem _ _ t (Nat.le_refl _) ht, hpt⟩
    generalize (l.eraseDups).filter p = m at h hs' ht'
    match m, h, hs', ht' with
    | [a], _, hs', ht' =>
      rw [List.mem_singleton] at hs' ht'
      rw [hs', ht']
  · intro h
    have hcongr : (l.eraseDups).filter p = (l.eraseDups).filter (fun s => p s && l.contains s) := by
      apply List.filter_congr
      intro s hs
      have := mem_of_mem_eraseDups _ _ s (Nat.le_refl _) hs
      simp [this]
    rw [hcongr]
    by_cases hex : ∃ v ∈ l, p v = true
    · obtain ⟨v, hv, hpv⟩ := hex
      apply eraseDups_filter_le_one _ l _ v _ (Nat.le_refl _)
      intro s hs
      simp only [Bool.and_eq_true, List.contains_eq_mem, decide_eq_true_eq] at hs
      exact h s hs.2 v hv hs.1 hpv
    · have : (l.eraseDups).filter (fun s => p s && l.contains s) = [] := by
        rw [List.filter_eq_nil_iff]
        intro s _ hps
        simp only [Bool.and_eq_true, List.contains_eq_mem, decide_eq_true_eq] at hps
        exact hex ⟨s, hps.2, hps.1⟩
      rw [this]; simp

/-- a well-formed call: every symbol of the formula (after the alias replacement `repl`) is a
constant or one of the names of a signature entry, and no signature entry is referred to by two
different non-constant names -/
def WellFormed (sig : List (List String)) (cnames : List String) (repl : List (String × String))
    (e : Expr) : Prop :=
  (∀ s ∈ symbols (rename (replFn repl) e), s ∈ cnames ∨ ∃ l ∈ sig, s ∈ l) ∧
  (∀ l ∈ sig, ∀ s ∈ symbols (rename (replFn repl) e), ∀ t ∈ symbols (rename (replFn repl) e),
      s ∈ l → t ∈ l → s ∉ cnames → t ∉ cnames → s = t)

/-- **checkSignature_iff**: `_check_signature` accepts EXACTLY the well-formed calls -/
theorem checkSignature_iff (sig : List (List String)) (cnames : List String)
    (repl : List (String × String)) (e : Expr) :
    checkSignature sig cnames repl e = true ↔ WellFormed sig cnames repl e := by
  unfold checkSignature WellFormed
  simp only [Bool.and_eq_true, List.all_eq_true, decide_eq_true_eq, eraseDups_filter_le_one_iff]
  constructor
  · rintro ⟨h1, h2⟩
    refine ⟨?_, ?_⟩
    · intro s hs
      have := h1 s (mem_eraseDups_of_mem _ _ s (Nat.le_refl _) hs)
      simpa using this
    · intro l hl s hs t ht hsl htl hsc htc
      exact h2 l hl s hs t ht (by simp [hsl, hsc]) (by simp [htl, htc])
  · rintro ⟨h1, h2⟩
    refine ⟨?_, ?_⟩
    · intro s hs
      have := h1 s (mem_of_mem_eraseDups _ _ s (Nat.le_refl _) hs)
      simpa using this
    · intro l hl s hs t ht hps hpt
      simp only [List.contains_eq_mem, decide_eq_true_eq, Bool.not_eq_true',
        decide_eq_false_iff_not] at hps hpt
      exact h2 l hl s hs t ht hps.1 hpt.1 hps.2 hpt.2

/-- rejection, kind 1: a symbol that is neither a constant nor any name of the signature -/
theorem checkSignature_rejects_undeclared (sig : List (List String)) (cnames : List String)
    (repl : List (String × String)) (e : Expr) (s : String)
    (hs : s ∈ symbols (rename (replFn repl) e)) (hc : s ∉ cnames) (hl : ∀ l ∈ sig, s ∉ l) :
    checkSignature sig cnames repl e = false := by
  rw [Bool.eq_false_iff]
  intro h
  rcases ((checkSignature_iff sig cnames repl e).mp h).1 s hs with h1 | ⟨l, hl1, hl2⟩
  · exact hc h1
  · exact hl l hl1 hl2

/-- rejection, kind 2: one signature entry used under two of its names -/
theorem checkSignature_rejects_two_names (sig : List (List String)) (cnames : List String)
    (repl : List (String × String)) (e : Expr) (l : List String) (s t : String) (hl : l ∈ sig)
    (hs : s ∈ symbols (rename (replFn repl) e)) (ht : t ∈ symbols (rename (replFn repl) e))
    (hsl : s ∈ l) (htl : t ∈ l) (hsc : s ∉ cnames) (htc : t ∉ cnames) (hne : s ≠ t) :
    checkSignature sig cnames repl e = false := by
  rw [Bool.eq_false_iff]
  intro h
  exact hne (((checkSignature_iff sig cnames repl e).mp h).2 l hl s hs t ht hsl htl hsc htc)

/-- the generated function refuses a call iff the formula is malformed for the signature or the
number of arguments is not the number of signature entries - and for nothing else -/
theorem exprFunction_none_iff {K : Type} [Field K] (T : FunTab K) (sig : List (List String))
    (consts : List (String × Val K)) (repl : List (String × String)) (e : Expr)
    (args : List (Val K)) :
    exprFunction T sig consts repl e args = none ↔
      ¬ WellFormed sig (consts.map Prod.fst) repl e ∨ args.length ≠ sig.length := by
  unfold exprFunction
  rw [← checkSignature_iff]
  by_cases h1 : checkSignature sig (consts.map Prod.fst) repl e = true <;>
    by_cases h2 : args.length = sig.length <;> simp [h1, h2]

/-- `x + why` with the signature `[[x], [y, why]]` is accepted, ... -/
example : checkSignature [["x"], ["y", "why"]] [] [] (.add (.var "x") (.var "why")) = true := by
  decide
/-- ... `y + why` (two names of one entry) and `x + q` (undeclared `q`) are rejected, by the two
rejection theorems -/
example : checkSignature [["x"], ["y", "why"]] [] [] (.add (.var "y") (.var "why")) = false :=
  checkSignature_rejects_two_names _ _ _ _ ["y", "why"] "y" "why" (by simp)
    (by simp [symbols, rename, replFn]) (by simp [symbols, rename, replFn]) (by simp) (by simp)
    (by simp) (by simp) (by decide)
example : checkSignature [["x"], ["y", "why"]] ["a"] [] (.add (.var "x") (.var "q")) = false :=
  checkSignature_rejects_undeclared _ _ _ _ "q" (by simp [symbols, rename, replFn]) (by simp)
    (by simp)

/-! ### C11.1 user functions: the value is the formula with the bodies substituted -/

/-- simultaneous substitution of expressions for scalar symbols (first entry wins) -/
def substs (σ : List (String × Expr)) : Expr → Expr
  | .num q => .num q
  | .var y => match σ.lookup y with
    | some r => r
    | none => .var y
  | .idx y i => .idx y i
  | .named c => .named c
  | .neg a => .neg (substs σ a)
  | .add a b => .add (substs σ a) (substs σ b)
  | .sub a b => .sub (substs σ a) (substs σ b)
  | .mul a b => .mul (substs σ a) (substs σ b)
  | .div a b => .div (substs σ a) (substs σ b)
  | .powI a n => .powI (substs σ a) n
  | .call1 f a => .call1 f (substs σ a)
  | .call2 f a b => .call2 f (substs σ a) (substs σ b)
  | .heav1 a => .heav1 (substs σ a)
  | .heav2 a h => .heav2 (substs σ a) (substs σ h)
  | .cmp op a b => .cmp op (substs σ a) (substs σ b)

/-- no indexed symbol occurs -/
def noIdx : Expr → Bool
  | .num _ => true
  | .var _ => true
  | .idx _ _ => false
  | .named _ => true
  | .neg a => noIdx a
  | .add a b => noIdx a && noIdx b
  | .sub a b => noIdx a && noIdx b
  | .mul a b => noIdx a && noIdx b
  | .div a b => noIdx a && noIdx b
  | .powI a _ => noIdx a
  | .call1 _ a => noIdx a
  | .call2 _ a b => noIdx a && noIdx b
  | .heav1 a => noIdx a
  | .heav2 a h => noIdx a && noIdx h
  | .cmp _ a b => noIdx a && noIdx b

/-- the body of a user function mentions only its parameters (as scalars) -/
def UDef.closed (d : UDef) : Bool :=
  noIdx d.body && (symbols d.body).all (fun s => d.params.contains s)

/-- replace every call of a user function by its body with the (inlined) arguments substituted
for the parameters -/
def inlineUser (defs : List UDef) : Expr → Expr
  | .num q => .num q
  | .var y => .var y
  | .idx y i => .idx y i
  | .named c => .named c
  | .neg a => .neg (inlineUser defs a)
  | .add a b => .add (inlineUser defs a) (inlineUser defs b)
  | .sub a b => .sub (inlineUser defs a) (inlineUser defs b)
  | .mul a b => .mul (inlineUser defs a) (inlineUser defs b)
  | .div a b => .div (inlineUser defs a) (inlineUser defs b)
  | .powI a n => .powI (inlineUser defs a) n
  | .call1 f a =>
    match defs.find? (fun d => d.name = f && d.params.length == 1) with
    | some d => substs (d.params.zip [inlineUser defs a]) d.body
    | none => .call1 f (inlineUser defs a)
  | .call2 f a b =>
    match defs.find? (fun d => d.name = f && d.params.length == 2) with
    | some d => substs (d.params.zip [inlineUser defs a, inlineUser defs b]) d.body
    | none => .call2 f (inlineUser defs a) (inlineUser defs b)
  | .heav1 a => .heav1 (inlineUser defs a)
  | .heav2 a h => .heav2 (inlineUser defs a) (inlineUser defs h)
  | .cmp op a b => .cmp op (inlineUser defs a) (inlineUser defs b)

section field
variable {K : Type} [Field K]

/-- simultaneous substitution = evaluating the substituted expressions first and binding the
symbols to their values -/
theorem eval_substs (T : FunTab K) (env : Env K) (σ : List (String × Expr)) (e : Expr) :
    eval T env (substs σ e) =
      eval T { env with sc := fun y => match σ.lookup y with
                                        | some r => eval T env r
                                        | none => env.sc y } e := by
  induction e with
  | var y =>
    simp only [substs, eval]
    cases σ.lookup y <;> simp [eval]
  | _ => simp_all [substs, eval]

/-- without indexed symbols the value depends only on the scalar readings of the symbols that
occur -/
theorem eval_congr_sc (T : FunTab K) (env env' : Env K) (e : Expr) (hi : noIdx e = true)
    (h : ∀ s ∈ symbols e, env.sc s = env'.sc s) : eval T env e = eval T env' e := by
  induction e with
  | num q => simp [eval]
  | var x => simpa [eval] using h x (by simp [symbols])
  | idx x i => simp [noIdx] at hi
  | named c => simp [eval]
  | neg a iha | powI a n iha | call1 f a iha | heav1 a iha =>
    simp only [noIdx] at hi
    simp [eval, iha hi (fun s hs => h s (by simpa [symbols] using hs))]
  | add a b iha ihb | sub a b iha ihb | mul a b iha ihb | div a b iha ihb
  | call2 f a b iha ihb | heav2 a b iha ihb | cmp op a b iha ihb =>
    simp only [noIdx, Bool.and_eq_true] at hi
    simp [eval, iha hi.1 (fun s hs => h s (by simp [symbols, hs])),
      ihb hi.2 (fun s hs => h s (by simp [symbols, hs]))]

/-- positional binding of parameters to the values of argument expressions reads, for a
parameter, the value of the expression that simultaneous substitution puts in its place -/
theorem bindEnv_sc_zip (T : FunTab K) (env : Env K) (ps : List String) (as : List Expr)
    (d : Env K) (s : String) (hs : s ∈ ps) (hlen : ps.length ≤ as.length) :
    (bindEnv ps (as.map (fun a => Val.sc (eval T env a))) d).sc s =
      match (ps.zip as).lookup s with
      | some r => eval T env r
      | none => env.sc s := by
  induction ps generalizing as with
  | nil => simp at hs
  | cons p ps ih =>
    cases as with
    | nil => simp at hlen
    | cons a as =>
      simp only [List.map_cons, bindEnv, Env.bind1, List.zip_cons_cons, List.lookup_cons]
      by_cases hsp : s = p
      · simp [hsp, Val.toSc]
      · have hs' : s ∈ ps := by
          rcases List.mem_cons.mp hs with h1 | h1
          · exact absurd h1 hsp
          · exact h1
        have hbeq : (s == p) = false := by simpa using hsp
        simp only [hsp, if_false, hbeq]
        exact ih as hs' (by simpa using hlen)

/-- the body of a closed user function, evaluated in the fresh environment of the call, has the
value of the body with the argument expressions substituted, evaluated at the call site -/
theorem eval_body_substs (T : FunTab K) (env : Env K) (d : UDef) (as : List Expr)
    (hc : d.closed = true) (hlen : d.params.length ≤ as.length) :
    eval T (bindEnv d.params (as.map (fun a => Val.sc (eval T env a))) defaultEnv) d.body =
      eval T env (substs (d.params.zip as) d.body) := by
  rw [eval_substs]
  simp only [UDef.closed, Bool.and_eq_true, List.all_eq_true, List.contains_eq_mem,
    decide_eq_true_eq] at hc
  apply eval_congr_sc _ _ _ _ hc.1
  intro s hs
  exact bindEnv_sc_zip T env d.params as defaultEnv s (hc.2 s hs) hlen

/-- **withUser_inline** (evaluation theorem for user functions): with closed bodies, the value of
an expression under the table extended by the user functions is the value, under the BASE table,
of the formula in which every call `f(a)` is replaced by the body of `f` with `a` substituted for
the parameter - nested calls and calls inside arguments included -/
theorem withUser_inline (T : FunTab K) (defs : List UDef) (hdefs : ∀ d ∈ defs, d.closed = true)
    (env : Env K) (e : Expr) :
    eval (withUser T defs) env e = eval T env (inlineUser defs e) := by
  induction e with
  | call1 f a iha =>
    simp only [eval, inlineUser, iha]
    simp only [withUser]
    cases hfind : defs.find? (fun d => d.name = f && d.params.length == 1) with
    | none => simp [eval]
    | some d =>
      have hd := List.find?_some hfind
      simp only [Bool.and_eq_true, beq_iff_eq, decide_eq_true_eq] at hd
      have := eval_body_substs T env d [inlineUser defs a]
        (hdefs d (List.mem_of_find?_eq_some hfind)) (by simp [hd.2])
      simpa using this
  | call2 f a b iha ihb =>
    simp only [eval, inlineUser, iha, ihb]
    simp only [withUser]
    cases hfind : defs.find? (fun d => d.name = f && d.params.length == 2) with
    | none => simp [eval]
    | some d =>
      have hd := List.find?_some hfind
      simp only [Bool.and_eq_true, beq_iff_eq, decide_eq_true_eq] at hd
      have := eval_body_substs T env d [inlineUser defs a, inlineUser defs b]
        (hdefs d (List.mem_of_find?_eq_some hfind)) (by simp [hd.2])
      simpa using this
  | _ => simp_all [eval, inlineUser, withUser]

/-- `f(x + 1) * g(f(y), 2)` with `f(u) = u²`, `g(u, v) = u - v` is `(x+1)² * (y² - 2)` -/
example : inlineUser [⟨"f", ["u"], .powI (.var "u") 2⟩, ⟨"g", ["u", "v"], .sub (.var "u") (.var "v")⟩]
    (.mul (.call1 "f" (.add (.var "x") (.num 1))) (.call2 "g" (.call1 "f" (.var "y")) (.num 2))) =
    .mul (.powI (.add (.var "x") (.num 1)) 2) (.sub (.powI (.var "y") 2) (.num 2)) := by
  decide

example : ∀ d ∈ [(⟨"f", ["u"], .powI (.var "u") 2⟩ : UDef),
    ⟨"g", ["u", "v"], .sub (.var "u") (.var "v")⟩], d.closed = true := by
  decide

end field
/-! ### C11.4 indexed symbols through the calling convention -/

/-- replace the indexed symbol `x[i]` by the expression `r` -/
def substIdx (x : String) (i : Nat) (r : Expr) : Expr → Expr
  | .num q => .num q
  | .var y => .var y
  | .idx y j => if y = x ∧ j = i then r else .idx y j
  | .named c => .named c
  | .neg a => .neg (substIdx x i r a)
  | .add a b => .add (substIdx x i r a) (substIdx x i r b)
  | .sub a b => .sub (substIdx x i r a) (substIdx x i r b)
  | .mul a b => .mul (substIdx x i r a) (substIdx x i r b)
  | .div a b => .div (substIdx x i r a) (substIdx x i r b)
  | .powI a n => .powI (substIdx x i r a) n
  | .call1 f a => .call1 f (substIdx x i r a)
  | .call2 f a b => .call2 f (substIdx x i r a) (substIdx x i r b)
  | .heav1 a => .heav1 (substIdx x i r a)
  | .heav2 a h => .heav2 (substIdx x i r a) (substIdx x i r h)
  | .cmp op a b => .cmp op (substIdx x i r a) (substIdx x i r b)

section field
variable {K : Type} [Field K]

/-- substitution lemma for indexed symbols: replacing `x[i]` by an expression is evaluating the
expression first and storing its value in entry `i` of the indexed reading of `x` -/
theorem eval_substIdx (T : FunTab K) (env : Env K) (x : String) (i : Nat) (r e : Expr) :
    eval T env (substIdx x i r e) =
      eval T { env with ix := fun y j => if y = x ∧ j = i then eval T env r else env.ix y j } e := by
  induction e with
  | idx y j =>
    by_cases h : y = x ∧ j = i <;> simp [substIdx, eval, h]
  | _ => simp_all [substIdx, eval]

/-- substituting for the SCALAR symbol `x` does not touch the indexed symbol `x[i]` (sympy:
`Symbol('x')` and `IndexedBase('x')[i]` are different atoms) -/
theorem eval_subst_idx (T : FunTab K) (env : Env K) (x y : String) (i : Nat) (r : Expr) :
    eval T env (subst x r (.idx y i)) = env.ix y i := by
  simp [subst, eval]

/-- positional binding, read at position `k`: the `k`-th name (at its first occurrence) denotes
the `k`-th value, in both readings -/
theorem bindEnv_get (ns : List String) (vs : List (Val K)) (d : Env K) (k : Nat) (n : String)
    (v : Val K) (hn : ns[k]? = some n) (hv : vs[k]? = some v)
    (hfirst : ∀ j < k, ns[j]? ≠ some n) :
    (bindEnv ns vs d).sc n = v.toSc ∧ (bindEnv ns vs d).ix n = v.at := by
  induction k generalizing ns vs with
  | zero =>
    cases ns with
    | nil => simp at hn
    | cons m ms =>
      cases vs with
      | nil => simp at hv
      | cons w ws =>
        simp only [List.getElem?_cons_zero, Option.some.injEq] at hn hv
        subst hn; subst hv
        simp [bindEnv, Env.bind1]
  | succ k ih =>
    cases ns with
    | nil => simp at hn
    | cons m ms =>
      cases vs with
      | nil => simp at hv
      | cons w ws =>
        simp only [List.getElem?_cons_succ] at hn hv
        have hm : n ≠ m := by
          intro h
          exact hfirst 0 (Nat.succ_pos k) (by simp [h])
        have := ih ms ws hn hv (fun j hj => by
          have := hfirst (j + 1) (Nat.succ_lt_succ hj)
          simpa using this)
        simp [bindEnv, Env.bind1, hm, this.1, this.2]

/-- **exprFunction_idx**: in an accepted call, the written indexed symbol `w[i]` whose definite
name is the `k`-th variable of the signature reads entry `i` of the array passed as the `k`-th
argument (the model's total reading: 0 beyond the end of the array) -/
theorem exprFunction_idx (T : FunTab K) (sig : List (List String))
    (consts : List (String × Val K)) (repl : List (String × String)) (w : String) (i k : Nat)
    (args : List (Val K)) (l : List K) (v : K)
    (h : exprFunction T sig consts repl (.idx w i) args = some v)
    (hn : (sigVars sig)[k]? = some (sigFn sig (replFn repl w)))
    (hfirst : ∀ j < k, (sigVars sig)[j]? ≠ some (sigFn sig (replFn repl w)))
    (harg : args[k]? = some (Val.vec l)) :
    v = l.getD i 0 := by
  unfold exprFunction at h
  split_ifs at h with hc
  simp only [Bool.and_eq_true, beq_iff_eq] at hc
  have hv := (Option.some.inj h).symm
  rw [hv]
  simp only [prepare, rename, eval, callEnv]
  have hk : k < (sigVars sig).length := by
    rcases Nat.lt_or_ge k (sigVars sig).length with h1 | h1
    · exact h1
    · rw [List.getElem?_eq_none h1] at hn; simp at hn
  have hk' : k < args.length := by
    rcases Nat.lt_or_ge k args.length with h1 | h1
    · exact h1
    · rw [List.getElem?_eq_none h1] at harg; simp at harg
  have := bindEnv_get (sigVars sig ++ consts.map Prod.fst) (args ++ consts.map Prod.snd)
    (defaultEnv : Env K) k (sigFn sig (replFn repl w)) (Val.vec l)
    (by rw [List.getElem?_append_left hk]; exact hn)
    (by rw [List.getElem?_append_left hk']; exact harg)
    (fun j hj => by
      rw [List.getElem?_append_left (Nat.lt_trans hj hk)]; exact hfirst j hj)
  rw [this.2]
  simp [Val.at]

/-- ... and for an index inside the array that is the entry itself (py-pde raises IndexError
beyond the end; the model's total reading 0 there is never compared: the generator draws indices
inside the array) -/
theorem exprFunction_idx_in_range (T : FunTab K) (sig : List (List String))
    (consts : List (String × Val K)) (repl : List (String × String)) (w : String) (i k : Nat)
    (args : List (Val K)) (l : List K) (v : K)
    (h : exprFunction T sig consts repl (.idx w i) args = some v)
    (hn : (sigVars sig)[k]? = some (sigFn sig (replFn repl w)))
    (hfirst : ∀ j < k, (sigVars sig)[j]? ≠ some (sigFn sig (replFn repl w)))
    (harg : args[k]? = some (Val.vec l)) (hi : i < l.length) :
    v = l[i] := by
  rw [exprFunction_idx T sig consts repl w i k args l v h hn hfirst harg]
  simp [List.getD_eq_getElem?_getD, hi]

/-- `f(x, arr) = arr[1] * x` with the synonym `a` for `arr`: `a[1]` reads the second entry of the
second argument -/
example : exprFunction (algTab : FunTab ℚ) [["x"], ["arr", "a"]] [] [] (.idx "a" 1)
    [Val.sc 3, Val.vec [5, 7, 9]] = some 7 := by
  have hacc : ∃ v, exprFunction (algTab : FunTab ℚ) [["x"], ["arr", "a"]] [] [] (.idx "a" 1)
      [Val.sc 3, Val.vec [5, 7, 9]] = some v := by
    unfold exprFunction
    rw [if_pos (by decide)]
    exact ⟨_, rfl⟩
  obtain ⟨v, hv⟩ := hacc
  rw [hv, exprFunction_idx _ _ _ _ "a" 1 1 _ [5, 7, 9] v hv (by decide)
    (by intro j hj; have h0 : j = 0 := by omega
        subst h0; decide) rfl]
  simp

end field
section field
variable {K : Type} [Field K]

/-- **exprFunction_withUser_inline**: the generated function of an expression with (closed) user
functions computes, under the base table, the prepared formula with the user functions' bodies
substituted for their calls -/
theorem exprFunction_withUser_inline (T : FunTab K) (defs : List UDef)
    (hdefs : ∀ d ∈ defs, d.closed = true) (sig : List (List String))
    (consts : List (String × Val K)) (repl : List (String × String)) (e : Expr)
    (args : List (Val K)) (v : K)
    (h : exprFunction (withUser T defs) sig consts repl e args = some v) :
    v = eval T (callEnv sig consts args) (inlineUser defs (prepare sig repl e)) := by
  unfold exprFunction at h
  split_ifs at h
  rw [← withUser_inline T defs hdefs]
  exact (Option.some.inj h).symm

/-- `f(x1) + c` with `f(u) = u² + 1`, the synonym `x1` of `x`, the constant `c = 10`, at `x = 3` -/
example : exprFunction (withUser (algTab : FunTab ℚ)
      [⟨"f", ["u"], .add (.powI (.var "u") 2) (.num 1)⟩]) [["x", "x1"]] [("c", Val.sc 10)] []
      (.add (.call1 "f" (.var "x1")) (.var "c")) [Val.sc 3] = some 20 := by
  have hacc : ∃ v, exprFunction (withUser (algTab : FunTab ℚ)
      [⟨"f", ["u"], .add (.powI (.var "u") 2) (.num 1)⟩]) [["x", "x1"]] [("c", Val.sc 10)] []
      (.add (.call1 "f" (.var "x1")) (.var "c")) [Val.sc 3] = some v := by
    unfold exprFunction
    rw [if_pos (by decide)]
    exact ⟨_, rfl⟩
  obtain ⟨v, hv⟩ := hacc
  rw [hv, exprFunction_withUser_inline _ _ (by decide) _ _ _ _ _ v hv]
  have : inlineUser [⟨"f", ["u"], .add (.powI (.var "u") 2) (.num 1)⟩]
      (prepare [["x", "x1"]] [] (.add (.call1 "f" (.var "x1")) (.var "c"))) =
      .add (.add (.powI (.var "x") 2) (.num 1)) (.var "c") := by decide
  rw [this]
  simp [eval, callEnv, bindEnv, Env.bind1, Val.toSc, sigVars]
  norm_num

/-- quotient rule against Mathlib's formal derivative: for a quotient of two expressions of the
polynomial fragment denoting the polynomials `P`, `Q` in `x`, the value of the model's derivative
is `(P' Q - P Q') / Q²` at the point (every field; a vanishing `Q` gives 0 on both sides) -/
theorem diff_quotient_polynomial (T : FunTab K) (x : String) (env : Env K) (p q : Expr)
    (hp : polyFrag p = true) (hq : polyFrag q = true) :
    eval T env (diff x (.div p q)) =
      ((Polynomial.derivative (toPoly T x env p)).eval (env.sc x) * (toPoly T x env q).eval (env.sc x)
        - (toPoly T x env p).eval (env.sc x) * (Polynomial.derivative (toPoly T x env q)).eval (env.sc x))
      / ((toPoly T x env q).eval (env.sc x)) ^ 2 := by
  rw [toPoly_eval T x env _ p hp, toPoly_eval T x env _ q hq, Env.set_self',
    ← diff_eq_polynomial_derivative T x env p hp, ← diff_eq_polynomial_derivative T x env q hq]
  simp [diff, eval, zpow_ofNat]

example : polyFrag (.add (.powI (.var "x") 2) (.num 1)) = true ∧ polyFrag (.var "x") = true := by
  decide

/-- the environment of a call, read at a signature variable: the `k`-th variable (first
occurrence) denotes the `k`-th argument - its number as a scalar symbol, its entries as an
indexed symbol -/
theorem callEnv_arg (sig : List (List String)) (consts : List (String × Val K))
    (args : List (Val K)) (k : Nat) (n : String) (a : Val K)
    (hn : (sigVars sig)[k]? = some n) (hfirst : ∀ j < k, (sigVars sig)[j]? ≠ some n)
    (ha : args[k]? = some a) :
    (callEnv sig consts args).sc n = a.toSc ∧ (callEnv sig consts args).ix n = a.at := by
  have hk : k < (sigVars sig).length := by
    rcases Nat.lt_or_ge k (sigVars sig).length with h1 | h1
    · exact h1
    · rw [List.getElem?_eq_none h1] at hn; simp at hn
  have hk' : k < args.length := by
    rcases Nat.lt_or_ge k args.length with h1 | h1
    · exact h1
    · rw [List.getElem?_eq_none h1] at ha; simp at ha
  exact bindEnv_get (sigVars sig ++ consts.map Prod.fst) (args ++ consts.map Prod.snd)
    (defaultEnv : Env K) k n a
    (by rw [List.getElem?_append_left hk]; exact hn)
    (by rw [List.getElem?_append_left hk']; exact ha)
    (fun j hj => by rw [List.getElem?_append_left (Nat.lt_trans hj hk)]; exact hfirst j hj)

/-- ... and at a constant: with as many arguments as signature entries, a constant whose name is
not a signature variable (first entry of that name) denotes its value -/
theorem callEnv_const (sig : List (List String)) (consts : List (String × Val K))
    (args : List (Val K)) (k : Nat) (n : String) (c : Val K) (hlen : args.length = sig.length)
    (hc : consts[k]? = some (n, c)) (hsig : n ∉ sigVars sig)
    (hfirst : ∀ j < k, (consts.map Prod.fst)[j]? ≠ some n) :
    (callEnv sig consts args).sc n = c.toSc ∧ (callEnv sig consts args).ix n = c.at := by
  have hl : (sigVars sig).length = sig.length := by simp [sigVars]
  apply bindEnv_get (sigVars sig ++ consts.map Prod.fst) (args ++ consts.map Prod.snd)
    (defaultEnv : Env K) (sig.length + k) n c
  · rw [List.getElem?_append_right (by omega), hl]
    simp [hc]
  · rw [List.getElem?_append_right (by omega), hlen]
    simp [hc]
  · intro j hj
    by_cases hjs : j < (sigVars sig).length
    · rw [List.getElem?_append_left hjs]
      intro h
      exact hsig (List.mem_of_getElem? h)
    · rw [List.getElem?_append_right (by omega)]
      exact hfirst _ (by omega)

example : (callEnv [["x"], ["arr", "a"]] [("c", Val.sc (4 : ℚ))] [Val.sc 3, Val.vec [5, 7, 9]]).ix
    "arr" 2 = 9 := by
  rw [(callEnv_arg [["x"], ["arr", "a"]] [("c", Val.sc (4 : ℚ))] [Val.sc 3, Val.vec [5, 7, 9]] 1
    "arr" (Val.vec [5, 7, 9]) (by decide)
    (by intro j hj; have h0 : j = 0 := by omega
        subst h0; decide) rfl).2]
  simp [Val.at]

example : (callEnv [["x"], ["arr", "a"]] [("c", Val.sc (4 : ℚ))] [Val.sc 3, Val.vec [5, 7, 9]]).sc
    "c" = 4 := by
  rw [(callEnv_const [["x"], ["arr", "a"]] [("c", Val.sc (4 : ℚ))] [Val.sc 3, Val.vec [5, 7, 9]] 0
    "c" (Val.sc 4) rfl rfl (by decide) (by intro j hj; omega)).1]
  simp [Val.toSc]

end field
end PdeVerif.Ex
