import PdeVerif.Props.C11
import Mathlib.Algebra.Polynomial.Derivative
import Mathlib.Algebra.Polynomial.Eval.Defs
import Mathlib.Tactic.Ring
import Mathlib.Tactic.FieldSimp
/-
C11 (second file) - theorem gaps closed after the first rounds:

* C11.3 the symbolic derivative `diff` as an ALGEBRAIC identity (no analysis, every field):
  `diff_dual` (dual numbers `K[ε]/(ε²)`: evaluating at `x + ε` gives value + diff·ε on the whole
  rational fragment), `toPoly_eval`, `diff_eq_polynomial_derivative` (`Polynomial.derivative`).
* C11.2 `checkSignature_iff` and the rejection theorems: exactly the malformed calls are rejected.
* C11.1 `withUser_inline`: the value of an expression with user functions is the value of the
  formula with the bodies substituted for the calls.
* C11.4 indexed symbols through the calling convention.

`diff`, `checkSignature`, `exprFunction`, `withUser` are the definitions of Model/Expr.lean that
the driver (Drv/C11.lean) runs against the real code on every check.
-/
set_option linter.unusedSectionVars false
namespace PdeVerif.Ex
open PdeVerif

/-! ### C11.3 the symbolic derivative as an algebraic identity: dual numbers -/

/-- dual numbers `K[ε]/(ε²)`: value and first-order part -/
structure Dual (K : Type) where
  re : K
  eps : K

namespace Dual
variable {K : Type} [Add K] [Sub K] [Mul K] [Div K] [Neg K] [NatCast K] [IntCast K]
instance : Add (Dual K) := ⟨fun a b => ⟨a.re + b.re, a.eps + b.eps⟩⟩
instance : Sub (Dual K) := ⟨fun a b => ⟨a.re - b.re, a.eps - b.eps⟩⟩
instance : Neg (Dual K) := ⟨fun a => ⟨- a.re, - a.eps⟩⟩
instance : Mul (Dual K) := ⟨fun a b => ⟨a.re * b.re, a.eps * b.re + a.re * b.eps⟩⟩
instance : Div (Dual K) :=
  ⟨fun a b => ⟨a.re / b.re, (a.eps * b.re - a.re * b.eps) / (b.re * b.re)⟩⟩
instance : NatCast (Dual K) := ⟨fun n => ⟨(n : K), ((0 : Nat) : K)⟩⟩
instance : IntCast (Dual K) := ⟨fun n => ⟨(n : K), ((0 : Nat) : K)⟩⟩
end Dual

section dual
variable {K : Type} [Field K]

/-- the environment in which `x` is the dual number `x + ε` and every other symbol a constant -/
def dualEnv (x : String) (env : Env K) : Env (Dual K) where
  sc := fun y => ⟨env.sc y, if y = x then 1 else 0⟩
  ix := fun y i => ⟨env.ix y i, 0⟩

/-- constants of the table as dual constants (function names are outside the fragment) -/
def dualTab (T : FunTab K) : FunTab (Dual K) where
  f0 := fun c => ⟨T.f0 c, 0⟩
  f1 := fun f a => ⟨T.f1 f a.re, 0⟩
  f2 := fun f a b => ⟨T.f2 f a.re b.re, 0⟩
  heav := fun a h => ⟨T.heav a.re h.re, 0⟩
  cmp := fun op a b => ⟨T.cmp op a.re b.re, 0⟩

/-- the rational fragment proper: field operations and integer powers of symbols, literals and
named constants -/
def ratFrag : Expr → Bool
  | .num _ => true
  | .var _ => true
  | .idx _ _ => true
  | .named _ => true
  | .neg a => ratFrag a
  | .add a b => ratFrag a && ratFrag b
  | .sub a b => ratFrag a && ratFrag b
  | .mul a b => ratFrag a && ratFrag b
  | .div a b => ratFrag a && ratFrag b
  | .powI a _ => ratFrag a
  | _ => false

@[simp] theorem Dual.add_def (a b : Dual K) : a + b = ⟨a.re + b.re, a.eps + b.eps⟩ := rfl
@[simp] theorem Dual.sub_def (a b : Dual K) : a - b = ⟨a.re - b.re, a.eps - b.eps⟩ := rfl
@[simp] theorem Dual.neg_def (a : Dual K) : - a = ⟨- a.re, - a.eps⟩ := rfl
@[simp] theorem Dual.mul_def (a b : Dual K) :
    a * b = ⟨a.re * b.re, a.eps * b.re + a.re * b.eps⟩ := rfl
@[simp] theorem Dual.div_def (a b : Dual K) :
    a / b = ⟨a.re / b.re, (a.eps * b.re - a.re * b.eps) / (b.re * b.re)⟩ := rfl
@[simp] theorem Dual.natCast_def (n : Nat) : ((n : Nat) : Dual K) = ⟨(n : K), 0⟩ := by
  show (⟨(n : K), ((0 : Nat) : K)⟩ : Dual K) = _
  simp
@[simp] theorem Dual.intCast_def (n : Int) : ((n : Int) : Dual K) = ⟨(n : K), 0⟩ := by
  show (⟨(n : K), ((0 : Nat) : K)⟩ : Dual K) = _
  simp

theorem Dual.ofRat_eq (q : Rat) : (ofRat q : Dual K) = ⟨(q : K), 0⟩ := by
  unfold ofRat
  simp [Rat.cast_def]

theorem Dual.npow_eq (a : Dual K) (k : Nat) :
    npow a k = ⟨a.re ^ k, (k : K) * a.re ^ (k - 1) * a.eps⟩ := by
  induction k with
  | zero => simp [npow, one]
  | succ k ih =>
    rw [npow, ih]
    cases k with
    | zero => simp
    | succ j =>
      simp only [Dual.mul_def, Nat.add_sub_cancel]
      congr 1
      · ring
      · push_cast; ring

theorem Dual.powInt_eq (a : Dual K) (n : Int) :
    powInt a n = ⟨a.re ^ n, (n : K) * a.re ^ (n - 1) * a.eps⟩ := by
  cases n with
  | ofNat k =>
    simp only [powInt, Dual.npow_eq, Int.ofNat_eq_natCast, zpow_natCast, Int.cast_natCast]
    cases k with
    | zero => simp
    | succ j =>
      have : ((j + 1 : Nat) : Int) - 1 = (j : Int) := by push_cast; ring
      rw [this]; simp
  | negSucc k =>
    simp only [powInt, Dual.npow_eq, one, Dual.natCast_def, Dual.div_def, Nat.add_sub_cancel]
    by_cases ha : a.re = 0
    · simp [ha, zero_zpow _ (Int.negSucc_ne_zero k)]
    · congr 1
      · simp [zpow_negSucc]
      · have h2 : Int.negSucc k - 1 = -((k + 2 : Nat) : Int) := by
          rw [Int.negSucc_eq]; push_cast; ring
        rw [h2, zpow_neg, zpow_natCast, Int.negSucc_eq]
        push_cast
        field_simp
        ring

/-- **diff_dual**: on the rational fragment the model's symbolic derivative IS the formal
derivative: evaluating `e` at the dual number `x + ε` (all other symbols constants) gives
`value + (value of diff x e)·ε` - an identity in every field (division by zero reads 0 on both
sides, as in `eval`), no analysis involved -/
theorem diff_dual (T : FunTab K) (x : String) (env : Env K) (e : Expr) (h : ratFrag e = true) :
    eval (dualTab T) (dualEnv x env) e = ⟨eval T env e, eval T env (diff x e)⟩ := by
  induction e with
  | num q => simp [eval, diff, Dual.ofRat_eq]
  | var y => by_cases hy : y = x <;> simp [eval, diff, dualEnv, hy]
  | idx y i => simp [eval, diff, dualEnv]
  | named c => simp [eval, diff, dualTab]
  | neg a iha => simp [ratFrag] at h; simp [eval, diff, iha h]
  | add a b iha ihb | sub a b iha ihb =>
    simp [ratFrag] at h; simp [eval, diff, iha h.1, ihb h.2]
  | mul a b iha ihb =>
    simp [ratFrag] at h; simp [eval, diff, iha h.1, ihb h.2]
  | div a b iha ihb =>
    simp [ratFrag] at h; simp [eval, diff, iha h.1, ihb h.2, zpow_ofNat, pow_two]
  | powI a n iha =>
    simp [ratFrag] at h
    simp [eval, diff, iha h, Dual.powInt_eq]
  | _ => simp [ratFrag] at h


/-- x + ε through `(x^2 + 1)/x` at x = 2 in ℚ: value 5/2, derivative 1 - 1/x² = 3/4 -/
example : eval (dualTab (algTab : FunTab ℚ)) (dualEnv "x" (bindEnv ["x"] [Val.sc 2] defaultEnv))
    (.div (.add (.powI (.var "x") 2) (.num 1)) (.var "x")) = ⟨5/2, 3/4⟩ := by
  rw [diff_dual _ _ _ _ (by simp [ratFrag])]
  simp [eval, diff, bindEnv, Env.bind1, Val.toSc]
  norm_num

/-! #### the polynomial fragment: `diff` is `Polynomial.derivative` -/

/-- polynomial fragment in the symbols: ring operations and powers with a literal exponent ≥ 0 -/
def polyFrag : Expr → Bool
  | .num _ => true
  | .var _ => true
  | .idx _ _ => true
  | .named _ => true
  | .neg a => polyFrag a
  | .add a b => polyFrag a && polyFrag b
  | .sub a b => polyFrag a && polyFrag b
  | .mul a b => polyFrag a && polyFrag b
  | .powI a n => polyFrag a && decide (0 ≤ n)
  | _ => false

open Polynomial in
/-- the polynomial in `x` an expression of the polynomial fragment denotes (all other symbols
are coefficients read from the environment) -/
noncomputable def toPoly (T : FunTab K) (x : String) (env : Env K) : Expr → Polynomial K
  | .num q => C (q : K)
  | .var y => if y = x then X else C (env.sc y)
  | .idx y i => C (env.ix y i)
  | .named c => C (T.f0 c)
  | .neg a => - toPoly T x env a
  | .add a b => toPoly T x env a + toPoly T x env b
  | .sub a b => toPoly T x env a - toPoly T x env b
  | .mul a b => toPoly T x env a * toPoly T x env b
  | .powI a n => toPoly T x env a ^ n.toNat
  | _ => 0

/-- the polynomial denoted by `e`, evaluated at `v`, is the value of `e` with `x` bound to `v` -/
theorem toPoly_eval (T : FunTab K) (x : String) (env : Env K) (v : K) (e : Expr)
    (h : polyFrag e = true) :
    (toPoly T x env e).eval v = eval T (env.set x v) e := by
  induction e with
  | num q => simp [toPoly, eval]
  | var y => by_cases hy : y = x <;> simp [toPoly, eval, Env.set, hy]
  | idx y i => simp [toPoly, eval, Env.set]
  | named c => simp [toPoly, eval]
  | neg a iha => simp [polyFrag] at h; simp [toPoly, eval, iha h]
  | add a b iha ihb | sub a b iha ihb | mul a b iha ihb =>
    simp [polyFrag] at h; simp [toPoly, eval, iha h.1, ihb h.2]
  | powI a n iha =>
    simp [polyFrag] at h
    obtain ⟨k, rfl⟩ := Int.eq_ofNat_of_zero_le h.2
    simp [toPoly, eval, iha h.1]
  | _ => simp [polyFrag] at h

theorem Env.set_self' (env : Env K) (x : String) : env.set x (env.sc x) = env := by
  cases env with
  | mk sc ix =>
    simp only [Env.set, Env.mk.injEq, and_true]
    funext y; by_cases hy : y = x <;> simp [hy]

/-- **diff_eq_polynomial_derivative**: on the polynomial fragment the value of the model's
symbolic derivative is Mathlib's formal derivative `Polynomial.derivative` of the polynomial the
expression denotes, evaluated at the point - in every field, any characteristic -/
theorem diff_eq_polynomial_derivative (T : FunTab K) (x : String) (env : Env K) (e : Expr)
    (h : polyFrag e = true) :
    eval T env (diff x e) = (Polynomial.derivative (toPoly T x env e)).eval (env.sc x) := by
  induction e with
  | num q => simp [toPoly, eval, diff]
  | var y => by_cases hy : y = x <;> simp [toPoly, eval, diff, hy]
  | idx y i => simp [toPoly, eval, diff]
  | named c => simp [toPoly, eval, diff]
  | neg a iha => simp [polyFrag] at h; simp [toPoly, eval, diff, iha h]
  | add a b iha ihb | sub a b iha ihb =>
    simp [polyFrag] at h; simp [toPoly, eval, diff, iha h.1, ihb h.2]
  | mul a b iha ihb =>
    simp [polyFrag] at h
    have ea := toPoly_eval T x env (env.sc x) a h.1
    have eb := toPoly_eval T x env (env.sc x) b h.2
    rw [Env.set_self'] at ea eb
    simp [toPoly, eval, diff, iha h.1, ihb h.2, ea, eb]
  | powI a n iha =>
    simp [polyFrag] at h
    obtain ⟨k, rfl⟩ := Int.eq_ofNat_of_zero_le h.2
    have ea := toPoly_eval T x env (env.sc x) a h.1
    rw [Env.set_self'] at ea
    cases k with
    | zero => simp [toPoly, eval, diff]
    | succ j =>
      have : ((j + 1 : Nat) : Int) - 1 = (j : Int) := by push_cast; ring
      have hn : (ofRat ((((j + 1 : Nat) : Int)) : ℚ) : K) = (j : K) + 1 := by
        rw [ofRat_eq', Rat.cast_intCast]; push_cast; ring
      simp only [toPoly, eval, diff, iha h.1, hn, this, Polynomial.derivative_pow]
      simp [ea]
  | _ => simp [polyFrag] at h

/-- d/dx (3x² - c·x) with c = 5 at x = 2 is 6·2 - 5 = 7, read off the formal derivative -/
example : (Polynomial.derivative (toPoly (algTab : FunTab ℚ) "x"
      (bindEnv ["x", "c"] [Val.sc 2, Val.sc 5] defaultEnv)
      (.sub (.mul (.num 3) (.powI (.var "x") 2)) (.mul (.var "c") (.var "x"))))).eval 2 = 7 := by
  have h := diff_eq_polynomial_derivative (algTab : FunTab ℚ) "x"
    (bindEnv ["x", "c"] [Val.sc 2, Val.sc 5] defaultEnv)
    (.sub (.mul (.num 3) (.powI (.var "x") 2)) (.mul (.var "c") (.var "x"))) (by simp [polyFrag])
  have e2 : (bindEnv ["x", "c"] [Val.sc (2:ℚ), Val.sc 5] defaultEnv).sc "x" = 2 := by
    simp [bindEnv, Env.bind1, Val.toSc]
  rw [e2] at h
  rw [← h]
  simp [eval, diff, bindEnv, Env.bind1, Val.toSc]
  norm_num

end dual
/-! ### C11.2 `_check_signature`: exactly the malformed calls are rejected -/

/-- after `eraseDups`, a predicate selects at most one element iff all elements of the list that
satisfy it are equal -/
theorem eraseDups_filter_le_one_iff (l : List String) (p : String → Bool) :
    ((l.eraseDups).filter p).length ≤ 1 ↔
      ∀ s ∈ l, ∀ t ∈ l, p s = true → p t = true → s = t := by
  constructor
  · intro h s hs t ht hps hpt
    have hs' : s ∈ (l.eraseDups).filter p :=
      List.mem_filter.mpr ⟨mem_eraseDups_of_mem _ _ s (Nat.le_refl _) hs, hps⟩
    have ht' : t ∈ (l.eraseDups).filter p :=
      List.mem_filter.mpr ⟨mem_eraseDups_of_mem _ _ t (Nat.le_refl _) ht, hpt⟩
    generalize (l.eraseDups).filter p = m at h hs' ht'
    match m, h, hs', ht' with
    | [a], _, hs', ht' =>
      rw [List.mem_singleton] at hs' ht'
      rw [hs', ht']
  · intro h
    have hcongr : (l.eraseDups).filter p = (l.eraseDups).filter (fun s => p s && l.contains s) := by
      apply List.filter_congr
      intro s hs
      have := mem_of_mem_eraseDups _ _ s (Nat.le_refl _) hs
      simp [this]
    rw [hcongr]
    by_cases hex : ∃ v ∈ l, p v = true
    · obtain ⟨v, hv, hpv⟩ := hex
      apply eraseDups_filter_le_one _ l _ v _ (Nat.le_refl _)
      intro s hs
      simp only [Bool.and_eq_true, List.contains_eq_mem, decide_eq_true_eq] at hs
      exact h s hs.2 v hv hs.1 hpv
    · have : (l.eraseDups).filter (fun s => p s && l.contains s) = [] := by
        rw [List.filter_eq_nil_iff]
        intro s _ hps
        simp only [Bool.and_eq_true, List.contains_eq_mem, decide_eq_true_eq] at hps
        exact hex ⟨s, hps.2, hps.1⟩
      rw [this]; simp

/-- a well-formed call: every symbol of the formula (after the alias replacement `repl`) is a
constant or one of the names of a signature entry, and no signature entry is referred to by two
different non-constant names -/
def WellFormed (sig : List (List String)) (cnames : List String) (repl : List (String × String))
    (e : Expr) : Prop :=
  (∀ s ∈ symbols (rename (replFn repl) e), s ∈ cnames ∨ ∃ l ∈ sig, s ∈ l) ∧
  (∀ l ∈ sig, ∀ s ∈ symbols (rename (replFn repl) e), ∀ t ∈ symbols (rename (replFn repl) e),
      s ∈ l → t ∈ l → s ∉ cnames → t ∉ cnames → s = t)

/-- **checkSignature_iff**: `_check_signature` accepts EXACTLY the well-formed calls -/
theorem checkSignature_iff (sig : List (List String)) (cnames : List String)
    (repl : List (String × String)) (e : Expr) :
    checkSignature sig cnames repl e = true ↔ WellFormed sig cnames repl e := by
  unfold checkSignature WellFormed
  simp only [Bool.and_eq_true, List.all_eq_true, decide_eq_true_eq, eraseDups_filter_le_one_iff]
  constructor
  · rintro ⟨h1, h2⟩
    refine ⟨?_, ?_⟩
    · intro s hs
      have := h1 s (mem_eraseDups_of_mem _ _ s (Nat.le_refl _) hs)
      simpa using this
    · intro l hl s hs t ht hsl htl hsc htc
      exact h2 l hl s hs t ht (by simp [hsl, hsc]) (by simp [htl, htc])
  · rintro ⟨h1, h2⟩
    refine ⟨?_, ?_⟩
    · intro s hs
      have := h1 s (mem_of_mem_eraseDups _ _ s (Nat.le_refl _) hs)
      simpa using this
    · intro l hl s hs t ht hps hpt
      simp only [List.contains_eq_mem, decide_eq_true_eq, Bool.not_eq_true',
        decide_eq_false_iff_not] at hps hpt
      exact h2 l hl s hs t ht hps.1 hpt.1 hps.2 hpt.2

/-- rejection, kind 1: a symbol that is neither a constant nor any name of the signature -/
theorem checkSignature_rejects_undeclared (sig : List (List String)) (cnames : List String)
    (repl : List (String × String)) (e : Expr) (s : String)
    (hs : s ∈ symbols (rename (replFn repl) e)) (hc : s ∉ cnames) (hl : ∀ l ∈ sig, s ∉ l) :
    checkSignature sig cnames repl e = false := by
  rw [Bool.eq_false_iff]
  intro h
  rcases ((checkSignature_iff sig cnames repl e).mp h).1 s hs with h1 | ⟨l, hl1, hl2⟩
  · exact hc h1
  · exact hl l hl1 hl2

/-- rejection, kind 2: one signature entry used under two of its names -/
theorem checkSignature_rejects_two_names (sig : List (List String)) (cnames : List String)
    (repl : List (String × String)) (e : Expr) (l : List String) (s t : String) (hl : l ∈ sig)
    (hs : s ∈ symbols (rename (replFn repl) e)) (ht : t ∈ symbols (rename (replFn repl) e))
    (hsl : s ∈ l) (htl : t ∈ l) (hsc : s ∉ cnames) (htc : t ∉ cnames) (hne : s ≠ t) :
    checkSignature sig cnames repl e = false := by
  rw [Bool.eq_false_iff]
  intro h
  exact hne (((checkSignature_iff sig cnames repl e).mp h).2 l hl s hs t ht hsl htl hsc htc)

/-- the generated function refuses a call iff the formula is malformed for the signature or the
number of arguments is not the number of signature entries - and for nothing else -/
theorem exprFunction_none_iff {K : Type} [Field K] (T : FunTab K) (sig : List (List String))
    (consts : List (String × Val K)) (repl : List (String × String)) (e : Expr)
    (args : List (Val K)) :
    exprFunction T sig consts repl e args = none ↔
      ¬ WellFormed sig (consts.map Prod.fst) repl e ∨ args.length ≠ sig.length := by
  unfold exprFunction
  rw [← checkSignature_iff]
  by_cases h1 : checkSignature sig (consts.map Prod.fst) repl e = true <;>
    by_cases h2 : args.length = sig.length <;> simp [h1, h2]

/-- `x + why` with the signature `[[x], [y, why]]` is accepted, ... -/
example : checkSignature [["x"], ["y", "why"]] [] [] (.add (.var "x") (.var "why")) = true := by
  decide
/-- ... `y + why` (two names of one entry) and `x + q` (undeclared `q`) are rejected, by the two
rejection theorems -/
example : checkSignature [["x"], ["y", "why"]] [] [] (.add (.var "y") (.var "why")) = false :=
  checkSignature_rejects_two_names _ _ _ _ ["y", "why"] "y" "why" (by simp)
    (by simp [symbols, rename, replFn]) (by simp [symbols, rename, replFn]) (by simp) (by simp)
    (by simp) (by simp) (by decide)
example : checkSignature [["x"], ["y", "why"]] ["a"] [] (.add (.var "x") (.var "q")) = false :=
  checkSignature_rejects_undeclared _ _ _ _ "q" (by simp [symbols, rename, replFn]) (by simp)
    (by simp)

end PdeVerif.Ex
