import PdeVerif.Model.Stencil
import Mathlib.Analysis.Calculus.Taylor
import Mathlib.Tactic.Linarith
import Mathlib.Tactic.FieldSimp
import Mathlib.Tactic.Ring
import Mathlib.Tactic.LinearCombination
import Mathlib.Tactic.Positivity
/-
C01 (continued) - the all-smooth-fields quantifier for the one-dimensional building blocks.
The polynomial statements of `Props/C01.lean` are lifted to every sufficiently smooth real
function by Taylor's theorem with Lagrange remainder (Mathlib): the central first derivative and
the 3-point second derivative of the model (`Stencil.d1`, `Stencil.d2`) are second-order consistent
with explicit constants.  Cartesian gradient, divergence, Laplacian, vector and tensor operators are
sums of these building blocks along the axes (`cart_operators_are_building_blocks`).
-/
namespace PdeVerif.Stencil
open PdeVerif
open scoped Nat

/-- Taylor expansion to third order with Lagrange remainder for a globally C4 function,
at `x + t` around `x` (any sign of `t ≠ 0`) -/
theorem taylor3 (f : ℝ → ℝ) (hf : ContDiff ℝ 4 f) (x t : ℝ) (ht : t ≠ 0) :
    ∃ ξ ∈ Set.uIoo x (x + t), f (x + t) = f x + iteratedDeriv 1 f x * t + iteratedDeriv 2 f x * t^2 / 2
      + iteratedDeriv 3 f x * t^3 / 6 + iteratedDeriv 4 f ξ * t^4 / 24 := by
  have hx : x ≠ x + t := by intro h; apply ht; linarith
  have hf' : ContDiffOn ℝ ((3:ℕ) + 1) f (Set.uIcc x (x + t)) := by
    have : ((3:ℕ) + 1 : WithTop ℕ∞) = 4 := by norm_num
    rw [this]; exact hf.contDiffOn
  obtain ⟨ξ, hξ, h⟩ := taylor_mean_remainder_lagrange_iteratedDeriv hx hf'
  refine ⟨ξ, hξ, ?_⟩
  rw [taylor_within_apply] at h
  have hu : UniqueDiffOn ℝ (Set.uIcc x (x + t)) := uniqueDiffOn_uIcc hx
  have hmem : x ∈ Set.uIcc x (x + t) := Set.left_mem_uIcc
  have hk : ∀ k : ℕ, k ≤ 4 → iteratedDerivWithin k f (Set.uIcc x (x + t)) x = iteratedDeriv k f x := by
    intro k hk
    apply iteratedDerivWithin_eq_iteratedDeriv hu _ hmem
    apply (hf.of_le _).contDiffAt
    exact_mod_cast hk
  simp only [Finset.sum_range_succ, Finset.sum_range_zero, zero_add] at h
  rw [hk 0 (by norm_num), hk 1 (by norm_num), hk 2 (by norm_num), hk 3 (by norm_num)] at h
  simp only [iteratedDeriv_zero, smul_eq_mul, add_sub_cancel_left] at h
  norm_num [Nat.factorial] at h
  rw [iteratedDeriv_one]
  linear_combination h

/-- Taylor expansion to second order with Lagrange remainder for a globally C3 function -/
theorem taylor2 (f : ℝ → ℝ) (hf : ContDiff ℝ 3 f) (x t : ℝ) (ht : t ≠ 0) :
    ∃ ξ ∈ Set.uIoo x (x + t), f (x + t) = f x + iteratedDeriv 1 f x * t + iteratedDeriv 2 f x * t^2 / 2
      + iteratedDeriv 3 f ξ * t^3 / 6 := by
  have hx : x ≠ x + t := by intro h; apply ht; linarith
  have hf' : ContDiffOn ℝ ((2:ℕ) + 1) f (Set.uIcc x (x + t)) := by
    have : ((2:ℕ) + 1 : WithTop ℕ∞) = 3 := by norm_num
    rw [this]; exact hf.contDiffOn
  obtain ⟨ξ, hξ, h⟩ := taylor_mean_remainder_lagrange_iteratedDeriv hx hf'
  refine ⟨ξ, hξ, ?_⟩
  rw [taylor_within_apply] at h
  have hu : UniqueDiffOn ℝ (Set.uIcc x (x + t)) := uniqueDiffOn_uIcc hx
  have hmem : x ∈ Set.uIcc x (x + t) := Set.left_mem_uIcc
  have hk : ∀ k : ℕ, k ≤ 3 → iteratedDerivWithin k f (Set.uIcc x (x + t)) x = iteratedDeriv k f x := by
    intro k hk
    apply iteratedDerivWithin_eq_iteratedDeriv hu _ hmem
    apply (hf.of_le _).contDiffAt
    exact_mod_cast hk
  simp only [Finset.sum_range_succ, Finset.sum_range_zero, zero_add] at h
  rw [hk 0 (by norm_num), hk 1 (by norm_num), hk 2 (by norm_num)] at h
  simp only [iteratedDeriv_zero, smul_eq_mul, add_sub_cancel_left] at h
  norm_num [Nat.factorial] at h
  rw [iteratedDeriv_one]
  linear_combination h

/-- second-order consistency of the 3-point second derivative for every C4 function:
the error is at most `M h²/12` whenever the fourth derivative is bounded by `M` -/
theorem d2_fun_taylor (f : ℝ → ℝ) (hf : ContDiff ℝ 4 f) (M : ℝ) (hM : ∀ y, |iteratedDeriv 4 f y| ≤ M)
    (x h : ℝ) (hh : h ≠ 0) :
    |(f (x + h) - 2 * f x + f (x - h)) / (h * h) - iteratedDeriv 2 f x| ≤ M * h^2 / 12 := by
  obtain ⟨ξ1, _, e1⟩ := taylor3 f hf x h hh
  obtain ⟨ξ2, _, e2⟩ := taylor3 f hf x (-h) (neg_ne_zero.mpr hh)
  have e2' : f (x - h) = f x - iteratedDeriv 1 f x * h + iteratedDeriv 2 f x * h^2 / 2
      - iteratedDeriv 3 f x * h^3 / 6 + iteratedDeriv 4 f ξ2 * h^4 / 24 := by
    have : x + -h = x - h := by ring
    rw [this] at e2; rw [e2]; ring
  have key : (f (x + h) - 2 * f x + f (x - h)) / (h * h) - iteratedDeriv 2 f x
      = (iteratedDeriv 4 f ξ1 + iteratedDeriv 4 f ξ2) * h^2 / 24 := by
    rw [e1, e2']; field_simp; ring
  rw [key]
  have h1 := hM ξ1
  have h2 := hM ξ2
  have hsum : |iteratedDeriv 4 f ξ1 + iteratedDeriv 4 f ξ2| ≤ 2 * M := by
    calc _ ≤ |iteratedDeriv 4 f ξ1| + |iteratedDeriv 4 f ξ2| := abs_add_le _ _
      _ ≤ 2 * M := by linarith
  have hh2 : 0 ≤ h^2 := sq_nonneg h
  rw [abs_div, abs_mul, abs_of_nonneg hh2, abs_of_pos (by norm_num : (0:ℝ) < 24)]
  calc |iteratedDeriv 4 f ξ1 + iteratedDeriv 4 f ξ2| * h^2 / 24 ≤ 2 * M * h^2 / 24 := by
        apply div_le_div_of_nonneg_right _ (by norm_num)
        exact mul_le_mul_of_nonneg_right hsum hh2
    _ = M * h^2 / 12 := by ring

/-- second-order consistency of the central first derivative for every C3 function:
the error is at most `M h²/6` whenever the third derivative is bounded by `M` -/
theorem d1_central_fun_taylor (f : ℝ → ℝ) (hf : ContDiff ℝ 3 f) (M : ℝ) (hM : ∀ y, |iteratedDeriv 3 f y| ≤ M)
    (x h : ℝ) (hh : h ≠ 0) :
    |(f (x + h) - f (x - h)) / (2 * h) - iteratedDeriv 1 f x| ≤ M * h^2 / 6 := by
  obtain ⟨ξ1, _, e1⟩ := taylor2 f hf x h hh
  obtain ⟨ξ2, _, e2⟩ := taylor2 f hf x (-h) (neg_ne_zero.mpr hh)
  have e2' : f (x - h) = f x - iteratedDeriv 1 f x * h + iteratedDeriv 2 f x * h^2 / 2
      - iteratedDeriv 3 f ξ2 * h^3 / 6 := by
    have : x + -h = x - h := by ring
    rw [this] at e2; rw [e2]; ring
  have key : (f (x + h) - f (x - h)) / (2 * h) - iteratedDeriv 1 f x
      = (iteratedDeriv 3 f ξ1 + iteratedDeriv 3 f ξ2) * h^2 / 12 := by
    rw [e1, e2']; field_simp; ring
  rw [key]
  have h1 := hM ξ1
  have h2 := hM ξ2
  have hsum : |iteratedDeriv 3 f ξ1 + iteratedDeriv 3 f ξ2| ≤ 2 * M := by
    calc _ ≤ |iteratedDeriv 3 f ξ1| + |iteratedDeriv 3 f ξ2| := abs_add_le _ _
      _ ≤ 2 * M := by linarith
  have hh2 : 0 ≤ h^2 := sq_nonneg h
  rw [abs_div, abs_mul, abs_of_nonneg hh2, abs_of_pos (by norm_num : (0:ℝ) < 12)]
  calc |iteratedDeriv 3 f ξ1 + iteratedDeriv 3 f ξ2| * h^2 / 12 ≤ 2 * M * h^2 / 12 := by
        apply div_le_div_of_nonneg_right _ (by norm_num)
        exact mul_le_mul_of_nonneg_right hsum hh2
    _ = M * h^2 / 6 := by ring

/-- samples of a real function on the lattice `x0 + k h` (scalar field on one axis) -/
noncomputable def sampleFun (f : ℝ → ℝ) (x0 h : ℝ) : Arr ℝ := fun idx => f (x0 + (idx.getD 0 0 : ℝ) * h)

/-- **the model's 3-point second derivative is second-order consistent on every C4 field** -/
theorem cart_d2_taylor (f : ℝ → ℝ) (hf : ContDiff ℝ 4 f) (M : ℝ) (hM : ∀ y, |iteratedDeriv 4 f y| ≤ M)
    (x0 h : ℝ) (hh : h ≠ 0) (i : Int) :
    |d2 h (sampleFun f x0 h) [i] 0 - iteratedDeriv 2 f (x0 + (i:ℝ) * h)| ≤ M * h^2 / 12 := by
  have := d2_fun_taylor f hf M hM (x0 + (i:ℝ) * h) h hh
  simp only [d2, sampleFun, shift, List.getD_cons_zero, List.set_cons_zero]
  push_cast
  have e1 : x0 + ((i:ℝ) + 1) * h = x0 + (i:ℝ) * h + h := by ring
  have e2 : x0 + ((i:ℝ) + -1) * h = x0 + (i:ℝ) * h - h := by ring
  rw [e1, e2]
  exact this

/-- **the model's central first derivative is second-order consistent on every C3 field** -/
theorem cart_d1_taylor (f : ℝ → ℝ) (hf : ContDiff ℝ 3 f) (M : ℝ) (hM : ∀ y, |iteratedDeriv 3 f y| ≤ M)
    (x0 h : ℝ) (hh : h ≠ 0) (i : Int) :
    |d1 .central h (sampleFun f x0 h) [i] 0 - iteratedDeriv 1 f (x0 + (i:ℝ) * h)| ≤ M * h^2 / 6 := by
  have := d1_central_fun_taylor f hf M hM (x0 + (i:ℝ) * h) h hh
  simp only [d1, sampleFun, shift, List.getD_cons_zero, List.set_cons_zero]
  push_cast
  have e1 : x0 + ((i:ℝ) + 1) * h = x0 + (i:ℝ) * h + h := by ring
  have e2 : x0 + ((i:ℝ) + -1) * h = x0 + (i:ℝ) * h - h := by ring
  rw [e1, e2]
  exact this

/-- **polar Laplacian on every C4 radial field**: at every cell with `r ≠ 0` the error against
`f'' + f'/r` is at most `M4 h²/12 + M3 h²/(6 |r|)` - quadratic in `h` at any fixed distance from the
axis, for all smooth fields (not only polynomials) -/
theorem polar_laplace_taylor (f : ℝ → ℝ) (hf : ContDiff ℝ 4 f) (M3 M4 : ℝ)
    (hM3 : ∀ y, |iteratedDeriv 3 f y| ≤ M3) (hM4 : ∀ y, |iteratedDeriv 4 f y| ≤ M4)
    (x0 h : ℝ) (hh : h ≠ 0) (i : Int) (hr : x0 + (i:ℝ) * h ≠ 0) :
    |polarLaplace (fun k => x0 + (k:ℝ) * h) h (sampleFun f x0 h) i
        - (iteratedDeriv 2 f (x0 + (i:ℝ) * h) + iteratedDeriv 1 f (x0 + (i:ℝ) * h) / (x0 + (i:ℝ) * h))|
      ≤ M4 * h^2 / 12 + M3 * h^2 / (6 * |x0 + (i:ℝ) * h|) := by
  set r := x0 + (i:ℝ) * h with hrdef
  have h2 := d2_fun_taylor f hf M4 hM4 r h hh
  have h1 := d1_central_fun_taylor f (hf.of_le (by norm_num)) M3 hM3 r h hh
  have e1 : x0 + ((i:ℝ) + 1) * h = r + h := by rw [hrdef]; ring
  have e2 : x0 + ((i:ℝ) - 1) * h = r - h := by rw [hrdef]; ring
  have split : polarLaplace (fun k => x0 + (k:ℝ) * h) h (sampleFun f x0 h) i
      - (iteratedDeriv 2 f r + iteratedDeriv 1 f r / r)
      = ((f (r + h) - 2 * f r + f (r - h)) / (h * h) - iteratedDeriv 2 f r)
        + ((f (r + h) - f (r - h)) / (2 * h) - iteratedDeriv 1 f r) / r := by
    simp only [polarLaplace, sampleFun, List.getD_cons_zero]
    push_cast
    rw [e1, e2, ← hrdef]
    field_simp
    ring
  rw [split]
  have hrpos : 0 < |r| := abs_pos.mpr hr
  calc _ ≤ |(f (r + h) - 2 * f r + f (r - h)) / (h * h) - iteratedDeriv 2 f r|
          + |((f (r + h) - f (r - h)) / (2 * h) - iteratedDeriv 1 f r) / r| := abs_add_le _ _
    _ ≤ M4 * h^2 / 12 + M3 * h^2 / (6 * |r|) := by
        have : |((f (r + h) - f (r - h)) / (2 * h) - iteratedDeriv 1 f r) / r| ≤ M3 * h^2 / (6 * |r|) := by
          rw [abs_div, div_le_div_iff₀ hrpos (by positivity)]
          have := mul_le_mul_of_nonneg_right h1 hrpos.le
          nlinarith [this, hrpos]
        linarith

/-- **plain spherical Laplacian on every C4 radial field**: error against `f'' + 2f'/r` at most
`M4 h²/12 + M3 h²/(3 |r|)` -/
theorem sph_laplace_plain_taylor (f : ℝ → ℝ) (hf : ContDiff ℝ 4 f) (M3 M4 : ℝ)
    (hM3 : ∀ y, |iteratedDeriv 3 f y| ≤ M3) (hM4 : ∀ y, |iteratedDeriv 4 f y| ≤ M4)
    (x0 h : ℝ) (hh : h ≠ 0) (i : Int) (hr : x0 + (i:ℝ) * h ≠ 0) :
    |sphLaplace false (fun k => x0 + (k:ℝ) * h) h (sampleFun f x0 h) i
        - (iteratedDeriv 2 f (x0 + (i:ℝ) * h) + 2 * iteratedDeriv 1 f (x0 + (i:ℝ) * h) / (x0 + (i:ℝ) * h))|
      ≤ M4 * h^2 / 12 + M3 * h^2 / (3 * |x0 + (i:ℝ) * h|) := by
  set r := x0 + (i:ℝ) * h with hrdef
  have h2 := d2_fun_taylor f hf M4 hM4 r h hh
  have h1 := d1_central_fun_taylor f (hf.of_le (by norm_num)) M3 hM3 r h hh
  have e1 : x0 + ((i:ℝ) + 1) * h = r + h := by rw [hrdef]; ring
  have e2 : x0 + ((i:ℝ) - 1) * h = r - h := by rw [hrdef]; ring
  have split : sphLaplace false (fun k => x0 + (k:ℝ) * h) h (sampleFun f x0 h) i
      - (iteratedDeriv 2 f r + 2 * iteratedDeriv 1 f r / r)
      = ((f (r + h) - 2 * f r + f (r - h)) / (h * h) - iteratedDeriv 2 f r)
        + 2 * (((f (r + h) - f (r - h)) / (2 * h) - iteratedDeriv 1 f r) / r) := by
    simp only [sphLaplace, sampleFun, List.getD_cons_zero, Bool.false_eq_true, if_false]
    push_cast
    rw [e1, e2, ← hrdef]
    field_simp
    ring
  rw [split]
  have hrpos : 0 < |r| := abs_pos.mpr hr
  have hb : |((f (r + h) - f (r - h)) / (2 * h) - iteratedDeriv 1 f r) / r| ≤ M3 * h^2 / (6 * |r|) := by
    rw [abs_div, div_le_div_iff₀ hrpos (by positivity)]
    have := mul_le_mul_of_nonneg_right h1 hrpos.le
    nlinarith [this, hrpos]
  calc _ ≤ |(f (r + h) - 2 * f r + f (r - h)) / (h * h) - iteratedDeriv 2 f r|
          + |2 * (((f (r + h) - f (r - h)) / (2 * h) - iteratedDeriv 1 f r) / r)| := abs_add_le _ _
    _ ≤ M4 * h^2 / 12 + M3 * h^2 / (3 * |r|) := by
        rw [abs_mul, abs_of_pos (by norm_num : (0:ℝ) < 2)]
        have e : M3 * h^2 / (3 * |r|) = 2 * (M3 * h^2 / (6 * |r|)) := by field_simp; ring
        rw [e]
        linarith

end PdeVerif.Stencil
