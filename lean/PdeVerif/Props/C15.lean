import PdeVerif.Model.Heap
import PdeVerif.Model.HandOut
import PdeVerif.Lemmas.Heap
/-
C15 - fields share or isolate memory exactly as documented.
Property theorems about the heap model `PdeVerif.Heap` (model of pde/fields/base.py,
datafield_base.py, collection.py, scalar.py, vectorial.py, tensorial.py and of the frames of
pde/storage/memory.py).  Refinement to the simplest specification: a handle denotes a function
of the store (`State.denote`); a write changes the cells it names and nothing else; fresh
results live in buffers whose id exceeds every live id.

All statements hold for every value type `K` (only the notation classes of the model are
assumed), every table of grids `G`, every well-formed state and - by induction over the list of
operations - every history.  `WF` (every live view lies inside an allocated buffer) is the
allocation invariant; it holds in the empty state and is preserved by every operation
(`wf_run`), so it holds in every reachable state (`reachable_wf`).
-/
namespace PdeVerif.Heap

section
variable {K : Type} [Add K] [Sub K] [Mul K] [Div K] [Neg K] [NatCast K] [DCast K]
variable {G : List Grid}

/-! ### histories -/

/-- the state after one operation of a history (a failing operation changes nothing) -/
def after (G : List Grid) (s : State K) (op : Op K) : State K :=
  match step G s op with
  | .ok s' => s'
  | .error _ => s

theorem run_cons (s : State K) (op : Op K) (ops : List (Op K)) :
    run G s (op :: ops) = run G (after G s op) ops := by
  simp only [run, after]; cases step G s op <;> rfl

theorem wf_step {s s' : State K} {op : Op K} (hwf : WF s) (h : step G s op = .ok s') : WF s' :=
  (step_spec G hwf h).1.wf

theorem wf_after {s : State K} (hwf : WF s) (op : Op K) : WF (after G s op) := by
  unfold after; split
  · rename_i s' h; exact wf_step hwf h
  · exact hwf

/-- **allocation invariant, all histories** -/
theorem wf_run {s : State K} (hwf : WF s) (ops : List (Op K)) : WF (run G s ops) := by
  induction ops generalizing s with
  | nil => exact hwf
  | cons op ops ih => rw [run_cons]; exact ih (wf_after hwf op)

theorem reachable_wf (ops : List (Op K)) : WF (run G ({} : State K) ops) := wf_run wf_empty ops

theorem inv_after {s : State K} (hi : Inv G s) (op : Op K) : Inv G (after G s op) := by
  unfold after; split
  · rename_i s' h; exact inv_step G hi h
  · exact hi

/-- **full invariant, all histories**: allocation invariant, every padded array consists of
`ncomp` blocks of one padded grid, members of collections are data fields on the collection's
grid -/
theorem inv_run {s : State K} (hi : Inv G s) (ops : List (Op K)) : Inv G (run G s ops) := by
  induction ops generalizing s with
  | nil => exact hi
  | cons op ops ih => rw [run_cons]; exact ih (inv_after hi op)

theorem reachable_inv (ops : List (Op K)) : Inv G (run G ({} : State K) ops) :=
  inv_run (inv_empty G) ops

/-! ### `data` is a live view of the padded array -/

theorem dataLive_after {s : State K} (h : DataLive s) (op : Op K) : DataLive (after G s op) := by
  unfold after; split
  · rename_i s' e; exact dataLive_step G h e
  · exact h

/-- **clause (a), all histories** -/
theorem dataLive_run {s : State K} (h : DataLive s) (ops : List (Op K)) :
    DataLive (run G s ops) := by
  induction ops generalizing s with
  | nil => exact h
  | cons op ops ih => rw [run_cons]; exact ih (dataLive_after h op)

/-- **data_is_live_view**: after every history of operations, for every object, the array that
`obj.data` returns (`_data_valid`) is carved from the array the object currently looks at
(`_data_full`) - also after re-linking by a collection, deep copies and unpickling.  Together with
`validSel` (which cells of that array are selected) this is "`data` is a live view of the padded
array": a write through `data` is a `writeSel` on `objs[i].view`. -/
theorem data_is_live_view (ops : List (Op K)) {i : Nat} {o : Obj}
    (ho : (run G ({} : State K) ops).objs[i]? = some o) :
    (run G ({} : State K) ops).dviews[i]? = some o.view := by
  have h : DataLive (run G ({} : State K) ops) := dataLive_run dataLive_empty ops
  unfold DataLive at h
  rw [h, List.getElem?_map, ho]; rfl

/-! ### frame -/

/-- **frame**: an operation changes no cell of an existing buffer outside its footprint
(`foot`: the valid cells / all cells / one cell / the ghost cells of the handle written through;
empty for every other operation). -/
theorem frame {s s' : State K} {op : Op K} (hwf : WF s) (h : step G s op = .ok s') (b i : Nat)
    (hb : b < s.store.next) (hn : ¬ foot G s op b i) : s'.store.read b i = s.store.read b i :=
  (step_spec G hwf h).1.frame b i hb hn

/-- an existing handle keeps looking at the same memory unless the operation is
`FieldCollection(fields, copy_fields=False)` and the handle is one of `fields` -/
theorem views_stable {s s' : State K} {op : Op K} (hwf : WF s) (h : step G s op = .ok s')
    {i : Nat} {o : Obj} (ho : s.objs[i]? = some o) (hm : ¬ moved op i) : s'.objs[i]? = some o := by
  obtain ⟨o', h1, h2⟩ := (step_spec G hwf h).1.old i o ho
  rcases h2 with rfl | ⟨m, _⟩
  · exact h1
  · exact absurd m hm

/-- what is read through a handle is unchanged if no cell of its view is in the footprint -/
theorem frame_handle {s s' : State K} {op : Op K} (hwf : WF s) (h : step G s op = .ok s')
    {h' : Nat} {o : Obj} (ho : s.objs[h']? = some o) (hm : ¬ moved op h')
    (hd : ∀ i, o.view.off ≤ i → i < o.view.off + o.view.len → ¬ foot G s op o.view.buf i) :
    s'.denote h' = s.denote h' := by
  have e := (step_spec G hwf h).1
  unfold State.denote
  rw [views_stable hwf h ho hm, ho]
  obtain ⟨hb, hsz⟩ := hwf h' o ho
  exact Store.readView_congr _ _ _ hsz (e.size_eq _ hb)
    (fun i h1 h2 => e.frame _ i hb (hd i h1 h2))

/-- the handles an operation writes through -/
def writesThrough : Op K → List Nat
  | .writeData h _ => [h]
  | .writeFull h _ => [h]
  | .writeCell h _ _ => [h]
  | .setGhosts h _ => [h]
  | .inplace _ a _ => [a]
  | .applyOperator h _ _ out _ => h :: out.toList
  | .applyFn _ out _ => out.toList
  | _ => []

theorem foot_mem {s : State K} {op : Op K} {b i : Nat} (hf : foot G s op b i) :
    ∃ h o, h ∈ writesThrough op ∧ s.objs[h]? = some o ∧ o.view.Mem b i := by
  cases op <;> simp only [foot] at hf
  case writeData h _ => obtain ⟨o, h1, h2⟩ := hf; exact ⟨h, o, by simp [writesThrough], h1, h2.1⟩
  case writeFull h _ => obtain ⟨o, h1, h2⟩ := hf; exact ⟨h, o, by simp [writesThrough], h1, h2⟩
  case writeCell h _ _ =>
    obtain ⟨o, h1, h2, _⟩ := hf; exact ⟨h, o, by simp [writesThrough], h1, h2⟩
  case setGhosts h _ =>
    obtain ⟨o, h1, h2, _⟩ := hf; exact ⟨h, o, by simp [writesThrough], h1, h2⟩
  case inplace _ a _ => obtain ⟨o, h1, h2⟩ := hf; exact ⟨a, o, by simp [writesThrough], h1, h2.1⟩
  case applyOperator h _ _ out _ =>
    rcases hf with ⟨o, h1, h2, _⟩ | ⟨j, oj, rfl, h1, h2⟩
    · exact ⟨h, o, by simp [writesThrough], h1, h2⟩
    · exact ⟨j, oj, by simp [writesThrough], h1, h2.1⟩
  case applyFn _ out _ =>
    obtain ⟨j, oj, rfl, h1, h2⟩ := hf
    exact ⟨j, oj, by simp [writesThrough], h1, h2.1⟩

/-- operations that write through a handle re-link nothing -/
theorem not_moved_of_writes {op : Op K} {h : Nat} (hw : h ∈ writesThrough op) (i : Nat) :
    ¬ moved op i := by
  cases op <;> simp [writesThrough] at hw <;> simp [moved]

/-- **frame, handle form**: an operation leaves what is read through a handle `h'` unchanged if
`h'` shares no cell with any of the handles the operation writes through (`writesThrough`: the
target of a data / marker / ghost-cell / in-place write, the operand and `out` of
`apply_operator`, `out` of `apply`; no handle at all for every other operation) and `h'` is not
re-linked (only `FieldCollection(fields, copy_fields=False)` re-links, and only its `fields`). -/
theorem frame_disjoint {s s' : State K} {op : Op K} (hwf : WF s) (h : step G s op = .ok s')
    {h' : Nat} {o : Obj} (ho : s.objs[h']? = some o) (hm : ¬ moved op h')
    (hdis : ∀ (hw : Nat) (ow : Obj), hw ∈ writesThrough op → s.objs[hw]? = some ow →
      o.view.overlaps ow.view = false) :
    s'.denote h' = s.denote h' := by
  refine frame_handle hwf h ho hm ?_
  intro i h1 h2 hf
  obtain ⟨h0, o0, e0, g0, m0⟩ := foot_mem hf
  have : o.view.overlaps o0.view = true :=
    (View.overlaps_iff _ _).mpr ⟨o.view.buf, i, ⟨rfl, h1, h2⟩, m0⟩
  rw [hdis h0 o0 e0 g0] at this; cases this

/-- a write through handle `hw` leaves every handle on another buffer alone -/
theorem frame_other_buffer {s s' : State K} {op : Op K} (hwf : WF s) (h : step G s op = .ok s')
    {hw h' : Nat} {ow o : Obj} (hop : writesThrough op = [hw]) (how : s.objs[hw]? = some ow)
    (ho : s.objs[h']? = some o) (hb : o.view.buf ≠ ow.view.buf) :
    s'.denote h' = s.denote h' := by
  refine frame_disjoint hwf h ho (not_moved_of_writes (h := hw) (by simp [hop]) h') ?_
  intro hw' ow' hmem how'
  rw [hop] at hmem
  simp only [List.mem_singleton] at hmem
  subst hmem
  rw [how] at how'; cases how'
  exact View.overlaps_false_of_buf_ne hb

/-! ### a write is seen through every alias -/

theorem denote_writeSel {s : State K} (hwf : WF s) (v : View) (sel : Nat → Bool)
    (g : Nat → Option K → Option K) {h : Nat} {o : Obj} (ho : s.objs[h]? = some o) (p : Nat)
    (hp : p < o.view.len) :
    ((s.writeSel v sel g).denote h)[p]? = some
      (if o.view.buf = v.buf ∧ v.off ≤ o.view.off + p ∧ o.view.off + p < v.off + v.len ∧
          sel (o.view.off + p - v.off) = true
        then g (o.view.off + p - v.off) (s.store.read o.view.buf (o.view.off + p))
        else s.store.read o.view.buf (o.view.off + p)) := by
  obtain ⟨hb, hsz⟩ := hwf h o ho
  unfold State.denote
  have : (s.writeSel v sel g).objs[h]? = some o := ho
  rw [this]
  simp only [State.writeSel]
  rw [Store.getElem?_readView _ _ p hp (by simpa using hsz), Store.read_update]
  by_cases hbuf : o.view.buf = v.buf
  · have hlt : o.view.off + p < s.store.size v.buf := by rw [← hbuf]; omega
    simp only [hbuf, hlt, and_self, if_true, true_and]
  · simp [hbuf]

/-- **write_visible_through_alias**: if position `p₁` of handle `h₁` and position `p₂` of handle
`h₂` are the same cell, a marker written at `p₁` through `h₁` is what is read at `p₂` through `h₂`
(members and their collection, component views and their field, a field and itself). -/
theorem write_visible_through_alias {s s' : State K} (hwf : WF s) {h₁ h₂ : Nat} {o₁ o₂ : Obj}
    (ho₁ : s.objs[h₁]? = some o₁) (ho₂ : s.objs[h₂]? = some o₂) {p₁ p₂ : Nat}
    (hp₁ : p₁ < o₁.view.len) (hp₂ : p₂ < o₂.view.len) (hbuf : o₁.view.buf = o₂.view.buf)
    (hcell : o₁.view.off + p₁ = o₂.view.off + p₂) (v : K)
    (h : step G s (.writeCell h₁ p₁ v) = .ok s') : (s'.denote h₂)[p₂]? = some (some v) := by
  simp only [step] at h
  unfold getObj at h
  rw [ho₁] at h
  cases h
  rw [denote_writeSel hwf _ _ _ ho₂ p₂ hp₂]
  have : o₂.view.off + p₂ - o₁.view.off = p₁ := by omega
  simp only [this, beq_self_eq_true, hbuf.symm, true_and]
  rw [if_pos ⟨by omega, by omega, trivial⟩]

/-- the same for `h₁.data = vals`: every valid cell written is seen through the alias -/
theorem data_write_visible_through_alias {s s' : State K} (hwf : WF s) {h₁ h₂ : Nat}
    {o₁ o₂ : Obj} (ho₁ : s.objs[h₁]? = some o₁) (ho₂ : s.objs[h₂]? = some o₂) {p₁ p₂ : Nat}
    (hp₁ : p₁ < o₁.view.len) (hp₂ : p₂ < o₂.view.len) (hbuf : o₁.view.buf = o₂.view.buf)
    (hcell : o₁.view.off + p₁ = o₂.view.off + p₂) (hvalid : validSel G o₁ p₁ = true)
    (vals : List K) (x : K) (hx : vals[p₁]? = some x)
    (h : step G s (.writeData h₁ vals) = .ok s') : (s'.denote h₂)[p₂]? = some (some x) := by
  simp only [step] at h
  unfold getObj at h
  rw [ho₁] at h
  cases h
  rw [denote_writeSel hwf _ _ _ ho₂ p₂ hp₂]
  have : o₂.view.off + p₂ - o₁.view.off = p₁ := by omega
  simp only [this, hbuf.symm, true_and, hvalid, hx]
  rw [if_pos ⟨by omega, by omega, trivial⟩]

/-! ### collections and their members -/

/-- **collection_layout, establishment**: whenever an operation returns a collection (the
constructor with or without `copy_fields`, slices, `append`, `copy`, negation, arithmetic,
storage reads), that collection and its members are linked: member `k` looks at the block of
the collection buffer that starts right after the blocks of members `0..k-1` (fields in
order), the blocks cover the buffer exactly; inside a block the components are consecutive
(row-major, `compObj`). -/
theorem new_collection_linked {s s' : State K} {op : Op K} (hwf : WF s)
    (h : step G s op = .ok s') (hnew : s.objs.length < s'.objs.length) {oc : Obj}
    (hoc : s'.objs[lastId s']? = some oc) (hc : oc.cls = .coll) : Linked s' (lastId s') := by
  rcases (step_spec G hwf h).2 with hn | hr
  · unfold NoNew at hn; omega
  · exact hr.2 oc hoc hc

/-- **collection_layout, preservation**: a linked collection stays linked under every operation
that does not hand one of its members to another `FieldCollection(..., copy_fields=False)`
(documented: "the original fields are modified so their data points to the collection") -/
theorem linked_step {s s' : State K} {op : Op K} (hwf : WF s) (h : step G s op = .ok s')
    {c : Nat} (hl : Linked s c)
    (hns : ∀ oc : Obj, s.objs[c]? = some oc → ∀ m, (m = c ∨ m ∈ oc.members) → ¬ moved op m) :
    Linked s' c := by
  obtain ⟨oc, hoc, lens, h1, h2, h3⟩ := hl
  refine ⟨oc, views_stable hwf h hoc (hns oc hoc c (Or.inl rfl)), lens, h1, h2, ?_⟩
  intro k m hk
  obtain ⟨om, g1, g2, g3⟩ := h3 k m hk
  have hm : m ∈ oc.members := List.mem_iff_getElem?.mpr ⟨k, hk⟩
  exact ⟨om, views_stable hwf h g1 (hns oc hoc m (Or.inr hm)), g2, g3⟩

/-- no operation of the history re-links collection `c` or one of its members -/
def NoSteal (G : List Grid) (c : Nat) : State K → List (Op K) → Prop
  | _, [] => True
  | s, op :: ops =>
    (∀ oc : Obj, s.objs[c]? = some oc → ∀ m, (m = c ∨ m ∈ oc.members) → ¬ moved op m) ∧
      NoSteal G c (after G s op) ops

/-- **collection_layout, all histories** -/
theorem collection_layout {s : State K} (hwf : WF s) {c : Nat} (hl : Linked s c)
    (ops : List (Op K)) (hns : NoSteal G c s ops) : Linked (run G s ops) c := by
  induction ops generalizing s with
  | nil => exact hl
  | cons op ops ih =>
    rw [run_cons]
    obtain ⟨h1, h2⟩ := hns
    refine ih (wf_after hwf op) ?_ h2
    unfold after
    split
    · rename_i s' h; exact linked_step hwf h hl h1
    · exact hl

/-- slot arithmetic: if the blocks have `ncomp_j * n` cells (`n` cells per padded component) the
block of member `k` starts at component slot `ncomp_0 + ... + ncomp_{k-1}` -/
theorem collection_slot (ncomps : List Nat) (n k : Nat) :
    ((ncomps.map (· * n)).take k).sum = (ncomps.take k).sum * n := by
  induction ncomps generalizing k with
  | nil => simp
  | cons x xs ih =>
    cases k with
    | zero => simp
    | succ k => simp only [List.map_cons, List.take_succ_cons, List.sum_cons, ih, Nat.add_mul]

/-- a marker written through member `k` at position `p` is read through the collection at
position `slot k + p`, and vice versa -/
theorem member_write_seen_in_collection {s s' : State K} (hwf : WF s) {c : Nat} (hl : Linked s c) :
    ∃ (oc : Obj) (lens : List Nat), s.objs[c]? = some oc ∧ ∀ (k m : Nat), oc.members[k]? = some m →
      ∀ (om : Obj), s.objs[m]? = some om → ∀ p, p < om.view.len → ∀ v : K,
        (step G s (.writeCell m p v) = .ok s' →
          (s'.denote c)[(lens.take k).sum + p]? = some (some v)) ∧
        (step G s (.writeCell c ((lens.take k).sum + p) v) = .ok s' →
          (s'.denote m)[p]? = some (some v)) := by
  obtain ⟨oc, hoc, lens, h1, h2, h3⟩ := hl
  refine ⟨oc, lens, hoc, ?_⟩
  intro k m hk om hom p hp v
  obtain ⟨om', g1, g2, g3⟩ := h3 k m hk
  rw [hom] at g1; cases g1
  have hk' : k < lens.length := lt_length_of_getElem? g2
  have hblock : (lens.take k).sum + om.view.len ≤ oc.view.len := by
    have a := sum_take_succ lens k hk'
    have b := sum_take_le_sum lens (k + 1)
    have e : lens[k] = om.view.len := by
      have := List.getElem?_eq_getElem hk'; rw [g2] at this; exact (Option.some.inj this).symm
    omega
  have hv : om.view.buf = oc.view.buf ∧ om.view.off = oc.view.off + (lens.take k).sum := by
    rw [g3]; exact ⟨rfl, rfl⟩
  constructor
  · intro h
    exact write_visible_through_alias hwf hom hoc hp (by omega) hv.1 (by omega) v h
  · intro h
    exact write_visible_through_alias hwf hoc hom (by omega) hp hv.1.symm (by omega) v h

theorem sum_map_mul_right (l : List Nat) (f : Nat → Nat) (n : Nat) :
    (l.map (fun m => f m * n)).sum = (l.map f).sum * n := by
  induction l with
  | nil => simp
  | cons x xs ih => simp only [List.map_cons, List.sum_cons, ih, Nat.add_mul]

/-- number of components of the object with id `m` -/
def ncompOf (s : State K) (m : Nat) : Nat :=
  match s.objs[m]? with
  | some o => o.ncomp
  | none => 0

/-- **collection_layout, in component slots** (every reachable state): in a linked collection on
a grid with `n` padded cells, member `k` looks at the `ncomp_k * n` cells that start at component
slot `ncomp_0 + ... + ncomp_{k-1}` of the collection buffer (fields in order), and the
collection has `ncomp = Σ ncomp_j` slots. -/
theorem collection_layout_slots {s : State K} (hi : Inv G s) {c : Nat} (hl : Linked s c) {oc : Obj}
    (hoc : s.objs[c]? = some oc) (hc : oc.cls = .coll) :
    ∃ gr : Grid, G[oc.grid]? = some gr ∧ oc.view.len = oc.ncomp * gr.mask.length ∧
      ∀ (k m : Nat), oc.members[k]? = some m → ∃ om : Obj, s.objs[m]? = some om ∧
        om.view = ⟨oc.view.buf,
          oc.view.off + ((oc.members.take k).map (ncompOf s)).sum * gr.mask.length,
          om.ncomp * gr.mask.length⟩ := by
  obtain ⟨oc', hoc', lens, h1, h2, h3⟩ := hl
  rw [hoc] at hoc'; cases hoc'
  rcases hi.shaped c oc hoc with hr | ⟨gr, hgr, hlen⟩
  · rw [hc] at hr; cases hr
  refine ⟨gr, hgr, hlen, ?_⟩
  -- every block has `ncomp * n` cells
  have hlens : lens = oc.members.map (fun m => ncompOf s m * gr.mask.length) := by
    apply List.ext_getElem?
    intro k
    rcases Nat.lt_or_ge k oc.members.length with hk | hk
    · obtain ⟨om, g1, g2, _⟩ := h3 k oc.members[k] (List.getElem?_eq_getElem hk)
      obtain ⟨om', e1, e2, _, e4⟩ := hi.coll c oc hoc oc.members[k] (List.getElem_mem hk)
      rw [g1] at e1; cases e1
      rcases hi.shaped _ om g1 with hr | ⟨gr', hgr', hlen'⟩
      · exact absurd hr e4
      rw [e2, hgr] at hgr'; cases hgr'
      rw [g2, List.getElem?_map, List.getElem?_eq_getElem hk]
      simp only [Option.map_some, ncompOf, g1, hlen']
    · rw [List.getElem?_eq_none (by omega), List.getElem?_eq_none (by simp; omega)]
  intro k m hk
  obtain ⟨om, g1, g2, g3⟩ := h3 k m hk
  refine ⟨om, g1, ?_⟩
  have hm : m ∈ oc.members := List.mem_iff_getElem?.mpr ⟨k, hk⟩
  obtain ⟨om', e1, e2, _, e4⟩ := hi.coll c oc hoc m hm
  rw [g1] at e1; cases e1
  rcases hi.shaped _ om g1 with hr | ⟨gr', hgr', hlen'⟩
  · exact absurd hr e4
  rw [e2, hgr] at hgr'; cases hgr'
  rw [g3, hlen']
  congr 2
  rw [hlens, ← List.map_take]
  exact sum_map_mul_right _ _ _

/-- **component views**: `vector[c]` / `tensor[i, j]` (`c = i*dim + j`, row-major) returns a new
handle that looks at block `c` of the padded array of the field: `n` cells starting `c * n`
cells into the field's view; the field itself is untouched. -/
theorem componentAt_view {s s' : State K} (hi : Inv G s) {h c : Nat} {o : Obj}
    (ho : s.objs[h]? = some o) (hs : componentAt s o c = .ok s') :
    ∃ gr : Grid, G[o.grid]? = some gr ∧ c < o.ncomp ∧
      o.view.len = o.ncomp * gr.mask.length ∧ s'.objs[h]? = some o ∧ s'.store = s.store ∧
      ∃ oc : Obj, s'.objs[s.objs.length]? = some oc ∧ oc.cls = .scalar ∧
        oc.view = ⟨o.view.buf, o.view.off + c * gr.mask.length, gr.mask.length⟩ := by
  unfold componentAt at hs
  split at hs
  · rename_i hcond
    cases hs
    simp only [Bool.and_eq_true, decide_eq_true_eq, Bool.or_eq_true, beq_iff_eq] at hcond
    rcases hi.shaped h o ho with hr | ⟨gr, hgr, hlen⟩
    · rcases hcond.1 with e | e <;> rw [e] at hr <;> cases hr
    have hn : o.view.len / o.ncomp = gr.mask.length := by
      rw [hlen, Nat.mul_div_cancel_left _ (by omega : 0 < o.ncomp)]
    refine ⟨gr, hgr, hcond.2, hlen, ?_, rfl, compObj o c, ?_, rfl, ?_⟩
    · simp only [State.pushObj]
      rw [List.getElem?_append_left (lt_length_of_getElem? ho)]; exact ho
    · simp [State.pushObj]
    · simp only [compObj, hn]
  · cases hs

theorem component_view {s s' : State K} (hi : Inv G s) {h c : Nat}
    (hs : step G s (.component h c) = .ok s') :
    ∃ (o : Obj) (gr : Grid), s.objs[h]? = some o ∧ G[o.grid]? = some gr ∧ c < o.ncomp ∧
      o.view.len = o.ncomp * gr.mask.length ∧ s'.objs[h]? = some o ∧ s'.store = s.store ∧
      ∃ oc : Obj, s'.objs[s.objs.length]? = some oc ∧ oc.cls = .scalar ∧
        oc.view = ⟨o.view.buf, o.view.off + c * gr.mask.length, gr.mask.length⟩ := by
  simp only [step] at hs
  split at hs
  · cases hs
  rename_i o ho
  obtain ⟨gr, h1, h2⟩ := componentAt_view hi (getObj_ok ho) hs
  exact ⟨o, gr, getObj_ok ho, h1, h2⟩

/-- **tensor components are row-major**: `tensor[i, j]` on a grid of dimension `dim` is the
component view on block `i * dim + j` - the same operation as `.component h (i * dim + j)`; the new
handle looks at the `n` cells that start `(i * dim + j) * n` cells into the tensor's padded array
(`n` = cells of one padded grid), and the tensor has `dim * dim` such blocks. -/
theorem tensor_component_view {s s' : State K} (hi : Inv G s) {h i j : Nat}
    (hs : step G s (.tcomponent h i j) = .ok s') :
    ∃ (o : Obj) (gr : Grid), s.objs[h]? = some o ∧ o.cls = .tensor ∧ G[o.grid]? = some gr ∧
      i < gr.dim ∧ j < gr.dim ∧
      step G s (.component h (i * gr.dim + j)) = .ok s' ∧
      o.view.len = o.ncomp * gr.mask.length ∧ i * gr.dim + j < o.ncomp ∧
      ∃ oc : Obj, s'.objs[s.objs.length]? = some oc ∧ oc.cls = .scalar ∧
        oc.view = ⟨o.view.buf, o.view.off + (i * gr.dim + j) * gr.mask.length, gr.mask.length⟩ := by
  simp only [step] at hs
  split at hs
  · cases hs
  rename_i o ho
  split at hs
  · cases hs
  rename_i gr hgr
  split at hs
  · rename_i hcond
    simp only [Bool.and_eq_true, decide_eq_true_eq, beq_iff_eq] at hcond
    obtain ⟨gr', h1, h2, h3, _, _, h6⟩ := componentAt_view hi (getObj_ok ho) hs
    rw [hgr] at h1; cases h1
    refine ⟨o, gr, getObj_ok ho, hcond.1.1, hgr, hcond.1.2, hcond.2, ?_, h3, h2, h6⟩
    simp only [step, ho]
    exact hs
  · cases hs

/-- a marker written through a component view is read through the field at the component's
block, and vice versa -/
theorem component_write_seen_in_field {s s' s'' : State K} (hi : Inv G s) {h c : Nat}
    (hs : step G s (.component h c) = .ok s') :
    ∃ n : Nat, ∀ p, p < n → ∀ v : K,
      (step G s' (.writeCell s.objs.length p v) = .ok s'' →
        (s''.denote h)[c * n + p]? = some (some v)) ∧
      (step G s' (.writeCell h (c * n + p) v) = .ok s'' →
        (s''.denote s.objs.length)[p]? = some (some v)) := by
  obtain ⟨o, gr, ho, _, hc, hlen, ho', _, oc, hoc, _, hv⟩ := component_view hi hs
  have hwf' := wf_step hi.wf hs
  refine ⟨gr.mask.length, ?_⟩
  intro p hp v
  have hblock : c * gr.mask.length + gr.mask.length ≤ o.view.len := by
    rw [hlen]
    have : (c + 1) * gr.mask.length ≤ o.ncomp * gr.mask.length := Nat.mul_le_mul_right _ hc
    rw [Nat.succ_mul] at this; exact this
  have hl : oc.view.len = gr.mask.length := by rw [hv]
  have hb : oc.view.buf = o.view.buf := by rw [hv]
  have hoff : oc.view.off = o.view.off + c * gr.mask.length := by rw [hv]
  constructor
  · intro hw
    exact write_visible_through_alias hwf' hoc ho' (by omega) (by omega) hb (by omega) v hw
  · intro hw
    exact write_visible_through_alias hwf' ho' hoc (by omega) (by omega) hb.symm (by omega) v hw

/-- an existing handle keeps its view through a whole history in which no operation re-links it -/
theorem views_stable_run {s : State K} (hwf : WF s) {i : Nat} {o : Obj} (ho : s.objs[i]? = some o)
    (ops : List (Op K)) (hu : ∀ op ∈ ops, ¬ moved op i) : (run G s ops).objs[i]? = some o := by
  induction ops generalizing s with
  | nil => exact ho
  | cons op ops ih =>
    rw [run_cons]
    refine ih (wf_after hwf op) ?_ (fun op' h' => hu op' (List.mem_cons_of_mem _ h'))
    unfold after
    split
    · rename_i s' h; exact views_stable hwf h ho (hu op List.mem_cons_self)
    · exact ho

/-- **component views, all histories**: a component view `vector[c]` / `tensor[i, j]` keeps
looking at block `c` of the padded array of its field, and a marker written through one of the
two is read through the other, after every history in which neither the field nor the
component view is handed to a `FieldCollection(..., copy_fields=False)` (the hypothesis is
necessary: see the example `component_detached_by_relinking` below - the constructor gives the
field a new array and the component view keeps the old one). -/
theorem component_alias_history {s s' s'' : State K} (hi : Inv G s) {h c : Nat}
    (hs : step G s (.component h c) = .ok s') (ops : List (Op K))
    (hu : ∀ op ∈ ops, ¬ moved op h ∧ ¬ moved op s.objs.length) :
    ∃ (o oc : Obj) (n : Nat), (run G s' ops).objs[h]? = some o ∧
      (run G s' ops).objs[s.objs.length]? = some oc ∧
      oc.view = ⟨o.view.buf, o.view.off + c * n, n⟩ ∧ c * n + n ≤ o.view.len ∧
      ∀ p, p < n → ∀ v : K,
        (step G (run G s' ops) (.writeCell s.objs.length p v) = .ok s'' →
          (s''.denote h)[c * n + p]? = some (some v)) ∧
        (step G (run G s' ops) (.writeCell h (c * n + p) v) = .ok s'' →
          (s''.denote s.objs.length)[p]? = some (some v)) := by
  obtain ⟨o, gr, _, _, hc, hlen, ho', _, oc, hoc, _, hv⟩ := component_view hi hs
  have hwf' := wf_step hi.wf hs
  have h1 := views_stable_run (G := G) hwf' ho' ops (fun op hop => (hu op hop).1)
  have h2 := views_stable_run (G := G) hwf' hoc ops (fun op hop => (hu op hop).2)
  have hwf'' : WF (run G s' ops) := wf_run hwf' ops
  have hblock : c * gr.mask.length + gr.mask.length ≤ o.view.len := by
    rw [hlen]
    have : (c + 1) * gr.mask.length ≤ o.ncomp * gr.mask.length := Nat.mul_le_mul_right _ hc
    rw [Nat.succ_mul] at this; exact this
  refine ⟨o, oc, gr.mask.length, h1, h2, hv, hblock, ?_⟩
  intro p hp v
  have hl : oc.view.len = gr.mask.length := by rw [hv]
  have hb : oc.view.buf = o.view.buf := by rw [hv]
  have hoff : oc.view.off = o.view.off + c * gr.mask.length := by rw [hv]
  constructor
  · intro hw
    exact write_visible_through_alias hwf'' h2 h1 (by omega) (by omega) hb (by omega) v hw
  · intro hw
    exact write_visible_through_alias hwf'' h1 h2 (by omega) (by omega) hb.symm (by omega) v hw

/-! ### fresh results -/

/-- **copy_is_fresh** (allocation invariant: fresh ids exceed all live ids): every object created
by `copy` looks at a buffer allocated by this very operation, whose id is larger than the
buffer id of every object that existed before. -/
theorem copy_is_fresh {s s' : State K} (hwf : WF s) {h : Nat} {dt : Option DType}
    (hs : step G s (.copy h dt) = .ok s') {i : Nat} {o' : Obj} (hi : s.objs.length ≤ i)
    (ho' : s'.objs[i]? = some o') :
    s.store.next ≤ o'.view.buf ∧ ∀ (j : Nat) (o : Obj), s.objs[j]? = some o → o.view.buf < o'.view.buf := by
  rcases (step_spec G hwf hs).1.new i o' hi ho' with f | ⟨f, _⟩
  · exact ⟨f, fun j o ho => Nat.lt_of_lt_of_le (hwf j o ho).1 f⟩
  · exact f.elim

/-- operations that return copies: everything except component views and
`FieldCollection(fields, copy_fields=False)` with pairwise different `fields` (identical fields
force a copy, collection.py:92-95) -/
def copying : Op K → Prop
  | .component _ _ => False
  | .tcomponent _ _ _ => False
  | .mkColl hs cp _ => cp = true ∨ ¬ hs.Nodup
  | _ => True

theorem copying_spec {op : Op K} (hc : copying op) : ¬ subviewing op ∧ ∀ i, ¬ moved op i := by
  cases op
  case mkColl hs cp dt =>
    refine ⟨by simp [subviewing], ?_⟩
    intro i hm
    simp only [moved] at hm
    rcases hc with h | h
    · rw [h] at hm; exact absurd hm.1 (by simp)
    · exact h hm.2.1
  all_goals simp_all [copying, subviewing, moved]

/-- results of copying operations do not share memory with anything that existed before -/
theorem fresh_results {s s' : State K} {op : Op K} (hwf : WF s) (hs : step G s op = .ok s')
    (hc : copying op) {i j : Nat} (hi : s.objs.length ≤ i) (hi' : i < s'.objs.length)
    (hj : j < s.objs.length) : aliases s' i j = false ∧ aliases s' j i = false := by
  obtain ⟨hsub, hmv⟩ := copying_spec hc
  have e := (step_spec G hwf hs).1
  obtain ⟨oi, hoi⟩ : ∃ o, s'.objs[i]? = some o := ⟨_, List.getElem?_eq_getElem hi'⟩
  obtain ⟨oj, hoj⟩ : ∃ o, s.objs[j]? = some o := ⟨_, List.getElem?_eq_getElem hj⟩
  have hoj' := views_stable hwf hs hoj (hmv j)
  have hne : oi.view.buf ≠ oj.view.buf := by
    rcases e.new i oi hi hoi with f | ⟨f, _⟩
    · have := (hwf j oj hoj).1; omega
    · exact absurd f hsub
  unfold aliases
  rw [hoi, hoj']
  exact ⟨View.overlaps_false_of_buf_ne hne, View.overlaps_false_of_buf_ne (Ne.symm hne)⟩

/-- two different handles that share no memory never come to share memory, whatever happens
afterwards (re-linking moves handles to disjoint blocks of a fresh buffer) -/
theorem disjoint_step {s s' : State K} {op : Op K} (hwf : WF s) (hs : step G s op = .ok s')
    {i j : Nat} (hij : i ≠ j) (hi : i < s.objs.length) (hj : j < s.objs.length)
    (hd : aliases s i j = false) : aliases s' i j = false := by
  have e := (step_spec G hwf hs).1
  obtain ⟨oi, hoi⟩ : ∃ o, s.objs[i]? = some o := ⟨_, List.getElem?_eq_getElem hi⟩
  obtain ⟨oj, hoj⟩ : ∃ o, s.objs[j]? = some o := ⟨_, List.getElem?_eq_getElem hj⟩
  obtain ⟨oi', hoi', ci⟩ := e.old i oi hoi
  obtain ⟨oj', hoj', cj⟩ := e.old j oj hoj
  unfold aliases at hd ⊢
  rw [hoi, hoj] at hd
  rw [hoi', hoj']
  rcases ci with rfl | ⟨_, _, _, fi⟩ <;> rcases cj with rfl | ⟨_, _, _, fj⟩
  · exact hd
  · have := (hwf i _ hoi).1
    exact View.overlaps_false_of_buf_ne (by omega)
  · have := (hwf j _ hoj).1
    exact View.overlaps_false_of_buf_ne (by omega)
  · exact e.disj i j _ _ hij hi hj hoi' hoj' fi fj

theorem length_le_after (s : State K) (hwf : WF s) (op : Op K) :
    s.objs.length ≤ (after G s op).objs.length := by
  unfold after; split
  · rename_i s' h; exact (step_spec G hwf h).1.len_le
  · exact Nat.le_refl _

theorem disjoint_forever {s : State K} (hwf : WF s) {i j : Nat} (hij : i ≠ j)
    (hi : i < s.objs.length) (hj : j < s.objs.length) (hd : aliases s i j = false)
    (ops : List (Op K)) : aliases (run G s ops) i j = false := by
  induction ops generalizing s with
  | nil => exact hd
  | cons op ops ih =>
    rw [run_cons]
    have hl := length_le_after (G := G) s hwf op
    refine ih (wf_after hwf op) (by omega) (by omega) ?_
    unfold after
    split
    · rename_i s' h; exact disjoint_step hwf h hij hi hj hd
    · exact hd

/-- **copy_never_aliases**: no object created by `copy()` (of a field or of a collection) shares
memory with an object that existed before - neither right after the copy nor after any later
history of operations. -/
theorem copy_never_aliases {s s' : State K} (hwf : WF s) {h : Nat} {dt : Option DType}
    (hs : step G s (.copy h dt) = .ok s') {i j : Nat} (hi : s.objs.length ≤ i)
    (hi' : i < s'.objs.length) (hj : j < s.objs.length) (ops : List (Op K)) :
    aliases (run G s' ops) i j = false := by
  have hl := (step_spec G hwf hs).1.len_le
  exact disjoint_forever (wf_step hwf hs) (by omega) hi' (by omega)
    (fresh_results hwf hs trivial hi hi' hj).1 ops

/-- **slice_append_arith_operator_results_fresh**: the same for collection slices, `append`,
`FieldCollection(..., copy_fields=True)`, negation and binary arithmetic, freshly constructed
fields, the fields created by `apply_operator` (`applyOperator`), by `to_scalar` / `real` /
`imag` / `conjugate` (`derive`) and by `apply` / `transpose` (`applyFn`), stored frames, fields
read back from a storage, deep copies and unpickled objects, and for the forced-copy path of the
constructor (`copy_fields=False` but some of the fields are identical). -/
theorem slice_append_arith_operator_results_fresh {s s' : State K} {op : Op K} (hwf : WF s)
    (hop : (∃ c idx, op = .slice c idx) ∨ (∃ c hs, op = .append c hs) ∨
      (∃ hs dt, op = .mkColl hs true dt) ∨ (∃ h, op = .neg h) ∨ (∃ o a b, op = .binop o a b) ∨
      (∃ c g dt x i, op = .mkField c g dt x i) ∨ (∃ h d, op = .storeFrame h d) ∨
      (∃ t f, op = .loadFrame t f) ∨ (∃ h, op = .deepcopy h) ∨
      (∃ hs dt, op = .mkColl hs false dt ∧ ¬ hs.Nodup) ∨
      (∃ h g c o v, op = .applyOperator h g c o v) ∨ (∃ h c x v, op = .derive h c x v) ∨
      (∃ h o v, op = .applyFn h o v))
    (hs : step G s op = .ok s') {i j : Nat} (hi : s.objs.length ≤ i) (hi' : i < s'.objs.length)
    (hj : j < s.objs.length) (ops : List (Op K)) : aliases (run G s' ops) i j = false := by
  have hc : copying op := by
    rcases hop with ⟨_, _, rfl⟩ | ⟨_, _, rfl⟩ | ⟨_, _, rfl⟩ | ⟨_, rfl⟩ | ⟨_, _, _, rfl⟩ |
      ⟨_, _, _, _, _, rfl⟩ | ⟨_, _, rfl⟩ | ⟨_, _, rfl⟩ | ⟨_, rfl⟩ | ⟨_, _, rfl, hd⟩ |
      ⟨_, _, _, _, _, rfl⟩ | ⟨_, _, _, _, rfl⟩ | ⟨_, _, _, rfl⟩
    all_goals first | exact Or.inr hd | simp [copying]
  have hl := (step_spec G hwf hs).1.len_le
  exact disjoint_forever (wf_step hwf hs) (by omega) hi' (by omega)
    (fresh_results hwf hs hc hi hi' hj).1 ops

/-! ### arithmetic -/

/-- **binary_op_pure**: `a <op> b` changes no existing object, no cell of an existing buffer and
hence nothing that is read through any existing handle (operands included). -/
theorem binary_op_pure {s s' : State K} (hwf : WF s) {bop : BinOp} {a : Nat} {b : Operand K}
    (hs : step G s (.binop bop a b) = .ok s') :
    (∀ (h : Nat) (o : Obj), s.objs[h]? = some o → s'.objs[h]? = some o) ∧
    (∀ b' i, b' < s.store.next → s'.store.read b' i = s.store.read b' i) ∧
    (∀ h, h < s.objs.length → s'.denote h = s.denote h) := by
  refine ⟨fun h o ho => views_stable hwf hs ho (by simp [moved]),
    fun b' i hb => frame hwf hs b' i hb (by simp [foot]), ?_⟩
  intro h hh
  obtain ⟨o, ho⟩ : ∃ o, s.objs[h]? = some o := ⟨_, List.getElem?_eq_getElem hh⟩
  exact frame_handle hwf hs ho (by simp [moved]) (fun _ _ _ => by simp [foot])

/-- **inplace_touches_only_valid_cells**: `a <op>= b` creates nothing, re-links nothing, and the
only cells whose content may change are valid cells of `a`: its ghost cells and every cell of
every other buffer keep their content; a handle that contains no valid cell of `a` reads the
same values as before. -/
theorem inplace_touches_only_valid_cells {s s' : State K} (hwf : WF s) {bop : BinOp} {a : Nat}
    {b : Operand K} (hs : step G s (.inplace bop a b) = .ok s') :
    ∃ oa : Obj, s.objs[a]? = some oa ∧ s'.objs = s.objs ∧ s'.store.next = s.store.next ∧
      (∀ b' i, ¬ oa.validCell G b' i → s'.store.read b' i = s.store.read b' i) ∧
      (∀ i, oa.view.Mem oa.view.buf i → validSel G oa (i - oa.view.off) = false →
        s'.store.read oa.view.buf i = s.store.read oa.view.buf i) ∧
      (∀ (h : Nat) (o : Obj), s.objs[h]? = some o →
        (∀ i, o.view.Mem o.view.buf i → ¬ oa.validCell G o.view.buf i) → s'.denote h = s.denote h) := by
  obtain ⟨oa, g, hoa, rfl⟩ := inplace_eq' hs
  have hcell : ∀ b' i, ¬ oa.validCell G b' i →
      (s.writeSel oa.view (validSel G oa) g).store.read b' i = s.store.read b' i := by
    intro b' i hn
    simp only [State.writeSel, Store.read_update]
    split
    · rename_i h
      split
      · rename_i h2
        exact absurd ⟨⟨h.1, h2.1, h2.2.1⟩, h2.2.2⟩ hn
      · rw [h.1]
    · rfl
  refine ⟨oa, hoa, rfl, by simp [State.writeSel], hcell, ?_, ?_⟩
  · intro i _ hv
    exact hcell _ _ (fun hc => by rw [hc.2] at hv; cases hv)
  · intro h o ho hd
    refine frame_handle hwf hs ho (by simp [moved]) ?_
    intro i h1 h2 hf
    simp only [foot] at hf
    obtain ⟨o', g1, g2⟩ := hf
    rw [hoa] at g1; cases g1
    exact hd i ⟨rfl, h1, h2⟩ g2

/-- **apply_operator_footprint**: `h.apply_operator(name, bc, out=out)` re-links nothing and the
only cells of existing memory it may change are ghost cells of the operand `h` (the boundary
condition) and valid cells of `out`: in particular the valid cells of the operand keep their
content unless `out` overlaps them. -/
theorem apply_operator_footprint {s s' : State K} (hwf : WF s) {h : Nat}
    {ghosts : List (Option K)} {c : Cls} {out : Option Nat} {vals : List K}
    (hs : step G s (.applyOperator h ghosts c out vals) = .ok s') :
    (∀ (i : Nat) (x : Obj), s.objs[i]? = some x → s'.objs[i]? = some x) ∧
    (∀ b i, b < s.store.next →
      (∀ o : Obj, s.objs[h]? = some o →
        ¬ (o.view.Mem b i ∧ validSel G o (i - o.view.off) = false)) →
      (∀ (j : Nat) (oj : Obj), out = some j → s.objs[j]? = some oj → ¬ oj.validCell G b i) →
      s'.store.read b i = s.store.read b i) := by
  refine ⟨fun i x hx => views_stable hwf hs hx (by simp [moved]), ?_⟩
  intro b i hb h1 h2
  refine frame hwf hs b i hb ?_
  simp only [foot]
  rintro (⟨o, g1, g2, g3⟩ | ⟨j, oj, g1, g2, g3⟩)
  · exact h1 o g1 ⟨g2, g3⟩
  · exact h2 j oj g1 g2 g3

/-- **values of an in-place operation with a number**: after `a <op>= v` every valid cell of `a` holds
`op(old value, v)` and every ghost cell holds what it held before. -/
theorem inplace_scalar_values {s s' : State K} (hwf : WF s) {bop : BinOp} {a : Nat} {v : K}
    {k : Nat} {oa : Obj} (hoa : s.objs[a]? = some oa)
    (hs : step G s (.inplace bop a (.num v k)) = .ok s') (p : Nat) (hp : p < oa.view.len) :
    (s'.denote a)[p]? = some
      (if validSel G oa p = true then opv bop ((s.denote a)[p]?).join (some v)
       else ((s.denote a)[p]?).join) := by
  obtain ⟨hb, hsz⟩ := hwf a oa hoa
  have hden : (s.denote a)[p]? = some (s.store.read oa.view.buf (oa.view.off + p)) := by
    unfold State.denote; rw [hoa]
    exact Store.getElem?_readView _ _ p hp (by simpa using hsz)
  have hlen : (s.store.readView oa.view).length = oa.view.len :=
    Store.length_readView _ _ (by simpa using hsz)
  simp only [step, inplace] at hs
  unfold getObj at hs
  rw [hoa] at hs
  simp only at hs
  split at hs
  · cases hs
  split at hs
  · cases hs
  cases hs
  rw [denote_writeSel hwf _ _ _ hoa p hp, hden]
  have e1 : oa.view.off + p - oa.view.off = p := by omega
  simp only [e1, Option.join_some]
  have hcell : cellOf (s.store.readView oa.view) p = s.store.read oa.view.buf (oa.view.off + p) := by
    unfold cellOf
    rw [hlen, Nat.mod_eq_of_lt hp, Store.getElem?_readView _ _ p hp (by simpa using hsz)]
    rfl
  by_cases hv : validSel G oa p = true
  · rw [if_pos ⟨trivial, by omega, by omega, hv⟩, if_pos hv, hcell]
  · rw [if_neg (fun h => hv h.2.2.2), if_neg hv]

/-- **values of `a <op> v` for a field `a` and a number `v`**: the result (the new object) holds
`op(a's value, v)` at every valid cell and, at every ghost cell, `a`'s value converted to the dtype
`t` of the result (`result = a.copy(dtype=t)`, then the ufunc writes `result.data`). -/
theorem binop_scalar_values {s s' : State K} (hwf : WF s) {bop : BinOp} {a : Nat} {v : K}
    {k : Nat} {oa : Obj} (hoa : s.objs[a]? = some oa) (hc : oa.cls ≠ .coll)
    (hs : step G s (.binop bop a (.num v k)) = .ok s') :
    ∃ t : DType, ∀ p, p < oa.view.len →
      (s'.denote s.objs.length)[p]? = some
        (if validSel G oa p = true then opv bop ((s.denote a)[p]?).join (some v)
         else (((s.denote a)[p]?).join).map (DCast.dcast t)) := by
  obtain ⟨hb, hsz⟩ := hwf a oa hoa
  have hsz' : oa.view.off + oa.view.len ≤ s.store.size oa.view.buf := by simpa using hsz
  have hlen : (s.store.readView oa.view).length = oa.view.len := Store.length_readView _ _ hsz'
  simp only [step, binop] at hs
  unfold getObj at hs
  rw [hoa] at hs
  simp only at hs
  split at hs
  · cases hs
  split at hs
  · cases hs
  refine ⟨(s.store.dtOf oa.view.buf).resultScalar k, ?_⟩
  intro p hp
  have hden : (s.denote a)[p]? = some (s.store.read oa.view.buf (oa.view.off + p)) := by
    unfold State.denote; rw [hoa]
    exact Store.getElem?_readView _ _ p hp hsz'
  unfold copyThenWrite at hs
  split at hs
  · cases hs
  rename_i s1 hc1
  obtain ⟨e1, _, hf⟩ := eff_copyAny hwf hc1
  have hs1 := hf hc
  subst hs1
  split at hs
  · cases hs
  rename_i r hr
  cases hs
  have hlast : lastId (copyField s oa (some ((s.store.dtOf oa.view.buf).resultScalar k))) =
      s.objs.length := by simp [lastId, copyField, allocObj_length]
  have hr' := getObj_ok hr
  rw [hlast] at hr'
  have hr2 := hr'
  rw [copyField, allocObj_new] at hr2
  cases hr2
  have hp' : p < (castCells (some ((s.store.dtOf oa.view.buf).resultScalar k))
      (s.store.readView oa.view)).length := by rw [length_castCells, hlen]; exact hp
  rw [denote_writeSel e1.wf _ _ _ hr' p (by simpa using hp'), hden]
  simp only [Nat.zero_add, Nat.sub_zero, Option.join_some]
  -- the operand is read from memory that the copy did not touch
  have hold : (copyField s oa (some ((s.store.dtOf oa.view.buf).resultScalar k))).store.readView
      oa.view = s.store.readView oa.view := by
    refine Store.readView_congr _ _ _ hsz' ?_ ?_
    · simp only [copyField, State.allocObj]; exact Store.size_alloc_lt _ _ _ hb
    · intro i _ _; simp only [copyField, State.allocObj]; exact Store.read_alloc_lt _ _ _ i hb
  have hcell : cellOf (s.store.readView oa.view) p = s.store.read oa.view.buf (oa.view.off + p) := by
    unfold cellOf
    rw [hlen, Nat.mod_eq_of_lt hp, Store.getElem?_readView _ _ p hp hsz']
    rfl
  have hnew : (copyField s oa (some ((s.store.dtOf oa.view.buf).resultScalar k))).store.read
      s.store.next p =
      (s.store.read oa.view.buf (oa.view.off + p)).map
        (DCast.dcast ((s.store.dtOf oa.view.buf).resultScalar k)) := by
    simp only [copyField, State.allocObj, Store.read_alloc_new, castCells, List.getElem?_map,
      Store.getElem?_readView _ _ p hp hsz']
    rfl
  have hvs : ∀ (ms : List Nat) (vw : View),
      validSel G { cls := oa.cls, grid := oa.grid, ncomp := oa.ncomp, view := vw, members := ms } p =
        validSel G oa p := fun _ _ => rfl
  by_cases hv : validSel G oa p = true
  · rw [if_pos ⟨trivial, by omega, by simpa using hp', by rw [hvs]; exact hv⟩, if_pos hv, hold, hcell]
  · rw [if_neg (fun h => hv (by rw [← hvs]; exact h.2.2.2)), if_neg hv, hnew]

/-! ### values of copies -/

/-- right after `f.copy(dtype=dt)` of a field the copy reads the values of the original, every
cell (ghost cells included) converted to `dt`; without `dtype` exactly the values of the original -/
theorem copy_reads_equal {s s' : State K} (hwf : WF s) {h : Nat} {o : Obj} {dt : Option DType}
    (ho : s.objs[h]? = some o) (hc : o.cls ≠ .coll)
    (hs : step G s (.copy h dt) = .ok s') :
    s'.denote s.objs.length = castCells dt (s.denote h) := by
  simp only [step] at hs
  unfold getObj at hs
  rw [ho] at hs
  obtain ⟨_, _, hf⟩ := eff_copyAny hwf hs
  obtain rfl := hf hc
  unfold State.denote
  rw [copyField, allocObj_new, ho]
  simp only [State.allocObj, Store.readView, Store.alloc, Store.next]
  simp

/-! ### the same statements for every reachable state (arbitrary histories from the empty state) -/

/-- a collection returned by any operation after any history stays linked to its members through
any later history in which none of its members is handed to another
`FieldCollection(..., copy_fields=False)` -/
theorem collection_layout_history (ops₁ : List (Op K)) {op : Op K} {s' : State K}
    (h : step G (run G ({} : State K) ops₁) op = .ok s')
    (hnew : (run G ({} : State K) ops₁).objs.length < s'.objs.length) {oc : Obj}
    (hoc : s'.objs[lastId s']? = some oc) (hc : oc.cls = .coll) (ops₂ : List (Op K))
    (hns : NoSteal G (lastId s') s' ops₂) : Linked (run G s' ops₂) (lastId s') :=
  collection_layout (wf_step (reachable_wf ops₁) h)
    (new_collection_linked (reachable_wf ops₁) h hnew hoc hc) ops₂ hns

theorem write_visible_through_alias_history (ops : List (Op K)) {s' : State K} {h₁ h₂ : Nat}
    {o₁ o₂ : Obj} (ho₁ : (run G ({} : State K) ops).objs[h₁]? = some o₁)
    (ho₂ : (run G ({} : State K) ops).objs[h₂]? = some o₂) {p₁ p₂ : Nat}
    (hp₁ : p₁ < o₁.view.len) (hp₂ : p₂ < o₂.view.len) (hbuf : o₁.view.buf = o₂.view.buf)
    (hcell : o₁.view.off + p₁ = o₂.view.off + p₂) (v : K)
    (h : step G (run G ({} : State K) ops) (.writeCell h₁ p₁ v) = .ok s') :
    (s'.denote h₂)[p₂]? = some (some v) :=
  write_visible_through_alias (reachable_wf ops) ho₁ ho₂ hp₁ hp₂ hbuf hcell v h

theorem frame_history (ops : List (Op K)) {op : Op K} {s' : State K}
    (h : step G (run G ({} : State K) ops) op = .ok s') (b i : Nat)
    (hb : b < (run G ({} : State K) ops).store.next)
    (hn : ¬ foot G (run G ({} : State K) ops) op b i) :
    s'.store.read b i = (run G ({} : State K) ops).store.read b i :=
  frame (reachable_wf ops) h b i hb hn

theorem binary_op_pure_history (ops : List (Op K)) {s' : State K} {bop : BinOp} {a : Nat}
    {b : Operand K} (hs : step G (run G ({} : State K) ops) (.binop bop a b) = .ok s') :
    ∀ h, h < (run G ({} : State K) ops).objs.length →
      s'.denote h = (run G ({} : State K) ops).denote h :=
  (binary_op_pure (reachable_wf ops) hs).2.2

end

/-! ### non-vacuity: concrete histories (values in `Int`) -/

/-- the examples use integers; no conversion loses anything -/
instance : DCast Int := ⟨fun _ x => x⟩

/-- a 1-d grid with two cells (padded: ghost, cell, cell, ghost) -/
def exGrid : List Grid := [⟨[false, true, true, false], 1⟩]

/-- two scalar fields, a collection linking them, a write through the first member, a slice,
a write through the slice's member -/
def exOps : List (Op Int) :=
  [ .mkField .scalar 0 none false (.valid [0, 1, 2, 0]),
    .mkField .scalar 0 none false .zeros,
    .mkColl [0, 1] false none,
    .writeCell 0 1 7,
    .slice 2 [1],
    .writeCell 3 2 9,
    .inplace .add 0 (.num 10 0),
    .binop .mul 2 (.obj 0) ]

/-- the write through member 0 is read through the collection (handle 2); ghost cells of field 0
were never written; the slice (handles 3, 4) is detached from the original and linked to its own
member; the in-place addition changed valid cells only -/
example : (run exGrid {} exOps).denote 2 =
    [none, some 17, some 12, none, some 0, some 0, some 0, some 0] := by decide +kernel
example : (run exGrid {} exOps).denote 4 = [some 0, some 0, some 9, some 0] := by decide +kernel
example : (run exGrid {} exOps).denote 3 = [some 0, some 0, some 9, some 0] := by decide +kernel
example : aliases (run exGrid {} exOps) 0 2 = true ∧ aliases (run exGrid {} exOps) 3 4 = true ∧
    aliases (run exGrid {} exOps) 3 2 = false ∧ aliases (run exGrid {} exOps) 0 1 = false := by
  decide +kernel
/-- the product collection (handle 7, members 5 and 6): fresh, linked, ghost cells copied -/
example : (run exGrid {} exOps).denote 7 =
    [none, some 289, some 144, none, some 0, some 0, some 0, some 0] := by decide +kernel
example : aliases (run exGrid {} exOps) 7 2 = false ∧ aliases (run exGrid {} exOps) 5 7 = true := by
  decide +kernel
/-- the hypotheses of `collection_layout` are satisfiable: the collection of the example is linked
from its creation on and no later operation of the history steals a member -/
example : NoSteal exGrid 2 (run exGrid {} (exOps.take 3)) (exOps.drop 3) := by
  simp only [NoSteal, exOps, List.drop, List.take, moved]
  simp
/-- `copy.deepcopy` of the collection (handle 2): new member objects 8, 9 and collection 10, linked
to each other, detached from the original -/
example : aliases (run exGrid {} (exOps ++ [.deepcopy 2])) 8 10 = true ∧
    aliases (run exGrid {} (exOps ++ [.deepcopy 2])) 9 10 = true ∧
    aliases (run exGrid {} (exOps ++ [.deepcopy 2])) 10 2 = false ∧
    aliases (run exGrid {} (exOps ++ [.deepcopy 2])) 8 0 = false ∧
    (run exGrid {} (exOps ++ [.deepcopy 2])).denote 10 = (run exGrid {} exOps).denote 2 := by
  decide +kernel
/-- documented re-linking: handing member 0 to a second collection detaches it from the first -/
example : aliases (run exGrid {} (exOps.take 3 ++ [.mkColl [0] false none])) 0 2 = false ∧
    aliases (run exGrid {} (exOps.take 3 ++ [.mkColl [0] false none])) 0 3 = true := by
  decide +kernel

/-- a vector field on a 1-d grid, its component view (handle 1), writes through both -/
def exComp : List (Op Int) :=
  [ .mkField .vector 0 none false (.valid [0, 1, 2, 0]),
    .component 0 0,
    .writeCell 1 1 5,
    .inplace .add 0 (.num 10 0) ]

/-- the hypotheses of `component_alias_history` are satisfiable (no operation of the history
re-links the field or the view), and the conclusion is what the model computes -/
example : ∀ op ∈ exComp.drop 2, ¬ moved op 0 ∧ ¬ moved op 1 := by
  simp [exComp, moved]
example : aliases (run exGrid {} exComp) 0 1 = true ∧
    (run exGrid {} exComp).denote 1 = [none, some 15, some 12, none] := by decide +kernel
/-- `component_detached_by_relinking`: the hypothesis of `component_alias_history` is necessary.
`c = v[0]; FieldCollection([v])` gives `v` a new array (the collection's), `c` keeps the old one:
afterwards the two share no memory and a write through `c` is not read through `v`.  This is what
pde/fields/collection.py:123-126 does (known finding of C15, reported by the monitor). -/
example : aliases (run exGrid {} (exComp.take 2)) 0 1 = true ∧
    aliases (run exGrid {} (exComp.take 2 ++ [.mkColl [0] false none])) 0 1 = false ∧
    (run exGrid {} (exComp.take 2 ++ [.mkColl [0] false none, .writeCell 1 1 5])).denote 0 =
      [none, some 1, some 2, none] := by decide +kernel

/-- `DataLive` is a real constraint: the state the code produced before /repo 129e75d
(`__setstate__` restored `__dict__` only, so `_data_valid` of a deep copy was an array of its own)
is a state of the model - and it is not `DataLive` -/
example : ¬ DataLive ({ store := ⟨[⟨[some 1, some 2], .f64⟩, ⟨[some 1, some 2], .f64⟩]⟩
                        objs := [{ cls := .scalar, grid := 0, ncomp := 1, view := ⟨0, 0, 2⟩ }]
                        dviews := [⟨1, 0, 2⟩] } : State Int) := by
  unfold DataLive; decide
example : DataLive (run exGrid {} (exOps ++ [.deepcopy 2])) ∧
    (run exGrid {} (exOps ++ [.deepcopy 2])).dviews.length = 11 := by
  unfold DataLive; decide +kernel
/-- `tensor[1, 0]` on a 2-d grid (one cell, padded 3 x 3 = 9 cells per component) is component 2:
handle 1 looks at cells 18..26 of the tensor's array; an operator result (handle 2, written to
valid cells only) and `to_scalar` (handle 3) are fresh -/
def exGrid2 : List Grid := [⟨[false, false, false, false, true, false, false, false, false], 2⟩]
def exTensor : List (Op Int) :=
  [ .mkField .tensor 0 none false .zeros,
    .tcomponent 0 1 0,
    .applyOperator 0 [some 7] .vector none (List.replicate 18 3),
    .derive 0 .scalar false (List.replicate 9 4) ]
example : ((run exGrid2 {} exTensor).objs.map (·.view)) =
    [⟨0, 0, 36⟩, ⟨0, 18, 9⟩, ⟨1, 0, 18⟩, ⟨2, 0, 9⟩] ∧
    (run exGrid2 {} exTensor).denote 2 =
      [none, none, none, none, some 3, none, none, none, none,
       none, none, none, none, some 3, none, none, none, none] ∧
    ((run exGrid2 {} exTensor).denote 0).take 2 = [some 7, some 0] := by decide +kernel

/-! ## containers handed out and taken by the API (list objects; `Model/HandOut.lean`) -/

section
variable {K : Type} [Add K] [Sub K] [Mul K] [Div K] [Neg K] [NatCast K] [DCast K]
variable {G : List Grid}

/-! ### containers handed out and taken by the API -/

/-- no list object of the caller is the member list of a collection -/
def AllDetached (w : World K) : Prop := ∀ L ∈ w.lists, L.owners = []

theorem setMembers_nil (s : State K) (ms : List Nat) : setMembers s [] ms = s := rfl

theorem xrun_cons (a : Bool) (w : World K) (op : XOp K) (ops : List (XOp K)) :
    xrun a G w (op :: ops) =
      xrun a G (match xstep a G w op with | .ok w' => w' | .error _ => w) ops := by
  simp only [xrun]; cases xstep a G w op <;> rfl

theorem xrun_append (a : Bool) (w : World K) (ops₁ ops₂ : List (XOp K)) :
    xrun a G w (ops₁ ++ ops₂) = xrun a G (xrun a G w ops₁) ops₂ := by
  induction ops₁ generalizing w with
  | nil => rfl
  | cons op ops ih => simp only [List.cons_append, xrun_cons, ih]

/-- `lst = fc.fields` / `list(fc.labels)`: nothing in the world changes; the caller holds one more list
object, it reads the members in order and it is the member list of no collection -/
theorem handOut_spec {w w' : World K} {kind : ListKind} {c : Nat} (h : handOut w kind c = .ok w') :
    w'.heap = w.heap ∧ ∃ o, w.heap.objs[c]? = some o ∧ o.cls = .coll ∧
      w'.lists = w.lists ++ [⟨kind, o.members, []⟩] := by
  unfold handOut getObj at h
  cases ho : w.heap.objs[c]? with
  | none => simp [ho] at h
  | some o =>
    simp only [ho] at h
    by_cases hc : o.cls = .coll
    · simp only [hc, beq_self_eq_true, if_true, Except.ok.injEq] at h
      subst h
      exact ⟨rfl, o, rfl, hc, rfl⟩
    · have : (o.cls == Cls.coll) = false := by simpa using hc
      simp [this] at h

theorem fieldsOf_spec {a : Bool} {w w' : World K} {c : Nat} (h : xstep a G w (.fieldsOf c) = .ok w') :
    w'.heap = w.heap ∧ ∃ o, w.heap.objs[c]? = some o ∧ o.cls = .coll ∧
      w'.lists = w.lists ++ [⟨.fields, o.members, []⟩] := handOut_spec h

theorem labelsOf_spec {a : Bool} {w w' : World K} {c : Nat} (h : xstep a G w (.labelsOf c) = .ok w') :
    w'.heap = w.heap ∧ ∃ o, w.heap.objs[c]? = some o ∧ o.cls = .coll ∧
      w'.lists = w.lists ++ [⟨.labels, o.members, []⟩] := handOut_spec h

/-- what an in-place operation on list object `l` does -/
theorem edit_spec {a : Bool} {w w' : World K} {l : Nat} {e : ListEdit}
    (h : xstep a G w (.edit l e) = .ok w') :
    ∃ L items, w.lists[l]? = some L ∧ e.apply L.items = .ok items ∧
      w'.heap = setMembers w.heap L.owners items ∧
      w'.lists = w.lists.modify l (fun L => { L with items := items }) := by
  simp only [xstep] at h
  cases hl : w.lists[l]? with
  | none => simp [hl] at h
  | some L =>
    simp only [hl] at h
    cases he : e.apply L.items with
    | error er => simp [he] at h
    | ok items =>
      simp only [he, Except.ok.injEq] at h
      subst h
      exact ⟨L, items, rfl, he, rfl, rfl⟩

/-- **a list without owner is a copy**: an in-place operation on it changes nothing in the heap - no
cell, no view, no object, no member list of any collection -/
theorem edit_detached {a : Bool} {w w' : World K} {l : Nat} {e : ListEdit} {L : PyList}
    (hl : w.lists[l]? = some L) (hd : L.owners = [])
    (h : xstep a G w (.edit l e) = .ok w') : w'.heap = w.heap := by
  obtain ⟨L', items, hl', _, hh, _⟩ := edit_spec h
  rw [hl] at hl'; cases hl'
  rw [hh, hd]; rfl

/-- an in-place operation on list `l` leaves every other list object as it is, and the edited one
keeps its kind and its owners -/
theorem edit_other_lists {a : Bool} {w w' : World K} {l : Nat} {e : ListEdit}
    (h : xstep a G w (.edit l e) = .ok w') :
    (∀ j, j ≠ l → w'.lists[j]? = w.lists[j]?) ∧
    (w'.lists[l]?).map (fun L => (L.kind, L.owners)) = (w.lists[l]?).map (fun L => (L.kind, L.owners)) := by
  obtain ⟨L, items, hl, _, _, hls⟩ := edit_spec h
  rw [hls]
  refine ⟨fun j hj => ?_, ?_⟩
  · rw [List.getElem?_modify]; simp [Ne.symm hj]
  · rw [List.getElem?_modify]; simp [hl]

theorem foldl_modify_members_length (cs : List Nat) (ms : List Nat) (objs : List Obj) :
    (cs.foldl (fun objs c => objs.modify c (fun o => { o with members := ms })) objs).length = objs.length := by
  induction cs generalizing objs with
  | nil => rfl
  | cons c cs ih => simp only [List.foldl_cons, ih, List.length_modify]

theorem foldl_modify_members_get (cs : List Nat) (ms : List Nat) (objs : List Obj) (i : Nat) :
    (cs.foldl (fun objs c => objs.modify c (fun o => { o with members := ms })) objs)[i]? =
      (objs[i]?).map (fun o => if i ∈ cs then { o with members := ms } else o) := by
  induction cs generalizing objs with
  | nil => simp
  | cons c cs ih =>
    simp only [List.foldl_cons, ih, List.getElem?_modify, List.mem_cons]
    by_cases hci : c = i
    · subst hci
      cases objs[c]? with
      | none => simp
      | some o => by_cases hm : c ∈ cs <;> simp [hm]
    · have : ¬ i = c := fun h => hci h.symm
      simp [hci, this]

/-- **an in-place list operation never touches memory**, whoever owns the list: the store, the array
every object looks at and the array its `data` was carved from are unchanged, classes, grids and
component counts too; the only thing that can change is the `members` entry of the owners -/
theorem edit_never_touches_memory {a : Bool} {w w' : World K} {l : Nat} {e : ListEdit}
    (h : xstep a G w (.edit l e) = .ok w') :
    w'.heap.store = w.heap.store ∧ w'.heap.dviews = w.heap.dviews ∧
    w'.heap.objs.length = w.heap.objs.length ∧
    ∀ i : Nat, (w'.heap.objs[i]?).map (fun o : Obj => (o.cls, o.grid, o.ncomp, o.view)) =
         (w.heap.objs[i]?).map (fun o : Obj => (o.cls, o.grid, o.ncomp, o.view)) := by
  obtain ⟨L, items, _, _, hh, _⟩ := edit_spec h
  rw [hh]
  refine ⟨rfl, rfl, foldl_modify_members_length _ _ _, fun i => ?_⟩
  simp only [setMembers, foldl_modify_members_get]
  cases w.heap.objs[i]? with
  | none => rfl
  | some o => by_cases hm : i ∈ L.owners <;> simp [hm]

/-- an edit of a list that IS the member list of collection `c` is an edit of the collection -/
theorem edit_owned_changes_members {a : Bool} {w w' : World K} {l c : Nat} {e : ListEdit} {L : PyList}
    {o : Obj} (hl : w.lists[l]? = some L) (hc : c ∈ L.owners) (ho : w.heap.objs[c]? = some o)
    (h : xstep a G w (.edit l e) = .ok w') :
    ∃ items, e.apply L.items = .ok items ∧ w'.heap.objs[c]? = some { o with members := items } := by
  obtain ⟨L', items, hl', he, hh, _⟩ := edit_spec h
  rw [hl] at hl'; cases hl'
  refine ⟨items, he, ?_⟩
  rw [hh]; simp only [setMembers, foldl_modify_members_get, ho, Option.map_some, hc, if_true]

/-- the operation makes list object `l` the member list of a collection -/
def keeps (a : Bool) (l : Nat) : XOp K → Prop
  | .mkCollFrom l' cp _ => a = true ∧ l' = l ∧ cp = false
  | _ => False

/-- the owners of a list object change only when the list is handed to a constructor that keeps it -/
theorem owners_step {a : Bool} {w w' : World K} {op : XOp K} {l : Nat} (hl : l < w.lists.length)
    (hk : ¬ keeps a l op) (h : xstep a G w op = .ok w') :
    (w'.lists[l]?).map (·.owners) = (w.lists[l]?).map (·.owners) := by
  cases op with
  | heap o =>
    simp only [xstep] at h
    cases hs : step G w.heap o with
    | error e => simp [hs] at h
    | ok s' => simp only [hs, Except.ok.injEq] at h; subst h; rfl
  | fieldsOf c =>
    obtain ⟨_, o, _, _, hls⟩ := fieldsOf_spec h
    rw [hls, List.getElem?_append_left hl]
  | labelsOf c =>
    obtain ⟨_, o, _, _, hls⟩ := labelsOf_spec h
    rw [hls, List.getElem?_append_left hl]
  | userList hs =>
    simp only [xstep, Except.ok.injEq] at h; subst h
    simp only [List.getElem?_append_left hl]
  | mkCollFrom l' cp dt =>
    simp only [xstep] at h
    cases hl' : w.lists[l']? with
    | none => simp [hl'] at h
    | some L =>
      simp only [hl'] at h
      split at h
      · simp at h
      · cases hm : mkColl w.heap L.items cp dt with
        | error e => simp [hm] at h
        | ok s' =>
          simp only [hm] at h
          split at h
          · rename_i hcond
            simp only [Except.ok.injEq] at h; subst h
            simp only [List.getElem?_modify]
            by_cases hll : l' = l
            · exfalso; apply hk
              simp only [Bool.and_eq_true, Bool.not_eq_true', decide_eq_true_eq] at hcond
              exact ⟨hcond.1.1, hll, hcond.1.2⟩
            · simp [hll]
          · simp only [Except.ok.injEq] at h; subst h; rfl
  | edit l' e =>
    by_cases hll : l' = l
    · subst hll
      have := (edit_other_lists h).2
      simpa [Option.map_map, Function.comp_def] using congrArg (Option.map Prod.snd) this
    · rw [(edit_other_lists h).1 l (fun h' => hll h'.symm)]

theorem lists_length_step {a : Bool} {w w' : World K} {op : XOp K} (h : xstep a G w op = .ok w') :
    w.lists.length ≤ w'.lists.length := by
  cases op with
  | heap o =>
    simp only [xstep] at h
    cases hs : step G w.heap o with
    | error e => simp [hs] at h
    | ok s' => simp only [hs, Except.ok.injEq] at h; subst h; exact Nat.le_refl _
  | fieldsOf c => obtain ⟨_, o, _, _, hls⟩ := fieldsOf_spec h; rw [hls]; simp
  | labelsOf c => obtain ⟨_, o, _, _, hls⟩ := labelsOf_spec h; rw [hls]; simp
  | userList hs => simp only [xstep, Except.ok.injEq] at h; subst h; simp
  | mkCollFrom l' cp dt =>
    simp only [xstep] at h
    cases hl' : w.lists[l']? with
    | none => simp [hl'] at h
    | some L =>
      simp only [hl'] at h
      split at h
      · simp at h
      · cases hm : mkColl w.heap L.items cp dt with
        | error e => simp [hm] at h
        | ok s' =>
          simp only [hm] at h
          split at h
          · simp only [Except.ok.injEq] at h; subst h; simp
          · simp only [Except.ok.injEq] at h; subst h; exact Nat.le_refl _
  | edit l' e =>
    obtain ⟨_, _, _, _, _, hls⟩ := edit_spec h
    rw [hls]; simp

/-- a list object that is never handed to a constructor that keeps it has the same owners after every
history -/
theorem owners_xrun {a : Bool} {w : World K} {l : Nat} (hl : l < w.lists.length)
    (ops : List (XOp K)) (hk : ∀ op ∈ ops, ¬ keeps a l op) :
    ((xrun a G w ops).lists[l]?).map (·.owners) = (w.lists[l]?).map (·.owners) := by
  induction ops generalizing w with
  | nil => rfl
  | cons op ops ih =>
    rw [xrun_cons]
    cases hs : xstep a G w op with
    | error e => exact ih hl (fun o ho => hk o (List.mem_cons_of_mem _ ho))
    | ok w' =>
      simp only
      rw [ih (Nat.lt_of_lt_of_le hl (lists_length_step hs)) (fun o ho => hk o (List.mem_cons_of_mem _ ho))]
      exact owners_step hl (hk op List.mem_cons_self) hs

/-- **C15, handed-out containers: the list returned by `fc.fields` is a copy.**  Whatever the caller
does afterwards (any history `ops` of heap operations, further hand-outs, constructions from lists,
edits of this or other lists - as long as this list object is not itself handed to a constructor that
keeps it), every in-place operation on the list leaves the whole heap as it is: no cell, no view, no
object and no member list of any collection changes.  Holds for both constructors (`a`). -/
theorem handed_out_list_is_a_copy {a : Bool} {w w₁ w₂ : World K} {c : Nat}
    (h : xstep a G w (.fieldsOf c) = .ok w₁) (ops : List (XOp K))
    (hk : ∀ op ∈ ops, ¬ keeps a w.lists.length op) {e : ListEdit}
    (he : xstep a G (xrun a G w₁ ops) (.edit w.lists.length e) = .ok w₂) :
    w₂.heap = (xrun a G w₁ ops).heap := by
  obtain ⟨_, o, _, _, hls⟩ := fieldsOf_spec h
  have hlen : w.lists.length < w₁.lists.length := by rw [hls]; simp
  have hown := owners_xrun (G := G) hlen ops hk
  rw [hls] at hown
  simp only [List.getElem?_concat_length, Option.map_some] at hown
  obtain ⟨L, items, hl, _, _, _⟩ := edit_spec he
  rw [hl] at hown
  simp only [Option.map_some, Option.some.injEq] at hown
  exact edit_detached hl hown he

/-- the same for the list of labels (`list(fc.labels)`, `fc.labels[:]`) -/
theorem handed_out_labels_are_a_copy {a : Bool} {w w₁ w₂ : World K} {c : Nat}
    (h : xstep a G w (.labelsOf c) = .ok w₁) (ops : List (XOp K))
    (hk : ∀ op ∈ ops, ¬ keeps a w.lists.length op) {e : ListEdit}
    (he : xstep a G (xrun a G w₁ ops) (.edit w.lists.length e) = .ok w₂) :
    w₂.heap = (xrun a G w₁ ops).heap := by
  obtain ⟨_, o, _, _, hls⟩ := labelsOf_spec h
  have hlen : w.lists.length < w₁.lists.length := by rw [hls]; simp
  have hown := owners_xrun (G := G) hlen ops hk
  rw [hls] at hown
  simp only [List.getElem?_concat_length, Option.map_some] at hown
  obtain ⟨L, items, hl, _, _, _⟩ := edit_spec he
  rw [hl] at hown
  simp only [Option.map_some, Option.some.injEq] at hown
  exact edit_detached hl hown he

/-! the constructor that stores a list of its own (`adopts = false`): no list object of the caller is
ever shared, so no list operation whatsoever changes the world, and the heap of such a history is the
heap of a history of the heap model - every theorem above about all histories applies -/

theorem allDetached_step {w w' : World K} {op : XOp K} (hd : AllDetached w)
    (h : xstep false G w op = .ok w') : AllDetached w' := by
  cases op with
  | heap o =>
    simp only [xstep] at h
    cases hs : step G w.heap o with
    | error e => simp [hs] at h
    | ok s' => simp only [hs, Except.ok.injEq] at h; subst h; exact hd
  | fieldsOf c =>
    obtain ⟨_, o, _, _, hls⟩ := fieldsOf_spec h
    intro L hL; rw [hls, List.mem_append] at hL
    rcases hL with hL | hL
    · exact hd L hL
    · simp only [List.mem_singleton] at hL; subst hL; rfl
  | labelsOf c =>
    obtain ⟨_, o, _, _, hls⟩ := labelsOf_spec h
    intro L hL; rw [hls, List.mem_append] at hL
    rcases hL with hL | hL
    · exact hd L hL
    · simp only [List.mem_singleton] at hL; subst hL; rfl
  | userList hs =>
    simp only [xstep, Except.ok.injEq] at h; subst h
    intro L hL; simp only [List.mem_append, List.mem_singleton] at hL
    rcases hL with hL | hL
    · exact hd L hL
    · subst hL; rfl
  | mkCollFrom l' cp dt =>
    simp only [xstep] at h
    cases hl' : w.lists[l']? with
    | none => simp [hl'] at h
    | some L =>
      simp only [hl'] at h
      split at h
      · simp at h
      · cases hm : mkColl w.heap L.items cp dt with
        | error e => simp [hm] at h
        | ok s' =>
          simp only [hm, Bool.false_and, Bool.false_eq_true, if_false, Except.ok.injEq] at h
          subst h; exact hd
  | edit l' e =>
    obtain ⟨L, items, hl, _, _, _⟩ := edit_spec h
    intro L' hL'
    obtain ⟨j, hj⟩ := List.getElem?_of_mem hL'
    by_cases hjl : j = l'
    · subst hjl
      have := (edit_other_lists h).2
      rw [hj, hl] at this
      simp only [Option.map_some, Option.some.injEq, Prod.mk.injEq] at this
      rw [this.2]; exact hd L (List.mem_of_getElem? hl)
    · rw [(edit_other_lists h).1 j hjl] at hj
      exact hd L' (List.mem_of_getElem? hj)

theorem allDetached_xrun {w : World K} (hd : AllDetached w) (ops : List (XOp K)) :
    AllDetached (xrun false G w ops) := by
  induction ops generalizing w with
  | nil => exact hd
  | cons op ops ih =>
    rw [xrun_cons]
    cases hs : xstep false G w op with
    | error e => exact ih hd
    | ok w' => exact ih (allDetached_step hd hs)

/-- **no operation on any list of the caller changes the world** (constructor with a list of its
own): after every history, for every list object and every in-place operation -/
theorem no_list_edit_changes_world {w : World K} (hd : AllDetached w) (ops : List (XOp K))
    {l : Nat} {e : ListEdit} {w' : World K}
    (h : xstep false G (xrun false G w ops) (.edit l e) = .ok w') :
    w'.heap = (xrun false G w ops).heap := by
  obtain ⟨L, _, hl, _, _, _⟩ := edit_spec h
  exact edit_detached hl (allDetached_xrun hd ops L (List.mem_of_getElem? hl)) h

theorem run_append (s : State K) (ops₁ ops₂ : List (Op K)) :
    run G s (ops₁ ++ ops₂) = run G (run G s ops₁) ops₂ := by
  induction ops₁ generalizing s with
  | nil => rfl
  | cons op ops ih => simp only [List.cons_append, run_cons, ih]

/-- **composition with the heap model**: the heap of a history with list objects is the heap of a
history of `Heap.step` operations alone (hand-outs and list edits drop out, a construction from a list
is the constructor on the items the list holds at that moment) -/
theorem xrun_heap_is_run {w : World K} (hd : AllDetached w) (ops : List (XOp K)) :
    ∃ ops' : List (Op K), (xrun false G w ops).heap = run G w.heap ops' := by
  induction ops generalizing w with
  | nil => exact ⟨[], rfl⟩
  | cons op ops ih =>
    rw [xrun_cons]
    cases hs : xstep false G w op with
    | error e => exact ih hd
    | ok w' =>
      simp only
      obtain ⟨ops', h'⟩ := ih (allDetached_step hd hs)
      have key : ∃ pre : List (Op K), w'.heap = run G w.heap pre := by
        cases op with
        | heap o =>
          simp only [xstep] at hs
          cases hst : step G w.heap o with
          | error e => simp [hst] at hs
          | ok s' =>
            simp only [hst, Except.ok.injEq] at hs; subst hs
            exact ⟨[o], by simp [run, hst]⟩
        | fieldsOf c => exact ⟨[], (fieldsOf_spec hs).1⟩
        | labelsOf c => exact ⟨[], (labelsOf_spec hs).1⟩
        | userList hs' => simp only [xstep, Except.ok.injEq] at hs; subst hs; exact ⟨[], rfl⟩
        | mkCollFrom l' cp dt =>
          simp only [xstep] at hs
          cases hl' : w.lists[l']? with
          | none => simp [hl'] at hs
          | some L =>
            simp only [hl'] at hs
            split at hs
            · simp at hs
            · cases hm : mkColl w.heap L.items cp dt with
              | error e => simp [hm] at hs
              | ok s' =>
                simp only [hm, Bool.false_and, Bool.false_eq_true, if_false, Except.ok.injEq] at hs
                subst hs
                exact ⟨[.mkColl L.items cp dt], by simp [run, step, hm]⟩
        | edit l' e =>
          obtain ⟨L, _, hl, _, _, _⟩ := edit_spec hs
          exact ⟨[], edit_detached hl (hd L (List.mem_of_getElem? hl)) hs⟩
      obtain ⟨pre, hpre⟩ := key
      refine ⟨pre ++ ops', ?_⟩
      rw [h', hpre]
      exact (run_append w.heap pre ops').symm

/-- the invariants of the heap model hold after every history with list objects (constructor with a
list of its own) -/
theorem inv_xrun {w : World K} (hd : AllDetached w) (hi : Inv G w.heap) (ops : List (XOp K)) :
    Inv G (xrun false G w ops).heap := by
  obtain ⟨ops', h⟩ := xrun_heap_is_run (G := G) hd ops
  rw [h]; exact inv_run hi ops'

theorem dataLive_xrun {w : World K} (hd : AllDetached w) (hl : DataLive w.heap) (ops : List (XOp K)) :
    DataLive (xrun false G w ops).heap := by
  obtain ⟨ops', h⟩ := xrun_heap_is_run (G := G) hd ops
  rw [h]; exact dataLive_run hl ops'

theorem allDetached_empty : AllDetached ({} : World K) := fun _ h => by simp at h

/-- the constructor that keeps the list of its caller (`self._fields = fields`, collection.py:99):
after `FieldCollection(lst)` (`copy_fields=False`, pairwise different fields) the new collection - the
last object - is an owner of `lst`; by `edit_owned_changes_members` every later in-place operation on
`lst` re-writes its member list while `edit_never_touches_memory` leaves the layout as built -/
theorem caller_list_kept {w w' : World K} {l : Nat} {L : PyList} {dt : Option DType}
    (hl : w.lists[l]? = some L) (hk : L.kind ≠ .labels) (hn : L.items.Nodup)
    (h : xstep true G w (.mkCollFrom l false dt) = .ok w') :
    w'.lists[l]? = some { L with owners := L.owners ++ [w'.heap.objs.length - 1] } := by
  simp only [xstep, hl] at h
  have hk' : (L.kind == ListKind.labels) = false := by simpa using hk
  simp only [hk', Bool.false_eq_true, if_false] at h
  cases hm : mkColl w.heap L.items false dt with
  | error e => simp [hm] at h
  | ok s' =>
    simp only [hm, Bool.true_and, Bool.not_false, decide_eq_true_eq, hn, if_true, Except.ok.injEq] at h
    subst h
    simp [hl]

end

/-! ### non-vacuity of the statements about list objects (`Int` values, one 1-d grid with 2 cells) -/

/-- two scalar fields, `lst = [f0, f1]`, `fc = FieldCollection(lst)`, `got = fc.fields` -/
def exLists : List (XOp Int) :=
  [ .heap (.mkField .scalar 0 none false (.valid [0, 1, 2, 0])),
    .heap (.mkField .scalar 0 none false (.valid [0, 3, 4, 0])),
    .userList [0, 1],
    .mkCollFrom 0 false none,
    .fieldsOf 2 ]

/-- the hypotheses of `handed_out_list_is_a_copy` are satisfiable, for both constructors: the list
`got` (list object 1) reads the members in order and has no owner; reversing it, replacing an entry,
shortening it leave the collection as it is -/
example : ∀ a : Bool,
    ((xrun a exGrid {} exLists).lists[1]?).map (fun L => (L.items, L.owners)) = some ([0, 1], []) ∧
    ((xrun a exGrid {} (exLists ++ [.edit 1 .reverse, .edit 1 (.setItem 0 1), .edit 1 (.pop none)])).heap.objs.map
        (·.members)) = [[], [], [0, 1]] ∧
    ((xrun a exGrid {} (exLists ++ [.edit 1 .reverse, .edit 1 (.setItem 0 1), .edit 1 (.pop none)])).lists[1]?).map
        (·.items) = some [1] := by decide +kernel

/-- the constructor of /repo (`adopts = true`) keeps the list of its caller: reversing `lst` (list
object 0) afterwards reverses the members of the collection while field 0 still looks at block 0
of the collection's array and field 1 at block 1 - "the layout fixed as fields in order" is lost;
with a constructor that stores a list of its own (`adopts = false`) nothing happens -/
example :
    ((xrun true exGrid {} (exLists ++ [.edit 0 .reverse])).heap.objs.map (·.members)) = [[], [], [1, 0]] ∧
    ((xrun true exGrid {} (exLists ++ [.edit 0 .reverse])).heap.objs.map (·.view)) =
      [⟨2, 0, 4⟩, ⟨2, 4, 4⟩, ⟨2, 0, 8⟩] ∧
    ((xrun false exGrid {} (exLists ++ [.edit 0 .reverse])).heap.objs.map (·.members)) = [[], [], [0, 1]] := by
  decide +kernel

/-- the hypothesis "no owner" of `edit_detached` is necessary, and the state a `fields` property
that returns the member list itself would produce is a state of the model: the same world with list
object 1 owned by the collection - popping from the handed-out list shortens the collection -/
example :
    let w := xrun false exGrid {} exLists
    let w' : World Int := { w with lists := w.lists.modify 1 (fun L => { L with owners := [2] }) }
    ((xrun false exGrid w' [.edit 1 (.pop none)]).heap.objs.map (·.members)) = [[], [], [0]] ∧
    ((xrun false exGrid w [.edit 1 (.pop none)]).heap.objs.map (·.members)) = [[], [], [0, 1]] := by
  decide +kernel

/-- `AllDetached` holds in the empty world and `keeps` is decidable on a concrete history -/
example : ∀ op ∈ exLists ++ [XOp.edit 1 .reverse], ¬ keeps true 1 op := by
  intro op h; simp only [exLists, List.cons_append, List.nil_append, List.mem_cons, List.not_mem_nil, or_false] at h
  rcases h with h | h | h | h | h | h <;> subst h <;> simp [keeps]

end PdeVerif.Heap
