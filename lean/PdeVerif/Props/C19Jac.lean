import PdeVerif.Model.CoordsBi
import PdeVerif.Props.C19
import Mathlib.Analysis.SpecialFunctions.Trigonometric.DerivHyp
/-
C19, gap round (item 4 of the property: "the local bases ... equal to the normalised columns of the
mapping Jacobian"): for bipolar and bispherical coordinates the model's Jacobian (`bipolarJac`,
`bisphJac` of `Model/Coords.lean` = `_mapping_jacobian` of the code) IS the matrix of partial
derivatives of the model's `pos_to_cart` (`bipolarToCart`, `bisphToCart` of `Model/CoordsBi.lean` =
`_pos_to_cart` of the code; tied to the code by the leg `coordsys` of `harness/c19.py` through the
driver handler `c19.bipostocart`).

* `bipolar_jacobian_hasDerivAt`, `bisph_jacobian_hasDerivAt`: `K = ℝ` with Mathlib's `cos`, `sin`,
  `cosh`, `sinh`: entry `(i, j)` is `HasDerivAt` of component `i` in coordinate `j`, away from the
  foci (`cos σ - cosh τ ≠ 0`).  Same shape as `polar_jacobian_hasDerivAt` (Props/C19.lean).
* `bipolar_jacobian_derivation`, `bisph_jacobian_derivation`: the algebraic form over an arbitrary
  field: for any derivation `D` of a field `A` and elements behaving like `(cos σ, sin σ)`,
  `(cosh τ, sinh τ)`, `(cos φ, sin φ)` under `D`: `D (pos_to_cart) = J · (Dσ, Dτ, Dφ)` (chain rule).
-/
set_option linter.unusedSectionVars false
set_option linter.unusedSimpArgs false
set_option linter.unusedVariables false

namespace PdeVerif.Coords
open PdeVerif

/-! ### 1. `K = ℝ` -/

section
open Real

theorem denom_ne {σ τ : ℝ} (hd : cos σ - cosh τ ≠ 0) : cosh τ - cos σ ≠ 0 := by
  intro h; apply hd; linarith

/-- `∂/∂σ (cosh τ - cos σ) = sin σ` -/
theorem hasDerivAt_denom_σ (σ τ : ℝ) : HasDerivAt (fun x => cosh τ - cos x) (sin σ) σ := by
  simpa using (hasDerivAt_cos σ).const_sub (cosh τ)

/-- `∂/∂τ (cosh τ - cos σ) = sinh τ` -/
theorem hasDerivAt_denom_τ (σ τ : ℝ) : HasDerivAt (fun t => cosh t - cos σ) (sinh τ) τ := by
  simpa using (hasDerivAt_cosh τ).sub_const (cos σ)

/-- **C19** `mapping_jacobian` of bipolar coordinates `(σ, τ)` is the derivative of `pos_to_cart`:
entry `(i, j)` is `∂x_i/∂q_j`, at every point which is not a focus -/
theorem bipolar_jacobian_hasDerivAt (a σ τ : ℝ) (hd : cos σ - cosh τ ≠ 0) (i : ℕ) (hi : i < 2) :
    HasDerivAt (fun x => compAt i (bipolarToCart a (cos x) (sin x) (cosh τ) (sinh τ)))
      (entryAt i 0 (bipolarJac a (cos σ) (sin σ) (cosh τ) (sinh τ))) σ ∧
    HasDerivAt (fun t => compAt i (bipolarToCart a (cos σ) (sin σ) (cosh t) (sinh t)))
      (entryAt i 1 (bipolarJac a (cos σ) (sin σ) (cosh τ) (sinh τ))) τ := by
  have hd' := denom_ne hd
  have hσ := hasDerivAt_denom_σ σ τ
  have hτ := hasDerivAt_denom_τ σ τ
  have hcs := sin_sq_add_cos_sq σ
  have hch := cosh_sq τ
  have h : i = 0 ∨ i = 1 := by omega
  rcases h with rfl | rfl <;>
    simp only [compAt, entryAt, bipolarToCart, bipolarJac, one, List.getD_cons_zero, List.getD_cons_succ,
      Nat.cast_one] <;> constructor
  · refine ((hasDerivAt_const σ (a * sinh τ)).div hσ hd').congr_deriv ?_
    field_simp
    ring
  · refine (((hasDerivAt_sinh τ).const_mul a).div hτ hd').congr_deriv ?_
    field_simp
    linear_combination a * (cos σ - cosh τ) ^ 2 * hch
  · refine (((hasDerivAt_sin σ).const_mul a).div hσ hd').congr_deriv ?_
    field_simp
    linear_combination (-a) * (cos σ - cosh τ) ^ 2 * hcs
  · refine ((hasDerivAt_const τ (a * sin σ)).div hτ hd').congr_deriv ?_
    field_simp
    ring

/-- **C19** the same for bispherical coordinates `(σ, τ, φ)` -/
theorem bisph_jacobian_hasDerivAt (a σ τ φ : ℝ) (hd : cos σ - cosh τ ≠ 0) (i : ℕ) (hi : i < 3) :
    HasDerivAt (fun x => compAt i (bisphToCart a (cos x) (sin x) (cosh τ) (sinh τ) (cos φ) (sin φ)))
      (entryAt i 0 (bisphJac a (cos σ) (sin σ) (cosh τ) (sinh τ) (cos φ) (sin φ))) σ ∧
    HasDerivAt (fun t => compAt i (bisphToCart a (cos σ) (sin σ) (cosh t) (sinh t) (cos φ) (sin φ)))
      (entryAt i 1 (bisphJac a (cos σ) (sin σ) (cosh τ) (sinh τ) (cos φ) (sin φ))) τ ∧
    HasDerivAt (fun ψ => compAt i (bisphToCart a (cos σ) (sin σ) (cosh τ) (sinh τ) (cos ψ) (sin ψ)))
      (entryAt i 2 (bisphJac a (cos σ) (sin σ) (cosh τ) (sinh τ) (cos φ) (sin φ))) φ := by
  have hd' := denom_ne hd
  have hσ := hasDerivAt_denom_σ σ τ
  have hτ := hasDerivAt_denom_τ σ τ
  have hcs := sin_sq_add_cos_sq σ
  have hch := cosh_sq τ
  have h : i = 0 ∨ i = 1 ∨ i = 2 := by omega
  rcases h with rfl | rfl | rfl <;>
    simp only [compAt, entryAt, bisphToCart, bisphJac, one, zero, List.getD_cons_zero, List.getD_cons_succ,
      Nat.cast_one, Nat.cast_zero] <;> refine ⟨?_, ?_, ?_⟩
  · refine ((((hasDerivAt_sin σ).const_mul a).div hσ hd').mul_const (cos φ)).congr_deriv ?_
    field_simp
    linear_combination (-a) * (cos σ - cosh τ) ^ 2 * cos φ * hcs
  · refine (((hasDerivAt_const τ (a * sin σ)).div hτ hd').mul_const (cos φ)).congr_deriv ?_
    field_simp
    ring
  · refine ((hasDerivAt_cos φ).const_mul (a * sin σ / (cosh τ - cos σ))).congr_deriv ?_
    field_simp
    ring
  · refine ((((hasDerivAt_sin σ).const_mul a).div hσ hd').mul_const (sin φ)).congr_deriv ?_
    field_simp
    linear_combination (-a) * (cos σ - cosh τ) ^ 2 * sin φ * hcs
  · refine (((hasDerivAt_const τ (a * sin σ)).div hτ hd').mul_const (sin φ)).congr_deriv ?_
    field_simp
    ring
  · refine ((hasDerivAt_sin φ).const_mul (a * sin σ / (cosh τ - cos σ))).congr_deriv ?_
    field_simp
    ring
  · refine ((hasDerivAt_const σ (a * sinh τ)).div hσ hd').congr_deriv ?_
    field_simp
    ring
  · refine (((hasDerivAt_sinh τ).const_mul a).div hτ hd').congr_deriv ?_
    field_simp
    linear_combination a * (cos σ - cosh τ) ^ 2 * hch
  · exact (hasDerivAt_const φ _).congr_deriv (by simp)

/-- the hypothesis is satisfiable: `σ = τ = 1` is not a focus (`cos 1 ≤ 1 < cosh 1`); more generally
every point with `τ ≠ 0` -/
theorem not_focus_of_ne_zero (σ : ℝ) {τ : ℝ} (hτ : τ ≠ 0) : cos σ - cosh τ ≠ 0 := by
  have h1 : cos σ ≤ 1 := cos_le_one σ
  have h2 : 1 < cosh τ := one_lt_cosh.mpr hτ
  intro h; linarith

example : cos 1 - cosh 1 ≠ 0 := not_focus_of_ne_zero 1 one_ne_zero

/-- a concrete instance of `bipolar_jacobian_hasDerivAt`: scale parameter 2 at `(σ, τ) = (1, 1)` -/
example : HasDerivAt (fun x => compAt 0 (bipolarToCart 2 (cos x) (sin x) (cosh 1) (sinh 1)))
    (entryAt 0 0 (bipolarJac 2 (cos 1) (sin 1) (cosh 1) (sinh 1))) 1 :=
  (bipolar_jacobian_hasDerivAt 2 1 1 (not_focus_of_ne_zero 1 one_ne_zero) 0 (by norm_num)).1

example : HasDerivAt (fun ψ => compAt 1 (bisphToCart 2 (cos 1) (sin 1) (cosh 1) (sinh 1) (cos ψ) (sin ψ)))
    (entryAt 1 2 (bisphJac 2 (cos 1) (sin 1) (cosh 1) (sinh 1) (cos 3) (sin 3))) 3 :=
  (bisph_jacobian_hasDerivAt 2 1 1 3 (not_focus_of_ne_zero 1 one_ne_zero) 1 (by norm_num)).2.2

end

/-! ### 2. the algebraic form: any derivation of any field

`D` is a derivation of a field `A` (a commutative `K`-algebra), `c, s, ch, sh, cp, sp ∈ A` behave under `D`
like `cos σ, sin σ, cosh τ, sinh τ, cos φ, sin φ` with `u = D σ`, `w = D τ`, `p = D φ`, the scale parameter `a` is
a constant of `D`.  Then `D` of every component of the model's `pos_to_cart` is the row of the model's Jacobian
applied to `(u, w, p)`: the chain rule, i.e. the Jacobian is the matrix of partial derivatives (take `D = ∂/∂σ`:
`u = 1, w = p = 0` gives column 0, etc.).  No analysis, arbitrary characteristic. -/

section
variable {K A : Type} [Field K] [Field A] [Algebra K A]

/-- **C19** bipolar coordinates: `D (pos_to_cart) = mapping_jacobian · (Dσ, Dτ)` -/
theorem bipolar_jacobian_derivation (D : Derivation K A A) (a c s ch sh u w : A)
    (ha : D a = 0) (hc : D c = -s * u) (hs : D s = c * u) (hch : D ch = sh * w) (hsh : D sh = ch * w)
    (h1 : c ^ 2 + s ^ 2 = 1) (h2 : ch ^ 2 - sh ^ 2 = 1) (hd : c - ch ≠ 0) :
    (bipolarToCart a c s ch sh).map D = matVec (bipolarJac a c s ch sh) [u, w] := by
  have hd' : ch - c ≠ 0 := fun h => hd (by linear_combination -h)
  simp only [bipolarToCart, bipolarJac, matVec, dotL, sumL, List.map, List.zipWith, one, zero, Nat.cast_one,
    Nat.cast_zero, Derivation.leibniz_div, Derivation.leibniz, map_sub, ha, hc, hs, hch, hsh, smul_eq_mul]
  simp only [List.cons.injEq, and_true]
  constructor
  · field_simp
    linear_combination (a * w * (c - ch) ^ 2) * h2
  · field_simp
    linear_combination (-a * u * (c - ch) ^ 2) * h1

/-- **C19** bispherical coordinates: `D (pos_to_cart) = mapping_jacobian · (Dσ, Dτ, Dφ)` -/
theorem bisph_jacobian_derivation (D : Derivation K A A) (a c s ch sh cp sp u w p : A)
    (ha : D a = 0) (hc : D c = -s * u) (hs : D s = c * u) (hch : D ch = sh * w) (hsh : D sh = ch * w)
    (hcp : D cp = -sp * p) (hsp : D sp = cp * p)
    (h1 : c ^ 2 + s ^ 2 = 1) (h2 : ch ^ 2 - sh ^ 2 = 1) (hd : c - ch ≠ 0) :
    (bisphToCart a c s ch sh cp sp).map D = matVec (bisphJac a c s ch sh cp sp) [u, w, p] := by
  have hd' : ch - c ≠ 0 := fun h => hd (by linear_combination -h)
  simp only [bisphToCart, bisphJac, matVec, dotL, sumL, List.map, List.zipWith, one, zero, Nat.cast_one,
    Nat.cast_zero, Derivation.leibniz_div, Derivation.leibniz, map_sub, ha, hc, hs, hch, hsh, hcp, hsp, smul_eq_mul]
  simp only [List.cons.injEq, and_true]
  refine ⟨?_, ?_, ?_⟩
  · field_simp
    linear_combination (-a * u * cp * (c - ch) ^ 2) * h1
  · field_simp
    linear_combination (-a * u * sp * (c - ch) ^ 2) * h1
  · field_simp
    linear_combination (a * w * (c - ch) ^ 2) * h2

/-- the algebraic hypotheses on the pairs are satisfiable over `ℚ`: `(cos σ, sin σ) = (3/5, 4/5)`,
`(cosh τ, sinh τ) = (5/3, 4/3)` -/
example : ((3 / 5 : ℚ)) ^ 2 + (4 / 5) ^ 2 = 1 ∧ ((5 / 3 : ℚ)) ^ 2 - (4 / 3) ^ 2 = 1 ∧ (3 / 5 : ℚ) - 5 / 3 ≠ 0 := by
  norm_num

/-- all hypotheses of `bisph_jacobian_derivation` hold together for the zero derivation of `ℚ` at that point (the
degenerate instance `u = w = p = 0`; the non-degenerate instances are the partial derivatives `∂/∂σ, ∂/∂τ, ∂/∂φ` of
real functions, for which section 1 proves the same conclusion with Mathlib's `HasDerivAt`) -/
example : (bisphToCart (2 : ℚ) (3 / 5) (4 / 5) (5 / 3) (4 / 3) (5 / 13) (12 / 13)).map (0 : Derivation ℚ ℚ ℚ) =
    matVec (bisphJac (2 : ℚ) (3 / 5) (4 / 5) (5 / 3) (4 / 3) (5 / 13) (12 / 13)) [0, 0, 0] :=
  bisph_jacobian_derivation 0 _ _ _ _ _ _ _ _ _ _ (by simp) (by simp) (by simp) (by simp) (by simp) (by simp) (by simp)
    (by norm_num) (by norm_num) (by norm_num)

end
end PdeVerif.Coords
