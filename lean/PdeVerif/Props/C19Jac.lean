import PdeVerif.Model.CoordsBi
import PdeVerif.Props.C19
import Mathlib.Analysis.SpecialFunctions.Trigonometric.DerivHyp
/-
C19, gap round (item 4 of the property: "the local bases ... equal to the normalised columns of the
mapping Jacobian"): for bipolar and bispherical coordinates the model's Jacobian (`bipolarJac`,
`bisphJac` of `Model/Coords.lean` = `_mapping_jacobian` of the code) IS the matrix of partial
derivatives of the model's `pos_to_cart` (`bipolarToCart`, `bisphToCart` of `Model/CoordsBi.lean` =
`_pos_to_cart` of the code; tied to the code by the leg `coordsys` of `harness/c19.py` through the
driver handler `c19.bipostocart`).

* `bipolar_jacobian_hasDerivAt`, `bisph_jacobian_hasDerivAt`: `K = ℝ` with Mathlib's `cos`, `sin`,
  `cosh`, `sinh`: entry `(i, j)` is `HasDerivAt` of component `i` in coordinate `j`, away from the
  foci (`cos σ - cosh τ ≠ 0`).  Same shape as `polar_jacobian_hasDerivAt` (Props/C19.lean).
* `bipolar_jacobian_derivation`, `bisph_jacobian_derivation`: the algebraic form over an arbitrary
  field: for any derivation `D` of a field `A` and elements behaving like `(cos σ, sin σ)`,
  `(cosh τ, sinh τ)`, `(cos φ, sin φ)` under `D`: `D (pos_to_cart) = J · (Dσ, Dτ, Dφ)` (chain rule).
-/
set_option linter.unusedSectionVars false
set_option linter.unusedSimpArgs false
set_option linter.unusedVariables false

namespace PdeVerif.Coords
open PdeVerif

/-! ### 1. `K = ℝ` -/

section
open Real

theorem denom_ne {σ τ : ℝ} (hd : cos σ - cosh τ ≠ 0) : cosh τ - cos σ ≠ 0 := by
  intro h; apply hd; linarith

/-- `∂/∂σ (cosh τ - cos σ) = sin σ` -/
theorem hasDerivAt_denom_σ (σ τ : ℝ) : HasDerivAt (fun x => cosh τ - cos x) (sin σ) σ := by
  simpa using (hasDerivAt_cos σ).const_sub (cosh τ)

/-- `∂/∂τ (cosh τ - cos σ) = sinh τ` -/
theorem hasDerivAt_denom_τ (σ τ : ℝ) : HasDerivAt (fun t => cosh t - cos σ) (sinh τ) τ := by
  simpa using (hasDerivAt_cosh τ).sub_const (cos σ)

/-- **C19** `mapping_jacobian` of bipolar coordinates `(σ, τ)` is the derivative of `pos_to_cart`:
entry `(i, j)` is `∂x_i/∂q_j`, at every point which is not a focus -/
theorem bipolar_jacobian_hasDerivAt (a σ τ : ℝ) (hd : cos σ - cosh τ ≠ 0) (i : ℕ) (hi : i < 2) :
    HasDerivAt (fun x => compAt i (bipolarToCart a (cos x) (sin x) (cosh τ) (sinh τ)))
      (entryAt i 0 (bipolarJac a (cos σ) (sin σ) (cosh τ) (sinh τ))) σ ∧
    HasDerivAt (fun t => compAt i (bipolarToCart a (cos σ) (sin σ) (cosh t) (sinh t)))
      (entryAt i 1 (bipolarJac a (cos σ) (sin σ) (cosh τ) (sinh τ))) τ := by
  have hd' := denom_ne hd
  have hσ := hasDerivAt_denom_σ σ τ
  have hτ := hasDerivAt_denom_τ σ τ
  have hcs := sin_sq_add_cos_sq σ
  have hch := cosh_sq τ
  have h : i = 0 ∨ i = 1 := by omega
  rcases h with rfl | rfl <;>
    simp only [compAt, entryAt, bipolarToCart, bipolarJac, one, List.getD_cons_zero, List.getD_cons_succ,
      Nat.cast_one] <;> constructor
  · refine ((hasDerivAt_const σ (a * sinh τ)).div hσ hd').congr_deriv ?_
    field_simp
    ring
  · refine (((hasDerivAt_sinh τ).const_mul a).div hτ hd').congr_deriv ?_
    field_simp
    linear_combination a * (cos σ - cosh τ) ^ 2 * hch
  · refine (((hasDerivAt_sin σ).const_mul a).div hσ hd').congr_deriv ?_
    field_simp
    linear_combination (-a) * (cos σ - cosh τ) ^ 2 * hcs
  · refine ((hasDerivAt_const τ (a * sin σ)).div hτ hd').congr_deriv ?_
    field_simp
    ring

/-- **C19** the same for bispherical coordinates `(σ, τ, φ)` -/
theorem bisph_jacobian_hasDerivAt (a σ τ φ : ℝ) (hd : cos σ - cosh τ ≠ 0) (i : ℕ) (hi : i < 3) :
    HasDerivAt (fun x => compAt i (bisphToCart a (cos x) (sin x) (cosh τ) (sinh τ) (cos φ) (sin φ)))
      (entryAt i 0 (bisphJac a (cos σ) (sin σ) (cosh τ) (sinh τ) (cos φ) (sin φ))) σ ∧
    HasDerivAt (fun t => compAt i (bisphToCart a (cos σ) (sin σ) (cosh t) (sinh t) (cos φ) (sin φ)))
      (entryAt i 1 (bisphJac a (cos σ) (sin σ) (cosh τ) (sinh τ) (cos φ) (sin φ))) τ ∧
    HasDerivAt (fun ψ => compAt i (bisphToCart a (cos σ) (sin σ) (cosh τ) (sinh τ) (cos ψ) (sin ψ)))
      (entryAt i 2 (bisphJac a (cos σ) (sin σ) (cosh τ) (sinh τ) (cos φ) (sin φ))) φ := by
  have hd' := denom_ne hd
  have hσ := hasDerivAt_denom_σ σ τ
  have hτ := hasDerivAt_denom_τ σ τ
  have hcs := sin_sq_add_cos_sq σ
  have hch := cosh_sq τ
  have h : i = 0 ∨ i = 1 ∨ i = 2 := by omega
  rcases h with rfl | rfl | rfl <;>
    simp only [compAt, entryAt, bisphToCart, bisphJac, one, zero, List.getD_cons_zero, List.getD_cons_succ,
      Nat.cast_one, Nat.cast_zero] <;> refine ⟨?_, ?_, ?_⟩
  · refine ((((hasDerivAt_sin σ).const_mul a).div hσ hd').mul_const (cos φ)).congr_deriv ?_
    field_simp
    linear_combination (-a) * (cos σ - cosh τ) ^ 2 * cos φ * hcs
  · refine (((hasDerivAt_const τ (a * sin σ)).div hτ hd').mul_const (cos φ)).congr_deriv ?_
    field_simp
    ring
  · refine ((hasDerivAt_cos φ).const_mul (a * sin σ / (cosh τ - cos σ))).congr_deriv ?_
    field_simp
    ring
  · refine ((((hasDerivAt_sin σ).const_mul a).div hσ hd').mul_const (sin φ)).congr_deriv ?_
    field_simp
    linear_combination (-a) * (cos σ - cosh τ) ^ 2 * sin φ * hcs
  · refine (((hasDerivAt_const τ (a * sin σ)).div hτ hd').mul_const (sin φ)).congr_deriv ?_
    field_simp
    ring
  · refine ((hasDerivAt_sin φ).const_mul (a * sin σ / (cosh τ - cos σ))).congr_deriv ?_
    field_simp
    ring
  · refine ((hasDerivAt_const σ (a * sinh τ)).div hσ hd').congr_deriv ?_
    field_simp
    ring
  · refine (((hasDerivAt_sinh τ).const_mul a).div hτ hd').congr_deriv ?_
    field_simp
    linear_combination a * (cos σ - cosh τ) ^ 2 * hch
  · exact (hasDerivAt_const φ _).congr_deriv (by simp)

/-- the hypothesis is satisfiable: `σ = τ = 1` is not a focus (`cos 1 ≤ 1 < cosh 1`); more generally
every point with `τ ≠ 0` -/
theorem not_focus_of_ne_zero (σ : ℝ) {τ : ℝ} (hτ : τ ≠ 0) : cos σ - cosh τ ≠ 0 := by
  have h1 : cos σ ≤ 1 := cos_le_one σ
  have h2 : 1 < cosh τ := one_lt_cosh.mpr hτ
  intro h; linarith

example : cos 1 - cosh 1 ≠ 0 := not_focus_of_ne_zero 1 one_ne_zero

/-- a concrete instance of `bipolar_jacobian_hasDerivAt`: scale parameter 2 at `(σ, τ) = (1, 1)` -/
example : HasDerivAt (fun x => compAt 0 (bipolarToCart 2 (cos x) (sin x) (cosh 1) (sinh 1)))
    (entryAt 0 0 (bipolarJac 2 (cos 1) (sin 1) (cosh 1) (sinh 1))) 1 :=
  (bipolar_jacobian_hasDerivAt 2 1 1 (not_focus_of_ne_zero 1 one_ne_zero) 0 (by norm_num)).1

example : HasDerivAt (fun ψ => compAt 1 (bisphToCart 2 (cos 1) (sin 1) (cosh 1) (sinh 1) (cos ψ) (sin ψ)))
    (entryAt 1 2 (bisphJac 2 (cos 1) (sin 1) (cosh 1) (sinh 1) (cos 3) (sin 3))) 3 :=
  (bisph_jacobian_hasDerivAt 2 1 1 3 (not_focus_of_ne_zero 1 one_ne_zero) 1 (by norm_num)).2.2

end

/-! ### 2. the algebraic form: any derivation of any field

`D` is a derivation of a field `A` (a commutative `K`-algebra), `c, s, ch, sh, cp, sp ∈ A` behave under `D`
like `cos σ, sin σ, cosh τ, sinh τ, cos φ, sin φ` with `u = D σ`, `w = D τ`, `p = D φ`, the scale parameter `a` is
a constant of `D`.  Then `D` of every component of the model's `pos_to_cart` is the row of the model's Jacobian
applied to `(u, w, p)`: the chain rule, i.e. the Jacobian is the matrix of partial derivatives (take `D = ∂/∂σ`:
`u = 1, w = p = 0` gives column 0, etc.).  No analysis, arbitrary characteristic. -/

section
variable {K A : Type} [Field K] [Field A] [Algebra K A]

/-- **C19** bipolar coordinates: `D (pos_to_cart) = mapping_jacobian · (Dσ, Dτ)` -/
theorem bipolar_jacobian_derivation (D : Derivation K A A) (a c s ch sh u w : A)
    (ha : D a = 0) (hc : D c = -s * u) (hs : D s = c * u) (hch : D ch = sh * w) (hsh : D sh = ch * w)
    (h1 : c ^ 2 + s ^ 2 = 1) (h2 : ch ^ 2 - sh ^ 2 = 1) (hd : c - ch ≠ 0) :
    (bipolarToCart a c s ch sh).map D = matVec (bipolarJac a c s ch sh) [u, w] := by
  have hd' : ch - c ≠ 0 := fun h => hd (by linear_combination -h)
  simp only [bipolarToCart, bipolarJac, matVec, dotL, sumL, List.map, List.zipWith, one, zero, Nat.cast_one,
    Nat.cast_zero, Derivation.leibniz_div, Derivation.leibniz, map_sub, ha, hc, hs, hch, hsh, smul_eq_mul]
  simp only [List.cons.injEq, and_true]
  constructor
  · field_simp
    linear_combination (a * w * (c - ch) ^ 2) * h2
  · field_simp
    linear_combination (-a * u * (c - ch) ^ 2) * h1

/-- **C19** bispherical coordinates: `D (pos_to_cart) = mapping_jacobian · (Dσ, Dτ, Dφ)` -/
theorem bisph_jacobian_derivation (D : Derivation K A A) (a c s ch sh cp sp u w p : A)
    (ha : D a = 0) (hc : D c = -s * u) (hs : D s = c * u) (hch : D ch = sh * w) (hsh : D sh = ch * w)
    (hcp : D cp = -sp * p) (hsp : D sp = cp * p)
    (h1 : c ^ 2 + s ^ 2 = 1) (h2 : ch ^ 2 - sh ^ 2 = 1) (hd : c - ch ≠ 0) :
    (bisphToCart a c s ch sh cp sp).map D = matVec (bisphJac a c s ch sh cp sp) [u, w, p] := by
  have hd' : ch - c ≠ 0 := fun h => hd (by linear_combination -h)
  simp only [bisphToCart, bisphJac, matVec, dotL, sumL, List.map, List.zipWith, one, zero, Nat.cast_one,
    Nat.cast_zero, Derivation.leibniz_div, Derivation.leibniz, map_sub, ha, hc, hs, hch, hsh, hcp, hsp, smul_eq_mul]
  simp only [List.cons.injEq, and_true]
  refine ⟨?_, ?_, ?_⟩
  · field_simp
    linear_combination (-a * u * cp * (c - ch) ^ 2) * h1
  · field_simp
    linear_combination (-a * u * sp * (c - ch) ^ 2) * h1
  · field_simp
    linear_combination (a * w * (c - ch) ^ 2) * h2

/-- the algebraic hypotheses on the pairs are satisfiable over `ℚ`: `(cos σ, sin σ) = (3/5, 4/5)`,
`(cosh τ, sinh τ) = (5/3, 4/3)` -/
example : ((3 / 5 : ℚ)) ^ 2 + (4 / 5) ^ 2 = 1 ∧ ((5 / 3 : ℚ)) ^ 2 - (4 / 3) ^ 2 = 1 ∧ (3 / 5 : ℚ) - 5 / 3 ≠ 0 := by
  norm_num

/-- all hypotheses of `bisph_jacobian_derivation` hold together for the zero derivation of `ℚ` at that point (the
degenerate instance `u = w = p = 0`; the non-degenerate instances are the partial derivatives `∂/∂σ, ∂/∂τ, ∂/∂φ` of
real functions, for which section 1 proves the same conclusion with Mathlib's `HasDerivAt`) -/
example : (bisphToCart (2 : ℚ) (3 / 5) (4 / 5) (5 / 3) (4 / 3) (5 / 13) (12 / 13)).map (0 : Derivation ℚ ℚ ℚ) =
    matVec (bisphJac (2 : ℚ) (3 / 5) (4 / 5) (5 / 3) (4 / 3) (5 / 13) (12 / 13)) [0, 0, 0] :=
  bisph_jacobian_derivation 0 _ _ _ _ _ _ _ _ _ _ (by simp) (by simp) (by simp) (by simp) (by simp) (by simp) (by simp)
    (by norm_num) (by norm_num) (by norm_num)

end
/-! ### 3. the component order is the order of the differential operators: polar and spherical grids

The analogue of `operators_use_component_order_cyl` (Props/C19.lean) for the other two curvilinear grid classes,
relative to C01's model of the operator kernels (`Model/Stencil.lean`, tied to
`pde/backends/numba/operators/{polar_sym,spherical_sym}.py` by the check of C01): with `ir, iθ, iφ` the indices
`get_axis_index` returns for the NAMES `r, θ, φ`,
* the divergence differentiates component `ir` (adds `a_r / r` resp. `2 a_r / r`) and reads no other component
  (all branches: conservative or not, every finite-difference method),
* the gradient of a scalar stores `∂_r` as component `ir` and `0` as the other components,
* the vector gradient and the tensor divergence pair the curvature terms with the components named `r`, `θ`, `φ`
  as the continuum formulas do (`(∇v)_φφ = v_r / r`, `(∇·T)_r = ∂_r T_rr + (T_rr - T_φφ)/r`, ...).
On these two classes `axes ++ axes_symmetric = c.axes`, so this is also the order of `_vector_to_cartesian`
(`order_consistent`). -/

section
open PdeVerif.Stencil
variable {K : Type} [Field K]

/-- **C19** polar grids: the operators act on the components in the order `get_axis_index` reports -/
theorem operators_use_component_order_polar (n : ℕ) (r : Int → K) (dr : K) (a : Arr K) (m : Method) (i : Int) :
    ∃ ir iφ : ℕ, getAxisIndex .polar n .r = some ir ∧ getAxisIndex .polar n .φ = some iφ ∧
      polarDivergence r dr a i =
        (a [(ir : Int), i+1] - a [(ir : Int), i-1]) / (((2:Nat):K) * dr) + a [(ir : Int), i] / r i ∧
      (∀ b : Arr K, (∀ k, b [(ir : Int), k] = a [(ir : Int), k]) →
        polarDivergence r dr b i = polarDivergence r dr a i) ∧
      polarGradient m dr a ir i = d1 m dr a [i] 0 ∧
      polarGradient m dr a iφ i = ((0:Nat):K) ∧
      polarVectorGradient r dr a ir ir i = (a [(ir : Int), i+1] - a [(ir : Int), i-1]) / (((2:Nat):K) * dr) ∧
      polarVectorGradient r dr a ir iφ i = -(a [(iφ : Int), i]) / r i ∧
      polarVectorGradient r dr a iφ ir i = (a [(iφ : Int), i+1] - a [(iφ : Int), i-1]) / (((2:Nat):K) * dr) ∧
      polarVectorGradient r dr a iφ iφ i = a [(ir : Int), i] / r i ∧
      polarTensorDivergence r dr a ir i =
        (a [(ir : Int), (ir : Int), i+1] - a [(ir : Int), (ir : Int), i-1]) / (((2:Nat):K) * dr)
          + (a [(ir : Int), (ir : Int), i] - a [(iφ : Int), (iφ : Int), i]) / r i ∧
      polarTensorDivergence r dr a iφ i =
        (a [(iφ : Int), (ir : Int), i+1] - a [(iφ : Int), (ir : Int), i-1]) / (((2:Nat):K) * dr)
          + (a [(ir : Int), (iφ : Int), i] + a [(iφ : Int), (ir : Int), i]) / r i := by
  refine ⟨0, 1, rfl, rfl, rfl, ?_, rfl, rfl, rfl, rfl, rfl, rfl, rfl, rfl⟩
  intro b hb
  simp only [polarDivergence]
  have := hb (i+1); have := hb (i-1); have := hb i
  simp_all

/-- **C19** spherical grids: the same -/
theorem operators_use_component_order_spherical (n : ℕ) (r : Int → K) (dr : K) (a : Arr K) (m : Method)
    (cons : Bool) (i : Int) :
    ∃ ir iθ iφ : ℕ, getAxisIndex .spherical n .r = some ir ∧ getAxisIndex .spherical n .θ = some iθ ∧
      getAxisIndex .spherical n .φ = some iφ ∧
      sphDivergence false m r dr a i = d1 m dr a [(ir : Int), i] 1 + ((2:Nat):K) / r i * a [(ir : Int), i] ∧
      (∀ b : Arr K, (∀ k, b [(ir : Int), k] = a [(ir : Int), k]) →
        sphDivergence cons m r dr b i = sphDivergence cons m r dr a i) ∧
      sphGradient m dr a ir i = d1 m dr a [i] 0 ∧
      sphGradient m dr a iθ i = ((0:Nat):K) ∧
      sphGradient m dr a iφ i = ((0:Nat):K) ∧
      sphVectorGradient m r dr a ir ir i = d1 m dr a [(ir : Int), i] 1 ∧
      sphVectorGradient m r dr a iθ iθ i = a [(ir : Int), i] / r i ∧
      sphVectorGradient m r dr a iφ iφ i = a [(ir : Int), i] / r i ∧
      sphTensorDivergence false r dr a ir i =
        (a [(ir : Int), (ir : Int), i+1] - a [(ir : Int), (ir : Int), i-1]) / (((2:Nat):K) * dr)
          + ((2:Nat):K) * (a [(ir : Int), (ir : Int), i] - a [(iφ : Int), (iφ : Int), i]) / r i ∧
      sphTensorDivergence false r dr a iθ i =
        (a [(iθ : Int), (ir : Int), i+1] - a [(iθ : Int), (ir : Int), i-1]) / (((2:Nat):K) * dr)
          + ((2:Nat):K) * a [(iθ : Int), (ir : Int), i] / r i ∧
      sphTensorDivergence false r dr a iφ i =
        (a [(iφ : Int), (ir : Int), i+1] - a [(iφ : Int), (ir : Int), i-1]) / (((2:Nat):K) * dr)
          + (((2:Nat):K) * a [(iφ : Int), (ir : Int), i] + a [(ir : Int), (iφ : Int), i]) / r i := by
  refine ⟨0, 1, 2, rfl, rfl, rfl, rfl, ?_, rfl, rfl, rfl, rfl, rfl, rfl, rfl, rfl, rfl⟩
  intro b hb
  have h1 := hb (i+1); have h2 := hb (i-1); have h3 := hb i
  cases cons <;> cases m <;> simp_all [sphDivergence, d1, shift]

/-- **C19** spherical grids, the remaining tensor kernels (conservative tensor divergence, double divergence in
both forms): they read exactly the components named `(r, r)` and `(φ, φ)` - with `ir, iφ` the indices
`get_axis_index` returns for the names - and the conservative tensor divergence stores its result as component
`ir` (`0` as the components `iθ`, `iφ`) -/
theorem operators_use_component_order_spherical_tensor (n : ℕ) (r : Int → K) (dr : K) (a : Arr K) (cons : Bool)
    (i : Int) :
    ∃ ir iθ iφ : ℕ, getAxisIndex .spherical n .r = some ir ∧ getAxisIndex .spherical n .θ = some iθ ∧
      getAxisIndex .spherical n .φ = some iφ ∧
      (∀ b : Arr K, (∀ k, b [(ir : Int), (ir : Int), k] = a [(ir : Int), (ir : Int), k]) →
        (∀ k, b [(iφ : Int), (iφ : Int), k] = a [(iφ : Int), (iφ : Int), k]) →
        sphTensorDivergence true r dr b ir i = sphTensorDivergence true r dr a ir i ∧
        sphTensorDoubleDivergence cons r dr b i = sphTensorDoubleDivergence cons r dr a i) ∧
      sphTensorDivergence true r dr a iθ i = ((0:Nat):K) ∧
      sphTensorDivergence true r dr a iφ i = ((0:Nat):K) := by
  refine ⟨0, 1, 2, rfl, rfl, rfl, ?_, rfl, rfl⟩
  intro b hb hp
  have h1 := hb (i+1); have h2 := hb (i-1); have h3 := hb i
  have p1 := hp (i+1); have p2 := hp (i-1); have p3 := hp i
  constructor
  · simp_all [sphTensorDivergence]
  · cases cons <;> simp_all [sphTensorDoubleDivergence]

end
end PdeVerif.Coords
